"""C06 - The written blockMeshDict is a faithful, well-formed rendering of the model.

Tie (F): FACE_MAP (through Side), Operation.get_patches_at_corner and Operation.get_face are evaluated
on their whole finite domain and written to coq/Gen/C06/Tables.v; Properties/C06.v proves them to be
the sides of the reference hexahedron (Base/Hex.v).
Tie (U): random programs over the public API (lofts on a distorted lattice in any of the 24 corner
numberings, patches, cell zones, projections of sides/edges/corners, merged pairs, default patch,
patch modifications before/after assembly, geometries, settings, deletions; shapes: box, cylinder,
ring, hemisphere, copies) are written by the real Mesh.write; the file is lexed (comments/whitespace
removed) and handed to Coq together with the program.  Inside Coq the file is parsed
(Model/C06_Render.parse) and compared with Model/C06_Mesh.ast_of of the program, the parsed file is
checked for well-formedness against Base/Hex.v and the debug VTK against the model.
Direct oracle: an independent Python reader of the file related to the user's declarations.
"""
import hashlib
import json
import os
import re
import warnings
from fractions import Fraction

import core
from core import GenError, CorrResult, Prop

SIDES = ["bottom", "top", "left", "right", "front", "back"]
COQ_SIDE = {"bottom": "Bottom", "top": "Top", "left": "Left", "right": "Right", "front": "Front", "back": "Back"}

# ---- reference hexahedron in Python (independent restatement, only for the direct oracle and the generator)
XYZ = [(0, 0, 0), (1, 0, 0), (1, 1, 0), (0, 1, 0), (0, 0, 1), (1, 0, 1), (1, 1, 1), (0, 1, 1)]
PLANE = {"bottom": (2, 0), "top": (2, 1), "front": (1, 0), "back": (1, 1), "left": (0, 0), "right": (0, 1)}


def h_is_edge(a, b):
    return 0 <= a < 8 and 0 <= b < 8 and sum(1 for k in range(3) if XYZ[a][k] != XYZ[b][k]) == 1


def h_side_corners(s):
    ax, v = PLANE[s]
    return [c for c in range(8) if XYZ[c][ax] == v]


def h_is_side_cycle(s, q):
    return (len(q) == 4 and len(set(q)) == 4 and set(q) == set(h_side_corners(s))
            and all(h_is_edge(q[i], q[(i + 1) % 4]) for i in range(4)))


def _compose(p, q):
    return [p[q[i]] for i in range(8)]


def _rot24():
    rz = [1, 2, 3, 0, 5, 6, 7, 4]
    rx = [3, 2, 6, 7, 0, 1, 5, 4]
    acc = [list(range(8))]
    todo = [list(range(8))]
    while todo:
        p = todo.pop(0)
        for g in (rz, rx):
            n = _compose(g, p)
            if n not in acc:
                acc.append(n)
                todo.append(n)
    assert len(acc) == 24
    return acc


ROT24 = _rot24()


def _cb():
    import classy_blocks as cb  # noqa
    return cb


# ------------------------------------------------------------------------------------------------
# lexer (trusted): comments and whitespace are below the token level

_TOKEN_RE = re.compile(r"[(){};]|[^\s(){};]+")
_INT_RE = re.compile(r"^[+-]?\d+$")
_NUM_RE = re.compile(r"^[+-]?(\d+\.?\d*|\.\d+)([eE][+-]?\d+)?$")
_PUNCT = {"(": "LP", ")": "RP", "{": "LB", "}": "RB", ";": "SC"}


def strip_comments(text):
    text = re.sub(r"/\*.*?\*/", " ", text, flags=re.S)
    return re.sub(r"//[^\n]*", " ", text)


def lex(text, comments=True):
    """-> list of ('W', str) | ('N', Fraction) | ('LP',) ..."""
    if comments:
        text = strip_comments(text)
    out = []
    for m in _TOKEN_RE.finditer(text):
        s = m.group(0)
        if s in _PUNCT:
            out.append((_PUNCT[s],))
        elif _INT_RE.match(s):
            out.append(("N", Fraction(int(s))))
        elif _NUM_RE.match(s):
            out.append(("N", Fraction(s)))   # the exact decimal value of the literal
        else:
            out.append(("W", s))
    return out


def _z(n):
    return ("(%d)" % n) if n < 0 else str(n)


def cq(fr):
    """a rational as a Coq term: decimal literals as n/10^k, dyadic ones as m*2^e"""
    fr = Fraction(fr)
    n, d = fr.numerator, fr.denominator
    if d == 1:
        return "(dc %s 0)" % _z(n)
    if d & (d - 1) == 0:
        return "(dy %s (-%d))" % (_z(n), d.bit_length() - 1)
    for kk in range(1, 25):
        if (10 ** kk) % d == 0:
            return "(dc %s %d)" % (_z(n * (10 ** kk // d)), kk)
    return "(q %s %d)" % (_z(n), d)


def cstr(s):
    if any(ord(ch) > 126 or ord(ch) < 32 for ch in s):
        raise GenError("non-printable character in a name: %r" % s)
    return '"' + s.replace('"', '""') + '"'


def ctok(t):
    if t[0] == "W":
        return "W " + cstr(t[1])
    if t[0] == "N":
        return "N " + cq(t[1])
    return t[0]


def clist(items, sep="; "):
    return "[" + sep.join(items) + "]"


def ctoks(ts):
    return clist([ctok(t) for t in ts])


def cpt(p):
    return "(%s, %s, %s)" % (cq(Fraction(float(p[0]))), cq(Fraction(float(p[1]))), cq(Fraction(float(p[2]))))


def cnats(l):
    return clist([str(int(x)) for x in l])


# ------------------------------------------------------------------------------------------------
# S1: tables (whole finite domain)

def tab_tables():
    cb = _cb()
    from classy_blocks.items.side import Side
    from classy_blocks.items.vertex import Vertex
    t = {}
    verts = [Vertex([float(XYZ[i][0]), float(XYZ[i][1]), float(XYZ[i][2])], i) for i in range(8)]
    t["side_quad"] = []
    for s in SIDES:
        side = Side(s, verts)
        q = [v.index for v in side.vertices]
        desc = lex(side.description)
        if desc != [("LP",)] + [("N", Fraction(i)) for i in q] + [("RP",)]:
            raise GenError("Side.description %r does not list Side.vertices %r" % (side.description, q))
        t["side_quad"].append((s, q))
    # which sides' patches meet at a corner
    t["corner_sides"] = []
    for c in range(8):
        op = cb.Loft(cb.Face([[0, 0, 0], [1, 0, 0], [1, 1, 0], [0, 1, 0]]), cb.Face([[0, 0, 1], [1, 0, 1], [1, 1, 1], [0, 1, 1]]))
        for s in SIDES:
            op.set_patch(s, "P_" + s)
        got = op.get_patches_at_corner(c)
        sides = []
        for name in sorted(got):
            if not name.startswith("P_") or name[2:] not in SIDES:
                raise GenError("get_patches_at_corner returned %r" % (name,))
            sides.append(name[2:])
        t["corner_sides"].append((c, [s for s in SIDES if s in sides]))
    # order in which an operation reports its patches / in which projected faces are collected
    op = cb.Loft(cb.Face([[0, 0, 0], [1, 0, 0], [1, 1, 0], [0, 1, 0]]), cb.Face([[0, 0, 1], [1, 0, 1], [1, 1, 1], [0, 1, 1]]))
    for s in SIDES:
        op.set_patch(s, "P_" + s)
    t["patch_order"] = [k for k in op.patch_names.keys()]
    if sorted(t["patch_order"]) != sorted(SIDES):
        raise GenError("patch_names does not report all six sides: %r" % (t["patch_order"],))
    return t


def emit_tables(t, header):
    o = ["(* GENERATED by harness/props/C06.py from the working tree of /repo -- do not edit *)",
         "From Coq Require Import List ZArith QArith String.",
         "From CB Require Import Base.Hex Model.C06_Render.",
         "Import ListNotations.", "Open Scope nat_scope.", "Open Scope string_scope.", ""]
    o.append("(* Side(orient, vertices 0..7).vertices as corner numbers = FACE_MAP as used by the writer *)")
    o.append("Definition tab_side_quad : list (side * list nat) :=\n  [" + ";\n   ".join(
        "(%s, %s)" % (COQ_SIDE[s], cnats(q)) for (s, q) in t["side_quad"]) + "].")
    o.append("(* Operation.get_patches_at_corner: sides whose patch is reported at a corner *)")
    o.append("Definition tab_corner_sides : list (nat * list side) :=\n  [" + ";\n   ".join(
        "(%d, %s)" % (c, clist([COQ_SIDE[s] for s in ss])) for (c, ss) in t["corner_sides"]) + "].")
    o.append("(* FoamFile header of constants.MESH_HEADER *)")
    o.append("Definition tab_header : list entry :=\n  " + centries(header) + ".")
    return "\n".join(o) + "\n"


def header_entries():
    from classy_blocks.util import constants
    ts = lex(constants.MESH_HEADER)
    if len(ts) < 3 or ts[0] != ("W", "FoamFile") or ts[1] != ("LB",) or ts[-1] != ("RB",):
        raise GenError("MESH_HEADER is not a FoamFile dictionary")
    return split_entries(ts[2:-1])


def split_entries(ts):
    out, cur = [], []
    for t in ts:
        if t == ("SC",):
            if not cur or cur[0][0] != "W":
                raise GenError("dictionary entry without a keyword")
            out.append((cur[0][1], cur[1:]))
            cur = []
        else:
            cur.append(t)
    if cur:
        raise GenError("unterminated dictionary entry")
    return out


def centries(es):
    return clist(["(%s, %s)" % (cstr(k), ctoks(v)) for (k, v) in es])


# ------------------------------------------------------------------------------------------------
# programs

XS = [0.0, 1.0, 2.5, 3.25]
YS = [0.0, 0.75, 2.0]
ZS = [0.0, 1.5, 2.0]
PATCHES = ["inlet", "outlet", "walls", "sym_1", "p.top", "cyc_a", "cyc_b"]
LABELS = ["terrain", "sphere0", "cyl_1"]
ZONES = ["fluid", "solid", "porous_1"]
KINDS = ["patch", "wall", "empty", "symmetry", "cyclic"]
SETTINGS = ["neighbourPatch cyc_b", "transform rotational", "rotationAxis (0 0 1)", "inGroups 1(wall)",
            "matchTolerance 1e-3", "separationVector (0.5 0 -1)"]
GEOMS = [["type triSurfaceMesh", 'file "terrain.stl"'], ["type searchableSphere", "centre (0 0 0)", "radius 2.5"],
         ["type searchableCylinder", "point1 (0 0 0)", "point2 (1 0 0)", "radius 0.5"], ["type searchablePlane"]]


def node_pos(node, jit):
    i, j, k = node
    o = jit.get("%d,%d,%d" % node, [0, 0, 0])
    return [XS[i] + o[0] / 16.0, YS[j] + o[1] / 16.0, ZS[k] + o[2] / 16.0]


def cell_nodes(cell, perm):
    i, j, k = cell
    return [(i + XYZ[perm[t]][0], j + XYZ[perm[t]][1], k + XYZ[perm[t]][2]) for t in range(8)]


def local_axis_global(nodes, a):
    other = {0: 1, 1: 3, 2: 4}[a]
    d = [g for g in range(3) if nodes[0][g] != nodes[other][g]]
    assert len(d) == 1
    return d[0]


def local_side_of(nodes, face_nodes):
    for s in SIDES:
        if {nodes[c] for c in h_side_corners(s)} == set(face_nodes):
            return s
    return None


def gen_program(rng, max_ops=10):
    jit = {}
    for i in range(4):
        for j in range(3):
            for k in range(3):
                if rng.random() < 0.3:
                    jit["%d,%d,%d" % (i, j, k)] = [rng.randint(-2, 2) for _ in range(3)]
    all_cells = [(i, j, k) for i in range(3) for j in range(2) for k in range(2)]
    n = rng.randint(1, max_ops)
    cells = rng.sample(all_cells, n)
    cnt = [[rng.randint(1, 6) for _ in range(3)], [rng.randint(1, 6) for _ in range(2)], [rng.randint(1, 6) for _ in range(2)]]
    ents = []
    for cell in cells:
        perm = rng.choice(ROT24)
        nodes = cell_nodes(cell, perm)
        pts = [node_pos(nd, jit) for nd in nodes]
        calls = []
        for a in range(3):
            g = local_axis_global(nodes, a)
            c = cnt[g][cell[g]]
            style = rng.random()
            if style < 0.5:
                calls.append(["chop", a, {"count": c}])
            elif style < 0.65:
                calls.append(["chop", a, {"count": c, "c2c_expansion": rng.choice([1.1, 1.2, 0.9])}])
            elif style < 0.8 and c >= 2:
                c1 = rng.randint(1, c - 1)
                calls.append(["chop", a, {"count": c1, "length_ratio": 0.5}])
                calls.append(["chop", a, {"count": c - c1, "length_ratio": 0.5, "c2c_expansion": rng.choice([1.0, 1.15])}])
            elif style < 0.93 and c >= 3:
                calls.append(["chop", a, {"count": c, "c2c_expansion": rng.choice([1.1, 1.25]), "preserve": rng.choice(["start_size", "end_size"])}])
            elif n > 1 and rng.random() < 0.3:
                pass  # left to propagation
            else:
                calls.append(["chop", a, {"count": c}])
        for s in SIDES:
            if rng.random() < 0.35:
                calls.append(["set_patch", [s], rng.choice(PATCHES)])
        if rng.random() < 0.3:
            calls.append(["set_patch", rng.sample(SIDES, 2), rng.choice(PATCHES)])
        for s in SIDES:
            if rng.random() < 0.12:
                calls.append(["project_side", s, rng.choice(LABELS), rng.random() < 0.3, rng.random() < 0.4])
        if rng.random() < 0.2:
            lab = rng.choice(LABELS)
            calls.append(["project_corner", rng.randrange(8), [lab] if rng.random() < 0.6 else rng.sample(LABELS, 2)])
        if rng.random() < 0.15:
            e = rng.choice([(0, 1), (1, 2), (2, 3), (3, 0), (4, 5), (5, 6), (6, 7), (7, 4), (0, 4), (1, 5), (2, 6), (3, 7)])
            calls.append(["project_edge", e[0], e[1], rng.choice(LABELS)])
        if rng.random() < 0.3:
            calls.append(["zone", rng.choice(ZONES)])
        rng.shuffle(calls)
        ents.append({"kind": "op", "cell": list(cell), "perm": perm, "pts": pts, "calls": calls})
    dups = []
    if rng.random() < 0.3:
        # a duplicate made with Operation.copy(), moved clear of the others, THEN given patches / projections of its own:
        # it carries what the original had when it was copied, and what is declared on it afterwards stays on it
        cands = [k for k, e in enumerate(ents) if {c[1] for c in e["calls"] if c[0] == "chop"} == {0, 1, 2}]
        if cands:
            k = rng.choice(cands)
            src = ents[k]
            shift = [0.0, 0.0, 40.0]
            own = []
            for sd in rng.sample(SIDES, rng.randint(1, 3)):
                own.append(["set_patch", [sd], rng.choice(PATCHES)])
            if rng.random() < 0.4:
                own.append(["project_side", rng.choice(SIDES), rng.choice(LABELS), False, rng.random() < 0.4])
            dups.append({"kind": "op", "cell": list(src["cell"]), "perm": src["perm"], "dup_of": k, "shift": shift,
                         "pts": [[p[j] + shift[j] for j in range(3)] for p in src["pts"]],
                         "calls": [json.loads(json.dumps(c)) for c in src["calls"]] + own, "own_calls": own})
    prog = {"entities": ents, "merged": [], "default": None, "modify_pre": [], "modify_post": [], "geometry": [],
            "settings": [], "deleted": [], "debug": rng.random() < 0.5}
    # face-merged neighbours
    pairs = []
    for x, ea in enumerate(ents):
        for y, eb in enumerate(ents):
            if x < y:
                na = cell_nodes(tuple(ea["cell"]), ea["perm"])
                nb = cell_nodes(tuple(eb["cell"]), eb["perm"])
                common = set(na) & set(nb)
                if len(common) == 4:
                    pairs.append((x, y, local_side_of(na, common), local_side_of(nb, common)))
    rng.shuffle(pairs)
    for k, (x, y, sa, sb) in enumerate(pairs[: rng.choice([0, 0, 1, 1, 2])]):
        ents[x]["calls"].append(["set_patch", [sa], "mst_%d" % k])
        ents[y]["calls"].append(["set_patch", [sb], "slv_%d" % k])
        prog["merged"].append(["mst_%d" % k, "slv_%d" % k])
    if rng.random() < 0.15:
        prog["merged"].append(rng.sample(PATCHES, 2))
    if prog["merged"] and rng.random() < 0.35:
        # declarations are a list: one slave under several masters, one master over several slaves, a pair stated twice
        m0, s0 = rng.choice(prog["merged"])
        extra = rng.choice([[rng.choice(PATCHES), s0], [m0, rng.choice(PATCHES)], [m0, s0]])
        prog["merged"].insert(rng.randrange(len(prog["merged"]) + 1), extra)
    if rng.random() < 0.5:
        prog["default"] = [rng.choice(["defaultFaces", "rest"]), rng.choice(KINDS)]
        if rng.random() < 0.3:
            # the default patch bears the name of a patch that also has sides of its own (and is modified below)
            prog["default"][0] = rng.choice(PATCHES)
            prog["modify_post"].append([prog["default"][0], rng.choice(KINDS), rng.sample(SETTINGS, rng.randint(1, 2))])
    for lst in ("modify_pre", "modify_post"):
        for _ in range(rng.choice([0, 0, 1, 2])):
            prog[lst].append([rng.choice(PATCHES + ["unused_p"]), rng.choice(KINDS),
                              None if rng.random() < 0.4 else rng.sample(SETTINGS, rng.randint(0, 3))])
    for _ in range(rng.choice([0, 1, 1, 2, 3])):
        prog["geometry"].append({rng.choice(LABELS): rng.choice(GEOMS)})
    if rng.random() < 0.2:
        prog["geometry"].append({"aux_a": GEOMS[3], "aux_b": GEOMS[1]})
    if rng.random() < 0.5:
        prog["settings"].append(["scale", rng.choice([0.001, 1, 2.5, 10])])
    if rng.random() < 0.3:
        prog["settings"].append(["mergeType", "points"])
    if rng.random() < 0.2:
        prog["settings"].append(["checkFaceCorrespondence", "false"])
    if rng.random() < 0.2:
        prog["settings"].append(["fastMerge", "true"])
    if rng.random() < 0.1:
        prog["settings"].append(["scale", None])
    if rng.random() < 0.3 and n > 1:
        prog["deleted"].append([rng.randrange(n), 0])
    for d in dups:
        # what the original carries when it is copied (everything declared on it above) + what the duplicate gets itself
        d["calls"] = [json.loads(json.dumps(c)) for c in ents[d["dup_of"]]["calls"]] + d["own_calls"]
    prog["entities"] += dups
    if rng.random() < 0.15:
        # the whole model far from the origin (plant / map coordinates): which corners are one vertex is a matter of the
        # absolute merge tolerance, whatever the size of the coordinates
        off = rng.choice([120000.0, -65536.0])
        for e in prog["entities"]:
            if e["kind"] == "op":
                e["pts"] = [[p[0] + off, p[1], p[2]] for p in e["pts"]]
    return prog


def gen_shape_program(rng, kind=None):
    kind = kind or rng.choice(["hemisphere", "hemisphere_copy", "cylinder", "ring", "box", "two_spheres", "sphere_and_copy"])
    ents = []
    n = rng.randint(1, 4)

    def sphere(center, copy=None):
        r = rng.choice([1.0, 0.75, 2.0])
        e = {"kind": "shape", "cls": "Hemisphere", "args": [center, [center[0] + r, center[1], center[2]], [0, 0, 1]],
             "chops": [["chop_axial", {"count": n}], ["chop_radial", {"count": n + 1}], ["chop_tangential", {"count": n + 2}]],
             "calls": [], "copy": copy}
        if rng.random() < 0.7:
            e["calls"].append(["set_outer_patch", "walls"])
        if rng.random() < 0.5:
            e["calls"].append(["set_start_patch", "sym_1"])
        return e

    if kind == "hemisphere":
        ents.append(sphere([5.0, 5.0, 5.0]))
    elif kind == "hemisphere_copy":
        ents.append(sphere([5.0, 5.0, 5.0], copy=[0.0, 0.0, 0.0]))
    elif kind == "two_spheres":
        ents.append(sphere([5.0, 5.0, 5.0]))
        ents.append(sphere([-5.0, 1.0, 0.25]))
    elif kind == "sphere_and_copy":
        # the original AND a moved (sometimes scaled) copy of it in one mesh: each needs its own geometry entry
        ents.append(sphere([5.0, 5.0, 5.0]))
        ents.append({"kind": "shape", "cls": "Hemisphere", "copy_of": 0, "translate": [rng.choice([-6.0, 4.0, 8.0]), rng.choice([0.0, 3.0]), 0.5],
                     "scale": rng.choice([None, 2.0, 0.5]), "args": [], "chops": [], "calls": [], "copy": None})
    elif kind == "cylinder":
        e = {"kind": "shape", "cls": "Cylinder", "args": [[0.0, 0.0, 0.0], [0.0, 0.0, 2.0], [0.5, 0.0, 0.0]],
             "chops": [["chop_axial", {"count": n}], ["chop_radial", {"count": n + 1}], ["chop_tangential", {"count": n + 2}]],
             "calls": [["set_start_patch", "inlet"], ["set_end_patch", "outlet"], ["set_outer_patch", "walls"]], "copy": None}
        ents.append(e)
    elif kind == "ring":
        e = {"kind": "shape", "cls": "ExtrudedRing", "args": [[0.0, 0.0, 0.0], [0.0, 0.0, 1.0], [1.0, 0.0, 0.0], 0.5],
             "chops": [["chop_axial", {"count": n}], ["chop_radial", {"count": n + 1}], ["chop_tangential", {"count": n + 2}]],
             "calls": [["set_inner_patch", "inlet"], ["set_outer_patch", "walls"]], "copy": None}
        ents.append(e)
    else:
        e = {"kind": "shape", "cls": "Box", "args": [[0.0, 0.0, 0.0], [1.0, 2.0, 0.5]],
             "chops": [["chop", 0, {"count": n}], ["chop", 1, {"count": n + 1}], ["chop", 2, {"count": n + 2}]],
             "calls": [["set_patch", ["top", "left"], "walls"], ["project_side", "bottom", "terrain", True, True]], "copy": None}
        ents.append(e)
    for e in ents:
        if rng.random() < 0.4:
            e["after_add"] = [["translate", [rng.choice([-3.0, 2.0, 7.0]), rng.choice([0.0, 1.0]), rng.choice([0.0, -2.0])]]]
            if rng.random() < 0.5:
                e["after_add"].append(["scale", rng.choice([2.0, 0.5])])
            if rng.random() < 0.3:
                e["after_add"].append(["rotate", 0.5, [1.0, 2.0, 2.0], [0.0, 0.0, 0.0]])
            if rng.random() < 0.35:
                e["after_add"].append(["mirror", rng.choice([[0.0, 0.0, 1.0], [1.0, 1.0, 0.0], [2.0, 0.0, -1.0]]), [0.0, 0.5, 0.0]])
    prog = {"entities": ents, "merged": [], "default": None, "modify_pre": [], "modify_post": [], "geometry": [],
            "settings": [], "deleted": [], "debug": rng.random() < 0.5}
    if rng.random() < 0.5:
        prog["default"] = ["rest", "wall"]
    if rng.random() < 0.5:
        prog["modify_pre"].append(["walls", "wall", None])
    if rng.random() < 0.5:
        prog["geometry"].append({"terrain": GEOMS[0]})
    if kind in ("hemisphere", "two_spheres") and rng.random() < 0.3:
        prog["deleted"].append([0, rng.randrange(4)])
    return prog


def systematic_programs():
    """every side x {patch, projection} on a single loft in two numberings (used by the search stage)"""
    out = []
    for perm in (ROT24[0], ROT24[7]):
        nodes = cell_nodes((0, 0, 0), perm)
        pts = [node_pos(nd, {}) for nd in nodes]
        calls = [["chop", a, {"count": a + 2}] for a in range(3)]
        for i, s in enumerate(SIDES):
            calls.append(["set_patch", [s], "p_" + s])
            calls.append(["project_side", s, LABELS[i % 3], False, i % 2 == 0])
        calls.append(["zone", "fluid"])
        out.append({"entities": [{"kind": "op", "cell": [0, 0, 0], "perm": perm, "pts": pts, "calls": calls}],
                    "merged": [["p_top", "p_left"]], "default": ["rest", "wall"], "modify_pre": [["p_top", "wall", ["inGroups 1(wall)"]]],
                    "modify_post": [], "geometry": [{"terrain": GEOMS[0]}], "settings": [["scale", 0.001]], "deleted": [], "debug": True})
    return out


# ------------------------------------------------------------------------------------------------
# running a program on the implementation

class Discard(Exception):
    """the program is not a valid input (gradings undefined/inconsistent ...): not C06's business"""


def apply_op_calls(op, calls):
    for c in calls:
        if c[0] == "chop":
            op.chop(c[1], **c[2])
        elif c[0] == "set_patch":
            op.set_patch(c[1] if len(c[1]) > 1 else c[1][0], c[2])
        elif c[0] == "project_side":
            op.project_side(c[1], c[2], edges=c[3], points=c[4])
        elif c[0] == "project_corner":
            op.project_corner(c[1], c[2] if len(c[2]) > 1 else c[2][0])
        elif c[0] == "project_edge":
            op.project_edge(c[1], c[2], c[3])
        elif c[0] == "zone":
            op.set_cell_zone(c[1])
        else:
            raise GenError("unknown call %r" % (c,))


def build_entity(e, built=()):
    cb = _cb()
    if e["kind"] == "op" and e.get("dup_of") is not None:
        op = built[e["dup_of"]].copy().translate(e["shift"])
        apply_op_calls(op, e["own_calls"])
        return op
    if e["kind"] == "op":
        op = cb.Loft(cb.Face(e["pts"][:4]), cb.Face(e["pts"][4:]))
        apply_op_calls(op, e["calls"])
        return op
    if e.get("copy_of") is not None:
        sh = built[e["copy_of"]].copy().translate(e["translate"])
        if e.get("scale"):
            sh = sh.scale(e["scale"])
        return sh
    cls = getattr(cb, e["cls"])
    sh = cls(*e["args"])
    for c in e["chops"]:
        if c[0] == "chop":
            sh.chop(c[1], **c[2])
        else:
            getattr(sh, c[0])(**c[1])
    for c in e["calls"]:
        if c[0] == "set_patch":
            sh.set_patch(c[1], c[2])
        elif c[0] == "project_side":
            sh.project_side(c[1], c[2], edges=c[3], points=c[4])
        else:
            getattr(sh, c[0])(c[1])
    if e.get("copy") is not None:
        sh = sh.copy()
        if any(x != 0 for x in e["copy"]):
            sh = sh.translate(e["copy"])
    return sh


def entity_ops(ent):
    from classy_blocks.construct.operations.operation import Operation
    return [ent] if isinstance(ent, Operation) else list(ent.operations)


def op_attribute_calls(op):
    """the addressing state of an operation of a built-in shape, read back as equivalent calls"""
    from classy_blocks.util.constants import SIDES_MAP
    from classy_blocks.construct.edges import Project
    calls = []
    for orient, name in op.patch_names.items():
        calls.append(["set_patch", [orient], name])
    for i, orient in enumerate(SIDES_MAP):
        if op.side_projects[i] is not None:
            calls.append(["project_side", orient, op.side_projects[i], False, False])
    if op.bottom_face.projected_to is not None:
        calls.append(["project_side", "bottom", op.bottom_face.projected_to, False, False])
    if op.top_face.projected_to is not None:
        calls.append(["project_side", "top", op.top_face.projected_to, False, False])
    labels = set()
    for c, p in enumerate(op.points):
        if len(p.projected_to) > 0:
            calls.append(["project_corner", c, [str(x) for x in p.projected_to]])
            labels.update(str(x) for x in p.projected_to)
    for x in calls:
        if x[0] == "project_side":
            labels.add(x[2])
    for ed in list(op.bottom_face.edges) + list(op.top_face.edges) + list(op.side_edges):
        if isinstance(ed, Project):
            labels.update(str(x) for x in ed.label)
    if op.cell_zone:
        calls.append(["zone", op.cell_zone])
    return calls, sorted(labels)


def life_of(prog):
    """what the mesh object went through before the observed write: 0 nothing, 1 written and back-ported, 2 assembled and
    cleared (chosen by the program itself, so that replays agree)"""
    h = int(hashlib.sha1(json.dumps(prog, sort_keys=True, default=str).encode()).hexdigest()[:6], 16) % 6
    return h if h < 3 else 0


def run_program(prog, work):
    """-> observation dict (JSON-serialisable) ; raises Discard for programs whose gradings do not resolve"""
    cb = _cb()
    from classy_blocks.base import exceptions as ex
    mesh = cb.Mesh()
    with warnings.catch_warnings():
        warnings.simplefilter("ignore")
        try:
            ents = []
            for e in prog["entities"]:
                ents.append(build_entity(e, ents))
        except ex.EdgeCreationError as e:
            raise Discard("edge projected to more than two geometries: %s" % e)
        for gi, g in enumerate(prog["geometry"]):
            gd = dict(g)
            if gi == 0 and life_of(prog) != 1:
                # the user's dictionary has been handed to ANOTHER mesh before, which then declared more geometry: a mesh
                # writes what was declared for it, and the user's dictionary stays what the user made it
                other = cb.Mesh()
                other.add_geometry(gd)
                other.add_geometry({"zz_other_mesh": ["type searchablePlane", "planeType pointAndNormal", "point (9 9 9)", "normal (0 0 1)"]})
            mesh.add_geometry(gd)
        for (n, k, st) in prog["modify_pre"]:
            mesh.modify_patch(n, k, None if st is None else list(st))
        for (m, s) in prog["merged"]:
            mesh.merge_patches(m, s)
        if prog["default"]:
            mesh.set_default_patch(prog["default"][0], prog["default"][1])
        for (k, v) in prog["settings"]:
            mesh.settings[k] = v
        for ent in ents:
            mesh.add(ent)
        # entities are processed lazily: what is written is the entity as it is when the mesh is assembled, also when
        # it was moved or resized after mesh.add()
        for ei, e in enumerate(prog["entities"]):
            for t in e.get("after_add") or []:
                if t[0] == "translate":
                    ents[ei].translate(t[1])
                elif t[0] == "scale":
                    ents[ei].scale(t[1])
                elif t[0] == "rotate":
                    ents[ei].rotate(t[1], t[2], t[3])
                elif t[0] == "mirror":
                    ents[ei].mirror(t[1], t[2])
        for (ei, oi) in prog["deleted"]:
            mesh.delete(entity_ops(ents[ei])[oi])
        deleted = {(ei, oi) for (ei, oi) in prog["deleted"]}
        # what the model is given: read before anything is assembled
        obs_ents = []
        for ei, ent in enumerate(ents):
            ops = []
            is_shape = prog["entities"][ei]["kind"] != "op"
            req = []
            for oi, op in enumerate(entity_ops(ent)):
                pts = [[float(x) for x in p] for p in op.point_array]
                if is_shape:
                    calls, labels = op_attribute_calls(op)
                    req += labels
                else:
                    calls = [c for c in prog["entities"][ei]["calls"] if c[0] != "chop" and c[0] != "project_edge"]
                ops.append({"pts": pts, "deleted": (ei, oi) in deleted, "calls": calls,
                            "chops": ([c for c in prog["entities"][ei]["calls"] if c[0] == "chop"] if not is_shape else None)})
            geom = ent.geometry
            obs_ents.append({"ops": ops, "geom": None if geom is None else {str(k): [str(p) for p in v] for k, v in geom.items()},
                             "shape": is_shape, "req": sorted(set(req)) if (is_shape and geom is not None) else []})
        settings = None
        path = os.path.join(work, "blockMeshDict.%d" % os.getpid())
        vpath = path + ".vtk"
        try:
            if prog["modify_post"]:
                mesh.assemble()
                for (n, k, st) in prog["modify_post"]:
                    mesh.modify_patch(n, k, None if st is None else list(st))
            if life_of(prog) == 1:
                # the mesh has already been written once and back-ported (cleared and re-assembled from the same
                # operations) before the file that is compared is written: same model, same file
                mesh.write(path, None)
                mesh.backport()
            elif life_of(prog) == 2 and not prog["modify_post"]:
                mesh.assemble()
                mesh.clear()
            mesh.write(path, vpath if prog["debug"] else None)
        except (ex.UndefinedGradingsError, ex.InconsistentGradingsError) as e:
            raise Discard(type(e).__name__)
        except ValueError as e:
            if "size" in str(e) and "must be between" in str(e):
                raise Discard("grading relation rejected the sizes")
            raise
        settings = [[str(k), None if v is None else str(v)] for k, v in mesh.settings.items()]
        with open(path) as f:
            text = f.read()
        vtk = None
        if prog["debug"]:
            with open(vpath) as f:
                vtk = f.read()
            os.remove(vpath)
        os.remove(path)
        # observed (not modelled): counts and grading specifications
        blocks = []
        for b in mesh.block_list.blocks:
            wires = []
            for w in b.wire_list:
                wires.append([int(w.corners[0]), int(w.corners[1]), [[float(x) for x in sp] for sp in w.grading.specification]])
            blocks.append({"counts": [int(a.count) for a in b.axes], "wires": wires})
    k = 0
    for e in obs_ents:
        for o in e["ops"]:
            if not o["deleted"]:
                if k >= len(blocks):
                    raise GenError("fewer blocks than non-deleted operations")
                o["block"] = blocks[k]
                k += 1
    return {"entities": obs_ents, "settings": settings, "file": text, "vtk": vtk, "nblocks": len(blocks)}


# ------------------------------------------------------------------------------------------------
# the Coq side of a case

def coq_ocall(c):
    if c[0] == "set_patch":
        return "SetPatch %s %s" % (clist([COQ_SIDE[s] for s in c[1]]), cstr(c[2]))
    if c[0] == "project_side":
        return "ProjSide %s %s %s" % (COQ_SIDE[c[1]], cstr(c[2]), "true" if c[4] else "false")
    if c[0] == "project_corner":
        return "ProjCorner %d %s" % (c[1], clist([cstr(x) for x in c[2]]))
    raise GenError("no model for call %r" % (c,))


def coq_spec(sp):
    return clist(["(%s, %s, %s)" % (cq(Fraction(float(t[0]))), cq(Fraction(float(t[1]))), cq(Fraction(float(t[2])))) for t in sp])


def coq_op(o):
    zone = ""
    calls = []
    for c in o["calls"]:
        if c[0] == "zone":
            zone = c[1]
        else:
            calls.append(coq_ocall(c))
    b = o.get("block")
    counts = cnats(b["counts"]) if b else "[]"
    wires = clist(["(%d, %d, %s)" % (w[0], w[1], coq_spec(w[2])) for w in b["wires"]]) if b else "[]"
    return "mkOp %s %s %s %s %s %s" % (clist([cpt(p) for p in o["pts"]]), "true" if o["deleted"] else "false",
                                      clist(calls), cstr(zone), counts, wires)


def coq_geom(g):
    return clist(["(%s, %s)" % (cstr(k), clist([ctoks(lex(p, comments=False)) for p in v])) for k, v in g.items()])


def coq_mod(m):
    n, k, st = m
    return "(%s, %s, %s)" % (cstr(n), cstr(k), "None" if st is None else "Some " + clist([ctoks(lex(s, comments=False)) for s in st]))


def parse_vtk(text):
    """-> (points [[Fraction]*3], cells [[int]*8]) ; raises ValueError on any malformation"""
    lines = [l.strip() for l in text.splitlines()]
    if lines[0] != "# vtk DataFile Version 2.0" or lines[2] != "ASCII":
        raise ValueError("vtk header")
    it = iter([l for l in lines[3:] if l])
    if next(it) != "DATASET UNSTRUCTURED_GRID":
        raise ValueError("vtk dataset")
    m = re.match(r"^POINTS (\d+) float$", next(it))
    if not m:
        raise ValueError("vtk POINTS")
    npts = int(m.group(1))
    pts = []
    for _ in range(npts):
        p = next(it).split()
        if len(p) != 3:
            raise ValueError("vtk point")
        pts.append([float(x) for x in p])
    m = re.match(r"^CELLS (\d+) (\d+)$", next(it))
    if not m or int(m.group(2)) != 9 * int(m.group(1)):
        raise ValueError("vtk CELLS")
    nc = int(m.group(1))
    cells = []
    for _ in range(nc):
        p = next(it).split()
        if len(p) != 9 or p[0] != "8":
            raise ValueError("vtk cell")
        cells.append([int(x) for x in p[1:]])
    m = re.match(r"^CELL_TYPES (\d+)$", next(it))
    if not m or int(m.group(1)) != nc:
        raise ValueError("vtk CELL_TYPES")
    for _ in range(nc):
        if next(it) != "12":
            raise ValueError("vtk cell type")
    return pts, cells


def coq_case(k, prog, obs, toks):
    ents = []
    for e in obs["entities"]:
        ents.append("mkEnt %s %s" % (clist([coq_op(o) for o in e["ops"]], ";\n      "),
                                    "None" if e["geom"] is None else "(Some %s)" % coq_geom(e["geom"])))
    settings = clist(["(%s, %s)" % (cstr(kk), "None" if v is None else "Some " + ctoks(lex(v, comments=False))) for kk, v in obs["settings"]])
    mesh = ("mkMesh tab_header %s\n    %s\n    %s\n    %s\n    %s\n    %s\n    %s" % (
        settings,
        clist([coq_geom(g) for g in prog["geometry"]]),
        clist([coq_mod(m) for m in prog["modify_pre"]]),
        clist(["(%s, %s)" % (cstr(a), cstr(b)) for a, b in prog["merged"]]),
        "None" if not prog["default"] else "(Some (%s, %s))" % (cstr(prog["default"][0]), cstr(prog["default"][1])),
        clist(ents, ";\n     "),
        clist([coq_mod(m) for m in prog["modify_post"]])))
    req = sorted({l for e in obs["entities"] for l in e["req"]})
    vtk = "None"
    if obs["vtk"] is not None:
        try:
            pts, cells = parse_vtk(obs["vtk"])
            vtk = "(Some (%s, %s))" % (clist([cpt(p) for p in pts]), clist([cnats(c) for c in cells]))
        except (ValueError, StopIteration):
            vtk = "(Some ([], [[0]]))"   # malformed: guaranteed to disagree
    return "(%d, check_case fm (%s) %s\n   %s\n   %s)" % (k, mesh, clist([cstr(x) for x in req]), ctoks(toks), vtk)


CASE_HEAD = """From Coq Require Import List Bool Arith ZArith QArith String.
From CB Require Import Base.Hex Model.C06_Render Model.C06_Mesh Gen.C06.Tables.
Import ListNotations.
Open Scope nat_scope.
Open Scope string_scope.
Definition fm := fm_of_table tab_side_quad.
Eval vm_compute in (filter (fun r : nat * list nat => negb (match snd r with [] => true | _ => false end)) [
"""
CASE_TAIL = """]).
"""


def parse_results(so):
    m = re.search(r"=\s*(\[.*\])\s*:\s*list \(nat \* list nat\)", so, flags=re.S)
    if not m:
        raise RuntimeError("cannot parse Coq output: %r" % so[:400])
    body = m.group(1)
    out = []
    for mm in re.finditer(r"\((\d+),\s*\[([^\]]*)\]\)", body):
        out.append((int(mm.group(1)), [int(x) for x in mm.group(2).replace("\n", " ").split(";") if x.strip()]))
    return out


CODES = {0: "file does not parse", 1: "FoamFile header", 2: "settings", 3: "geometry", 4: "vertices", 5: "blocks", 6: "faces",
         7: "boundary", 8: "defaultPatch", 9: "mergePatchPairs", 21: "block entry malformed", 22: "index out of range",
         23: "quad is not a side of a block", 24: "geometry of a built-in shape undefined", 31: "vtk points", 32: "vtk cells"}


# ------------------------------------------------------------------------------------------------
# direct oracle: an independent reader of the file related to the user's declarations

class FileError(Exception):
    pass


class Reader:
    def __init__(self, toks):
        self.t = toks
        self.i = 0

    def peek(self):
        return self.t[self.i] if self.i < len(self.t) else None

    def next(self):
        if self.i >= len(self.t):
            raise FileError("unexpected end of file")
        x = self.t[self.i]
        self.i += 1
        return x

    def want(self, tok):
        x = self.next()
        if x != tok:
            raise FileError("expected %r, found %r (token %d)" % (tok, x, self.i - 1))

    def word(self):
        x = self.next()
        if x[0] != "W":
            raise FileError("expected a word, found %r (token %d)" % (x, self.i - 1))
        return x[1]

    def integer(self):
        x = self.next()
        if x[0] != "N" or x[1].denominator != 1 or x[1] < 0:
            raise FileError("expected an index, found %r" % (x,))
        return int(x[1])

    def number(self):
        x = self.next()
        if x[0] != "N":
            raise FileError("expected a number, found %r" % (x,))
        return x[1]

    def until(self, tok):
        out = []
        while self.peek() != tok:
            out.append(self.next())
        self.next()
        return out

    def ints_in_parens(self):
        self.want(("LP",))
        out = []
        while self.peek() != ("RP",):
            out.append(self.integer())
        self.next()
        return out


def read_file(text):
    r = Reader(lex(text))
    f = {"settings": [], "geometry": [], "vertices": [], "blocks": [], "faces": [], "patches": [], "default": None, "merged": []}
    r.want(("W", "FoamFile"))
    r.want(("LB",))
    f["header"] = split_entries(r.until(("RB",)))
    while r.peek() not in (("W", "geometry"), ("W", "vertices")):
        k = r.word()
        f["settings"].append((k, r.until(("SC",))))
    if r.peek() == ("W", "geometry"):
        r.next()
        r.want(("LB",))
        while r.peek() != ("RB",):
            name = r.word()
            r.want(("LB",))
            props = []
            while r.peek() != ("RB",):
                props.append(r.until(("SC",)))
            r.next()
            f["geometry"].append((name, props))
        r.next()
        r.want(("SC",))
    r.want(("W", "vertices"))
    r.want(("LP",))
    while r.peek() != ("RP",):
        proj = False
        if r.peek() == ("W", "project"):
            proj = True
            r.next()
        r.want(("LP",))
        p = [r.number(), r.number(), r.number()]
        r.want(("RP",))
        labels = []
        if proj:
            r.want(("LP",))
            while r.peek() != ("RP",):
                labels.append(r.word())
            r.next()
        f["vertices"].append((p, labels))
    r.next()
    r.want(("SC",))
    r.want(("W", "blocks"))
    r.want(("LP",))
    while r.peek() != ("RP",):
        r.want(("W", "hex"))
        vids = r.ints_in_parens()
        zone = ""
        if r.peek() is not None and r.peek()[0] == "W":
            zone = r.word()
        counts = r.ints_in_parens()
        kw = r.word()
        r.want(("LP",))
        depth, body = 0, []
        while not (depth == 0 and r.peek() == ("RP",)):
            x = r.next()
            depth += 1 if x == ("LP",) else (-1 if x == ("RP",) else 0)
            body.append(x)
        r.next()
        f["blocks"].append({"vids": vids, "zone": zone, "counts": counts, "kw": kw, "grading": body})
    r.next()
    r.want(("SC",))
    r.want(("W", "edges"))
    r.want(("LP",))
    depth = 0
    f["edges"] = []
    while not (depth == 0 and r.peek() == ("RP",)):
        x = r.next()
        depth += 1 if x == ("LP",) else (-1 if x == ("RP",) else 0)
        f["edges"].append(x)
    r.next()
    r.want(("SC",))
    r.want(("W", "faces"))
    r.want(("LP",))
    while r.peek() != ("RP",):
        r.want(("W", "project"))
        qd = r.ints_in_parens()
        f["faces"].append((qd, r.word()))
    r.next()
    r.want(("SC",))
    r.want(("W", "boundary"))
    r.want(("LP",))
    while r.peek() != ("RP",):
        name = r.word()
        r.want(("LB",))
        r.want(("W", "type"))
        kind = r.word()
        r.want(("SC",))
        st = []
        while r.peek() != ("W", "faces"):
            st.append(r.until(("SC",)))
        r.next()
        r.want(("LP",))
        quads = []
        while r.peek() != ("RP",):
            quads.append(r.ints_in_parens())
        r.next()
        r.want(("SC",))
        r.want(("RB",))
        f["patches"].append({"name": name, "kind": kind, "settings": st, "quads": quads})
    r.next()
    r.want(("SC",))
    if r.peek() == ("W", "defaultPatch"):
        r.next()
        r.want(("LB",))
        r.want(("W", "name"))
        n = r.word()
        r.want(("SC",))
        r.want(("W", "type"))
        k = r.word()
        r.want(("SC",))
        r.want(("RB",))
        f["default"] = [n, k]
    r.want(("W", "mergePatchPairs"))
    r.want(("LP",))
    while r.peek() != ("RP",):
        r.want(("LP",))
        a = r.word()
        b = r.word()
        r.want(("RP",))
        f["merged"].append([a, b])
    r.next()
    r.want(("SC",))
    if r.peek() is not None:
        raise FileError("trailing tokens after mergePatchPairs")
    return f


PRINT_TOL = Fraction(5000001, 10 ** 15)


def block_side_of(vids, quad):
    """the side of the block (given by its 8 vertex indexes) of which [quad] is a proper cycle"""
    for s in SIDES:
        sc = h_side_corners(s)
        if sorted(vids[c] for c in sc) != sorted(quad):
            continue
        # positions: recover corner numbers (degenerate blocks: any consistent choice)
        cands = [[]]
        for x in quad:
            cands = [cc + [c] for cc in cands for c in sc if vids[c] == x and c not in cc]
        if any(h_is_side_cycle(s, cc) for cc in cands):
            return s
    return None


def expected_state(prog, obs):
    """what the user declared, per non-deleted operation, in writing order (independent of the Coq model)"""
    ops = []
    for e in obs["entities"]:
        for o in e["ops"]:
            if o["deleted"]:
                continue
            patch, pface, zone = {}, {}, ""
            clabels = {c: [] for c in range(8)}
            for c in o["calls"]:
                if c[0] == "set_patch":
                    for s in c[1]:
                        patch[s] = c[2]
                elif c[0] == "project_side":
                    pface[c[1]] = c[2]
                    if c[4]:
                        for k in h_side_corners(c[1]):
                            clabels[k].append(c[2])
                elif c[0] == "project_corner":
                    clabels[c[1]] += list(c[2])
                elif c[0] == "zone":
                    zone = c[1]
            ops.append({"pts": o["pts"], "patch": patch, "pface": pface, "zone": zone, "clabels": clabels,
                        "chops": o.get("chops")})
    return ops


def oracle(prog, obs):
    """-> list of (category, message); empty = the file is a faithful, well-formed rendering"""
    bad = []
    try:
        f = read_file(obs["file"])
    except (FileError, GenError) as e:
        return [("parse", "the written file does not parse as a blockMeshDict: %s" % e)]
    ops = expected_state(prog, obs)
    nv = len(f["vertices"])
    # hex entries
    if len(f["blocks"]) != len(ops):
        bad.append(("blocks", "%d hex entries for %d non-deleted operations" % (len(f["blocks"]), len(ops))))
        return bad
    for k, (b, o) in enumerate(zip(f["blocks"], ops)):
        if len(b["vids"]) != 8 or any(i >= nv for i in b["vids"]):
            bad.append(("index", "hex %d lists %r with %d vertices" % (k, b["vids"], nv)))
            continue
        for c in range(8):
            p = f["vertices"][b["vids"][c]][0]
            if any(abs(p[j] - Fraction(o["pts"][c][j])) > PRINT_TOL for j in range(3)):
                bad.append(("vertices", "hex %d corner %d is vertex %d at %s, the operation's corner is %s" % (
                    k, c, b["vids"][c], [float(x) for x in p], o["pts"][c])))
                break
        if b["zone"] != o["zone"]:
            bad.append(("blocks", "hex %d has cell zone %r, declared %r" % (k, b["zone"], o["zone"])))
        if len(b["counts"]) != 3 or any(x <= 0 for x in b["counts"]):
            bad.append(("blocks", "hex %d has counts %r" % (k, b["counts"])))
        elif o["chops"] is not None:
            for a in range(3):
                decl = [c[2]["count"] for c in o["chops"] if c[1] == a]
                if decl and sum(decl) != b["counts"][a]:
                    bad.append(("blocks", "hex %d axis %d: count %d written, %d declared" % (k, a, b["counts"][a], sum(decl))))
        if b["kw"] not in ("simpleGrading", "edgeGrading"):
            bad.append(("blocks", "hex %d grading keyword %r" % (k, b["kw"])))
        else:
            # number of top-level grading entries
            depth, n = 0, 0
            for x in b["grading"]:
                if depth == 0 and x != ("RP",):
                    n += 1
                depth += 1 if x == ("LP",) else (-1 if x == ("RP",) else 0)
            if n != (3 if b["kw"] == "simpleGrading" else 12):
                bad.append(("blocks", "hex %d: %s with %d entries" % (k, b["kw"], n)))
            if o["chops"] is not None and b["kw"] == "simpleGrading":
                # an axis chopped by count only is uniform
                depth, entries, cur = 0, [], []
                for x in b["grading"]:
                    cur.append(x)
                    depth += 1 if x == ("LP",) else (-1 if x == ("RP",) else 0)
                    if depth == 0:
                        entries.append(cur)
                        cur = []
                for a in range(3):
                    mine = [c[2] for c in o["chops"] if c[1] == a]
                    if len(mine) == 1 and set(mine[0].keys()) == {"count"} and a < len(entries):
                        if entries[a] != [("N", Fraction(1))]:
                            bad.append(("blocks", "hex %d axis %d chopped by count only but grading is %r" % (k, a, entries[a])))
    if bad:
        return bad
    blocks = [b["vids"] for b in f["blocks"]]

    def is_side_somewhere(quad):
        return any(block_side_of(v, quad) is not None for v in blocks)

    # boundary
    exp_patches = {}
    order = []
    for (n, _k, _s) in prog["modify_pre"]:
        if n not in exp_patches:
            exp_patches[n] = []
            order.append(n)
    from_order = ["bottom", "top", "front", "right", "back", "left"]
    for k, o in enumerate(ops):
        for s in from_order:
            if s in o["patch"]:
                n = o["patch"][s]
                if n not in exp_patches:
                    exp_patches[n] = []
                    order.append(n)
                vs = frozenset(blocks[k][c] for c in h_side_corners(s))
                if vs not in exp_patches[n]:
                    exp_patches[n].append(vs)
    for (n, _k, _s) in prog["modify_post"]:
        if n not in exp_patches:
            exp_patches[n] = []
            order.append(n)
    kinds = {n: ["patch", []] for n in exp_patches}
    for (n, k, st) in prog["modify_pre"] + prog["modify_post"]:
        kinds[n][0] = k
        if st is not None:
            kinds[n][1] = [lex(x, comments=False) for x in st]
    got_names = [p["name"] for p in f["patches"]]
    if sorted(got_names) != sorted(exp_patches.keys()) or len(set(got_names)) != len(got_names):
        bad.append(("boundary", "patches written %r, declared %r" % (got_names, order)))
    else:
        for p in f["patches"]:
            n = p["name"]
            for qd in p["quads"]:
                if any(i >= nv for i in qd):
                    bad.append(("index", "patch %s quad %r with %d vertices" % (n, qd, nv)))
                elif not is_side_somewhere(qd):
                    bad.append(("quad", "patch %s quad %r is not a side of any block" % (n, qd)))
            if sorted(map(sorted, [list(x) for x in exp_patches[n]])) != sorted(sorted(set(qd)) for qd in p["quads"]):
                bad.append(("boundary", "patch %s lists %r, the sides assigned to it are %r" % (
                    n, p["quads"], [sorted(x) for x in exp_patches[n]])))
            if p["kind"] != kinds[n][0]:
                bad.append(("boundary", "patch %s has type %s, declared %s" % (n, p["kind"], kinds[n][0])))
            if p["settings"] != kinds[n][1]:
                bad.append(("boundary", "patch %s has settings %r, declared %r" % (n, p["settings"], kinds[n][1])))
    if f["default"] != prog["default"]:
        bad.append(("defaultPatch", "written %r, declared %r" % (f["default"], prog["default"])))
    if f["merged"] != [list(x) for x in prog["merged"]]:
        bad.append(("mergePatchPairs", "written %r, declared %r" % (f["merged"], prog["merged"])))
    # faces
    exp_faces = {}
    for k, o in enumerate(ops):
        for s in ["front", "right", "back", "left", "bottom", "top"]:
            if s in o["pface"]:
                vs = frozenset(blocks[k][c] for c in h_side_corners(s))
                exp_faces.setdefault(vs, o["pface"][s])
    got_faces = {}
    for (qd, l) in f["faces"]:
        if any(i >= nv for i in qd):
            bad.append(("index", "projected face %r with %d vertices" % (qd, nv)))
            continue
        if not is_side_somewhere(qd):
            bad.append(("quad", "projected face %r is not a side of any block" % (qd,)))
        if frozenset(qd) in got_faces:
            bad.append(("faces", "side %r projected twice" % (qd,)))
        got_faces[frozenset(qd)] = l
    if got_faces != exp_faces:
        bad.append(("faces", "projected faces written %r, declared %r" % (
            sorted((sorted(k), v) for k, v in got_faces.items()), sorted((sorted(k), v) for k, v in exp_faces.items()))))
    # geometry
    exp_geom = {}
    for g in prog["geometry"]:
        for k, v in g.items():
            exp_geom[k] = [lex(p, comments=False) for p in v]
    got_geom = dict(f["geometry"])
    if len(got_geom) != len(f["geometry"]):
        bad.append(("geometry", "a geometry is defined twice"))
    shape_geom = {}
    for e in obs["entities"]:
        if e["geom"]:
            for k, v in e["geom"].items():
                lv = [lex(p, comments=False) for p in v]
                if k in shape_geom and shape_geom[k] != lv:
                    bad.append(("geometry", "two shapes define geometry %s differently (%r / %r): one of them is projected to "
                                "the other's surface" % (k, shape_geom[k], lv)))
                shape_geom[k] = lv
                if got_geom.get(k) != lv and not any(b[0] == "geometry" for b in bad):
                    bad.append(("geometry", "geometry %s of a built-in shape written as %r, the shape defines %r" % (k, got_geom.get(k), lv)))
    for k, v in exp_geom.items():
        if k in shape_geom:
            continue
        if got_geom.get(k) != v:
            bad.append(("geometry", "geometry %s written as %r, declared %r" % (k, got_geom.get(k), v)))
    for k in got_geom:
        if k not in exp_geom and k not in shape_geom:
            bad.append(("geometry", "geometry %s was never declared" % k))
    for e in obs["entities"]:
        for l in e["req"]:
            if l not in got_geom:
                bad.append(("geometry-undefined", "a built-in shape projects to geometry %s which is not defined in the file" % l))
                break
    # settings
    exp_set = {}
    for k, v in prog["settings"]:
        exp_set[k] = v
    got_set = dict(f["settings"])
    for k, v in exp_set.items():
        if v is None:
            if k in got_set:
                bad.append(("settings", "setting %s written although it is None" % k))
        elif got_set.get(k) != lex(str(v), comments=False):
            bad.append(("settings", "setting %s written as %r, declared %r" % (k, got_set.get(k), v)))
    hd = dict(f["header"])
    if hd.get("class") != [("W", "dictionary")] or hd.get("object") != [("W", "blockMeshDict")]:
        bad.append(("header", "FoamFile header %r" % (f["header"],)))
    # projected corners: a vertex carries the labels of one of the corners that sit on it
    for vi, (p, labels) in enumerate(f["vertices"]):
        cands = [o["clabels"][c] for k, o in enumerate(ops) for c in range(8) if blocks[k][c] == vi]
        if cands and labels not in cands:
            bad.append(("vertices", "vertex %d is projected to %r, the corners on it declare %r" % (vi, labels, cands)))
    # corners at one position share a vertex exactly when the same slave patches meet there
    slaves = {b for (_a, b) in prog["merged"]}
    seen = {}
    for k, o in enumerate(ops):
        for c in range(8):
            sl = frozenset(o["patch"][s] for s in SIDES if s in o["patch"] and XYZ[c][PLANE[s][0]] == PLANE[s][1] and o["patch"][s] in slaves)
            key = tuple(round(x, 6) for x in o["pts"][c])
            seen.setdefault(key, {}).setdefault(sl, set()).add(blocks[k][c])
    for key, groups in seen.items():
        ids = [v for g in groups.values() for v in g]
        if any(len(g) != 1 for g in groups.values()) or len(set(ids)) != len(groups):
            bad.append(("vertices", "corners at %s with slave patches %r are written as vertices %r" % (
                list(key), [sorted(g) for g in groups.keys()], [sorted(g) for g in groups.values()])))
            break
    # vtk
    if obs["vtk"] is not None:
        try:
            pts, cells = parse_vtk(obs["vtk"])
            if len(pts) != nv or any(abs(Fraction(pts[i][j]) - f["vertices"][i][0][j]) > PRINT_TOL for i in range(nv) for j in range(3)):
                bad.append(("vtk", "the debug VTK lists other points than the vertices section"))
            if cells != blocks:
                bad.append(("vtk", "the debug VTK lists other hexahedra than the blocks section"))
        except (ValueError, StopIteration) as e:
            bad.append(("vtk", "the debug VTK is malformed: %r" % (e,)))
    return bad


def describe(prog):
    kinds = [e["kind"] if e["kind"] == "op" else e["cls"] + ("+copy" if (e.get("copy") or e.get("copy_of") is not None) else "") for e in prog["entities"]]
    return kinds


def run_and_judge(prog, work):
    """-> (obs or None, failures)"""
    try:
        obs = run_program(prog, work)
    except Discard:
        return None, []
    except GenError:
        raise
    except Exception as e:  # noqa: BLE001
        return None, [("write-raises", "a valid program could not be written: %s: %s" % (type(e).__name__, str(e)[:200]))]
    return obs, oracle(prog, obs)


def failure_replay(prog, bad):
    cat = bad[0][0]
    sig = "C06:" + cat
    if cat == "geometry-undefined" and any(e.get("copy") for e in prog["entities"] if e["kind"] == "shape"):
        sig = "C06:copied-sphere-geometry-undefined"
    return dict(kind="program", program=prog, why=[m for (_c, m) in bad][:5], categories=sorted({c for (c, _m) in bad}), sig=sig)


class C06(Prop):
    pid = "C06"
    prebuilt = ["Base/Hex.v", "Model/C06_Render.v", "Model/C06_Mesh.v", "Proofs/C06_Roundtrip.v", "Proofs/C06_Mesh.v",
                "Proofs/C06_Sections.v"]
    gen_dependent_files = ["Gen/C06/Tables.v"]
    property_files = ["Properties/C06.v"]
    trusted = [
        "lexer of the harness (comments and whitespace removed; numeric literals converted to the exact value of the "
        "double they denote); float formatting of CPython (%.8f correctly rounded, repr round-trips) and file I/O",
        "tabulation: Side(orient, 8 tagged vertices), Operation.get_patches_at_corner on a loft with six distinct patches",
        "inputs observed on the live objects and not modelled: Axis.count and Grading.specification of the 12 wires of each "
        "block (C01-C04); the edges section is skipped (C07)",
        "operations of built-in shapes enter the model through their attributes (patch_names, side_projects, "
        "projected_to) read before assembly; plain operations through the calls the program made",
        "program correspondence is sampled (random programs), not exhaustive",
    ]
    partial = [
        "C06_roundtrip: the edges section is rendered empty and skipped by the parser (its content is C07's)",
    ]

    def generate(self, ctx):
        t = tab_tables()
        ctx.write_gen("Tables", emit_tables(t, header_entries()))
        self._tables = t

    def correspond(self, ctx):
        res = CorrResult()
        res.rule = ("random programs over the public API (1..10 lofts on a distorted lattice in any of the 24 numberings, "
                    "patches/zones/projections/merges/default/modifications/geometries/settings/deletions) plus programs with "
                    "built-in shapes; the lexed file is parsed and compared with the model's file inside Coq, checked for "
                    "well-formedness against the reference hexahedron, VTK compared; non-trivial = at least one patch or "
                    "projection and the file longer than 150 tokens; distinct by program")
        n = ctx.n(120, 1500)
        nshape = ctx.n(14, 100)
        progs = list(systematic_programs())
        kinds = ["hemisphere", "hemisphere_copy", "cylinder", "ring", "box", "two_spheres", "sphere_and_copy"]
        for i in range(nshape):
            progs.append(gen_shape_program(ctx.rng, kinds[i % len(kinds)] if i < 2 * len(kinds) else None))
        tries = 0
        target = len(progs) + n
        cases = []
        discarded = 0
        queue = list(progs)
        while len(cases) < target and tries < 6 * target:
            tries += 1
            prog = queue.pop(0) if queue else gen_program(ctx.rng)
            try:
                obs = run_program(prog, ctx.work)
            except Discard as e:
                discarded += 1
                res.count("discarded:" + str(e)[:40])
                continue
            except GenError:
                raise
            except Exception as e:  # noqa: BLE001
                # a valid program that cannot be assembled / written: reported with the program as the replay
                res.oracle_failures.append(failure_replay(prog, [("write-raises", "a valid program could not be written: %s: %s" % (
                    type(e).__name__, str(e)[:200]))]))
                res.count("write-raises")
                continue
            cases.append((prog, obs))
        res.count("discarded", discarded)
        if len(cases) < target // 2:
            res.error = "too many programs discarded (%d of %d)" % (discarded, tries)
            return res
        nsh = max(16, (len(cases) + 24) // 25)
        shards = [[] for _ in range(nsh)]
        oracle_failed = set()
        for k, (prog, obs) in enumerate(cases):
            res.evaluations += 1
            toks = lex(obs["file"])
            nops = sum(len(e["ops"]) for e in obs["entities"])
            res.count("ops=%d" % min(nops, 12) if nops < 12 else "ops>=12")
            res.count("kinds=" + ",".join(sorted(set(describe(prog)))))
            res.count("vtk" if obs["vtk"] is not None else "no-vtk")
            if prog["merged"]:
                res.count("merged")
            if prog["deleted"]:
                res.count("deleted")
            if "edgeGrading" in obs["file"]:
                res.count("edgeGrading")
            nontrivial = len(toks) > 150 and (re.search(r"\n\tproject \(", obs["file"]) or re.search(r"\t\t\t\(\d", obs["file"]))
            if nontrivial:
                res.distinct.add(json.dumps(prog, sort_keys=True))
            bad = oracle(prog, obs)
            if bad:
                res.oracle_failures.append(failure_replay(prog, bad))
                oracle_failed.add(k)
            try:
                shards[k % nsh].append(coq_case(k, prog, obs, toks))
            except GenError as e:
                res.error = "case %d cannot be handed to Coq: %s" % (k, e)
                return res
        res.samples = [dict(program=describe(p), file_tokens=len(lex(o["file"])), blocks=o["nblocks"]) for (p, o) in cases[:4]]
        files = [("cases_%d" % i, CASE_HEAD + ";\n".join(s) + CASE_TAIL) for i, s in enumerate(shards) if s]
        for (name, rc, so, se) in core.run_cases_parallel(ctx, files, timeout=600):
            if rc != 0:
                res.error = "case file %s failed to compile: %s" % (name, se[-800:])
                return res
            for (k, codes) in parse_results(so):
                if k in oracle_failed:
                    # the well-formedness conditions (21..24) are the property itself, evaluated in Coq on the parsed
                    # file: where the direct oracle reports the same input, that replay is the finding, not a
                    # disagreement between model and implementation
                    codes = [c for c in codes if not 21 <= c <= 24]
                    if not codes:
                        continue
                res.mismatches.append(dict(case=k, disagreement=[CODES.get(c, str(c)) for c in codes], program=cases[k][0]))
        res.traces = len(cases)
        self._cases = cases
        return res

    def search(self, ctx, broken, corr):
        fails = []
        seen = set()

        def consider(prog):
            obs, bad = run_and_judge(prog, ctx.work)
            if bad:
                rp = failure_replay(prog, bad)
                if rp["sig"] not in seen:
                    seen.add(rp["sig"])
                    fails.append(rp)
                return True
            return False

        for m in corr.mismatches[:10]:
            consider(m["program"])
        if not fails:
            for prog in systematic_programs():
                consider(prog)
        if not fails:
            for i in range(ctx.n(300, 3000)):
                prog = gen_program(ctx.rng) if i % 8 else gen_shape_program(ctx.rng)
                if consider(prog):
                    break
        return [minimise(rp, ctx.work) for rp in fails]

    def signature(self, rp):
        return rp.get("sig") or "C06:%s" % rp.get("kind")

    def replay(self, ctx, obj):
        prog = obj["program"]
        try:
            obs = run_program(prog, ctx.work)
        except Discard as e:
            print("implementation: program rejected (%s)" % e)
            return 0
        except Exception as e:  # noqa: BLE001
            print("implementation: raised %s: %s" % (type(e).__name__, e))
            print("oracle FAIL [write-raises]: a valid program could not be written")
            return 0
        print("implementation: wrote %d tokens, %d blocks" % (len(lex(obs["file"])), obs["nblocks"]))
        bad = oracle(prog, obs)
        for (c, m) in bad:
            print("oracle FAIL [%s]: %s" % (c, m))
        if not bad:
            print("oracle: ok")
        return 0


def minimise(rp, work):
    """greedy: drop entities / calls / declarations while the same category of failure persists"""
    prog = json.loads(json.dumps(rp["program"]))
    cat = rp["sig"]

    def still(p):
        try:
            obs, bad = run_and_judge(p, work)
        except Exception:
            return False
        return bool(bad) and failure_replay(p, bad)["sig"] == cat

    changed = True
    rounds = 0
    while changed and rounds < 4:
        changed = False
        rounds += 1
        for i in range(len(prog["entities"]) - 1, -1, -1):
            if len(prog["entities"]) > 1 and not any(d[0] >= i for d in prog["deleted"]):
                q = json.loads(json.dumps(prog))
                del q["entities"][i]
                if still(q):
                    prog = q
                    changed = True
        for key in ("merged", "modify_pre", "modify_post", "geometry", "settings", "deleted"):
            for i in range(len(prog[key]) - 1, -1, -1):
                q = json.loads(json.dumps(prog))
                del q[key][i]
                if still(q):
                    prog = q
                    changed = True
        if prog["default"]:
            q = json.loads(json.dumps(prog))
            q["default"] = None
            if still(q):
                prog = q
                changed = True
        for ei in range(len(prog["entities"])):
            i = len(prog["entities"][ei]["calls"]) - 1
            while i >= 0:
                c = prog["entities"][ei]["calls"][i]
                if not (prog["entities"][ei]["kind"] == "op" and c[0] == "chop"):
                    q = json.loads(json.dumps(prog))
                    del q["entities"][ei]["calls"][i]
                    if still(q):
                        prog = q
                        changed = True
                i -= 1
    obs, bad = run_and_judge(prog, work)
    if bad:
        out = failure_replay(prog, bad)
        if out["sig"] == cat:
            return out
    return rp


PROP = C06()
