"""C07 - Curved-edge entries are unique, on real block edges and correctly directed.

Tie (F): single-operation meshes with one curved edge on every one of the 12 slots, for every edge kind and
for faces used as given / inverted / shifted / re-oriented, are assembled with the real code; what is
written in the `edges` section (parsed from EdgeList.description) is tabulated into coq/Gen/C07/Tables.v
together with the direction in which the user defined the edge (read back from positions).
Properties/C07.v proves direction consistency, "is an edge of the reference hexahedron", exactly-once and
the wire-to-slot assignment about those tables against Base/Hex.v.
Tie (U): Model/C07_EdgeList.v transcribes EdgeList.find/add; multi-operation programs (shared faces, the
same geometric edge defined twice in both orders, invalid definitions first) are run through Mesh.assemble
and through the model (evaluated inside Coq); Proofs/C07_EdgeList.v proves uniqueness / exactly-once /
first-wins for all request sequences by induction.
Tie (N): Model/C07_Dir.v has the validity predicates (Edge.is_valid / ArcEdgeBase.is_valid), the polyline
length (SplineEdge.length) and the sense of an arc about an axis as real-valued definitions; per case Coq
(`interval`) decides that they agree with what Python did; Proofs/C07_Dir.v proves the reversal /
symmetry theorems for all reals.

Direct oracle (independent of the Coq model): the program says which curve the user described on which
geometric edge; from the written text alone the oracle rebuilds the drawn curve and compares (point
sequence, sense of rotation, length, exactly one entry per curved geometric edge, entry is a block edge,
Edge.length of every wire).
"""
import json
import hashlib
import math
import re
import warnings

import core
from core import CorrResult, GenError, Prop

TOL = 1e-7  # only used by the oracle to classify its own, clearly separated, inputs

CUBE = [
    [0.0, 0.0, 0.0], [1.1, 0.05, 0.0], [1.2, 1.0, 0.1], [0.1, 0.9, 0.0],
    [0.0, 0.1, 1.0], [1.0, 0.0, 1.2], [1.1, 1.1, 1.1], [0.0, 1.0, 0.9],
]

KINDS = ["spline", "polyLine", "anglep", "anglen", "curve", "arc", "origin", "project"]
DIRECTED = ("spline", "polyLine", "anglep", "anglen", "curve")
VARIANTS = ["given", "invert", "shift1", "shift2", "shift3", "shiftm1", "reorient0", "reorient1", "reorient2",
            "reorient3", "invert_shift1"]
ORD = {"NA": 0, "Fwd": 1, "Bwd": 2, "Unreadable": 3}


def _np():
    import numpy as np
    return np


def _cb():
    import classy_blocks as cb  # noqa
    return cb


def slot_dir(s):
    """the direction in which the public API defines the edge of slot s (Face.add_edge(i): i -> i+1;
    Operation.add_side_edge(i): i -> i+4)"""
    if s < 4:
        return (s, (s + 1) % 4)
    if s < 8:
        return (s, (s - 4 + 1) % 4 + 4)
    return (s - 8, s - 4)


# ------------------------------------------------------------------------------------------------
# user-level edge definitions: a definition knows the curve the user described, from a to b

def unit(v):
    np = _np()
    v = np.asarray(v, dtype=float)
    return v / float(np.linalg.norm(v))


def perp(chord, seed=0):
    """a unit vector perpendicular to the chord (deterministic)"""
    np = _np()
    ws = [np.array([0.3, -0.5, 0.8]), np.array([0.9, 0.2, -0.1]), np.array([-0.2, 0.7, 0.4])]
    for k in range(3):
        w = ws[(seed + k) % 3]
        c = np.cross(chord, w)
        if np.linalg.norm(c) > 0.2 * np.linalg.norm(chord):
            return unit(c)
    raise GenError("no perpendicular found")


def make_def(kind, a, b, salt=0):
    """Definition of an edge of the given kind for the chord a -> b (user direction).
    Returns a dict (JSON-serialisable, enough to rebuild the EdgeData with build_data)."""
    np = _np()
    a = np.asarray(a, dtype=float)
    b = np.asarray(b, dtype=float)
    ch = b - a
    n1 = perp(ch, salt)
    n2 = unit(np.cross(ch, n1))
    L = float(np.linalg.norm(ch))
    h = (0.13 + 0.02 * (salt % 5)) * L
    d = dict(kind=kind, a=[float(x) for x in a], b=[float(x) for x in b])
    if kind in ("spline", "polyLine"):
        # strongly asymmetric along the chord: the reversed order is much longer
        ts = [0.15, 0.45, 0.9]
        d["points"] = [[float(x) for x in (a + ch * t + n1 * h * (1 + t) + n2 * h * 0.3 * t)] for t in ts]
    elif kind == "curve":
        ts = [0.0, 0.2, 0.4, 0.6, 0.8, 1.0]
        d["points"] = [[float(x) for x in (a + ch * t + n1 * h * 4 * t * (1 - t) + n2 * h * t * (1 - t))] for t in ts]
    elif kind in ("anglep", "anglen"):
        d["angle"] = (0.9 + 0.05 * (salt % 7)) * (1 if kind == "anglep" else -1)
        d["axis"] = [float(x) for x in n1]
    elif kind == "arc":
        d["point"] = [float(x) for x in (a + ch * 0.4 + n1 * h)]
    elif kind == "origin":
        d["origin"] = [float(x) for x in (a + ch * 0.5 - n1 * (0.8 + 0.1 * (salt % 3)) * L)]
    elif kind == "project":
        d["label"] = "g%d" % salt
    elif kind == "arc_collinear":
        d["point"] = [float(x) for x in (a + ch * 0.25)]
    elif kind == "line":
        pass
    else:
        raise GenError("unknown kind " + kind)
    return d


def build_data(d):
    from classy_blocks.construct import edges as E
    from classy_blocks.construct.curves.discrete import DiscreteCurve
    k = d["kind"]
    if k == "spline":
        return E.Spline(d["points"])
    if k == "polyLine":
        return E.PolyLine(d["points"])
    if k == "curve":
        return E.OnCurve(DiscreteCurve(d["points"]))
    if k in ("anglep", "anglen"):
        return E.Angle(d["angle"], d["axis"])
    if k in ("arc", "arc_collinear"):
        return E.Arc(d["point"])
    if k == "origin":
        return E.Origin(d["origin"])
    if k == "project":
        return E.Project(d["label"])
    if k == "line":
        return E.Line()
    raise GenError("unknown kind " + k)


# ------------------------------------------------------------------------------------------------
# observation: the edges section of the file, parsed

NUM = r"[-+0-9.eEnaif]+"
VEC = r"\(\s*(%s)\s+(%s)\s+(%s)\s*\)" % (NUM, NUM, NUM)


def parse_edges_section(text):
    """-> list of dict(kind, v1, v2, points|point|labels, comment)"""
    lines = [l.strip() for l in text.splitlines()]
    if not lines or lines[0] != "edges":
        raise GenError("edges section does not start with 'edges': %r" % text[:80])
    out = []
    pending = None
    for l in lines[1:]:
        if l in ("(", ");", ""):
            continue
        if l.startswith("//"):
            pending = l
            continue
        m = re.match(r"^(\w+)\s+(\d+)\s+(\d+)\s+(.*)$", l)
        if not m:
            raise GenError("cannot parse edge line %r" % l)
        kind, v1, v2, rest = m.group(1), int(m.group(2)), int(m.group(3)), m.group(4).strip()
        e = dict(kind=kind, v1=v1, v2=v2, comment=pending)
        pending = None
        if kind in ("spline", "polyLine"):
            if not (rest.startswith("(") and rest.endswith(")")):
                raise GenError("cannot parse point list %r" % rest)
            e["points"] = [[float(x) for x in t] for t in re.findall(VEC, rest[1:-1])]
        elif kind == "arc":
            mm = re.match("^" + VEC + "$", rest)
            if not mm:
                raise GenError("cannot parse arc point %r" % rest)
            e["point"] = [float(x) for x in mm.groups()]
        elif kind == "project":
            e["labels"] = rest.strip("()").split()
        else:
            raise GenError("unknown edge keyword %r" % kind)
        if e["comment"]:
            c = e["comment"]
            mo = re.match(r"^//\s*arc\s+(\d+)\s+(\d+)\s+origin\s+(%s)\s+%s" % (NUM, VEC), c)
            ma = re.match(r"^//\s*arc\s+(\d+)\s+(\d+)\s+(%s)\s+%s" % (NUM, VEC), c)
            if mo:
                e["spec"] = dict(kind="origin", v1=int(mo.group(1)), v2=int(mo.group(2)), flatness=float(mo.group(3)),
                                 origin=[float(x) for x in mo.groups()[3:6]])
            elif ma:
                e["spec"] = dict(kind="angle", v1=int(ma.group(1)), v2=int(ma.group(2)), angle=float(ma.group(3)),
                                 axis=[float(x) for x in ma.groups()[3:6]])
        out.append(e)
    return out


def assemble(ops):
    cb = _cb()
    mesh = cb.Mesh()
    for op in ops:
        mesh.add(op)
    with warnings.catch_warnings():
        warnings.simplefilter("ignore")
        mesh.assemble()
        # half of the meshes (chosen by their own first corner, so that replays agree) are assembled, cleared and assembled
        # again from the same operations, as backport() does: assembling must not wear out the operations' edge data
        if len(ops) and int(abs(float(ops[0].point_array[0][0])) * 1e6) % 2 == 0:
            mesh.clear()
            mesh.assemble()
    return mesh


def vertex_positions(mesh):
    return [[float(x) for x in v.position] for v in mesh.vertex_list.vertices]


def near(p, q, tol=2e-7):
    return max(abs(p[i] - q[i]) for i in range(3)) <= tol


def index_of(p, plist, tol=2e-7):
    hits = [i for i, q in enumerate(plist) if near(p, q, tol)]
    if len(hits) != 1:
        return None
    return hits[0]


def order_of(written, useq):
    """written points as positions in the user's sequence: 'Fwd' ascending, 'Bwd' descending, None otherwise"""
    idx = [index_of(p, useq) for p in written]
    if len(idx) < 2 or any(i is None for i in idx):
        return None
    if all(idx[i] < idx[i + 1] for i in range(len(idx) - 1)):
        return "Fwd"
    if all(idx[i] > idx[i + 1] for i in range(len(idx) - 1)):
        return "Bwd"
    return None


def bulge(p1, p2, t, axis):
    """> 0 iff, seen against the axis, the arc from p1 to p2 through t turns counter-clockwise
    (for arcs below a full turn): (t - (p1+p2)/2) . ((p2 - p1) x axis)"""
    np = _np()
    p1, p2, t, axis = (np.asarray(x, dtype=float) for x in (p1, p2, t, axis))
    return float(np.dot(t - (p1 + p2) / 2, np.cross(p2 - p1, axis)))


def user_seq(d):
    """interior points of the user's curve in the user's direction (point-list kinds)"""
    if d["kind"] in ("spline", "polyLine"):
        return d["points"]
    if d["kind"] == "curve":
        return d["points"][1:-1]
    return None


def entry_order(e, d, vpos):
    """direction bit of a written entry e that stems from definition d: 'Fwd' = the written data run
    from the written first vertex in the user's direction, 'Bwd' = against it, 'NA' = undirected kind."""
    k = d["kind"]
    if k in ("spline", "polyLine", "curve"):
        if "points" not in e:
            return None
        return order_of(e["points"], user_seq(d))
    if k in ("anglep", "anglen"):
        if "point" not in e:
            return None
        bl = bulge(vpos[e["v1"]], vpos[e["v2"]], e["point"], d["axis"]) * d["angle"]
        if abs(bl) < 1e-6:
            return None
        return "Fwd" if bl > 0 else "Bwd"
    return "NA"


# ------------------------------------------------------------------------------------------------
# single-operation cases (class F)

def apply_variant(face, variant, quad):
    if variant == "given":
        return
    if variant == "invert":
        face.invert()
    elif variant.startswith("shiftm"):
        face.shift(-int(variant[6:]))
    elif variant.startswith("shift"):
        face.shift(int(variant[5:]))
    elif variant.startswith("reorient"):
        c = int(variant[8:])
        face.reorient([quad[c][0] + 0.03, quad[c][1] - 0.02, quad[c][2] + 0.01])
    elif variant == "invert_shift1":
        face.invert()
        face.shift(1)
    else:
        raise GenError("unknown variant " + variant)


def single_case(kind, variant, slot, salt=0):
    """Build a Loft over the distorted cube with ONE curved edge on the given slot; the face operation
    `variant` is applied to both faces after the edge was added.  Returns a JSON-able observation."""
    cb = _cb()
    np = _np()
    qb, qt = CUBE[:4], CUBE[4:]
    bottom, top = cb.Face(qb), cb.Face(qt)
    if slot < 8:
        quad = qb if slot < 4 else qt
        i = slot % 4
        a, b = quad[i], quad[(i + 1) % 4]
    else:
        if variant != "given":
            raise GenError("side edges have no face variant")
        i = slot - 8
        a, b = CUBE[i], CUBE[i + 4]
    d = make_def(kind, a, b, salt)
    data = build_data(d)
    if slot < 4:
        bottom.add_edge(i, data)
    elif slot < 8:
        top.add_edge(i, data)
    apply_variant(bottom, variant, qb)
    apply_variant(top, variant, qt)
    op = cb.Loft(bottom, top)
    if slot >= 8:
        op.add_side_edge(i, data)
    mesh = assemble([op])
    vpos = vertex_positions(mesh)
    if len(vpos) != 8:
        raise GenError("single operation did not assemble to 8 vertices")
    corners = [[float(x) for x in p] for p in op.point_array]
    for c in range(8):
        if not near(corners[c], vpos[c], 1e-12):
            raise GenError("vertex %d is not corner %d of the operation" % (c, c))
    s, e = index_of(a, vpos, 1e-12), index_of(b, vpos, 1e-12)
    if s is None or e is None:
        raise GenError("user's end points are no vertices")
    entries = parse_edges_section(mesh.edge_list.description)
    ob = dict(kind=kind, variant=variant, slot=slot, salt=salt, s=s, e=e, n=len(entries), defn=d, vpos=vpos)
    # lengths of the wires of the (single) block on that geometric edge
    wl = []
    for w in mesh.block_list.blocks[0].wire_list:
        if set(w.corners) == {s, e}:
            wl.append(safe_length(w.edge))
    ob["wire_lengths"] = wl
    if len(entries) == 1:
        en = entries[0]
        ob["entry"] = en
        # an unreadable direction (e.g. no points written) becomes bit 3, which no statement accepts
        ob["order"] = entry_order(en, d, vpos) or "Unreadable"
    return ob


def single_domain():
    for kind in KINDS:
        for slot in range(12):
            yield (kind, "given", slot)
        for variant in VARIANTS[1:]:
            for slot in range(8):
                yield (kind, variant, slot)


def tab_single():
    rows = []
    for (kind, variant, slot) in single_domain():
        rows.append(single_case(kind, variant, slot, salt=slot))
    return rows


def tab_omitted():
    """kinds that must not be written, on all 12 slots: (kind id 0 line / 1 collinear arc, slot, #entries)"""
    rows = []
    for k, kind in enumerate(("line", "arc_collinear")):
        for slot in range(12):
            ob = single_case(kind, "given", slot, salt=slot)
            rows.append((k, slot, ob["n"]))
    return rows


def tab_twelve():
    """One Loft carrying 12 arcs (one per slot, told apart by their arc points): the entries written and
    the edge each of the 12 wires of the block received."""
    cb = _cb()
    bottom, top = cb.Face(CUBE[:4]), cb.Face(CUBE[4:])
    op = cb.Loft(bottom, top)
    pts = []
    for slot in range(12):
        a, b = (CUBE[c] for c in slot_dir(slot))
        d = make_def("arc", a, b, slot)
        pts.append(d["point"])
        if slot < 4:
            bottom.add_edge(slot, build_data(d))
        elif slot < 8:
            top.add_edge(slot - 4, build_data(d))
        else:
            op.add_side_edge(slot - 8, build_data(d))
    mesh = assemble([op])
    vpos = vertex_positions(mesh)
    for c in range(8):
        if not near(CUBE[c], vpos[c], 1e-12):
            raise GenError("vertex %d is not corner %d" % (c, c))
    entries = []
    for en in parse_edges_section(mesh.edge_list.description):
        if en["kind"] != "arc":
            raise GenError("arc written as %s" % en["kind"])
        sl = index_of(en["point"], pts)
        if sl is None:
            raise GenError("written arc point is none of the 12 given")
        entries.append((en["v1"], en["v2"], sl))
    wires = []
    blk = mesh.block_list.blocks[0]
    if [v.index for v in blk.vertices] != list(range(8)):
        raise GenError("block vertices are not 0..7")
    for w in blk.wire_list:
        ed = w.edge
        if ed.kind != "arc":
            wires.append((w.corners[0], w.corners[1], 99))
            continue
        sl = index_of([float(x) for x in ed.third_point.position], pts, 1e-12)
        wires.append((w.corners[0], w.corners[1], 99 if sl is None else sl))
    return entries, wires


def emit_tables(rows, omitted, twelve):
    o = ["(* GENERATED by harness/props/C07.py from the working tree of /repo -- do not edit *)",
         "From Coq Require Import List Arith.", "Import ListNotations.", ""]
    o.append("(* kinds: " + ", ".join("%d %s" % (i, k) for i, k in enumerate(KINDS)) + " *)")
    o.append("(* variants: " + ", ".join("%d %s" % (i, k) for i, k in enumerate(VARIANTS)) + " *)")
    o.append("(* (kind, variant, slot, (user start corner, user end corner), (#entries, v1, v2, order)) ;"
             " order: 0 undirected, 1 data run from v1 in the user's direction, 2 against it, 3 unreadable *)")
    body = []
    for r in rows:
        if r["n"] == 1:
            en = r["entry"]
            t = "(%d, %d, %d, %d)" % (1, en["v1"], en["v2"], ORD[r["order"]])
        else:
            t = "(%d, 99, 99, 0)" % r["n"]
        body.append("(%d, %d, %d, (%d, %d), %s)" % (KINDS.index(r["kind"]), VARIANTS.index(r["variant"]), r["slot"],
                                                     r["s"], r["e"], t))
    o.append("Definition tab_dir : list (nat * nat * nat * (nat * nat) * (nat * nat * nat * nat)) :=\n  ["
             + ";\n   ".join(body) + "].")
    o.append("(* (0 line | 1 arc with a collinear point, slot, #entries) *)")
    o.append("Definition tab_omitted : list (nat * nat * nat) :=\n  [" + "; ".join("(%d, %d, %d)" % r for r in omitted) + "].")
    ent, wires = twelve
    o.append("(* one operation with an arc on each slot: (v1, v2, slot) per written entry *)")
    o.append("Definition tab_twelve : list (nat * nat * nat) :=\n  [" + "; ".join("(%d, %d, %d)" % r for r in ent) + "].")
    o.append("(* (corner 1, corner 2, slot of the edge that wire received) for the 12 wires of the block *)")
    o.append("Definition tab_wires : list (nat * nat * nat) :=\n  [" + "; ".join("(%d, %d, %d)" % r for r in wires) + "].")
    return "\n".join(o) + "\n"


# ------------------------------------------------------------------------------------------------
# direct oracle, single-operation cases (Python restatement of the hexahedron, independent of Coq)

XYZ = [(0, 0, 0), (1, 0, 0), (1, 1, 0), (0, 1, 0), (0, 0, 1), (1, 0, 1), (1, 1, 1), (0, 1, 1)]


def h_is_edge(a, b):
    return 0 <= a < 8 and 0 <= b < 8 and sum(1 for k in range(3) if XYZ[a][k] != XYZ[b][k]) == 1


def polyline_len(pts):
    return sum(math.dist(pts[i], pts[i + 1]) for i in range(len(pts) - 1))


def user_length(d):
    """length of the curve the user described, where the harness knows it without any library formula"""
    k = d["kind"]
    if k in ("spline", "polyLine"):
        return polyline_len([d["a"]] + d["points"] + [d["b"]])
    if k == "curve":
        return polyline_len(d["points"])
    if k in ("project", "line", "arc_collinear"):
        return math.dist(d["a"], d["b"])
    return None


def close(x, y, rel=1e-9):
    return x is not None and abs(x - y) <= rel * (1 + abs(y))


def safe_length(edge):
    """Edge.length, or None when the implementation raises on it"""
    try:
        with warnings.catch_warnings():
            warnings.simplefilter("ignore")
            return float(edge.length)
    except Exception:
        return None


def fmt(x):
    return "undefined (raises)" if x is None else "%.6f" % x


def oracle_single(ob):
    """-> (why, sig) or None"""
    d = ob["defn"]
    k = d["kind"]
    s, e = ob["s"], ob["e"]
    if k in ("line", "arc_collinear"):
        if ob["n"] != 0:
            return ("a %s edge was written (%d entries)" % (k, ob["n"]), "C07:degenerate-edge-written")
        return None
    if ob["n"] != 1:
        return ("the edge is written %d times" % ob["n"], "C07:not-exactly-once")
    en = ob["entry"]
    v1, v2 = en["v1"], en["v2"]
    if {v1, v2} != {s, e}:
        return ("the entry %d-%d is not between the end points %d-%d of the user's edge" % (v1, v2, s, e),
                "C07:entry-on-another-edge")
    if not h_is_edge(v1, v2):
        return ("the entry %d-%d is no edge of the block" % (v1, v2), "C07:not-a-block-edge")
    o = ob.get("order")
    if k in ("spline", "polyLine") and (en["kind"] != k or len(en.get("points", [])) != len(d["points"])):
        return ("the %s entry does not list the %d points given" % (en["kind"], len(d["points"])), "C07:data-altered")
    if k in DIRECTED and o not in ("Fwd", "Bwd"):
        return ("direction of the written data cannot be determined", "C07:direction-unreadable")
    bad = (o == "Fwd" and (v1, v2) != (s, e)) or (o == "Bwd" and (v1, v2) != (e, s))
    if bad:
        inv = "invert" in ob["variant"]
        if inv:
            sig = "C07:face-invert-keeps-directed-data"
        elif {s, e} in ({0, 3}, {4, 7}) and (s, e) in ((3, 0), (7, 4)):
            sig = "C07:closing-slot-written-against-direction"
        else:
            sig = "C07:directed-data-against-vertex-order"
        what = "points listed" if k in ("spline", "polyLine", "curve") else "arc turning"
        return ("%s edge defined from corner %d to %d is written as %d %d with its %s from %d to %d (%s)"
                % (k, s, e, v1, v2, what, s if o == "Fwd" else e, e if o == "Fwd" else s,
                   "mirrored curve" if k.startswith("angle") else "reversed point order"), sig)
    ul = user_length(d)
    if ul is not None:
        for wl in ob["wire_lengths"]:
            if not close(wl, ul):
                return ("Edge.length of the wire is %s, the user's curve is %.6f long" % (fmt(wl), ul), "C07:wire-length")
    if not ob["wire_lengths"]:
        return ("no wire of the block lies on the edge", "C07:no-wire")
    return None


# ------------------------------------------------------------------------------------------------
# multi-operation programs (class U)

ROT_Z = [1, 2, 3, 0, 5, 6, 7, 4]
ROT_X = [3, 2, 6, 7, 0, 1, 5, 4]
PROG_KINDS = ["spline", "polyLine", "anglep", "anglen", "curve", "arc", "origin", "project", "line", "arc_collinear"]
PROG_VARIANTS = ["given", "given", "given", "shift1", "shift2", "shiftm1", "invert"]


def compose(p, q):
    return [p[q[i]] for i in range(8)]


def final_corners(corners, variant):
    """corner positions of the operation after the face operation was applied to both faces"""
    cb = _cb()
    bottom, top = cb.Face(corners[:4]), cb.Face(corners[4:])
    apply_variant(bottom, variant, corners[:4])
    apply_variant(top, variant, corners[4:])
    return [[float(x) for x in p.position] for p in bottom.points + top.points]


def gen_program(rng, max_ops=5):
    """A block of lattice cells sharing faces; every cell an operation with its corners renumbered by a
    random rotation, random curved edges on random slots (so that neighbours define shared geometric
    edges twice, in both directions, valid or not), face operations applied after the edges."""
    nx, ny, nz = rng.choice([(2, 1, 1), (2, 2, 1), (3, 1, 1), (2, 1, 2), (1, 1, 1), (2, 2, 2)])
    jit = {}

    def P(i, j, k):
        if (i, j, k) not in jit:
            jit[(i, j, k)] = [i + rng.uniform(-0.08, 0.08), j + rng.uniform(-0.08, 0.08), k + rng.uniform(-0.08, 0.08)]
        return jit[(i, j, k)]

    cells = [(i, j, k) for i in range(nx) for j in range(ny) for k in range(nz)]
    rng.shuffle(cells)
    cells = cells[:max(1, min(len(cells), rng.randint(2, max_ops)))]
    ops = []
    salt = 0
    dense = rng.random() < 0.5
    for (i, j, k) in cells:
        base = [P(i, j, k), P(i + 1, j, k), P(i + 1, j + 1, k), P(i, j + 1, k),
                P(i, j, k + 1), P(i + 1, j, k + 1), P(i + 1, j + 1, k + 1), P(i, j + 1, k + 1)]
        perm = list(range(8))
        for _ in range(rng.randint(0, 3)):
            perm = compose(perm, rng.choice([ROT_Z, ROT_X]))
        corners = [list(base[perm[c]]) for c in range(8)]
        variant = rng.choice(PROG_VARIANTS)
        fin = final_corners(corners, variant)
        edges = []
        for slot in range(12):
            if rng.random() < (0.55 if dense else 0.25):
                kind = rng.choice(PROG_KINDS)
                salt += 1
                # face edges are given before the face operation, side edges on the finished operation
                a, b = ((corners if slot < 8 else fin)[c] for c in slot_dir(slot))
                edges.append(dict(slot=slot, defn=make_def(kind, a, b, salt)))
        ops.append(dict(corners=corners, variant=variant, edges=edges))
    return dict(ops=ops)


def build_program(prog):
    """-> (operations, datas) with datas[i][slot] = EdgeData object given for that slot"""
    cb = _cb()
    ops, datas = [], []
    # for every second program (chosen by the program itself, so that replays agree) each operation exists, has been asked for
    # its edges and has been assembled in a scratch mesh BEFORE its faces get their edges and are re-indexed: what an assembly
    # lists is the operation as it is at that moment
    late = int(hashlib.sha1(json.dumps(prog, sort_keys=True, default=str).encode()).hexdigest()[:4], 16) % 2 == 0
    for o in prog["ops"]:
        c = o["corners"]
        bottom, top = cb.Face(c[:4]), cb.Face(c[4:])
        dd = {}
        side = []
        op = None
        if late:
            op = cb.Loft(bottom, top)
            op.edges  # noqa: B018  (read once)
            with warnings.catch_warnings():
                warnings.simplefilter("ignore")
                scratch = cb.Mesh()
                scratch.add(op)
                scratch.assemble()
            bottom, top = op.bottom_face, op.top_face
        for ed in o["edges"]:
            data = build_data(ed["defn"])
            dd[ed["slot"]] = data
            if ed["slot"] < 4:
                bottom.add_edge(ed["slot"], data)
            elif ed["slot"] < 8:
                top.add_edge(ed["slot"] - 4, data)
            else:
                side.append((ed["slot"] - 8, data))
        apply_variant(bottom, o["variant"], c[:4])
        apply_variant(top, o["variant"], c[4:])
        if op is None:
            op = cb.Loft(bottom, top)
        for (i, data) in side:
            # side edges are defined on the operation as it is finally numbered: the user's direction
            # is from the bottom corner now in slot i to the top corner above it
            op.add_side_edge(i, data)
        ops.append(op)
        datas.append(dd)
    return ops, datas


def program_defs(prog):
    """flat list of (tag, op index, slot, definition); tags start at 1 (0 = a Line the harness did not give)"""
    out = []
    t = 0
    for i, o in enumerate(prog["ops"]):
        for ed in o["edges"]:
            t += 1
            out.append((t, i, ed["slot"], ed["defn"]))
    return out


def run_program(prog):
    """Run the implementation; returns the observation (JSON-able) + the request list for the model."""
    from classy_blocks.items.edges.factory import factory
    ops, datas = build_program(prog)
    defs = program_defs(prog)
    tag_of = {}
    for (t, i, slot, _d) in defs:
        tag_of[id(datas[i][slot])] = t
    mesh = assemble(ops)
    vpos = vertex_positions(mesh)
    blocks = [[v.index for v in b.vertices] for b in mesh.block_list.blocks]
    if len(blocks) != len(ops):
        raise GenError("number of blocks differs from number of operations")
    text = mesh.edge_list.description
    entries = parse_edges_section(text)
    impl = []
    for e in mesh.edge_list.edges:
        if not e.description.strip():
            continue  # an edge object that writes nothing is not an entry
        impl.append((e.vertex_1.index, e.vertex_2.index, tag_of.get(id(e.data), 0)))
    if sorted((a, b) for (a, b, _t) in impl) != sorted((en["v1"], en["v2"]) for en in entries):
        raise GenError("edge objects and written text disagree")
    # should the implementation copy the data objects, identify the definition of an entry by its text
    for j, (a, b, t) in enumerate(impl):
        if t == 0:
            ens = [en for en in entries if (en["v1"], en["v2"]) == (a, b)]
            cands = [tt for (tt, _i, _s, d) in defs if ens and entry_matches(ens[0], d, vpos)
                     and {index_of(d["a"], vpos), index_of(d["b"], vpos)} == {a, b}]
            if cands:
                impl[j] = (a, b, cands[0])
    requests = []
    for i, op in enumerate(ops):
        bv = mesh.block_list.blocks[i].vertices
        for (c1, c2, data) in op.edges.get_all_beams():
            with warnings.catch_warnings():
                warnings.simplefilter("ignore")
                try:
                    valid = bool(factory.create(bv[c1], bv[c2], data).is_valid)
                except Exception:
                    valid = False
            requests.append((bv[c1].index, bv[c2].index, valid, tag_of.get(id(data), 0)))
    wires = []
    for bi, b in enumerate(mesh.block_list.blocks):
        for w in b.wire_list:
            wires.append((bi, w.corners[0], w.corners[1], w.edge.kind, safe_length(w.edge)))
    return dict(vpos=vpos, blocks=blocks, entries=entries, impl=impl, requests=requests, wires=wires)


def entry_matches(en, d, vpos):
    """does the written entry carry the data of definition d (direction aside)?"""
    k = d["kind"]
    if k in ("spline", "polyLine"):
        return en["kind"] == k and len(en.get("points", [])) == len(d["points"]) and \
            all(index_of(p, d["points"]) is not None for p in en["points"])
    if k == "curve":
        inner = d["points"][1:-1]
        return en["kind"] == "spline" and len(en.get("points", [])) == len(inner) and \
            all(index_of(p, inner) is not None for p in en["points"])
    if k in ("anglep", "anglen"):
        sp = en.get("spec")
        return en["kind"] == "arc" and sp is not None and sp["kind"] == "angle" and \
            abs(abs(sp["angle"]) - abs(d["angle"])) < 1e-9
    if k == "arc":
        return en["kind"] == "arc" and en.get("spec") is None and near(en["point"], d["point"])
    if k == "origin":
        sp = en.get("spec")
        return en["kind"] == "arc" and sp is not None and sp["kind"] == "origin" and near(sp["origin"], d["origin"])
    if k == "project":
        return en["kind"] == "project" and en.get("labels") == [d["label"]]
    return False


def oracle_program(prog, ob):
    """-> list of (why, sig); states the property on the written text and the wires only."""
    fails = []
    vpos = ob["vpos"]
    defs = program_defs(prog)
    by_pair = {}
    for (t, i, slot, d) in defs:
        ia, ib = index_of(d["a"], vpos), index_of(d["b"], vpos)
        if ia is None or ib is None:
            fails.append(("end point of a defined edge is no vertex", "C07:harness"))
            continue
        valid = d["kind"] not in ("line", "arc_collinear") and ia != ib
        by_pair.setdefault(frozenset((ia, ib)), []).append((t, d, ia, ib, valid, i))
    block_edges = set()
    for b in ob["blocks"]:
        for c1 in range(8):
            for c2 in range(8):
                if h_is_edge(c1, c2):
                    block_edges.add((b[c1], b[c2]))
    seen = {}
    dir_failed = set()
    for en in ob["entries"]:
        key = frozenset((en["v1"], en["v2"]))
        seen[key] = seen.get(key, 0) + 1
        if (en["v1"], en["v2"]) not in block_edges:
            fails.append(("entry %s %d %d is not an edge of any block" % (en["kind"], en["v1"], en["v2"]), "C07:not-a-block-edge"))
        cands = [x for x in by_pair.get(key, []) if x[4]]
        if not cands:
            fails.append(("entry %s %d %d: nobody defined a curved edge there" % (en["kind"], en["v1"], en["v2"]), "C07:spurious-entry"))
            continue
        match = [x for x in cands if entry_matches(en, x[1], vpos)]
        if not match:
            fails.append(("entry %s %d %d does not carry the data of any definition of that edge" % (en["kind"], en["v1"], en["v2"]),
                          "C07:data-altered"))
            continue
        # direction: consistent with at least one matching definition
        okdir = False
        for (t, d, ia, ib, _v, _i) in match:
            o = entry_order(en, d, vpos)
            if o == "NA" or (o == "Fwd" and (en["v1"], en["v2"]) == (ia, ib)) or (o == "Bwd" and (en["v1"], en["v2"]) == (ib, ia)):
                okdir = True
        if not okdir:
            (t, d, ia, ib, _v, i) = match[0]
            blk = ob["blocks"][i]
            sc, ec = blk.index(ia), blk.index(ib)   # the user's direction in corners of the defining operation
            if "invert" in prog["ops"][i]["variant"]:
                sig = "C07:face-invert-keeps-directed-data"
            elif (sc, ec) in ((3, 0), (7, 4)):
                sig = "C07:closing-slot-written-against-direction"
            else:
                sig = "C07:directed-data-against-vertex-order"
            dir_failed.add(key)
            fails.append(("%s edge defined from vertex %d to %d (corners %d -> %d of operation %d) is written as %d %d with its "
                          "data in the opposite order" % (d["kind"], ia, ib, sc, ec, i, en["v1"], en["v2"]), sig))
    for key, n in seen.items():
        if n > 1:
            fails.append(("vertex pair %s has %d entries" % (sorted(key), n), "C07:not-unique"))
    for key, lst in by_pair.items():
        if any(x[4] for x in lst) and key not in seen:
            fails.append(("curved edge defined on vertices %s is not written" % (sorted(key),), "C07:valid-edge-missing"))
    # wires: the wire of every block on a listed vertex pair carries the listed (curved) edge, with the
    # length of the user's curve; a wire on an unlisted pair is as long as the straight segment
    for (bi, c1, c2, kind, length) in ob["wires"]:
        b = ob["blocks"][bi]
        key = frozenset((b[c1], b[c2]))
        if len(key) < 2:
            continue
        straight = math.dist(vpos[b[c1]], vpos[b[c2]])
        if key in dir_failed:
            continue
        if key in seen:
            en = [x for x in ob["entries"] if frozenset((x["v1"], x["v2"])) == key][0]
            match = [x for x in by_pair.get(key, []) if x[4] and entry_matches(en, x[1], vpos)]
            uls = [user_length(x[1]) for x in match]
            known = bool(uls) and all(u is not None for u in uls)
            if kind == "line" and en["kind"] != "project":
                fails.append(("wire %d-%d of block %d is a straight line (length %s) although the edge list has a '%s' "
                              "entry on its vertices %s" % (c1, c2, bi, fmt(length), en["kind"], sorted(key)),
                              "C07:earlier-block-keeps-line-on-shared-curved-edge"))
            elif known and not any(close(length, u) for u in uls):
                if close(length, straight):
                    fails.append(("wire %d-%d of block %d has the straight length %.6f although the edge list has a '%s' "
                                  "entry of length %.6f on its vertices %s" % (c1, c2, bi, length, en["kind"], uls[0], sorted(key)),
                                  "C07:earlier-block-keeps-line-on-shared-curved-edge"))
                else:
                    fails.append(("Edge.length of wire %d-%d of block %d is %s, the user's curve is %.6f long"
                                  % (c1, c2, bi, fmt(length), uls[0]), "C07:wire-length"))
        elif not close(length, straight):
            fails.append(("wire %d-%d of block %d on an unlisted vertex pair has length %s, the segment %.6f"
                          % (c1, c2, bi, fmt(length), straight), "C07:wire-length"))
    return fails


# ------------------------------------------------------------------------------------------------
# validity cases (class N): Edge.is_valid / ArcEdgeBase.is_valid near and far from the thresholds

def lib_tol():
    from classy_blocks.util import constants
    return float(constants.TOL)


def gen_valid_case(rng):
    np = _np()
    tol = lib_tol()
    kind = rng.choice(["arc", "arc", "arc", "arc", "origin", "angle", "spline", "polyLine", "project", "line"])
    v1 = np.array([rng.uniform(-2, 2) for _ in range(3)])
    while True:
        u = np.array([rng.gauss(0, 1) for _ in range(3)])
        if np.linalg.norm(u) > 0.3:
            break
    u = unit(u)
    near_ends = rng.random() < 0.3 and kind not in ("origin", "angle")
    L = tol * rng.choice([0.0, 0.3, 0.9, 0.99, 1.01, 1.1, 3.0]) if near_ends else rng.uniform(0.3, 2.0)
    v2 = v1 + u * L
    n = perp(u, rng.randrange(3))
    c = dict(kind=kind, v1=[float(x) for x in v1], v2=[float(x) for x in v2])
    if kind == "arc":
        t = rng.uniform(0.2, 0.8)
        if rng.random() < 0.6 and L > 0:
            delta = tol * rng.choice([0.0, 0.5, 0.9, 0.99, 1.01, 1.1, 2.0, 10.0]) / L
        else:
            delta = rng.uniform(0.05, 0.5)
        c["point"] = [float(x) for x in (v1 + u * L * t + n * delta)]
    elif kind == "origin":
        c["origin"] = [float(x) for x in (v1 + u * L * 0.5 - n * rng.uniform(0.6, 2.0) * L)]
    elif kind == "angle":
        c["angle"] = rng.choice([-1, 1]) * rng.uniform(0.2, 2.5)
        c["axis"] = [float(x) for x in n]
    elif kind in ("spline", "polyLine"):
        c["points"] = [[float(x) for x in (v1 + u * L * t + n * 0.1)] for t in (0.3, 0.7)]
    elif kind == "project":
        c["label"] = "g"
    return c


def run_valid_case(c):
    """-> dict(valid, third, dist, col) from the real edge classes"""
    np = _np()
    from classy_blocks.construct import edges as E
    from classy_blocks.items.edges.factory import factory
    from classy_blocks.items.vertex import Vertex
    k = c["kind"]
    data = {"arc": lambda: E.Arc(c["point"]), "origin": lambda: E.Origin(c["origin"]),
            "angle": lambda: E.Angle(c["angle"], c["axis"]), "spline": lambda: E.Spline(c["points"]),
            "polyLine": lambda: E.PolyLine(c["points"]), "project": lambda: E.Project(c["label"]),
            "line": lambda: E.Line()}[k]()
    va, vb = Vertex(list(c["v1"]), 0), Vertex(list(c["v2"]), 1)
    with warnings.catch_warnings():
        warnings.simplefilter("ignore")
        edge = factory.create(va, vb, data)
        valid = bool(edge.is_valid)
        third = None
        d = math.dist(c["v1"], c["v2"])
        if k == "arc" or (k in ("origin", "angle") and d >= 1e-3):
            third = [float(x) for x in edge.third_point.position]
    col = None
    if third is not None:
        a1 = np.array(c["v1"]) - np.array(third)
        a2 = np.array(c["v2"]) - np.array(third)
        col = float(np.linalg.norm(np.cross(a1, a2)))
    return dict(valid=valid, third=third, dist=d, col=col)


def oracle_valid(c, r):
    """independent expectation for clearly separated inputs"""
    tol = lib_tol()
    k = c["kind"]
    if k == "line":
        exp = False
    elif r["dist"] < tol * 0.999:
        exp = False
    elif r["dist"] <= tol * 1.001:
        return None
    elif k in ("arc", "origin", "angle"):
        if r["col"] is None:
            return None
        if abs(r["col"] - tol) <= 1e-3 * tol:
            return None
        exp = r["col"] > tol
    else:
        exp = True
    if exp != r["valid"]:
        return ("%s edge with end distance %.3g and collinearity %s is %s" % (
            k, r["dist"], "%.3g" % r["col"] if r["col"] is not None else "-", "written" if r["valid"] else "omitted"),
            "C07:validity-filter")
    return None


# ------------------------------------------------------------------------------------------------
# Coq case files

def R(x):
    return core.float_to_R(x)


def V(p):
    return "(%s, %s, %s)" % (R(p[0]), R(p[1]), R(p[2]))


N_HEAD = ("From Coq Require Import Reals List.\nFrom Interval Require Import Tactic.\n"
          "From CB Require Import Base.Vec3 Model.C07_Dir Proofs.C07_Dir.\nImport ListNotations.\nOpen Scope R_scope.\n")
CBV = "cbv [spline_length plen app dist collinearity bulge norm norm2 dot cross vsub vadd vscale vx vy vz fst snd dy]"


def goal(gid, stmt, pre=""):
    return ("Goal %s.\nProof. first [ (%s%s; repeat split; interval with (i_prec 80)); idtac \"OK %d\" | idtac \"MISMATCH %d\" ]. Abort.\n"
            % (stmt, pre, CBV, gid, gid))


def sense_goal(gid, ob):
    en, d, vpos = ob["entry"], ob["defn"], ob["vpos"]
    expr = "%s * bulge %s %s %s %s" % (R(d["angle"]), V(vpos[en["v1"]]), V(vpos[en["v2"]]), V(en["point"]), V(d["axis"]))
    return goal(gid, ("0 < " + expr) if ob["order"] == "Fwd" else (expr + " < 0"))


def length_goal(gid, ob):
    en, d, vpos = ob["entry"], ob["defn"], ob["vpos"]
    pts = user_seq(d) if ob["order"] == "Fwd" else list(reversed(user_seq(d)))
    L = ob["wire_lengths"][0]
    return goal(gid, "Rabs (spline_length %s [%s] %s - %s) <= %s" % (
        V(vpos[en["v1"]]), "; ".join(V(p) for p in pts), V(vpos[en["v2"]]), R(L), R(1e-9 * (1 + abs(L)))))


def valid_goal(gid, c, r):
    """None = boundary (within the float noise of a threshold)"""
    tol = lib_tol()
    k = c["kind"]
    vk = "KLine" if k == "line" else ("KArc3" if k in ("arc", "origin", "angle") else "KOther")
    v1, v2 = V(c["v1"]), V(c["v2"])
    p3 = V(r["third"]) if r["third"] is not None else v1
    if vk == "KLine":
        return ("trivial", None) if not r["valid"] else ("goal", goal(gid, "False"))
    if abs(r["dist"] - tol) < 1e-13 + 1e-9 * tol:
        return ("boundary", None)
    if r["col"] is not None and abs(r["col"] - tol) < 1e-13 + 1e-9 * tol:
        return ("boundary", None)
    if r["valid"]:
        if vk == "KArc3" and r["third"] is None:
            return ("goal", goal(gid, "False"))
        lem = "eligible_arc_intro" if vk == "KArc3" else "eligible_other_intro"
        return ("goal", goal(gid, "eligible %s %s %s %s %s" % (R(tol), vk, v1, p3, v2), "apply %s; " % lem))
    if r["dist"] < tol:
        return ("goal", goal(gid, "~ eligible %s %s %s %s %s" % (R(tol), vk, v1, p3, v2), "apply not_eligible_near; "))
    if vk == "KArc3" and r["third"] is not None:
        return ("goal", goal(gid, "~ eligible %s %s %s %s %s" % (R(tol), vk, v1, p3, v2), "apply not_eligible_collinear; "))
    return ("goal", goal(gid, "False"))


def u_case(cid, ob):
    rq = "; ".join("(%d, %d, %s, %d)" % (a, b, "true" if v else "false", t) for (a, b, v, t) in ob["requests"])
    en = "; ".join("(%d, %d, %d)" % x for x in ob["impl"])
    return "(%d, [%s], [%s])" % (cid, rq, en)


def parse_id_list(so):
    m = re.search(r"=\s*\[(.*?)\]\s*:\s*list nat", so, flags=re.S)
    if not m:
        raise RuntimeError("cannot parse Coq output: %r" % so[:400])
    body = m.group(1).strip()
    if not body:
        return []
    return [int(x) for x in body.replace("\n", " ").split(";")]


def shrink_program(prog, sig, budget=60):
    """greedy: drop operations, then edges, while the oracle still reports the same signature"""
    def still(p):
        try:
            return any(sg == sig for (_w, sg) in oracle_program(p, run_program(p)))
        except Exception:
            return False
    cur = json.loads(json.dumps(prog))
    n = 0
    changed = True
    while changed and n < budget:
        changed = False
        for i in range(len(cur["ops"])):
            if len(cur["ops"]) <= 1:
                break
            cand = dict(ops=cur["ops"][:i] + cur["ops"][i + 1:])
            n += 1
            if still(cand):
                cur, changed = cand, True
                break
        if changed:
            continue
        for i, o in enumerate(cur["ops"]):
            for j in range(len(o["edges"])):
                cand = json.loads(json.dumps(cur))
                del cand["ops"][i]["edges"][j]
                n += 1
                if still(cand):
                    cur, changed = cand, True
                    break
            if changed or n >= budget:
                break
        if not changed:
            for i, o in enumerate(cur["ops"]):
                # (side edges are defined on the finished operation: their end points depend on the variant)
                if o["variant"] != "given" and not any(ed["slot"] >= 8 for ed in o["edges"]):
                    cand = json.loads(json.dumps(cur))
                    cand["ops"][i]["variant"] = "given"
                    n += 1
                    if still(cand):
                        cur, changed = cand, True
                        break
    return cur


def single_replay(ob, why, sig):
    return dict(kind="single", edge_kind=ob["kind"], variant=ob["variant"], slot=ob["slot"], salt=ob["salt"],
                user_direction=[ob["s"], ob["e"]], written=ob.get("entry"), order=ob.get("order"),
                wire_lengths=ob.get("wire_lengths"), why=why, sig=sig)


class C07(Prop):
    pid = "C07"
    prebuilt = ["Base/Hex.v", "Base/Vec3.v", "Model/C07_EdgeList.v", "Model/C07_Dir.v",
                "Proofs/C07_EdgeList.v", "Proofs/C07_Dir.v", "Model/C07_Series.v", "Proofs/C07_Series.v"]
    gen_dependent_files = ["Gen/C07/Tables.v"]
    property_files = ["Properties/C07.v"]
    trusted = [
        "tabulation: one curved edge per slot x 8 kinds x {as given (12 slots), 10 face operations (8 face slots)} on a Loft, "
        "observed through Mesh.assemble() and the text of EdgeList.description; the direction of spline/polyLine/curve data is "
        "read back by matching the written points (8 decimals) to the points the harness gave; the sense bit of angle arcs is a "
        "float sign that Coq re-decides per row with interval",
        "Model/C07_EdgeList.v (find/add) is a hand transcription validated on sampled multi-operation programs; the validity bit "
        "of a request is taken from the implementation (Edge.is_valid) and tied separately to Model/C07_Dir.eligible by sampled, "
        "kernel-decided inequalities (interval, 80 bits)",
        "arc lengths (three-point arcs, origin/angle conversions) and curve parameter searches are properties C08/C16, not C07",
        "Model/C07_Series.v (from_series, reverse, invert, slots as references) is a hand transcription; from_series and invert are "
        "compared with the side edges of Loft.from_series on the series cases of stream (d) (points matched back to positions in "
        "the given face list); Revolve and the moved operations are covered by the direct oracle of stream (d) only",
    ]
    partial = [
        "C07_valid_filter: the equivalence 'written <-> eligible' is established by the sampled interval correspondence, "
        "the theorem proves the properties of the predicate (symmetry, degenerate cases excluded, finite circle)",
    ]

    def generate(self, ctx):
        self._rows = None
        rows = tab_single()
        omitted = tab_omitted()
        twelve = tab_twelve()
        ctx.write_gen("Tables", emit_tables(rows, omitted, twelve))
        self._rows = rows

    # -- S3 ---------------------------------------------------------------------------------------
    def correspond(self, ctx):
        res = CorrResult()
        res.rule = ("(a) 736 single-operation cases (8 kinds x [12 slots as given + 8 face slots x 10 face operations]): direct "
                    "oracle on each; for every angle row Coq decides the sign of the written arc's sense, for every "
                    "spline/polyLine row Coq decides |model length - Edge.length of the wire| <= 1e-9(1+L); "
                    "(b) random programs of 1..5 lattice cells sharing faces, corners renumbered by random cube rotations, "
                    "random kinds (incl. line and collinear arc) on random slots, faces shifted/inverted: entry list of "
                    "Mesh.assemble vs Model add_all (vm_compute), non-trivial = at least one geometric edge defined by two "
                    "operations; (c) random edges near/far from the validity thresholds: Coq decides eligible / not eligible; "
                    "(d) Loft.from_series over 3..6 cross-sections and Revolve, then moved as a whole by 0..3 of translate/rotate/scale/"
                    "mirror/invert/copy: direct oracle only (one entry per side edge, drawing the described arc/spline from its first "
                    "vertex to its second, wire length); for the series cases, the side edges found on the operation right after "
                    "Loft.from_series and after one invert() (kind of edge data, its points as positions in the given face list) vs "
                    "Model/C07_Series from_series / invert (vm_compute); distinct by canonical JSON of the input")
        rows = getattr(self, "_rows", None)
        if rows is None:
            rows = tab_single()
        shards = []
        goals = []   # (gid, text, description)
        gid = 0
        meta = {}
        for ob in rows:
            res.evaluations += 1
            res.count("single:" + ob["kind"])
            res.distinct.add("single:%s:%s:%d" % (ob["kind"], ob["variant"], ob["slot"]))
            bad = oracle_single(ob)
            if bad:
                res.oracle_failures.append(single_replay(ob, bad[0], bad[1]))
            if ob["n"] != 1 or ob["order"] == "Unreadable":
                continue
            # quick tier: Coq re-decides the rows of the faces used as given / inverted and a random tenth of the others
            if ctx.quick and ob["variant"] not in ("given", "invert") and ctx.rng.random() > 0.1:
                continue
            if ob["kind"] in ("anglep", "anglen"):
                goals.append((gid, sense_goal(gid, ob)))
                meta[gid] = dict(what="sense", kind=ob["kind"], variant=ob["variant"], slot=ob["slot"])
                gid += 1
            elif ob["kind"] in ("spline", "polyLine") and ob["wire_lengths"] and ob["wire_lengths"][0] is not None:
                goals.append((gid, length_goal(gid, ob)))
                meta[gid] = dict(what="length", kind=ob["kind"], variant=ob["variant"], slot=ob["slot"])
                gid += 1
        res.samples.append(dict(single=dict((k, rows[3][k]) for k in ("kind", "variant", "slot", "s", "e", "entry", "order", "wire_lengths"))))
        # (c) validity
        nv = ctx.n(100, 3000)
        vfails = 0
        for i in range(nv):
            c = gen_valid_case(ctx.rng)
            r = run_valid_case(c)
            res.evaluations += 1
            res.count("valid:%s:%s" % (c["kind"], "written" if r["valid"] else "omitted"))
            res.distinct.add("valid:" + json.dumps(c, sort_keys=True))
            bad = oracle_valid(c, r)
            if bad:
                vfails += 1
                if vfails <= 3:
                    res.oracle_failures.append(dict(kind="valid", case=c, observed=r, why=bad[0], sig=bad[1]))
            kind, g = valid_goal(gid, c, r)
            if kind == "boundary":
                res.boundary += 1
            elif kind == "goal":
                goals.append((gid, g))
                meta[gid] = dict(what="valid", case=c, observed=r)
                gid += 1
            if i == 0:
                res.samples.append(dict(valid=dict(case=c, observed=r)))
        # (d) side edges made by constructors (Loft.from_series, Revolve), operation then moved as a whole (oracle only)
        from props import C07_ctor
        seen_ctor = set()
        scases = []   # (faces, observation) of the series cases: Model/C07_Series against the constructor
        for i in range(ctx.n(120, 2500)):
            c = C07_ctor.gen_ctor_case(ctx.rng)
            if c["ctor"] == "series" and len(scases) < ctx.n(200, 1000):
                try:
                    scases.append((c["faces"], C07_ctor.series_observation(c["faces"])))
                    res.count("series-model:%d faces" % len(c["faces"]))
                except Exception as e:  # noqa: BLE001  (the oracle below reports the raising constructor)
                    ctx.log("S3: series observation failed: %s" % e)
            res.evaluations += 1
            res.count("ctor:%s:%d transforms" % (c["ctor"], len(c["transforms"])))
            res.distinct.add("ctor:" + json.dumps(c, sort_keys=True))
            for f in C07_ctor.check_ctor(c):
                if f["sig"] not in seen_ctor:
                    seen_ctor.add(f["sig"])
                    small = C07_ctor.shrink_ctor(c, f["sig"])
                    res.oracle_failures.append(([g for g in C07_ctor.check_ctor(small) if g["sig"] == f["sig"]] or [f])[0])
        # two fixed series at the border of the kinds: two faces (no edge), three faces (arc)
        for fs in ([[[0.0, 0.0, 0.0], [1.0, 0.0, 0.0], [1.0, 1.0, 0.0], [0.0, 1.0, 0.0]],
                    [[0.0, 0.0, 1.0], [1.0, 0.0, 1.0], [1.0, 1.0, 1.0], [0.0, 1.0, 1.0]]],
                   [[[0.0, 0.0, 0.0], [1.0, 0.0, 0.0], [1.0, 1.0, 0.0], [0.0, 1.0, 0.0]],
                    [[0.2, 0.0, 0.5], [1.2, 0.0, 0.5], [1.2, 1.0, 0.5], [0.2, 1.0, 0.5]],
                    [[0.0, 0.0, 1.0], [1.0, 0.0, 1.0], [1.0, 1.0, 1.0], [0.0, 1.0, 1.0]]]):
            scases.append((fs, C07_ctor.series_observation(fs)))
            res.count("series-model:%d faces" % len(fs))
        res.evaluations += len(scases)
        pers = 250
        for k in range(0, len(scases), pers):
            shards.append(("scases_%d" % (k // pers), C07_ctor.series_cases_file([ob for (_f, ob) in scases[k:k + pers]])))
        if scases:
            res.samples.append(dict(series_model=scases[0][1]))
        per = max(40, (len(goals) + 13) // 14)
        for k in range(0, len(goals), per):
            shards.append(("ncases_%d" % (k // per), N_HEAD + "\n".join(t for (_g, t) in goals[k:k + per])))
        # (b) programs
        npg = ctx.n(250, 5000)
        ucases = []
        seen_sig = set()
        for i in range(npg):
            prog = gen_program(ctx.rng)
            ob = run_program(prog)
            res.evaluations += 1
            res.traces += 1
            res.count("program:ops=%d" % len(prog["ops"]))
            res.count("program:entries", len(ob["entries"]))
            pairs = {}
            for (a, b, v, t) in ob["requests"]:
                if t:
                    pairs.setdefault(frozenset((a, b)), []).append(t)
            if any(len(v) > 1 for v in pairs.values()):
                res.distinct.add("program:" + json.dumps(prog, sort_keys=True))
                res.count("program:with-double-definition")
            for (why, sig) in oracle_program(prog, ob):
                if sig in seen_sig:
                    continue
                seen_sig.add(sig)
                small = shrink_program(prog, sig)
                sob = run_program(small)
                w2 = [w for (w, sg) in oracle_program(small, sob) if sg == sig]
                res.oracle_failures.append(dict(kind="program", program=small, why=(w2 or [why])[0], sig=sig,
                                                written=sob["entries"]))
            ucases.append((prog, ob))
            if i == 0:
                res.samples.append(dict(program=prog, requests=ob["requests"], entries=ob["impl"]))
        peru = 125
        for k in range(0, len(ucases), peru):
            body = ["From Coq Require Import List Bool Arith.", "From CB Require Import Model.C07_EdgeList.", "Import ListNotations.",
                    "Definition cases : list (nat * list request * list entry) := ["]
            body.append(";\n".join(u_case(k + j, ob) for j, (_p, ob) in enumerate(ucases[k:k + peru])))
            body.append("].")
            body.append("Eval vm_compute in (map (fun c => fst (fst c)) (filter (fun c => negb (entries_eqb (add_all [] (snd (fst c))) (snd c))) cases)).")
            shards.append(("ucases_%d" % (k // peru), "\n".join(body) + "\n"))
        import time as _t
        t0 = _t.time()
        ctx.log("S3: %d single cases, %d validity cases, %d programs run in %.1fs; %d interval goals, %d case files"
                % (len(rows), nv, npg, t0 - ctx.t0, len(goals), len(shards)))
        outs = core.run_cases_parallel(ctx, shards, jobs=(16 if ctx.quick else 8))
        # a case file killed from outside (no Coq error message: memory pressure on a shared machine) is retried alone
        texts = dict(shards)
        outs = [(name,) + tuple(core.run_cases_file(ctx, name, texts[name])[:3]) if (rc != 0 and not se.strip()) else (name, rc, so, se)
                for (name, rc, so, se) in outs]
        ctx.log("S3: case files compiled in %.1fs" % (_t.time() - t0))
        for (name, rc, so, se) in outs:
            if rc != 0:
                res.error = "case file %s failed to compile: %s" % (name, (se or so)[-800:])
                return res
            if name.startswith("scases"):
                lo = int(name.split("_")[1]) * pers
                for i in parse_id_list(so):
                    fs, ob = scases[lo + i]
                    res.mismatches.append(dict(what="side edges of Loft.from_series (as built / after invert) vs Model/C07_Series",
                                               faces=fs, face_ids=ob["faces"], built=ob["built"], inverted=ob["inverted"]))
            elif name.startswith("ucases"):
                for i in parse_id_list(so):
                    prog, ob = ucases[i]
                    res.mismatches.append(dict(what="edge list", program=prog, requests=ob["requests"], impl=ob["impl"]))
            else:
                oks = set(int(x) for x in re.findall(r"^OK (\d+)", so, flags=re.M))
                bad = set(int(x) for x in re.findall(r"^MISMATCH (\d+)", so, flags=re.M))
                lo = int(name.split("_")[1]) * per
                for (g, _t) in goals[lo:lo + per]:
                    if g in bad:
                        res.mismatches.append(meta[g])
                    elif g not in oks:
                        res.error = "goal %d of %s printed neither OK nor MISMATCH" % (g, name)
                        return res
        res.count("goals:interval", len(goals))
        return res

    # -- S4 ---------------------------------------------------------------------------------------
    def search(self, ctx, broken, corr):
        fails = []
        have = {f.get("sig") for f in corr.oracle_failures}
        # the finite domain again (cheap) and a seeded random search over programs
        try:
            for ob in tab_single():
                bad = oracle_single(ob)
                if bad and bad[1] not in have:
                    have.add(bad[1])
                    fails.append(single_replay(ob, bad[0], bad[1]))
            for kind in ("line", "arc_collinear"):
                for slot in range(12):
                    ob = single_case(kind, "given", slot, salt=slot)
                    bad = oracle_single(ob)
                    if bad and bad[1] not in have:
                        have.add(bad[1])
                        fails.append(single_replay(ob, bad[0], bad[1]))
        except Exception as e:
            ctx.log("search: single cases raised %s: %s" % (type(e).__name__, e))
        for m in corr.mismatches[:5]:
            if "program" in m:
                try:
                    ob = run_program(m["program"])
                    for (why, sig) in oracle_program(m["program"], ob):
                        if sig not in have:
                            have.add(sig)
                            fails.append(dict(kind="program", program=shrink_program(m["program"], sig), why=why, sig=sig))
                except Exception as e:
                    ctx.log("search: mismatching program raised %s" % e)
        if not fails and not corr.oracle_failures:
            from props import C07_ctor
            for i in range(ctx.n(300, 3000)):
                c = C07_ctor.gen_ctor_case(ctx.rng)
                fs = C07_ctor.check_ctor(c)
                if fs:
                    small = C07_ctor.shrink_ctor(c, fs[0]["sig"])
                    fails.append(([g for g in C07_ctor.check_ctor(small) if g["sig"] == fs[0]["sig"]] or fs)[0])
                    break
        if not fails and not corr.oracle_failures:
            for i in range(ctx.n(400, 4000)):
                try:
                    prog = gen_program(ctx.rng, max_ops=6)
                    ob = run_program(prog)
                    bad = oracle_program(prog, ob)
                except GenError as e:
                    fails.append(dict(kind="program", program=prog, why="observation failed: %s" % e, sig="C07:unreadable-output"))
                    break
                except Exception as e:
                    fails.append(dict(kind="program", program=prog, why="assemble raised %s: %s" % (type(e).__name__, e),
                                      sig="C07:assemble-raises"))
                    break
                if bad:
                    why, sig = bad[0]
                    fails.append(dict(kind="program", program=shrink_program(prog, sig), why=why, sig=sig))
                    break
            if not fails:
                for i in range(ctx.n(1500, 10000)):
                    c = gen_valid_case(ctx.rng)
                    r = run_valid_case(c)
                    bad = oracle_valid(c, r)
                    if bad:
                        fails.append(dict(kind="valid", case=c, observed=r, why=bad[0], sig=bad[1]))
                        break
        return fails

    def signature(self, rp):
        return rp.get("sig") or "C07:%s:%s" % (rp.get("kind"), (rp.get("why") or "")[:60])

    def replay(self, ctx, obj):
        k = obj.get("kind")
        if k == "single":
            ob = single_case(obj["edge_kind"], obj["variant"], obj["slot"], obj.get("salt", 0))
            print("implementation: user direction %d -> %d; written: %s; direction bit: %s; wire lengths: %s" % (
                ob["s"], ob["e"], json.dumps(ob.get("entry")), ob.get("order"), ob.get("wire_lengths")))
            print("oracle:", oracle_single(ob) or "ok")
        elif k == "program":
            ob = run_program(obj["program"])
            print("implementation: entries", json.dumps(ob["entries"]))
            print("model requests:", ob["requests"])
            print("oracle:", oracle_program(obj["program"], ob) or "ok")
        elif k == "ctor":
            from props import C07_ctor
            fs = C07_ctor.check_ctor(obj["case"])
            try:
                ob = C07_ctor.run_ctor_case(obj["case"])
                print("implementation: entries", json.dumps(ob["entries"]))
                print("described side edges:", json.dumps(C07_ctor.described(obj["case"])))
            except Exception as e:  # noqa: BLE001
                print("implementation raised", type(e).__name__, e)
            print("oracle:", [(f["why"], f["sig"]) for f in fs] or "ok")
        elif k == "valid":
            r = run_valid_case(obj["case"])
            print("implementation:", r)
            print("oracle:", oracle_valid(obj["case"], r) or "ok")
        else:
            print("nothing to replay:", obj.get("kind"))
        return 0


PROP = C07()
