"""C11 - Predefined shapes give right-handed, conformal, fully choppable blockings.

Tie (F): every class of the catalogue (harness/props/C11_shapes.py, DESIGN Appendix E) is built with the
real constructors at the canonical placement for every topology parameter, the documented chop calls
are made, and the assembled block vertex lists + chopped (block, axis) pairs + a reachability
certificate + the sketch quad maps / chop tables are written to coq/Gen/C11/Tables.v.
Properties/C11.v proves conformity, consistent handedness, face connectivity, vertex count,
choppability (through the proved certificate checker) and the chain interfaces about these tables.

Tie (N): the plane coordinates of the disk / annulus sketches at random placements are compared,
inside Coq with `interval`, with the closed-form model of Model/C11_Geom.v about which the Jacobian and
on-circle theorems are proved for all placements.

Correspondence: the blocking at random placements (centre, axes in general position and of arbitrary
length, sizes over two decades) equals the tabulated one (compared in Coq).
Direct oracle (independent Python restatement): corner Jacobians, conformity, face connectivity,
vertex count, outer arcs on the intended circle, families chopped (union-find), chain interfaces,
Mesh.write() under a watchdog.
"""
import json
import os
import re
import warnings

import numpy as np

import core
from core import GenError, CorrResult, Prop
import props.C11_shapes as S

SIDE_COQ = {"bottom": "Bottom", "top": "Top", "left": "Left", "right": "Right", "front": "Front", "back": "Back"}
XYZ = [(0, 0, 0), (1, 0, 0), (1, 1, 0), (0, 1, 0), (0, 0, 1), (1, 0, 1), (1, 1, 1), (0, 1, 1)]
CIDX = {x: i for i, x in enumerate(XYZ)}
SIDE_PLANE = {"bottom": (2, 0), "top": (2, 1), "front": (1, 0), "back": (1, 1), "left": (0, 0), "right": (0, 1)}
# the hexahedron's edges per axis, derived from XYZ (not from the library's AXIS_PAIRS)
AXIS_EDGES = [[(i, j) for i in range(8) for j in range(8)
               if XYZ[i][a] == 0 and XYZ[j][a] == 1 and all(XYZ[i][b] == XYZ[j][b] for b in range(3) if b != a)]
              for a in range(3)]


def _cb():
    import classy_blocks as cb
    return cb


# ------------------------------------------------------------------------------------------------
# observation of the implementation


class Obs:
    pass


def observe(built):
    cb = _cb()
    mesh = cb.Mesh()
    for e in built.entities:
        mesh.add(e)
    with warnings.catch_warnings():
        warnings.simplefilter("ignore")
        mesh.assemble()
    o = Obs()
    o.mesh = mesh
    o.blocks = [[int(v.index) for v in b.vertices] for b in mesh.blocks]
    o.pos = [np.array(v.position, dtype=float) for v in mesh.vertices]
    ops = mesh.operations
    if len(ops) != len(o.blocks):
        raise GenError("number of blocks differs from number of operations")
    o.chopped = [(i, a) for i, op in enumerate(ops) for a in range(3) if len(op.chops[a]) > 0]
    # block index ranges of the shapes between which interfaces are declared
    o.groups = []
    k = 0
    for sh in built.shapes:
        n = 1 if not hasattr(sh, "operations") or isinstance(sh, cb.Operation) else len(sh.operations)
        o.groups.append(list(range(k, k + n)))
        k += n
    if k != len(o.blocks):
        raise GenError("shape/operation bookkeeping mismatch: %d vs %d" % (k, len(o.blocks)))
    o.arcs = []
    for e in mesh.edge_list.edges:
        if e.kind in ("origin", "arc", "angle"):
            try:
                o.arcs.append((int(e.vertex_1.index), int(e.vertex_2.index), e.kind, np.array(e.third_point.position, dtype=float)))
            except Exception:
                pass
    for blk in o.blocks:
        if len(blk) != 8:
            raise GenError("block without 8 vertices")
    return o


def try_write(mesh, workdir, limit=200000):
    """Mesh.write() under a watchdog (propagation is being repaired concurrently: C01/C02)."""
    from classy_blocks.items.block import Block
    calls = [0]
    orig = Block.copy_grading

    class Watchdog(Exception):
        pass

    def counted(self):
        calls[0] += 1
        if calls[0] > limit:
            raise Watchdog()
        return orig(self)

    Block.copy_grading = counted
    path = os.path.join(workdir, "bmd_%d.txt" % os.getpid())
    try:
        with warnings.catch_warnings():
            warnings.simplefilter("ignore")
            mesh.write(path)
        return "ok"
    except Watchdog:
        return "watchdog"
    except Exception as e:
        return type(e).__name__
    finally:
        Block.copy_grading = orig
        if os.path.exists(path):
            os.remove(path)


# ------------------------------------------------------------------------------------------------
# direct oracle (Python restatement, independent of the Coq model)


def corner_jacobians(P8):
    """8 scaled corner Jacobians: triple product of the three edge vectors at the corner, oriented
    along +x,+y,+z of the reference hexahedron, divided by the product of their lengths"""
    out = []
    for c in range(8):
        x = XYZ[c]
        es = []
        for a in range(3):
            y = list(x)
            y[a] = 1 - y[a]
            n = CIDX[tuple(y)]
            es.append((P8[n] - P8[c]) * (1.0 if x[a] == 0 else -1.0))
        den = float(np.linalg.norm(es[0]) * np.linalg.norm(es[1]) * np.linalg.norm(es[2]))
        out.append(float(np.dot(es[0], np.cross(es[1], es[2]))) / den if den > 0 else 0.0)
    return out


def is_edge(c, d):
    return sum(1 for k in range(3) if XYZ[c][k] != XYZ[d][k]) == 1


def side_corners(s):
    ax, v = SIDE_PLANE[s]
    return [c for c in range(8) if XYZ[c][ax] == v]


def corner_set_ok(l):
    if len(l) in (0, 1):
        return True
    if len(l) == 2:
        return is_edge(l[0], l[1])
    if len(l) == 4:
        return any(sorted(l) == sorted(side_corners(s)) for s in SIDE_PLANE)
    return False


def families(blocks):
    parent = {}

    def find(x):
        while parent.setdefault(x, x) != x:
            parent[x] = parent[parent[x]]
            x = parent[x]
        return x

    def union(a, b):
        a, b = find(a), find(b)
        if a != b:
            parent[a] = b

    for bi, b in enumerate(blocks):
        for a in range(3):
            for (i, j) in AXIS_EDGES[a]:
                union(("n", bi, a), ("w",) + tuple(sorted((b[i], b[j]))))
    fam = {}
    for bi in range(len(blocks)):
        for a in range(3):
            fam.setdefault(find(("n", bi, a)), []).append((bi, a))
    return list(fam.values())


def oracle(built, o, P, check_write=None):
    """returns a list of (code, message); empty = the property holds on this instance"""
    bad = []
    blocks, pos = o.blocks, o.pos
    # 1. right-handed, positive corner Jacobians
    for bi, blk in enumerate(blocks):
        js = corner_jacobians([pos[i] for i in blk])
        if min(js) <= 1e-9:
            bad.append(("jacobian", "block %d has a non-positive corner Jacobian (scaled min %.3g at corner %d)" % (bi, min(js), js.index(min(js)))))
            break
    # 2. conformal
    for bi, blk in enumerate(blocks):
        if len(set(blk)) != 8:
            bad.append(("degenerate", "block %d repeats a vertex" % bi))
    vsets = [set(b) for b in blocks]
    nbr = {i: set() for i in range(len(blocks))}
    done = False
    for i in range(len(blocks)):
        for j in range(i + 1, len(blocks)):
            sh = vsets[i] & vsets[j]
            if not sh:
                continue
            la = [c for c in range(8) if blocks[i][c] in sh]
            lb = [c for c in range(8) if blocks[j][c] in sh]
            ok = corner_set_ok(la) and corner_set_ok(lb)
            if ok:
                for c in la:
                    for d in la:
                        if is_edge(c, d) != is_edge(blocks[j].index(blocks[i][c]), blocks[j].index(blocks[i][d])):
                            ok = False
            if not ok and not done:
                bad.append(("conformal", "blocks %d and %d share corners %r / %r: not a common corner, edge or side" % (i, j, la, lb)))
                done = True
            if len(sh) == 4:
                nbr[i].add(j)
                nbr[j].add(i)
                # consistent handedness across the shared side
                s = [s for s in SIDE_PLANE if sorted(side_corners(s)) == sorted(la)]
                if s and ok:
                    cyc = {"bottom": [0, 3, 2, 1], "top": [4, 5, 6, 7], "left": [0, 4, 7, 3], "right": [1, 2, 6, 5],
                           "front": [0, 1, 5, 4], "back": [3, 7, 6, 2]}[s[0]]
                    img = [blocks[j].index(blocks[i][c]) for c in cyc]
                    # outward for block i must be inward for block j: the image cycle, seen in j, is reversed outward
                    t = [t for t in SIDE_PLANE if sorted(side_corners(t)) == sorted(img)][0]
                    outj = {"bottom": [0, 3, 2, 1], "top": [4, 5, 6, 7], "left": [0, 4, 7, 3], "right": [1, 2, 6, 5],
                            "front": [0, 1, 5, 4], "back": [3, 7, 6, 2]}[t]
                    rev = list(reversed(outj))
                    if not any(img == rev[k:] + rev[:k] for k in range(4)):
                        bad.append(("handedness", "blocks %d and %d see their common side with the same orientation" % (i, j)))
    seen, todo = {0}, [0]
    while todo:
        x = todo.pop()
        for y in nbr[x]:
            if y not in seen:
                seen.add(y)
                todo.append(y)
    if len(seen) != len(blocks):
        bad.append(("connected", "blocking is not face-connected: %d of %d blocks reached" % (len(seen), len(blocks))))
    if built.expect_nv is not None and len(pos) != built.expect_nv:
        bad.append(("vertex-count", "%d vertices, expected %d" % (len(pos), built.expect_nv)))
    # 3. outer arcs on the intended circle
    for ci, c in enumerate(built.circles):
        cen, n, r = np.asarray(c["c"]), np.asarray(c["n"]), float(c["r"])
        on = set()
        for vi, p in enumerate(pos):
            d = p - cen
            if abs(np.linalg.norm(d) - r) < 1e-7 * r and abs(np.dot(d, n)) < 1e-7 * r:
                on.add(vi)
        arcs = [a for a in o.arcs if a[0] in on and a[1] in on and a[2] == "origin"]
        # only arcs whose third point is in the plane of this circle belong to it
        cnt = 0
        for (v1, v2, kind, tp) in arcs:
            d = tp - cen
            if abs(np.dot(d, n)) > 1e-6 * r:
                continue  # a meridian arc of a sphere etc.
            cnt += 1
            if abs(np.linalg.norm(d) - r) > 1e-9 * max(r, 1e-300) * 10:
                bad.append(("arc", "arc %d-%d: third point at distance %.12g from the centre, radius %.12g" % (v1, v2, np.linalg.norm(d), r)))
        if "verts" in c and len(on) != c["verts"]:
            bad.append(("circle-vertices", "circle %d: %d vertices on it, %d expected" % (ci, len(on), c["verts"])))
        if cnt < c["arcs"]:
            bad.append(("arc-missing", "circle %d: %d outer arcs found, %d expected" % (ci, cnt, c["arcs"])))
    # 4. choppable
    ch = set(o.chopped)
    un = [f for f in families(blocks) if not any(x in ch for x in f)]
    if un:
        bad.append(("unchopped", "%d famil%s of block axes without a chop after the documented chop calls, e.g. (block, axis) %r"
                    % (len(un), "y" if len(un) == 1 else "ies", un[0][:4])))
    if check_write:
        w = try_write(o.mesh, check_write)
        o.write = w
        if w == "UndefinedGradingsError" and not un:
            bad.append(("write", "Mesh.write() raises UndefinedGradingsError although every family holds a chop"))
        elif w not in ("ok", "watchdog", "UndefinedGradingsError", "InconsistentGradingsError"):
            bad.append(("write", "Mesh.write() raises %s" % w))
        elif w == "InconsistentGradingsError":
            bad.append(("write", "Mesh.write() raises InconsistentGradingsError after the documented chop calls"))
    # 5. chain interfaces
    for f in built.interfaces:
        gi, gj = o.groups[f["i"]], o.groups[f["j"]]
        vi = set(v for b in gi for v in blocks[b])
        vj = set(v for b in gj for v in blocks[b])
        sh = vi & vj
        fa = set(blocks[gi[0] + b][c] for b in f["fa"] for c in side_corners(f["sa"]))
        fb = set(blocks[gj[0] + b][c] for b in f["fb"] for c in side_corners(f["sb"]))
        if len(sh) != f["count"] or sh != fa or sh != fb:
            bad.append(("interface", "shapes %d and %d share %d vertices (expected %d); interface side sets %d / %d, equal: %s"
                        % (f["i"], f["j"], len(sh), f["count"], len(fa), len(fb), sh == fa == fb)))
    return bad


# ------------------------------------------------------------------------------------------------
# tables


def certificate(blocks, chopped):
    """BFS from the chopped nodes over 'share a wire'; per node (block-major) (parent index, depth)."""
    n = len(blocks)
    wires = {}
    node_w = {}
    for bi, b in enumerate(blocks):
        for a in range(3):
            ws = [tuple(sorted((b[i], b[j]))) for (i, j) in AXIS_EDGES[a]]
            node_w[(bi, a)] = ws
            for w in ws:
                wires.setdefault(w, []).append((bi, a))
    par = {}
    frontier = []
    for c in chopped:
        if c in node_w and c not in par:
            par[c] = (c, 0)
            frontier.append(c)
    while frontier:
        nxt = []
        for x in frontier:
            for w in node_w[x]:
                for y in wires[w]:
                    if y not in par:
                        par[y] = (x, par[x][1] + 1)
                        nxt.append(y)
        frontier = nxt
    cert = []
    for bi in range(n):
        for a in range(3):
            if (bi, a) in par:
                p, d = par[(bi, a)]
                cert.append((3 * p[0] + p[1], d))
            else:
                cert.append((0, 0))  # unreachable: the checker rejects (depth 0 requires a chopped node)
    return cert


def kind_coq(cid, built, o):
    p = cid.split(":")
    if p[0] in ("Box", "Extrude", "ExtrudeVec", "Loft", "Revolve", "Wedge"):
        return "KOp"
    if p[0] in ("ExtrudedShape", "RevolvedShape", "LoftedShape"):
        return "(KLofted (sketch_points %s))" % p[1]
    if p[0] in ("Cylinder", "Frustum", "Elbow"):
        return "(KLofted (sketch_points FourCoreDisk))"
    if p[0] == "SemiCylinder":
        return "(KLofted (sketch_points HalfDisk))"
    if p[0] in ("ExtrudedRing", "RevolvedRing"):
        return "(KRing %d)" % int(p[1])
    if p[0] == "Hemisphere":
        return "KHemisphere"
    if p[0] in ("ExtrudedStack", "ExtrudedStackVec", "RevolvedStack", "TransformedStack"):
        if p[1] == "Grid":
            return "(KStackGrid %d %d %d)" % (int(p[2]), int(p[3]), int(p[4]))
        return "(KStackSketch (sketch_points %s) %d)" % (p[1], int(p[2]))
    if p[0] == "LJoint":
        return "(KJoint 2)"
    if p[0] == "TJoint":
        return "(KJoint 3)"
    if p[0] == "NJoint":
        return "(KJoint %d)" % int(p[1])
    if built.expect_nv is None:
        raise GenError("no expected vertex count for %s" % cid)
    return "(KGiven %d)" % built.expect_nv


def nlist(l):
    return "[" + "; ".join("%d" % int(x) for x in l) + "]"


def Nlist(l):
    return "[" + "; ".join("%d%%N" % int(x) for x in l) + "]"


def plist(l):
    return "[" + "; ".join("(%d, %d)" % (int(a), int(b)) for (a, b) in l) + "]"


def blocks_coq(blocks):
    return "[" + ";\n      ".join(Nlist(b) for b in blocks) + "]"


def ifaces_coq(built, o):
    out = []
    for f in built.interfaces:
        gi, gj = o.groups[f["i"]], o.groups[f["j"]]
        out.append("((%s, %s, %s, %s, %s, %s), %d)" % (
            nlist([gi[0] + b for b in f["fa"]]), SIDE_COQ[f["sa"]], nlist([gj[0] + b for b in f["fb"]]), SIDE_COQ[f["sb"]],
            nlist(gi), nlist(gj), f["count"]))
    return "[" + "; ".join(out) + "]"


def tab_sketches():
    """runtime quad maps, chop tables and grids (as operation index lists) of every sketch class"""
    out = []
    P = S.Placement()
    for name in S.SKETCHES:
        for sides in ((False, True) if "Spline" in name else (False,)):
            sk = S.make_sketch(P, name, sides)
            if hasattr(sk, "indexes"):
                quads = [[int(i) for i in q] for q in sk.indexes]
            else:
                raise GenError("sketch %s has no quad map" % name)
            faces = list(sk.faces)
            if len(faces) != len(quads):
                raise GenError("sketch %s: %d faces, %d quads" % (name, len(faces), len(quads)))
            # the quad map must describe the faces: points with equal index coincide, different indexes differ
            pts = {}
            for q, f in zip(quads, faces):
                for i, p in zip(q, f.point_array):
                    if i in pts and np.linalg.norm(pts[i] - p) > 1e-9:
                        raise GenError("sketch %s: index %d names two different points" % (name, i))
                    pts[i] = np.array(p)
            grid = [[[id(x) for x in faces].index(id(f)) for f in row] for row in sk.grid]
            chops = [[int(i) for i in c] for c in sk.chops]
            out.append((name, sides, quads, grid, chops, len(pts)))
    return out


def emit_tables(entries, sketches, axis_pairs):
    o = ["(* GENERATED by harness/props/C11.py from the working tree of /repo -- do not edit *)",
         "From Coq Require Import List NArith Bool.", "From CB Require Import Base.Hex Model.C11_Topo.",
         "Import ListNotations.", ""]
    o.append("Inductive sketch_name := " + " | ".join(S.SKETCHES) + ".")
    o.append("Definition sketch_points (s : sketch_name) : nat :=\n  match s with " + " | ".join(
        "%s => %d" % (n, S.SKETCH_POINTS[n]) for n in S.SKETCHES) + " end.")
    o.append("(* the library's AXIS_PAIRS (constants.py) *)")
    o.append("Definition tab_axis_pairs : list (list (nat * nat)) := [" + "; ".join(plist(a) for a in axis_pairs) + "].")
    o.append("(* sketch, with straight sides?, quad map, grid (face indexes per tier), chops, number of distinct points *)")
    o.append("Definition tab_sketches : list (sketch_name * bool * list (list nat) * list (list nat) * list (list nat) * nat) :=\n  [" + ";\n   ".join(
        "(%s, %s, [%s], [%s], [%s], %d)" % (n, "true" if sd else "false", "; ".join(nlist(q) for q in quads),
                                             "; ".join(nlist(g) for g in grid), "; ".join(nlist(c) for c in chops), npts)
        for (n, sd, quads, grid, chops, npts) in sketches) + "].")
    o.append("")
    names = []
    for k, (cid, built, ob, cert) in enumerate(entries):
        nm = "t_%d" % k
        names.append(nm)
        o.append("(* %d: %s *)" % (k, cid))
        o.append("Definition %s : shape_tab := {|\n  st_id := %d;\n  st_kind := %s;\n  st_blocks :=\n     %s;\n  st_chopped := %s;\n  st_cert := %s;\n  st_nverts := %d;\n  st_ifaces := %s |}."
                 % (nm, k, kind_coq(cid, built, ob), blocks_coq(ob.blocks), plist(ob.chopped), plist(cert), len(ob.pos),
                    ifaces_coq(built, ob)))
    o.append("")
    o.append("Definition tab_shapes : list shape_tab := [" + "; ".join(names) + "].")
    return "\n".join(o) + "\n"


# ------------------------------------------------------------------------------------------------


def parse_id_list(so):
    m = re.search(r"=\s*\[(.*?)\]\s*:\s*list nat", so, flags=re.S)
    if not m:
        raise RuntimeError("cannot parse Coq output: %r" % so[:400])
    body = m.group(1).strip()
    if not body:
        return []
    return [int(x) for x in body.replace("\n", " ").split(";")]


SIGS = {
    "unchopped": "unchopped",
    "jacobian": "jacobian",
}


def replay_obj(cid, P, bad, extra=None):
    d = dict(kind="shape", cid=cid, placement=P.to_json(), why=[b[1] for b in bad][:4], codes=sorted({b[0] for b in bad}))
    if extra:
        d.update(extra)
    return d


class C11(Prop):
    pid = "C11"
    title = "Predefined shapes give right-handed, conformal, fully choppable blockings"
    prebuilt = ["Base/Hex.v", "Base/Vec3.v", "Model/C11_Topo.v", "Proofs/C11_Topo.v", "Model/C11_Geom.v", "Proofs/C11_Geom.v"]
    gen_dependent_files = ["Gen/C11/Tables.v", "Gen/C11/GeomConst.v"]
    property_files = ["Properties/C11.v"]
    trusted = [
        "tabulation: every class of the catalogue harness/props/C11_shapes.py (DESIGN Appendix E) built by the real "
        "constructors at the canonical placement for each topology parameter (ring segments 3..12, joint branches 2..8, "
        "stack grids/repeats, 25 chains of up to 4 shapes), observed through Mesh.assemble(): block vertex lists, "
        "(block, axis) pairs holding chops after the documented chop calls, sketch quad maps / grids / chop tables",
        "reachability certificates are produced by the harness and CHECKED by the proved checker check_cert (not trusted)",
        "'the blocking at any valid placement equals the tabulated one' is sampled (random placements compared in Coq), not proved",
        "choppable => Mesh.write() succeeds relies on C02_complete (property C02); write() itself is only observed under a watchdog",
        "Jacobian positivity is proved for the extruded FourCoreDisk/HalfDisk/QuarterDisk/OneCoreDisk family and the extruded "
        "ring with any number >= 3 of segments; for tapered/bent/sheared/spherical/spline shapes it is only validated by the oracle",
    ]
    partial = [
        "C11_jacobian_partial: positivity of the corner Jacobians proved for the extruded disk family and rings (all centres, "
        "radius vectors, normals, heights, segment counts >= 3); Frustum, Elbow, RevolvedRing, Hemisphere, Shell, joints, spline "
        "sketches: validated by the direct oracle at sampled placements only",
        "C11_choppable: proves 'every family holds a chop'; that this makes Mesh.write() succeed is C02_complete",
    ]

    # ---- S1
    def generate(self, ctx):
        from classy_blocks.util import constants
        cat = S.catalogue(thorough=not ctx.quick)
        entries = []
        P = S.Placement()
        for e in cat:
            try:
                built = S.build(e, P)
                ob = observe(built)
            except GenError:
                raise
            except Exception as ex:
                raise GenError("catalogue entry %s cannot be built at the canonical placement: %s: %s" % (e[0], type(ex).__name__, ex))
            cert = certificate(ob.blocks, ob.chopped)
            entries.append((e[0], built, ob, cert))
        sketches = tab_sketches()
        axis_pairs = [[(int(a), int(b)) for (a, b) in ax] for ax in constants.AXIS_PAIRS]
        ctx.write_gen("Tables", emit_tables(entries, sketches, axis_pairs))
        import props.C11_geom as G
        ctx.write_gen("GeomConst", G.emit_const()[0])
        self._entries = entries
        self._index = {cid: k for k, (cid, _b, _o, _c) in enumerate(entries)}

    # ---- S3
    def correspond(self, ctx):
        res = CorrResult()
        res.rule = ("every catalogue class at random placements (rotation in general position, scale 0.1..10, offset, normals "
                    "of arbitrary length) plus random chains of <= 4 shapes: the assembled block vertex lists and chopped "
                    "(block, axis) pairs are compared in Coq with the tabulated canonical ones (chains: checked directly with the "
                    "Coq checkers); sketch plane coordinates compared with the closed-form model by `interval` (1e-9 relative); "
                    "non-trivial = more than one block; distinct by (class, placement)")
        if not hasattr(self, "_entries"):
            res.error = "tables were not generated"
            return res
        entries = self._entries
        cases = []   # (k, cid, P, blocks, chopped) compared with table k
        free = []    # (cid, built, ob, cert) random chains checked directly
        rng = ctx.rng
        # canonical placement: the full oracle, with write()
        for (cid, built, ob, cert) in entries:
            bad = oracle(built, ob, S.Placement(), check_write=ctx.work)
            res.evaluations += 1
            res.count("write=" + getattr(ob, "write", "?"))
            res.count("class=" + cid.split(":")[0])
            if bad:
                res.oracle_failures.append(replay_obj(cid, S.Placement(), bad))
        nplace = ctx.n(1, 8)
        for rep in range(nplace):
            for k, (cid, _b, _o, _c) in enumerate(entries):
                if ctx.quick and rep > 0:
                    break
                P = S.random_placement(rng)
                try:
                    built = S.build(S.entry_for(cid), P)
                    ob = observe(built)
                except Exception as ex:
                    res.oracle_failures.append(replay_obj(cid, P, [("exception", "%s: %s" % (type(ex).__name__, str(ex)[:200]))]))
                    continue
                bad = oracle(built, ob, P)
                res.evaluations += 1
                res.count("class=" + cid.split(":")[0])
                if len(ob.blocks) > 1:
                    res.distinct.add("%s@%r" % (cid, [round(x, 6) for x in P.t]))
                if bad:
                    res.oracle_failures.append(replay_obj(cid, P, bad))
                cases.append((k, cid, P, ob.blocks, ob.chopped))
        # extra placements of a random subset (quick) to reach the documented ~60 placements beyond one per class
        extra = ctx.n(60, 600)
        for _ in range(extra):
            k = rng.randrange(len(entries))
            cid = entries[k][0]
            P = S.random_placement(rng)
            try:
                built = S.build(S.entry_for(cid), P)
                ob = observe(built)
            except Exception as ex:
                res.oracle_failures.append(replay_obj(cid, P, [("exception", "%s: %s" % (type(ex).__name__, str(ex)[:200]))]))
                continue
            bad = oracle(built, ob, P)
            res.evaluations += 1
            res.count("class=" + cid.split(":")[0])
            if len(ob.blocks) > 1:
                res.distinct.add("%s@%r" % (cid, [round(x, 6) for x in P.t]))
            if bad:
                res.oracle_failures.append(replay_obj(cid, P, bad))
            cases.append((k, cid, P, ob.blocks, ob.chopped))
        # random chains
        for _ in range(ctx.n(25, 300)):
            steps = S.random_chain(rng)
            cid = "Chain:" + ">".join(steps)
            P = S.random_placement(rng)
            try:
                built = S.build(S.entry_for(cid), P)
                ob = observe(built)
            except Exception as ex:
                res.oracle_failures.append(replay_obj(cid, P, [("exception", "%s: %s" % (type(ex).__name__, str(ex)[:200]))]))
                continue
            bad = oracle(built, ob, P)
            res.evaluations += 1
            res.count("class=Chain(random)")
            res.count("chain-length=%d" % len(steps))
            res.distinct.add("%s@%r" % (cid, [round(x, 6) for x in P.t]))
            if bad:
                res.oracle_failures.append(replay_obj(cid, P, bad))
            free.append((cid, built, ob, certificate(ob.blocks, ob.chopped), P))
        res.samples = [dict(cid=c[1], placement=c[2].to_json(), blocks=c[3][:2], chopped=c[4][:6]) for c in cases[:3]]
        res.traces = len(cases) + len(free)
        # Coq side
        shards = []
        per = 60
        head = ["From Coq Require Import List NArith Bool Arith.", "From CB Require Import Base.Hex Model.C11_Topo Gen.C11.Tables.",
                "Import ListNotations."]
        for s0 in range(0, len(cases), per):
            chunk = cases[s0:s0 + per]
            body = list(head)
            body.append("Definition cases : list (nat * nat * list block * list node) := [")
            body.append(";\n".join("(%d, %d, %s, %s)" % (s0 + j, k, blocks_coq(bl), plist(ch)) for j, (k, _c, _p, bl, ch) in enumerate(chunk)))
            body.append("].")
            body.append("Definition agree (c : nat * nat * list block * list node) : bool :=\n"
                        "  let '(_, k, bl, ch) := c in\n"
                        "  match nth_error tab_shapes k with\n"
                        "  | Some t => blocks_eqb (st_blocks t) bl && nodes_eqb (st_chopped t) ch\n  | None => false end.")
            body.append("Eval vm_compute in (map (fun c => fst (fst (fst c))) (filter (fun c => negb (agree c)) cases)).")
            shards.append(("cases_%d" % (s0 // per), "\n".join(body) + "\n"))
        perf = 12
        for s0 in range(0, len(free), perf):
            chunk = free[s0:s0 + perf]
            body = list(head)
            for j, (cid, built, ob, cert, _P) in enumerate(chunk):
                body.append("(* %s *)" % cid)
                body.append("Definition f_%d : shape_tab := {| st_id := %d; st_kind := KGiven %d; st_blocks := %s; st_chopped := %s; "
                            "st_cert := %s; st_nverts := %d; st_ifaces := %s |}."
                            % (j, s0 + j, built.expect_nv, blocks_coq(ob.blocks), plist(ob.chopped), plist(cert), len(ob.pos),
                               ifaces_coq(built, ob)))
            body.append("Definition frees : list shape_tab := [" + "; ".join("f_%d" % j for j in range(len(chunk))) + "].")
            body.append("Eval vm_compute in (map st_id (filter (fun t => negb (tab_conformal t && tab_oriented t && tab_choppable t && tab_ifaces t)) frees)).")
            shards.append(("free_%d" % (s0 // perf), "\n".join(body) + "\n"))
        geo_cases, geo_shards = self.geometry_cases(ctx, res)
        shards += geo_shards
        for (name, rc, so, se) in core.run_cases_parallel(ctx, shards):
            if rc != 0:
                res.error = "case file %s failed to compile: %s" % (name, se[-800:])
                return res
            if name.startswith("cases_"):
                for i in parse_id_list(so):
                    k, cid, P, bl, ch = cases[i]
                    res.mismatches.append(dict(case=i, cid=cid, placement=P.to_json(), what="blocking at this placement differs from the canonical table",
                                               blocks=bl[:4], chopped=ch))
            elif name.startswith("free_"):
                for i in parse_id_list(so):
                    cid, built, ob, cert, P = free[i]
                    res.mismatches.append(dict(case=i, cid=cid, placement=P.to_json(), what="random chain fails a Coq checker (conformal/oriented/choppable/interface)"))
            else:
                oks = set(int(x) for x in re.findall(r"^OK (\d+)", so, flags=re.M))
                mis = set(int(x) for x in re.findall(r"^MISMATCH (\d+)", so, flags=re.M))
                ids = [g["id"] for g in geo_cases if g["shard"] == name]
                for gid in ids:
                    g = geo_cases[gid]
                    if gid in mis or gid not in oks:
                        res.mismatches.append(dict(case=gid, cid=g["cid"], placement=g["placement"], what="sketch coordinates differ from the closed-form model" if gid in mis else "goal printed no verdict",
                                                   point=g.get("point")))
        return res

    # geometric correspondence (N): filled in by geometry module below
    def geometry_cases(self, ctx, res):
        try:
            import props.C11_geom as G
        except ImportError:
            return [], []
        return G.cases(ctx, res)

    # ---- S4
    def search(self, ctx, broken, corr):
        fails = []
        # canonical catalogue with the direct oracle
        P0 = S.Placement()
        seen = set()
        for e in S.catalogue(thorough=False):
            for P in (P0, S.random_placement(ctx.rng)):
                try:
                    built = S.build(e, P)
                    ob = observe(built)
                    bad = oracle(built, ob, P)
                except Exception as ex:
                    bad = [("exception", "%s: %s" % (type(ex).__name__, str(ex)[:200]))]
                if bad:
                    rp = replay_obj(e[0], P, bad)
                    sig = self.signature(rp)
                    if sig not in seen:
                        seen.add(sig)
                        fails.append(rp)
        for m in corr.mismatches[:10]:
            if "cid" in m and "placement" in m:
                P = S.Placement.from_json(m["placement"])
                try:
                    built = S.build(S.entry_for(m["cid"]), P)
                    ob = observe(built)
                    bad = oracle(built, ob, P)
                except Exception as ex:
                    bad = [("exception", "%s: %s" % (type(ex).__name__, str(ex)[:200]))]
                # a placement-dependent blocking is itself a failure of "for any valid placement"
                if not bad and "differs from the canonical" in m.get("what", ""):
                    bad = [("placement-dependent", m["what"])]
                if not bad and "sketch coordinates" in m.get("what", ""):
                    try:
                        import props.C11_geom as G
                        bad = G.direct_oracle(m)
                    except ImportError:
                        bad = []
                if bad:
                    rp = replay_obj(m["cid"], P, bad)
                    sig = self.signature(rp)
                    if sig not in seen:
                        seen.add(sig)
                        fails.append(rp)
        return fails

    def signature(self, rp):
        cid = rp.get("cid", "")
        base = cid
        if cid.startswith("Chain:"):
            # the step that fails is what matters: keep the chain itself
            base = cid
        else:
            p = cid.split(":")
            if p[0] in ("ExtrudedShape", "RevolvedShape", "LoftedShape") or "Stack" in p[0]:
                base = "sketch=" + p[1]
            elif p[0] in ("NJoint", "ExtrudedRing", "RevolvedRing"):
                base = p[0]
            else:
                base = p[0]
        return "C11:%s:%s" % (base, "+".join(rp.get("codes", [])))

    def replay(self, ctx, obj):
        P = S.Placement.from_json(obj["placement"])
        built = S.build(S.entry_for(obj["cid"]), P)
        ob = observe(built)
        bad = oracle(built, ob, P, check_write=ctx.work)
        print("class:", obj["cid"])
        print("implementation: %d blocks, %d vertices, chopped (block, axis): %r" % (len(ob.blocks), len(ob.pos), ob.chopped))
        print("Mesh.write():", getattr(ob, "write", "?"))
        print("oracle:", bad or "ok")
        return 0


PROP = C11()
