"""C11 - Predefined shapes give right-handed, conformal, fully choppable blockings.

Tie (F): every class of the catalogue (harness/props/C11_shapes.py, DESIGN Appendix E) is built with the
real constructors at the canonical placement for every topology parameter, the documented chop calls
are made, and the assembled block vertex lists + chopped (block, axis) pairs + a reachability
certificate + the sketch quad maps / chop tables are written to coq/Gen/C11/Tables.v.
Properties/C11.v proves conformity, consistent handedness, face connectivity, vertex count,
choppability (through the proved certificate checker) and the chain interfaces about these tables.

Tie (N): the plane coordinates of the disk / annulus sketches at random placements are compared,
inside Coq with `interval`, with the closed-form model of Model/C11_Geom.v about which the Jacobian and
on-circle theorems are proved for all placements.

Correspondence: the blocking at random placements (centre, axes in general position and of arbitrary
length, sizes over two decades) equals the tabulated one (compared in Coq).
Direct oracle (independent Python restatement): corner Jacobians, conformity, face connectivity,
vertex count, outer arcs on the intended circle, families chopped (union-find), chain interfaces,
Mesh.write() under a watchdog.
"""
import json
import os
import re
import time
import warnings

import numpy as np

import core
from core import GenError, CorrResult, Prop
import props.C11_shapes as S

SIDE_COQ = {"bottom": "Bottom", "top": "Top", "left": "Left", "right": "Right", "front": "Front", "back": "Back"}
XYZ = [(0, 0, 0), (1, 0, 0), (1, 1, 0), (0, 1, 0), (0, 0, 1), (1, 0, 1), (1, 1, 1), (0, 1, 1)]
CIDX = {x: i for i, x in enumerate(XYZ)}
SIDE_PLANE = {"bottom": (2, 0), "top": (2, 1), "front": (1, 0), "back": (1, 1), "left": (0, 0), "right": (0, 1)}
# the hexahedron's edges per axis, derived from XYZ (not from the library's AXIS_PAIRS)
AXIS_EDGES = [[(i, j) for i in range(8) for j in range(8)
               if XYZ[i][a] == 0 and XYZ[j][a] == 1 and all(XYZ[i][b] == XYZ[j][b] for b in range(3) if b != a)]
              for a in range(3)]


def _cb():
    import classy_blocks as cb
    return cb


# ------------------------------------------------------------------------------------------------
# observation of the implementation


class Obs:
    pass


def observe(built):
    cb = _cb()
    mesh = cb.Mesh()
    for e in built.entities:
        mesh.add(e)
    with warnings.catch_warnings():
        warnings.simplefilter("ignore")
        mesh.assemble()
    o = Obs()
    o.mesh = mesh
    o.blocks = [[int(v.index) for v in b.vertices] for b in mesh.blocks]
    o.pos = [np.array(v.position, dtype=float) for v in mesh.vertices]
    ops = mesh.operations
    if len(ops) != len(o.blocks):
        raise GenError("number of blocks differs from number of operations")
    o.chopped = [(i, a) for i, op in enumerate(ops) for a in range(3) if len(op.chops[a]) > 0]
    # block index ranges of the shapes between which interfaces are declared
    o.groups = []
    k = 0
    for sh in built.shapes:
        n = 1 if not hasattr(sh, "operations") or isinstance(sh, cb.Operation) else len(sh.operations)
        o.groups.append(list(range(k, k + n)))
        k += n
    if k != len(o.blocks):
        raise GenError("shape/operation bookkeeping mismatch: %d vs %d" % (k, len(o.blocks)))
    o.arcs = []
    for e in mesh.edge_list.edges:
        if e.kind in ("origin", "arc", "angle"):
            try:
                o.arcs.append((int(e.vertex_1.index), int(e.vertex_2.index), e.kind, np.array(e.third_point.position, dtype=float)))
            except Exception:
                pass
    for blk in o.blocks:
        if len(blk) != 8:
            raise GenError("block without 8 vertices")
    return o


def try_write(mesh, workdir, limit=200000):
    """Mesh.write() under a watchdog (propagation is being repaired concurrently: C01/C02)."""
    from classy_blocks.items.block import Block
    calls = [0]
    orig = Block.copy_grading

    class Watchdog(Exception):
        pass

    def counted(self):
        calls[0] += 1
        if calls[0] > limit:
            raise Watchdog()
        return orig(self)

    Block.copy_grading = counted
    path = os.path.join(workdir, "bmd_%d.txt" % os.getpid())
    try:
        with warnings.catch_warnings():
            warnings.simplefilter("ignore")
            mesh.write(path)
        return "ok"
    except Watchdog:
        return "watchdog"
    except Exception as e:
        return type(e).__name__
    finally:
        Block.copy_grading = orig
        if os.path.exists(path):
            os.remove(path)


# ------------------------------------------------------------------------------------------------
# direct oracle (Python restatement, independent of the Coq model)


def corner_jacobians(P8):
    """8 scaled corner Jacobians: triple product of the three edge vectors at the corner, oriented
    along +x,+y,+z of the reference hexahedron, divided by the product of their lengths"""
    out = []
    for c in range(8):
        x = XYZ[c]
        es = []
        for a in range(3):
            y = list(x)
            y[a] = 1 - y[a]
            n = CIDX[tuple(y)]
            es.append((P8[n] - P8[c]) * (1.0 if x[a] == 0 else -1.0))
        den = float(np.linalg.norm(es[0]) * np.linalg.norm(es[1]) * np.linalg.norm(es[2]))
        out.append(float(np.dot(es[0], np.cross(es[1], es[2]))) / den if den > 0 else 0.0)
    return out


def is_edge(c, d):
    return sum(1 for k in range(3) if XYZ[c][k] != XYZ[d][k]) == 1


def side_corners(s):
    ax, v = SIDE_PLANE[s]
    return [c for c in range(8) if XYZ[c][ax] == v]


def corner_set_ok(l):
    if len(l) in (0, 1):
        return True
    if len(l) == 2:
        return is_edge(l[0], l[1])
    if len(l) == 4:
        return any(sorted(l) == sorted(side_corners(s)) for s in SIDE_PLANE)
    return False


def families(blocks):
    parent = {}

    def find(x):
        while parent.setdefault(x, x) != x:
            parent[x] = parent[parent[x]]
            x = parent[x]
        return x

    def union(a, b):
        a, b = find(a), find(b)
        if a != b:
            parent[a] = b

    for bi, b in enumerate(blocks):
        for a in range(3):
            for (i, j) in AXIS_EDGES[a]:
                union(("n", bi, a), ("w",) + tuple(sorted((b[i], b[j]))))
    fam = {}
    for bi in range(len(blocks)):
        for a in range(3):
            fam.setdefault(find(("n", bi, a)), []).append((bi, a))
    return list(fam.values())


def oracle(built, o, P, check_write=None):
    """returns a list of (code, message); empty = the property holds on this instance"""
    bad = []
    blocks, pos = o.blocks, o.pos
    # 1. right-handed, positive corner Jacobians
    for bi, blk in enumerate(blocks):
        js = corner_jacobians([pos[i] for i in blk])
        if min(js) <= 1e-9:
            bad.append(("jacobian", "block %d has a non-positive corner Jacobian (scaled min %.3g at corner %d)" % (bi, min(js), js.index(min(js)))))
            break
    # 2. conformal
    for bi, blk in enumerate(blocks):
        if len(set(blk)) != 8:
            bad.append(("degenerate", "block %d repeats a vertex" % bi))
    vsets = [set(b) for b in blocks]
    nbr = {i: set() for i in range(len(blocks))}
    done = False
    for i in range(len(blocks)):
        for j in range(i + 1, len(blocks)):
            sh = vsets[i] & vsets[j]
            if not sh:
                continue
            la = [c for c in range(8) if blocks[i][c] in sh]
            lb = [c for c in range(8) if blocks[j][c] in sh]
            ok = corner_set_ok(la) and corner_set_ok(lb)
            if ok:
                for c in la:
                    for d in la:
                        if is_edge(c, d) != is_edge(blocks[j].index(blocks[i][c]), blocks[j].index(blocks[i][d])):
                            ok = False
            if not ok and not done:
                bad.append(("conformal", "blocks %d and %d share corners %r / %r: not a common corner, edge or side" % (i, j, la, lb)))
                done = True
            if len(sh) == 4:
                nbr[i].add(j)
                nbr[j].add(i)
                # consistent handedness across the shared side
                s = [s for s in SIDE_PLANE if sorted(side_corners(s)) == sorted(la)]
                if s and ok:
                    cyc = {"bottom": [0, 3, 2, 1], "top": [4, 5, 6, 7], "left": [0, 4, 7, 3], "right": [1, 2, 6, 5],
                           "front": [0, 1, 5, 4], "back": [3, 7, 6, 2]}[s[0]]
                    img = [blocks[j].index(blocks[i][c]) for c in cyc]
                    # outward for block i must be inward for block j: the image cycle, seen in j, is reversed outward
                    t = [t for t in SIDE_PLANE if sorted(side_corners(t)) == sorted(img)][0]
                    outj = {"bottom": [0, 3, 2, 1], "top": [4, 5, 6, 7], "left": [0, 4, 7, 3], "right": [1, 2, 6, 5],
                            "front": [0, 1, 5, 4], "back": [3, 7, 6, 2]}[t]
                    rev = list(reversed(outj))
                    if not any(img == rev[k:] + rev[:k] for k in range(4)):
                        bad.append(("handedness", "blocks %d and %d see their common side with the same orientation" % (i, j)))
    seen, todo = {0}, [0]
    while todo:
        x = todo.pop()
        for y in nbr[x]:
            if y not in seen:
                seen.add(y)
                todo.append(y)
    if len(seen) != len(blocks):
        bad.append(("connected", "blocking is not face-connected: %d of %d blocks reached" % (len(seen), len(blocks))))
    if built.expect_nv is not None and len(pos) != built.expect_nv:
        bad.append(("vertex-count", "%d vertices, expected %d" % (len(pos), built.expect_nv)))
    # 3. outer arcs on the intended circle
    for ci, c in enumerate(built.circles):
        cen, n, r = np.asarray(c["c"]), np.asarray(c["n"]), float(c["r"])
        on = set()
        for vi, p in enumerate(pos):
            d = p - cen
            if abs(np.linalg.norm(d) - r) < 1e-7 * r and abs(np.dot(d, n)) < 1e-7 * r:
                on.add(vi)
        arcs = [a for a in o.arcs if a[0] in on and a[1] in on and a[2] == "origin"]
        # only arcs whose third point is in the plane of this circle belong to it
        cnt = 0
        for (v1, v2, kind, tp) in arcs:
            d = tp - cen
            if abs(np.dot(d, n)) > 1e-6 * r:
                continue  # a meridian arc of a sphere etc.
            cnt += 1
            if abs(np.linalg.norm(d) - r) > 1e-9 * max(r, 1e-300) * 10:
                bad.append(("arc", "arc %d-%d: third point at distance %.12g from the centre, radius %.12g" % (v1, v2, np.linalg.norm(d), r)))
        if "verts" in c and len(on) != c["verts"]:
            bad.append(("circle-vertices", "circle %d: %d vertices on it, %d expected" % (ci, len(on), c["verts"])))
        if cnt < c["arcs"]:
            bad.append(("arc-missing", "circle %d: %d outer arcs found, %d expected" % (ci, cnt, c["arcs"])))
    # 4. choppable
    ch = set(o.chopped)
    un = [f for f in families(blocks) if not any(x in ch for x in f)]
    if un:
        bad.append(("unchopped", "%d famil%s of block axes without a chop after the documented chop calls, e.g. (block, axis) %r"
                    % (len(un), "y" if len(un) == 1 else "ies", un[0][:4])))
    if check_write:
        w = try_write(o.mesh, check_write)
        o.write = w
        if w == "UndefinedGradingsError" and not un:
            bad.append(("write", "Mesh.write() raises UndefinedGradingsError although every family holds a chop"))
        elif w not in ("ok", "watchdog", "UndefinedGradingsError", "InconsistentGradingsError"):
            bad.append(("write", "Mesh.write() raises %s" % w))
        elif w == "InconsistentGradingsError":
            bad.append(("write", "Mesh.write() raises InconsistentGradingsError after the documented chop calls"))
    # 5. chain interfaces
    for f in built.interfaces:
        gi, gj = o.groups[f["i"]], o.groups[f["j"]]
        vi = set(v for b in gi for v in blocks[b])
        vj = set(v for b in gj for v in blocks[b])
        sh = vi & vj
        fa = set(blocks[gi[0] + b][c] for b in f["fa"] for c in side_corners(f["sa"]))
        fb = set(blocks[gj[0] + b][c] for b in f["fb"] for c in side_corners(f["sb"]))
        if len(sh) != f["count"] or sh != fa or sh != fb:
            bad.append(("interface", "shapes %d and %d share %d vertices (expected %d); interface side sets %d / %d, equal: %s"
                        % (f["i"], f["j"], len(sh), f["count"], len(fa), len(fb), sh == fa == fb)))
    return bad


# ------------------------------------------------------------------------------------------------
# tables


def certificate(blocks, chopped):
    """BFS from the chopped nodes over 'share a wire'; per node (block-major) (parent index, depth)."""
    n = len(blocks)
    wires = {}
    node_w = {}
    for bi, b in enumerate(blocks):
        for a in range(3):
            ws = [tuple(sorted((b[i], b[j]))) for (i, j) in AXIS_EDGES[a]]
            node_w[(bi, a)] = ws
            for w in ws:
                wires.setdefault(w, []).append((bi, a))
    par = {}
    frontier = []
    for c in chopped:
        if c in node_w and c not in par:
            par[c] = (c, 0)
            frontier.append(c)
    while frontier:
        nxt = []
        for x in frontier:
            for w in node_w[x]:
                for y in wires[w]:
                    if y not in par:
                        par[y] = (x, par[x][1] + 1)
                        nxt.append(y)
        frontier = nxt
    cert = []
    for bi in range(n):
        for a in range(3):
            if (bi, a) in par:
                p, d = par[(bi, a)]
                cert.append((3 * p[0] + p[1], d))
            else:
                cert.append((0, 0))  # unreachable: the checker rejects (depth 0 requires a chopped node)
    return cert


def kind_coq(cid, expect_nv):
    p = cid.split(":")
    if p[0] in ("Box", "Extrude", "ExtrudeVec", "Loft", "Revolve", "Wedge"):
        return "KOp"
    if p[0] in ("ExtrudedShape", "RevolvedShape", "LoftedShape"):
        return "(KLofted (sketch_points %s))" % p[1]
    if p[0] in ("Cylinder", "Frustum", "Elbow"):
        return "(KLofted (sketch_points FourCoreDisk))"
    if p[0] == "SemiCylinder":
        return "(KLofted (sketch_points HalfDisk))"
    if p[0] in ("ExtrudedRing", "RevolvedRing"):
        return "(KRing %d)" % int(p[1])
    if p[0] == "Hemisphere":
        return "KHemisphere"
    if p[0] in ("ExtrudedStack", "ExtrudedStackVec", "RevolvedStack", "TransformedStack"):
        if p[1] == "Grid":
            return "(KStackGrid %d %d %d)" % (int(p[2]), int(p[3]), int(p[4]))
        return "(KStackSketch (sketch_points %s) %d)" % (p[1], int(p[2]))
    if p[0] == "LJoint":
        return "(KJoint 2)"
    if p[0] == "TJoint":
        return "(KJoint 3)"
    if p[0] == "NJoint":
        return "(KJoint %d)" % int(p[1])
    if expect_nv is None:
        raise GenError("no expected vertex count for %s" % cid)
    return "(KGiven %d)" % expect_nv


def nlist(l):
    return "[" + "; ".join("%d" % int(x) for x in l) + "]"


def Nlist(l):
    return "[" + "; ".join("%d%%N" % int(x) for x in l) + "]"


def plist(l):
    return "[" + "; ".join("(%d, %d)" % (int(a), int(b)) for (a, b) in l) + "]"


def blocks_coq(blocks):
    return "[" + ";\n      ".join(Nlist(b) for b in blocks) + "]"


def ifaces_resolved(built, o):
    """interfaces with absolute block indexes: (fa, sa, fb, sb, gi, gj, count)"""
    out = []
    for f in built.interfaces:
        gi, gj = o.groups[f["i"]], o.groups[f["j"]]
        out.append(([gi[0] + b for b in f["fa"]], f["sa"], [gj[0] + b for b in f["fb"]], f["sb"], list(gi), list(gj), int(f["count"])))
    return out


def ifaces_coq(ifaces):
    return "[" + "; ".join("((%s, %s, %s, %s, %s, %s), %d)" % (nlist(fa), SIDE_COQ[sa], nlist(fb), SIDE_COQ[sb], nlist(gi), nlist(gj), cnt)
                           for (fa, sa, fb, sb, gi, gj, cnt) in ifaces) + "]"


# ------------------------------------------------------------------------------------------------
# jobs: one catalogue entry (or chain) at one placement -> plain data (runs in worker processes)


def run_job(job):
    cid, pj, workdir = job
    P = S.Placement.from_json(pj)
    try:
        built = S.build(S.entry_for(cid), P)
        if pj.get("moved"):
            # the same shape, created at the canonical placement and MOVED to P afterwards with scale / rotate / translate:
            # it is the same blocking as the one created in place (expectations are those of the placement P)
            can = S.build(S.entry_for(cid), S.Placement(signs=P.signs, k=P.k))
            R = np.asarray(P.R, dtype=float)
            ang = float(np.arccos(max(-1.0, min(1.0, (np.trace(R) - 1.0) / 2.0))))
            ax = np.array([R[2, 1] - R[1, 2], R[0, 2] - R[2, 0], R[1, 0] - R[0, 1]])
            with warnings.catch_warnings():
                warnings.simplefilter("ignore")
                for ent in can.entities:
                    ent.scale(P.s, [0.0, 0.0, 0.0])
                    if ang > 1e-9 and np.linalg.norm(ax) > 1e-9:
                        ent.rotate(ang, list(ax), [0.0, 0.0, 0.0])
                    ent.translate(list(P.t))
            built.entities = can.entities
            built.shapes = can.shapes
        ob = observe(built)
    except Exception as ex:
        return dict(cid=cid, placement=pj, err="%s: %s" % (type(ex).__name__, str(ex)[:200]), gen=isinstance(ex, GenError))
    bad = oracle(built, ob, P, check_write=workdir)
    res = dict(cid=cid, placement=pj, err=None, blocks=ob.blocks, chopped=ob.chopped, nverts=len(ob.pos),
               expect_nv=built.expect_nv, ifaces=ifaces_resolved(built, ob), bad=bad, write=getattr(ob, "write", "?"))
    if bad and cid.startswith("Chain:"):
        res["min_cid"], res["min_bad"] = shrink_chain(cid, P, bad)
    return res


def shrink_chain(cid, P, bad):
    """the shortest sub-chain (same source, a subsequence of the steps) on which the oracle still fails"""
    import itertools
    steps = cid[6:].split(">")
    for n in range(0, len(steps) - 1):
        for sub in itertools.combinations(range(1, len(steps)), n):
            cand = [steps[0]] + [steps[i] for i in sub]
            if not S.chain_valid(cand):
                continue
            try:
                built = S.build(("Chain:" + ">".join(cand), "b_chain", dict(steps=cand)), P)
                b2 = oracle(built, observe(built), P)
            except Exception:
                continue
            if b2:
                return "Chain:" + ">".join(cand), b2
    return cid, bad


def job_cost(cid):
    """rough relative cost (assemble is quadratic in the number of blocks)"""
    p = cid.split(":")
    if p[0] == "NJoint":
        return (12 * int(p[1])) ** 2
    if p[0] == "Chain":
        return (12 * len(cid.split(">"))) ** 2
    if "Stack" in p[0]:
        return 40 ** 2
    if p[0] in ("TJoint", "LJoint"):
        return 36 ** 2
    return 12 ** 2


def run_jobs(jobs):
    """results in the order of the jobs; worker processes (fork) when there is enough to do"""
    n = int(os.environ.get("VERIF_JOBS", "0") or 0) or min(8, os.cpu_count() or 1)
    if n <= 1 or len(jobs) < 6:
        return [run_job(j) for j in jobs]
    order = sorted(range(len(jobs)), key=lambda i: -job_cost(jobs[i][0]))
    try:
        import multiprocessing as mp
        with mp.get_context("fork").Pool(n) as pool:
            out = pool.map(run_job, [jobs[i] for i in order], chunksize=1)
    except (OSError, ImportError, ValueError):
        return [run_job(j) for j in jobs]
    res = [None] * len(jobs)
    for i, r in zip(order, out):
        res[i] = r
    return res


def tab_sketches():
    """runtime quad maps, chop tables and grids (as operation index lists) of every sketch class"""
    out = []
    P = S.Placement()
    for name in S.SKETCHES:
        for sides in ((False, True) if "Spline" in name else (False,)):
            sk = S.make_sketch(P, name, sides)
            if hasattr(sk, "indexes"):
                quads = [[int(i) for i in q] for q in sk.indexes]
            else:
                raise GenError("sketch %s has no quad map" % name)
            faces = list(sk.faces)
            if len(faces) != len(quads):
                raise GenError("sketch %s: %d faces, %d quads" % (name, len(faces), len(quads)))
            # the quad map must describe the faces: points with equal index coincide, different indexes differ
            pts = {}
            for q, f in zip(quads, faces):
                for i, p in zip(q, f.point_array):
                    if i in pts and np.linalg.norm(pts[i] - p) > 1e-9:
                        raise GenError("sketch %s: index %d names two different points" % (name, i))
                    pts[i] = np.array(p)
            grid = [[[id(x) for x in faces].index(id(f)) for f in row] for row in sk.grid]
            chops = [[int(i) for i in c] for c in sk.chops]
            out.append((name, sides, quads, grid, chops, len(pts)))
    return out


def emit_tables(entries, sketches, axis_pairs):
    o = ["(* GENERATED by harness/props/C11.py from the working tree of /repo -- do not edit *)",
         "From Coq Require Import List NArith Bool.", "From CB Require Import Base.Hex Model.C11_Topo.",
         "Import ListNotations.", ""]
    o.append("Inductive sketch_name := " + " | ".join(S.SKETCHES) + ".")
    o.append("Definition sketch_points (s : sketch_name) : nat :=\n  match s with " + " | ".join(
        "%s => %d" % (n, S.SKETCH_POINTS[n]) for n in S.SKETCHES) + " end.")
    o.append("(* the library's AXIS_PAIRS (constants.py) *)")
    o.append("Definition tab_axis_pairs : list (list (nat * nat)) := [" + "; ".join(plist(a) for a in axis_pairs) + "].")
    o.append("(* sketch, with straight sides?, quad map, grid (face indexes per tier), chops, number of distinct points *)")
    o.append("Definition tab_sketches : list (sketch_name * bool * list (list nat) * list (list nat) * list (list nat) * nat) :=\n  [" + ";\n   ".join(
        "(%s, %s, [%s], [%s], [%s], %d)" % (n, "true" if sd else "false", "; ".join(nlist(q) for q in quads),
                                             "; ".join(nlist(g) for g in grid), "; ".join(nlist(c) for c in chops), npts)
        for (n, sd, quads, grid, chops, npts) in sketches) + "].")
    o.append("")
    names = []
    for k, e in enumerate(entries):
        nm = "t_%d" % k
        names.append(nm)
        o.append("(* %d: %s *)" % (k, e["cid"]))
        o.append("Definition %s : shape_tab := {|\n  st_id := %d;\n  st_kind := %s;\n  st_blocks :=\n     %s;\n  st_chopped := %s;\n  st_cert := %s;\n  st_nverts := %d;\n  st_ifaces := %s |}."
                 % (nm, k, kind_coq(e["cid"], e["expect_nv"]), blocks_coq(e["blocks"]), plist(e["chopped"]), plist(e["cert"]), e["nverts"],
                    ifaces_coq(e["ifaces"])))
    o.append("")
    o.append("Definition tab_shapes : list shape_tab := [" + "; ".join(names) + "].")
    return "\n".join(o) + "\n"


# ------------------------------------------------------------------------------------------------


def parse_id_list(so):
    m = re.search(r"=\s*\[(.*?)\]\s*:\s*list nat", so, flags=re.S)
    if not m:
        raise RuntimeError("cannot parse Coq output: %r" % so[:400])
    body = m.group(1).strip()
    if not body:
        return []
    return [int(x) for x in body.replace("\n", " ").split(";")]


SIGS = {
    "unchopped": "unchopped",
    "jacobian": "jacobian",
}


def replay_obj(cid, P, bad, extra=None):
    pj = P if isinstance(P, dict) else P.to_json()
    d = dict(kind="shape", cid=cid, placement=pj, why=[b[1] for b in bad][:4], codes=sorted({b[0] for b in bad}))
    if extra:
        d.update(extra)
    return d


def job_failure(r):
    """replay object of a job result on which the direct oracle (or the construction itself) failed"""
    if r["err"]:
        return replay_obj(r["cid"], r["placement"], [("exception", r["err"])])
    if r["bad"]:
        if "min_cid" in r:
            return replay_obj(r["min_cid"], r["placement"], r["min_bad"], extra=dict(found_in=r["cid"]))
        return replay_obj(r["cid"], r["placement"], r["bad"])
    return None


# families of catalogue entries that differ in a topology parameter only: the quick tier draws a few
# members per family for the random placements (the canonical tables always hold every member)
QUICK_FAMILY_DRAWS = {"ExtrudedRing": 3, "RevolvedRing": 3, "NJoint": 3, "ExtrudedStack:Grid": 4, "Chain": 10}


def family_of(cid):
    p = cid.split(":")
    if p[0] == "ExtrudedStack" and p[1] == "Grid":
        return "ExtrudedStack:Grid"
    return p[0]


class C11(Prop):
    pid = "C11"
    title = "Predefined shapes give right-handed, conformal, fully choppable blockings"
    prebuilt = ["Base/Hex.v", "Base/Vec3.v", "Model/C11_Topo.v", "Proofs/C11_Topo.v", "Model/C11_Geom.v", "Proofs/C11_Geom.v"]
    gen_dependent_files = ["Gen/C11/Tables.v", "Gen/C11/GeomConst.v"]
    property_files = ["Properties/C11.v"]
    trusted = [
        "tabulation: every class of the catalogue harness/props/C11_shapes.py (DESIGN Appendix E) built by the real "
        "constructors at the canonical placement for each topology parameter (ring segments 3..12, joint branches 2..8, "
        "stack grids/repeats, 25 chains of up to 4 shapes), observed through Mesh.assemble(): block vertex lists, "
        "(block, axis) pairs holding chops after the documented chop calls, sketch quad maps / grids / chop tables",
        "reachability certificates are produced by the harness and CHECKED by the proved checker check_cert (not trusted)",
        "'the blocking at any valid placement equals the tabulated one' is sampled (random placements compared in Coq), not proved",
        "choppable => Mesh.write() succeeds relies on C02_complete (property C02); write() itself is only observed under a watchdog",
        "Jacobian positivity is proved for the blocks extruded from the FourCoreDisk (Cylinder) and from the Annulus "
        "(ExtrudedRing, any number >= 3 of segments), tied by interval comparison of the sketch coordinates; for every other "
        "class (half/quarter/one-core/wrapped/oval/spline sketches, tapered/bent/sheared/spherical shapes, joints) it is only "
        "validated by the direct oracle at the sampled placements",
    ]
    partial = [
        "C11_jacobian_partial: positivity of the corner Jacobians proved for the extruded four-core disk and rings (all centres, "
        "radius vectors, normals, heights, segment counts >= 3); Frustum, Elbow, RevolvedRing, Hemisphere, Shell, joints, the "
        "other disk sketches and the spline sketches: validated by the direct oracle at sampled placements only",
        "C11_choppable: proves 'every family holds a chop'; that this makes Mesh.write() succeed is C02_complete",
    ]

    # ---- S1
    def generate(self, ctx):
        from classy_blocks.util import constants
        t0 = time.time()
        cat = S.catalogue(thorough=not ctx.quick)
        P0 = S.Placement().to_json()
        sketches = tab_sketches()
        axis_pairs = [[(int(a), int(b)) for (a, b) in ax] for ax in constants.AXIS_PAIRS]
        # canonical placement: tables + the full direct oracle including Mesh.write()
        entries = run_jobs([(e[0], P0, ctx.work) for e in cat])
        for e in entries:
            if e["err"]:
                raise GenError("catalogue entry %s cannot be built at the canonical placement: %s" % (e["cid"], e["err"]))
            e["cert"] = certificate(e["blocks"], e["chopped"])
        ctx.write_gen("Tables", emit_tables(entries, sketches, axis_pairs))
        import props.C11_geom as G
        ctx.write_gen("GeomConst", G.emit_const()[0])
        self._entries = entries
        self._index = {e["cid"]: k for k, e in enumerate(entries)}
        ctx.log("S1: %d catalogue entries tabulated at the canonical placement in %.1fs" % (len(entries), time.time() - t0))

    # ---- S3
    def correspond(self, ctx):
        from concurrent.futures import ThreadPoolExecutor
        res = CorrResult()
        res.rule = ("every catalogue class at random placements (rotation in general position, scale 0.1..10, offset, normals "
                    "of arbitrary length; quick tier: a few members of each family that differs in a topology parameter only) plus "
                    "random chains of <= 4 shapes: the assembled block vertex lists and chopped "
                    "(block, axis) pairs are compared in Coq with the tabulated canonical ones (chains: checked directly with the "
                    "Coq checkers); sketch plane coordinates compared with the closed-form model by `interval` (1e-9 relative); "
                    "non-trivial = more than one block; distinct by (class, placement)")
        if not hasattr(self, "_entries"):
            res.error = "tables were not generated"
            return res
        entries = self._entries
        rng = ctx.rng
        # geometric tie: its Coq files are compiled in the background while the shapes are built
        geo_cases, geo_shards = self.geometry_cases(ctx, res)
        bg = ThreadPoolExecutor(max_workers=1)
        geo_future = bg.submit(core.run_cases_parallel, ctx, geo_shards)
        # canonical placement: the full oracle, with write(), was evaluated with the tabulation
        for e in entries:
            res.evaluations += 1
            res.count("write=" + str(e["write"]))
            res.count("class=" + e["cid"].split(":")[0])
            if e["bad"]:
                res.oracle_failures.append(job_failure(e))
        # random placements
        jobs = []      # (cid, placement, None)
        table = []     # index into entries (None: random chain)
        fams = {}
        for k, e in enumerate(entries):
            fams.setdefault(family_of(e["cid"]), []).append(k)
        for rep in range(ctx.n(1, 8)):
            for fam, ks in fams.items():
                if ctx.quick and fam in QUICK_FAMILY_DRAWS and len(ks) > QUICK_FAMILY_DRAWS[fam]:
                    ks = sorted(rng.sample(ks, QUICK_FAMILY_DRAWS[fam]))
                for k in ks:
                    jobs.append((entries[k]["cid"], S.random_placement(rng).to_json(), None))
                    table.append(k)
        for _ in range(ctx.n(16, 600)):
            k = rng.randrange(len(entries))
            jobs.append((entries[k]["cid"], S.random_placement(rng).to_json(), None))
            table.append(k)
        # created at the canonical placement and moved afterwards (every family once per run, plus random ones)
        for fam, ks in fams.items():
            k = rng.choice(ks)
            jobs.append((entries[k]["cid"], dict(S.random_placement(rng).to_json(), moved=True), None))
            table.append(k)
        for _ in range(ctx.n(12, 300)):
            k = rng.randrange(len(entries))
            jobs.append((entries[k]["cid"], dict(S.random_placement(rng).to_json(), moved=True), None))
            table.append(k)
        for _ in range(ctx.n(14, 300)):
            steps = S.random_chain(rng)
            jobs.append(("Chain:" + ">".join(steps), S.random_placement(rng).to_json(), None))
            table.append(None)
        t0 = time.time()
        results = run_jobs(jobs)
        ctx.log("S3: %d shapes built at random placements in %.1fs" % (len(jobs), time.time() - t0))
        t0 = time.time()
        cases = []   # (k, result) compared with table k
        free = []    # results of random chains, checked directly
        for k, r in zip(table, results):
            res.evaluations += 1
            res.count("class=" + (r["cid"].split(":")[0] if k is not None else "Chain(random)"))
            if k is None:
                res.count("chain-length=%d" % len(r["cid"].split(">")))
            f = job_failure(r)
            if f:
                res.oracle_failures.append(f)
            if r["err"]:
                continue
            if k is None or len(r["blocks"]) > 1:
                res.distinct.add("%s@%r" % (r["cid"], [round(x, 6) for x in r["placement"]["t"]]))
            if k is None:
                r["cert"] = certificate(r["blocks"], r["chopped"])
                free.append(r)
            else:
                cases.append((k, r))
        res.samples = [dict(cid=r["cid"], placement=r["placement"], blocks=r["blocks"][:2], chopped=r["chopped"][:6]) for (_k, r) in cases[:3]]
        res.traces = len(cases) + len(free)
        # Coq side
        shards = []
        per = 60
        head = ["From Coq Require Import List NArith Bool Arith.", "From CB Require Import Base.Hex Model.C11_Topo Gen.C11.Tables.",
                "Import ListNotations."]
        for s0 in range(0, len(cases), per):
            chunk = cases[s0:s0 + per]
            body = list(head)
            body.append("Definition cases : list (nat * nat * list block * list node) := [")
            body.append(";\n".join("(%d, %d, %s, %s)" % (s0 + j, k, blocks_coq(r["blocks"]), plist(r["chopped"])) for j, (k, r) in enumerate(chunk)))
            body.append("].")
            body.append("Definition agree (c : nat * nat * list block * list node) : bool :=\n"
                        "  let '(_, k, bl, ch) := c in\n"
                        "  match nth_error tab_shapes k with\n"
                        "  | Some t => blocks_eqb (st_blocks t) bl && nodes_eqb (st_chopped t) ch\n  | None => false end.")
            body.append("Eval vm_compute in (map (fun c => fst (fst (fst c))) (filter (fun c => negb (agree c)) cases)).")
            shards.append(("cases_%d" % (s0 // per), "\n".join(body) + "\n"))
        perf = 8
        for s0 in range(0, len(free), perf):
            chunk = free[s0:s0 + perf]
            body = list(head)
            for j, r in enumerate(chunk):
                body.append("(* %s *)" % r["cid"])
                body.append("Definition f_%d : shape_tab := {| st_id := %d; st_kind := KGiven %d; st_blocks := %s; st_chopped := %s; "
                            "st_cert := %s; st_nverts := %d; st_ifaces := %s |}."
                            % (j, s0 + j, r["expect_nv"], blocks_coq(r["blocks"]), plist(r["chopped"]), plist(r["cert"]), r["nverts"],
                               ifaces_coq(r["ifaces"])))
            body.append("Definition frees : list shape_tab := [" + "; ".join("f_%d" % j for j in range(len(chunk))) + "].")
            body.append("Eval vm_compute in (map st_id (filter (fun t => negb (tab_conformal t && tab_oriented t && tab_choppable t && tab_ifaces t)) frees)).")
            shards.append(("free_%d" % (s0 // perf), "\n".join(body) + "\n"))
        outs = core.run_cases_parallel(ctx, shards)
        t1 = time.time()
        outs += geo_future.result()
        bg.shutdown()
        ctx.log("S3: %d + %d case files checked by coqc in %.1fs (+%.1fs waiting for the geometric ones)"
                % (len(shards), len(geo_shards), t1 - t0, time.time() - t1))
        for (name, rc, so, se) in outs:
            if rc != 0:
                res.error = "case file %s failed to compile: %s" % (name, se[-800:])
                return res
            if name.startswith("cases_"):
                for i in parse_id_list(so):
                    k, r = cases[i]
                    res.mismatches.append(dict(case=i, cid=r["cid"], placement=r["placement"], what="blocking at this placement differs from the canonical table",
                                               blocks=r["blocks"][:4], chopped=r["chopped"]))
            elif name.startswith("free_"):
                for i in parse_id_list(so):
                    r = free[i]
                    res.mismatches.append(dict(case=i, cid=r["cid"], placement=r["placement"], what="random chain fails a Coq checker (conformal/oriented/choppable/interface)"))
            else:
                oks = set(int(x) for x in re.findall(r"^OK (\d+)", so, flags=re.M))
                mis = set(int(x) for x in re.findall(r"^MISMATCH (\d+)", so, flags=re.M))
                ids = [g["id"] for g in geo_cases if g["shard"] == name]
                for gid in ids:
                    g = geo_cases[gid]
                    if gid in mis or gid not in oks:
                        res.mismatches.append(dict(case=gid, cid=g["cid"], placement=g["placement"], what="sketch coordinates differ from the closed-form model" if gid in mis else "goal printed no verdict",
                                                   point=g.get("point"), impl=g.get("impl"), args=g.get("args")))
        return res

    # geometric correspondence (N)
    def geometry_cases(self, ctx, res):
        import props.C11_geom as G
        return G.cases(ctx, res)

    # ---- S4
    def search(self, ctx, broken, corr):
        fails = []
        seen = set()

        def add(rp):
            sig = self.signature(rp)
            if sig not in seen:
                seen.add(sig)
                fails.append(rp)

        # the catalogue at the canonical and at a random placement, with the direct oracle
        P0 = S.Placement().to_json()
        jobs = []
        for e in S.catalogue(thorough=False):
            jobs.append((e[0], P0, None))
            jobs.append((e[0], S.random_placement(ctx.rng).to_json(), None))
        for r in run_jobs(jobs):
            f = job_failure(r)
            if f:
                add(f)
        for m in corr.mismatches[:10]:
            if "cid" not in m or "placement" not in m:
                continue
            bad = []
            if m["cid"].startswith("sketch:"):
                import props.C11_geom as G
                bad = G.direct_oracle(m)
            else:
                r = run_job((m["cid"], m["placement"], None))
                f = job_failure(r)
                if f:
                    add(f)
                    continue
                # a placement-dependent blocking is itself a failure of "for any valid placement"
                if "differs from the canonical" in m.get("what", ""):
                    bad = [("placement-dependent", m["what"])]
            if bad:
                add(replay_obj(m["cid"], m["placement"], bad, extra=dict(point=m.get("point"), args=m.get("args"))))
        return fails

    def signature(self, rp):
        """one signature per (class or sketch or minimal chain, failure codes)"""
        cid = rp.get("cid", "")
        p = cid.split(":")
        if cid.startswith("Chain:"):
            steps = cid[6:].split(">")
            base = steps[0] if len(steps) == 1 else cid   # a source that fails on its own is that class's failure
        elif p[0] in ("ExtrudedShape", "RevolvedShape", "LoftedShape") or "Stack" in p[0] or p[0] == "sketch":
            base = "sketch=" + p[1]
        else:
            base = p[0]
        return "C11:%s:%s" % (base, "+".join(rp.get("codes", [])))

    def replay(self, ctx, obj):
        if obj.get("cid", "").startswith("sketch:"):
            import props.C11_geom as G
            print("class:", obj["cid"], "arguments:", obj.get("args"))
            print("oracle:", G.sketch_oracle(obj["cid"], obj["args"]) or "ok")
            return 0
        P = S.Placement.from_json(obj["placement"])
        built = S.build(S.entry_for(obj["cid"]), P)
        ob = observe(built)
        bad = oracle(built, ob, P, check_write=ctx.work)
        print("class:", obj["cid"])
        print("implementation: %d blocks, %d vertices, chopped (block, axis): %r" % (len(ob.blocks), len(ob.pos), ob.chopped))
        print("Mesh.write():", getattr(ob, "write", "?"))
        print("oracle:", bad or "ok")
        return 0


PROP = C11()
