"""C13, stream (L): the optimizer as scripts use it - clamps built from the LIVE position arrays of mesh vertices
(`LineClamp(v.position, v.position, v.position + d)` is the idiom of the library's own examples), real scipy
minimisers, and optimize() called once, twice or three times on the same optimizer object.  Direct oracle only, stated
on positions after every call: vertices without a clamp are where they were; each clamped vertex is on the line /
circle that was described when its clamp was made (described by the numbers the vertex had THEN) and inside the
bounds counted from there; the summed quality, measured by a fresh grid, is not worse than before the call."""
import contextlib
import io
import json
import math
import warnings


def _np():
    import numpy as np
    return np


METHODS = ["SLSQP", "L-BFGS-B", "Nelder-Mead", "Powell"]


def gen_live_case(rng):
    n = rng.choice([2, 2, 3])
    d = rng.choice([[1.0, 0.0, 0.0], [0.0, 1.0, 0.0], [1.0, 1.0, 0.0], [1.0, 0.5, 0.25]])
    kind = rng.choice(["line", "line", "line", "radial"])
    lo = -rng.choice([0.1, 0.2, 0.3])
    hi = rng.choice([0.1, 0.2, 0.3])
    # the clamped vertices start AWAY from where the quality is best, so that the first call really moves them
    case = dict(n=n, kind=kind, dir=d, bounds=None if rng.random() < 0.25 else [lo, hi],
                offset=[rng.choice([-0.25, 0.2, 0.3]), rng.choice([-0.2, 0.0, 0.15]), rng.choice([0.0, 0.1])],
                which=rng.randrange(2), both=rng.random() < 0.4, calls=rng.choice([1, 2, 2, 3]),
                iterations=rng.choice([1, 2, 3]), method=rng.choice(METHODS),
                origin=rng.choice([[0.0, 0.0, 0.0], [3.0, -2.0, 1.0]]))
    if kind == "radial":
        case["bounds"] = None if rng.random() < 0.3 else [-0.3, 0.3]
    # the other vertices of the shared face follow the clamped one by translation links (none, one or two followers)
    case["followers"] = 0 if case["both"] else rng.choice([0, 0, 1, 2, 2])
    return case


def build(case):
    import classy_blocks as cb
    np = _np()
    o = np.array(case["origin"], dtype=float)
    mesh = cb.Mesh()
    for i in range(case["n"]):
        box = cb.Box(list(o + [float(i), 0.0, 0.0]), list(o + [float(i) + 1.0, 1.0, 1.0]))
        for a in range(3):
            box.chop(a, count=2)
        mesh.add(box)
    with warnings.catch_warnings():
        warnings.simplefilter("ignore")
        mesh.assemble()
    # the vertices on the shared face x = 1 (four of them); one or two get moved and clamped
    shared = [v for v in mesh.vertices if abs(float(v.position[0] - o[0]) - 1.0) < 1e-9]
    shared.sort(key=lambda v: (round(float(v.position[1]), 6), round(float(v.position[2]), 6)))
    chosen = [shared[case["which"]]] + ([shared[3 - case["which"]]] if case["both"] else [])
    for k, v in enumerate(chosen):
        off = np.array(case["offset"], dtype=float) * (1 if k == 0 else -0.5)
        v.move_to(v.position + off)
    case_followers = int(case.get("followers", 0))
    build.followers = [v for v in shared if v not in chosen][:case_followers]
    return mesh, chosen


def fresh_quality(mesh):
    from classy_blocks.optimize.grid import HexGrid
    return float(HexGrid.from_mesh(mesh).quality)


def run_live_case(case):
    import classy_blocks as cb
    from classy_blocks.util import functions as f
    np = _np()
    mesh, chosen = build(case)
    with contextlib.redirect_stdout(io.StringIO()), warnings.catch_warnings():
        warnings.simplefilter("ignore")
        opt = cb.MeshOptimizer(mesh, report=False)
        described = []
        for v in chosen:
            p0 = [float(x) for x in v.position]
            if case["kind"] == "line":
                d = np.array(case["dir"], dtype=float)
                b = None if case["bounds"] is None else tuple(case["bounds"])
                # the examples' idiom: every argument is (derived from) the vertex' own array
                opt.add_clamp(cb.LineClamp(v.position, v.position, v.position + d, b))
                described.append(dict(index=v.index, p0=p0, kind="line", dir=[float(x) for x in f.unit_vector(d)],
                                      bounds=[0.0, float(np.linalg.norm(d))] if b is None else list(b)))
            else:
                center = np.array(case["origin"], dtype=float) + np.array([1.0, 0.5, 0.5]) + np.array([0.0, 0.0, 2.0])
                normal = [0.0, 1.0, 0.0]
                opt.add_clamp(cb.RadialClamp(v.position, center, normal, case["bounds"]))
                described.append(dict(index=v.index, p0=p0, kind="radial", center=[float(x) for x in center], normal=normal,
                                      bounds=case["bounds"]))
        links = []
        for fv in build.followers:
            opt.add_link(cb.TranslationLink(chosen[0].position, fv.position))
            links.append(dict(leader=chosen[0].index, follower=fv.index,
                              offset=[float(a - b) for a, b in zip(fv.position, chosen[0].position)]))
        start = [[float(x) for x in v.position] for v in mesh.vertices]
        steps = []
        for _ in range(case["calls"]):
            q0 = fresh_quality(mesh)
            exc = None
            try:
                opt.optimize(max_iterations=case["iterations"], tolerance=1e-3, method=case["method"])
            except Exception as e:  # noqa: BLE001
                exc = "%s: %s" % (type(e).__name__, str(e)[:200])
            steps.append(dict(q0=q0, q1=fresh_quality(mesh), exception=exc,
                              positions=[[float(x) for x in v.position] for v in mesh.vertices]))
            if exc:
                break
    return dict(start=start, described=described, steps=steps, links=links)


def oracle_live(case, ob):
    np = _np()
    clamped = {d["index"]: d for d in ob["described"]}
    for k, st in enumerate(ob["steps"]):
        call = "call %d of optimize()" % (k + 1)
        if st["exception"]:
            return ("%s raised %s" % (call, st["exception"]), "C13:live:exception")
        for l in ob.get("links", []):
            got = np.array(st["positions"][l["follower"]]) - np.array(st["positions"][l["leader"]])
            if float(np.max(np.abs(got - np.array(l["offset"])))) > 1e-9:
                return ("%s: vertex %d follows vertex %d by a translation link; follower - leader = %r, it was %r when the link was made" % (
                    call, l["follower"], l["leader"], got.tolist(), l["offset"]), "C13:live:link-relation-lost")
        followers = {l["follower"] for l in ob.get("links", [])}
        for i, p in enumerate(st["positions"]):
            p = np.array(p)
            if i in followers:
                continue
            if i not in clamped:
                if float(np.max(np.abs(p - np.array(ob["start"][i])))) > 1e-12:
                    return ("%s: vertex %d has no clamp and moved from %r to %r" % (call, i, ob["start"][i], p.tolist()),
                            "C13:live:unclamped-moved")
                continue
            d = clamped[i]
            p0 = np.array(d["p0"])
            if d["kind"] == "line":
                u = np.array(d["dir"])
                t = float(np.dot(p - p0, u))
                off = float(np.linalg.norm((p - p0) - t * u))
                if off > 1e-7:
                    return ("%s: vertex %d is %.3g away from the line through %r along %r it was clamped to" % (
                        call, i, off, d["p0"], d["dir"]), "C13:live:line:off-constraint")
                lo, hi = d["bounds"]
                if t < lo - 1e-7 or t > hi + 1e-7:
                    return ("%s: vertex %d sits at t = %.6g on its line, counted from where it was clamped (%r); the bounds are "
                            "[%g, %g]" % (call, i, t, d["p0"], lo, hi), "C13:live:line:outside-bounds")
            else:
                c, nrm = np.array(d["center"]), np.array(d["normal"])

                def split(q):
                    v = q - c
                    ax = float(np.dot(v, nrm))
                    return ax, v - ax * nrm
                a0, r0 = split(p0)
                a1, r1 = split(p)
                if abs(a1 - a0) > 1e-7 or abs(float(np.linalg.norm(r1)) - float(np.linalg.norm(r0))) > 1e-7:
                    return ("%s: vertex %d left the circle about %r / %r it was clamped to (radius %.6g -> %.6g, axial %.6g -> %.6g)" % (
                        call, i, d["center"], d["normal"], float(np.linalg.norm(r0)), float(np.linalg.norm(r1)), a0, a1),
                        "C13:live:radial:off-constraint")
                if d["bounds"] is not None:
                    ang = math.atan2(float(np.dot(np.cross(r0, r1), nrm)), float(np.dot(r0, r1)))
                    s = ang * float(np.linalg.norm(r0))
                    if s < d["bounds"][0] - 1e-6 or s > d["bounds"][1] + 1e-6:
                        return ("%s: vertex %d travelled %.6g along its circle, counted from where it was clamped; the bounds are %r" % (
                            call, i, s, d["bounds"]), "C13:live:radial:outside-bounds")
        if st["q1"] > st["q0"] * (1 + 1e-7) + 1e-12:
            return ("%s: summed quality (fresh grid) went from %.9g to %.9g" % (call, st["q0"], st["q1"]), "C13:live:quality-worse")
    return None


def check_live(case):
    try:
        ob = run_live_case(case)
    except Exception as e:  # noqa: BLE001
        return dict(kind="live", case=case, why="setting up the case raised %s: %s" % (type(e).__name__, e), sig="C13:live:setup-raises")
    bad = oracle_live(case, ob)
    if bad:
        return dict(kind="live", case=case, why=bad[0], sig=bad[1])
    return None


def case_key(case):
    return json.dumps(case, sort_keys=True)
