"""C19 - Grid, slice and core/shell addressing of shapes and stacks is geometric.

Tie (U): Model/C19_Stack.v is a list-level transcription of Grid.__init__, LoftedShape.__init__,
TransformedStack.__init__, Stack.grid/get_slice, RoundSolidShape.core/shell and of the block-per-operation
part of Mesh.assemble/delete.  The correspondence is EXHAUSTIVE over the stated bound (1..5 x 1..5 x 1..4,
extruded / revolved / transformed stacks, every axis, every index from -(n+1) to n): every operation the
implementation returns for an address is identified geometrically (position of its centre against the
lattice of cell centres computed by the harness with its own affine algebra) and compared, inside Coq, with
the model evaluated on the same input.
Tie (F): grid / core / shell of every round sketch and round shape class are tabulated (with the quad
topology and the geometric outer-ring flags of the points) into coq/Gen/C19/Tables.v on every run;
Properties/C19.v proves the partition property about those tables.
"""
import json
import hashlib
import math
import os
import re
import warnings

import core
from core import GenError, CorrResult, Prop

TOL_GEO = 1e-9   # closed-form float arithmetic (DESIGN 2.4), relative to a unit-size cell
BAD = (99, 99, 99)
DX, DY = 1.0, 0.6
X0, Y0 = 0.25, -0.5
RING_SEGMENTS = tuple(range(3, 13))  # n_segments of Annulus / ExtrudedRing / RevolvedRing (Appendix E: 3..12)


def _np():
    import numpy as np
    return np


def _cb():
    import classy_blocks as cb  # noqa
    return cb


# ------------------------------------------------------------------------------------------------
# the harness' own affine algebra (independent of classy_blocks)


def rodrigues(axis, angle):
    np = _np()
    a = np.asarray(axis, dtype=float)
    a = a / np.linalg.norm(a)
    K = np.array([[0, -a[2], a[1]], [a[2], 0, -a[0]], [-a[1], a[0], 0]])
    return np.eye(3) + math.sin(angle) * K + (1 - math.cos(angle)) * (K @ K)


class Aff:
    """x -> M x + t"""

    def __init__(self, M=None, t=None):
        np = _np()
        self.M = np.eye(3) if M is None else np.asarray(M, dtype=float)
        self.t = np.zeros(3) if t is None else np.asarray(t, dtype=float)

    def __call__(self, p):
        return self.M @ _np().asarray(p, dtype=float) + self.t

    def vec(self, v):
        return self.M @ _np().asarray(v, dtype=float)

    def then(self, other):
        """first self, then other"""
        return Aff(other.M @ self.M, other.M @ self.t + other.t)

    def inv(self):
        Mi = _np().linalg.inv(self.M)
        return Aff(Mi, -(Mi @ self.t))

    @staticmethod
    def translation(v):
        return Aff(None, v)

    @staticmethod
    def rotation(axis, angle, origin):
        np = _np()
        R = rodrigues(axis, angle)
        o = np.asarray(origin, dtype=float)
        return Aff(R, o - R @ o)

    @staticmethod
    def scaling(s, origin):
        np = _np()
        o = np.asarray(origin, dtype=float)
        return Aff(np.eye(3) * s, o - s * o)


def placement_aff(pl):
    """rigid placement (+ optional uniform scale): scale about 0, rotate about 0, shift"""
    A = Aff.scaling(pl.get("scale", 1.0), [0, 0, 0])
    A = A.then(Aff.rotation(pl["axis"], pl["angle"], [0, 0, 0]))
    return A.then(Aff.translation(pl["shift"]))


IDENT = dict(axis=[0, 0, 1], angle=0.0, shift=[0, 0, 0], scale=1.0)


def rand_placement(rng, scale=False):
    ax = [rng.uniform(-1, 1) for _ in range(3)]
    if sum(x * x for x in ax) < 0.05:
        ax = [0.3, -0.5, 0.8]
    return dict(axis=ax, angle=rng.uniform(-3.0, 3.0), shift=[rng.uniform(-5, 5) for _ in range(3)],
                scale=(10 ** rng.uniform(-1, 1)) if scale else 1.0)


# ------------------------------------------------------------------------------------------------
# stacks on cartesian grids


def stack_spec(kind, nx, ny, nz, pl, variant=0):
    return dict(what="stack", kind=kind, nx=nx, ny=ny, nz=nz, placement=pl, variant=variant)


def tier_transform(spec, P):
    """The affine map that takes tier k to tier k+1 (harness side) and the arguments handed to the library."""
    kind, nz = spec["kind"], spec["nz"]
    if kind == "extruded":
        if spec["variant"] % 2 == 0:
            amount = 0.45 * nz  # float: along the sketch normal (+z of the grid before placement)
            vec = P.vec([0, 0, 1]) * amount / nz
            return Aff.translation(vec), dict(amount=amount)
        v = P.vec([0.2, -0.1, 0.45]) * nz
        return Aff.translation(v / nz), dict(amount=[float(x) for x in v])
    if kind == "revolved":
        angle = 0.3 * nz
        axis = P.vec([0, 1, 0])
        origin = P([-2.0, 0, 0])
        return Aff.rotation(axis, angle / nz, origin), dict(angle=angle, axis=[float(x) for x in axis],
                                                           origin=[float(x) for x in origin])
    if kind == "transformed":
        v = P.vec([0.1, 0.05, 0.5])
        axis = P.vec([0, 0, 1])
        origin = P([1.0, 1.0, 0])
        ang = 0.2
        T = Aff.translation(v).then(Aff.rotation(axis, ang, origin))
        Tm = Aff.translation(v / 2).then(Aff.rotation(axis, ang / 2, origin))
        return T, dict(v=[float(x) for x in v], axis=[float(x) for x in axis], origin=[float(x) for x in origin],
                       angle=ang, mid=(spec["variant"] % 2 == 1))
    raise GenError("unknown stack kind %r" % kind)


def build_stack(spec):
    cb = _cb()
    np = _np()
    nx, ny, nz = spec["nx"], spec["ny"], spec["nz"]
    pl = spec["placement"]
    P = placement_aff(pl)
    base = cb.Grid([X0, Y0, 0], [X0 + nx * DX, Y0 + ny * DY, 0], nx, ny)
    if pl.get("scale", 1.0) != 1.0:
        base.scale(pl["scale"], [0, 0, 0])
    if pl["angle"] != 0.0:
        base.rotate(pl["angle"], pl["axis"], [0, 0, 0])
    if any(pl["shift"]):
        base.translate(pl["shift"])
    T, args = tier_transform(spec, P)
    kind = spec["kind"]
    if kind == "extruded":
        stack = cb.ExtrudedStack(base, args["amount"], nz)
    elif kind == "revolved":
        stack = cb.RevolvedStack(base, args["angle"], args["axis"], args["origin"], nz)
    else:
        end = [cb.Translation(args["v"]), cb.Rotation(args["axis"], args["angle"], args["origin"])]
        mid = None
        if args["mid"]:
            mid = [cb.Translation([x / 2 for x in args["v"]]), cb.Rotation(args["axis"], args["angle"] / 2, args["origin"])]
        stack = cb.TransformedStack(base, end, nz, mid)
    # expected centres of the lattice cells
    centres = {}
    Tk = Aff()
    powers = [Tk]
    for _ in range(nz):
        Tk = Tk.then(T)
        powers.append(Tk)
    for i in range(nx):
        for j in range(ny):
            c = P([X0 + (i + 0.5) * DX, Y0 + (j + 0.5) * DY, 0.0])
            for k in range(nz):
                centres[(i, j, k)] = (powers[k](c) + powers[k + 1](c)) / 2
    size = pl.get("scale", 1.0)
    return stack, centres, size


class Lattice:
    def __init__(self, centres, size):
        np = _np()
        self.keys = list(centres.keys())
        self.arr = np.array([centres[k] for k in self.keys])
        self.tol = TOL_GEO * max(size, 1.0) * 10

    def cell(self, p):
        np = _np()
        d = np.linalg.norm(self.arr - np.asarray(p, dtype=float).reshape((1, 3)), axis=1)
        j = int(np.argmin(d))
        if d[j] > self.tol:
            return BAD
        return self.keys[j]


def observe_stack(spec):
    """Everything the addressing functions return on one stack, as ids and lattice cells."""
    stack, centres, size = build_stack(spec)
    lat = Lattice(centres, size)
    ops = list(stack.operations)
    idmap = {id(o): n for n, o in enumerate(ops)}
    if len(idmap) != len(ops):
        raise GenError("stack.operations lists an operation twice")
    cells = [lat.cell(o.center) for o in ops]
    grid = stack.grid
    try:
        grid_ids = [[[idmap.get(id(o), 9999) for o in row] for row in shape] for shape in grid]
        grid_cells = [[[lat.cell(o.center) for o in row] for row in shape] for shape in grid]
    except TypeError:
        raise GenError("stack.grid is not a three-level nested list")
    slices = []
    dims = [spec["nx"], spec["ny"], spec["nz"]]
    for axis in (0, 1, 2):
        n = dims[axis]
        for idx in range(-n - 1, n + 1):
            slices.append(one_slice(stack, idmap, lat, axis, idx))
    return dict(ops=len(ops), cells=cells, grid_ids=grid_ids, grid_cells=grid_cells, slices=slices)


def one_slice(stack, idmap, lat, axis, idx):
    try:
        r = stack.get_slice(axis, idx)
    except IndexError:
        return dict(axis=axis, idx=idx, ids=None, cells=None, err=None)
    except Exception as e:  # any other exception is not the documented behaviour
        return dict(axis=axis, idx=idx, ids=None, cells=None, err=type(e).__name__)
    ids = [idmap.get(id(o), 9999) for o in r]
    cells = [lat.cell(o.center) if lat is not None else None for o in r]
    return dict(axis=axis, idx=idx, ids=ids, cells=cells, err=None)


def oracle_stack(spec, ob):
    """Direct oracle: positions only.  Returns a list of reasons (empty = property holds on this stack)."""
    nx, ny, nz = spec["nx"], spec["ny"], spec["nz"]
    why = []
    g = ob["grid_cells"]
    if len(g) != nz or any(len(s) != ny for s in g) or any(len(r) != nx for s in g for r in s):
        why.append("grid has dimensions %r, expected %d tiers x %d rows x %d columns" % (
            [len(g), sorted({len(s) for s in g}), sorted({len(r) for s in g for r in s})], nz, ny, nx))
    else:
        for k in range(nz):
            for j in range(ny):
                for i in range(nx):
                    if tuple(g[k][j][i]) != (i, j, k):
                        why.append("grid[%d][%d][%d] is the operation at cell %r (column,row,tier), not %r" % (
                            k, j, i, tuple(g[k][j][i]), (i, j, k)))
                        break
                if why:
                    break
            if why:
                break
    allc = sorted(tuple(c) for c in ob["cells"])
    if allc != sorted((i, j, k) for i in range(nx) for j in range(ny) for k in range(nz)):
        why.append("stack.operations are not exactly the lattice cells, each once")
    dims = [nx, ny, nz]
    for s in ob["slices"]:
        n = dims[s["axis"]]
        valid = -n <= s["idx"] < n
        if s["err"]:
            why.append("get_slice(%d, %d) raised %s" % (s["axis"], s["idx"], s["err"]))
            continue
        if not valid:
            if s["cells"] is not None:
                why.append("get_slice(%d, %d) returned %d operations for an index outside the stack" % (
                    s["axis"], s["idx"], len(s["cells"])))
            continue
        if s["cells"] is None:
            why.append("get_slice(%d, %d) raised IndexError for a valid index" % (s["axis"], s["idx"]))
            continue
        c = s["idx"] % n
        exp = sorted((i, j, k) for i in range(nx) for j in range(ny) for k in range(nz) if (i, j, k)[s["axis"]] == c)
        got = sorted(tuple(x) for x in s["cells"])
        if got != exp:
            why.append("get_slice(%d, %d) returned the operations at %r, expected exactly those with coordinate %d "
                       "along axis %d: %r" % (s["axis"], s["idx"], got[:12], c, s["axis"], exp[:12]))
    return why


# ragged stacks (disk sketches): slices compared with the model on the implementation's own grid


def build_ragged(spec):
    cb = _cb()
    from classy_blocks.construct.flat.sketches import disk as D
    cls = getattr(D, spec["sketch"])
    if spec["sketch"] == "WrappedDisk":
        base = cls([0, 0, 0], [2, 2, 0], 1, [0, 0, 1])
    elif spec["sketch"] == "Oval":
        base = cls([0, 0, 0], [2, 0, 0], [0, 0, 1], 1)
    else:
        base = cls([0, 0, 0], [1, 0, 0], [0, 0, 1])
    if spec["kind"] == "extruded":
        return cb.ExtrudedStack(base, 1.0, spec["nz"])
    return cb.RevolvedStack(base, 0.8, [0, 1, 0], [-4, 0, 0], spec["nz"])


def observe_ragged(spec):
    stack = build_ragged(spec)
    ops = list(stack.operations)
    idmap = {id(o): n for n, o in enumerate(ops)}
    grid_ids = [[[idmap.get(id(o), 9999) for o in row] for row in shape] for shape in stack.grid]
    slices = []
    width = max(len(r) for s in grid_ids for r in s)
    for axis in (0, 1, 2):
        for idx in range(-width - 1, width + 1):
            slices.append(one_slice(stack, idmap, None, axis, idx))
    return dict(ops=len(ops), grid_ids=grid_ids, slices=slices)


# ------------------------------------------------------------------------------------------------
# delete / chop on an addressed operation


def observe_delete(spec):
    """spec: a stack spec plus 'delete' = [i,j,k] and 'chop' = [i,j,k,axis].  Returns the blocks after
    assemble as (op id, cell, chopped axes)."""
    cb = _cb()
    np = _np()
    stack, centres, size = build_stack(spec)
    lat = Lattice(centres, size)
    ops = list(stack.operations)
    idmap = {id(o): n for n, o in enumerate(ops)}
    di, dj, dk = spec["delete"]
    ci, cj, ck, cax = spec["chop"]
    dele = stack.grid[dk][dj][di]
    chop = stack.grid[ck][cj][ci]
    chop.chop(cax, count=3)
    mesh = cb.Mesh()
    mesh.add(stack)
    mesh.delete(dele)
    with warnings.catch_warnings():
        warnings.simplefilter("ignore")
        mesh.assemble(skip_edges=(spec["kind"] != "revolved" or len(ops) > 30))
    opc = np.array([o.center for o in ops])
    blocks = []
    for b in mesh.block_list.blocks:
        c = np.average([v.position for v in b.vertices], axis=0)
        d = np.linalg.norm(opc - c.reshape((1, 3)), axis=1)
        j = int(np.argmin(d))
        oid = j if d[j] <= lat.tol else 9999
        try:
            axes = []
            for a in range(3):
                axes += [a] * len(b.axes[a].wires.chops)
        except AttributeError:
            raise GenError("cannot read the chops of a block (Block.axes[i].wires.chops)")
        blocks.append((oid, lat.cell(c), axes))
    return dict(n=len(ops), deleted=idmap.get(id(dele), 9999), chopped=idmap.get(id(chop), 9999),
                op_cells=[lat.cell(o.center) for o in ops], blocks=blocks)


def oracle_delete(spec, ob):
    nx, ny, nz = spec["nx"], spec["ny"], spec["nz"]
    why = []
    exp = sorted((i, j, k) for i in range(nx) for j in range(ny) for k in range(nz) if [i, j, k] != list(spec["delete"]))
    got = sorted(tuple(c) for (_o, c, _a) in ob["blocks"])
    if got != exp:
        missing = sorted(set(exp) - set(got))
        extra = sorted(set(got) - set(exp))
        why.append("after delete(grid[%d][%d][%d]) the blocks are not all cells but (%d,%d,%d): missing %r, unexpected %r" % (
            spec["delete"][2], spec["delete"][1], spec["delete"][0], *spec["delete"], missing[:6], extra[:6]))
    ci, cj, ck, cax = spec["chop"]
    for (_o, c, axes) in ob["blocks"]:
        want = [cax] if list(c) == [ci, cj, ck] else []
        if axes != want:
            why.append("after grid[%d][%d][%d].chop(%d) the block at cell %r carries chops on axes %r, expected %r" % (
                ck, cj, ci, cax, tuple(c), axes, want))
            break
    return why


def parse_written(text, lat):
    """The hex entries of a written blockMeshDict, each located on the lattice by the centre of the 8
    vertices it names (the harness' own reader; independent of the library's writer)."""
    np = _np()
    mv = re.search(r"\nvertices\s*\((.*?)\n\);", text, flags=re.S)
    mb = re.search(r"\nblocks\s*\((.*?)\n\);", text, flags=re.S)
    if not mv or not mb:
        raise GenError("cannot find the vertices/blocks lists in the written blockMeshDict")
    verts = [[float(x) for x in m.groups()]
             for m in re.finditer(r"\(\s*([-+0-9.eE]+)\s+([-+0-9.eE]+)\s+([-+0-9.eE]+)\s*\)", mv.group(1))]
    out = []
    for m in re.finditer(r"hex\s*\(([^)]*)\)", mb.group(1)):
        ids = [int(x) for x in m.group(1).split()]
        if len(ids) != 8 or max(ids) >= len(verts):
            raise GenError("hex entry %r does not name 8 listed vertices" % m.group(0))
        out.append(lat.cell(np.average([verts[i] for i in ids], axis=0)))
    return out


def observe_written(spec):
    """Every operation chopped alike (count 2 on each axis), the addressed operation spec['delete'] deleted,
    the mesh WRITTEN to a file; returns the lattice cells of the hex entries of the file, in file order, and
    the operation ids they belong to."""
    import tempfile
    cb = _cb()
    stack, centres, size = build_stack(spec)
    lat = Lattice(centres, size)
    cell_id = {tuple(lat.cell(o.center)): n for n, o in enumerate(stack.operations)}
    lat.tol = 1e-6 * max(size, 1.0)  # the file carries 8 decimals
    for o in stack.operations:
        for a in range(3):
            o.chop(a, count=2)
    di, dj, dk = spec["delete"]
    dele = stack.grid[dk][dj][di]
    deleted = [n for n, o in enumerate(stack.operations) if o is dele]
    mesh = cb.Mesh()
    mesh.add(stack)
    # for every second spec (decided by the spec, so that replays agree) the operation is deleted from a mesh that is already
    # assembled, and the mesh is back-ported before it is written: the file still lacks exactly the addressed block
    life = int(hashlib.sha1(json.dumps(spec, sort_keys=True, default=str).encode()).hexdigest()[:4], 16) % 3
    late = life == 0
    if late:
        with warnings.catch_warnings():
            warnings.simplefilter("ignore")
            mesh.assemble()
    mesh.delete(dele)
    if late:
        with warnings.catch_warnings():
            warnings.simplefilter("ignore")
            mesh.backport()
    elif life == 1:
        # deleted first, then assembled TWICE (assemble; backport): the block stays away in every later assembly, too
        with warnings.catch_warnings():
            warnings.simplefilter("ignore")
            mesh.assemble()
            mesh.backport()
    fd, path = tempfile.mkstemp(prefix="c19_", suffix=".blockMeshDict")
    os.close(fd)
    try:
        try:
            with warnings.catch_warnings():
                warnings.simplefilter("ignore")
                mesh.write(path, debug_path=None)
        except Exception as e:
            return dict(n=len(stack.operations), deleted=deleted[0] if len(deleted) == 1 else 9999, cells=[], ids=[],
                        err="%s: %s" % (type(e).__name__, str(e)[:120]))
        with open(path) as f:
            text = f.read()
        # the same stack in a second mesh of its own, where nothing is deleted: deleting is a statement about ONE mesh
        text2, err2 = None, None
        try:
            mesh2 = cb.Mesh()
            mesh2.add(stack)
            with warnings.catch_warnings():
                warnings.simplefilter("ignore")
                mesh2.write(path, debug_path=None)
            with open(path) as f:
                text2 = f.read()
        except Exception as e:  # noqa: BLE001
            err2 = "%s: %s" % (type(e).__name__, str(e)[:120])
    finally:
        os.remove(path)
    wcells = parse_written(text, lat)
    return dict(err=None, n=len(stack.operations), deleted=deleted[0] if len(deleted) == 1 else 9999, cells=wcells,
                ids=[cell_id.get(tuple(c), 9999) for c in wcells],
                cells2=parse_written(text2, lat) if text2 is not None else None, err2=err2)


def oracle_written(spec, ob):
    nx, ny, nz = spec["nx"], spec["ny"], spec["nz"]
    if ob.get("err"):
        return ["writing the mesh after delete(grid[%d][%d][%d]) raised %s" % (
            spec["delete"][2], spec["delete"][1], spec["delete"][0], ob["err"])]
    exp = sorted((i, j, k) for i in range(nx) for j in range(ny) for k in range(nz) if [i, j, k] != list(spec["delete"]))
    got = sorted(tuple(c) for c in ob["cells"])
    if got != exp:
        missing = sorted(set(exp) - set(got))
        extra = sorted(set(got) - set(exp)) + [c for c in set(got) if got.count(c) > 1]
        return ["after delete(grid[%d][%d][%d]) the written file does not hold exactly the cells other than (%d,%d,%d): "
                "missing %r, unexpected %r" % (spec["delete"][2], spec["delete"][1], spec["delete"][0], *spec["delete"],
                                               missing[:6], extra[:6])]
    if ob.get("err2"):
        return ["a second mesh of the same stack (nothing deleted there) cannot be written: %s" % ob["err2"]]
    if ob.get("cells2") is not None:
        full = sorted((i, j, k) for i in range(nx) for j in range(ny) for k in range(nz))
        got2 = sorted(tuple(c) for c in ob["cells2"])
        if got2 != full:
            return ["a second mesh of the same stack, in which nothing was deleted, lacks the cells %r (deleted in the FIRST mesh: "
                    "(%d,%d,%d)); unexpected %r" % (sorted(set(full) - set(got2))[:6], *spec["delete"], sorted(set(got2) - set(full))[:6])]
    return []


# ------------------------------------------------------------------------------------------------
# round sketches: topology, outer ring, grid / core / shell


def lvl_circle(R):
    return lambda p: math.hypot(p[0], p[1]) / R


def lvl_square(h):
    return lambda p: max(abs(p[0]), abs(p[1])) / h


def lvl_oval(c2x, R):
    def f(p):
        x = min(max(p[0], 0.0), c2x)
        return math.hypot(p[0] - x, p[1]) / R
    return f


def lvl_spline(s1, s2, r1, r2):
    def f(p):
        a = max(abs(p[0]) - s1, 0.0) / r1
        b = max(abs(p[1]) - s2, 0.0) / r2
        return math.hypot(a, b)
    return f


def sketch_classes():
    """name -> (constructor taking a placement helper, level function in canonical coordinates).
    The level function is the harness' own description of the outer boundary: level 1 = on it."""
    from classy_blocks.construct.flat.sketches import disk as D, spline_round as S
    from classy_blocks.construct.flat.sketches.annulus import Annulus
    out = []
    out.append(("OneCoreDisk", lambda H: D.OneCoreDisk(H.pt(0, 0, 0), H.pt(1, 0, 0), H.nrm()), lvl_circle(1)))
    out.append(("QuarterDisk", lambda H: D.QuarterDisk(H.pt(0, 0, 0), H.pt(1, 0, 0), H.nrm()), lvl_circle(1)))
    out.append(("HalfDisk", lambda H: D.HalfDisk(H.pt(0, 0, 0), H.pt(1, 0, 0), H.nrm()), lvl_circle(1)))
    out.append(("FourCoreDisk", lambda H: D.FourCoreDisk(H.pt(0, 0, 0), H.pt(1, 0, 0), H.nrm()), lvl_circle(1)))
    out.append(("WrappedDisk", lambda H: D.WrappedDisk(H.pt(0, 0, 0), H.pt(2, 2, 0), H.len(1), H.nrm()), lvl_square(2)))
    out.append(("Oval", lambda H: D.Oval(H.pt(0, 0, 0), H.pt(2, 0, 0), H.nrm(), H.len(1)), lvl_oval(2, 1)))
    for tag, s1, s2 in (("", 0.0, 0.0), ("_oval", 0.3, 0.2)):
        r1, r2 = 1.0 - s1, 0.8 - s2
        for cn in ("QuarterSplineDisk", "HalfSplineDisk", "SplineDisk"):
            out.append((cn + tag, (lambda H, cn=cn, s1=s1, s2=s2: getattr(S, cn)(
                H.pt(0, 0, 0), H.pt(1, 0, 0), H.pt(0, 0.8, 0), H.len(s1), H.len(s2))), lvl_spline(s1, s2, r1, r2)))
        for cn in ("QuarterSplineRing", "HalfSplineRing", "SplineRing"):
            out.append((cn + tag, (lambda H, cn=cn, s1=s1, s2=s2: getattr(S, cn)(
                H.pt(0, 0, 0), H.pt(1, 0, 0), H.pt(0, 0.8, 0), H.len(s1), H.len(s2), H.len(0.2), H.len(0.25))),
                lvl_spline(s1, s2, r1 + 0.2, r2 + 0.25)))
    for n in RING_SEGMENTS:
        out.append(("Annulus_%d" % n, (lambda H, n=n: Annulus(H.pt(0, 0, 0), H.pt(1, 0, 0), H.nrm(), H.len(0.5), n)),
                    lvl_circle(1)))
    return out


class Placer:
    """Hands canonical arguments to the library in a placed frame and maps results back."""

    def __init__(self, pl):
        self.pl = pl
        self.A = placement_aff(pl)
        self.Ai = self.A.inv()
        self.s = pl.get("scale", 1.0)

    def pt(self, x, y, z):
        return [float(v) for v in self.A([x, y, z])]

    def vec(self, x, y, z):
        return [float(v) for v in self.A.vec([x, y, z])]

    def nrm(self):
        # a normal of arbitrary (non-unit) length
        R = self.A.M / self.s
        return [float(v) * 1.7 for v in (R @ _np().array([0.0, 0.0, 1.0]))]

    def len(self, r):
        return float(r) * self.s

    def back(self, p):
        return self.Ai(p)


def face_ids(faces, H, pts):
    """point ids (canonical position, first appearance) of every face; extends pts in place"""
    np = _np()
    quads = []
    for f in faces:
        q = []
        for p in f.points:
            c = H.back(p.position)
            for n, c0 in enumerate(pts):
                if float(np.linalg.norm(c - c0)) < 1e-6:
                    q.append(n)
                    break
            else:
                pts.append(c)
                q.append(len(pts) - 1)
        quads.append(q)
    return quads


def idx_list(items, pool, what):
    ids = [id(x) for x in pool]
    out = []
    for it in items:
        if id(it) not in ids:
            raise GenError("%s contains an object that is not one of the listed entities" % what)
        out.append(ids.index(id(it)))
    return out


def tab_sketch(name, ctor, level, pl):
    H = Placer(pl)
    sk = ctor(H)
    faces = list(sk.faces)
    pts = []
    quads = face_ids(faces, H, pts)
    if any(len(q) != 4 for q in quads):
        raise GenError("face without 4 points in %s" % name)
    lv = [level(p) for p in pts]
    if any(abs(p[2]) > 1e-6 for p in pts):
        raise GenError("%s: a sketch point left the sketch plane" % name)
    if max(lv) > 1 + 1e-6:
        raise GenError("%s: a point lies outside the outer boundary the harness assumes (level %.6f)" % (name, max(lv)))
    outer = [n for n, l in enumerate(lv) if abs(l - 1) <= 1e-6]
    grid = [idx_list(row, faces, name + ".grid") for row in sk.grid]
    core = sk.core
    shell = sk.shell
    return dict(name=name, quads=quads, outer=outer, grid=grid,
                core=None if core is None else idx_list(core, faces, name + ".core"),
                shell=idx_list(shell, faces, name + ".shell"))


def rings_why(grid, core, shell, what):
    """the rows of a radial grid are rings, inner first: a prefix of the rows is the core, the rest the shell"""
    for k in range(len(grid) + 1):
        if [x for r in grid[:k] for x in r] == list(core) and [x for r in grid[k:] for x in r] == list(shell):
            return []
    return ["grid %r of the %s is not the core rows %r followed by the shell rows %r" % (grid, what, core, shell)]


def sketch_ok_py(t):
    """The direct oracle for a sketch table (Python restatement of Properties/C19.v sketch_ok)."""
    nf = len(t["quads"])
    outer = set(t["outer"])
    core = t["core"] or []
    shell = t["shell"]
    why = []
    if sorted(core + shell) != list(range(nf)):
        both = sorted(set(core) & set(shell))
        none = sorted(set(range(nf)) - set(core) - set(shell))
        why.append("core %r and shell %r do not partition the %d faces (in both: %r, in neither: %r)" % (core, shell, nf, both, none))
    for f in shell:
        q = t["quads"][f]
        if not any(q[e] in outer and q[(e + 1) % 4] in outer for e in range(4)):
            why.append("shell face %d has no edge on the outer boundary" % f)
    for f in core:
        if any(p in outer for p in t["quads"][f]):
            why.append("core face %d touches the outer boundary" % f)
    flat = [f for row in t["grid"] for f in row]
    if sorted(flat) != list(range(nf)):
        why.append("grid %r does not address every face exactly once" % (t["grid"],))
    why += rings_why(t["grid"], core, shell, "sketch")
    return why


# round shapes ---------------------------------------------------------------------------------


def shape_classes():
    """name -> constructor(H) returning (shape, touch flags per operation or None, sketch level or None)."""
    cb = _cb()
    from classy_blocks.construct.shapes.round import RoundSolidShape
    out = []
    out.append(("Cylinder", lambda H: cb.Cylinder(H.pt(0, 0, 0), H.pt(0, 0, 2), H.pt(1, 0, 0)), lvl_circle(1)))
    out.append(("SemiCylinder", lambda H: cb.SemiCylinder(H.pt(0, 0, 0), H.pt(0, 0, 2), H.pt(1, 0, 0)), lvl_circle(1)))
    out.append(("Frustum", lambda H: cb.Frustum(H.pt(0, 0, 0), H.pt(0, 0, 2), H.pt(1, 0, 0), H.len(0.4)), lvl_circle(1)))
    out.append(("Frustum_mid", lambda H: cb.Frustum(H.pt(0, 0, 0), H.pt(0, 0, 2), H.pt(1, 0, 0), H.len(0.4), H.len(0.9)), lvl_circle(1)))
    out.append(("Elbow", lambda H: cb.Elbow(H.pt(0, 0, 0), H.pt(1, 0, 0), H.vec(0, 0, 1), 1.1, H.pt(3, 0, 0), H.vec(0, 1, 0), H.len(0.7)), lvl_circle(1)))
    out.append(("Cylinder.chain", lambda H: cb.Cylinder.chain(cb.Cylinder(H.pt(0, 0, -1), H.pt(0, 0, 0), H.pt(1, 0, -1)), H.len(2)), lvl_circle(1)))
    for n in RING_SEGMENTS:
        out.append(("ExtrudedRing_%d" % n, (lambda H, n=n: cb.ExtrudedRing(H.pt(0, 0, 0), H.pt(0, 0, 2), H.pt(1, 0, 0), H.len(0.5), n)), lvl_circle(1)))
    out.append(("ExtrudedRing.expand", lambda H: cb.ExtrudedRing.expand(cb.Cylinder(H.pt(0, 0, 0), H.pt(0, 0, 2), H.pt(0.6, 0, 0)), H.len(0.4)), lvl_circle(1)))
    out.append(("Cylinder.fill", lambda H: cb.Cylinder.fill(cb.ExtrudedRing(H.pt(0, 0, 0), H.pt(0, 0, 2), H.pt(2, 0, 0), H.len(1.0), 8)), lvl_circle(1)))
    for (sn, ctor, level) in sketch_classes():
        if "Ring" in sn or sn.startswith("Annulus") or sn.endswith("_oval"):
            continue
        out.append(("RoundSolidShape(%s)" % sn, (lambda H, ctor=ctor: RoundSolidShape(ctor(H), [cb.Translation(H.vec(0, 0, 1.5))])), level))
    return out


def tab_lofted_shape(name, ctor, level, pl):
    """Round shape made from sketches: operations are identified with the faces of sketch_1 by position."""
    np = _np()
    H = Placer(pl)
    shape = ctor(H)
    ops = list(shape.operations)
    faces = list(shape.sketch_1.faces)
    faces2 = list(shape.sketch_2.faces)
    pts = []
    quads = face_ids(faces, H, pts)
    lv = [level(p) for p in pts]
    if max(lv) > 1 + 1e-6:
        raise GenError("%s: a point lies outside the assumed outer boundary" % name)
    outer = [n for n, l in enumerate(lv) if abs(l - 1) <= 1e-6]
    # bottom face of operation n <-> face of sketch_1 (by the positions of its 4 points, in order)
    bottom = []
    pair = []
    for o in ops:
        pa = np.asarray(o.bottom_face.point_array)
        found = [n for n, f in enumerate(faces) if float(np.abs(np.asarray(f.point_array) - pa).max()) < 1e-6 * H.s]
        if len(found) != 1:
            raise GenError("%s: bottom face of an operation is not a face of sketch_1" % name)
        bottom.append(found[0])
        ta = np.asarray(o.top_face.point_array)
        pair.append(float(np.abs(np.asarray(faces2[found[0]].point_array) - ta).max()) < 1e-6 * H.s)
    try:
        core = shape.core
    except AttributeError:
        core = None
    grid = [idx_list(row, ops, name + ".grid") for row in shape.grid]
    sgrid = [idx_list(row, faces, name + ".sketch_1.grid") for row in shape.sketch_1.grid]
    return dict(name=name, quads=quads, outer=outer, bottom=bottom, pair=pair, grid=grid, sgrid=sgrid,
                core=None if core is None else idx_list(core, ops, name + ".core"),
                shell=idx_list(shape.shell, ops, name + ".shell"))


def tab_solid_shape(name, shape, centre, radius):
    """Shapes without sketches (spheres, revolved rings): an operation touches the outer surface when one
    of its six sides has all four corners on it (distance `radius` from `centre`/axis)."""
    np = _np()
    ops = list(shape.operations)
    sides = [[0, 1, 2, 3], [4, 5, 6, 7], [0, 4, 7, 3], [1, 2, 6, 5], [0, 1, 5, 4], [3, 2, 6, 7]]
    touch = []
    anyp = []
    for o in ops:
        lv = [radius(np.asarray(p)) for p in o.point_array]
        on = [abs(l - 1) <= 1e-6 for l in lv]
        if max(lv) > 1 + 1e-6:
            raise GenError("%s: a corner lies outside the assumed outer surface" % name)
        touch.append(any(all(on[c] for c in s) for s in sides))
        anyp.append(any(on))
    try:
        core = shape.core
    except AttributeError:
        core = None
    try:
        grid = [idx_list(row, ops, name + ".grid") for row in shape.grid]
    except AttributeError:
        grid = None
    return dict(name=name, n=len(ops), touch=touch, anyp=anyp, grid=grid,
                core=None if core is None else idx_list(core, ops, name + ".core"),
                shell=idx_list(shape.shell, ops, name + ".shell"))


def solid_classes():
    cb = _cb()
    np = _np()
    out = []

    def sphere(cls):
        def make(H):
            s = cls(H.pt(0, 0, 0), H.pt(1, 0, 0), H.nrm())
            return s, (lambda p: float(np.linalg.norm(H.back(p))))
        return make
    from classy_blocks.construct.shapes import sphere as SP
    for cn in ("EighthSphere", "QuarterSphere", "Hemisphere"):
        if hasattr(SP, cn):
            out.append((cn, sphere(getattr(SP, cn))))

    def rring(n):
        def make(H):
            face = cb.Face([H.pt(0.2, 1, 0), H.pt(1, 1, 0), H.pt(1.2, 2, 0), H.pt(0, 2, 0)])
            s = cb.RevolvedRing(H.pt(0, 0, 0), H.pt(1, 0, 0), face, n)
            return s, (lambda p: float(math.hypot(H.back(p)[1], H.back(p)[2])) / 2.0)
        return make
    for n in RING_SEGMENTS:
        out.append(("RevolvedRing_%d" % n, rring(n)))
    return out


def lofted_ok_py(t):
    n = len(t["bottom"])
    outer = set(t["outer"])
    core = t["core"] if t["core"] is not None else None
    why = []
    if core is None:
        why.append("shape.core is not available")
        core = []
    shell = t["shell"]
    if sorted(core + shell) != list(range(n)):
        why.append("core %r and shell %r do not partition the %d operations" % (core, shell, n))
    for o in shell:
        q = t["quads"][t["bottom"][o]]
        if not any(q[e] in outer and q[(e + 1) % 4] in outer for e in range(4)):
            why.append("shell operation %d does not touch the outer surface" % o)
    for o in core:
        if any(p in outer for p in t["quads"][t["bottom"][o]]):
            why.append("core operation %d touches the outer surface" % o)
    if not all(t["pair"]):
        why.append("an operation does not connect face n of sketch_1 with face n of sketch_2")
    # shape.grid[r][c] is the operation over sketch_1.grid[r][c]
    if [[t["bottom"][o] for o in row] for row in t["grid"]] != t["sgrid"]:
        why.append("shape.grid does not mirror sketch_1.grid")
    why += rings_why(t["grid"], core, shell, "shape")
    return why


def solid_ok_py(t):
    n = t["n"]
    why = []
    core = t["core"]
    if core is None:
        why.append("shape.core is not available")
        core = []
    if t["grid"] is None:
        why.append("shape.grid is not available")
    elif sorted(o for row in t["grid"] for o in row) != list(range(n)):
        why.append("shape.grid does not address every operation exactly once")
    if sorted(core + t["shell"]) != list(range(n)):
        why.append("core %r and shell %r do not partition the %d operations" % (core, t["shell"], n))
    for o in t["shell"]:
        if not t["touch"][o]:
            why.append("shell operation %d does not touch the outer surface" % o)
    for o in core:
        if t["anyp"][o]:
            why.append("core operation %d touches the outer surface" % o)
    if t["grid"] is not None:
        why += rings_why(t["grid"], core, t["shell"], "shape")
    return why


def tabulate_round(pl):
    sk = [tab_sketch(n, c, l, pl) for (n, c, l) in sketch_classes()]
    lo = [tab_lofted_shape(n, c, l, pl) for (n, c, l) in shape_classes()]
    so = []
    for (n, make) in solid_classes():
        H = Placer(pl)
        shape, radius = make(H)
        so.append(tab_solid_shape(n, shape, None, radius))
    return dict(sketches=sk, lofted=lo, solids=so)


# ------------------------------------------------------------------------------------------------
# Coq emitters


def nl(l):
    return "[" + "; ".join(str(int(x)) for x in l) + "]"


def nll(l):
    return "[" + "; ".join(nl(x) for x in l) + "]"


def nlll(l):
    return "[" + "; ".join(nll(x) for x in l) + "]"


def bl(l):
    return "[" + "; ".join("true" if x else "false" for x in l) + "]"


def onl(l):
    return "None" if l is None else "(Some %s)" % nl(l)


def onll(l):
    return "None" if l is None else "(Some %s)" % nll(l)


def cell(c):
    return "(%d, %d, %d)" % tuple(c)


def cells(l):
    return "[" + "; ".join(cell(c) for c in l) + "]"


def emit_sketch(t):
    return '("%s"%%string, (%s, %s, %s, %s, %s))' % (t["name"], nll(t["quads"]), nl(t["outer"]), nll(t["grid"]),
                                                    onl(t["core"]), nl(t["shell"]))


def emit_lofted(t):
    return '("%s"%%string, (%s, %s, %s, %s, %s, %s, %s, %s))' % (
        t["name"], nll(t["quads"]), nl(t["outer"]), nl(t["bottom"]), bl(t["pair"]), nll(t["grid"]), nll(t["sgrid"]),
        onl(t["core"]), nl(t["shell"]))


def emit_solid(t):
    return '("%s"%%string, (%d, %s, %s, %s, %s, %s))' % (
        t["name"], t["n"], bl(t["touch"]), bl(t["anyp"]), onll(t["grid"]), onl(t["core"]), nl(t["shell"]))


HEADER = ("From Coq Require Import String.\nFrom Coq Require Import List Bool Arith.\nImport ListNotations.\nOpen Scope nat_scope.\n")


def emit_tables(tab):
    o = ["(* GENERATED by harness/props/C19.py from the working tree of /repo -- do not edit *)", HEADER]
    o.append("(* name, (quads as point ids, outer-ring point ids, grid, core, shell) -- faces by index *)")
    o.append("Definition round_sketches : list (string * (list (list nat) * list nat * list (list nat) * option (list nat) * list nat)) :=\n  ["
             + ";\n   ".join(emit_sketch(t) for t in tab["sketches"]) + "].")
    o.append("(* name, (quads of sketch_1, outer-ring point ids, sketch_1 face under each operation, top face is the\n"
             "   same face of sketch_2?, shape.grid, sketch_1.grid, core, shell) -- operations by index *)")
    o.append("Definition round_lofted : list (string * (list (list nat) * list nat * list nat * list bool * list (list nat) * list (list nat) * option (list nat) * list nat)) :=\n  ["
             + ";\n   ".join(emit_lofted(t) for t in tab["lofted"]) + "].")
    o.append("(* name, (number of operations, has a side on the outer surface, has a corner on it, grid, core, shell) *)")
    o.append("Definition round_solids : list (string * (nat * list bool * list bool * option (list (list nat)) * option (list nat) * list nat)) :=\n  ["
             + ";\n   ".join(emit_solid(t) for t in tab["solids"]) + "].")
    return "\n".join(o) + "\n"


def parse_id_list(so):
    out = []
    for m in re.finditer(r"=\s*\[(.*?)\]\s*:\s*list nat", so, flags=re.S):
        body = m.group(1).strip()
        out.append([int(x) for x in body.replace("\n", " ").split(";")] if body else [])
    if not out:
        raise RuntimeError("cannot parse Coq output: %r" % so[:400])
    return out


def parse_pair_list(so):
    m = re.search(r"=\s*\[(.*?)\]\s*:\s*list \(nat \* nat\)", so, flags=re.S)
    if not m:
        raise RuntimeError("cannot parse Coq output: %r" % so[:400])
    return [(int(a), int(b)) for (a, b) in re.findall(r"\((\d+),\s*(\d+)\)", m.group(1))]


CASE_HEADER = ("From Coq Require Import String.\nFrom Coq Require Import List Bool Arith ZArith.\n"
               "From CB Require Import Model.C19_Stack Model.C19_Spec.\nImport ListNotations.\nOpen Scope nat_scope.\n")


def coq_slice(s):
    res = "None" if s["ids"] is None else "(Some %s)" % nl(sorted(s["ids"]))
    return "(%d, %s, %s)" % (s["axis"], core.coq_z(s["idx"]), res)


def emit_stack_case(cid, spec, ob, with_grid):
    """(id, (check grid?, nx, ny, nz, grid as cells, grid as ids, slices))"""
    return "(%d, (%s, %d, %d, %d, %s, %s, [%s]))" % (
        cid, "true" if with_grid else "false", spec.get("nx", 0), spec.get("ny", 0), spec.get("nz", 0),
        "[" + "; ".join("[" + "; ".join(cells(r) for r in s) + "]" for s in ob["grid_cells"]) + "]" if with_grid else "[]",
        nlll(ob["grid_ids"]), "; ".join(coq_slice(s) for s in ob["slices"]))


def emit_delete_case(cid, ob):
    """(id, (n ops, deleted id, chopped id, axis, observed blocks (op id, chop axes)))"""
    return "(%d, (%d, %d, %d, %d, [%s]))" % (
        cid, ob["n"], ob["deleted"], ob["chopped"], ob["chop_axis"],
        "; ".join("(%d, %s)" % (o, nl(a)) for (o, _c, a) in ob["blocks"]))


# ------------------------------------------------------------------------------------------------


class C19(Prop):
    pid = "C19"
    title = "Grid, slice and core/shell addressing of shapes and stacks is geometric"
    prebuilt = ["Model/C19_Stack.v", "Model/C19_Spec.v", "Proofs/C19_Stack.v", "Proofs/C19_Spec.v",
                "Model/C19_Mirror.v", "Proofs/C19_Mirror.v"]
    gen_dependent_files = ["Gen/C19/Tables.v"]
    property_files = ["Properties/C19.v"]
    trusted = [
        "identification of operations/blocks with lattice cells: centre of the 8 corners against the harness' own "
        "affine computation of the cell centres (tolerance 1e-8 x size); sizes DX=1, DY=0.6, tier 0.45.. are distinct",
        "outer boundary of each round sketch class: the harness' own level function (circle, square, stadium, "
        "super-ellipse with straight sides) evaluated on the points mapped back to canonical coordinates",
        "tabulation of grid/core/shell of every round sketch / shape class (whole finite family of Appendix E, ring "
        "segment counts 3..12) at the canonical arguments; other placements/sizes are sampled (tables must not change)",
        "the harness' reader of the written blockMeshDict (vertices list, hex entries) used to locate written blocks",
        "stack correspondence is exhaustive over 1..5 x 1..5 x 1..4 x {extruded, revolved, transformed} x all axes x "
        "all indices -(n+1)..n at one placement per stack; other placements are sampled",
    ]
    partial = []

    # ---- S1 ----
    def generate(self, ctx):
        tab = tabulate_round(IDENT)
        ctx.write_gen("Tables", emit_tables(tab))
        self._tab = tab

    # ---- S3 ----
    def stack_specs(self, ctx):
        specs = []
        v = 0
        for kind in ("extruded", "revolved", "transformed"):
            for nx in range(1, 6):
                for ny in range(1, 6):
                    for nz in range(1, 5):
                        v += 1
                        # every third stack sits at a random rigid placement, the others at the origin
                        pl = rand_placement(ctx.rng) if v % 3 == 0 else dict(IDENT)
                        specs.append(stack_spec(kind, nx, ny, nz, pl, variant=v))
        return specs

    def correspond(self, ctx):
        res = CorrResult()
        res.rule = ("exhaustive: every stack kind x grid size 1..5 x 1..5 x 1..4; compared inside Coq: the nested grid "
                    "(operations named by the lattice cell containing their centre) with Model.stack_cells, and every "
                    "get_slice(axis, idx), idx in -(n+1)..n, with Model.get_slice applied to the implementation's grid of "
                    "operation ids (as sets; IndexError <-> None); delete/chop of an addressed operation against "
                    "Model.assemble_ops/chop_op, both on Mesh.block_list after assemble and on the hex entries of the "
                    "WRITTEN blockMeshDict; round sketches/shapes at random similarity placements against the "
                    "specification predicates of Model/C19_Spec.v; (M) Cylinder/SemiCylinder/Frustum mirrored (also as a copy, then moved): "
                    "core/shell against the sides that lie on the mirrored outer surface (direct oracle).  non-trivial = a valid address on a stack with more "
                    "than one operation; distinct by (kind, size, axis, index)")
        cases = []      # (cid, text, describe)
        descr = {}
        cid = 0
        # (1) stacks on cartesian grids, exhaustive
        for spec in self.stack_specs(ctx):
            ob = observe_stack(spec)
            cid += 1
            descr[cid] = dict(spec)
            cases.append((cid, emit_stack_case(cid, spec, ob, True)))
            res.evaluations += 1 + len(ob["slices"])
            res.count("stack:" + spec["kind"])
            res.count("placed" if spec["placement"]["angle"] != 0.0 else "canonical")
            dims = [spec["nx"], spec["ny"], spec["nz"]]
            for s in ob["slices"]:
                n = dims[s["axis"]]
                if -n <= s["idx"] < n:
                    if ob["ops"] > 1:
                        res.distinct.add("%s %dx%dx%d a%d i%d" % (spec["kind"], spec["nx"], spec["ny"], spec["nz"], s["axis"], s["idx"]))
                    res.count("index:" + ("negative" if s["idx"] < 0 else "non-negative"))
                else:
                    res.boundary += 1
                    res.count("index:out-of-range")
            why = oracle_stack(spec, ob)
            if why:
                res.oracle_failures.append(dict(spec, why=why[0], all_why=why[:5], sig=sig_stack(why[0])))
            if len(res.samples) < 2 and spec["nx"] == 2 and spec["ny"] == 3 and spec["nz"] == 2:
                res.samples.append(dict(spec=spec, grid_cells=ob["grid_cells"],
                                        slice_0_1=[s for s in ob["slices"] if s["axis"] == 0 and s["idx"] == 1][0]["cells"]))
        # (2) ragged stacks on disk sketches: slice model on the implementation's own grid
        for sk in ("OneCoreDisk", "QuarterDisk", "HalfDisk", "FourCoreDisk", "WrappedDisk", "Oval"):
            for kind in ("extruded", "revolved"):
                for nz in (1, 3):
                    spec = dict(what="ragged", sketch=sk, kind=kind, nz=nz)
                    ob = observe_ragged(spec)
                    cid += 1
                    descr[cid] = dict(spec)
                    cases.append((cid, emit_stack_case(cid, spec, dict(ob, grid_cells=[]), False)))
                    res.evaluations += len(ob["slices"])
                    res.count("ragged:" + sk)
                    for s in ob["slices"]:
                        if s["err"]:
                            res.oracle_failures.append(dict(spec, why="get_slice(%d, %d) raised %s" % (s["axis"], s["idx"], s["err"]),
                                                            sig="C19:get_slice:exception"))
                        if s["ids"] is not None and nz > 1:
                            res.distinct.add("%s %s %d a%d i%d" % (sk, kind, nz, s["axis"], s["idx"]))
        shards = []
        per = 40
        for k in range(0, len(cases), per):
            chunk = cases[k:k + per]
            body = [CASE_HEADER, "Definition cases : list (nat * stack_case) := ["]
            body.append(";\n".join(t for (_c, t) in chunk))
            body.append("].")
            body.append("Eval vm_compute in (flat_map (fun c => map (fun e => (fst c, e)) (stack_case_errors (snd c))) cases).")
            shards.append(("stacks_%d" % (k // per), "\n".join(body) + "\n"))
        # (3) delete / chop
        dcases = []
        sizes = [(nx, ny, nz) for nx in range(1, 6) for ny in range(1, 6) for nz in range(1, 5)]
        if ctx.quick:
            sizes = [s for s in sizes if s[0] * s[1] * s[2] <= 36]
        kinds = ["extruded", "revolved", "transformed"]
        for n, (nx, ny, nz) in enumerate(sizes):
            kind = kinds[(n + ctx.seed) % 3]
            pl = rand_placement(ctx.rng) if n % 2 else dict(IDENT)
            spec = stack_spec(kind, nx, ny, nz, pl, variant=n)
            spec["what"] = "delete"
            spec["delete"] = [ctx.rng.randrange(nx), ctx.rng.randrange(ny), ctx.rng.randrange(nz)]
            spec["chop"] = [ctx.rng.randrange(nx), ctx.rng.randrange(ny), ctx.rng.randrange(nz), ctx.rng.randrange(3)]
            try:
                ob = observe_delete(spec)
            except GenError:
                raise
            except Exception as e:  # the library failed on a legal use: a finding with a replay, not a harness error
                res.oracle_failures.append(dict(spec, why="delete/chop/assemble of an addressed operation raised %s: %s" % (
                    type(e).__name__, str(e)[:120]), sig="C19:delete:exception"))
                res.mismatches.append(dict(spec, mismatch="delete/chop raised %s" % type(e).__name__))
                continue
            ob["chop_axis"] = spec["chop"][3]
            cid += 1
            descr[cid] = dict(spec)
            dcases.append((cid, emit_delete_case(cid, ob)))
            res.evaluations += 1
            res.count("delete:" + kind)
            if ob["n"] > 1:
                res.distinct.add("delete %s %dx%dx%d %r %r" % (kind, nx, ny, nz, spec["delete"], spec["chop"]))
            why = oracle_delete(spec, ob)
            if why:
                res.oracle_failures.append(dict(spec, why=why[0], sig=sig_delete(why[0])))
            if len(res.samples) < 3:
                res.samples.append(dict(spec=spec, blocks=[(o, list(c), a) for (o, c, a) in ob["blocks"]][:8]))
            # the same deletion observed in the WRITTEN file (every 5th case in the quick tier; needs >= 1 block left)
            if ob["n"] > 1 and (not ctx.quick or (n % 5 == 0 and ob["n"] <= 36)):
                wspec = dict(spec, what="written")
                wob = observe_written(wspec)
                cid += 1
                descr[cid] = dict(wspec)
                dcases.append((cid, "(%d, (%d, %d, 9999, 0, [%s]))" % (
                    cid, wob["n"], wob["deleted"], "; ".join("(%d, [])" % o for o in wob["ids"]))))
                res.evaluations += 1
                res.count("written:" + kind)
                res.distinct.add("written %s %dx%dx%d %r" % (kind, nx, ny, nz, spec["delete"]))
                why = oracle_written(wspec, wob)
                if why:
                    res.oracle_failures.append(dict(wspec, why=why[0], sig="C19:delete:written"))
        for k in range(0, len(dcases), 60):
            chunk = dcases[k:k + 60]
            body = [CASE_HEADER, "Definition cases : list (nat * delete_case) := ["]
            body.append(";\n".join(t for (_c, t) in chunk))
            body.append("].")
            body.append("Eval vm_compute in (map fst (filter (fun c => negb (delete_case_ok (snd c))) cases)).")
            shards.append(("delete_%d" % (k // 60), "\n".join(body) + "\n"))
        # (4) round sketches / shapes at random placements: specification predicates evaluated in Coq
        nplace = ctx.n(4, 100)
        canon = getattr(self, "_tab", None) or tabulate_round(IDENT)
        rcases = []
        rdescr = {}
        rid = 0
        for p in range(nplace):
            pl = rand_placement(ctx.rng, scale=True)
            tab = tabulate_round(pl)
            for group, emit, okpy in (("sketches", emit_sketch, sketch_ok_py), ("lofted", emit_lofted, lofted_ok_py),
                                      ("solids", emit_solid, solid_ok_py)):
                for t, t0 in zip(tab[group], canon[group]):
                    rid += 1
                    rdescr[rid] = dict(what="round", group=group, name=t["name"], placement=pl)
                    rcases.append((rid, group, emit(t)))
                    res.evaluations += 1
                    res.count("round:" + group)
                    res.distinct.add("round %s %d" % (t["name"], p))
                    if t != t0:
                        res.mismatches.append(dict(what="round", name=t["name"], placement=pl,
                                                   why="addressing tables depend on the placement", canonical=t0, placed=t))
                    why = okpy(t)
                    if why:
                        res.oracle_failures.append(dict(what="round", group=group, name=t["name"], placement=pl, why=why[0],
                                                        all_why=why[:5], sig=sig_round(t["name"], why[0])))
        # (M) mirrored round shapes (direct oracle only)
        from props import C19_mirror
        seen_m = set()
        for _ in range(ctx.n(40, 600)):
            mc = C19_mirror.gen_case(ctx.rng)
            res.evaluations += 1
            res.count("mirrored-round:" + mc["kind"])
            res.distinct.add("mirrored " + json.dumps(mc, sort_keys=True))
            f = C19_mirror.check(mc)
            if f and f["sig"] not in seen_m:
                seen_m.add(f["sig"])
                res.oracle_failures.append(f)
        # the canonical tables themselves go through the oracle as well (self-check of the theorems)
        for group, okpy in (("sketches", sketch_ok_py), ("lofted", lofted_ok_py), ("solids", solid_ok_py)):
            for t in canon[group]:
                why = okpy(t)
                if why:
                    res.oracle_failures.append(dict(what="round", group=group, name=t["name"], placement=dict(IDENT, scale=1.0),
                                                    why=why[0], all_why=why[:5], sig=sig_round(t["name"], why[0])))
        for g, typ, ok in (("sketches", "sketch_entry", "sketch_ok"), ("lofted", "lofted_entry", "lofted_ok"),
                           ("solids", "solid_entry", "solid_ok")):
            sel = [(r, t) for (r, gg, t) in rcases if gg == g]
            for k in range(0, len(sel), 150):
                chunk = sel[k:k + 150]
                body = [CASE_HEADER, "Definition cases : list (nat * %s) := [" % typ]
                body.append(";\n".join("(%d, %s)" % (r, t) for (r, t) in chunk))
                body.append("].")
                body.append("Eval vm_compute in (map fst (filter (fun c => negb (%s (snd c))) cases))." % ok)
                shards.append(("round_%s_%d" % (g, k // 150), "\n".join(body) + "\n"))
        # run Coq
        for (name, rc, so, se) in core.run_cases_parallel(ctx, shards):
            if rc != 0:
                res.error = "case file %s failed to compile: %s" % (name, se[-800:])
                return res
            if name.startswith("stacks_"):
                for (c, e) in parse_pair_list(so):
                    res.mismatches.append(dict(descr[c], mismatch=("grid" if e == 0 else "slice #%d" % (e - 1))))
                continue
            ids = parse_id_list(so)[0]
            for i in ids:
                if name.startswith("delete_"):
                    res.mismatches.append(dict(descr[i], mismatch="delete/chop"))
                else:
                    d = rdescr[i]
                    # a spec predicate that fails is a property failure found by Coq; the oracle has the replay
                    if not any(f.get("name") == d["name"] for f in res.oracle_failures):
                        res.mismatches.append(dict(d, mismatch="specification predicate false in Coq, oracle silent"))
        res.traces = len(cases) + len(dcases) + len(rcases)
        self._descr = descr
        return res

    # ---- S4 ----
    def search(self, ctx, broken, corr):
        fails = []
        # the tables (a broken finite theorem) first
        try:
            tab = tabulate_round(IDENT)
            for group, okpy in (("sketches", sketch_ok_py), ("lofted", lofted_ok_py), ("solids", solid_ok_py)):
                for t in tab[group]:
                    why = okpy(t)
                    if why:
                        fails.append(dict(what="round", group=group, name=t["name"], placement=dict(IDENT), why=why[0],
                                          all_why=why[:5], sig=sig_round(t["name"], why[0])))
        except Exception as e:
            ctx.log("search: tabulation failed: %s" % e)
        # mismatching correspondence cases
        for m in corr.mismatches[:20]:
            try:
                rp = replay_case(m)
            except Exception as e:
                ctx.log("search: replaying a mismatch failed: %s" % e)
                continue
            if rp:
                fails.append(rp)
        if not fails:
            for kind in ("extruded", "revolved", "transformed"):
                for (nx, ny, nz) in ((2, 3, 2), (3, 1, 2)):
                    spec = stack_spec(kind, nx, ny, nz, rand_placement(ctx.rng), variant=nx)
                    spec["delete"] = [ctx.rng.randrange(nx), ctx.rng.randrange(ny), 0]
                    spec["chop"] = [ctx.rng.randrange(nx), ctx.rng.randrange(ny), ctx.rng.randrange(nz), ctx.rng.randrange(3)]
                    for what in ("delete", "written"):
                        try:
                            rp = replay_case(dict(spec, what=what))
                        except Exception as e:
                            rp = dict(spec, what=what, why="observation failed: %s: %s" % (type(e).__name__, str(e)[:120]),
                                      sig="C19:delete:exception")
                        if rp:
                            fails.append(rp)
                    if fails:
                        break
                if fails:
                    break
        if not fails:
            # small enumerative search with the oracle
            for kind in ("extruded", "revolved", "transformed"):
                for (nx, ny, nz) in ((2, 3, 2), (3, 2, 4), (1, 5, 3), (4, 4, 1)):
                    spec = stack_spec(kind, nx, ny, nz, rand_placement(ctx.rng), variant=nx)
                    try:
                        why = oracle_stack(spec, observe_stack(spec))
                    except Exception as e:
                        why = ["observation failed: %s: %s" % (type(e).__name__, e)]
                    if why:
                        fails.append(dict(spec, why=why[0], sig=sig_stack(why[0])))
                        break
        return fails

    def signature(self, rp):
        return rp.get("sig") or "C19:%s:%s" % (rp.get("what"), str(rp.get("why", ""))[:60])

    def replay(self, ctx, obj):
        if obj.get("what") == "mirrored-round":
            from props import C19_mirror
            print("input:", json.dumps(obj["case"]))
            try:
                ob = C19_mirror.run_case(obj["case"])
                print("implementation: core %r shell %r" % (ob["core"], ob["shell"]))
            except Exception as e:  # noqa: BLE001
                print("implementation raised", type(e).__name__, e)
            f = C19_mirror.check(obj["case"])
            print("oracle:", (f["why"], f["sig"]) if f else "ok")
            return 0
        rp = replay_case(obj, verbose=True)
        print("oracle:", (rp or {}).get("why", "ok"))
        return 0


def sig_stack(why):
    if why.startswith("grid"):
        return "C19:stack:grid"
    if "get_slice" in why:
        m = re.match(r"get_slice\((\d)", why)
        return "C19:stack:get_slice:axis%s" % (m.group(1) if m else "?")
    return "C19:stack:operations"


def sig_delete(why):
    return "C19:delete" if "delete" in why else "C19:chop"


def sig_round(name, why):
    kind = "partition" if "partition" in why else ("shell" if why.startswith("shell") else ("core" if why.startswith("core") else "other"))
    if "not available" in why:
        kind = "unavailable"
    if "grid" in why:
        kind = "grid"
    base = re.sub(r"_oval$|_\d+$", "", name)
    fixed = {("HalfSplineDisk", "partition"): "C19:halfsplinedisk-grid", ("HalfSplineDisk", "grid"): "C19:halfsplinedisk-grid",
             ("HalfSplineDisk", "shell"): "C19:halfsplinedisk-grid", ("HalfSplineDisk", "core"): "C19:halfsplinedisk-grid",
             ("WrappedDisk", "partition"): "C19:wrappeddisk-core", ("WrappedDisk", "shell"): "C19:wrappeddisk-core",
             ("RevolvedRing", "unavailable"): "C19:revolvedring-grid",
             ("RevolvedRing", "grid"): "C19:revolvedring-grid", ("RevolvedRing", "partition"): "C19:revolvedring-grid"}
    for wrap in ("RoundSolidShape(%s)",):
        for (b, k), s in list(fixed.items()):
            fixed[(wrap % b, k)] = s
    return fixed.get((base, kind)) or "C19:round:%s:%s" % (base, kind)


def replay_case(m, verbose=False):
    """Re-run one stored input through the implementation and the direct oracle."""
    what = m.get("what")
    if what == "stack":
        ob = observe_stack(m)
        why = oracle_stack(m, ob)
        if verbose:
            print("implementation: grid cells", ob["grid_cells"])
            for s in ob["slices"]:
                print("  get_slice(%d, %d) ->" % (s["axis"], s["idx"]), s["cells"] if not s["err"] else s["err"])
        if why:
            keep = {k: m[k] for k in ("what", "kind", "nx", "ny", "nz", "placement", "variant")}
            return dict(keep, why=why[0], all_why=why[:5], sig=sig_stack(why[0]))
    elif what == "delete":
        ob = observe_delete(m)
        why = oracle_delete(m, ob)
        if verbose:
            print("implementation: blocks after delete/chop", ob["blocks"])
        if why:
            keep = {k: m[k] for k in ("what", "kind", "nx", "ny", "nz", "placement", "variant", "delete", "chop")}
            return dict(keep, why=why[0], sig=sig_delete(why[0]))
    elif what == "written":
        ob = observe_written(m)
        why = oracle_written(m, ob)
        if verbose:
            print("implementation: cells of the hex entries of the written file", ob["cells"])
        if why:
            keep = {k: m[k] for k in ("what", "kind", "nx", "ny", "nz", "placement", "variant", "delete")}
            return dict(keep, why=why[0], sig="C19:delete:written")
    elif what == "ragged":
        ob = observe_ragged(m)
        bad = [s for s in ob["slices"] if s["err"]]
        if verbose:
            print("implementation: grid", ob["grid_ids"])
            for s in ob["slices"]:
                print("  get_slice(%d, %d) ->" % (s["axis"], s["idx"]), s["ids"] if not s["err"] else s["err"])
        # the positional oracle for ragged stacks: a slice along 2 is a whole tier, along 0/1 a column/row of every tier
        why = oracle_ragged(ob)
        if bad:
            why = ["get_slice(%d, %d) raised %s" % (bad[0]["axis"], bad[0]["idx"], bad[0]["err"])] + why
        if why:
            return dict(what="ragged", sketch=m["sketch"], kind=m["kind"], nz=m["nz"], why=why[0], sig="C19:ragged:get_slice")
    elif what == "round":
        tab = tabulate_round(m.get("placement") or IDENT)
        for group, okpy in (("sketches", sketch_ok_py), ("lofted", lofted_ok_py), ("solids", solid_ok_py)):
            for t in tab[group]:
                if t["name"] == m.get("name"):
                    why = okpy(t)
                    if verbose:
                        print("implementation:", json.dumps(t))
                    if why:
                        return dict(what="round", group=group, name=t["name"], placement=m.get("placement") or IDENT,
                                    why=why[0], all_why=why[:5], sig=sig_round(t["name"], why[0]))
    return None


def oracle_ragged(ob):
    g = ob["grid_ids"]
    why = []
    for s in ob["slices"]:
        if s["err"]:
            continue
        a, i = s["axis"], s["idx"]
        try:
            if a == 2:
                exp = [o for row in g[i] for o in row]
            elif a == 0:
                exp = [row[i] for shape in g for row in shape]
            else:
                exp = [o for shape in g for o in shape[i]]
        except IndexError:
            exp = None
        got = None if s["ids"] is None else sorted(s["ids"])
        if (None if exp is None else sorted(exp)) != got:
            why.append("get_slice(%d, %d) returned operations %r, expected %r" % (a, i, got, exp))
    return why


PROP = C19()
