"""Fail-closed translator  Python `ast`  ->  Gallina  for numpy 3-vector code (shared component; users: C08, C18, C09, C17).

    tr = Translator({"classy_blocks.util.functions": "/repo/src/classy_blocks/util/functions.py", ...})
    tr.entry("classy_blocks.util.functions", "unit_vector", {"vect": "vec"})        # -> "src_unit_vector"
    tr.entry_method(module, "Point", "scale", {"ratio": "real", "origin": None}, attrs={"position": "vec"}, result="position")
    tr.entry_closure(module, "LineClamp", "__init__", "function", {...}, {"t": ["real"]}, passed_as="function")
    text = tr.source_text("...")                                                      # the text of coq/Gen/<ID>/Source.v

Every python function becomes ONE Gallina definition per *specialisation* (see `int`, `bool` below)

    Definition src_<name> (tol : R) (v_<param> : vec | R | bool) ... : option (R | vec | bool | list vec | list R)

built from the syntax tree of the WORKING TREE.  A scalar is a real number, a vector is a `Base/Vec3.v` triple
(`vadd vsub vscale vopp dot cross norm`).  `Some y` = "read in exact real arithmetic, the python call returns y";
`None` = "NO REAL-NUMBER READING": python raises, OR one of the guards below fails (numpy then carries on with
inf / nan and a RuntimeWarning; whatever it returns afterwards is not claimed).  Callees of the same run are translated
first, on demand; a call is `match src_callee tol args with None => None | Some t => ... end`.  Any syntax node, name,
attribute, call or type combination outside the fragment raises `core.GenError`; no statement is skipped silently (the
only statements without a translation: docstrings, the message of a `raise`, `warnings.warn(...)`).

THE READING (the trusted part; the sampled interval correspondence of the property validates it on every run):

  values        python float / numpy float64 -> R;  numpy array of 3 floats (or whatever `np.asarray` accepts as one)
                -> vec;  truth value -> bool;  `int` and `bool` LITERALS are static: they are propagated at translation
                time and a function called with one is specialised on it (`src_<name>__..._False_...`), which is also how
                the one self-call of `arc_from_origin(..., False)` is unrolled (re-entering the SAME specialisation =
                recursion = GenError);  a list is static as well (fixed length, known at translation time)
  number        float literal: the decimal number that is written (`1.001` is 1001/1000, not the nearest binary64 -
                part of reading floats as reals);  int literal next to a real: that integer
  + - *         R: field operations;  vec +- vec: vadd / vsub;  vec * R, R * vec: vscale;  - vec: vopp
                (vec * vec, vec + R, R / vec: GenError)
  a / b         R / R: `a / b`, vec / R: `vscale (/ b) a`, BOTH UNDER THE GUARD `b <> 0` (else `None`).  python floats
                raise ZeroDivisionError; numpy (array / 0.0, float64 / 0.0) returns inf or nan with a RuntimeWarning and
                carries on - e.g. `unit_vector` of the zero vector is [nan nan nan].  Neither denotes a real number, so
                both are read as `None`, and the equality lemmas carry the non-zero condition as a HYPOTHESIS
                (Coq's own total division, x / 0 = 0, is never relied upon).  A non-zero literal divisor has no guard.
  a ** k        k a static non-negative int: `a ^ k`;  k = 0.5: `sqrt a` under the guard `0 <= a` (numpy: nan; python
                float: a complex number);  other exponents: GenError
  abs, np.abs   Rabs;   max / min (two reals): Rmax / Rmin;   float(x): x
  np.pi         PI;   np.sin, np.cos: sin, cos;   np.tan x: `tan x` under the guard `cos x <> 0`
  np.sqrt x     `sqrt x` under the guard `0 <= x` (numpy: nan)
  np.arccos x   `acos x` under the guard `-1 <= x <= 1` (numpy: nan)
  np.clip(x, lo, hi)   `Rmin (Rmax x lo) hi` (= np.minimum(np.maximum(x, lo), hi)), scalars only
  np.asarray / np.array (optionally dtype=constants.DTYPE | float | np.float64)   identity on a vec / R / static list;
                of a list or tuple of three reals: that vec
  np.dot(a, b), a.dot(b)   dot (two vecs);   np.cross(a, b)   cross
  scipy.linalg.norm / np.linalg.norm   of a vec: `norm`;  of a real: `Rabs` (scipy returns abs(x) for a 0-d array)
  np.linspace(a, b, num=K)   K static: the static list  a + i * ((b - a) / (K-1)),  i = 0..K-1, last element b
  x[i], x[i:j]  constant indices, on a static list;  v[0|1|2] on a vec: vx / vy / vz
  [e for x in L]   L a static list: unrolled, in order
  < <= > >= == !=   on reals: `Rlt_dec`, `Rle_dec`, `Req_EM_T` (s_lt / s_le / s_eq);  chains;  and / or / not
  constants.TOL the parameter `tol : R` of every definition
  statements    x = e and x op= e (single name; re-binding allowed, parameters included), if / elif / else
                (continuations are duplicated into both branches, so a variable assigned in one branch is just what it
                is on that path; a static condition selects its branch at translation time), return e, raise (-> None),
                `warnings.warn(...)` (no value; a no-op unless warnings are turned into errors)
  parameters    plain positional, defaults only constants; keyword arguments by name
  not modelled  nan / inf propagation after a failed guard (see `None` above); exceptions inside numpy for wrong
                shapes / dtypes (inputs are assumed to be what the signature table says); ALIASING of arrays (x += e and
                self.a += e are read as re-binding the name / attribute to the new value)

EXTENSIONS (C18, C09, C17):
  None          `None` is static; `x is None` / `x is not None` is decided at translation time by the declared kind of x (an
                argument declared a vector is not None); a parameter declared None in the signature table gives a
                specialisation of its own (`origin=None`); defaults may be None
  3 x 3 arrays  np.array([[a, b, c], [d, e, f], [g, h, i]]) of reals: `s_mat`, the triple of its rows;  v.dot(M), np.dot(v, M):
                the row vector times the matrix (`s_vM`);  np.dot(M, v): `s_Mv`;  M.T: `s_MT`;  np.copy: identity
  methods       `entry_method(module, Class, method, sig, attrs, result)`: the method as called on an instance of EXACTLY that
                class; `self` is an object whose DECLARED attributes ({dotted name: kind}, e.g. {"position": "vec"},
                {"mesh.vertices": ("objects", "position")}) are parameters of the Gallina definition; any other attribute
                is a GenError.  `self.a = e`, `self.a op= e` (declared attribute, same kind) re-bind it; `return self` at
                the end of such a method returns the value of the attribute `result`.  `self.m(...)`: the `m` of the
                class body, else of its single base class (a class of a translated module; `tie_to_runtime` compares
                with `__bases__`); the callee may read, not assign, the attributes.  An (N, 3) array attribute may be
                declared "vec": the method is then read ROW-WISE (the caller's responsibility: numpy broadcasting)
  filter loops  `ACC = set()` ... `for X in LIST: if TEST: ACC.add(X)` with LIST a declared list of objects that are
                represented by one vec attribute ("objects", "position"): ACC becomes `s_filter (fun x => TEST) LIST`, the
                sub-list selected by TEST (None if TEST has no value for some element); nothing else may be in the loop
  closures      `entry_closure(module, Class, method, closure | "<lambda>", sig, closure_sig, passed_as)`: the nested `def`
                (or the lambda handed to `super().method(...)`) as a function of the method's parameters and its own
                (a sequence parameter of known length: ["real", "real"]): the statements of the method before it, then its
                body.  Checked: no later statement re-binds a name it reads; it is what `super().method(...)` (called
                exactly once, as a statement) receives for the parameter `passed_as` of the base class's method
  opaque calls  `Translator(..., opaque={dotted call: "vec" | "real" | ("fun", [kinds], kind)})`: a value the translation does
                not look into is an INPUT of the entry function: np.random.random(3) -> a fresh vec parameter per call;
                ("fun", ...) -> ONE parameter of function type (f.rotate: vec -> R -> vec -> vec -> vec), i.e. the callee
                is read as a total function of the values of its arguments.  Entry functions only

`tie_to_runtime()` checks that the functions the library calls ARE the parsed ones (same file, first line) and that the
import aliases (`np`, `f`, `constants`, ...) name the modules the translator assumed.
"""
import ast
import importlib
import os
from fractions import Fraction

from core import GenError

FRAGMENT = ("real scalars and Base/Vec3 vectors; + - * (vec+-vec, vec*real), guarded division (b <> 0, else None - numpy's inf/nan and "
            "python's ZeroDivisionError both read as 'no real value'), ** non-negative int, ** 0.5 and np.sqrt (guard 0 <= x), abs, max, "
            "min, float, np.pi, np.sin, np.cos, np.tan (guard cos x <> 0), np.arccos (guard -1 <= x <= 1), np.clip, np.asarray/np.array "
            "(identity), np.dot/.dot, np.cross, scipy.linalg.norm/np.linalg.norm (vec: norm, real: Rabs), np.linspace with static num, "
            "constant indexing/slicing and list comprehensions over static lists, comparisons and chains, and/or/not, constants.TOL, "
            "decimal reading of float literals, assignments and augmented assignments to one name, if/elif/else, return, raise (None), "
            "warnings.warn (no-op), calls of functions of the same run specialised on literal int/bool/None arguments (self-calls "
            "unrolled, recursion rejected), constant defaults; x is None decided by the declared kind of x; 3 x 3 array literals "
            "(rows), v.dot(M) / np.dot(v, M) / np.dot(M, v) / M.T, np.copy (identity); methods on an object whose declared "
            "attributes are inputs (self.a = e re-binds, return self = the declared result attribute, self.m() through single "
            "inheritance); the filter loop `acc = set(); for x in l: if TEST: acc.add(x)` (sub-list selected by TEST); closures of "
            "a constructor (statements before the def / lambda, then its body; free variables not re-bound later; passed to "
            "super().__init__); declared opaque calls as inputs (np.random.random(3): a vector; f.rotate: a function)")

PRELUDE = r"""From Coq Require Import Reals List Bool.
From CB Require Import Base.Vec3.
Import ListNotations.
Open Scope R_scope.

(* the translator's reading of the python / numpy primitives (see harness/translate_np.py) *)
Definition s_lt (a b : R) : bool := if Rlt_dec a b then true else false.
Definition s_le (a b : R) : bool := if Rle_dec a b then true else false.
Definition s_eq (a b : R) : bool := if Req_EM_T a b then true else false.
Definition s_clip (x lo hi : R) : R := Rmin (Rmax x lo) hi.
(* a 3 x 3 array: its rows;  v . M  (np.dot(v, M), v.dot(M)),  M . v,  M.T *)
Definition s_mat : Type := (vec * vec * vec)%type.
Definition s_vM (v : vec) (m : s_mat) : vec :=
  let '(r0, r1, r2) := m in
  (vx v * vx r0 + vy v * vx r1 + vz v * vx r2, vx v * vy r0 + vy v * vy r1 + vz v * vy r2, vx v * vz r0 + vy v * vz r1 + vz v * vz r2).
Definition s_Mv (m : s_mat) (v : vec) : vec := let '(r0, r1, r2) := m in (dot r0 v, dot r1 v, dot r2 v).
Definition s_MT (m : s_mat) : s_mat :=
  let '(r0, r1, r2) := m in ((vx r0, vx r1, vx r2), (vy r0, vy r1, vy r2), (vz r0, vz r1, vz r2)).
(* `acc = set(); for x in l: if test(x): acc.add(x)`: the sub-list of l selected by the test (no value if the test has none) *)
Fixpoint s_filter {A : Type} (f : A -> option bool) (l : list A) : option (list A) :=
  match l with
  | [] => Some []
  | x :: r => match f x with
              | None => None
              | Some b => match s_filter f r with None => None | Some r' => Some (if b then x :: r' else r') end
              end
  end.
"""

PRIMS_UNFOLD = "s_lt s_le s_eq negb andb orb nth s_vM s_Mv s_MT"

NUMPY_SCALAR_FUNS = {"sin": "sin", "cos": "cos"}
TYNAMES = {"vec": "V", "real": "R", "bool": "B", "mat": "M"}
COQTY = {"V": "vec", "R": "R", "B": "bool", "M": "s_mat", "LD": "(list vec)"}
KINDS = {"V": "vector", "B": "truth value", "L": "list", "M": "3 x 3 array", "N": "None", "O": "object", "S": "set",
         "LD": "list of objects"}


def _err(node, msg, mod=None):
    ln = getattr(node, "lineno", "?")
    raise GenError("%s line %s: %s" % (mod or "<source>", ln, msg))


class Ex:
    """a translated expression: Gallina text, type ('R' real | 'V' vec | 'M' 3 x 3 array | 'B' bool | 'I' static int |
    'L' static list | 'N' None | 'O' object: static dict(cls=(module, class) | None, attrs={dotted attribute: Ex}, mutable) |
    'LD' list of objects that are represented by their one vec attribute: static = that attribute's name | 'S' set under
    construction), evaluation prelude (guards / binds / lets, in evaluation order), static value"""
    __slots__ = ("text", "ty", "pre", "static")

    def __init__(self, text, ty, pre=None, static=None):
        self.text, self.ty, self.pre, self.static = text, ty, list(pre or []), static

    def is_static(self):
        return (self.static is not None and self.ty in ("I", "B")) or self.ty == "N"


def obj(cls, attrs, mutable=False):
    return Ex(None, "O", static=dict(cls=cls, attrs=dict(attrs), mutable=mutable))


def flat_name(s):
    return s.replace(".", "_")


def lit_R(fr):
    fr = Fraction(fr)
    if fr.denominator == 1:
        n = fr.numerator
        return "%d" % n if n >= 0 else "(- %d)" % (-n)
    n = fr.numerator
    if n == 1:
        return "(/ %d)" % fr.denominator
    return "(%s / %d)" % ("%d" % n if n >= 0 else "(- %d)" % (-n), fr.denominator)


def wrap(pre, body, ind):
    pad = " " * ind
    for item in reversed(pre):
        if item[0] == "guard":
            body = "if %s then\n%s%s\n%selse None" % (item[1], pad, body, pad)
        elif item[0] == "let":
            body = "let %s := %s in\n%s%s" % (item[1], item[2], pad, body)
        else:
            body = "match %s with None => None | Some %s =>\n%s%s\n%send" % (item[2], item[1], pad, body, pad)
    return body


class Module:
    def __init__(self, name, path):
        self.name, self.path = name, path
        self.short = os.path.basename(path)
        try:
            with open(path) as f:
                src = f.read()
        except OSError as e:
            raise GenError("cannot read %s: %s" % (path, e))
        try:
            self.tree = ast.parse(src)
        except SyntaxError as e:
            raise GenError("%s does not parse: %s" % (path, e))
        self.imports = {}   # bound name -> dotted target
        self.imported = set()  # every dotted module named by an `import a.b.c`
        self.funcs = {}
        self.other = {}     # module-level names bound by something else (class, assignment): not translatable
        self.classes = {}   # class name -> ClassDef (methods are translated through Translator.entry_method only)
        for node in self.tree.body:
            if isinstance(node, ast.Import):
                for a in node.names:
                    self.imported.add(a.name)
                    if a.asname:
                        self._bind(a.asname, ("import", a.name), node)
                    else:
                        head = a.name.split(".")[0]
                        if self.imports.get(head) != head:
                            self._bind(head, ("import", head), node)
            elif isinstance(node, ast.ImportFrom):
                if node.level:
                    _err(node, "relative import", self.short)
                for a in node.names:
                    self._bind(a.asname or a.name, ("import", "%s.%s" % (node.module, a.name)), node)
            elif isinstance(node, ast.FunctionDef):
                self._bind(node.name, ("def", node), node)
            elif isinstance(node, ast.ClassDef):
                self._bind(node.name, ("other", node), node)
                self.classes[node.name] = node
            elif isinstance(node, (ast.Assign, ast.AnnAssign, ast.AugAssign)):
                for n in ast.walk(node):
                    if isinstance(n, ast.Name) and isinstance(n.ctx, ast.Store):
                        self._bind(n.id, ("other", node), node)
            elif isinstance(node, ast.Expr) and isinstance(node.value, ast.Constant) and isinstance(node.value.value, str):
                continue
            else:
                # anything else at module level (if / try / for / with / del ...) could rebind a name we rely on
                _err(node, "module-level statement %s is outside the fragment" % type(node).__name__, self.short)

    def _bind(self, name, what, node):
        if name in self.imports or name in self.funcs or name in self.other:
            _err(node, "module-level name %r is bound twice" % name, self.short)
        if what[0] == "import":
            self.imports[name] = what[1]
        elif what[0] == "def":
            self.funcs[name] = what[1]
        else:
            self.other[name] = what[1]


class Fn:
    def __init__(self, mod, node, key, coq):
        self.mod, self.node, self.key, self.coq = mod, node, key, coq
        self.rty = None
        self.fresh = 0
        self.extra = []        # binders of opaque inputs (np.random.random(3), f.rotate ...): [(coq name, Gallina type)]
        self.mutates = False   # assigns an attribute of an object parameter
        self.result_attr = None  # `return self` returns this attribute of self (entry methods only)
        self.rt = (mod.name, node.name, node.lineno)  # run-time tie: module, qualified name, first line

    def new(self, stem="t"):
        self.fresh += 1
        return "%s%d" % (stem, self.fresh)


class Translator:
    def __init__(self, modules, constants_module="classy_blocks.util.constants", opaque=None):
        """modules: {dotted module name: path of its source file};
        opaque: {dotted call: "vec" | "real"} - calls whose value is an INPUT of the translated entry function (an extra
        parameter of the Gallina definition), e.g. {"numpy.random.random": "vec"} for `np.random.random(3)`"""
        self.modules = {name: Module(name, path) for name, path in modules.items()}
        self.constants_module = constants_module
        self.opaque = dict(opaque or {})
        self.bases_used = set()  # (module, class, base module, base class): single inheritance walked for a method
        self.declared = {}   # key -> coq name (entry points)
        self.done = {}       # key -> (coq name, rty, [dynamic param names], Fn)
        self.stack = []
        self.out = []        # Gallina definitions in dependency order
        self.names = []      # coq names in order
        self.summary = []    # (module, python name, coq name, params text, return type, line)
        self.aliases_used = set()  # (module name, alias, dotted target)
        self.uses_tol = False

    # ------------------------------------------------------------------------------------------ entry points
    def entry(self, module, fname, sig, coq=None):
        """translate `module.fname` with parameters typed by `sig` ({"name": "vec" | "real" | "bool" | <int/bool literal>});
        -> the Gallina name (`src_<fname>` unless given)"""
        mod = self.modules.get(module)
        if mod is None:
            raise GenError("module %s is not among the translated modules" % module)
        node = mod.funcs.get(fname)
        if node is None:
            raise GenError("%s has no top-level function %s" % (mod.path, fname))
        names, _defaults = self.check_signature(mod, node)
        args = self.typed_args(module, fname, names, sig)
        return self.declare(mod, fname, args, node, coq or "src_" + fname)

    def typed_args(self, module, fname, names, sig, selfarg=None):
        """the arguments of an entry point, from the signature table"""
        names = list(names)
        args = []
        if selfarg is not None:
            if not names:
                raise GenError("%s.%s has no self parameter" % (module, fname))
            args.append(selfarg)
            names = names[1:]
        if sorted(names) != sorted(sig):
            raise GenError("%s.%s has parameters %r, the signature table says %r" % (module, fname, names, sorted(sig)))
        for p in names:
            args.append(self.typed_value("v_" + p, sig[p], "%s.%s" % (fname, p)))
        return args

    def typed_value(self, name, t, what):
        if t is None:
            return Ex(None, "N", static=True)
        if isinstance(t, bool):
            return Ex(None, "B", static=t)
        if isinstance(t, int):
            return Ex(None, "I", static=t)
        if isinstance(t, list) and t and all(x == "real" for x in t):  # a sequence of numbers of known length (params of a clamp)
            return Ex(None, "L", static=[Ex("%s_%d" % (name, i), "R") for i in range(len(t))])
        if isinstance(t, tuple) and len(t) == 2 and t[0] == "objects":  # a list of objects represented by their one vec attribute
            return Ex(name, "LD", static=t[1])
        if isinstance(t, str) and t in TYNAMES:
            return Ex(name, TYNAMES[t])
        raise GenError("signature table: unknown type %r for %s" % (t, what))

    def declare(self, mod, fname, args, node, coq):
        key = self.key_of(mod, fname, args)
        if key in self.declared and self.declared[key] != coq:
            raise GenError("%s.%s declared twice" % (mod.name, fname))
        self.declared[key] = coq
        return self.function(mod, fname, args, node, node=node)[0]

    # -- methods of classes: `self` is an object whose declared attributes are the inputs
    def find_method(self, mod, cls, meth, at=None):
        """the function `meth` an instance of exactly `cls` (of module `mod`) would call: the class body, else its single
        base class (which must be a class of a translated module), and so on -> (module, class name, FunctionDef)"""
        seen = set()
        while True:
            cnode = mod.classes.get(cls)
            if cnode is None or (mod.name, cls) in seen:
                raise GenError("%s has no class %s" % (mod.path, cls))
            seen.add((mod.name, cls))
            if cnode.decorator_list or cnode.keywords:
                _err(cnode, "class %s is decorated / has a metaclass" % cls, mod.short)
            found, bound = [], False
            for st in cnode.body:
                if isinstance(st, ast.FunctionDef) and st.name == meth:
                    found.append(st)
                elif not isinstance(st, (ast.FunctionDef, ast.AsyncFunctionDef)):
                    for x in ast.walk(st):
                        if isinstance(x, ast.Name) and isinstance(x.ctx, ast.Store) and x.id == meth:
                            bound = True
                elif st.name == meth:
                    bound = True
            if len(found) > 1 or (found and bound) or (bound and not found):
                _err(cnode, "class %s binds %s more than once / not by a plain def" % (cls, meth), mod.short)
            if found:
                return mod, cls, found[0]
            if len(cnode.bases) != 1:
                _err(cnode, "class %s has no method %s and not exactly one base class" % (cls, meth), mod.short)
            b = cnode.bases[0]
            if isinstance(b, ast.Name) and b.id in mod.classes:
                nxt = (mod, b.id)
            else:
                d = self.dotted(b, mod, {})
                m2, _, c2 = (d or "").rpartition(".")
                if m2 not in self.modules:
                    _err(cnode, "class %s has no method %s; its base `%s` is outside the translated modules" % (cls, meth, ast.unparse(b)), mod.short)
                nxt = (self.modules[m2], c2)
            self.bases_used.add((mod.name, cls, nxt[0].name, nxt[1]))
            mod, cls = nxt

    def self_object(self, module, cls, attrs, mutable):
        a = {}
        for k, t in (attrs or {}).items():
            e = self.typed_value("v_self_" + flat_name(k), t, "%s.self.%s" % (cls, k))
            if e.ty not in ("R", "V", "B", "M", "LD"):
                raise GenError("attribute %s.%s: type %r is not in the fragment" % (cls, k, t))
            a[k] = e
        return obj((module, cls), a, mutable)

    def entry_method(self, module, cls, meth, sig, attrs=None, result=None, coq=None):
        """translate the method `meth` as called on an instance of exactly `cls` whose attributes `attrs` ({dotted name:
        type}) are inputs.  `result`: the attribute whose value on return is the value of a method that ends with
        `return self` (Point.translate ...: the new position)."""
        mod = self.modules.get(module)
        if mod is None:
            raise GenError("module %s is not among the translated modules" % module)
        mod2, cls2, node = self.find_method(mod, cls, meth)
        names, _d = self.check_signature(mod2, node)
        if result is not None and result not in (attrs or {}):
            raise GenError("%s.%s: the result attribute %r is not declared" % (cls, meth, result))
        selfarg = self.self_object(module, cls, attrs, True)
        args = self.typed_args(module, "%s.%s" % (cls, meth), names, sig, selfarg)
        self._result_for = result
        try:
            return self.declare(mod2, "%s.%s" % (cls2, meth), args, node, coq or "src_%s_%s" % (cls, meth))
        finally:
            self._result_for = None

    def entry_closure(self, module, cls, meth, closure, sig, closure_sig, passed_as=None, coq=None):
        """translate the nested function `closure` of `cls.meth` - a top-level `def` of the method body, or (closure =
        "<lambda>") the lambda expression handed to `super().<meth>(...)` - as a function of the method's parameters and
        its own: the statements of the method BEFORE the def (before the super() call), then the body of the def.
        Checked: no statement after it re-binds a name the closure reads (python closures see later assignments), and -
        `passed_as` = (parameter name of the base class's method of the same name) - the closure is what
        `super().<meth>(...)`, called exactly once as a statement of its own, receives for that parameter."""
        mod = self.modules.get(module)
        if mod is None:
            raise GenError("module %s is not among the translated modules" % module)
        mod2, cls2, node = self.find_method(mod, cls, meth)
        if (mod2, cls2) != (mod, cls):
            raise GenError("%s.%s is inherited" % (cls, meth))
        body = list(node.body)
        got, kcall = None, None
        if passed_as is not None:
            cnode = mod.classes[cls]
            if len(cnode.bases) != 1:
                _err(cnode, "class %s has not exactly one base class" % cls, mod.short)
            b = cnode.bases[0]
            if isinstance(b, ast.Name) and b.id in mod.classes:
                bm, bc = mod, b.id
            else:
                d = self.dotted(b, mod, {})
                m2, _, bc = (d or "").rpartition(".")
                if m2 not in self.modules:
                    _err(cnode, "the base `%s` of %s is outside the translated modules" % (ast.unparse(b), cls), mod.short)
                bm = self.modules[m2]
            self.bases_used.add((mod.name, cls, bm.name, bc))
            bmod, bcls, bnode = self.find_method(bm, bc, meth)
            bnames = [a.arg for a in bnode.args.args][1:]
            if passed_as not in bnames or bnode.args.vararg or bnode.args.kwarg or bnode.args.posonlyargs:
                _err(bnode, "%s.%s has no plain parameter %r" % (bcls, meth, passed_as), bmod.short)
            pos = bnames.index(passed_as)
            calls = []
            for k, st in enumerate(body):
                for x in ast.walk(st):
                    if isinstance(x, ast.Call) and isinstance(x.func, ast.Attribute) and x.func.attr == meth \
                            and isinstance(x.func.value, ast.Call) and isinstance(x.func.value.func, ast.Name) \
                            and x.func.value.func.id == "super" and not x.func.value.args and not x.func.value.keywords:
                        calls.append((k, st, x))
            if len(calls) != 1 or not isinstance(calls[0][1], ast.Expr) or calls[0][1].value is not calls[0][2]:
                _err(node, "%s.%s does not call super().%s(...) exactly once, as a statement of its own" % (cls, meth, meth), mod.short)
            kcall, _st, c = calls[0]
            if any(isinstance(a, ast.Starred) for a in c.args) or any(k.arg is None for k in c.keywords):
                _err(c, "starred arguments in super().%s(...)" % meth, mod.short)
            got = c.args[pos] if pos < len(c.args) else next((k.value for k in c.keywords if k.arg == passed_as), None)
        if closure == "<lambda>":
            if not isinstance(got, ast.Lambda):
                _err(node, "super().%s(...) does not receive a lambda expression as %r" % (meth, passed_as), mod.short)
            ca = got.args
            cbody = [ast.copy_location(ast.Return(value=got.body), got)]
            prefix, suffix = body[:kcall], body[kcall + 1:]
            where = got
        else:
            idx = [i for i, st in enumerate(body) if isinstance(st, ast.FunctionDef) and st.name == closure]
            if len(idx) != 1:
                _err(node, "%s.%s does not define %s exactly once at the top level of its body" % (cls, meth, closure), mod.short)
            cdef = body[idx[0]]
            if cdef.decorator_list:
                _err(cdef, "the closure %s is decorated" % closure, mod.short)
            ca, cbody, where = cdef.args, list(cdef.body), cdef
            prefix, suffix = body[:idx[0]], body[idx[0] + 1:]
            if passed_as is not None and not (kcall > idx[0] and isinstance(got, ast.Name) and got.id == closure):
                _err(node, "super().%s(...) does not receive the closure %s as %r (after its definition)" % (meth, closure, passed_as), mod.short)
        if ca.posonlyargs or ca.kwonlyargs or ca.vararg or ca.kwarg or ca.defaults or ca.kw_defaults:
            _err(where, "the closure %s has other than plain parameters" % closure, mod.short)
        cnames = [a.arg for a in ca.args]
        reads = {x.id for st in cbody for x in ast.walk(st) if isinstance(x, ast.Name)} - set(cnames)
        bound = reads | ({closure} if closure != "<lambda>" else set())
        for st in suffix:
            for x in ast.walk(st):
                if isinstance(x, ast.Name) and isinstance(x.ctx, (ast.Store, ast.Del)) and x.id in bound:
                    _err(x, "%r, which the closure %s reads, is re-bound after its definition" % (x.id, closure), mod.short)
                if isinstance(x, (ast.Global, ast.Nonlocal)):
                    _err(x, "global / nonlocal after the closure", mod.short)
                if isinstance(x, (ast.FunctionDef, ast.ClassDef)) and x.name in bound:
                    _err(x, "%r is re-bound after the definition of the closure" % x.name, mod.short)
        if closure != "<lambda>":
            for st in prefix:
                for x in ast.walk(st):
                    if isinstance(x, ast.Name) and x.id == closure:
                        _err(x, "%r is used before the closure is defined" % closure, mod.short)
        syn = ast.FunctionDef(name=node.name, args=ast.arguments(posonlyargs=[], args=list(node.args.args) + list(ca.args), vararg=node.args.vararg,
                                                             kwonlyargs=list(node.args.kwonlyargs), kw_defaults=list(node.args.kw_defaults),
                                                             kwarg=node.args.kwarg, defaults=[]),
                              body=list(prefix) + cbody, decorator_list=list(node.decorator_list), returns=None, type_comment=None)
        ast.copy_location(syn, node)
        names, _d = self.check_signature(mod, syn)
        full = dict(sig)
        for k, v in closure_sig.items():
            if k in full:
                raise GenError("closure parameter %r shadows a parameter of %s.%s" % (k, cls, meth))
            full[k] = v
        selfarg = self.self_object(module, cls, {}, False)
        cname = "lambda" if closure == "<lambda>" else closure
        qual = "%s.%s.%s" % (cls, meth, cname)
        args = self.typed_args(module, qual, names, full, selfarg)
        name = self.declare(mod, qual, args, syn, coq or "src_%s_%s" % (cls, cname))
        key = self.key_of(mod, qual, args)
        self.done[key][3].rt = (mod.name, "%s.%s" % (cls, meth), node.lineno)
        return name

    def key_of(self, mod, fname, args):
        ks = []
        for a in args:
            if a.ty in ("I", "B") and a.static is not None:
                ks.append((a.ty, a.static))
            elif a.ty == "N":
                ks.append(("N", None))
            elif a.ty in ("R", "V", "B", "M"):
                ks.append(a.ty)
            elif a.ty == "LD":
                ks.append(("LD", a.static))
            elif a.ty == "O":
                ks.append(("O", a.static["cls"], tuple(sorted((k, e.ty) for k, e in a.static["attrs"].items()))))
            elif a.ty == "L" and a.static and all(x.ty == "R" and x.text for x in a.static):
                ks.append(("L", len(a.static)))
            elif a.ty == "I":
                raise GenError("int-valued argument that is not static")
            else:
                raise GenError("%s.%s is called with a %s argument" % (mod.name, fname, KINDS.get(a.ty, a.ty)))
        return (mod.name, fname, tuple(ks))

    def check_signature(self, mod, node):
        a = node.args
        if a.posonlyargs or a.kwonlyargs or a.vararg or a.kwarg or a.kw_defaults:
            _err(node, "function %s: only plain positional parameters (with constant defaults) are in the fragment" % node.name, mod.short)
        if node.decorator_list:
            _err(node, "function %s is decorated" % node.name, mod.short)
        names = [x.arg for x in a.args]
        if len(set(names)) != len(names):
            _err(node, "function %s: duplicate parameter" % node.name, mod.short)
        defaults = {}
        for p, d in zip(names[len(names) - len(a.defaults):], a.defaults):
            if not (isinstance(d, ast.Constant) and (d.value is None or isinstance(d.value, (bool, int, float)))):
                _err(d, "default of %s.%s is not a number / truth value literal / None" % (node.name, p), mod.short)
            defaults[p] = d
        for n in ast.walk(node):
            if isinstance(n, (ast.Global, ast.Nonlocal, ast.Yield, ast.YieldFrom, ast.Await, ast.Lambda, ast.NamedExpr)):
                _err(n, "%s in function %s" % (type(n).__name__, node.name), mod.short)
            if isinstance(n, (ast.FunctionDef, ast.ClassDef, ast.AsyncFunctionDef)) and n is not node:
                _err(n, "nested definition in function %s" % node.name, mod.short)
        return names, defaults

    @staticmethod
    def dyn_of(args):
        """the Gallina arguments of a call: the non-static arguments; an object stands for its declared attributes (in the
        order of declaration), a sequence of numbers for its elements"""
        out = []
        for a in args:
            if a.is_static():
                continue
            if a.ty == "O":
                out += list(a.static["attrs"].values())
            elif a.ty == "L":
                out += list(a.static)
            else:
                out.append(a)
        return out

    def function(self, mod, fname, args, at, node=None):
        """-> (coq name, return type, dynamic argument Exs) of the specialisation of mod.fname for these arguments"""
        key = self.key_of(mod, fname, args)
        dyn = self.dyn_of(args)
        if key in self.done:
            coq, rty, fn0 = self.done[key][0], self.done[key][1], self.done[key][3]
            if self.stack and (fn0.extra or fn0.mutates):
                _err(at, "%s takes opaque inputs / assigns attributes of its object: it cannot be called from translated code" % fname, mod.short)
            return coq, rty, dyn
        if key in self.stack:
            _err(at, "recursion: %s.%s calls itself with the same kinds of arguments" % (mod.name, fname), mod.short)
        if node is None:
            node = mod.funcs[fname]
        names, _d = self.check_signature(mod, node)
        if key in self.declared:
            coq = self.declared[key]
        else:
            def part(k):
                if isinstance(k, str):
                    return k.lower()
                return {"N": "None", "LD": "ld", "O": "o"}.get(k[0]) or ("l%d" % k[1] if k[0] == "L" else str(k[1]))
            coq = "src_%s__%s" % (flat_name(fname), "_".join(part(k) for k in key[2]))
        if coq in self.names or any(coq == self.declared[k] and k != key for k in self.declared):
            _err(at, "two specialisations would both be called %s" % coq, mod.short)
        fn = Fn(mod, node, key, coq)
        fn.rt = (mod.name, fname, node.lineno)
        if not self.stack:
            fn.result_attr = getattr(self, "_result_for", None)
        env = {}
        binders, special = [], []
        for p, a in zip(names, args):
            if a.is_static():
                env[p] = Ex(None, a.ty, static=a.static)
                special.append("%s=%r" % (p, None if a.ty == "N" else a.static))
            elif a.ty == "O":
                attrs = {}
                for k, e in a.static["attrs"].items():
                    v = "v_%s_%s" % (p, flat_name(k))
                    attrs[k] = Ex(v, e.ty, static=e.static)
                    binders.append("(%s : %s)" % (v, COQTY[e.ty]))
                env[p] = obj(a.static["cls"], attrs, a.static["mutable"])
            elif a.ty == "L":
                elems = []
                for i, e in enumerate(a.static):
                    v = "v_%s_%d" % (p, i)
                    elems.append(Ex(v, e.ty))
                    binders.append("(%s : %s)" % (v, COQTY[e.ty]))
                env[p] = Ex(None, "L", static=elems)
            else:
                env[p] = Ex("v_" + p, a.ty, static=a.static if a.ty == "LD" else None)
                binders.append("(v_%s : %s)" % (p, COQTY[a.ty]))
        self.stack.append(key)
        try:
            body = self.block(list(node.body), env, fn, 2)
        finally:
            self.stack.pop()
        if fn.rty is None:
            _err(node, "function %s never returns a value" % fname, mod.short)
        if self.stack and (fn.extra or fn.mutates):
            _err(at, "%s takes opaque inputs / assigns attributes of its object: it cannot be called from translated code" % fname, mod.short)
        for (v, t) in fn.extra:
            binders.append("(%s : %s)" % (v, t))
        rtxt = self.rty_text(fn.rty)
        note = (" [specialised: %s]" % ", ".join(special)) if special else ""
        if fn.extra:
            note += " [opaque inputs: %s]" % ", ".join(v for v, _t in fn.extra)
        self.out.append("(* %s.%s, line %d%s *)\nDefinition %s (tol : R) %s : option %s :=\n  %s.\n" % (
            mod.name, fname, node.lineno, note, coq, " ".join(binders), rtxt, body))
        self.names.append(coq)
        self.done[key] = (coq, fn.rty, [p for p, a in zip(names, args) if not a.is_static()], fn)
        self.summary.append(dict(module=mod.name, function=fname, coq=coq, line=node.lineno, specialised=special,
                                 params=" ".join(binders), returns=rtxt))
        return coq, fn.rty, dyn

    def rty_text(self, rty):
        if rty[0] == "L":
            return "(list %s)" % COQTY[rty[2]]
        if rty[0] not in COQTY:
            raise GenError("a %s is returned" % KINDS.get(rty[0], rty[0]))
        return COQTY[rty[0]]

    # ------------------------------------------------------------------------------------------ statements
    def terminates(self, stmts):
        if not stmts:
            return False
        s = stmts[-1]
        if isinstance(s, (ast.Return, ast.Raise)):
            return True
        if isinstance(s, ast.If):
            return self.terminates(s.body) and self.terminates(s.orelse)
        return False

    def block(self, stmts, env, fn, ind):
        mod = fn.mod
        pad = " " * ind
        if not stmts:
            _err(fn.node, "%s can fall off its end (returns None)" % fn.node.name, mod.short)
        s, rest = stmts[0], stmts[1:]
        if isinstance(s, ast.Expr):
            v = s.value
            if isinstance(v, ast.Constant) and isinstance(v.value, str):
                return self.block(rest, env, fn, ind)  # docstring
            if isinstance(v, ast.Call) and self.dotted(v.func, mod, env) == "warnings.warn":
                return self.block(rest, env, fn, ind)  # no value
            _err(s, "expression statement `%s` is outside the fragment" % ast.unparse(v)[:80], mod.short)
        if isinstance(s, ast.AugAssign):
            if isinstance(s.target, ast.Name):
                load = ast.copy_location(ast.Name(id=s.target.id, ctx=ast.Load()), s)
            elif isinstance(s.target, ast.Attribute):
                load = ast.copy_location(ast.Attribute(value=s.target.value, attr=s.target.attr, ctx=ast.Load()), s)
            else:
                _err(s, "augmented assignment to something other than one name / attribute", mod.short)
            s = ast.copy_location(ast.Assign(targets=[s.target], value=ast.copy_location(
                ast.BinOp(left=load, op=s.op, right=s.value), s)), s)
        if isinstance(s, ast.AnnAssign):
            if s.value is None or not isinstance(s.target, ast.Name) or not s.simple:
                _err(s, "annotated assignment outside the fragment", mod.short)
            s = ast.copy_location(ast.Assign(targets=[s.target], value=s.value), s)
        if isinstance(s, ast.Assign) and len(s.targets) == 1 and isinstance(s.targets[0], ast.Attribute):
            # self.attr = e: the declared attribute of a mutable object parameter takes a new value (of the same type)
            base, key = self.obj_attr(s.targets[0], env)
            if base is None:
                _err(s, "assignment to `%s`, which is not a declared attribute of an object parameter" % ast.unparse(s.targets[0])[:60], mod.short)
            o = env[base]
            if not o.static["mutable"] or key not in o.static["attrs"]:
                _err(s, "assignment to `%s`: not a declared attribute of the object the method is called on" % ast.unparse(s.targets[0])[:60], mod.short)
            old = o.static["attrs"][key]
            e = self.expr(s.value, env, fn)
            if e.ty != old.ty or e.ty not in ("R", "V", "M", "B") or e.is_static():
                _err(s, "`%s` changes its type (%s -> %s)" % (ast.unparse(s.targets[0])[:60], old.ty, e.ty), mod.short)
            var = "v_%s_%s_%s" % (base, flat_name(key), fn.new("n"))
            attrs = dict(o.static["attrs"])
            attrs[key] = Ex(var, e.ty)
            env2 = dict(env)
            env2[base] = obj(o.static["cls"], attrs, True)
            fn.mutates = True
            return wrap(list(e.pre) + [("let", var, e.text)], self.block(rest, env2, fn, ind), ind)
        if isinstance(s, ast.Assign):
            if len(s.targets) != 1 or not isinstance(s.targets[0], ast.Name):
                _err(s, "assignment to something other than one name", mod.short)
            name = s.targets[0].id
            if name in mod.funcs or name in mod.imports or name in mod.other:
                _err(s, "assignment shadows the module-level name %r" % name, mod.short)
            e = self.expr(s.value, env, fn)
            env2 = dict(env)
            pre = list(e.pre)
            if e.is_static():
                env2[name] = Ex(None, e.ty, static=e.static)
            elif e.ty == "L":
                elems = []
                for i, x in enumerate(e.static):
                    if x.ty not in ("R", "V"):
                        _err(s, "a nested list is stored in a variable", mod.short)
                    var = "v_%s_%d" % (name, i)
                    pre.append(("let", var, x.text))
                    elems.append(Ex(var, x.ty))
                env2[name] = Ex(None, "L", static=elems)
            elif e.ty == "I":
                _err(s, "an int that is not a literal is stored in a variable", mod.short)
            elif e.ty == "S":
                env2[name] = Ex(None, "S", static=e.static)
            elif e.ty == "O":
                _err(s, "an object is stored in a variable (aliasing)", mod.short)
            elif e.ty == "LD":
                pre.append(("let", "v_" + name, e.text))
                env2[name] = Ex("v_" + name, "LD", static=e.static)
            else:
                pre.append(("let", "v_" + name, e.text))
                env2[name] = Ex("v_" + name, e.ty)  # (a variable is never a literal divisor: its guard is proved instead)
            return wrap(pre, self.block(rest, env2, fn, ind), ind)
        if isinstance(s, ast.Return):
            if rest:
                _err(rest[0], "statement after return", mod.short)
            if s.value is None:
                _err(s, "bare return", mod.short)
            e = self.expr(s.value, env, fn)
            if e.ty == "O":
                # `return self` at the end of a method that updates its object: the value of the declared result attribute
                if not (fn.result_attr and isinstance(s.value, ast.Name) and e.static["mutable"] and fn.result_attr in e.static["attrs"]):
                    _err(s, "an object is returned", mod.short)
                r = e.static["attrs"][fn.result_attr]
                e = Ex(r.text, r.ty, e.pre)
            if e.ty == "I":
                e = Ex(lit_R(e.static), "R", e.pre)
            if e.ty == "B" and e.is_static():
                e = Ex("true" if e.static else "false", "B", e.pre)
            if e.ty in ("N", "S"):
                _err(s, "%s is returned" % KINDS[e.ty], mod.short)
            if e.ty == "L":
                tys = {x.ty for x in e.static}
                if len(tys) != 1 or not tys <= {"R", "V"}:
                    _err(s, "returned list is empty or mixes types", mod.short)
                rty = ("L", len(e.static), tys.pop())
                txt = "[%s]" % "; ".join(x.text for x in e.static)
            else:
                rty = (e.ty,) if e.ty != "LD" else ("LD", e.static)
                txt = e.text
            if fn.rty is None:
                fn.rty = rty
            elif fn.rty != rty:
                _err(s, "%s returns values of different types (%r / %r)" % (fn.node.name, fn.rty, rty), mod.short)
            return wrap(e.pre, "Some %s" % txt, ind)
        if isinstance(s, ast.Raise):
            if rest:
                _err(rest[0], "statement after raise", mod.short)
            return "None"
        if isinstance(s, ast.If):
            c = self.expr(s.test, env, fn)
            if c.ty != "B":
                _err(s, "the condition of `if` is not a truth value (truthiness of numbers / arrays is outside the fragment)", mod.short)
            if self.terminates(s.body) and self.terminates(s.orelse) and rest:
                _err(rest[0], "unreachable statement", mod.short)
            if c.is_static():
                branch = s.body if c.static else s.orelse
                return wrap(c.pre, self.block(list(branch) + ([] if self.terminates(branch) else rest), env, fn, ind), ind)
            a = self.block(list(s.body) + ([] if self.terminates(s.body) else rest), env, fn, ind + 2)
            b = self.block(list(s.orelse) + ([] if self.terminates(s.orelse) else rest), env, fn, ind + 2)
            body = "if %s then\n%s  %s\n%selse\n%s  %s" % (c.text, pad, a, pad, pad, b)
            return wrap(c.pre, body, ind)
        if isinstance(s, ast.Pass):
            return self.block(rest, env, fn, ind)
        if isinstance(s, ast.For):
            return self.filter_loop(s, rest, env, fn, ind)
        _err(s, "statement %s is outside the fragment" % type(s).__name__, mod.short)

    def filter_loop(self, s, rest, env, fn, ind):
        """ACC = set() ... `for X in LIST: if TEST: ACC.add(X)`: afterwards ACC is the sub-list of LIST selected by TEST
        (a python set read as the list of its members in the order of LIST, as the models of the finders do)"""
        mod = fn.mod
        if s.orelse or getattr(s, "type_comment", None) or not isinstance(s.target, ast.Name):
            _err(s, "`for` with else / a pattern target", mod.short)
        x = s.target.id
        if x in env or x in mod.funcs or x in mod.imports or x in mod.other:
            _err(s, "the loop variable %r shadows another name" % x, mod.short)
        it = self.expr(s.iter, env, fn)
        if it.ty != "LD":
            _err(s, "`for` over something that is not a declared list of objects", mod.short)
        ok = (len(s.body) == 1 and isinstance(s.body[0], ast.If) and not s.body[0].orelse and len(s.body[0].body) == 1
              and isinstance(s.body[0].body[0], ast.Expr) and isinstance(s.body[0].body[0].value, ast.Call))
        if ok:
            c = s.body[0].body[0].value
            ok = (isinstance(c.func, ast.Attribute) and c.func.attr == "add" and isinstance(c.func.value, ast.Name)
                  and len(c.args) == 1 and not c.keywords and isinstance(c.args[0], ast.Name) and c.args[0].id == x)
        if not ok:
            _err(s, "the body of `for` is not `if TEST: ACC.add(%s)`" % x, mod.short)
        acc = c.func.value.id
        if acc not in env or env[acc].ty != "S" or env[acc].static != "empty":
            _err(s, "%r is not a set that is still empty" % acc, mod.short)
        xv = "x_" + x
        env_in = dict(env)
        env_in[x] = obj(None, {it.static: Ex(xv, "V")}, False)
        t = self.expr(s.body[0].test, env_in, fn)
        if t.ty != "B" or t.is_static():
            _err(s, "the test of the loop body is not a (non-constant) truth value", mod.short)
        pad = " " * (ind + 4)
        lam = "(fun %s : vec =>\n%s%s)" % (xv, pad, wrap(t.pre, "Some %s" % t.text, ind + 4))
        var = "v_" + acc
        env2 = dict(env)
        env2[acc] = Ex(var, "LD", static=it.static)
        pre = list(it.pre) + [("bind", var, "s_filter %s %s" % (lam, it.text))]
        return wrap(pre, self.block(rest, env2, fn, ind), ind)

    def obj_attr(self, n, env):
        """`self.mesh.vertices` -> ("self", "mesh.vertices") when the head is an object of the environment, else (None, None)"""
        parts = []
        while isinstance(n, ast.Attribute):
            parts.append(n.attr)
            n = n.value
        if isinstance(n, ast.Name) and n.id in env and env[n.id].ty == "O":
            return n.id, ".".join(parts[::-1])
        return None, None

    # ------------------------------------------------------------------------------------------ names
    def dotted(self, f, mod, env):
        """`np.linalg.norm` -> "numpy.linalg.norm" (import alias resolved), a local / unknown head -> None"""
        parts = []
        while isinstance(f, ast.Attribute):
            parts.append(f.attr)
            f = f.value
        if not isinstance(f, ast.Name) or f.id in env:
            return None
        target = mod.imports.get(f.id)
        if target is None:
            return None
        self.aliases_used.add((mod.name, f.id, target))
        return ".".join([target] + parts[::-1])

    # ------------------------------------------------------------------------------------------ expressions
    def as_R(self, e, node, mod):
        if e.ty == "R":
            return e.text
        if e.ty == "I":
            return lit_R(e.static)
        _err(node, "a %s is used as a number" % KINDS.get(e.ty, e.ty), mod.short)

    def nonzero_literal(self, e):
        if e.ty == "I":
            return e.static != 0
        return e.ty == "R" and isinstance(e.static, Fraction) and e.static != 0

    def expr(self, n, env, fn):
        mod = fn.mod
        if isinstance(n, ast.Constant):
            v = n.value
            if v is None:
                return Ex(None, "N", static=True)
            if isinstance(v, bool):
                return Ex(None, "B", static=v)
            if isinstance(v, int):
                return Ex(None, "I", static=v)
            if isinstance(v, float):
                if v != v or v in (float("inf"), float("-inf")):
                    _err(n, "non-finite literal", mod.short)
                fr = Fraction(repr(v))  # the decimal number that is written (shortest round-trip form)
                return Ex(lit_R(fr), "R", static=fr)
            _err(n, "constant %r" % (v,), mod.short)
        if isinstance(n, ast.Name):
            if not isinstance(n.ctx, ast.Load):
                _err(n, "name in a store context", mod.short)
            if n.id in env:
                e = env[n.id]
                return Ex(e.text, e.ty, static=e.static)
            if mod.imports.get(n.id) == self.constants_module + ".TOL":  # from ...constants import TOL
                self.aliases_used.add((mod.name, n.id, mod.imports[n.id]))
                self.uses_tol = True
                return Ex("tol", "R")
            _err(n, "name %r is not a parameter or a local variable" % n.id, mod.short)
        if isinstance(n, ast.Attribute):
            d = self.dotted(n, mod, env)
            if d in ("numpy.pi", "math.pi"):
                return Ex("PI", "R")
            if d == self.constants_module + ".TOL":
                self.uses_tol = True
                return Ex("tol", "R")
            base, key = self.obj_attr(n, env)
            if base is not None:
                a = env[base].static["attrs"].get(key)
                if a is None:
                    _err(n, "attribute `%s` is not a declared attribute of the object" % ast.unparse(n)[:80], mod.short)
                return Ex(a.text, a.ty, static=a.static)
            if d is None and n.attr == "T":
                m = self.expr(n.value, env, fn)
                if m.ty == "M":
                    return Ex("(s_MT %s)" % m.text, "M", m.pre)
            _err(n, "attribute `%s`" % ast.unparse(n)[:80], mod.short)
        if isinstance(n, ast.UnaryOp):
            a = self.expr(n.operand, env, fn)
            if isinstance(n.op, ast.Not):
                if a.ty != "B":
                    _err(n, "`not` of something that is not a truth value", mod.short)
                if a.is_static():
                    return Ex(None, "B", a.pre, static=not a.static)
                return Ex("(negb %s)" % a.text, "B", a.pre)
            if isinstance(n.op, ast.UAdd) and a.ty in ("R", "V", "I"):
                return a
            if isinstance(n.op, ast.USub):
                if a.ty == "I":
                    return Ex(None, "I", a.pre, static=-a.static)
                if a.ty == "R":
                    st = -a.static if isinstance(a.static, Fraction) else None
                    return Ex(lit_R(st) if st is not None else "(- %s)" % a.text, "R", a.pre, static=st)
                if a.ty == "V":
                    return Ex("(vopp %s)" % a.text, "V", a.pre)
            _err(n, "unary operator %s on a %s" % (type(n.op).__name__, a.ty), mod.short)
        if isinstance(n, ast.BinOp):
            return self.binop(n, env, fn)
        if isinstance(n, ast.Compare) and any(isinstance(op, (ast.Is, ast.IsNot)) for op in n.ops):
            # x is None / x is not None: decided by the declared type of x (an argument declared a vector is not None)
            if len(n.ops) != 1 or not (isinstance(n.comparators[0], ast.Constant) and n.comparators[0].value is None):
                _err(n, "`is` / `is not` with something other than None", mod.short)
            left = self.expr(n.left, env, fn)
            if left.ty not in ("N", "R", "V", "M", "L", "LD", "O"):
                _err(n, "`is None` of a %s" % KINDS.get(left.ty, left.ty), mod.short)
            isnone = left.ty == "N"
            return Ex(None, "B", left.pre, static=isnone if isinstance(n.ops[0], ast.Is) else not isnone)
        if isinstance(n, ast.Compare):
            left = self.expr(n.left, env, fn)
            pre = list(left.pre)
            conj = []
            for i, (op, right) in enumerate(zip(n.ops, n.comparators)):
                r = self.expr(right, env, fn)
                if i > 0 and r.pre:
                    _err(n, "a later operand of a comparison chain can fail (it is evaluated conditionally)", mod.short)
                pre += r.pre
                sym = {ast.Lt: "<", ast.LtE: "<=", ast.Gt: ">", ast.GtE: ">=", ast.Eq: "==", ast.NotEq: "!="}.get(type(op))
                if sym is None:
                    _err(n, "comparison operator %s" % type(op).__name__, mod.short)
                x, y = self.as_R(left, n, mod), self.as_R(r, n, mod)
                conj.append({"<": "(s_lt %s %s)" % (x, y), "<=": "(s_le %s %s)" % (x, y), ">": "(s_lt %s %s)" % (y, x),
                             ">=": "(s_le %s %s)" % (y, x), "==": "(s_eq %s %s)" % (x, y),
                             "!=": "(negb (s_eq %s %s))" % (x, y)}[sym])
                left = r
            return Ex(conj[0] if len(conj) == 1 else "(%s)" % " && ".join(conj), "B", pre)
        if isinstance(n, ast.BoolOp):
            vals = [self.expr(v, env, fn) for v in n.values]
            for i, v in enumerate(vals):
                if v.ty != "B":
                    _err(n, "and / or of something that is not a truth value", mod.short)
                if v.is_static():
                    _err(n, "and / or with a literal truth value", mod.short)
                if i > 0 and v.pre:
                    _err(n, "a later operand of and / or can fail (it is evaluated conditionally)", mod.short)
            sym = " && " if isinstance(n.op, ast.And) else " || "
            return Ex("(%s)" % sym.join(v.text for v in vals), "B", vals[0].pre)
        if isinstance(n, ast.Call):
            return self.call(n, env, fn)
        if isinstance(n, ast.Subscript):
            return self.subscript(n, env, fn)
        if isinstance(n, ast.ListComp):
            if len(n.generators) != 1:
                _err(n, "comprehension with several `for`", mod.short)
            g = n.generators[0]
            if g.ifs or g.is_async or not isinstance(g.target, ast.Name):
                _err(n, "comprehension with a condition / a pattern target", mod.short)
            src = self.expr(g.iter, env, fn)
            if src.ty != "L":
                _err(n, "comprehension over something that is not a static list", mod.short)
            pre = list(src.pre)
            out = []
            for x in src.static:
                env2 = dict(env)
                env2[g.target.id] = Ex(x.text, x.ty)
                y = self.expr(n.elt, env2, fn)
                if y.ty not in ("R", "V"):
                    _err(n, "comprehension element is not a number / vector", mod.short)
                pre += y.pre
                out.append(Ex(y.text, y.ty))
            return Ex(None, "L", pre, static=out)
        if isinstance(n, (ast.List, ast.Tuple)):
            elems = [self.expr(x, env, fn) for x in n.elts]
            pre = [p for x in elems for p in x.pre]
            out = []
            for x in elems:
                if x.ty == "I":
                    x = Ex(lit_R(x.static), "R")
                if x.ty == "L" and len(x.static) == 3 and all(y.ty == "R" for y in x.static):
                    out.append(Ex(None, "L", static=x.static))  # a row of a 3 x 3 literal: only np.array(...) accepts it
                    continue
                if x.ty not in ("R", "V"):
                    _err(n, "list element is not a number / vector", mod.short)
                out.append(Ex(x.text, x.ty))
            return Ex(None, "L", pre, static=out)
        _err(n, "expression %s is outside the fragment" % type(n).__name__, mod.short)

    def binop(self, n, env, fn):
        mod = fn.mod
        a = self.expr(n.left, env, fn)
        b = self.expr(n.right, env, fn)
        pre = a.pre + b.pre
        op = type(n.op)
        for x in (a, b):
            if x.ty not in ("I", "R", "V"):
                _err(n, "arithmetic on a %s" % KINDS.get(x.ty, x.ty), mod.short)
        if op in (ast.Add, ast.Sub, ast.Mult):
            sym = {ast.Add: "+", ast.Sub: "-", ast.Mult: "*"}[op]
            if a.ty == "I" and b.ty == "I":
                return Ex(None, "I", pre, static={"+": a.static + b.static, "-": a.static - b.static, "*": a.static * b.static}[sym])
            if a.ty == "V" and b.ty == "V":
                if op is ast.Mult:
                    _err(n, "vector * vector (element-wise product)", mod.short)
                return Ex("(%s %s %s)" % ("vadd" if op is ast.Add else "vsub", a.text, b.text), "V", pre)
            if a.ty == "V" or b.ty == "V":
                if op is not ast.Mult:
                    _err(n, "vector %s scalar (broadcasting)" % sym, mod.short)
                v, k = (a, b) if a.ty == "V" else (b, a)
                return Ex("(vscale %s %s)" % (self.as_R(k, n, mod), v.text), "V", pre)
            return Ex("(%s %s %s)" % (self.as_R(a, n, mod), sym, self.as_R(b, n, mod)), "R", pre)
        if op is ast.Div:
            if b.ty == "V":
                _err(n, "division by a vector", mod.short)
            bt = self.as_R(b, n, mod)
            if not self.nonzero_literal(b):
                if b.ty == "I" or isinstance(b.static, Fraction):
                    _err(n, "division by the literal 0", mod.short)
                pre = pre + [("guard", "(negb (s_eq %s 0))" % bt)]
            if a.ty == "V":
                return Ex("(vscale (/ %s) %s)" % (bt, a.text), "V", pre)
            if a.ty == "I" and b.ty == "I":
                fr = Fraction(a.static, b.static)
                return Ex(lit_R(fr), "R", pre, static=fr)
            return Ex("(%s / %s)" % (self.as_R(a, n, mod), bt), "R", pre)
        if op is ast.Pow:
            if a.ty == "V":
                _err(n, "power of a vector", mod.short)
            at = self.as_R(a, n, mod)
            if b.ty == "I" and b.static >= 0:
                if a.ty == "I":
                    return Ex(None, "I", pre, static=a.static ** b.static)
                return Ex("(%s ^ %d)" % (at, b.static), "R", pre)
            if b.ty == "R" and b.static == Fraction(1, 2):
                return Ex("(sqrt %s)" % at, "R", pre + [("guard", "(s_le 0 %s)" % at)])
            _err(n, "exponent `%s` (only a non-negative int literal and 0.5 are in the fragment)" % ast.unparse(n.right), mod.short)
        _err(n, "binary operator %s" % op.__name__, mod.short)

    def subscript(self, n, env, fn):
        mod = fn.mod
        x = self.expr(n.value, env, fn)

        def const(node, default):
            if node is None:
                return default
            e = self.expr(node, env, fn)
            if e.ty != "I":
                _err(n, "index that is not an int literal", mod.short)
            return e.static
        if x.ty == "L":
            k = len(x.static)
            if isinstance(n.slice, ast.Slice):
                if n.slice.step is not None:
                    _err(n, "slice with a step", mod.short)
                lo, hi = const(n.slice.lower, None), const(n.slice.upper, None)
                return Ex(None, "L", x.pre, static=x.static[slice(lo, hi)])
            i = const(n.slice, None)
            if not -k <= i < k:
                _err(n, "index %d out of range for a list of %d" % (i, k), mod.short)
            e = x.static[i]
            if e.ty not in ("R", "V"):
                _err(n, "subscript of a nested list", mod.short)
            return Ex(e.text, e.ty, x.pre)
        if x.ty == "V" and not isinstance(n.slice, ast.Slice):
            i = const(n.slice, None)
            if i not in (0, 1, 2, -1, -2, -3):
                _err(n, "component %d of a 3-vector" % i, mod.short)
            return Ex("(%s %s)" % (("vx", "vy", "vz")[i % 3], x.text), "R", x.pre)
        _err(n, "subscript of a %s" % x.ty, mod.short)

    def call(self, n, env, fn):
        mod = fn.mod
        f = n.func
        # a method of a value: a.dot(b)
        if isinstance(f, ast.Attribute) and self.dotted(f, mod, env) is None:
            recv = self.expr(f.value, env, fn)
            if recv.ty == "O" and isinstance(f.value, ast.Name):
                # self.method(...): the method an instance of exactly the declared class would call
                if recv.static["cls"] is None:
                    _err(n, "method call on an element of a list", mod.short)
                m0, c0 = recv.static["cls"]
                mod2, cls2, node2 = self.find_method(self.modules[m0], c0, f.attr, n)
                return self.call_user(mod2, "%s.%s" % (cls2, f.attr), n, env, fn, node=node2, selfarg=recv)
            if f.attr == "dot" and recv.ty == "V" and len(n.args) == 1 and not n.keywords:
                b = self.expr(n.args[0], env, fn)
                if b.ty == "M":
                    return Ex("(s_vM %s %s)" % (recv.text, b.text), "V", recv.pre + b.pre)
                if b.ty != "V":
                    _err(n, ".dot of a vector with a %s" % b.ty, mod.short)
                return Ex("(dot %s %s)" % (recv.text, b.text), "R", recv.pre + b.pre)
            _err(n, "method call `%s`" % ast.unparse(f)[:80], mod.short)
        if isinstance(f, ast.Name):
            if f.id in env:
                _err(n, "call of the variable %r" % f.id, mod.short)
            if f.id in mod.funcs:
                if mod.name + "." + f.id in self.opaque:
                    return self.prim(mod.name + "." + f.id, n, env, fn)
                return self.call_user(mod, f.id, n, env, fn)
            if f.id in mod.imports:
                d = mod.imports[f.id]
                self.aliases_used.add((mod.name, f.id, d))
                if d in self.opaque:
                    return self.prim(d, n, env, fn)
                m2, _, name2 = d.rpartition(".")
                if m2 in self.modules and name2 in self.modules[m2].funcs:
                    return self.call_user(self.modules[m2], name2, n, env, fn)
                return self.prim(d, n, env, fn)
            if f.id in mod.other:
                _err(n, "call of %r, which is not a plain function of %s" % (f.id, mod.short), mod.short)
            if f.id in ("abs", "float", "max", "min"):
                return self.prim("builtins." + f.id, n, env, fn)
            if f.id == "set" and not n.args and not n.keywords:
                return Ex(None, "S", static="empty")
            _err(n, "call of %r" % f.id, mod.short)
        d = self.dotted(f, mod, env)
        if d is None:
            _err(n, "call `%s`" % ast.unparse(f)[:80], mod.short)
        if d in self.opaque:
            return self.prim(d, n, env, fn)
        m2, _, name2 = d.rpartition(".")
        if m2 in self.modules:
            if name2 not in self.modules[m2].funcs:
                _err(n, "%s is not a plain function of %s" % (name2, m2), mod.short)
            return self.call_user(self.modules[m2], name2, n, env, fn)
        return self.prim(d, n, env, fn)

    def call_user(self, mod2, fname, n, env, fn, node=None, selfarg=None):
        mod = fn.mod
        if node is None:
            node = mod2.funcs[fname]
        names, defaults = self.check_signature(mod2, node)
        selfname = None
        if selfarg is not None:
            if not names:
                _err(n, "%s has no self parameter" % fname, mod.short)
            selfname, names = names[0], names[1:]
        if len(n.args) > len(names):
            _err(n, "too many arguments for %s" % fname, mod.short)
        for a in n.args:
            if isinstance(a, ast.Starred):
                _err(n, "starred argument", mod.short)
        given = {}
        for p, a in zip(names, n.args):
            given[p] = self.expr(a, env, fn)
        for kw in n.keywords:
            if kw.arg is None or kw.arg not in names or kw.arg in given:
                _err(n, "keyword argument %r of %s" % (kw.arg, fname), mod.short)
            given[kw.arg] = self.expr(kw.value, env, fn)
        args, pre = [], []
        order = [p for p in names if p in given]  # python evaluates positional arguments, then keywords, in source order
        for p in order:
            pre += given[p].pre
        for p in names:
            if p in given:
                a = given[p]
            elif p in defaults:
                a = self.expr(defaults[p], {}, fn)
            else:
                _err(n, "argument %r of %s is missing" % (p, fname), mod.short)
            if a.ty in ("L", "S", "O"):
                _err(n, "a %s is passed to %s" % (KINDS[a.ty], fname), mod.short)
            args.append(Ex(a.text, a.ty, static=a.static if a.ty in ("I", "B", "N", "LD") else None))
        if selfarg is not None:
            # the callee sees the object as it is now; it may read, not assign, its attributes
            args.insert(0, obj(selfarg.static["cls"], selfarg.static["attrs"], False))
        # an int literal passed where the callee computes with it as a number stays static (the callee is specialised)
        coq, rty, dyn = self.function(mod2, fname, args, n, node=node)
        var = fn.new()
        calltext = " ".join([coq, "tol"] + [a.text for a in dyn])
        pre.append(("bind", var, calltext))
        if rty[0] == "L":
            dflt = "vzero" if rty[2] == "V" else "0"
            return Ex(None, "L", pre, static=[Ex("(nth %d %s %s)" % (i, var, dflt), rty[2]) for i in range(rty[1])])
        return Ex(var, rty[0], pre, static=rty[1] if rty[0] == "LD" else None)

    def prim(self, d, n, env, fn):
        mod = fn.mod
        kws = {}
        for kw in n.keywords:
            if kw.arg is None:
                _err(n, "** argument", mod.short)
            kws[kw.arg] = kw.value
        for a in n.args:
            if isinstance(a, ast.Starred):
                _err(n, "starred argument", mod.short)
        args = [self.expr(x, env, fn) for x in n.args]
        pre = [p for x in args for p in x.pre]
        if d in self.opaque:
            # a value the translation does not look into (np.random.random(3)): an extra input of the entry function
            if kws or self.stack[1:] or fn.key not in self.declared:
                _err(n, "the opaque call %s outside an entry function / with keyword arguments" % d, mod.short)
            spec = self.opaque[d]
            if isinstance(spec, tuple) and spec[0] == "fun":
                # an uninterpreted TOTAL function of the values of its arguments (f.rotate: scipy.linalg.expm inside)
                _k, atys, rty = spec
                if len(args) != len(atys):
                    _err(n, "the opaque function %s is called with %d arguments, declared with %d" % (d, len(args), len(atys)), mod.short)
                texts = []
                for a, t in zip(args, atys):
                    if TYNAMES[t] == "R":
                        texts.append(self.as_R(a, n, mod))
                    elif a.ty == TYNAMES[t]:
                        texts.append(a.text)
                    else:
                        _err(n, "argument of the opaque function %s: a %s where a %s is declared" % (d, KINDS.get(a.ty, a.ty), t), mod.short)
                var = "o_" + d.split(".")[-1]
                ctype = " -> ".join(COQTY[TYNAMES[t]] for t in list(atys) + [rty])
                if (var, ctype) not in fn.extra:
                    fn.extra.append((var, ctype))
                return Ex("(%s %s)" % (var, " ".join(texts)), TYNAMES[rty], pre)
            if any(not (a.ty == "I") for a in args):
                _err(n, "the opaque call %s with other than int literal arguments" % d, mod.short)
            t = TYNAMES[spec]
            var = "o_%s_%d" % (d.split(".")[-1], len(fn.extra) + 1)
            fn.extra.append((var, COQTY[t]))
            return Ex(var, t)

        def no_kw():
            if kws:
                _err(n, "keyword arguments %r of %s" % (sorted(kws), d), mod.short)

        def one_R():
            no_kw()
            if len(args) != 1 or args[0].ty not in ("R", "I"):
                _err(n, "%s is in the fragment for one scalar argument only" % d, mod.short)
            return self.as_R(args[0], n, mod)
        if d in ("numpy.asarray", "numpy.array", "numpy.copy"):
            for k, v in kws.items():
                if k != "dtype" or self.dtype_name(v, mod, env) not in (self.constants_module + ".DTYPE", "float", "numpy.float64"):
                    _err(n, "%s(..., %s=%s)" % (d, k, ast.unparse(v)), mod.short)
            if len(args) != 1:
                _err(n, "%s with %d positional arguments" % (d, len(args)), mod.short)
            x = args[0]
            if x.ty in ("V", "R", "M"):
                return x
            if x.ty == "I":
                return Ex(lit_R(x.static), "R", x.pre)
            if x.ty == "L":
                if len(x.static) == 3 and all(e.ty == "R" for e in x.static) and isinstance(n.args[0], (ast.List, ast.Tuple)):
                    return Ex("(%s, %s, %s)" % tuple(e.text for e in x.static), "V", x.pre)
                if len(x.static) == 3 and all(e.ty == "L" for e in x.static) and isinstance(n.args[0], (ast.List, ast.Tuple)):
                    rows = ["(%s, %s, %s)" % tuple(y.text for y in e.static) for e in x.static]  # rows of 3 reals (checked where built)
                    return Ex("(%s, %s, %s)" % tuple(rows), "M", x.pre)
                if any(e.ty == "L" for e in x.static):
                    _err(n, "%s of a nested list that is not a 3 x 3 literal" % d, mod.short)
                return x
            _err(n, "%s of a truth value" % d, mod.short)
        if d in ("numpy.dot", "numpy.cross"):
            no_kw()
            if d == "numpy.dot" and len(args) == 2 and (args[0].ty, args[1].ty) in (("V", "M"), ("M", "V")):
                if args[0].ty == "V":
                    return Ex("(s_vM %s %s)" % (args[0].text, args[1].text), "V", pre)
                return Ex("(s_Mv %s %s)" % (args[0].text, args[1].text), "V", pre)
            if len(args) != 2 or args[0].ty != "V" or args[1].ty != "V":
                _err(n, "%s is in the fragment for two 3-vectors (np.dot: also a 3-vector and a 3 x 3 array) only" % d, mod.short)
            name = d.split(".")[1]
            return Ex("(%s %s %s)" % (name, args[0].text, args[1].text), "R" if name == "dot" else "V", pre)
        if d in ("numpy.linalg.norm", "scipy.linalg.norm"):
            no_kw()
            if d.startswith("scipy") and "scipy.linalg" not in mod.imported and mod.imports.get("scipy") != "scipy":
                _err(n, "scipy.linalg is not imported", mod.short)
            if len(args) != 1:
                _err(n, "%s with %d arguments" % (d, len(args)), mod.short)
            if args[0].ty == "V":
                return Ex("(norm %s)" % args[0].text, "R", pre)
            return Ex("(Rabs %s)" % self.as_R(args[0], n, mod), "R", pre)
        if d in ("builtins.abs", "numpy.abs", "numpy.absolute", "numpy.fabs", "math.fabs"):
            return Ex("(Rabs %s)" % one_R(), "R", pre)
        if d == "builtins.float":
            return Ex(one_R(), "R", pre)
        if d in ("builtins.max", "builtins.min"):
            no_kw()
            if len(args) != 2:
                _err(n, "%s of other than two numbers" % d, mod.short)
            return Ex("(%s %s %s)" % ("Rmax" if d.endswith("max") else "Rmin", self.as_R(args[0], n, mod), self.as_R(args[1], n, mod)), "R", pre)
        if d in ("numpy.sin", "numpy.cos", "math.sin", "math.cos"):
            return Ex("(%s %s)" % (d.split(".")[1], one_R()), "R", pre)
        if d in ("numpy.tan", "math.tan"):
            x = one_R()
            return Ex("(tan %s)" % x, "R", pre + [("guard", "(negb (s_eq (cos %s) 0))" % x)])
        if d in ("numpy.sqrt", "math.sqrt"):
            x = one_R()
            return Ex("(sqrt %s)" % x, "R", pre + [("guard", "(s_le 0 %s)" % x)])
        if d in ("numpy.arccos", "math.acos"):
            x = one_R()
            return Ex("(acos %s)" % x, "R", pre + [("guard", "((s_le (- 1) %s) && (s_le %s 1))" % (x, x))])
        if d == "numpy.clip":
            no_kw()
            if len(args) != 3:
                _err(n, "np.clip with %d arguments" % len(args), mod.short)
            x, lo, hi = (self.as_R(a, n, mod) for a in args)
            return Ex("(s_clip %s %s %s)" % (x, lo, hi), "R", pre)
        if d == "numpy.linspace":
            if len(args) != 2 or set(kws) != {"num"} or args[0].ty != args[1].ty or args[0].ty not in ("V", "R"):
                _err(n, "np.linspace is in the fragment as linspace(a, b, num=<static int>) only", mod.short)
            k = self.expr(kws["num"], env, fn)
            if k.ty != "I" or k.pre or k.static < 2 or k.static > 64:
                _err(n, "np.linspace: num is not a static int in 2..64", mod.short)
            a, b, K = args[0], args[1], k.static
            pts = []
            for i in range(K):
                if i == K - 1:
                    pts.append(Ex(b.text, b.ty))  # numpy sets the last sample to `stop` itself
                elif a.ty == "V":
                    pts.append(Ex("(vadd %s (vscale %d (vscale (/ %d) (vsub %s %s))))" % (a.text, i, K - 1, b.text, a.text), "V"))
                else:
                    pts.append(Ex("(%s + %d * ((%s - %s) / %d))" % (a.text, i, b.text, a.text, K - 1), "R"))
            return Ex(None, "L", pre, static=pts)
        _err(n, "call of %s" % d, mod.short)

    def dtype_name(self, v, mod, env):
        if isinstance(v, ast.Name) and v.id == "float" and v.id not in env:
            return "float"
        return self.dotted(v, mod, env)

    # ------------------------------------------------------------------------------------------ output
    def source_text(self, header):
        names = " ".join(self.names)
        footer = ("(* every definition of this file and the primitives, for the proofs of source = model (the proofs do not\n"
                  "   name the specialisations, which come and go with the call structure of the python code) *)\n"
                  "Ltac unfold_src := cbv beta iota zeta delta [%s %s].\n"
                  "Ltac unfold_src_in H := cbv beta iota zeta delta [%s %s] in H.\n" % (names, PRIMS_UNFOLD, names, PRIMS_UNFOLD))
        return "(* GENERATED by harness/translate_np.py -- do not edit.\n   %s\n   [None] = no real-number reading: python raises, or a guard (division by zero, sqrt / arccos / tan outside\n   their domain) fails. *)\n" % header + PRELUDE + "\n" + "\n".join(self.out) + "\n" + footer

    def tie_to_runtime(self):
        """the functions the library would call ARE the parsed ones, and the aliases name the assumed modules"""
        for key, (coq, _rty, _dyn, fn) in self.done.items():
            mname, qual, line = fn.rt
            m = importlib.import_module(mname)
            ob = m
            for part in qual.split("."):
                ob = ob.__dict__.get(part) if isinstance(ob, type) else getattr(ob, part, None)  # a class: its own body only
                if ob is None:
                    break
            code = getattr(ob, "__code__", None)
            if code is None or os.path.realpath(code.co_filename) != os.path.realpath(fn.mod.path) \
                    or code.co_firstlineno != line or ob.__name__ != qual.split(".")[-1]:
                raise GenError("%s.%s at run time is not the function parsed at %s line %d (wrapped / replaced?)" % (
                    mname, qual, fn.mod.path, line))
        for (mname, cls, bmname, bcls) in sorted(self.bases_used):
            c = getattr(importlib.import_module(mname), cls, None)
            b = getattr(importlib.import_module(bmname), bcls, None)
            if not isinstance(c, type) or b is None or c.__bases__ != (b,):
                raise GenError("at run time the base of %s.%s is not %s.%s" % (mname, cls, bmname, bcls))
        for (mname, alias, target) in sorted(self.aliases_used):
            m = importlib.import_module(mname)
            obj = getattr(m, alias, None)
            want = None
            try:
                want = importlib.import_module(target)
            except ImportError:
                pm, _, attr = target.rpartition(".")
                try:
                    want = getattr(importlib.import_module(pm), attr)
                except (ImportError, AttributeError):
                    pass
            if obj is None or want is None or obj is not want:
                raise GenError("in %s the name %r is not %s at run time" % (mname, alias, target))
