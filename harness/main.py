import argparse
import importlib
import json
import os
import sys

sys.path.insert(0, os.path.dirname(os.path.abspath(__file__)))
import core  # noqa: E402


def main():
    ap = argparse.ArgumentParser()
    ap.add_argument("pid")
    ap.add_argument("--tier", default=os.environ.get("VERIF_TIER", "quick"))
    ap.add_argument("--replay")
    a = ap.parse_args()
    seed = int(os.environ.get("VERIF_SEED", "1") or 1)
    mod = importlib.import_module("props." + a.pid)
    prop = mod.PROP
    if a.replay:
        core.setup_env()
        ctx = core.Ctx(a.pid, a.tier, seed)
        with open(a.replay) as f:
            obj = json.load(f)
        sys.exit(prop.replay(ctx, obj) or 0)
    tier = a.tier if a.tier in ("quick", "thorough") else "quick"
    sys.exit(core.run_check(prop, tier, seed))


if __name__ == "__main__":
    main()
