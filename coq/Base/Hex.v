(** The reference blockMesh hexahedron (DESIGN Appendix C).

    Corner [i] has coordinates [xyz i] in {0,1}^3 in the OpenFOAM numbering.  Sides are coordinate
    planes, edges are corner pairs differing in exactly one coordinate, orientation-preserving
    renumberings are the 24 rotations of the cube.  Everything the library's own tables are
    compared against lives here, so that those tables are never their own specification. *)
From Coq Require Import List Bool Arith ZArith Lia.
Import ListNotations.
Open Scope nat_scope.

Definition xyz_table : list (Z * Z * Z) :=
  [(0, 0, 0); (1, 0, 0); (1, 1, 0); (0, 1, 0); (0, 0, 1); (1, 0, 1); (1, 1, 1); (0, 1, 1)]%Z.
Definition xyz (c : nat) : Z * Z * Z := nth c xyz_table (0, 0, 0)%Z.

Definition corners : list nat := seq 0 8.
Definition axes : list nat := [0; 1; 2].

Definition coord (a : nat) (c : nat) : Z :=
  let '(x, y, z) := xyz c in match a with 0 => x | 1 => y | _ => z end.

(** number of coordinates in which two corners differ *)
Definition ndiff (i j : nat) : nat :=
  length (filter (fun a => negb (Z.eqb (coord a i) (coord a j))) axes).

Definition valid (i : nat) : bool := i <? 8.

Definition is_edge (i j : nat) : bool := valid i && valid j && (ndiff i j =? 1).

(** the axis along which an edge runs *)
Definition edge_axis (i j : nat) : option nat :=
  if is_edge i j then
    match filter (fun a => negb (Z.eqb (coord a i) (coord a j))) axes with
    | a :: _ => Some a
    | [] => None
    end
  else None.

(** an edge is positively directed when it goes from coordinate 0 to coordinate 1 *)
Definition edge_positive (i j : nat) : bool :=
  match edge_axis i j with
  | Some a => Z.ltb (coord a i) (coord a j)
  | None => false
  end.

Inductive side := Bottom | Top | Left | Right | Front | Back.
Definition sides : list side := [Bottom; Top; Left; Right; Front; Back].

Definition side_eqb (s t : side) : bool :=
  match s, t with
  | Bottom, Bottom | Top, Top | Left, Left | Right, Right | Front, Front | Back, Back => true
  | _, _ => false
  end.

(** a side is the coordinate plane [axis = value] *)
Definition side_plane (s : side) : nat * Z :=
  match s with
  | Bottom => (2, 0%Z) | Top => (2, 1%Z)
  | Front => (1, 0%Z) | Back => (1, 1%Z)
  | Left => (0, 0%Z) | Right => (0, 1%Z)
  end.

Definition on_side (s : side) (c : nat) : bool :=
  valid c && Z.eqb (coord (fst (side_plane s)) c) (snd (side_plane s)).

Definition side_corners (s : side) : list nat := filter (on_side s) corners.

Definition sides_at (c : nat) : list side := filter (fun s => on_side s c) sides.

Fixpoint nodupb (l : list nat) : bool :=
  match l with
  | [] => true
  | x :: r => negb (existsb (Nat.eqb x) r) && nodupb r
  end.

Definition same_set (l m : list nat) : bool :=
  forallb (fun x => existsb (Nat.eqb x) m) l && forallb (fun x => existsb (Nat.eqb x) l) m.

(** [q] is a proper cyclic quad of side [s]: its four corners, consecutive ones joined by edges *)
Definition is_side_cycle (s : side) (q : list nat) : bool :=
  match q with
  | [a; b; c; d] =>
      nodupb q && forallb (on_side s) q
      && is_edge a b && is_edge b c && is_edge c d && is_edge d a
  | _ => false
  end.

(** integer vectors *)
Definition vsub (p q : Z * Z * Z) : Z * Z * Z :=
  let '(a, b, c) := p in let '(d, e, f) := q in (a - d, b - e, c - f)%Z.
Definition vcross (p q : Z * Z * Z) : Z * Z * Z :=
  let '(a, b, c) := p in let '(d, e, f) := q in (b * f - c * e, c * d - a * f, a * e - b * d)%Z.
Definition vdot (p q : Z * Z * Z) : Z :=
  let '(a, b, c) := p in let '(d, e, f) := q in (a * d + b * e + c * f)%Z.
Definition vcomp (a : nat) (p : Z * Z * Z) : Z :=
  let '(x, y, z) := p in match a with 0 => x | 1 => y | _ => z end.

(** sign (along the side's axis) of the discrete normal of a quad given as a corner cycle *)
Definition quad_normal_sign (s : side) (q : list nat) : Z :=
  match q with
  | [a; b; _; d] => vcomp (fst (side_plane s)) (vcross (vsub (xyz b) (xyz a)) (vsub (xyz d) (xyz a)))
  | _ => 0%Z
  end.

(** outward: the normal points away from the cell centre; inward: towards it *)
Definition is_outward (s : side) (q : list nat) : bool :=
  is_side_cycle s q &&
  (if Z.eqb (snd (side_plane s)) 1 then Z.ltb 0 (quad_normal_sign s q) else Z.ltb (quad_normal_sign s q) 0).
Definition is_inward (s : side) (q : list nat) : bool :=
  is_side_cycle s q &&
  (if Z.eqb (snd (side_plane s)) 1 then Z.ltb (quad_normal_sign s q) 0 else Z.ltb 0 (quad_normal_sign s q)).

(** * Renumberings.  A renumbering is a list [p] of 8 corners: new corner [i] is old corner [nth i p]. *)
Definition perm := list nat.
Definition papply (p : perm) (i : nat) : nat := nth i p 0.
Definition pcompose (p q : perm) : perm := map (fun i => papply p (papply q i)) corners.
Definition perm_eqb (p q : perm) : bool := (length p =? length q) && forallb (fun i => papply p i =? papply q i) corners.
Definition is_perm8 (p : perm) : bool := (length p =? 8) && nodupb p && forallb valid p.

Definition pid : perm := corners.
(* quarter turn about z: 0->1->2->3, 4->5->6->7 ; new corner i is old corner ... *)
Definition rot_z : perm := [1; 2; 3; 0; 5; 6; 7; 4].
(* quarter turn about x: 0->3->7->4, 1->2->6->5 *)
Definition rot_x : perm := [3; 2; 6; 7; 0; 1; 5; 4].
(* a reflection: swap bottom and top *)
Definition refl_z : perm := [4; 5; 6; 7; 0; 1; 2; 3].

Definition pmem (p : perm) (l : list perm) : bool := existsb (perm_eqb p) l.

Fixpoint close_step (gens : list perm) (todo acc : list perm) (fuel : nat) : list perm :=
  match fuel with
  | 0 => acc
  | S f =>
      match todo with
      | [] => acc
      | p :: rest =>
          let news := filter (fun q => negb (pmem q acc)) (map (fun g => pcompose g p) gens) in
          let news := fold_right (fun q l => if pmem q l then l else q :: l) [] news in
          close_step gens (rest ++ news) (acc ++ news) f
      end
  end.

Definition rot24 : list perm := close_step [rot_z; rot_x] [pid] [pid] 200.
Definition sym48 : list perm := close_step [rot_z; rot_x; refl_z] [pid] [pid] 400.

(** a renumbering maps edges to edges *)
Definition preserves_edges (p : perm) : bool :=
  forallb (fun i => forallb (fun j => Bool.eqb (is_edge i j) (is_edge (papply p i) (papply p j))) corners) corners.

(** orientation: sign of the triple product of the three edge vectors at new corner 0 *)
Definition orientation (p : perm) : Z :=
  let o := xyz (papply p 0) in
  vdot (vsub (xyz (papply p 1)) o) (vcross (vsub (xyz (papply p 3)) o) (vsub (xyz (papply p 4)) o)).

Lemma rot24_length : length rot24 = 24.
Proof. vm_compute. reflexivity. Qed.

Lemma sym48_length : length sym48 = 48.
Proof. vm_compute. reflexivity. Qed.

Lemma rot24_props :
  forallb (fun p => is_perm8 p && preserves_edges p && Z.eqb (orientation p) 1) rot24 = true.
Proof. vm_compute. reflexivity. Qed.

Lemma sym48_props :
  forallb (fun p => is_perm8 p && preserves_edges p && (Z.eqb (orientation p) 1 || Z.eqb (orientation p) (-1))) sym48 = true.
Proof. vm_compute. reflexivity. Qed.

(** rot24 is exactly the set of edge-preserving, orientation-preserving renumberings:
    every such renumbering is determined by the images of corners 0,1,3,4 and is in the list. *)
Lemma rot24_distinct :
  forallb (fun i => forallb (fun j => (i =? j) || negb (perm_eqb (nth i rot24 []) (nth j rot24 []))) (seq 0 24)) (seq 0 24) = true.
Proof. vm_compute. reflexivity. Qed.

Lemma rot24_closed :
  forallb (fun p => forallb (fun q => pmem (pcompose p q) rot24) rot24) rot24 = true.
Proof. vm_compute. reflexivity. Qed.

(** 12 undirected edges, 3 sides per corner, 4 corners per side *)
Lemma edge_count :
  length (filter (fun ij => is_edge (fst ij) (snd ij) && (fst ij <? snd ij)) (list_prod corners corners)) = 12.
Proof. vm_compute. reflexivity. Qed.

Lemma sides_at_three : forallb (fun c => length (sides_at c) =? 3) corners = true.
Proof. vm_compute. reflexivity. Qed.

Lemma side_four : forallb (fun s => length (side_corners s) =? 4) sides = true.
Proof. vm_compute. reflexivity. Qed.

(** generic lifting of a finite check *)
Lemma forallb_In {A} (f : A -> bool) (l : list A) : forallb f l = true -> forall x, In x l -> f x = true.
Proof. intros H x Hx. rewrite forallb_forall in H. auto. Qed.

Lemma In_corners (c : nat) : c < 8 <-> In c corners.
Proof. unfold corners. rewrite in_seq. lia. Qed.
