(** Vectors in R^3: the algebra shared by the continuous models (C08, C09, C10, C14, C17). *)
From Coq Require Import Reals Lra Psatz List.
Import ListNotations.
Open Scope R_scope.

Definition vec := (R * R * R)%type.

Definition vx (v : vec) : R := fst (fst v).
Definition vy (v : vec) : R := snd (fst v).
Definition vz (v : vec) : R := snd v.

Definition vzero : vec := (0, 0, 0).
Definition vadd (a b : vec) : vec := (vx a + vx b, vy a + vy b, vz a + vz b).
Definition vsub (a b : vec) : vec := (vx a - vx b, vy a - vy b, vz a - vz b).
Definition vopp (a : vec) : vec := (- vx a, - vy a, - vz a).
Definition vscale (k : R) (a : vec) : vec := (k * vx a, k * vy a, k * vz a).
Definition dot (a b : vec) : R := vx a * vx b + vy a * vy b + vz a * vz b.
Definition cross (a b : vec) : vec :=
  (vy a * vz b - vz a * vy b, vz a * vx b - vx a * vz b, vx a * vy b - vy a * vx b).
Definition norm2 (a : vec) : R := dot a a.
Definition norm (a : vec) : R := sqrt (norm2 a).
Definition triple (a b c : vec) : R := dot a (cross b c).

(** exact dyadic literal [m * 2^e] (binary64 values are written this way by the harness) *)
Definition dy (m e : Z) : R := IZR m * powerRZ 2 e.

Lemma vec_eq (a b : vec) : vx a = vx b -> vy a = vy b -> vz a = vz b -> a = b.
Proof. destruct a as [[a1 a2] a3], b as [[b1 b2] b3]; unfold vx, vy, vz; simpl; intros; subst; reflexivity. Qed.

Ltac vec_simpl := unfold norm2, triple in *; unfold vadd, vsub, vopp, vscale, dot, cross in *; unfold vx, vy, vz in *; simpl in *.
Ltac vec_ring := apply vec_eq; vec_simpl; ring.

Lemma cross_anticomm a b : cross a b = vopp (cross b a).
Proof. vec_ring. Qed.

Lemma dot_comm a b : dot a b = dot b a.
Proof. vec_simpl; ring. Qed.

Lemma dot_cross_self_l a b : dot a (cross a b) = 0.
Proof. vec_simpl; ring. Qed.

Lemma dot_cross_self_r a b : dot b (cross a b) = 0.
Proof. vec_simpl; ring. Qed.

Lemma norm2_nonneg a : 0 <= norm2 a.
Proof. destruct a as [[x y] z]. vec_simpl. nra. Qed.

Lemma norm2_scale k a : norm2 (vscale k a) = k * k * norm2 a.
Proof. vec_simpl; ring. Qed.

Lemma lagrange a b : norm2 (cross a b) = norm2 a * norm2 b - dot a b * dot a b.
Proof. vec_simpl; ring. Qed.

Lemma norm_nonneg a : 0 <= norm a.
Proof. apply sqrt_pos. Qed.

Lemma norm_sq a : norm a * norm a = norm2 a.
Proof. unfold norm. apply sqrt_sqrt. apply norm2_nonneg. Qed.

Lemma norm_scale k a : norm (vscale k a) = Rabs k * norm a.
Proof.
  unfold norm. rewrite norm2_scale. rewrite sqrt_mult_alt.
  - f_equal. replace (k * k) with (k ^ 2) by ring. rewrite <- Rsqr_pow2. apply sqrt_Rsqr_abs.
  - nra.
Qed.

(** sum and average of a list of vectors *)
Definition vsum (l : list vec) : vec := fold_right vadd vzero l.
