(** C08 - chord bound: a polyline (spline / polyLine / sampled curve edge) is at least as long as the
    distance of its end points; Cauchy-Schwarz and the triangle inequality in R^3. *)
From Coq Require Import Reals Lra Psatz List.
From CB Require Import Base.Vec3 Model.C08_Arcs.
Import ListNotations.
Open Scope R_scope.

Lemma cauchy_schwarz_sq a b : dot a b * dot a b <= norm2 a * norm2 b.
Proof. pose proof (norm2_nonneg (cross a b)) as H. rewrite lagrange in H. lra. Qed.

Lemma cauchy_schwarz a b : dot a b <= norm a * norm b.
Proof.
  pose proof (cauchy_schwarz_sq a b) as H.
  pose proof (norm_nonneg a) as Ha. pose proof (norm_nonneg b) as Hb.
  rewrite <- (norm_sq a), <- (norm_sq b) in H.
  destruct (Rle_dec (dot a b) (norm a * norm b)) as [L|L]; [exact L|].
  exfalso. apply Rnot_le_lt in L.
  assert (0 <= norm a * norm b) by (apply Rmult_le_pos; assumption).
  assert (norm a * norm b * (norm a * norm b) < dot a b * dot a b) by nra.
  nra.
Qed.

Lemma cauchy_schwarz_abs a b : Rabs (dot a b) <= norm a * norm b.
Proof.
  unfold Rabs. destruct (Rcase_abs (dot a b)).
  - replace (- dot a b) with (dot (vopp a) b) by (vec_simpl; ring).
    replace (norm a) with (norm (vopp a)). apply cauchy_schwarz.
    unfold norm. f_equal. vec_simpl. ring.
  - apply cauchy_schwarz.
Qed.

Lemma norm_triangle a b : norm (vadd a b) <= norm a + norm b.
Proof.
  pose proof (cauchy_schwarz a b) as H.
  pose proof (norm_nonneg a) as Ha. pose proof (norm_nonneg b) as Hb. pose proof (norm_nonneg (vadd a b)) as Hab.
  assert (E : norm2 (vadd a b) = norm2 a + 2 * dot a b + norm2 b) by (vec_simpl; ring).
  rewrite <- (norm_sq (vadd a b)), <- (norm_sq a), <- (norm_sq b) in E.
  nra.
Qed.

Lemma dist_triangle p q r : dist p r <= dist p q + dist q r.
Proof.
  unfold dist. replace (vsub p r) with (vadd (vsub p q) (vsub q r)) by vec_ring. apply norm_triangle.
Qed.

Lemma dist_refl p : dist p p = 0.
Proof.
  unfold dist, norm. replace (norm2 (vsub p p)) with 0 by (vec_simpl; ring). apply sqrt_0.
Qed.

Lemma dist_nonneg p q : 0 <= dist p q.
Proof. apply norm_nonneg. Qed.

Lemma dist_sym p q : dist p q = dist q p.
Proof. unfold dist, norm. f_equal. vec_simpl. ring. Qed.

(** the polyline through p :: l is at least as long as the distance from p to its last point *)
Lemma polyline_chord l : forall p, dist p (last l p) <= polyline_length (p :: l).
Proof.
  induction l as [|q l IH]; intros p.
  - simpl. rewrite dist_refl. lra.
  - change (polyline_length (p :: q :: l)) with (dist p q + polyline_length (q :: l)).
    specialize (IH q).
    assert (E : last (q :: l) p = last l q).
    { clear. revert q p. induction l as [|x l IHl]; intros q p; [reflexivity|].
      change (last (q :: x :: l) p) with (last (x :: l) p). rewrite IHl.
      change (last (x :: l) q) with (match l with [] => x | _ => last l q end).
      destruct l; [reflexivity|]. symmetry. apply IHl. }
    rewrite E. pose proof (dist_triangle p q (last l q)). lra.
Qed.

(** SplineEdge/PolyLineEdge.length: polyline_length([v1] ++ points ++ [v2]) >= |v1 - v2| *)
Lemma spline_edge_chord v1 pts v2 : dist v1 v2 <= polyline_length (v1 :: pts ++ [v2]).
Proof.
  pose proof (polyline_chord (pts ++ [v2]) v1) as H. rewrite last_last in H. exact H.
Qed.

Lemma polyline_nonneg l : 0 <= polyline_length l.
Proof.
  induction l as [|p l IH]; [simpl; lra|].
  destruct l as [|q l]; [simpl; lra|].
  change (polyline_length (p :: q :: l)) with (dist p q + polyline_length (q :: l)).
  pose proof (dist_nonneg p q). lra.
Qed.
