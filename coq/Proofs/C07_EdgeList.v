(** C07 - the edge list keeps one entry per vertex pair: uniqueness, exactly-once, first definition
    wins, entries are requests (induction over arbitrary request sequences; nothing here depends on
    coq/Gen).  Also the finite facts about the twelve slot directions against Base/Hex.v. *)
From Coq Require Import List Bool Arith Lia.
From CB Require Import Base.Hex Model.C07_EdgeList.
Import ListNotations.

(** * same_pair is equality of two-element sets *)
Lemma same_pair_spec a b c d : same_pair a b c d = true <-> (a = c /\ b = d) \/ (a = d /\ b = c).
Proof.
  unfold same_pair. rewrite orb_true_iff, !andb_true_iff, !Nat.eqb_eq. tauto.
Qed.

Lemma same_pair_refl a b : same_pair a b a b = true.
Proof. apply same_pair_spec. auto. Qed.

Lemma same_pair_swap a b : same_pair a b b a = true.
Proof. apply same_pair_spec. auto. Qed.

Lemma same_pair_sym a b c d : same_pair a b c d = same_pair c d a b.
Proof.
  apply eq_true_iff_eq. rewrite !same_pair_spec. intuition congruence.
Qed.

Lemma same_pair_flip a b c d : same_pair a b c d = same_pair b a c d.
Proof.
  apply eq_true_iff_eq. rewrite !same_pair_spec. intuition congruence.
Qed.

Lemma same_pair_trans a b c d x y :
  same_pair a b c d = true -> same_pair a b x y = same_pair c d x y.
Proof.
  intro H. apply eq_true_iff_eq. rewrite !same_pair_spec. apply same_pair_spec in H.
  intuition (subst; auto).
Qed.

(** * find / count *)
Lemma count_pair_cons e l a b :
  count_pair (e :: l) a b = (if entry_has a b e then 1 else 0) + count_pair l a b.
Proof. unfold count_pair. simpl. destruct (entry_has a b e); reflexivity. Qed.

Lemma count_pair_app l m a b : count_pair (l ++ m) a b = count_pair l a b + count_pair m a b.
Proof. unfold count_pair. rewrite filter_app, app_length. reflexivity. Qed.

Lemma entry_has_congr a b c d e : same_pair a b c d = true -> entry_has a b e = entry_has c d e.
Proof. destruct e as [[x y] t]. simpl. apply same_pair_trans. Qed.

Lemma count_pair_congr l a b c d : same_pair a b c d = true -> count_pair l a b = count_pair l c d.
Proof.
  intro H. induction l as [|e l IH]; [reflexivity|].
  rewrite !count_pair_cons, IH, (entry_has_congr _ _ _ _ e H). reflexivity.
Qed.

Lemma find_none_count l a b : find l a b = None <-> count_pair l a b = 0.
Proof.
  induction l as [|e l IH]; simpl.
  - unfold count_pair. simpl. tauto.
  - rewrite count_pair_cons. destruct (entry_has a b e).
    + split; [discriminate | lia].
    + simpl. exact IH.
Qed.

Lemma find_some l a b e : find l a b = Some e -> In e l /\ entry_has a b e = true.
Proof.
  induction l as [|f l IH]; simpl; [discriminate|].
  destruct (entry_has a b f) eqn:E.
  - intro H. inversion H; subst. auto.
  - intro H. destruct (IH H). auto.
Qed.

(** * one [add] *)
Lemma add_cases l v1 v2 valid tag :
  add l (v1, v2, valid, tag) =
  if valid && (count_pair l v1 v2 =? 0) then l ++ [(v1, v2, tag)] else l.
Proof.
  unfold add. destruct (find l v1 v2) as [e|] eqn:F.
  - assert (count_pair l v1 v2 <> 0) as N.
    { intro Z. apply find_none_count in Z. congruence. }
    apply Nat.eqb_neq in N. rewrite N, andb_false_r. reflexivity.
  - apply find_none_count in F. rewrite F. simpl. rewrite andb_true_r. reflexivity.
Qed.

Lemma add_count l v1 v2 valid tag a b :
  count_pair (add l (v1, v2, valid, tag)) a b =
  count_pair l a b + (if valid && (count_pair l v1 v2 =? 0) && same_pair a b v1 v2 then 1 else 0).
Proof.
  rewrite add_cases. destruct (valid && (count_pair l v1 v2 =? 0)); simpl.
  - rewrite count_pair_app. f_equal. unfold count_pair. simpl.
    destruct (same_pair a b v1 v2); reflexivity.
  - lia.
Qed.

Lemma add_incl l r e : In e l -> In e (add l r).
Proof.
  destruct r as [[[v1 v2] valid] tag]. rewrite add_cases.
  destruct (valid && _); [intro; apply in_or_app; auto | auto].
Qed.

Lemma add_all_incl rs : forall l e, In e l -> In e (add_all l rs).
Proof.
  induction rs as [|r rs IH]; intros l e H; simpl; [exact H|].
  apply IH. apply add_incl. exact H.
Qed.

(** entries are never altered or removed and keep their order: the old list is a prefix *)
Lemma add_prefix l r : exists m, add l r = l ++ m.
Proof.
  destruct r as [[[v1 v2] valid] tag]. rewrite add_cases.
  destruct (valid && _); [eexists; reflexivity | exists []; rewrite app_nil_r; reflexivity].
Qed.

Lemma add_all_prefix rs : forall l, exists m, add_all l rs = l ++ m.
Proof.
  induction rs as [|r rs IH]; intro l; simpl.
  - exists []. rewrite app_nil_r. reflexivity.
  - destruct (add_prefix l r) as [m Hm]. destruct (IH (add l r)) as [m' Hm'].
    exists (m ++ m'). rewrite Hm', Hm, app_assoc. reflexivity.
Qed.

(** * sequences of adds *)
Definition wants (a b : nat) (r : request) : bool :=
  let '(v1, v2, valid, _) := r in valid && same_pair a b v1 v2.

(** the number of entries on a vertex pair after any sequence of adds *)
Theorem add_all_count rs : forall l a b,
  count_pair (add_all l rs) a b =
  if count_pair l a b =? 0 then (if existsb (wants a b) rs then 1 else 0) else count_pair l a b.
Proof.
  induction rs as [|r rs IH]; intros l a b; simpl.
  - destruct (count_pair l a b =? 0) eqn:Z; [apply Nat.eqb_eq in Z; exact Z | reflexivity].
  - rewrite IH. destruct r as [[[v1 v2] valid] tag]. rewrite add_count. simpl wants.
    destruct (same_pair a b v1 v2) eqn:S.
    + rewrite <- (count_pair_congr l a b v1 v2 S).
      destruct (count_pair l a b =? 0) eqn:Z.
      * apply Nat.eqb_eq in Z. rewrite Z. destruct valid; simpl; reflexivity.
      * rewrite andb_false_r. simpl. rewrite Nat.add_0_r, Z. reflexivity.
    + rewrite !andb_false_r. simpl. rewrite Nat.add_0_r. reflexivity.
Qed.

Definition uniq (l : list entry) : Prop := forall a b, count_pair l a b <= 1.

Theorem add_all_uniq rs l : uniq l -> uniq (add_all l rs).
Proof.
  intros U a b. rewrite add_all_count. specialize (U a b).
  destruct (count_pair l a b =? 0); [destruct (existsb _ rs); lia | exact U].
Qed.

Lemma uniq_nil : uniq [].
Proof. intros a b. unfold count_pair. simpl. lia. Qed.

(** "exactly once": from the empty list, a vertex pair carries exactly one entry when some valid
    request asked for it (in either order of the two vertices) and none otherwise *)
Theorem exactly_once rs a b :
  count_pair (add_all [] rs) a b = if existsb (wants a b) rs then 1 else 0.
Proof. rewrite add_all_count. reflexivity. Qed.

(** every entry is a valid request, unchanged: same vertex order, same data *)
Lemma add_origin l r e : In e (add l r) -> In e l \/ (exists tag, r = (fst (fst e), snd (fst e), true, tag) /\ e = (fst (fst e), snd (fst e), tag)).
Proof.
  destruct r as [[[v1 v2] valid] tag]. rewrite add_cases.
  destruct valid; simpl; [|auto].
  destruct (count_pair l v1 v2 =? 0); [|auto].
  intro H. apply in_app_or in H. destruct H as [H|[H|[]]]; [auto|].
  right. subst e. simpl. exists tag. auto.
Qed.

Theorem entries_are_requests rs : forall l v1 v2 tag,
  In (v1, v2, tag) (add_all l rs) -> In (v1, v2, tag) l \/ In (v1, v2, true, tag) rs.
Proof.
  induction rs as [|r rs IH]; intros l v1 v2 tag H; simpl in *; [auto|].
  destruct (IH _ _ _ _ H) as [H1|H1]; [|auto].
  destruct (add_origin _ _ _ H1) as [H2|[t [H2 H3]]]; [auto|].
  simpl in *. inversion H3; subst. auto.
Qed.

(** the first valid definition of a vertex pair is the one that is written, in its own direction *)
Theorem first_wins rs1 rs2 v1 v2 tag :
  existsb (wants v1 v2) rs1 = false ->
  In (v1, v2, tag) (add_all [] (rs1 ++ (v1, v2, true, tag) :: rs2)).
Proof.
  intro H. unfold add_all. rewrite fold_left_app. cbn [fold_left].
  change (In (v1, v2, tag) (add_all (add (add_all [] rs1) (v1, v2, true, tag)) rs2)).
  apply (add_all_incl rs2). rewrite add_cases.
  rewrite exactly_once, H. simpl. apply in_or_app. right. left. reflexivity.
Qed.

(** an invalid request never creates an entry (and does not block a later valid one: [exactly_once]) *)
Theorem invalid_ignored l v1 v2 tag : add l (v1, v2, false, tag) = l.
Proof. rewrite add_cases. reflexivity. Qed.

(** satisfiability of the hypothesis of [first_wins] *)
Example first_wins_example :
  add_all [] ([(0, 1, false, 7); (2, 3, true, 8)] ++ (1, 0, true, 9) :: [(0, 1, true, 10)]) = [(2, 3, 8); (1, 0, 9)].
Proof. vm_compute. reflexivity. Qed.

(** * the twelve slots against the reference hexahedron *)
Lemma slot_dirs_are_edges :
  forallb (fun s => is_edge (fst (slot_dir s)) (snd (slot_dir s))) slots = true.
Proof. vm_compute. reflexivity. Qed.

Lemma slot_dirs_distinct :
  forallb (fun s => forallb (fun t => (s =? t) ||
     negb (same_pair (fst (slot_dir s)) (snd (slot_dir s)) (fst (slot_dir t)) (snd (slot_dir t)))) slots) slots = true.
Proof. vm_compute. reflexivity. Qed.

(** every edge of the hexahedron is the direction of exactly one slot, forwards or backwards *)
Lemma slot_dirs_cover :
  forallb (fun ij => negb (is_edge (fst ij) (snd ij)) ||
     (length (filter (fun s => same_pair (fst ij) (snd ij) (fst (slot_dir s)) (snd (slot_dir s))) slots) =? 1))
    (list_prod corners corners) = true.
Proof. vm_compute. reflexivity. Qed.

(** the face slots run around each face in the cyclic order of its corners and the side slots go up *)
Lemma slot_dirs_cyclic :
  forallb (fun i => (snd (slot_dir i) =? fst (slot_dir ((i + 1) mod 4)))
                    && (snd (slot_dir (i + 4)) =? fst (slot_dir ((i + 1) mod 4 + 4)))
                    && (fst (slot_dir (i + 8)) =? fst (slot_dir i))
                    && (snd (slot_dir (i + 8)) =? fst (slot_dir (i + 4)))) [0; 1; 2; 3] = true.
Proof. vm_compute. reflexivity. Qed.

Lemma consistentb_spec s e v1 v2 ord :
  consistentb s e v1 v2 ord = true <->
  (ord = 0 /\ ((v1 = s /\ v2 = e) \/ (v1 = e /\ v2 = s))) \/ (ord = 1 /\ v1 = s /\ v2 = e) \/ (ord = 2 /\ v1 = e /\ v2 = s).
Proof.
  unfold consistentb. destruct ord as [|[|[|n]]].
  - rewrite same_pair_spec. intuition; try discriminate.
  - rewrite andb_true_iff, !Nat.eqb_eq. intuition; try discriminate.
  - rewrite andb_true_iff, !Nat.eqb_eq. intuition; try discriminate.
  - split; [discriminate|]. intuition; discriminate.
Qed.
