(** Phase 1 (BlockList.grade_blocks) establishes the provenance invariant [Good]; phase 2 (the
    propagation loop) preserves it; consequences for the final states. *)
From Coq Require Import List Bool Arith Lia.
From CB Require Import Model.Propagate Proofs.PropagateBasics Proofs.PropagateTerm Proofs.PropagateInv.
Import ListNotations.
Set Default Proof Using "Type".

Lemma fold_left_flat_map {A B C} (f : A -> B -> A) (h : C -> list B) (l : list C) : forall s,
  fold_left (fun s b => fold_left f (h b) s) l s = fold_left f (flat_map h l) s.
Proof. induction l as [|c l IH]; intro s; simpl; [reflexivity|]. rewrite fold_left_app. apply IH. Qed.

Lemma NoDup_app_intro {A} (l m : list A) :
  NoDup l -> NoDup m -> (forall x, In x l -> ~ In x m) -> NoDup (l ++ m).
Proof.
  induction l as [|a l IH]; intros Hl Hm Hd; simpl; [exact Hm|].
  inversion Hl; subst. constructor.
  - intro X. apply in_app_iff in X. destruct X as [X | X]; [contradiction|]. apply (Hd a); simpl; auto.
  - apply IH; auto. intros x Hx. apply Hd. right. exact Hx.
Qed.

Lemma all_axes_S m : all_axes (S m) = all_axes m ++ axes_of_block m.
Proof. unfold all_axes. rewrite seq_S. rewrite flat_map_app. simpl. reflexivity. Qed.

Lemma all_axes_nodup m : NoDup (all_axes m).
Proof.
  induction m as [|m IH]; [constructor|]. rewrite all_axes_S. apply NoDup_app_intro; [exact IH| |].
  - unfold axes_of_block. simpl. repeat constructor; simpl; intros X;
      repeat match goal with H : _ \/ _ |- _ => destruct H end; try discriminate; try contradiction;
      match goal with H : (_, _) = (_, _) |- _ => inversion H end.
  - intros x Hx X. apply in_all_axes in Hx. apply in_axes_of_block in X. lia.
Qed.

Section Init.
  Variable bs : list blk.
  Variable o_coin : wire -> list wire.
  Variable o_nbrs : axis -> list axis.
  Hypothesis Hco : forall w c, In w (all_wires (nblocks bs)) -> In c (o_coin w) -> In c (coin_set bs w).
  Hypothesis Hnb : forall x y, In x (all_axes (nblocks bs)) -> In y (o_nbrs x) -> In y (nbr_set bs x).

  Notation n := (nblocks bs).
  Notation chopped := (chopped bs).
  Notation user_chops := (user_chops bs).
  Notation grade_axis := (grade_axis bs o_coin).
  Notation vw := (vw bs).
  Notation va := (va bs).
  Notation same_ends := (same_ends bs).
  Notation sourced := (sourced bs).
  Notation origin := (origin bs).
  Notation Good := (Good bs).

  Lemma grade_blocks_flat s : grade_blocks bs o_coin s = fold_left grade_axis (all_axes n) s.
  Proof. unfold grade_blocks, grade_block, all_axes. apply fold_left_flat_map. Qed.

  Record Good0 (done : list axis) (s : st) : Prop := {
    P0 : forall x, ach s x = user_chops x;
    P1 : forall x, va x -> ~ In x done -> forall w, In w (wires_of_axis x) -> g s w = [];
    P2 : forall x, In x done -> va x -> chopped x = true -> forall w, In w (wires_of_axis x) -> g s w = user_chops x;
    P3 : forall w, vw w -> g s w <> [] -> origin (fun x => chopped x = true) w /\ sourced (g s w) (w_axis w)
  }.

  Lemma wires_disjoint x y w : In w (wires_of_axis x) -> In w (wires_of_axis y) -> x = y.
  Proof. intros H1 H2. apply in_wires_of_axis in H1, H2. destruct H1 as [H1 _], H2 as [H2 _]. congruence. Qed.

  Lemma good0_step done s x : Good0 done s -> va x -> ~ In x done -> Good0 (done ++ [x]) (grade_axis s x).
  Proof using Hco.
    intros GS Vx Nx.
    destruct (grade_axis_basic bs o_coin s x) as (A & _ & O).
    destruct (chopped x) eqn:Cx.
    - (* chopped: every wire gets the user chops *)
      assert (forall w, In w (wires_of_axis x) -> g (grade_axis s x) w = user_chops x) as V.
      { intros w Hw. unfold Propagate.grade_axis. rewrite Cx.
        destruct (fold_append_spec x (wires_of_axis x) s (wires_of_axis_nodup x)) as (_ & _ & _ & V).
        rewrite V by exact Hw. rewrite (P1 _ _ GS x Vx Nx w Hw). simpl. apply (P0 _ _ GS). }
      constructor.
      + intro y. rewrite A. apply (P0 _ _ GS).
      + intros y Vy Ny w Hw. rewrite O.
        * apply (P1 _ _ GS y Vy); auto. intro X. apply Ny. apply in_app_iff. left. exact X.
        * intro X. assert (y = x) by (eapply wires_disjoint; eauto). subst. apply Ny. apply in_app_iff. right. left. reflexivity.
      + intros y Hy Vy Cy w Hw. apply in_app_iff in Hy. destruct Hy as [Hy | [Hy | []]].
        * rewrite O. { apply (P2 _ _ GS y Hy Vy Cy w Hw). }
          intro X. assert (y = x) by (eapply wires_disjoint; eauto). subst. contradiction.
        * subst y. apply V. exact Hw.
      + intros w Vw Hw. destruct (in_dec wire_eq_dec w (wires_of_axis x)) as [Hin | Hout].
        * rewrite (V w Hin). pose proof Hin as Hin'. apply in_wires_of_axis in Hin'. destruct Hin' as [Ex _]. split.
          -- exists w. repeat split; auto. { apply same_ends_refl. } rewrite Ex. exact Cx.
          -- exists x. rewrite Ex. repeat split; auto. apply fam_refl.
        * rewrite O in * by exact Hout. apply (P3 _ _ GS w Vw Hw).
    - (* un-chopped: only copies from defined coincident wires *)
      assert (ach s x = []) as Ax.
      { rewrite (P0 _ _ GS). destruct (user_chops x) eqn:E; [reflexivity|].
        assert (chopped x = true) as X by (apply chopped_iff; rewrite E; discriminate). congruence. }
      constructor.
      + intro y. rewrite A. apply (P0 _ _ GS).
      + intros y Vy Ny w Hw. rewrite O.
        * apply (P1 _ _ GS y Vy); auto. intro X. apply Ny. apply in_app_iff. left. exact X.
        * intro X. assert (y = x) by (eapply wires_disjoint; eauto). subst. apply Ny. apply in_app_iff. right. left. reflexivity.
      + intros y Hy Vy Cy w Hw. apply in_app_iff in Hy. destruct Hy as [Hy | [Hy | []]]; [|subst; congruence].
        rewrite O. { apply (P2 _ _ GS y Hy Vy Cy w Hw). }
        intro X. assert (y = x) by (eapply wires_disjoint; eauto). subst. contradiction.
      + intros w Vw Hw. destruct (in_dec wire_eq_dec w (wires_of_axis x)) as [Hin | Hout].
        * destruct (grade_unchopped_detail bs o_coin Hco s x Vx Cx w Hin) as [[E1 E2] | [[E1 E2] | (E1 & c & Hc & Dc & E2)]].
          -- exfalso. apply E2. apply (P1 _ _ GS x Vx Nx w Hin).
          -- exfalso. apply Hw. rewrite E2. exact Ax.
          -- destruct (coin_wire_facts bs o_coin Hco w c Vw Hc) as (Vc & Sc & Nc).
             destruct (P3 _ _ GS c Vc Dc) as [(o & Vo & So & Po) S3]. split.
             ++ exists o. repeat split; auto. eapply same_ends_trans; eauto.
             ++ apply sourced_total with (v := g s c).
                ** eapply sourced_step; [exact S3 | apply vw_axis; exact Vw | exact Nc].
                ** destruct E2 as [E2 | E2]; rewrite E2; [reflexivity | apply total_rev].
        * rewrite O in * by exact Hout. apply (P3 _ _ GS w Vw Hw).
  Qed.

  Lemma good0_fold rest : forall done s,
    NoDup (done ++ rest) -> (forall x, In x rest -> va x) -> Good0 done s ->
    Good0 (done ++ rest) (fold_left grade_axis rest s).
  Proof using Hco.
    induction rest as [|x rest IH]; intros done s ND Hv GS; simpl.
    - rewrite app_nil_r. exact GS.
    - assert (~ In x done) as Nx.
      { intro X. apply NoDup_remove_2 in ND. apply ND. apply in_app_iff. left. exact X. }
      replace (done ++ x :: rest) with ((done ++ [x]) ++ rest) in * by (rewrite <- app_assoc; reflexivity).
      apply IH; auto.
      + intros y Hy. apply Hv. right. exact Hy.
      + apply good0_step; auto. apply Hv. left. reflexivity.
  Qed.

  Lemma good0_init : Good0 [] (init bs).
  Proof.
    constructor; simpl.
    - reflexivity.
    - reflexivity.
    - intros x [].
    - intros w _ H. exfalso. apply H. reflexivity.
  Qed.

  Theorem grade_blocks_good : Good (grade_blocks bs o_coin (init bs)).
  Proof using Hco.
    rewrite grade_blocks_flat.
    pose proof (good0_fold (all_axes n) [] (init bs)) as H. simpl in H.
    specialize (H (all_axes_nodup n) (fun x Hx => Hx) good0_init).
    set (s := fold_left grade_axis (all_axes n) (init bs)) in *.
    assert (forall x, ach s x <> [] -> chopped x = true) as HC.
    { intros x Hx. apply chopped_iff. rewrite <- (P0 _ _ H). exact Hx. }
    assert (forall x, chopped x = true -> ach s x <> []) as HC'.
    { intros x Hx. rewrite (P0 _ _ H). apply chopped_iff. exact Hx. }
    constructor.
    - intros x Vx Hx. unfold a_defined. apply forallb_forall. intros w Hw. apply w_defined_iff.
      rewrite (P2 _ _ H x Vx Vx (HC x Hx) w Hw). apply chopped_iff. apply HC. exact Hx.
    - intros w Vw Hw. destruct (P3 _ _ H w Vw Hw) as [(o & Vo & So & Po) _]. exists o. repeat split; auto.
    - intros w Vw Hw. apply (P3 _ _ H w Vw Hw).
    - intros x Vx Hx. exists x. repeat split; auto. { apply fam_refl. } rewrite (P0 _ _ H). reflexivity.
    - intros x Vx Cx w Hw. apply (P2 _ _ H x Vx Vx Cx w Hw).
  Qed.

  (** ** Phase 2 *)
  Notation copy_axis := (copy_axis bs o_coin o_nbrs).
  Notation copy_block := (copy_block bs o_coin o_nbrs).
  Notation scan := (scan bs o_coin o_nbrs).
  Notation propagate := (propagate bs o_coin o_nbrs).

  Lemma copy_block_fold_good xs : forall s u0 s' u,
    fold_left (fun sb x => let '(s', u) := copy_axis (fst sb) x in (s', u || snd sb)) xs (s, u0) = (s', u) ->
    (forall x, In x xs -> va x) -> Good s -> Good s'.
  Proof using Hco Hnb.
    induction xs as [|x xs IH]; intros s u0 s' u H Hv GS; simpl in H.
    - inversion H; subst. exact GS.
    - destruct (copy_axis s x) as [s1 u1] eqn:E. simpl in H.
      eapply IH; [exact H | intros y Hy; apply Hv; right; exact Hy |].
      eapply copy_axis_good; eauto. apply Hv. left. reflexivity.
  Qed.

  Lemma copy_block_good s b s' u : b < n -> copy_block s b = (s', u) -> Good s -> Good s'.
  Proof using Hco Hnb.
    intros Hb. unfold Propagate.copy_block. destruct (b_defined s b).
    - intro H; inversion H; subst. auto.
    - intros H GS. eapply copy_block_fold_good; eauto.
      intros x Hx. apply in_axes_of_block in Hx. apply in_all_axes. lia.
  Qed.

  Lemma scan_good todo : forall s before upd s' undef' u',
    scan s before todo upd = (s', undef', u') -> (forall i, In i todo -> i < n) -> Good s -> Good s'.
  Proof using Hco Hnb.
    induction todo as [|i rest IH]; intros s before upd s' undef' u' H Hn GS; simpl in H.
    - inversion H; subst. exact GS.
    - destruct (b_defined s i).
      + inversion H; subst. exact GS.
      + destruct (copy_block s i) as [s1 u1] eqn:E.
        eapply IH; [exact H | intros j Hj; apply Hn; right; exact Hj |].
        eapply copy_block_good; eauto. apply Hn. left. reflexivity.
  Qed.

  (** blocks outside the work list are defined *)
  Definition Outside (s : st) (undef : list nat) : Prop := forall b, b < n -> ~ In b undef -> b_defined s b = true.

  Lemma propagate_inv fuel : forall s undef,
    (forall i, In i undef -> i < n) -> Good s -> Outside s undef ->
    match propagate fuel s undef with
    | Done s' => Good s' /\ Outside s' []
    | Stuck s' undef' =>
        Good s' /\ Outside s' undef' /\ undef' <> [] /\ (forall i, In i undef' -> i < n) /\
        scan s' [] undef' false = (s', undef', false)
    | OutOfFuel => True
    end.
  Proof using Hco Hnb.
    induction fuel as [|f IH]; intros s undef Hn GS OS.
    - destruct undef; simpl; auto.
    - destruct undef as [|i rest]; [simpl; auto|].
      rewrite propagate_unfold.
      destruct (scan s [] (i :: rest) false) as [[s' undef'] u'] eqn:E.
      pose proof (scan_spec bs o_coin o_nbrs (i :: rest) s [] false s' undef' u' E Hn) as (M & L & T & I1 & I2).
      rewrite app_nil_l in *.
      pose proof (scan_good _ _ _ _ _ _ _ E Hn GS) as GS'.
      assert (Outside s' undef') as OS'.
      { intros b Hb Nb. destruct (in_dec Nat.eq_dec b (i :: rest)) as [Hin | Hout].
        - apply I2; auto.
        - eapply mono_block; [exact M|]. apply OS; auto. }
      destruct u'.
      + apply IH; auto.
      + destruct undef' as [|j undef'].
        * auto.
        * split; [exact GS'|]. split; [exact OS'|]. split; [discriminate|]. split; [intros k Hk; apply Hn; apply I1; exact Hk|].
          (* no update: the scan changed nothing *)
          destruct (scan_no_update bs o_coin o_nbrs (i :: rest) s [] s' (j :: undef') Hn E) as [X1 X2].
          simpl in X2. subst s'. rewrite X2 in *. exact E.
  Qed.
End Init.
