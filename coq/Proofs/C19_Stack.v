(** C19 - lemmas about the list model of grids, slices, core/shell and delete (Model/C19_Stack.v).
    Everything here is for all sizes (induction), nothing depends on Gen/. *)
From Coq Require Import List Arith ZArith Bool Lia.
From CB Require Import Model.C19_Stack.
Import ListNotations.

(** * generic list facts *)
Lemma nth_error_seq : forall n s i, nth_error (seq s n) i = if i <? n then Some (s + i) else None.
Proof.
  induction n as [|n IH]; intros s i; simpl.
  - destruct i; reflexivity.
  - destruct i as [|i]; simpl.
    + rewrite Nat.add_0_r. reflexivity.
    + rewrite IH. change (S i <? S n) with (i <? n). destruct (i <? n); [f_equal; lia | reflexivity].
Qed.

Lemma nth_error_map' {A B} (f : A -> B) l i : nth_error (map f l) i = option_map f (nth_error l i).
Proof. revert i; induction l as [|x l IH]; intros [|i]; simpl; auto. Qed.

Lemma all_some_map_Some {A B} (f : A -> option B) (g : A -> B) l :
  (forall x, In x l -> f x = Some (g x)) -> all_some (map f l) = Some (map g l).
Proof.
  induction l as [|x l IH]; intro H; simpl; [reflexivity|].
  rewrite (H x (or_introl eq_refl)). rewrite IH; [reflexivity|]. intros y Hy. apply H. right. exact Hy.
Qed.

Lemma all_some_map_None {A B} (f : A -> option B) l :
  (exists x, In x l /\ f x = None) -> all_some (map f l) = None.
Proof.
  induction l as [|x l IH]; intros [y [Hy Hn]]; simpl.
  - destruct Hy.
  - destruct Hy as [->|Hy].
    + rewrite Hn. reflexivity.
    + destruct (f x); [|reflexivity]. rewrite IH; [reflexivity|]. exists y. auto.
Qed.

Lemma NoDup_app_intro {A} (l m : list A) :
  NoDup l -> NoDup m -> (forall x, In x l -> ~ In x m) -> NoDup (l ++ m).
Proof.
  induction l as [|x l IH]; intros Hl Hm Hd; simpl; [exact Hm|].
  inversion Hl; subst. constructor.
  - intro Hin. apply in_app_or in Hin. destruct Hin as [Hin|Hin]; [contradiction|].
    apply (Hd x); [left; reflexivity | exact Hin].
  - apply IH; auto. intros y Hy. apply Hd. right. exact Hy.
Qed.

Lemma NoDup_flat_map {A B} (f : A -> list B) l :
  NoDup l -> (forall x, In x l -> NoDup (f x)) ->
  (forall x y z, In x l -> In y l -> In z (f x) -> In z (f y) -> x = y) ->
  NoDup (flat_map f l).
Proof.
  induction l as [|x l IH]; intros Hl Hf Hd; simpl; [constructor|].
  inversion Hl; subst. apply NoDup_app_intro.
  - apply Hf. left. reflexivity.
  - apply IH; auto.
    + intros y Hy. apply Hf. right. exact Hy.
    + intros a b z Ha Hb. apply Hd; right; assumption.
  - intros z Hz Hin. apply in_flat_map in Hin. destruct Hin as [y [Hy Hzy]].
    assert (x = y) by (apply (Hd x y z); [left; reflexivity | right; exact Hy | exact Hz | exact Hzy]).
    subst. contradiction.
Qed.

Lemma NoDup_map_inj {A B} (f : A -> B) l :
  (forall x y, In x l -> In y l -> f x = f y -> x = y) -> NoDup l -> NoDup (map f l).
Proof.
  induction l as [|x l IH]; intros Hi Hl; simpl; [constructor|].
  inversion Hl; subst. constructor.
  - intro Hin. apply in_map_iff in Hin. destruct Hin as [y [Hxy Hy]].
    assert (y = x) by (apply Hi; [right; exact Hy | left; reflexivity | exact Hxy]). subst. contradiction.
  - apply IH; auto. intros a b Ha Hb. apply Hi; right; assumption.
Qed.

Lemma concat_map_flat_map {A B} (f : A -> list B) l : concat (map f l) = flat_map f l.
Proof. induction l; simpl; congruence. Qed.

Lemma length_flat_map_const {A B} (f : A -> list B) l c :
  (forall x, In x l -> length (f x) = c) -> length (flat_map f l) = length l * c.
Proof.
  induction l as [|x l IH]; intro H; simpl; [reflexivity|].
  rewrite app_length, IH, H; auto. left; reflexivity. intros y Hy. apply H. right; exact Hy.
Qed.

(** * Python indexing *)
Lemma py_nth_nonneg {A} (l : list A) (i : nat) : py_nth l (Z.of_nat i) = nth_error l i.
Proof.
  unfold py_nth. destruct (0 <=? Z.of_nat i)%Z eqn:E.
  - rewrite Nat2Z.id. reflexivity.
  - apply Z.leb_gt in E. lia.
Qed.

(** index -m, 1 <= m <= len, is element len - m *)
Lemma py_nth_neg {A} (l : list A) (m : nat) :
  1 <= m <= length l -> py_nth l (- Z.of_nat m) = nth_error l (length l - m).
Proof.
  intro H. unfold py_nth. destruct (0 <=? - Z.of_nat m)%Z eqn:E.
  - apply Z.leb_le in E. lia.
  - destruct (- Z.of_nat (length l) <=? - Z.of_nat m)%Z eqn:E2.
    + f_equal. lia.
    + apply Z.leb_gt in E2. lia.
Qed.

Lemma py_nth_out {A} (l : list A) (i : Z) :
  ~ (- Z.of_nat (length l) <= i < Z.of_nat (length l))%Z -> py_nth l i = None.
Proof.
  intro H. unfold py_nth. destruct (0 <=? i)%Z eqn:E.
  - apply Z.leb_le in E. apply nth_error_None. lia.
  - apply Z.leb_gt in E. destruct (- Z.of_nat (length l) <=? i)%Z eqn:E2; [|reflexivity].
    apply Z.leb_le in E2. lia.
Qed.

(** the element a valid (possibly negative) index denotes: position [i mod len] *)
Lemma py_nth_valid {A} (l : list A) (i : Z) :
  (- Z.of_nat (length l) <= i < Z.of_nat (length l))%Z ->
  py_nth l i = nth_error l (Z.to_nat (i mod Z.of_nat (length l))).
Proof.
  intro H. destruct (Z_lt_le_dec i 0) as [Hn|Hp].
  - replace i with (- Z.of_nat (Z.to_nat (- i)))%Z by lia.
    rewrite py_nth_neg by lia. f_equal.
    set (n := Z.of_nat (length l)) in *.
    assert ((- Z.of_nat (Z.to_nat (- i))) mod n = n + i)%Z as ->.
    { replace (- Z.of_nat (Z.to_nat (- i)))%Z with ((n + i) + (-1) * n)%Z by lia.
      rewrite Z.mod_add by lia. apply Z.mod_small. lia. }
    lia.
  - replace i with (Z.of_nat (Z.to_nat i)) at 1 by lia. rewrite py_nth_nonneg.
    rewrite Z.mod_small by lia. reflexivity.
Qed.

(** * construction: the grid of a stack on a cartesian sketch *)
Lemma mapi_map_nth_gen {A B C} (h : A -> B) (g : A -> B -> C) (d : B) : forall l pre,
  map (fun p => g (snd p) (nth (fst p) (map h (pre ++ l)) d)) (combine (seq (length pre) (length l)) l)
  = map (fun x => g x (h x)) l.
Proof.
  induction l as [|x l IH]; intro pre; simpl; [reflexivity|].
  f_equal.
  - rewrite map_app, app_nth2; rewrite map_length; [|lia]. rewrite Nat.sub_diag. reflexivity.
  - specialize (IH (pre ++ [x])). rewrite <- app_assoc in IH. simpl in IH.
    rewrite app_length in IH. simpl in IH. rewrite Nat.add_1_r in IH. exact IH.
Qed.

Lemma mapi_map_nth {A B C} (h : A -> B) (g : A -> B -> C) (d : B) l :
  mapi (fun i x => g x (nth i (map h l) d)) l = map (fun x => g x (h x)) l.
Proof. unfold mapi. exact (mapi_map_nth_gen h g d l []). Qed.

Lemma lofted_map {F} (d : F) (up : F -> F) (s : list (list F)) :
  lofted d s (map (map up) s) = map (map (fun f => (f, up f))) s.
Proof.
  unfold lofted.
  rewrite (mapi_map_nth (map up) (fun row r2 => mapi (fun j f1 => (f1, nth j r2 d)) row) []).
  apply map_ext. intro row.
  exact (mapi_map_nth up (fun f1 f2 => (f1, f2)) d row).
Qed.

Definition up_face (f : face) : face := (fst (fst f), snd (fst f), S (snd f)).

Lemma at_level_S l s : at_level (S l) s = map (map up_face) (at_level l s).
Proof.
  unfold at_level. rewrite map_map. apply map_ext. intro row. rewrite map_map. reflexivity.
Qed.

Lemma tier_shape l s :
  lofted (0, 0, 0) (at_level l s) (at_level (S l) s) = map (map (fun c => cell_op (fst c) (snd c) l)) s.
Proof.
  rewrite at_level_S, lofted_map. unfold at_level. rewrite map_map. apply map_ext. intro row.
  rewrite map_map. reflexivity.
Qed.

Lemma tstack_spec s : forall r l,
  tstack s l r = map (fun k => map (map (fun c => cell_op (fst c) (snd c) k)) s) (seq l r).
Proof. induction r as [|r IH]; intro l; simpl; [reflexivity|]. rewrite tier_shape, IH. reflexivity. Qed.

(** closed form of the whole grid: tier k, row j, column i holds [cell_op i j k] *)
Definition lattice (nx ny nz : nat) : list (list (list op)) :=
  map (fun k => map (fun j => map (fun i => cell_op i j k) (seq 0 nx)) (seq 0 ny)) (seq 0 nz).

Lemma stack_grid_lattice nx ny nz : stack_grid nx ny nz = lattice nx ny nz.
Proof.
  unfold stack_grid, lattice, grid_sketch. rewrite tstack_spec. apply map_ext. intro k.
  rewrite map_map. apply map_ext. intro j. rewrite map_map. reflexivity.
Qed.

Definition grid_at {A} (g : list (list (list A))) (i j k : nat) : option A :=
  match nth_error g k with
  | Some s => match nth_error s j with Some r => nth_error r i | None => None end
  | None => None
  end.

Theorem grid_index nx ny nz i j k :
  i < nx -> j < ny -> k < nz -> grid_at (stack_grid nx ny nz) i j k = Some (cell_op i j k).
Proof.
  intros Hi Hj Hk. rewrite stack_grid_lattice. unfold grid_at, lattice.
  rewrite nth_error_map', nth_error_seq. apply Nat.ltb_lt in Hk. rewrite Hk. simpl.
  rewrite nth_error_map', nth_error_seq. apply Nat.ltb_lt in Hj. rewrite Hj. simpl.
  rewrite nth_error_map', nth_error_seq. apply Nat.ltb_lt in Hi. rewrite Hi. simpl. reflexivity.
Qed.

Theorem grid_index_out nx ny nz i j k :
  ~ (i < nx /\ j < ny /\ k < nz) -> grid_at (stack_grid nx ny nz) i j k = None.
Proof.
  intro H. rewrite stack_grid_lattice. unfold grid_at, lattice.
  rewrite nth_error_map', nth_error_seq. destruct (k <? nz) eqn:Ek; simpl; [|reflexivity].
  rewrite nth_error_map', nth_error_seq. destruct (j <? ny) eqn:Ej; simpl; [|reflexivity].
  rewrite nth_error_map', nth_error_seq. destruct (i <? nx) eqn:Ei; simpl; [|reflexivity].
  apply Nat.ltb_lt in Ek, Ej, Ei. tauto.
Qed.

Theorem grid_dims nx ny nz :
  length (stack_grid nx ny nz) = nz /\
  Forall (fun s => length s = ny /\ Forall (fun r : list op => length r = nx) s) (stack_grid nx ny nz).
Proof.
  rewrite stack_grid_lattice. unfold lattice. split.
  - rewrite map_length, seq_length. reflexivity.
  - apply Forall_forall. intros s Hs. apply in_map_iff in Hs. destruct Hs as [k [<- _]]. split.
    + rewrite map_length, seq_length. reflexivity.
    + apply Forall_forall. intros r Hr. apply in_map_iff in Hr. destruct Hr as [j [<- _]].
      rewrite map_length, seq_length. reflexivity.
Qed.

(** all operations of the stack: every lattice cell exactly once *)
Lemma cell_op_inj i j k i' j' k' : cell_op i j k = cell_op i' j' k' -> i = i' /\ j = j' /\ k = k'.
Proof. unfold cell_op. intro H. inversion H. auto. Qed.

Lemma stack_ops_lattice nx ny nz :
  stack_ops (stack_grid nx ny nz)
  = flat_map (fun k => flat_map (fun j => map (fun i => cell_op i j k) (seq 0 nx)) (seq 0 ny)) (seq 0 nz).
Proof.
  rewrite stack_grid_lattice. unfold stack_ops, lattice, shape_ops.
  rewrite map_map, concat_map_flat_map. apply flat_map_ext. intro k. apply concat_map_flat_map.
Qed.

Theorem stack_ops_cells nx ny nz o :
  In o (stack_ops (stack_grid nx ny nz)) <-> exists i j k, i < nx /\ j < ny /\ k < nz /\ o = cell_op i j k.
Proof.
  rewrite stack_ops_lattice. split.
  - intro H. apply in_flat_map in H. destruct H as [k [Hk H]]. apply in_flat_map in H. destruct H as [j [Hj H]].
    apply in_map_iff in H. destruct H as [i [<- Hi]]. apply in_seq in Hk, Hj, Hi.
    exists i, j, k. repeat split; try lia.
  - intros (i & j & k & Hi & Hj & Hk & ->). apply in_flat_map. exists k. split; [apply in_seq; lia|].
    apply in_flat_map. exists j. split; [apply in_seq; lia|]. apply in_map_iff. exists i. split; [reflexivity | apply in_seq; lia].
Qed.

Lemma NoDup_row (f : nat -> op) n : (forall a b, f a = f b -> a = b) -> NoDup (map f (seq 0 n)).
Proof. intro H. apply NoDup_map_inj; [intros; auto | apply seq_NoDup]. Qed.

Theorem stack_ops_NoDup nx ny nz : NoDup (stack_ops (stack_grid nx ny nz)).
Proof.
  rewrite stack_ops_lattice. apply NoDup_flat_map; [apply seq_NoDup | |].
  - intros k _. apply NoDup_flat_map; [apply seq_NoDup | |].
    + intros j _. apply NoDup_row. intros a b H. apply cell_op_inj in H. tauto.
    + intros j j' z _ _ H1 H2. apply in_map_iff in H1, H2. destruct H1 as [a [<- _]], H2 as [b [E _]].
      apply cell_op_inj in E. lia.
  - intros k k' z _ _ H1 H2. apply in_flat_map in H1, H2.
    destruct H1 as [j [_ H1]], H2 as [j' [_ H2]]. apply in_map_iff in H1, H2.
    destruct H1 as [a [<- _]], H2 as [b [E _]]. apply cell_op_inj in E. lia.
Qed.

Theorem stack_ops_length nx ny nz : length (stack_ops (stack_grid nx ny nz)) = nz * (ny * nx).
Proof.
  rewrite stack_ops_lattice.
  rewrite (length_flat_map_const _ _ (ny * nx)), seq_length; [reflexivity|].
  intros k _. rewrite (length_flat_map_const _ _ nx), seq_length; [reflexivity|].
  intros j _. rewrite map_length, seq_length. reflexivity.
Qed.

(** * slices *)
(** what each slice has to be, in the order the implementation lists it *)
Definition slice_spec (nx ny nz axis c : nat) : list op :=
  match axis with
  | 0 => flat_map (fun k => map (fun j => cell_op c j k) (seq 0 ny)) (seq 0 nz)
  | 1 => flat_map (fun k => map (fun i => cell_op i c k) (seq 0 nx)) (seq 0 nz)
  | _ => flat_map (fun j => map (fun i => cell_op i j c) (seq 0 nx)) (seq 0 ny)
  end.

Lemma slice_spec_In nx ny nz axis c o :
  axis < 3 -> c < dim nx ny nz axis ->
  (In o (slice_spec nx ny nz axis c) <-> In o (stack_ops (stack_grid nx ny nz)) /\ coord axis o = c).
Proof.
  intros Ha Hc. rewrite stack_ops_cells.
  destruct axis as [|[|[|axis]]]; [| | |lia]; simpl in *; split.
  - intro H. apply in_flat_map in H. destruct H as [k [Hk H]]. apply in_map_iff in H. destruct H as [j [<- Hj]].
    apply in_seq in Hk, Hj. split; [|reflexivity]. exists c, j, k. repeat split; lia.
  - intros [(i & j & k & Hi & Hj & Hk & ->) E]. simpl in E. subst i.
    apply in_flat_map. exists k. split; [apply in_seq; lia|]. apply in_map_iff. exists j. split; [reflexivity | apply in_seq; lia].
  - intro H. apply in_flat_map in H. destruct H as [k [Hk H]]. apply in_map_iff in H. destruct H as [i [<- Hi]].
    apply in_seq in Hk, Hi. split; [|reflexivity]. exists i, c, k. repeat split; lia.
  - intros [(i & j & k & Hi & Hj & Hk & ->) E]. simpl in E. subst j.
    apply in_flat_map. exists k. split; [apply in_seq; lia|]. apply in_map_iff. exists i. split; [reflexivity | apply in_seq; lia].
  - intro H. apply in_flat_map in H. destruct H as [j [Hj H]]. apply in_map_iff in H. destruct H as [i [<- Hi]].
    apply in_seq in Hj, Hi. split; [|reflexivity]. exists i, j, c. repeat split; lia.
  - intros [(i & j & k & Hi & Hj & Hk & ->) E]. simpl in E. subst k.
    apply in_flat_map. exists j. split; [apply in_seq; lia|]. apply in_map_iff. exists i. split; [reflexivity | apply in_seq; lia].
Qed.

Lemma slice_spec_NoDup nx ny nz axis c : NoDup (slice_spec nx ny nz axis c).
Proof.
  destruct axis as [|[|axis]]; simpl;
    (apply NoDup_flat_map; [apply seq_NoDup | intros a _; apply NoDup_row; intros x y H; apply cell_op_inj in H; tauto |
      intros a b z _ _ H1 H2; apply in_map_iff in H1, H2; destruct H1 as [x [<- _]], H2 as [y [E _]];
      apply cell_op_inj in E; lia]).
Qed.

Lemma slice_spec_length nx ny nz axis c :
  length (slice_spec nx ny nz axis c)
  = match axis with 0 => nz * ny | 1 => nz * nx | _ => ny * nx end.
Proof.
  destruct axis as [|[|axis]]; simpl.
  - rewrite (length_flat_map_const _ _ ny), seq_length; [reflexivity|]. intros; rewrite map_length, seq_length; reflexivity.
  - rewrite (length_flat_map_const _ _ nx), seq_length; [reflexivity|]. intros; rewrite map_length, seq_length; reflexivity.
  - rewrite (length_flat_map_const _ _ nx), seq_length; [reflexivity|]. intros; rewrite map_length, seq_length; reflexivity.
Qed.

Lemma row_length nx j k : length (map (fun i => cell_op i j k) (seq 0 nx)) = nx.
Proof. rewrite map_length, seq_length. reflexivity. Qed.
Lemma shape_length nx ny k : length (map (fun j => map (fun i => cell_op i j k) (seq 0 nx)) (seq 0 ny)) = ny.
Proof. rewrite map_length, seq_length. reflexivity. Qed.
Lemma lattice_length nx ny nz : length (lattice nx ny nz) = nz.
Proof. unfold lattice. rewrite map_length, seq_length. reflexivity. Qed.

(** position a valid Python index denotes in a list of length n *)
Definition norm_index (n : nat) (idx : Z) : nat := Z.to_nat (idx mod Z.of_nat n).

Lemma norm_index_lt n idx : 0 < n -> norm_index n idx < n.
Proof.
  intro H. unfold norm_index. pose proof (Z.mod_pos_bound idx (Z.of_nat n)). lia.
Qed.

Theorem get_slice_valid nx ny nz axis idx :
  axis < 3 ->
  (- Z.of_nat (dim nx ny nz axis) <= idx < Z.of_nat (dim nx ny nz axis))%Z ->
  get_slice (stack_grid nx ny nz) axis idx
  = Some (slice_spec nx ny nz axis (norm_index (dim nx ny nz axis) idx)).
Proof.
  intros Ha Hi. rewrite stack_grid_lattice.
  assert (0 < dim nx ny nz axis) as Hpos by lia.
  pose proof (norm_index_lt _ idx Hpos) as Hc. unfold norm_index in *.
  destruct axis as [|[|[|axis]]]; [| | |lia]; simpl in *.
  - (* axis 0: column idx of every row of every shape *)
    set (c := Z.to_nat (idx mod Z.of_nat nx)) in *.
    unfold lattice. rewrite map_map.
    rewrite (all_some_map_Some _ (fun k => map (fun j => cell_op c j k) (seq 0 ny))).
    + simpl. rewrite concat_map_flat_map. reflexivity.
    + intros k _. unfold slice0_shape. rewrite map_map.
      apply all_some_map_Some. intros j _.
      rewrite py_nth_valid by (rewrite row_length; exact Hi). rewrite row_length.
      fold c. rewrite nth_error_map', nth_error_seq. apply Nat.ltb_lt in Hc. rewrite Hc. reflexivity.
  - (* axis 1: row idx of every shape *)
    set (c := Z.to_nat (idx mod Z.of_nat ny)) in *.
    unfold lattice. rewrite map_map.
    rewrite (all_some_map_Some _ (fun k => map (fun i => cell_op i c k) (seq 0 nx))).
    + simpl. rewrite concat_map_flat_map. reflexivity.
    + intros k _. unfold slice1_shape.
      rewrite py_nth_valid by (rewrite shape_length; exact Hi). rewrite shape_length.
      fold c. rewrite nth_error_map', nth_error_seq. apply Nat.ltb_lt in Hc. rewrite Hc. reflexivity.
  - (* axis 2: all operations of shape idx *)
    set (c := Z.to_nat (idx mod Z.of_nat nz)) in *.
    rewrite py_nth_valid by (rewrite lattice_length; exact Hi). rewrite lattice_length. fold c.
    unfold lattice. rewrite nth_error_map', nth_error_seq. apply Nat.ltb_lt in Hc. rewrite Hc. simpl.
    unfold shape_ops. rewrite concat_map_flat_map. reflexivity.
Qed.

Theorem get_slice_invalid nx ny nz axis idx :
  0 < nx -> 0 < ny -> 0 < nz -> axis < 3 ->
  ~ (- Z.of_nat (dim nx ny nz axis) <= idx < Z.of_nat (dim nx ny nz axis))%Z ->
  get_slice (stack_grid nx ny nz) axis idx = None.
Proof.
  intros Hx Hy Hz Ha Hi. rewrite stack_grid_lattice.
  destruct axis as [|[|[|axis]]]; [| | |lia]; simpl in *.
  - unfold lattice. rewrite map_map. rewrite all_some_map_None; [reflexivity|].
    exists 0. split; [apply in_seq; lia|]. unfold slice0_shape. rewrite map_map.
    apply all_some_map_None. exists 0. split; [apply in_seq; lia|].
    apply py_nth_out. rewrite row_length. exact Hi.
  - unfold lattice. rewrite map_map. rewrite all_some_map_None; [reflexivity|].
    exists 0. split; [apply in_seq; lia|]. unfold slice1_shape.
    apply py_nth_out. rewrite shape_length. exact Hi.
  - rewrite py_nth_out; [reflexivity|]. rewrite lattice_length. exact Hi.
Qed.

(** * generic form, for stacks of any element type (ragged grids included) *)
Lemma all_some_total {A B} (f : A -> option B) l :
  (forall x, In x l -> f x <> None) ->
  exists l', all_some (map f l) = Some l' /\ length l' = length l /\
             forall y, In y l' <-> exists x, In x l /\ f x = Some y.
Proof.
  induction l as [|x l IH]; intro H; simpl.
  - exists []. repeat split; try reflexivity; [intros [] | intros [x [[] _]]].
  - destruct (f x) as [y|] eqn:E; [|exfalso; apply (H x); [left; reflexivity | exact E]].
    destruct IH as [l' [E' [Hl Hin]]]; [intros z Hz; apply H; right; exact Hz|].
    rewrite E'. exists (y :: l'). split; [reflexivity|]. split; [simpl; congruence|].
    intro z. simpl. rewrite Hin. split.
    + intros [<-|[w [Hw Hf]]]; [exists x; auto | exists w; auto].
    + intros [w [[<-|Hw] Hf]]; [left; congruence | right; exists w; auto].
Qed.

Lemma in_concat' {A} (ls : list (list A)) y : In y (concat ls) <-> exists l, In l ls /\ In y l.
Proof.
  induction ls as [|l ls IH]; simpl.
  - split; [intros [] | intros [l [[] _]]].
  - rewrite in_app_iff, IH. split.
    + intros [H|[m [Hm Hy]]]; [exists l; auto | exists m; auto].
    + intros [m [[<-|Hm] Hy]]; [left; exact Hy | right; exists m; auto].
Qed.

(** axis 0: when every row of every shape is longer than i, the slice is exactly the i-th entries of
    all rows, one per row *)
Theorem get_slice0_generic {A} (g : list (list (list A))) (i : nat) :
  (forall s, In s g -> forall r, In r s -> i < length r) ->
  exists l, get_slice g 0 (Z.of_nat i) = Some l /\
            length l = length (concat g) /\
            forall x, In x l <-> exists s r, In s g /\ In r s /\ nth_error r i = Some x.
Proof.
  intro H. simpl.
  destruct (all_some_total (fun s => slice0_shape s (Z.of_nat i)) g) as [ll [E [Hl Hin]]].
  - intros s Hs. unfold slice0_shape.
    destruct (all_some_total (fun row : list A => py_nth row (Z.of_nat i)) s) as [l' [E' _]].
    + intros r Hr. rewrite py_nth_nonneg. apply nth_error_Some. apply (H s Hs r Hr).
    + rewrite E'. discriminate.
  - rewrite E. simpl. exists (concat ll). split; [reflexivity|]. split.
    + clear Hin. revert ll E Hl. induction g as [|s g IH]; intros ll E Hl.
      * destruct ll; [reflexivity | discriminate].
      * simpl in E. destruct (slice0_shape s (Z.of_nat i)) as [ls|] eqn:Es; [|discriminate].
        destruct (all_some (map (fun s0 => slice0_shape s0 (Z.of_nat i)) g)) as [lr|] eqn:Er; [|discriminate].
        inversion E; subst ll. simpl. rewrite !app_length. f_equal.
        -- unfold slice0_shape in Es.
           destruct (all_some_total (fun row : list A => py_nth row (Z.of_nat i)) s) as [l' [E' [Hl' _]]].
           ++ intros r Hr. rewrite py_nth_nonneg. apply nth_error_Some. apply (H s (or_introl eq_refl) r Hr).
           ++ rewrite E' in Es. inversion Es; subst. exact Hl'.
        -- apply IH; [intros s' Hs'; apply H; right; exact Hs' | reflexivity | simpl in Hl; lia].
    + intro x. rewrite in_concat'. split.
      * intros [l [Hlin Hx]]. apply Hin in Hlin. destruct Hlin as [s [Hs Es]].
        unfold slice0_shape in Es.
        destruct (all_some_total (fun row : list A => py_nth row (Z.of_nat i)) s) as [l' [E' [_ Hin']]].
        -- intros r Hr. rewrite py_nth_nonneg. apply nth_error_Some. apply (H s Hs r Hr).
        -- rewrite E' in Es. inversion Es; subst l'. apply Hin' in Hx. destruct Hx as [r [Hr Ex]].
           rewrite py_nth_nonneg in Ex. exists s, r. auto.
      * intros [s [r [Hs [Hr Ex]]]].
        destruct (all_some_total (fun row : list A => py_nth row (Z.of_nat i)) s) as [l' [E' [_ Hin']]].
        -- intros r' Hr'. rewrite py_nth_nonneg. apply nth_error_Some. apply (H s Hs r' Hr').
        -- exists l'. split.
           ++ apply Hin. exists s. split; [exact Hs | exact E'].
           ++ apply Hin'. exists r. split; [exact Hr|]. rewrite py_nth_nonneg. exact Ex.
Qed.

(** axis 1: when every shape has more than j rows, the slice is exactly the entries of row j of every shape *)
Theorem get_slice1_generic {A} (g : list (list (list A))) (j : nat) :
  (forall s, In s g -> j < length s) ->
  exists l, get_slice g 1 (Z.of_nat j) = Some l /\
            forall x, In x l <-> exists s r, In s g /\ nth_error s j = Some r /\ In x r.
Proof.
  intro H. simpl.
  destruct (all_some_total (fun s : list (list A) => slice1_shape s (Z.of_nat j)) g) as [ll [E [_ Hin]]].
  - intros s Hs. unfold slice1_shape. rewrite py_nth_nonneg. apply nth_error_Some. apply H. exact Hs.
  - rewrite E. simpl. exists (concat ll). split; [reflexivity|].
    intro x. rewrite in_concat'. split.
    + intros [r [Hr Hx]]. apply Hin in Hr. destruct Hr as [s [Hs Es]].
      unfold slice1_shape in Es. rewrite py_nth_nonneg in Es. exists s, r. auto.
    + intros [s [r [Hs [Er Hx]]]]. exists r. split; [|exact Hx].
      apply Hin. exists s. split; [exact Hs|]. unfold slice1_shape. rewrite py_nth_nonneg. exact Er.
Qed.

(** axis 2 is the list of operations of the addressed shape, whatever its layout *)
Theorem get_slice2_generic {A} (g : list (list (list A))) (idx : Z) :
  get_slice g 2 idx = option_map (@concat A) (py_nth g idx).
Proof. reflexivity. Qed.

(** * core / shell of a round shape: a partition of the operations in their order *)
Theorem core_shell_partition {A} (ops : list A) n :
  round_core ops n ++ round_shell ops n = ops /\
  length (round_core ops n) = Nat.min n (length ops) /\
  (NoDup ops -> forall x, In x (round_core ops n) -> ~ In x (round_shell ops n)).
Proof.
  unfold round_core, round_shell. split; [apply firstn_skipn|]. split; [apply firstn_length|].
  intros Hnd x H1 H2. rewrite <- (firstn_skipn n ops) in Hnd.
  revert Hnd H1 H2. generalize (firstn n ops) (skipn n ops). intros l m.
  induction l as [|y l IH]; simpl; intros Hnd H1 H2; [exact H1|].
  inversion Hnd; subst. destruct H1 as [->|H1].
  - apply H3. apply in_or_app. right. exact H2.
  - apply IH; assumption.
Qed.

(** * delete: exactly the addressed operation disappears *)
Section Delete.
  Context {A : Type} (eqb : A -> A -> bool).
  Hypothesis eqb_spec : forall a b, eqb a b = true <-> a = b.

  Lemma assemble_In ops del x : In x (assemble_ops eqb ops del) <-> In x ops /\ ~ In x del.
  Proof.
    unfold assemble_ops. rewrite filter_In. split; intros [H1 H2]; split; auto.
    - intro Hd. apply negb_true_iff in H2.
      assert (existsb (eqb x) del = true) as C by (apply existsb_exists; exists x; split; [exact Hd | apply eqb_spec; reflexivity]).
      congruence.
    - apply negb_true_iff. apply not_true_is_false. intro C. apply existsb_exists in C.
      destruct C as [y [Hy E]]. apply eqb_spec in E. subst. contradiction.
  Qed.

  Lemma assemble_none ops : assemble_ops eqb ops [] = ops.
  Proof. unfold assemble_ops. induction ops as [|x l IH]; simpl in *; [reflexivity|]. f_equal. exact IH. Qed.

  (** deleting one operation of a duplicate-free depot: the blocks are the operations before it
      followed by the operations after it, nothing else changes place *)
  Lemma assemble_delete_split pre d post :
    ~ In d pre -> ~ In d post -> assemble_ops eqb (pre ++ d :: post) [d] = pre ++ post.
  Proof.
    intros Hpre Hpost. unfold assemble_ops. rewrite filter_app. simpl.
    assert (eqb d d = true) as Hd by (apply eqb_spec; reflexivity). rewrite Hd. simpl.
    assert (forall l, ~ In d l -> filter (fun o => negb (eqb o d || false)) l = l) as F.
    { induction l as [|x l IH]; intro Hn; simpl; [reflexivity|].
      destruct (eqb x d) eqn:E.
      - apply eqb_spec in E. subst. exfalso. apply Hn. left. reflexivity.
      - simpl. rewrite IH; [reflexivity|]. intro C. apply Hn. right. exact C. }
    rewrite (F pre Hpre), (F post Hpost). reflexivity.
  Qed.

  Theorem delete_exact ops d :
    NoDup ops -> In d ops ->
    exists pre post, ops = pre ++ d :: post /\ assemble_ops eqb ops [d] = pre ++ post /\
      length (assemble_ops eqb ops [d]) = length ops - 1 /\
      ~ In d (assemble_ops eqb ops [d]) /\
      (forall x, x <> d -> (In x (assemble_ops eqb ops [d]) <-> In x ops)) /\
      NoDup (assemble_ops eqb ops [d]).
  Proof.
    intros Hnd Hin. apply in_split in Hin. destruct Hin as [pre [post ->]].
    exists pre, post. split; [reflexivity|].
    assert (~ In d pre /\ ~ In d post) as [Hpre Hpost].
    { apply NoDup_remove_2 in Hnd. split; intro C; apply Hnd; apply in_or_app; auto. }
    rewrite (assemble_delete_split pre d post Hpre Hpost).
    split; [reflexivity|]. split; [rewrite !app_length; simpl; lia|].
    split; [intro C; apply in_app_or in C; tauto|].
    split.
    - intros x Hx. rewrite !in_app_iff. simpl. split; [tauto|]. intros [H|[H|H]]; auto. congruence.
    - apply NoDup_remove_1 in Hnd. exact Hnd.
  Qed.

  (** chop: only the addressed operation's chop list changes *)
  Theorem chop_frame st o axis :
    map fst (chop_op eqb st o axis) = map fst st /\
    (forall p, In p st -> fst p <> o -> In p (chop_op eqb st o axis)) /\
    (forall p, In p st -> fst p = o -> In (fst p, snd p ++ [axis]) (chop_op eqb st o axis)) /\
    (forall q, In q (chop_op eqb st o axis) -> fst q <> o -> In q st).
  Proof.
    unfold chop_op. repeat split.
    - rewrite map_map. apply map_ext. intro p. destruct (eqb (fst p) o); reflexivity.
    - intros p Hp Hne. apply in_map_iff. exists p. split; [|exact Hp].
      destruct (eqb (fst p) o) eqn:E; [apply eqb_spec in E; contradiction | reflexivity].
    - intros p Hp He. apply in_map_iff. exists p. split; [|exact Hp].
      destruct (eqb (fst p) o) eqn:E; [reflexivity|]. apply eqb_spec in He. congruence.
    - intros q Hq Hne. apply in_map_iff in Hq. destruct Hq as [p [<- Hp]].
      destruct (eqb (fst p) o) eqn:E; [apply eqb_spec in E; simpl in Hne; contradiction | exact Hp].
  Qed.
End Delete.

(** [op_eqb] decides equality of model operations *)
Lemma nat3_eqb_spec a b : nat3_eqb a b = true <-> a = b.
Proof.
  destruct a as [[a1 a2] a3], b as [[b1 b2] b3]. unfold nat3_eqb. simpl.
  rewrite !andb_true_iff, !Nat.eqb_eq. split; [intros [[-> ->] ->]; reflexivity | intro H; inversion H; auto].
Qed.
Lemma op_eqb_spec a b : op_eqb a b = true <-> a = b.
Proof.
  destruct a as [a1 a2], b as [b1 b2]. unfold op_eqb. simpl.
  rewrite andb_true_iff, !nat3_eqb_spec. split; [intros [-> ->]; reflexivity | intro H; inversion H; auto].
Qed.
