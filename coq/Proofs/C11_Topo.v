(** C11 - lemmas about the topological specifications of Model/C11_Topo.v, for ALL blockings:
    - the certificate checker is sound: a checked certificate proves that every block axis is
      connected (through shared wires) to a chopped axis;
    - a set of nodes closed under adjacency that contains no chopped node proves the opposite;
    - adjacency is symmetric and connectivity an equivalence (so "family" is well defined). *)
From Coq Require Import List Bool Arith NArith Lia Wf_nat.
From CB Require Import Base.Hex Model.C11_Topo.
Import ListNotations.
Open Scope nat_scope.

Lemma node_eqb_eq n m : node_eqb n m = true <-> n = m.
Proof.
  destruct n as [a b], m as [c d]. unfold node_eqb. simpl. rewrite andb_true_iff, !Nat.eqb_eq.
  split; [intros [-> ->]; reflexivity | intro H; inversion H; auto].
Qed.

Lemma memn_In n l : memn n l = true <-> In n l.
Proof.
  unfold memn. rewrite existsb_exists. split.
  - intros [x [Hx He]]. apply node_eqb_eq in He. subst. exact Hx.
  - intro H. exists n. split; [exact H | apply node_eqb_eq; reflexivity].
Qed.

Lemma valid_node_In bs n : valid_node bs n = true <-> In n (nodes bs).
Proof.
  destruct n as [b a]. unfold valid_node, nodes. cbn [fst snd]. split.
  - intro H. apply andb_true_iff in H. destruct H as [H1 H2]. apply Nat.ltb_lt in H1, H2.
    apply in_prod_iff. split; [apply in_seq; lia|]. unfold axes. simpl.
    destruct a as [|[|[|a]]]; auto; lia.
  - intro H. apply in_prod_iff in H. destruct H as [H1 H2]. apply in_seq in H1.
    apply andb_true_iff. split; apply Nat.ltb_lt; [lia|].
    unfold axes in H2. simpl in H2. destruct H2 as [<-|[<-|[<-|[]]]]; lia.
Qed.

Lemma node_of_index_valid bs p : p < 3 * length bs -> valid_node bs (node_of_index p) = true.
Proof.
  intro H. unfold valid_node, node_of_index. cbn [fst snd]. apply andb_true_iff. split; apply Nat.ltb_lt.
  - apply Nat.div_lt_upper_bound; lia.
  - apply Nat.mod_upper_bound. lia.
Qed.

Lemma node_index_roundtrip n : snd n < 3 -> node_of_index (node_index n) = n.
Proof.
  destruct n as [b a]. unfold node_of_index, node_index. cbn [fst snd]. intro H.
  assert (E : 3 * b + a = a + b * 3) by lia. rewrite E.
  rewrite Nat.div_add by lia. rewrite Nat.mod_add by lia.
  rewrite Nat.div_small by lia. rewrite Nat.mod_small by lia. reflexivity.
Qed.

Lemma node_index_bound bs n : valid_node bs n = true -> node_index n < 3 * length bs.
Proof.
  destruct n as [b a]. unfold valid_node, node_index. cbn [fst snd]. intro H. apply andb_true_iff in H.
  destruct H as [H1 H2]. apply Nat.ltb_lt in H1, H2. lia.
Qed.

(** * connectivity *)
Lemma connected_trans bs a b c : connected bs a b -> connected bs b c -> connected bs a c.
Proof. induction 1; intro H2; [exact H2 | eapply conn_step; eauto]. Qed.

Lemma wire_eqb_sym v w : wire_eqb v w = wire_eqb w v.
Proof. unfold wire_eqb. rewrite (N.eqb_sym (fst v)), (N.eqb_sym (snd v)). reflexivity. Qed.

Lemma adjb_sym bs n m : adjb bs n m = adjb bs m n.
Proof.
  unfold adjb. apply eq_true_iff_eq. rewrite !existsb_exists. split.
  - intros [w [Hw He]]. apply existsb_exists in He. destruct He as [v [Hv Hwv]].
    exists v. split; [exact Hv|]. apply existsb_exists. exists w. split; [exact Hw|]. rewrite wire_eqb_sym. exact Hwv.
  - intros [w [Hw He]]. apply existsb_exists in He. destruct He as [v [Hv Hwv]].
    exists v. split; [exact Hv|]. apply existsb_exists. exists w. split; [exact Hw|]. rewrite wire_eqb_sym. exact Hwv.
Qed.

Lemma connected_sym bs a b : valid_node bs a = true -> connected bs a b -> connected bs b a.
Proof.
  intros Ha H. induction H as [n | n m k Hm Hadj Hmk IH].
  - apply conn_refl.
  - apply connected_trans with m.
    + apply IH. exact Hm.
    + eapply conn_step; [exact Ha | rewrite adjb_sym; exact Hadj | apply conn_refl].
Qed.

(** * soundness of the reachability certificate *)
Lemma check_cert_node bs chopped c :
  check_cert bs chopped c = true ->
  forall d i, i < 3 * length bs -> snd (nth i c (0, 0)) = d ->
  exists ch, memn ch chopped = true /\ connected bs (node_of_index i) ch.
Proof.
  intro H. unfold check_cert in H. apply andb_true_iff in H. destruct H as [_ H].
  rewrite forallb_forall in H.
  induction d as [d IH] using lt_wf_ind. intros i Hi Hd.
  assert (Hc : check_node bs chopped c i = true) by (apply H; apply in_seq; lia).
  unfold check_node in Hc. destruct (nth i c (0, 0)) as [p d'] eqn:E. simpl in Hd. subst d'.
  destruct d as [|d].
  - exists (node_of_index i). split; [exact Hc | apply conn_refl].
  - apply andb_true_iff in Hc. destruct Hc as [Hc Hlt]. apply andb_true_iff in Hc. destruct Hc as [Hp Hadj].
    apply Nat.ltb_lt in Hp, Hlt.
    destruct (IH (snd (nth p c (0, 0))) Hlt p Hp eq_refl) as [ch [Hch Hconn]].
    exists ch. split; [exact Hch|].
    eapply conn_step; [apply node_of_index_valid; exact Hp | exact Hadj | exact Hconn].
Qed.

Theorem check_cert_sound bs chopped c : check_cert bs chopped c = true -> choppable bs chopped.
Proof.
  intros H n Hn.
  pose proof (node_index_bound _ _ Hn) as Hb.
  destruct (check_cert_node _ _ _ H _ _ Hb eq_refl) as [ch [Hch Hconn]].
  rewrite node_index_roundtrip in Hconn.
  - exists ch. auto.
  - unfold valid_node in Hn. apply andb_true_iff in Hn. destruct Hn as [_ Hn]. apply Nat.ltb_lt in Hn. exact Hn.
Qed.

(** * refutation: a closed set without chopped nodes *)
Lemma closed_connected bs S : closed_b bs S = true ->
  forall n c, connected bs n c -> valid_node bs n = true -> memn n S = true -> memn c S = true.
Proof.
  intro H. unfold closed_b in H. rewrite forallb_forall in H.
  induction 1 as [n | n m k Hm Hadj Hmk IH]; intros Hn HS; [exact HS|].
  apply IH; [exact Hm|].
  specialize (H n (proj1 (valid_node_In _ _) Hn)). rewrite HS in H. simpl in H.
  rewrite forallb_forall in H. specialize (H m (proj1 (valid_node_In _ _) Hm)).
  rewrite Hadj in H. simpl in H. exact H.
Qed.

Theorem closed_unchoppable bs chopped S n :
  closed_b bs S = true -> forallb (fun c => negb (memn c S)) chopped = true ->
  valid_node bs n = true -> memn n S = true -> ~ choppable bs chopped.
Proof.
  intros Hc Hno Hn HS Hch. destruct (Hch n Hn) as [c [Hcc Hconn]].
  pose proof (closed_connected _ _ Hc _ _ Hconn Hn HS) as HcS.
  rewrite forallb_forall in Hno. apply memn_In in Hcc. specialize (Hno c Hcc). rewrite HcS in Hno. discriminate.
Qed.

(** the specification edges per axis are 4 disjoint edges, 12 in all, each an edge of Hex.v *)
Lemma axis_edges_props :
  forallb (fun a => (length (axis_edges a) =? 4)
                    && forallb (fun ij => is_edge (fst ij) (snd ij) && edge_positive (fst ij) (snd ij)) (axis_edges a)) axes = true.
Proof. vm_compute. reflexivity. Qed.

(** outward cycles are outward in the sense of Hex.v *)
Lemma outward_cycle_ok : forallb (fun s => is_outward s (outward_cycle s)) sides = true.
Proof. vm_compute. reflexivity. Qed.

(** generic: all_pairs *)
Lemma all_pairs_spec {A} (f : A -> A -> bool) (l : list A) :
  all_pairs f l = true -> forall i j d, i < j -> j < length l -> f (nth i l d) (nth j l d) = true.
Proof.
  induction l as [|x r IH]; intros H i j d Hij Hj; simpl in *; [lia|].
  apply andb_true_iff in H. destruct H as [Hx Hr].
  destruct j as [|j]; [lia|]. destruct i as [|i].
  - rewrite forallb_forall in Hx. apply Hx. apply nth_In. lia.
  - apply IH; [exact Hr | lia | lia].
Qed.

(** * Face connectivity: the checker is sound for ALL blockings *)
Lemma memi_In i l : memi i l = true <-> In i l.
Proof.
  unfold memi. rewrite existsb_exists. split.
  - intros [x [Hx He]]. apply Nat.eqb_eq in He. subst. exact Hx.
  - intro H. exists i. split; [exact H | apply Nat.eqb_refl].
Qed.

Lemma face_nbrs_nth bs j : j < length bs ->
  nth j (face_nbrs bs) [] = filter (fun i => shares_side (nth j bs []) (nth i bs [])) (seq 0 (length bs)).
Proof.
  intro H. unfold face_nbrs.
  set (F := fun a : block => filter (fun j0 => shares_side a (nth j0 bs [])) (seq 0 (length bs))).
  rewrite (nth_indep (map F bs) [] (F [])) by (rewrite map_length; exact H).
  rewrite map_nth. reflexivity.
Qed.

Definition reach_inv (bs : list block) (R : list nat) : Prop := forall j, In j R -> freachable bs j.

Lemma fgrow_inv bs R : reach_inv bs R -> reach_inv bs (fgrow (face_nbrs bs) (length bs) R).
Proof.
  intros HR j Hj. unfold fgrow in Hj. apply filter_In in Hj. destruct Hj as [Hs Hc].
  apply in_seq in Hs. apply orb_true_iff in Hc. destruct Hc as [Hc|Hc].
  - apply HR. apply memi_In. exact Hc.
  - apply existsb_exists in Hc. destruct Hc as [i [Hi Hm]].
    rewrite face_nbrs_nth in Hi by lia. apply filter_In in Hi. destruct Hi as [_ Hsh].
    apply fr_step with (i := i); [apply HR; apply memi_In; exact Hm | lia | exact Hsh].
Qed.

Lemma freach_inv bs fuel : forall R, reach_inv bs R -> reach_inv bs (freach (face_nbrs bs) (length bs) fuel R).
Proof.
  induction fuel as [|f IH]; intros R HR; simpl; [exact HR|].
  destruct (length (fgrow (face_nbrs bs) (length bs) R) =? length R); [exact HR|].
  apply IH. apply fgrow_inv. exact HR.
Qed.

Definition reach_shape (n : nat) (R : list nat) : Prop := R = [0] \/ exists f, R = filter f (seq 0 n).

Lemma freach_shape nb n fuel : forall R, reach_shape n R -> reach_shape n (freach nb n fuel R).
Proof.
  induction fuel as [|f IH]; intros R HR; simpl; [exact HR|].
  destruct (length (fgrow nb n R) =? length R); [exact HR|].
  apply IH. right. unfold fgrow. eexists. reflexivity.
Qed.

Lemma filter_len_le {A} (f : A -> bool) (l : list A) : length (filter f l) <= length l.
Proof. induction l as [|a l IH]; simpl; [lia|]. destruct (f a); simpl; lia. Qed.

Lemma filter_full {A} (f : A -> bool) (l : list A) :
  length (filter f l) = length l -> forall x, In x l -> f x = true.
Proof.
  induction l as [|a l IH]; intros H x Hx; [destruct Hx|].
  simpl in H. pose proof (filter_len_le f l) as Hle.
  destruct (f a) eqn:Fa; simpl in H.
  - destruct Hx as [<-|Hx]; [exact Fa | apply IH; [lia | exact Hx]].
  - lia.
Qed.

Theorem face_connected_sound bs :
  face_connected_b bs = true -> forall j, j < length bs -> freachable bs j.
Proof.
  intros H0 j Hj.
  assert (H : length (freach (face_nbrs bs) (length bs) (length bs) [0]) = length bs).
  { destruct bs; [simpl in Hj; lia|]. unfold face_connected_b in H0. apply Nat.eqb_eq in H0. exact H0. }
  clear H0.
  assert (Hinv : reach_inv bs [0]).
  { intros k [<-|[]]. apply fr_root. lia. }
  pose proof (freach_inv bs (length bs) [0] Hinv) as HI.
  pose proof (freach_shape (face_nbrs bs) (length bs) (length bs) [0] (or_introl eq_refl)) as [HS|[f HS]].
  - rewrite HS in H. simpl in H. assert (j = 0) by lia. subst j. apply Hinv. left. reflexivity.
  - apply HI. rewrite HS. apply filter_In. split; [apply in_seq; lia|].
    rewrite HS in H. rewrite <- (seq_length (length bs) 0) in H at 2.
    apply (filter_full f _ H). apply in_seq. lia.
Qed.
