(** C07 - lemmas about Model/C07_Series.v: the interior points from_series collects, whole-operation moves,
    Operation.invert on side edges, and slots that share an edge-data object. *)
From Coq Require Import List Bool Arith ZArith Lia Reals.
From CB Require Import Base.Vec3 Model.C07_EdgeList Model.C07_Dir Model.C07_Series Proofs.C07_Dir.
Import ListNotations.
Open Scope nat_scope.

(** * faces[1:-1] *)
Lemma list_ends {A} (l : list A) : l = [] \/ (exists a, l = [a]) \/ exists a m b, l = a :: m ++ [b].
Proof.
  destruct l as [|a l]; [left; reflexivity | right].
  destruct l as [|x l']; [left; exists a; reflexivity | right].
  assert (H : x :: l' <> []) by discriminate.
  destruct (exists_last H) as (m & b & E). exists a, m, b. rewrite E. reflexivity.
Qed.

Lemma middle_ends {A} (a : A) m b : middle (a :: m ++ [b]) = m.
Proof. unfold middle. simpl tl. apply removelast_last. Qed.

Lemma middle_length {A} (l : list A) : length (middle l) = length l - 2.
Proof.
  destruct (list_ends l) as [-> | [[a ->] | (a & m & b & ->)]]; try reflexivity.
  rewrite middle_ends. simpl. rewrite app_length. simpl. lia.
Qed.

Lemma middle_rev {A} (l : list A) : middle (rev l) = rev (middle l).
Proof.
  destruct (list_ends l) as [-> | [[a ->] | (a & m & b & ->)]]; try reflexivity.
  rewrite middle_ends. simpl. rewrite rev_app_distr. simpl. rewrite middle_ends. reflexivity.
Qed.

Lemma middle_map {A B} (g : A -> B) (l : list A) : middle (map g l) = map g (middle l).
Proof.
  destruct (list_ends l) as [-> | [[a ->] | (a & m & b & ->)]]; try reflexivity.
  rewrite middle_ends. simpl. rewrite map_app. simpl. rewrite middle_ends. reflexivity.
Qed.

Lemma middle_incl {A} (l : list A) x : In x (middle l) -> In x l.
Proof.
  destruct (list_ends l) as [-> | [[a ->] | (a & m & b & ->)]]; try (simpl; tauto).
  rewrite middle_ends. intro H. right. apply in_or_app. left. exact H.
Qed.

(** * the collected points *)
Lemma corner_length {pt} (f : list pt) i : i < length f -> length (corner f i) = 1.
Proof.
  intro H. unfold corner. destruct (nth_error f i) eqn:E; [reflexivity|].
  apply nth_error_None in E. lia.
Qed.

Lemma corner_rev {pt} (f : list pt) i : rev (corner f i) = corner f i.
Proof. unfold corner. destruct (nth_error f i); reflexivity. Qed.

Lemma corner_map {pt qt} (g : pt -> qt) f i : corner (map g f) i = map g (corner f i).
Proof. unfold corner. rewrite nth_error_map. destruct (nth_error f i); reflexivity. Qed.

Lemma collect_length {pt} (l : list (list pt)) i :
  (forall f, In f l -> i < length f) -> length (flat_map (fun f => corner f i) l) = length l.
Proof.
  induction l as [|f l IH]; intro H; [reflexivity|].
  simpl. rewrite app_length, corner_length, IH; [reflexivity | | ]; intros; apply H; simpl; auto.
Qed.

Lemma collect_rev {pt} (l : list (list pt)) i :
  flat_map (fun f => corner f i) (rev l) = rev (flat_map (fun f => corner f i) l).
Proof.
  induction l as [|f l IH]; [reflexivity|].
  simpl. rewrite flat_map_app, IH, rev_app_distr, corner_rev. simpl. rewrite app_nil_r. reflexivity.
Qed.

Lemma collect_map {pt qt} (g : pt -> qt) (l : list (list pt)) i :
  flat_map (fun f => corner f i) (map (map g) l) = map g (flat_map (fun f => corner f i) l).
Proof.
  induction l as [|f l IH]; [reflexivity|].
  simpl. rewrite map_app, IH, corner_map. reflexivity.
Qed.

(** every face has a corner i *)
Definition has_corner {pt} (i : nat) (faces : list (list pt)) : Prop := forall f, In f faces -> i < length f.

Theorem series_points_length {pt} (faces : list (list pt)) i :
  has_corner i faces -> length (series_points faces i) = length faces - 2.
Proof.
  intro H. unfold series_points. rewrite collect_length, middle_length; [reflexivity|].
  intros f Hf. apply H, middle_incl, Hf.
Qed.

Example series_points_length_example :
  has_corner 3 [[0; 1; 2; 3]; [4; 5; 6; 7]; [8; 9; 10; 11]] /\
  series_points [[0; 1; 2; 3]; [4; 5; 6; 7]; [8; 9; 10; 11]] 3 = [7].
Proof. split; [|reflexivity]. intros f [<- | [<- | [<- | []]]]; simpl; lia. Qed.

Theorem series_points_rev {pt} (faces : list (list pt)) i :
  series_points (rev faces) i = rev (series_points faces i).
Proof. unfold series_points. rewrite middle_rev. apply collect_rev. Qed.

Theorem series_points_map {pt qt} (g : pt -> qt) (faces : list (list pt)) i :
  series_points (map (map g) faces) i = map g (series_points faces i).
Proof. unfold series_points. rewrite middle_map. apply collect_map. Qed.

(** in series order: the point taken from the j-th intermediate face is its corner i *)
Theorem series_points_nth {pt} (faces : list (list pt)) i j :
  has_corner i faces -> j < length faces - 2 ->
  nth_error (series_points faces i) j = match nth_error faces (S j) with Some f => nth_error f i | None => None end.
Proof.
  intros H Hj.
  destruct (list_ends faces) as [-> | [[a ->] | (a & m & b & ->)]]; try (simpl in Hj; lia).
  unfold series_points. rewrite middle_ends.
  assert (Hm : forall f, In f m -> i < length f).
  { intros f Hf. apply H. right. apply in_or_app. left. exact Hf. }
  assert (Lj : j < length m) by (simpl in Hj; rewrite app_length in Hj; simpl in Hj; lia).
  simpl nth_error at 2. rewrite nth_error_app1 by exact Lj.
  clear H Hj. revert j Lj. induction m as [|f m IH]; intros j Lj; [simpl in Lj; lia|].
  simpl flat_map. unfold corner at 1. destruct (nth_error f i) eqn:E.
  - destruct j; simpl; [symmetry; exact E|]. apply IH; [intros; apply Hm; right; assumption | simpl in Lj; lia].
  - apply nth_error_None in E. specialize (Hm f (or_introl eq_refl)). lia.
Qed.

Theorem series_kind_spec {pt} (faces : list (list pt)) i :
  has_corner i faces ->
  series_kind faces i =
    match length faces with 0 | 1 => SError | 2 => SLine | 3 => SArc | _ => SSpline end.
Proof.
  intro H. unfold series_kind. rewrite (series_points_length _ _ H).
  destruct (length faces) as [|[|[|[|n]]]]; reflexivity.
Qed.

Lemma series_kind_map {pt qt} (g : pt -> qt) (faces : list (list pt)) i :
  series_kind (map (map g) faces) i = series_kind faces i.
Proof. unfold series_kind. rewrite series_points_map, !map_length. reflexivity. Qed.

Lemma series_edge_map {pt qt} (g : pt -> qt) (faces : list (list pt)) i :
  series_edge (map (map g) faces) i = option_map (map_edata g) (series_edge faces i).
Proof.
  unfold series_edge. rewrite series_kind_map, series_points_map.
  destruct (series_kind faces i); try reflexivity.
  destruct (series_points faces i); reflexivity.
Qed.

Lemma last_map {A B} (g : A -> B) l d : last (map g l) (g d) = g (last l d).
Proof. induction l as [|a [|b l] IH]; try reflexivity. exact IH. Qed.

(** the operation made from a series that was moved = the operation made from the series, moved *)
Theorem from_series_move {pt qt} (g : pt -> qt) (faces : list (list pt)) :
  from_series (map (map g) faces) = option_map (move g) (from_series faces).
Proof.
  destruct faces as [|f0 [|f1 fs]]; try reflexivity.
  unfold from_series. change (map (map g) (f0 :: f1 :: fs)) with (map g f0 :: map g f1 :: map (map g) fs).
  cbv iota beta. unfold option_map, move. cbn [bottom top side_edges]. f_equal. f_equal.
  - change (map g f0 :: map g f1 :: map (map g) fs) with (map (map g) (f0 :: f1 :: fs)). apply last_map.
  - change (map g f0 :: map g f1 :: map (map g) fs) with (map (map g) (f0 :: f1 :: fs)).
    cbn [seq flat_map]. rewrite !series_edge_map.
    destruct (series_edge (f0 :: f1 :: fs) 0), (series_edge (f0 :: f1 :: fs) 1),
             (series_edge (f0 :: f1 :: fs) 2), (series_edge (f0 :: f1 :: fs) 3); reflexivity.
Qed.

(** * Operation.invert *)
Lemma reverse_involutive {pt} (d : edata pt) : reverse (reverse d) = d.
Proof. destruct d; simpl; try reflexivity; [rewrite rev_involutive | rewrite Z.opp_involutive]; reflexivity. Qed.

Theorem invert_involutive {pt} (o : oper pt) : invert (invert o) = o.
Proof.
  destruct o as [b t s]. unfold invert. cbn [bottom top side_edges]. f_equal.
  rewrite map_map. rewrite <- (map_id s) at 2. apply map_ext. exact reverse_involutive.
Qed.

Lemma reverse_map_edata {pt qt} (g : pt -> qt) d : reverse (map_edata g d) = map_edata g (reverse d).
Proof. destruct d; simpl; try reflexivity. rewrite map_rev. reflexivity. Qed.

Theorem invert_move {pt qt} (g : pt -> qt) (o : oper pt) : invert (move g o) = move g (invert o).
Proof.
  destruct o as [b t s]. unfold invert, move. cbn [bottom top side_edges]. f_equal.
  rewrite !map_map. apply map_ext. exact (reverse_map_edata g).
Qed.

Lemma gdrawn_rev {pt} (a : pt) pts b : rev (gdrawn a pts b) = gdrawn b (rev pts) a.
Proof. unfold gdrawn. simpl. rewrite rev_app_distr. reflexivity. Qed.

(** the curve a side slot describes after invert is the same curve, run through from its other end *)
Theorem invert_side_curve {pt} (o : oper pt) i :
  length (bottom o) = 4 -> length (top o) = 4 -> i < 4 ->
  side_curve (invert o) i = option_map (@rev pt) (side_curve o i).
Proof.
  intros Lb Lt Hi. destruct o as [b t s]. cbn [bottom top] in Lb, Lt.
  unfold side_curve, invert, op_corners, side_dir. cbn [bottom top side_edges fst snd].
  rewrite (nth_error_app1 t b) by lia. rewrite (nth_error_app1 b t) by lia.
  rewrite (nth_error_app2 t b) by lia. rewrite (nth_error_app2 b t) by lia.
  rewrite Lb, Lt. replace (i + 4 - 4) with i by lia.
  rewrite nth_error_map.
  destruct (nth_error b i) as [pb|], (nth_error t i) as [ptt|], (nth_error s i) as [[|p|pts|a]|];
    try reflexivity; cbn [option_map reverse]; rewrite gdrawn_rev; reflexivity.
Qed.

Example invert_side_curve_example :
  let o := mkOper [0; 1; 2; 3] [12; 13; 14; 15] [DSpline [4; 8]; DSpline [5; 9]; DSpline [6; 10]; DSpline [7; 11]] in
  side_curve o 1 = Some [1; 5; 9; 13] /\ side_curve (invert o) 1 = Some [13; 9; 5; 1].
Proof. split; reflexivity. Qed.

(** the written direction of a side edge is the one of the public slot 8 + i *)
Lemma side_dir_is_slot i : i < 4 -> side_dir i = slot_dir (8 + i).
Proof. intro H. destruct i as [|[|[|[|]]]]; try reflexivity; lia. Qed.

(** in space: the inverted operation's side edge has the length of the original one *)
Lemma gdrawn_drawn (a : vec) pts b : gdrawn a pts b = drawn a pts b.
Proof. reflexivity. Qed.

Theorem invert_same_length (o : oper vec) i c :
  length (bottom o) = 4 -> length (top o) = 4 -> i < 4 ->
  side_curve o i = Some c ->
  exists c', side_curve (invert o) i = Some c' /\ c' = rev c /\ plen c' = plen c.
Proof.
  intros Lb Lt Hi E. exists (rev c). rewrite invert_side_curve, E by assumption.
  split; [reflexivity|]. split; [reflexivity | apply plen_rev].
Qed.

(** * slots that refer to edge-data objects *)
Lemma upd_nth_error {D} (f : D -> D) (h : list D) : forall r k,
  nth_error (upd h r f) k = if k =? r then option_map f (nth_error h k) else nth_error h k.
Proof.
  induction h as [|x h IH]; intros r k.
  - simpl. destruct k; destruct (_ =? _); reflexivity.
  - destruct r, k; simpl; try reflexivity. apply IH.
Qed.

Lemma iter_comm {D} (f : D -> D) n x : Nat.iter n f (f x) = f (Nat.iter n f x).
Proof. induction n; simpl; [reflexivity | rewrite IHn; reflexivity]. Qed.

(** the object at position k has received as many calls as there are slots referring to it *)
Theorem apply_to_parts_counts {D} (f : D -> D) (slots : list nat) : forall (h : list D) k,
  nth_error (apply_to_parts f slots h) k =
  option_map (Nat.iter (count_occ Nat.eq_dec slots k) f) (nth_error h k).
Proof.
  unfold apply_to_parts.
  induction slots as [|r s IH]; intros h k.
  - simpl. destruct (nth_error h k); reflexivity.
  - simpl fold_left. rewrite IH, upd_nth_error.
    destruct (Nat.eqb_spec k r) as [->|N].
    + rewrite count_occ_cons_eq by reflexivity. destruct (nth_error h r); simpl; [|reflexivity].
      rewrite iter_comm. reflexivity.
    + rewrite count_occ_cons_neq by (intro; apply N; symmetry; assumption). reflexivity.
Qed.

Theorem once_per_edge_counts {D} (f : D -> D) (slots : list nat) (h : list D) k :
  nth_error (apply_once_per_edge f slots h) k =
  option_map (fun x => if in_dec Nat.eq_dec k slots then f x else x) (nth_error h k).
Proof.
  unfold apply_once_per_edge. fold (apply_to_parts f (nodup Nat.eq_dec slots) h).
  rewrite apply_to_parts_counts.
  pose proof (NoDup_nodup Nat.eq_dec slots) as ND. rewrite NoDup_count_occ' in ND.
  destruct (in_dec Nat.eq_dec k slots) as [I|I].
  - rewrite (ND k) by (apply nodup_In; exact I). destruct (nth_error h k); reflexivity.
  - assert (E : count_occ Nat.eq_dec (nodup Nat.eq_dec slots) k = 0).
    { apply count_occ_not_In. intro X. apply I. apply nodup_In in X. exact X. }
    rewrite E. destruct (nth_error h k); reflexivity.
Qed.

(** distinct references: one call per slot is one call per edge *)
Theorem distinct_slots_once {D} (f : D -> D) (slots : list nat) (h : list D) :
  NoDup slots -> apply_to_parts f slots h = apply_once_per_edge f slots h.
Proof. intro H. unfold apply_once_per_edge. rewrite nodup_fixed_point by exact H. reflexivity. Qed.

Example distinct_slots_example : NoDup [0; 1; 2; 3].
Proof. repeat constructor; simpl; intuition discriminate. Qed.

Lemma iter_S n : Nat.iter n S 0 = n.
Proof. induction n; simpl; congruence. Qed.

(** and only then: with a shared reference, a heap of counters tells the two apart *)
Theorem once_only_if_distinct (slots : list nat) :
  (forall (f : nat -> nat) (h : list nat), apply_to_parts f slots h = apply_once_per_edge f slots h) -> NoDup slots.
Proof.
  intro H. apply NoDup_count_occ with (decA := Nat.eq_dec). intro x.
  specialize (H S (repeat 0 (S x))).
  assert (E : nth_error (repeat 0 (S x)) x = Some 0).
  { rewrite nth_error_repeat by lia. reflexivity. }
  pose proof (apply_to_parts_counts S slots (repeat 0 (S x)) x) as A.
  pose proof (once_per_edge_counts S slots (repeat 0 (S x)) x) as B.
  rewrite H, B, E in A. simpl in A. rewrite iter_S in A.
  destruct (in_dec Nat.eq_dec x slots); injection A as A; lia.
Qed.

Theorem once_iff_distinct (slots : list nat) :
  NoDup slots <->
  (forall (f : nat -> nat) (h : list nat), apply_to_parts f slots h = apply_once_per_edge f slots h).
Proof. split; [intros H f h; apply distinct_slots_once, H | apply once_only_if_distinct]. Qed.

(** the witness: four slots on one Angle object, reverse() through the slots leaves the angle as it was;
    four objects: every slot shows the opposite angle *)
Example shared_angle_witness :
  view [0; 0; 0; 0] (apply_to_parts reverse [0; 0; 0; 0] [DAngle (pt := nat) 5])
    = [Some (DAngle 5); Some (DAngle 5); Some (DAngle 5); Some (DAngle 5)]
  /\ view [0; 0; 0; 0] (apply_once_per_edge reverse [0; 0; 0; 0] [DAngle (pt := nat) 5])
    = [Some (DAngle (-5)); Some (DAngle (-5)); Some (DAngle (-5)); Some (DAngle (-5))]
  /\ view [0; 1; 2; 3] (apply_to_parts reverse [0; 1; 2; 3] (repeat (DAngle (pt := nat) 5) 4))
    = [Some (DAngle (-5)); Some (DAngle (-5)); Some (DAngle (-5)); Some (DAngle (-5))].
Proof. vm_compute. repeat split; reflexivity. Qed.
