(** C03 - inversion at the level of the ten plans: calculate L (invert c) = (n, 1/E) when
    calculate L c = (n, E).  Closed-form pairs: unconditional (outside the tolerance band).  Pairs whose
    ratio comes from brentq: for every sound oracle that answers on the mirrored input.  Pairs whose count
    comes from brentq: the mirrored defining equation has the same root (uniqueness for roots > 1). *)
From Coq Require Import Reals ZArith List Bool Lra Lia Psatz.
From Flocq Require Import Core.Raux.
From CB Require Import Model.C03_Relations Proofs.C03_GeomSeries Proofs.C03_Relations Proofs.C03_Plans
  Proofs.C03_Invert.
Import ListNotations.
Open Scope R_scope.

(** the ratio is 1, or it and its reciprocal are both outside the band |r-1| <= tau in which the code
    replaces the ratio by 1 *)
Definition band_ok (tau r : R) : Prop := r = 1 \/ (tau < Rabs (r - 1) /\ tau < Rabs (/ r - 1)).

Lemma returned_mk n E r s e : returned (mk_data (Some n) (Some E) r s e) = Some (n, E).
Proof. reflexivity. Qed.

Lemma start_count_c2c_some tau L n r s :
  start_count_c2c tau L n r = Some s -> valid_length L = true /\ (1 <=? n)%Z = true.
Proof.
  unfold start_count_c2c. destruct (valid_length L); simpl; [|discriminate].
  destruct (1 <=? n)%Z; simpl; [auto|discriminate].
Qed.

(** [1 - r^n = 0] (python: ZeroDivisionError) needs r = 1 or r = -1 *)
Lemma powerRZ_eq_1 r n : (1 <= n)%Z -> powerRZ r n = 1 -> r = 1 \/ r = -1.
Proof.
  intros Hn H. rewrite powerRZ_nat in H by lia.
  assert (Hk : (1 <= Z.to_nat n)%nat) by lia.
  assert (Ha : Rabs r ^ Z.to_nat n = 1) by (rewrite RPow_abs, H; apply Rabs_R1).
  destruct (Req_dec r 0) as [->|Hr0].
  { rewrite pow_ne_zero in H by lia. lra. }
  destruct (Req_dec (Rabs r) 1) as [H1|H1].
  - unfold Rabs in H1. destruct (Rcase_abs r); [right|left]; lra.
  - exfalso. apply (pow_ne_1 (Rabs r) (Z.to_nat n)); auto. apply Rabs_pos_lt. assumption.
Qed.

Lemma start_count_c2c_total tau L n r :
  valid_length L = true -> (1 <=? n)%Z = true -> (Rabs (r - 1) <= tau \/ powerRZ r n <> 1) ->
  exists s, start_count_c2c tau L n r = Some s.
Proof.
  intros Hv Hn Hz. unfold start_count_c2c. rewrite Hv, Hn. simpl.
  unfold Rltb. destruct (Rlt_dec tau (Rabs (r - 1))) as [Hb|Hb]; [|eexists; reflexivity].
  destruct Hz as [Hz|Hz]; [lra|]. unfold Reqb. destruct (Req_EM_T (1 - powerRZ r n) 0) as [e|ne]; [lra|].
  simpl. eexists. reflexivity.
Qed.

(** for positive ratios the closed form never divides by zero *)
Lemma start_count_c2c_total_pos tau L n r :
  0 <= tau -> 0 < r -> valid_length L = true -> (1 <=? n)%Z = true -> exists s, start_count_c2c tau L n r = Some s.
Proof.
  intros Htau Hr Hv Hn. apply start_count_c2c_total; try assumption. apply Z.leb_le in Hn.
  destruct (Req_dec r 1) as [->|H1].
  - left. replace (1 - 1) with 0 by ring. rewrite Rabs_R0. assumption.
  - right. rewrite powerRZ_nat by lia. apply pow_ne_1; [assumption|assumption|lia].
Qed.

(** accepted for r => accepted for 1/r *)
Lemma start_count_c2c_total_inv tau L n r s :
  r <> 0 -> start_count_c2c tau L n r = Some s -> exists s', start_count_c2c tau L n (/ r) = Some s'.
Proof.
  intros Hr Hs. destruct (start_count_c2c_some _ _ _ _ _ Hs) as [Hv Hn].
  apply start_count_c2c_total; try assumption.
  destruct (Req_dec (powerRZ (/ r) n) 1) as [H1|H1]; [left|right; assumption].
  pose proof Hn as Hn'. apply Z.leb_le in Hn'.
  assert (Hq : / r = r).
  { destruct (powerRZ_eq_1 _ _ Hn' H1) as [H|H].
    - assert (r = 1) by (rewrite <- (Rinv_inv r), H; apply Rinv_1). subst r. apply Rinv_1.
    - assert (r = -1) by (rewrite <- (Rinv_inv r), H; field). subst r. field. }
  rewrite Hq in *. unfold start_count_c2c in Hs. rewrite Hv, Hn in Hs. simpl in Hs.
  unfold Rltb in Hs. destruct (Rlt_dec tau (Rabs (r - 1))) as [Hb|Hb]; [|lra].
  exfalso. unfold Reqb in Hs. destruct (Req_EM_T (1 - powerRZ r n) 0) as [e|ne]; [discriminate|lra].
Qed.

Lemma end_start_total_total L s E : valid_length L = true -> end_start_total L s E = Some (s * E).
Proof. intros Hv. unfold end_start_total. rewrite Hv. reflexivity. Qed.

Lemma total_count_c2c_some L n r E :
  total_count_c2c L n r = Some E -> valid_length L = true /\ (1 <=? n)%Z = true.
Proof.
  unfold total_count_c2c. destruct (valid_length L); simpl; [|discriminate].
  destruct (1 <=? n)%Z; simpl; [auto|discriminate].
Qed.

(** (count, c2c) *)
Lemma invert_count_c2c tau L n r d E :
  r <> 0 -> plan_count_c2c tau L n r = Some d -> returned d = Some (n, E) ->
  exists d', plan_count_c2c tau L n (/ r) = Some d' /\ returned d' = Some (n, / E).
Proof.
  intros Hr H Hret. unfold plan_count_c2c in H. inv_guards. simpl in Hret. inversion Hret; subst; clear Hret.
  match goal with Hs : start_count_c2c _ _ _ _ = Some _ |- _ =>
    destruct (start_count_c2c_some _ _ _ _ _ Hs) as [Hv Hn] end.
  match goal with Hs : start_count_c2c _ _ _ _ = Some _ |- _ =>
    destruct (start_count_c2c_total_inv _ _ _ _ _ Hr Hs) as [s' Hs'] end.
  unfold plan_count_c2c. rewrite Hs'. simpl.
  rewrite total_count_c2c_inv by assumption.
  match goal with Ht : total_count_c2c _ _ _ = Some _ |- _ => rewrite Ht end. simpl.
  rewrite end_start_total_total by assumption. simpl. eexists. split; reflexivity.
Qed.

(** (count, total) *)
Lemma invert_count_total tau L n E d :
  0 < E -> plan_count_total tau L n E = Some d ->
  returned d = Some (n, E) /\
  exists d', plan_count_total tau L n (/ E) = Some d' /\ returned d' = Some (n, / E).
Proof.
  intros HE H. unfold plan_count_total in H. inv_guards. split; [reflexivity|].
  match goal with Hs : start_count_c2c _ _ _ _ = Some _ |- _ =>
    destruct (start_count_c2c_some _ _ _ _ _ Hs) as [Hv Hn] end.
  unfold plan_count_total. rewrite c2c_count_total_inv by assumption.
  match goal with Hc : c2c_count_total _ _ _ = Some _ |- _ => rewrite Hc end. simpl.
  match goal with Hc : c2c_count_total _ _ _ = Some ?x, Hs : start_count_c2c _ _ _ ?x = Some _ |- _ =>
    assert (Hx : x <> 0) by (unfold c2c_count_total in Hc; inv_guards; unfold Rpower; apply Rgt_not_eq, exp_pos);
    destruct (start_count_c2c_total_inv _ _ _ _ _ Hx Hs) as [s' Hs'] end.
  rewrite Hs'. simpl. rewrite end_start_total_total by assumption. simpl. eexists. split; reflexivity.
Qed.

Lemma band_ok_count tau L v r :
  0 <= tau -> 0 < v -> 0 < r -> band_ok tau r -> count_end_c2c tau L v (/ r) = count_start_c2c tau L v r.
Proof.
  intros Htau Hv Hr [->|[H1 H2]].
  - apply count_end_start_inv_uniform; assumption.
  - apply count_end_start_inv; assumption.
Qed.

Lemma band_ok_inv tau r : r <> 0 -> band_ok tau r -> band_ok tau (/ r).
Proof.
  intros Hr [->|[H1 H2]].
  - left. apply Rinv_1.
  - right. rewrite Rinv_inv. split; assumption.
Qed.

(** (start, c2c) -> (end, 1/c2c) *)
Lemma invert_start_c2c tau L s r d n E :
  0 <= tau -> 0 < r -> band_ok tau r ->
  plan_start_c2c tau L s r = Some d -> returned d = Some (n, E) ->
  exists d', plan_end_c2c tau L s (/ r) = Some d' /\ returned d' = Some (n, / E).
Proof.
  intros Htau Hr Hb H Hret. unfold plan_start_c2c in H. inv_guards. simpl in Hret. inversion Hret; subst; clear Hret.
  match goal with Hc : count_start_c2c _ _ _ _ = Some _ |- _ => rename Hc into Hcount end.
  assert (Hs : 0 < s).
  { unfold count_start_c2c, x_start_c2c in Hcount. apply omap_some in Hcount. destruct Hcount as [xx [Hxx _]].
    inv_guards. assumption. }
  match goal with Ht : total_count_c2c _ _ _ = Some _ |- _ =>
    destruct (total_count_c2c_some _ _ _ _ Ht) as [Hv Hn] end.
  unfold plan_end_c2c. rewrite band_ok_count by assumption. rewrite Hcount. simpl.
  assert (Hq : 0 < / r) by (apply Rinv_0_lt_compat; assumption).
  destruct (start_count_c2c_total_pos tau L n (/ r) Htau Hq Hv Hn) as [s' Hs'].
  rewrite Hs'. simpl. rewrite total_count_c2c_inv by lra.
  match goal with Ht : total_count_c2c _ _ _ = Some _ |- _ => rewrite Ht end. simpl.
  eexists. split; reflexivity.
Qed.

(** (end, c2c) -> (start, 1/c2c) *)
Lemma invert_end_c2c tau L e r d n E :
  0 <= tau -> 0 < r -> 0 < e -> band_ok tau r ->
  plan_end_c2c tau L e r = Some d -> returned d = Some (n, E) ->
  exists d', plan_start_c2c tau L e (/ r) = Some d' /\ returned d' = Some (n, / E).
Proof.
  intros Htau Hr He Hb H Hret. unfold plan_end_c2c in H. inv_guards. simpl in Hret. inversion Hret; subst; clear Hret.
  match goal with Hc : count_end_c2c _ _ _ _ = Some _ |- _ => rename Hc into Hcount end.
  assert (Hq : 0 < / r) by (apply Rinv_0_lt_compat; assumption).
  pose proof (band_ok_count tau L e (/ r) Htau He Hq (band_ok_inv tau r ltac:(lra) Hb)) as Hm.
  rewrite Rinv_inv in Hm. rewrite Hm in Hcount.
  match goal with Hs : start_count_c2c _ _ _ _ = Some _ |- _ =>
    destruct (start_count_c2c_some _ _ _ _ _ Hs) as [Hv Hn] end.
  unfold plan_start_c2c. rewrite Hcount. simpl. rewrite total_count_c2c_inv by lra.
  match goal with Ht : total_count_c2c _ _ _ = Some _ |- _ => rewrite Ht end. simpl.
  rewrite end_start_total_total by assumption. simpl. eexists. split; reflexivity.
Qed.

(** (total, c2c) -> (1/total, 1/c2c) *)
Lemma x_total_c2c_inv tau L E r :
  0 < E -> 0 < r -> tau < Rabs (r - 1) -> tau < Rabs (/ r - 1) -> 0 <= tau ->
  x_total_c2c tau L (/ E) (/ r) = x_total_c2c tau L E r.
Proof.
  intros HE Hr H1 H2 Htau. unfold x_total_c2c.
  assert (HiE : 0 < / E) by (apply Rinv_0_lt_compat; assumption).
  assert (Hir : 0 < / r) by (apply Rinv_0_lt_compat; assumption).
  rewrite (Reqb_intro_false (/ E) 0) by lra. rewrite (Reqb_intro_false E 0) by lra.
  rewrite (Rltb_intro tau (Rabs (r - 1))) by assumption.
  rewrite (Rltb_intro tau (Rabs (/ r - 1))) by assumption.
  rewrite (Rltb_intro 0 E), (Rltb_intro 0 r), (Rltb_intro 0 (/ E)), (Rltb_intro 0 (/ r)) by assumption.
  simpl. destruct (valid_length L); simpl; [|reflexivity]. f_equal.
  rewrite !ln_Rinv by assumption. field. apply ln_ne_0; [assumption|].
  intros ->. replace (1 - 1) with 0 in H1 by ring. rewrite Rabs_R0 in H1. lra.
Qed.

Lemma invert_total_c2c tau L E r d :
  0 <= tau -> tau < Rabs (/ r - 1) ->
  plan_total_c2c tau L E r = Some d ->
  exists n, returned d = Some (n, E) /\
  exists d', plan_total_c2c tau L (/ E) (/ r) = Some d' /\ returned d' = Some (n, / E).
Proof.
  intros Htau Hb2 H. unfold plan_total_c2c in H. inv_guards.
  match goal with Hc : count_total_c2c _ _ _ _ = Some ?k |- _ => rename Hc into Hcount; exists k end.
  split; [reflexivity|].
  assert (Hg : 0 < E /\ 0 < r /\ tau < Rabs (r - 1)).
  { unfold count_total_c2c, x_total_c2c in Hcount. apply omap_some in Hcount. destruct Hcount as [xx [Hxx _]].
    inv_guards. repeat split; assumption. }
  destruct Hg as [HE [Hr Hb1]].
  match goal with Hs : start_count_c2c _ _ _ _ = Some _ |- _ =>
    destruct (start_count_c2c_some _ _ _ _ _ Hs) as [Hv Hn] end.
  unfold plan_total_c2c. unfold count_total_c2c in *. rewrite x_total_c2c_inv by assumption. rewrite Hcount. simpl.
  assert (Hq : 0 < / r) by (apply Rinv_0_lt_compat; assumption).
  match goal with |- context [start_count_c2c tau L ?k ?q] =>
    destruct (start_count_c2c_total_pos tau L k q Htau Hq Hv Hn) as [s' Hs'] end.
  rewrite Hs'. simpl. rewrite end_start_total_total by assumption. simpl. eexists. split; reflexivity.
Qed.

(** (count, start) -> (count, end): for every sound oracle that answers on the mirrored call *)
Lemma invert_count_start tau bq L n s d d' E E' :
  brentq_sound bq -> 0 <= tau ->
  plan_count_start tau bq L n s = Some d -> returned d = Some (n, E) ->
  plan_count_end tau bq L n s = Some d' -> returned d' = Some (n, E') -> E' = / E.
Proof.
  intros Hbq Htau H Hret H' Hret'.
  unfold plan_count_start in H. unfold plan_count_end in H'. inv_guards.
  simpl in Hret, Hret'. inversion Hret; subst; clear Hret. inversion Hret'; subst; clear Hret'.
  match goal with
  | H1 : c2c_count_start _ _ _ _ _ = Some ?r, H2 : c2c_count_end _ _ _ _ _ = Some ?r',
    T1 : total_count_c2c _ _ ?r = Some _, T2 : total_count_c2c _ _ ?r' = Some _ |- _ =>
      assert (Hrr : r' = / r /\ r <> 0);
      [|destruct Hrr as [-> Hr0]; rewrite total_count_c2c_inv in T2 by assumption; rewrite T1 in T2;
        simpl in T2; inversion T2; reflexivity];
      rename H1 into Hc1; rename H2 into Hc2
  end.
  destruct Hbq as [Hb1 [Hb2 _]].
  unfold c2c_count_start in Hc1. unfold c2c_count_end in Hc2. inv_guards.
  destruct (n =? 1)%Z eqn:Hn1.
  - (* one cell: the end version only passes through its shortcut *)
    inversion Hc1; subst.
    destruct (Rltb (Rabs (IZR n * s - L) / L) tau); [inversion Hc2; subst; split; [symmetry; apply Rinv_1|lra]|discriminate].
  - destruct (Rltb (Rabs (IZR n * s - L) / L) tau).
    + inversion Hc1; inversion Hc2; subst. split; [symmetry; apply Rinv_1|lra].
    + apply Z.eqb_neq in Hn1.
      destruct (Hb1 _ _ _ _ Hc1) as [Hr Heq]. destruct (Hb2 _ _ _ _ Hc2) as [Hr' Heq'].
      split; [|lra].
      apply (c2c_spec_mirror_unique s L _ _ (Z.to_nat n)); try assumption. lia.
Qed.

(** (count, end) -> (count, start) *)
Lemma invert_count_end tau bq L n e d d' E E' :
  brentq_sound bq -> 0 <= tau ->
  plan_count_end tau bq L n e = Some d -> returned d = Some (n, E) ->
  plan_count_start tau bq L n e = Some d' -> returned d' = Some (n, E') -> E' = / E.
Proof.
  intros Hbq Htau H Hret H' Hret'.
  pose proof (invert_count_start tau bq L n e d' d E' E Hbq Htau H' Hret' H Hret) as Hx.
  rewrite Hx. symmetry. apply Rinv_inv.
Qed.

(** pairs whose count is a brentq root: the mirrored equation has the same root, and roots > 1 are unique,
    so every sound oracle rounds the same real number *)
Lemma count_root_mirror_unique L E s x x' :
  0 < E -> E <> 1 -> 0 < s -> 1 < x -> 1 < x' ->
  Gcode x E = L / s -> Gcode x' (/ E) = L / (s * E) -> x' = x.
Proof.
  intros HE HE1 Hs Hx Hx' H H'.
  assert (HiE : 0 < / E) by (apply Rinv_0_lt_compat; assumption).
  assert (HiE1 : / E <> 1). { intros Hc. apply HE1. rewrite <- (Rinv_inv E), Hc. apply Rinv_1. }
  pose proof (count_spec_mirror L E s x HE HE1 ltac:(lra) Hs H) as Hm.
  rewrite Gcode_alt in Hm, H' by (try assumption; lra).
  destruct (Rtotal_order x' x) as [Hlt|[Heq|Hgt]]; [|assumption|].
  - pose proof (Galt_mono x' x (/ E) HiE HiE1 Hx' Hlt). lra.
  - pose proof (Galt_mono x x' (/ E) HiE HiE1 Hx Hgt). lra.
Qed.

(** the near-uniform branch sees the same smallest cell on both sides *)
Lemma d_min_mirror E s : 0 < E -> E <> 1 -> d_min (/ E) (s * E) = d_min E s.
Proof.
  intros HE HE1. unfold d_min.
  destruct (Rlt_dec 1 E) as [Hgt|Hle].
  - rewrite (Rltb_intro 1 E) by assumption.
    assert (/ E < 1). { rewrite <- Rinv_1. apply Rinv_lt_contravar; lra. }
    rewrite (Rltb_intro_false 1 (/ E)) by lra. field. lra.
  - assert (Hlt : E < 1) by lra. rewrite (Rltb_intro_false 1 E) by lra.
    assert (1 < / E). { rewrite <- Rinv_1. apply Rinv_lt_contravar; lra. }
    rewrite (Rltb_intro 1 (/ E)) by assumption. reflexivity.
Qed.

(** ** assembly over a relation table for which [calculate] is the plans (Properties/C03.v proves this of
    the tabulated table; stated here for any table so that this file does not depend on Gen) *)
Definition calc_is_plan (table : list rel) : Prop :=
  forall tau bq L,
  (forall n r, calculate tau bq L table (mk_data (Some n) None (Some r) None None) = plan_count_c2c tau L n r) /\
  (forall n E, calculate tau bq L table (mk_data (Some n) (Some E) None None None) = plan_count_total tau L n E) /\
  (forall n s, calculate tau bq L table (mk_data (Some n) None None (Some s) None) = plan_count_start tau bq L n s) /\
  (forall n e, calculate tau bq L table (mk_data (Some n) None None None (Some e)) = plan_count_end tau bq L n e) /\
  (forall s r, calculate tau bq L table (mk_data None None (Some r) (Some s) None) = plan_start_c2c tau L s r) /\
  (forall e r, calculate tau bq L table (mk_data None None (Some r) None (Some e)) = plan_end_c2c tau L e r) /\
  (forall E r, calculate tau bq L table (mk_data None (Some E) (Some r) None None) = plan_total_c2c tau L E r) /\
  (forall E s, calculate tau bq L table (mk_data None (Some E) None (Some s) None) = plan_total_start tau bq L E s) /\
  (forall E e, calculate tau bq L table (mk_data None (Some E) None None (Some e)) = plan_total_end tau bq L E e) /\
  (forall s e, calculate tau bq L table (mk_data None None None (Some s) (Some e)) = plan_start_end tau bq L s e).

Lemma plan_count_c2c_ret tau L c r d n E : plan_count_c2c tau L c r = Some d -> returned d = Some (n, E) -> n = c.
Proof. unfold plan_count_c2c. intros H Hr. inv_guards. cbv [returned bind d_count d_total] in Hr. congruence. Qed.
Lemma plan_count_total_ret tau L c T d n E : plan_count_total tau L c T = Some d -> returned d = Some (n, E) -> n = c.
Proof. unfold plan_count_total. intros H Hr. inv_guards. cbv [returned bind d_count d_total] in Hr. congruence. Qed.
Lemma plan_count_start_ret tau bq L c s d n E : plan_count_start tau bq L c s = Some d -> returned d = Some (n, E) -> n = c.
Proof. unfold plan_count_start. intros H Hr. inv_guards. cbv [returned bind d_count d_total] in Hr. congruence. Qed.
Lemma plan_count_end_ret tau bq L c e d n E : plan_count_end tau bq L c e = Some d -> returned d = Some (n, E) -> n = c.
Proof. unfold plan_count_end. intros H Hr. inv_guards. cbv [returned bind d_count d_total] in Hr. congruence. Qed.

(** the five pairs made of closed forms: the inverted chop is accepted and returns (n, 1/E) *)
Definition invert_closed_law (table : list rel) : Prop :=
  forall tau bq L d n E, 0 <= tau ->
  (forall c r, 0 < r ->
     calculate tau bq L table (mk_data (Some c) None (Some r) None None) = Some d -> returned d = Some (n, E) ->
     exists d', calculate tau bq L table (invert (mk_data (Some c) None (Some r) None None)) = Some d' /\
                returned d' = Some (n, / E)) /\
  (forall c T, 0 < T ->
     calculate tau bq L table (mk_data (Some c) (Some T) None None None) = Some d -> returned d = Some (n, E) ->
     exists d', calculate tau bq L table (invert (mk_data (Some c) (Some T) None None None)) = Some d' /\
                returned d' = Some (n, / E)) /\
  (forall s r, 0 < r -> band_ok tau r ->
     calculate tau bq L table (mk_data None None (Some r) (Some s) None) = Some d -> returned d = Some (n, E) ->
     exists d', calculate tau bq L table (invert (mk_data None None (Some r) (Some s) None)) = Some d' /\
                returned d' = Some (n, / E)) /\
  (forall e r, 0 < r -> 0 < e -> band_ok tau r ->
     calculate tau bq L table (mk_data None None (Some r) None (Some e)) = Some d -> returned d = Some (n, E) ->
     exists d', calculate tau bq L table (invert (mk_data None None (Some r) None (Some e))) = Some d' /\
                returned d' = Some (n, / E)) /\
  (forall T r, tau < Rabs (/ r - 1) ->
     calculate tau bq L table (mk_data None (Some T) (Some r) None None) = Some d -> returned d = Some (n, E) ->
     exists d', calculate tau bq L table (invert (mk_data None (Some T) (Some r) None None)) = Some d' /\
                returned d' = Some (n, / E)).

Lemma invert_closed table : calc_is_plan table -> invert_closed_law table.
Proof.
  intros Hp tau bq L d n E Htau.
  destruct (Hp tau bq L) as (P1 & P2 & _ & _ & P5 & P6 & P7 & _).
  repeat split.
  - intros c r Hr H Hret. rewrite P1 in H. cbv [invert option_map d_count d_total d_c2c d_start d_end]. rewrite P1.
    pose proof (plan_count_c2c_ret _ _ _ _ _ _ _ H Hret). subst c.
    apply (invert_count_c2c tau L n r d E); [lra|assumption|assumption].
  - intros c T HT H Hret. rewrite P2 in H. cbv [invert option_map d_count d_total d_c2c d_start d_end]. rewrite P2.
    pose proof (plan_count_total_ret _ _ _ _ _ _ _ H Hret). subst c.
    destruct (invert_count_total tau L n T d HT H) as [Hr0 Hex]. rewrite Hr0 in Hret. inversion Hret; subst.
    exact Hex.
  - intros s r Hr Hb H Hret. rewrite P5 in H. cbv [invert option_map d_count d_total d_c2c d_start d_end]. rewrite P6.
    apply (invert_start_c2c tau L s r d n E); assumption.
  - intros e r Hr He Hb H Hret. rewrite P6 in H. cbv [invert option_map d_count d_total d_c2c d_start d_end]. rewrite P5.
    apply (invert_end_c2c tau L e r d n E); assumption.
  - intros T r Hb H Hret. rewrite P7 in H. cbv [invert option_map d_count d_total d_c2c d_start d_end]. rewrite P7.
    destruct (invert_total_c2c tau L T r d Htau Hb H) as [k [Hk Hex]]. rewrite Hk in Hret. inversion Hret; subst.
    exact Hex.
Qed.

(** pairs with a brentq ratio: whenever the (sound) oracle also answers on the mirrored call, the inverted
    chop returns the same count and the reciprocal expansion *)
Definition invert_oracle_law (table : list rel) : Prop :=
  forall tau bq L d d' n n' E E', brentq_sound bq -> 0 <= tau ->
  (forall c s,
     calculate tau bq L table (mk_data (Some c) None None (Some s) None) = Some d -> returned d = Some (n, E) ->
     calculate tau bq L table (invert (mk_data (Some c) None None (Some s) None)) = Some d' ->
     returned d' = Some (n', E') -> n' = n /\ E' = / E) /\
  (forall c e,
     calculate tau bq L table (mk_data (Some c) None None None (Some e)) = Some d -> returned d = Some (n, E) ->
     calculate tau bq L table (invert (mk_data (Some c) None None None (Some e))) = Some d' ->
     returned d' = Some (n', E') -> n' = n /\ E' = / E).

Lemma invert_oracle table : calc_is_plan table -> invert_oracle_law table.
Proof.
  intros Hp tau bq L d d' n n' E E' Hbq Htau.
  destruct (Hp tau bq L) as (_ & _ & P3 & P4 & _).
  split.
  - intros c s H Hret H' Hret'. rewrite P3 in H.
    cbv [invert option_map d_count d_total d_c2c d_start d_end] in H'. rewrite P4 in H'.
    pose proof (plan_count_start_ret _ _ _ _ _ _ _ _ H Hret). pose proof (plan_count_end_ret _ _ _ _ _ _ _ _ H' Hret').
    subst n n'. split; [reflexivity|].
    apply (invert_count_start tau bq L c s d d' E E'); assumption.
  - intros c e H Hret H' Hret'. rewrite P4 in H.
    cbv [invert option_map d_count d_total d_c2c d_start d_end] in H'. rewrite P3 in H'.
    pose proof (plan_count_end_ret _ _ _ _ _ _ _ _ H Hret). pose proof (plan_count_start_ret _ _ _ _ _ _ _ _ H' Hret').
    subst n n'. split; [reflexivity|].
    apply (invert_count_end tau bq L c e d d' E E'); assumption.
Qed.
