(** C03 - inversion at the level of the ten plans: calculate L (invert c) = (n, 1/E) when
    calculate L c = (n, E).  Closed-form pairs: unconditional (outside the tolerance band).  Pairs whose
    ratio comes from brentq: for every sound oracle that answers on the mirrored input.  Pairs whose count
    comes from brentq: the mirrored defining equation has the same root (uniqueness for roots > 1). *)
From Coq Require Import Reals ZArith List Bool Lra Lia Psatz.
From Flocq Require Import Core.Raux.
From CB Require Import Model.C03_Relations Proofs.C03_GeomSeries Proofs.C03_Relations Proofs.C03_Plans
  Proofs.C03_Invert.
Import ListNotations.
Open Scope R_scope.

(** the ratio is 1, or it and its reciprocal are both outside the band |r-1| <= tau in which the code
    replaces the ratio by 1 *)
Definition band_ok (tau r : R) : Prop := r = 1 \/ (tau < Rabs (r - 1) /\ tau < Rabs (/ r - 1)).

Lemma returned_mk n E r s e : returned (mk_data (Some n) (Some E) r s e) = Some (n, E).
Proof. reflexivity. Qed.

Lemma start_count_c2c_some tau L n r s :
  start_count_c2c tau L n r = Some s -> valid_length L = true /\ (1 <=? n)%Z = true.
Proof.
  unfold start_count_c2c. destruct (valid_length L); simpl; [|discriminate].
  destruct (1 <=? n)%Z; simpl; [auto|discriminate].
Qed.

(** [1 - r^n = 0] (python: ZeroDivisionError) needs r = 1 or r = -1 *)
Lemma powerRZ_eq_1 r n : (1 <= n)%Z -> powerRZ r n = 1 -> r = 1 \/ r = -1.
Proof.
  intros Hn H. rewrite powerRZ_nat in H by lia.
  assert (Hk : (1 <= Z.to_nat n)%nat) by lia.
  assert (Ha : Rabs r ^ Z.to_nat n = 1) by (rewrite RPow_abs, H; apply Rabs_R1).
  destruct (Req_dec r 0) as [->|Hr0].
  { rewrite pow_ne_zero in H by lia. lra. }
  destruct (Req_dec (Rabs r) 1) as [H1|H1].
  - unfold Rabs in H1. destruct (Rcase_abs r); [right|left]; lra.
  - exfalso. apply (pow_ne_1 (Rabs r) (Z.to_nat n)); auto. apply Rabs_pos_lt. assumption.
Qed.

Lemma start_count_c2c_total tau L n r :
  valid_length L = true -> (1 <=? n)%Z = true -> (Rabs (r - 1) <= tau \/ powerRZ r n <> 1) ->
  exists s, start_count_c2c tau L n r = Some s.
Proof.
  intros Hv Hn Hz. unfold start_count_c2c. rewrite Hv, Hn. simpl.
  unfold Rltb. destruct (Rlt_dec tau (Rabs (r - 1))) as [Hb|Hb]; [|eexists; reflexivity].
  destruct Hz as [Hz|Hz]; [lra|]. unfold Reqb. destruct (Req_EM_T (1 - powerRZ r n) 0) as [e|ne]; [lra|].
  simpl. eexists. reflexivity.
Qed.

(** for positive ratios the closed form never divides by zero *)
Lemma start_count_c2c_total_pos tau L n r :
  0 <= tau -> 0 < r -> valid_length L = true -> (1 <=? n)%Z = true -> exists s, start_count_c2c tau L n r = Some s.
Proof.
  intros Htau Hr Hv Hn. apply start_count_c2c_total; try assumption. apply Z.leb_le in Hn.
  destruct (Req_dec r 1) as [->|H1].
  - left. replace (1 - 1) with 0 by ring. rewrite Rabs_R0. assumption.
  - right. rewrite powerRZ_nat by lia. apply pow_ne_1; [assumption|assumption|lia].
Qed.

(** accepted for r => accepted for 1/r *)
Lemma start_count_c2c_total_inv tau L n r s :
  r <> 0 -> start_count_c2c tau L n r = Some s -> exists s', start_count_c2c tau L n (/ r) = Some s'.
Proof.
  intros Hr Hs. destruct (start_count_c2c_some _ _ _ _ _ Hs) as [Hv Hn].
  apply start_count_c2c_total; try assumption.
  destruct (Req_dec (powerRZ (/ r) n) 1) as [H1|H1]; [left|right; assumption].
  pose proof Hn as Hn'. apply Z.leb_le in Hn'.
  assert (Hq : / r = r).
  { destruct (powerRZ_eq_1 _ _ Hn' H1) as [H|H].
    - assert (r = 1) by (rewrite <- (Rinv_inv r), H; apply Rinv_1). subst r. apply Rinv_1.
    - assert (r = -1) by (rewrite <- (Rinv_inv r), H; field). subst r. field. }
  rewrite Hq in *. unfold start_count_c2c in Hs. rewrite Hv, Hn in Hs. simpl in Hs.
  unfold Rltb in Hs. destruct (Rlt_dec tau (Rabs (r - 1))) as [Hb|Hb]; [|lra].
  exfalso. unfold Reqb in Hs. destruct (Req_EM_T (1 - powerRZ r n) 0) as [e|ne]; [discriminate|lra].
Qed.

Lemma end_start_total_total L s E : valid_length L = true -> end_start_total L s E = Some (s * E).
Proof. intros Hv. unfold end_start_total. rewrite Hv. reflexivity. Qed.

Lemma total_count_c2c_some L n r E :
  total_count_c2c L n r = Some E -> valid_length L = true /\ (1 <=? n)%Z = true.
Proof.
  unfold total_count_c2c. destruct (valid_length L); simpl; [|discriminate].
  destruct (1 <=? n)%Z; simpl; [auto|discriminate].
Qed.

(** (count, c2c) *)
Lemma invert_count_c2c tau L n r d E :
  r <> 0 -> plan_count_c2c tau L n r = Some d -> returned d = Some (n, E) ->
  exists d', plan_count_c2c tau L n (/ r) = Some d' /\ returned d' = Some (n, / E).
Proof.
  intros Hr H Hret. unfold plan_count_c2c in H. inv_guards. simpl in Hret. inversion Hret; subst; clear Hret.
  match goal with Hs : start_count_c2c _ _ _ _ = Some _ |- _ =>
    destruct (start_count_c2c_some _ _ _ _ _ Hs) as [Hv Hn] end.
  match goal with Hs : start_count_c2c _ _ _ _ = Some _ |- _ =>
    destruct (start_count_c2c_total_inv _ _ _ _ _ Hr Hs) as [s' Hs'] end.
  unfold plan_count_c2c. rewrite Hs'. simpl.
  rewrite total_count_c2c_inv by assumption.
  match goal with Ht : total_count_c2c _ _ _ = Some _ |- _ => rewrite Ht end. simpl.
  rewrite end_start_total_total by assumption. simpl. eexists. split; reflexivity.
Qed.

(** (count, total) *)
Lemma invert_count_total tau L n E d :
  0 < E -> plan_count_total tau L n E = Some d ->
  returned d = Some (n, E) /\
  exists d', plan_count_total tau L n (/ E) = Some d' /\ returned d' = Some (n, / E).
Proof.
  intros HE H. unfold plan_count_total in H. inv_guards. split; [reflexivity|].
  match goal with Hs : start_count_c2c _ _ _ _ = Some _ |- _ =>
    destruct (start_count_c2c_some _ _ _ _ _ Hs) as [Hv Hn] end.
  unfold plan_count_total. rewrite c2c_count_total_inv by assumption.
  match goal with Hc : c2c_count_total _ _ _ = Some _ |- _ => rewrite Hc end. simpl.
  match goal with Hc : c2c_count_total _ _ _ = Some ?x, Hs : start_count_c2c _ _ _ ?x = Some _ |- _ =>
    assert (Hx : x <> 0) by (unfold c2c_count_total in Hc; inv_guards; unfold Rpower; apply Rgt_not_eq, exp_pos);
    destruct (start_count_c2c_total_inv _ _ _ _ _ Hx Hs) as [s' Hs'] end.
  rewrite Hs'. simpl. rewrite end_start_total_total by assumption. simpl. eexists. split; reflexivity.
Qed.

Lemma band_ok_count tau L v r :
  0 <= tau -> 0 < v -> 0 < r -> band_ok tau r -> count_end_c2c tau L v (/ r) = count_start_c2c tau L v r.
Proof.
  intros Htau Hv Hr [->|[H1 H2]].
  - apply count_end_start_inv_uniform; assumption.
  - apply count_end_start_inv; assumption.
Qed.

Lemma band_ok_inv tau r : r <> 0 -> band_ok tau r -> band_ok tau (/ r).
Proof.
  intros Hr [->|[H1 H2]].
  - left. apply Rinv_1.
  - right. rewrite Rinv_inv. split; assumption.
Qed.

(** (start, c2c) -> (end, 1/c2c) *)
Lemma invert_start_c2c tau L s r d n E :
  0 <= tau -> 0 < r -> band_ok tau r ->
  plan_start_c2c tau L s r = Some d -> returned d = Some (n, E) ->
  exists d', plan_end_c2c tau L s (/ r) = Some d' /\ returned d' = Some (n, / E).
Proof.
  intros Htau Hr Hb H Hret. unfold plan_start_c2c in H. inv_guards. simpl in Hret. inversion Hret; subst; clear Hret.
  match goal with Hc : count_start_c2c _ _ _ _ = Some _ |- _ => rename Hc into Hcount end.
  assert (Hs : 0 < s).
  { unfold count_start_c2c, x_start_c2c in Hcount. apply omap_some in Hcount. destruct Hcount as [xx [Hxx _]].
    inv_guards. assumption. }
  match goal with Ht : total_count_c2c _ _ _ = Some _ |- _ =>
    destruct (total_count_c2c_some _ _ _ _ Ht) as [Hv Hn] end.
  unfold plan_end_c2c. rewrite band_ok_count by assumption. rewrite Hcount. simpl.
  assert (Hq : 0 < / r) by (apply Rinv_0_lt_compat; assumption).
  destruct (start_count_c2c_total_pos tau L n (/ r) Htau Hq Hv Hn) as [s' Hs'].
  rewrite Hs'. simpl. rewrite total_count_c2c_inv by lra.
  match goal with Ht : total_count_c2c _ _ _ = Some _ |- _ => rewrite Ht end. simpl.
  eexists. split; reflexivity.
Qed.

(** (end, c2c) -> (start, 1/c2c) *)
Lemma invert_end_c2c tau L e r d n E :
  0 <= tau -> 0 < r -> 0 < e -> band_ok tau r ->
  plan_end_c2c tau L e r = Some d -> returned d = Some (n, E) ->
  exists d', plan_start_c2c tau L e (/ r) = Some d' /\ returned d' = Some (n, / E).
Proof.
  intros Htau Hr He Hb H Hret. unfold plan_end_c2c in H. inv_guards. simpl in Hret. inversion Hret; subst; clear Hret.
  match goal with Hc : count_end_c2c _ _ _ _ = Some _ |- _ => rename Hc into Hcount end.
  assert (Hq : 0 < / r) by (apply Rinv_0_lt_compat; assumption).
  pose proof (band_ok_count tau L e (/ r) Htau He Hq (band_ok_inv tau r ltac:(lra) Hb)) as Hm.
  rewrite Rinv_inv in Hm. rewrite Hm in Hcount.
  match goal with Hs : start_count_c2c _ _ _ _ = Some _ |- _ =>
    destruct (start_count_c2c_some _ _ _ _ _ Hs) as [Hv Hn] end.
  unfold plan_start_c2c. rewrite Hcount. simpl. rewrite total_count_c2c_inv by lra.
  match goal with Ht : total_count_c2c _ _ _ = Some _ |- _ => rewrite Ht end. simpl.
  rewrite end_start_total_total by assumption. simpl. eexists. split; reflexivity.
Qed.

(** (total, c2c) -> (1/total, 1/c2c) *)
Lemma x_total_c2c_inv tau L E r :
  0 < E -> 0 < r -> tau < Rabs (r - 1) -> tau < Rabs (/ r - 1) -> 0 <= tau ->
  x_total_c2c tau L (/ E) (/ r) = x_total_c2c tau L E r.
Proof.
  intros HE Hr H1 H2 Htau. unfold x_total_c2c.
  assert (HiE : 0 < / E) by (apply Rinv_0_lt_compat; assumption).
  assert (Hir : 0 < / r) by (apply Rinv_0_lt_compat; assumption).
  rewrite (Reqb_intro_false (/ E) 0) by lra. rewrite (Reqb_intro_false E 0) by lra.
  rewrite (Rltb_intro tau (Rabs (r - 1))) by assumption.
  rewrite (Rltb_intro tau (Rabs (/ r - 1))) by assumption.
  rewrite (Rltb_intro 0 E), (Rltb_intro 0 r), (Rltb_intro 0 (/ E)), (Rltb_intro 0 (/ r)) by assumption.
  simpl. destruct (valid_length L); simpl; [|reflexivity]. f_equal.
  rewrite !ln_Rinv by assumption. field. apply ln_ne_0; [assumption|].
  intros ->. replace (1 - 1) with 0 in H1 by ring. rewrite Rabs_R0 in H1. lra.
Qed.

Lemma invert_total_c2c tau L E r d :
  0 <= tau -> tau < Rabs (/ r - 1) ->
  plan_total_c2c tau L E r = Some d ->
  exists n, returned d = Some (n, E) /\
  exists d', plan_total_c2c tau L (/ E) (/ r) = Some d' /\ returned d' = Some (n, / E).
Proof.
  intros Htau Hb2 H. unfold plan_total_c2c in H. inv_guards.
  match goal with Hc : count_total_c2c _ _ _ _ = Some ?k |- _ => rename Hc into Hcount; exists k end.
  split; [reflexivity|].
  assert (Hg : 0 < E /\ 0 < r /\ tau < Rabs (r - 1)).
  { unfold count_total_c2c, x_total_c2c in Hcount. apply omap_some in Hcount. destruct Hcount as [xx [Hxx _]].
    inv_guards. repeat split; assumption. }
  destruct Hg as [HE [Hr Hb1]].
  match goal with Hs : start_count_c2c _ _ _ _ = Some _ |- _ =>
    destruct (start_count_c2c_some _ _ _ _ _ Hs) as [Hv Hn] end.
  unfold plan_total_c2c. unfold count_total_c2c in *. rewrite x_total_c2c_inv by assumption. rewrite Hcount. simpl.
  assert (Hq : 0 < / r) by (apply Rinv_0_lt_compat; assumption).
  match goal with |- context [start_count_c2c tau L ?k ?q] =>
    destruct (start_count_c2c_total_pos tau L k q Htau Hq Hv Hn) as [s' Hs'] end.
  rewrite Hs'. simpl. rewrite end_start_total_total by assumption. simpl. eexists. split; reflexivity.
Qed.

(** (count, start) -> (count, end): for every sound oracle that answers on the mirrored call *)
Lemma invert_count_start tau bq L n s d d' E E' :
  brentq_sound bq -> 0 <= tau ->
  plan_count_start tau bq L n s = Some d -> returned d = Some (n, E) ->
  plan_count_end tau bq L n s = Some d' -> returned d' = Some (n, E') -> E' = / E.
Proof.
  intros Hbq Htau H Hret H' Hret'.
  unfold plan_count_start in H. unfold plan_count_end in H'. inv_guards.
  simpl in Hret, Hret'. inversion Hret; subst; clear Hret. inversion Hret'; subst; clear Hret'.
  match goal with
  | H1 : c2c_count_start _ _ _ _ _ = Some ?r, H2 : c2c_count_end _ _ _ _ _ = Some ?r',
    T1 : total_count_c2c _ _ ?r = Some _, T2 : total_count_c2c _ _ ?r' = Some _ |- _ =>
      assert (Hrr : r' = / r /\ r <> 0);
      [|destruct Hrr as [-> Hr0]; rewrite total_count_c2c_inv in T2 by assumption; rewrite T1 in T2;
        simpl in T2; inversion T2; reflexivity];
      rename H1 into Hc1; rename H2 into Hc2
  end.
  destruct Hbq as [Hb1 [Hb2 _]].
  unfold c2c_count_start in Hc1. unfold c2c_count_end in Hc2. inv_guards.
  destruct (n =? 1)%Z eqn:Hn1.
  - (* one cell: the end version only passes through its shortcut *)
    inversion Hc1; subst.
    destruct (Rltb (Rabs (IZR n * s - L) / L) tau); [inversion Hc2; subst; split; [symmetry; apply Rinv_1|lra]|discriminate].
  - destruct (Rltb (Rabs (IZR n * s - L) / L) tau).
    + inversion Hc1; inversion Hc2; subst. split; [symmetry; apply Rinv_1|lra].
    + apply Z.eqb_neq in Hn1.
      destruct (Hb1 _ _ _ _ Hc1) as [Hr Heq]. destruct (Hb2 _ _ _ _ Hc2) as [Hr' Heq'].
      split; [|lra].
      apply (c2c_spec_mirror_unique s L _ _ (Z.to_nat n)); try assumption. lia.
Qed.

(** (count, end) -> (count, start) *)
Lemma invert_count_end tau bq L n e d d' E E' :
  brentq_sound bq -> 0 <= tau ->
  plan_count_end tau bq L n e = Some d -> returned d = Some (n, E) ->
  plan_count_start tau bq L n e = Some d' -> returned d' = Some (n, E') -> E' = / E.
Proof.
  intros Hbq Htau H Hret H' Hret'.
  pose proof (invert_count_start tau bq L n e d' d E' E Hbq Htau H' Hret' H Hret) as Hx.
  rewrite Hx. symmetry. apply Rinv_inv.
Qed.

(** pairs whose count is a brentq root: the mirrored equation has the same root, and roots > 1 are unique,
    so every sound oracle rounds the same real number *)
Lemma count_root_mirror_unique L E s x x' :
  0 < E -> E <> 1 -> 0 < s -> 1 < x -> 1 < x' ->
  Gcode x E = L / s -> Gcode x' (/ E) = L / (s * E) -> x' = x.
Proof.
  intros HE HE1 Hs Hx Hx' H H'.
  assert (HiE : 0 < / E) by (apply Rinv_0_lt_compat; assumption).
  assert (HiE1 : / E <> 1). { intros Hc. apply HE1. rewrite <- (Rinv_inv E), Hc. apply Rinv_1. }
  pose proof (count_spec_mirror L E s x HE HE1 ltac:(lra) Hs H) as Hm.
  rewrite Gcode_alt in Hm, H' by (try assumption; lra).
  destruct (Rtotal_order x' x) as [Hlt|[Heq|Hgt]]; [|assumption|].
  - pose proof (Galt_mono x' x (/ E) HiE HiE1 Hx' Hlt). lra.
  - pose proof (Galt_mono x x' (/ E) HiE HiE1 Hx Hgt). lra.
Qed.

(** the near-uniform branch sees the same smallest cell on both sides *)
Lemma d_min_mirror E s : 0 < E -> E <> 1 -> d_min (/ E) (s * E) = d_min E s.
Proof.
  intros HE HE1. unfold d_min.
  destruct (Rlt_dec 1 E) as [Hgt|Hle].
  - rewrite (Rltb_intro 1 E) by assumption.
    assert (/ E < 1). { rewrite <- Rinv_1. apply Rinv_lt_contravar; lra. }
    rewrite (Rltb_intro_false 1 (/ E)) by lra. field. lra.
  - assert (Hlt : E < 1) by lra. rewrite (Rltb_intro_false 1 E) by lra.
    assert (1 < / E). { rewrite <- Rinv_1. apply Rinv_lt_contravar; lra. }
    rewrite (Rltb_intro 1 (/ E)) by assumption. reflexivity.
Qed.

(** ** assembly over a relation table for which [calculate] is the plans (Properties/C03.v proves this of
    the tabulated table; stated here for any table so that this file does not depend on Gen) *)
Definition calc_is_plan (table : list rel) : Prop :=
  forall tau bq L,
  (forall n r, calculate tau bq L table (mk_data (Some n) None (Some r) None None) = plan_count_c2c tau L n r) /\
  (forall n E, calculate tau bq L table (mk_data (Some n) (Some E) None None None) = plan_count_total tau L n E) /\
  (forall n s, calculate tau bq L table (mk_data (Some n) None None (Some s) None) = plan_count_start tau bq L n s) /\
  (forall n e, calculate tau bq L table (mk_data (Some n) None None None (Some e)) = plan_count_end tau bq L n e) /\
  (forall s r, calculate tau bq L table (mk_data None None (Some r) (Some s) None) = plan_start_c2c tau L s r) /\
  (forall e r, calculate tau bq L table (mk_data None None (Some r) None (Some e)) = plan_end_c2c tau L e r) /\
  (forall E r, calculate tau bq L table (mk_data None (Some E) (Some r) None None) = plan_total_c2c tau L E r) /\
  (forall E s, calculate tau bq L table (mk_data None (Some E) None (Some s) None) = plan_total_start tau bq L E s) /\
  (forall E e, calculate tau bq L table (mk_data None (Some E) None None (Some e)) = plan_total_end tau bq L E e) /\
  (forall s e, calculate tau bq L table (mk_data None None None (Some s) (Some e)) = plan_start_end tau bq L s e).

Lemma plan_count_c2c_ret tau L c r d n E : plan_count_c2c tau L c r = Some d -> returned d = Some (n, E) -> n = c.
Proof. unfold plan_count_c2c. intros H Hr. inv_guards. cbv [returned bind d_count d_total] in Hr. congruence. Qed.
Lemma plan_count_total_ret tau L c T d n E : plan_count_total tau L c T = Some d -> returned d = Some (n, E) -> n = c.
Proof. unfold plan_count_total. intros H Hr. inv_guards. cbv [returned bind d_count d_total] in Hr. congruence. Qed.
Lemma plan_count_start_ret tau bq L c s d n E : plan_count_start tau bq L c s = Some d -> returned d = Some (n, E) -> n = c.
Proof. unfold plan_count_start. intros H Hr. inv_guards. cbv [returned bind d_count d_total] in Hr. congruence. Qed.
Lemma plan_count_end_ret tau bq L c e d n E : plan_count_end tau bq L c e = Some d -> returned d = Some (n, E) -> n = c.
Proof. unfold plan_count_end. intros H Hr. inv_guards. cbv [returned bind d_count d_total] in Hr. congruence. Qed.

(** the five pairs made of closed forms: the inverted chop is accepted and returns (n, 1/E) *)
Definition invert_closed_law (table : list rel) : Prop :=
  forall tau bq L d n E, 0 <= tau ->
  (forall c r, 0 < r ->
     calculate tau bq L table (mk_data (Some c) None (Some r) None None) = Some d -> returned d = Some (n, E) ->
     exists d', calculate tau bq L table (invert (mk_data (Some c) None (Some r) None None)) = Some d' /\
                returned d' = Some (n, / E)) /\
  (forall c T, 0 < T ->
     calculate tau bq L table (mk_data (Some c) (Some T) None None None) = Some d -> returned d = Some (n, E) ->
     exists d', calculate tau bq L table (invert (mk_data (Some c) (Some T) None None None)) = Some d' /\
                returned d' = Some (n, / E)) /\
  (forall s r, 0 < r -> band_ok tau r ->
     calculate tau bq L table (mk_data None None (Some r) (Some s) None) = Some d -> returned d = Some (n, E) ->
     exists d', calculate tau bq L table (invert (mk_data None None (Some r) (Some s) None)) = Some d' /\
                returned d' = Some (n, / E)) /\
  (forall e r, 0 < r -> 0 < e -> band_ok tau r ->
     calculate tau bq L table (mk_data None None (Some r) None (Some e)) = Some d -> returned d = Some (n, E) ->
     exists d', calculate tau bq L table (invert (mk_data None None (Some r) None (Some e))) = Some d' /\
                returned d' = Some (n, / E)) /\
  (forall T r, tau < Rabs (/ r - 1) ->
     calculate tau bq L table (mk_data None (Some T) (Some r) None None) = Some d -> returned d = Some (n, E) ->
     exists d', calculate tau bq L table (invert (mk_data None (Some T) (Some r) None None)) = Some d' /\
                returned d' = Some (n, / E)).

Lemma invert_closed table : calc_is_plan table -> invert_closed_law table.
Proof.
  intros Hp tau bq L d n E Htau.
  destruct (Hp tau bq L) as (P1 & P2 & _ & _ & P5 & P6 & P7 & _).
  repeat split.
  - intros c r Hr H Hret. rewrite P1 in H. cbv [invert option_map d_count d_total d_c2c d_start d_end]. rewrite P1.
    pose proof (plan_count_c2c_ret _ _ _ _ _ _ _ H Hret). subst c.
    apply (invert_count_c2c tau L n r d E); [lra|assumption|assumption].
  - intros c T HT H Hret. rewrite P2 in H. cbv [invert option_map d_count d_total d_c2c d_start d_end]. rewrite P2.
    pose proof (plan_count_total_ret _ _ _ _ _ _ _ H Hret). subst c.
    destruct (invert_count_total tau L n T d HT H) as [Hr0 Hex]. rewrite Hr0 in Hret. inversion Hret; subst.
    exact Hex.
  - intros s r Hr Hb H Hret. rewrite P5 in H. cbv [invert option_map d_count d_total d_c2c d_start d_end]. rewrite P6.
    apply (invert_start_c2c tau L s r d n E); assumption.
  - intros e r Hr He Hb H Hret. rewrite P6 in H. cbv [invert option_map d_count d_total d_c2c d_start d_end]. rewrite P5.
    apply (invert_end_c2c tau L e r d n E); assumption.
  - intros T r Hb H Hret. rewrite P7 in H. cbv [invert option_map d_count d_total d_c2c d_start d_end]. rewrite P7.
    destruct (invert_total_c2c tau L T r d Htau Hb H) as [k [Hk Hex]]. rewrite Hk in Hret. inversion Hret; subst.
    exact Hex.
Qed.

(** pairs with a brentq ratio: whenever the (sound) oracle also answers on the mirrored call, the inverted
    chop returns the same count and the reciprocal expansion *)
Definition invert_oracle_law (table : list rel) : Prop :=
  forall tau bq L d d' n n' E E', brentq_sound bq -> 0 <= tau ->
  (forall c s,
     calculate tau bq L table (mk_data (Some c) None None (Some s) None) = Some d -> returned d = Some (n, E) ->
     calculate tau bq L table (invert (mk_data (Some c) None None (Some s) None)) = Some d' ->
     returned d' = Some (n', E') -> n' = n /\ E' = / E) /\
  (forall c e,
     calculate tau bq L table (mk_data (Some c) None None None (Some e)) = Some d -> returned d = Some (n, E) ->
     calculate tau bq L table (invert (mk_data (Some c) None None None (Some e))) = Some d' ->
     returned d' = Some (n', E') -> n' = n /\ E' = / E).

Lemma invert_oracle table : calc_is_plan table -> invert_oracle_law table.
Proof.
  intros Hp tau bq L d d' n n' E E' Hbq Htau.
  destruct (Hp tau bq L) as (_ & _ & P3 & P4 & _).
  split.
  - intros c s H Hret H' Hret'. rewrite P3 in H.
    cbv [invert option_map d_count d_total d_c2c d_start d_end] in H'. rewrite P4 in H'.
    pose proof (plan_count_start_ret _ _ _ _ _ _ _ _ H Hret). pose proof (plan_count_end_ret _ _ _ _ _ _ _ _ H' Hret').
    subst n n'. split; [reflexivity|].
    apply (invert_count_start tau bq L c s d d' E E'); assumption.
  - intros c e H Hret H' Hret'. rewrite P4 in H.
    cbv [invert option_map d_count d_total d_c2c d_start d_end] in H'. rewrite P3 in H'.
    pose proof (plan_count_end_ret _ _ _ _ _ _ _ _ H Hret). pose proof (plan_count_start_ret _ _ _ _ _ _ _ _ H' Hret').
    subst n n'. split; [reflexivity|].
    apply (invert_count_end tau bq L c e d d' E E'); assumption.
Qed.

(** ** the three pairs whose count is a brentq root: (total,start) (total,end) (start,end) *)

(** the near-uniform branch is taken on both sides or on neither *)
Definition band_sym (tau E : R) : Prop := Rabs (E - 1) < tau <-> Rabs (/ E - 1) < tau.

Lemma Galt_lt_1 x E : 0 < E -> E <> 1 -> 0 < x -> x < 1 -> Galt x E < 1.
Proof.
  intros HE HE1 Hx0 Hx1. unfold Galt.
  assert (Hy : 1 / (x - 1) < 0).
  { unfold Rdiv. rewrite Rmult_1_l. apply Rinv_lt_0_compat. lra. }
  pose proof (Rpower_pos E (1 / (x - 1))) as Hq0.
  destruct (Rlt_dec E 1) as [Hlt|Hge].
  - pose proof (Rpower_smono_lt1 E _ _ HE Hlt Hy) as Hq. rewrite Rpower_O in Hq by assumption.
    assert (Hneg : (1 - E) / (1 - Rpower E (1 / (x - 1))) < 0).
    { replace ((1 - E) / (1 - Rpower E (1 / (x - 1)))) with (- ((1 - E) / (Rpower E (1 / (x - 1)) - 1))) by (field; lra).
      assert (0 < (1 - E) / (Rpower E (1 / (x - 1)) - 1)) by (apply Rdiv_lt_0_compat; lra). lra. }
    lra.
  - assert (Hgt : 1 < E) by lra.
    pose proof (Rpower_smono_gt1 E _ _ Hgt Hy) as Hq. rewrite Rpower_O in Hq by lra.
    assert (Hd : 0 < 1 - Rpower E (1 / (x - 1))) by lra.
    assert (Hlt1 : E - 1 < (E - 1) / (1 - Rpower E (1 / (x - 1)))).
    { apply Rmult_lt_reg_r with (1 - Rpower E (1 / (x - 1))); [assumption|].
      replace ((E - 1) / (1 - Rpower E (1 / (x - 1))) * (1 - Rpower E (1 / (x - 1)))) with (E - 1) by (field; lra).
      nra. }
    replace ((1 - E) / (1 - Rpower E (1 / (x - 1)))) with (- ((E - 1) / (1 - Rpower E (1 / (x - 1))))) by (field; lra).
    lra.
Qed.

Lemma pyint_small x : 0 < x -> x < 1 -> pyint x = 0%Z.
Proof.
  intros H0 H1. unfold pyint. rewrite Ztrunc_floor by lra. apply Zfloor_imp. simpl. lra.
Qed.

(** count <- (1/E, s E) = count <- (E, s): same smallest cell in the near-uniform branch; the same real root, or
    two roots below 1 (one cell), in the brentq branch - for EVERY sound oracle *)
Lemma count_total_start_mirror tau bq L E s n n' :
  brentq_sound bq -> 0 < tau -> 0 < E -> band_sym tau E ->
  count_total_start tau bq L E s = Some n -> count_total_start tau bq L (/ E) (s * E) = Some n' -> n' = n.
Proof.
  intros Hbq Htau HE Hband H H'.
  destruct (count_total_start_cases _ _ _ _ _ _ H Hbq) as (HL & Hs & HE0 & Hc).
  destruct (count_total_start_cases _ _ _ _ _ _ H' Hbq) as (_ & Hs' & _ & Hc').
  assert (HiE : 0 < / E) by (apply Rinv_0_lt_compat; assumption).
  destruct Hc as [[Hb ->]|[Hb (x & Hx & Hx1 & HG & ->)]];
    destruct Hc' as [[Hb' ->]|[Hb' (x' & Hx' & Hx1' & HG' & ->)]].
  - f_equal. f_equal. destruct (Req_dec E 1) as [->|HE1].
    + rewrite Rinv_1. unfold d_min. destruct (Rltb 1 1); ring.
    + apply d_min_mirror; assumption.
  - exfalso. apply Hband in Hb. lra.
  - exfalso. apply Hband in Hb'. lra.
  - assert (HE1 : E <> 1).
    { intros ->. replace (1 - 1) with 0 in Hb by ring. rewrite Rabs_R0 in Hb. lra. }
    assert (HiE1 : / E <> 1). { intros Hc. apply HE1. rewrite <- (Rinv_inv E), Hc. apply Rinv_1. }
    (* both equations on both sides *)
    pose proof (count_spec_mirror L E s x HE HE1 Hx1 Hs HG) as HGm.
    pose proof (count_spec_mirror L (/ E) (s * E) x' HiE HiE1 Hx1' Hs' HG') as HGm'.
    rewrite Rinv_inv in HGm'. replace (s * E * / E) with s in HGm' by (field; lra).
    rewrite Gcode_alt in HG, HG', HGm, HGm' by assumption.
    destruct (Rlt_dec 1 x) as [Hgx|Hlx]; destruct (Rlt_dec 1 x') as [Hgx'|Hlx'].
    + f_equal. f_equal. rewrite <- !Gcode_alt in HG, HG' by assumption.
      apply (count_root_mirror_unique L E s x x'); assumption.
    + exfalso. pose proof (Galt_gt_1 x E HE HE1 Hgx). pose proof (Galt_lt_1 x' E HE HE1 Hx' ltac:(lra)). lra.
    + exfalso. pose proof (Galt_gt_1 x' (/ E) HiE HiE1 Hgx'). pose proof (Galt_lt_1 x (/ E) HiE HiE1 Hx ltac:(lra)). lra.
    + rewrite !pyint_small by lra. reflexivity.
Qed.

Lemma band_sym_inv tau E : E <> 0 -> band_sym tau E -> band_sym tau (/ E).
Proof. intros HE [H1 H2]. unfold band_sym. rewrite Rinv_inv. split; assumption. Qed.

Ltac mirror_tac :=
  match goal with
  | Ha : count_total_start ?t ?b ?l ?E0 ?s0 = Some ?n0,
    Hb : count_total_start ?t ?b ?l (/ ?E0) (?s0 * ?E0) = Some ?n1 |- ?n1 = ?n0 =>
      apply (count_total_start_mirror t b l E0 s0 n0 n1); assumption
  end.

(** (total, start) -> (1/total, end) *)
Lemma invert_total_start tau bq L T s d d' n n' E E' :
  brentq_sound bq -> 0 < tau -> 0 < T -> band_sym tau T ->
  plan_total_start tau bq L T s = Some d -> returned d = Some (n, E) ->
  plan_total_end tau bq L (/ T) s = Some d' -> returned d' = Some (n', E') -> n' = n /\ E' = / E.
Proof.
  intros Hbq Htau HT Hb H Hret H' Hret'.
  unfold plan_total_start in H. unfold plan_total_end in H'. inv_guards.
  cbv [returned bind d_count d_total] in Hret, Hret'. inversion Hret; inversion Hret'; subst. split; [|reflexivity].
  match goal with Hs : start_end_total _ _ _ = Some ?s0 |- _ =>
    apply start_end_total_law in Hs; destruct Hs as (_ & _ & Hs0); subst s0 end.
  match goal with Hc : count_total_start _ _ _ _ (s / / ?T0) = Some _ |- _ =>
    replace (s / / T0) with (s * T0) in Hc by (field; lra) end.
  mirror_tac.
Qed.

(** (total, end) -> (1/total, start) *)
Lemma invert_total_end tau bq L T e d d' n n' E E' :
  brentq_sound bq -> 0 < tau -> 0 < T -> band_sym tau T ->
  plan_total_end tau bq L T e = Some d -> returned d = Some (n, E) ->
  plan_total_start tau bq L (/ T) e = Some d' -> returned d' = Some (n', E') -> n' = n /\ E' = / E.
Proof.
  intros Hbq Htau HT Hb H Hret H' Hret'.
  unfold plan_total_end in H. unfold plan_total_start in H'. inv_guards.
  cbv [returned bind d_count d_total] in Hret, Hret'. inversion Hret; inversion Hret'; subst. split; [|reflexivity].
  match goal with Hs : start_end_total _ _ _ = Some ?s0 |- _ =>
    apply start_end_total_law in Hs; destruct Hs as (_ & _ & Hs0); subst s0 end.
  match goal with Hc : count_total_start _ _ _ (/ ?T0) e = Some _ |- _ =>
    replace e with (e / T0 * T0) in Hc by (field; lra) end.
  mirror_tac.
Qed.

(** (start, end) -> (end, start) *)
Lemma invert_start_end tau bq L s e d d' n n' E E' :
  brentq_sound bq -> 0 < tau -> band_sym tau (e / s) ->
  plan_start_end tau bq L s e = Some d -> returned d = Some (n, E) ->
  plan_start_end tau bq L e s = Some d' -> returned d' = Some (n', E') -> n' = n /\ E' = / E.
Proof.
  intros Hbq Htau Hb H Hret H' Hret'.
  unfold plan_start_end in H, H'. inv_guards.
  cbv [returned bind d_count d_total] in Hret, Hret'. inversion Hret; inversion Hret'; subst.
  repeat match goal with Ht : total_start_end _ _ _ = Some _ |- _ =>
    apply total_start_end_law in Ht; destruct Ht as (_ & ? & ? & ? & ?) end. subst.
  split; [|field; lra].
  match goal with Hc : count_total_start _ _ _ (s / e) e = Some _ |- _ =>
    replace (s / e) with (/ (e / s)) in Hc by (field; lra);
    replace e with (s * (e / s)) in Hc at 2 by (field; lra) end.
  mirror_tac.
Qed.

Definition invert_root_law (table : list rel) : Prop :=
  forall tau bq L d d' n n' E E', brentq_sound bq -> 0 < tau ->
  (forall T s, 0 < T -> band_sym tau T ->
     calculate tau bq L table (mk_data None (Some T) None (Some s) None) = Some d -> returned d = Some (n, E) ->
     calculate tau bq L table (invert (mk_data None (Some T) None (Some s) None)) = Some d' ->
     returned d' = Some (n', E') -> n' = n /\ E' = / E) /\
  (forall T e, 0 < T -> band_sym tau T ->
     calculate tau bq L table (mk_data None (Some T) None None (Some e)) = Some d -> returned d = Some (n, E) ->
     calculate tau bq L table (invert (mk_data None (Some T) None None (Some e))) = Some d' ->
     returned d' = Some (n', E') -> n' = n /\ E' = / E) /\
  (forall s e, band_sym tau (e / s) ->
     calculate tau bq L table (mk_data None None None (Some s) (Some e)) = Some d -> returned d = Some (n, E) ->
     calculate tau bq L table (invert (mk_data None None None (Some s) (Some e))) = Some d' ->
     returned d' = Some (n', E') -> n' = n /\ E' = / E).

Lemma invert_root table : calc_is_plan table -> invert_root_law table.
Proof.
  intros Hp tau bq L d d' n n' E E' Hbq Htau.
  destruct (Hp tau bq L) as (_ & _ & _ & _ & _ & _ & _ & P8 & P9 & P10).
  split; [|split].
  - intros T s HT Hb H Hret H' Hret'. rewrite P8 in H.
    cbv [invert option_map d_count d_total d_c2c d_start d_end] in H'. rewrite P9 in H'.
    apply (invert_total_start tau bq L T s d d' n n' E E'); assumption.
  - intros T e HT Hb H Hret H' Hret'. rewrite P9 in H.
    cbv [invert option_map d_count d_total d_c2c d_start d_end] in H'. rewrite P8 in H'.
    apply (invert_total_end tau bq L T e d d' n n' E E'); assumption.
  - intros s e Hb H Hret H' Hret'. rewrite P10 in H.
    cbv [invert option_map d_count d_total d_c2c d_start d_end] in H'. rewrite P10 in H'.
    apply (invert_start_end tau bq L s e d d' n n' E E'); assumption.
Qed.

(** ** all ten pairs at once: whenever the inverted chop is accepted, it returns the same count and the reciprocal
    expansion.  [inv_ok]: positive ratios and sizes; the tolerance band is entered on both sides or on neither. *)
Definition inv_ok (tau : R) (d : data) : Prop :=
  (forall r, d_c2c d = Some r -> 0 < r /\ band_ok tau r) /\
  (forall T, d_total d = Some T -> 0 < T /\ band_sym tau T) /\
  (forall e, d_end d = Some e -> 0 < e) /\
  (forall s e, d_start d = Some s -> d_end d = Some e -> band_sym tau (e / s)).

Definition invert_cond_law (table : list rel) : Prop :=
  forall tau bq L d res res' n n' E E', brentq_sound bq -> 0 < tau -> n_given d = 2%nat -> inv_ok tau d ->
  calculate tau bq L table d = Some res -> returned res = Some (n, E) ->
  calculate tau bq L table (invert d) = Some res' -> returned res' = Some (n', E') -> n' = n /\ E' = / E.

Lemma invert_cond table : calc_is_plan table -> invert_cond_law table.
Proof.
  intros Hp tau bq L d res res' n n' E E' Hbq Htau Hn (Kr & KT & Ke & Kse) H Hret H' Hret'.
  assert (Htau0 : 0 <= tau) by lra.
  pose proof (invert_closed table Hp tau bq L res n E Htau0) as (C1 & C2 & C3 & C4 & C5).
  pose proof (invert_oracle table Hp tau bq L res res' n n' E E' Hbq Htau0) as (O1 & O2).
  pose proof (invert_root table Hp tau bq L res res' n n' E E' Hbq Htau) as (R1 & R2 & R3).
  assert (Hfin : forall dd, (exists d', calculate tau bq L table (invert dd) = Some d' /\ returned d' = Some (n, / E)) ->
                 calculate tau bq L table (invert dd) = Some res' -> n' = n /\ E' = / E).
  { intros dd [d' [Hc Hr]] Hc'. rewrite Hc in Hc'. inversion Hc'; subst d'. rewrite Hr in Hret'. inversion Hret'. auto. }
  destruct d as [[c|] [T|] [r|] [s|] [e|]]; cbv in Hn; try discriminate Hn; cbn [d_c2c d_total d_end d_start] in *.
  - (* count, total *) destruct (KT T eq_refl) as [HT _]. apply (Hfin _ (C2 c T HT H Hret) H').
  - (* count, c2c *) destruct (Kr r eq_refl) as [Hr _]. apply (Hfin _ (C1 c r Hr H Hret) H').
  - (* count, start *) apply (O1 c s H Hret H' Hret').
  - (* count, end *) apply (O2 c e H Hret H' Hret').
  - (* total, c2c *) destruct (Kr r eq_refl) as [Hr [->|[_ Hb]]].
    + exfalso. destruct (Hp tau bq L) as (_ & _ & _ & _ & _ & _ & P7 & _). rewrite P7 in H.
      destruct (reject_ratios tau bq L) as (_ & _ & _ & _ & Hrej & _).
      rewrite Hrej in H; [discriminate|]. right. replace (1 - 1) with 0 by ring. rewrite Rabs_R0. assumption.
    + apply (Hfin _ (C5 T r Hb H Hret) H').
  - (* total, start *) destruct (KT T eq_refl) as [HT Hb]. apply (R1 T s HT Hb H Hret H' Hret').
  - (* total, end *) destruct (KT T eq_refl) as [HT Hb]. apply (R2 T e HT Hb H Hret H' Hret').
  - (* c2c, start *) destruct (Kr r eq_refl) as [Hr Hb]. apply (Hfin _ (C3 s r Hr Hb H Hret) H').
  - (* c2c, end *) destruct (Kr r eq_refl) as [Hr Hb]. apply (Hfin _ (C4 e r Hr (Ke e eq_refl) Hb H Hret) H').
  - (* start, end *) apply (R3 s e (Kse s e eq_refl eq_refl) H Hret H' Hret').
Qed.

(** [inv_ok] is satisfiable *)
Example inv_ok_example : inv_ok (1 / 10) (mk_data None (Some 2) None (Some 1) None).
Proof.
  unfold inv_ok; cbn [d_c2c d_total d_end d_start]. split; [|split; [|split]].
  - intros r H; discriminate.
  - intros T H; inversion H; subst. split; [lra|]. unfold band_sym.
    replace (2 - 1) with 1 by ring. rewrite Rabs_R1.
    replace (/ 2 - 1) with (- (1 / 2)) by field. rewrite Rabs_Ropp, Rabs_pos_eq by lra. split; lra.
  - intros e H; discriminate.
  - intros s e _ H; discriminate.
Qed.

(** what [calculate] returns is complete, so it has a count and a total expansion *)
Lemma rounds_complete tau bq L table f d res : rounds tau bq L table f d = Some res -> complete res = true.
Proof.
  revert d. induction f as [|f IH]; intros d H; simpl in H; [discriminate|].
  destruct (complete d) eqn:Hc.
  - inversion H; subst. assumption.
  - destruct (sweep tau bq L table d) as [d1|]; simpl in H; [|discriminate]. apply (IH d1). assumption.
Qed.

Lemma complete_returned res : complete res = true -> exists n E, returned res = Some (n, E).
Proof.
  destruct res as [[c|] [T|] r s e]; unfold complete, has; simpl; intros H; try discriminate.
  exists c, T. reflexivity.
Qed.

(** the full statement of C03_invert under its two remaining hypotheses: [inv_ok] and "the inverted chop is
    accepted" (for the five pairs that go through brentq this is where the convergence of scipy would be needed;
    for count = 1 with a size it is false - notes/C03.md, finding 2) *)
Definition invert_full_cond_law (table : list rel) : Prop :=
  forall tau bq L d res n E, brentq_sound bq -> 0 < tau -> n_given d = 2%nat -> inv_ok tau d ->
  calculate tau bq L table d = Some res -> returned res = Some (n, E) ->
  calculate tau bq L table (invert d) <> None ->
  exists res', calculate tau bq L table (invert d) = Some res' /\ returned res' = Some (n, / E).

Lemma invert_full_cond table : calc_is_plan table -> invert_full_cond_law table.
Proof.
  intros Hp tau bq L d res n E Hbq Htau Hn Hok H Hret Hacc.
  destruct (calculate tau bq L table (invert d)) as [res'|] eqn:H'; [|contradiction].
  exists res'. split; [reflexivity|].
  destruct (complete_returned res' (rounds_complete _ _ _ _ _ _ _ H')) as [n' [E' Hret']].
  destruct (invert_cond table Hp tau bq L d res res' n n' E E' Hbq Htau Hn Hok H Hret H' Hret') as [-> ->].
  assumption.
Qed.
