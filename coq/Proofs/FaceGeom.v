From Coq Require Import Reals.
From CB Require Import Base.Vec3 Model.FaceGeom.
Open Scope R_scope.

(* cbv with beta/iota interleaved: a plain [unfold] of the nested vector operations blows the term
   up exponentially (every vector argument is used three times). *)
Ltac fg_ring :=
  apply vec_eq; cbv [face_normal_raw centre4 vadd vsub vopp vscale cross vx vy vz fst snd]; field.
Ltac fg_destruct p0 p1 p2 p3 :=
  destruct p0 as [[? ?] ?], p1 as [[? ?] ?], p2 as [[? ?] ?], p3 as [[? ?] ?].

(** reversing the point order flips the normal *)
Lemma normal_reversed p0 p1 p2 p3 :
  face_normal_raw p3 p2 p1 p0 = vopp (face_normal_raw p0 p1 p2 p3).
Proof. fg_destruct p0 p1 p2 p3. fg_ring. Qed.

(** a cyclic shift of the points leaves centre and normal unchanged *)
Lemma normal_shifted p0 p1 p2 p3 :
  face_normal_raw p1 p2 p3 p0 = face_normal_raw p0 p1 p2 p3.
Proof. fg_destruct p0 p1 p2 p3. fg_ring. Qed.

Lemma centre_shifted p0 p1 p2 p3 : centre4 p1 p2 p3 p0 = centre4 p0 p1 p2 p3.
Proof. fg_destruct p0 p1 p2 p3. fg_ring. Qed.

Lemma centre_reversed p0 p1 p2 p3 : centre4 p3 p2 p1 p0 = centre4 p0 p1 p2 p3.
Proof. fg_destruct p0 p1 p2 p3. fg_ring. Qed.
