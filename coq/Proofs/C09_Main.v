(** C09 - Gen-independent proofs of the statements of Properties/C09.v (same statements, prefix M09_). *)
From Coq Require Import Reals Lra List Bool Arith String.
From CB Require Import Base.Vec3 Model.C09_Transform Proofs.C09_Leaves Proofs.C09_Commute Proofs.C09_Equivariance Proofs.C09_Traverse.
Import ListNotations.
Open Scope R_scope.

(** ** 1. every leaf operation is the affine map it names
    (non-unit axes and normals, arbitrary origins; Point and Array alike) *)
Definition M09_leaf_affine_stmt : Prop :=
  forall t p, valid t -> leaf_point t p = image_pos t p /\ leaf_row t p = image_pos t p.
Theorem M09_leaf_affine : M09_leaf_affine_stmt.
Proof. intros t p H. split; [exact (leaf_point_image t p H) | exact (leaf_row_image t p H)]. Qed.
Example M09_leaf_affine_sat : valid (TRotate 1 (0, 0, 2) (1, 2, 3)) /\ valid (TMirror (1, 1, 0) (0, 0, 5)) /\ valid (TScale 2 (1, 0, 0)).
Proof. unfold valid, norm2, dot, vx, vy, vz; simpl. repeat split; lra. Qed.

(** ** 2. the maps named are the textbook ones: a rotation fixes its axis, keeps distances and turns
    every vector perpendicular to the axis by the angle; a reflection fixes its plane, sends the normal
    to its opposite, is an involution and keeps distances *)
Definition M09_rotation_spec_stmt : Prop :=
  forall th a o, 0 < norm2 a ->
    let Rm := image_pos (TRotate th a o) in
    let Rl := lin_of (TRotate th a o) in
    (forall m, Rm (vadd o (vscale m a)) = vadd o (vscale m a)) /\
    (forall x y, dot (vsub (Rm x) (Rm y)) (vsub (Rm x) (Rm y)) = dot (vsub x y) (vsub x y)) /\
    (forall v, dot (unitv a) v = 0 -> dot v (Rl v) = cos th * dot v v /\ dot (unitv a) (cross v (Rl v)) = sin th * dot v v).
Definition M09_reflection_spec_stmt : Prop :=
  forall n o, 0 < norm2 n ->
    let Hm := image_pos (TMirror n o) in
    (forall x, dot (vsub x o) n = 0 -> Hm x = x) /\
    Hm (vadd o n) = vsub o n /\
    (forall x, Hm (Hm x) = x) /\
    (forall x y, dot (vsub (Hm x) (Hm y)) (vsub (Hm x) (Hm y)) = dot (vsub x y) (vsub x y)).

Lemma sub_image t x y : vsub (image_pos t x) (image_pos t y) = vsub (lin_of t x) (lin_of t y).
Proof.
  rewrite (image_pos_affine t x), (image_pos_affine t y).
  destruct (lin_of t x) as [[? ?] ?], (lin_of t y) as [[? ?] ?], (image_pos t vzero) as [[? ?] ?]. vec_ring.
Qed.
Lemma lin_sub t x y : valid t -> vsub (lin_of t x) (lin_of t y) = lin_of t (vsub x y).
Proof.
  intro H. pose proof (image_similarity t H) as S.
  replace (vsub x y) with (vadd x (vscale (-1) y)) by (destruct x as [[? ?] ?], y as [[? ?] ?]; vec_ring).
  rewrite (s_add _ _ _ S), (s_scale _ _ _ S).
  destruct (lin_of t x) as [[? ?] ?], (lin_of t y) as [[? ?] ?]. vec_ring.
Qed.

Theorem M09_rotation_spec : M09_rotation_spec_stmt.
Proof.
  intros th a o H Rm Rl. pose proof (dot_unitv_self a H) as Hu. pose proof (cos_sin_unit th) as Hcs.
  assert (Hv : valid (TRotate th a o)) by exact H.
  split; [|split].
  - intro m. unfold Rm. simpl. unfold rotate_about.
    replace (vsub (vadd o (vscale m a)) o) with (vscale (m * norm a) (unitv a)).
    2:{ unfold unitv. pose proof (norm_pos_of_norm2 a H) as Hn.
        destruct a as [[a1 a2] a3], o as [[o1 o2] o3]. apply vec_eq; vec_simpl; field; lra. }
    rewrite (rod_scale (unitv a) (cos th) (sin th) Hu), (rod_axis_fixed (unitv a) (cos th) (sin th) Hu Hcs).
    unfold unitv. pose proof (norm_pos_of_norm2 a H) as Hn.
    destruct a as [[a1 a2] a3], o as [[o1 o2] o3]. apply vec_eq; vec_simpl; field; lra.
  - intros x y. unfold Rm. rewrite sub_image, (lin_sub _ _ _ Hv).
    rewrite (s_dot _ _ _ (image_similarity _ Hv)). simpl. ring.
  - intros v Hp. unfold Rl. rewrite lin_of_rotate. split.
    + apply rod_angle_cos; assumption.
    + apply rod_angle_sin; assumption.
Qed.

Theorem M09_reflection_spec : M09_reflection_spec_stmt.
Proof.
  intros n o H Hm. assert (Hv : valid (TMirror n o)) by exact H.
  unfold Hm. simpl. split; [|split; [|split]].
  - intros x Hx. rewrite reflect_affine by exact H. rewrite (refl_fixes_plane n H _ Hx).
    destruct x as [[? ?] ?], o as [[? ?] ?]. vec_ring.
  - rewrite reflect_affine by exact H.
    replace (vsub (vadd o n) o) with n by (destruct n as [[? ?] ?], o as [[? ?] ?]; vec_ring).
    rewrite (refl_normal n H). destruct n as [[? ?] ?], o as [[? ?] ?]. vec_ring.
  - intro x. rewrite (reflect_affine n o (reflect n o x)) by exact H. rewrite (reflect_affine n o x) by exact H.
    replace (vsub (vadd (reflect n vzero (vsub x o)) o) o) with (reflect n vzero (vsub x o))
      by (destruct (reflect n vzero (vsub x o)) as [[? ?] ?], o as [[? ?] ?]; vec_ring).
    rewrite (refl_involution n H). destruct x as [[? ?] ?], o as [[? ?] ?]. vec_ring.
  - intros x y. change (reflect n o x) with (image_pos (TMirror n o) x). change (reflect n o y) with (image_pos (TMirror n o) y).
    rewrite sub_image, (lin_sub _ _ _ Hv). rewrite (s_dot _ _ _ (image_similarity _ Hv)). simpl. ring.
Qed.

(** ** 3. every transformation is a similarity x -> k Q x + b; direction quantities (arc axes) take the
    linear part only - they are rotated / reflected (with the sense flip of an improper map) but never
    displaced, whatever the origin *)
Definition M09_similarity_stmt : Prop :=
  forall t, valid t ->
    simil (lin_of t) (ratio_of t) (sigma_of t) /\ forall p, image_pos t p = vadd (lin_of t p) (image_pos t vzero).
Theorem M09_similarity : M09_similarity_stmt.
Proof. intros t H. split; [exact (image_similarity t H) | intro p; exact (image_pos_affine t p)]. Qed.

Definition M09_direction_linear_stmt : Prop :=
  forall t a, valid t ->
    image_axis t a = vscale (sigma_of t / ratio_of t) (lin_of t a) /\ image_axis t a = image_axis (zero_origin t) a.
Theorem M09_direction_linear : M09_direction_linear_stmt.
Proof. intros t a H. split; [exact (image_axis_linear t a H) | exact (image_axis_origin_free t a)]. Qed.

(** ** 4. commutation at heap level: when a transformation reaches an alias-free entity through `parts`,
    every position leaf ends as its affine image, every Angle axis as the image of a direction, and
    nothing else changes *)
Definition M09_commute_stmt : Prop :=
  forall t n h, valid t -> alias_free n = true ->
    (forall r i, In (r, i) (leaves n) -> role_ok r (h i)) ->
    let h' := run_visits t (visits (kind_of t) n) h in
    (forall r i, In (r, i) (leaves n) -> h' i = image_cell t r (h i)) /\
    (forall j, ~ In j (map snd (leaves n)) -> h' j = h j).
Theorem M09_commute : M09_commute_stmt.
Proof. exact commute_tree. Qed.
Example M09_commute_sat :
  alias_free (NOper (NGroup [NPoint 0; NPoint 1; NAngle 2]) (NGroup [NPoint 3; NGroup [NGroup [NArray 4]]]) [NAngle 5]) = true.
Proof. reflexivity. Qed.

(** without alias-freeness the statement is false: a leaf reachable twice is moved twice (the shared face
    of the sphere shapes before fix C09-5) *)
Definition M09_commute_needs_alias_free_stmt : Prop :=
  ~ (forall t ls h, valid t -> (forall r i, In (r, i) ls -> role_ok r (h i)) ->
       forall r i, In (r, i) ls ->
         run_visits t (flat_map (leaf_visits (kind_of t)) ls) h i = image_cell t r (h i)).
Theorem M09_commute_needs_alias_free : M09_commute_needs_alias_free_stmt.
Proof.
  intro H.
  specialize (H (TTranslate (1, 0, 0)) [(RPos, 0%nat); (RPos, 0%nat)] (fun _ => CPoint (0, 0, 0)) I).
  assert (Hok : forall r i, In (r, i) [(RPos, 0%nat); (RPos, 0%nat)] -> role_ok r ((fun _ : nat => CPoint (0, 0, 0)) i)).
  { intros r i [E | [E | []]]; inversion E; exact I. }
  specialize (H Hok RPos 0%nat (or_introl eq_refl)).
  change (kind_of (TTranslate (1, 0, 0))) with KTranslate in H.
  rewrite (alias_translated_twice (1, 0, 0) (0, 0, 0)) in H by reflexivity.
  simpl in H. inversion H as [[E1 E2 E3]]. unfold vadd, vx, vy, vz in E1; simpl in E1. lra.
Qed.

(** ** 4b. the traversals that the call-log correspondence ties to the code (entity.method(...) and
    entity.transform([...])) make exactly the leaf calls of [visits], in the same order; what they add is the
    unobservable bookkeeping of Operation.invert.  With fix C09-9 a transformation list is the sequence of method
    calls on the entity itself, so this holds for every entity, a bare Angle included. *)
Definition M09_traversal_stmt : Prop :=
  (forall k n, filter observable (method_visits k n) = visits k n) /\
  (forall k n, k <> KMirror -> method_visits k n = visits k n) /\
  (forall k n, filter observable (list_visits k n) = visits k n).
Theorem M09_traversal : M09_traversal_stmt.
Proof. split; [exact method_visits_observable | split; [exact method_visits_nonmirror | exact list_visits_observable]]. Qed.

Definition M09_list_on_angle_stmt : Prop :=
  forall k i, filter observable (list_visits k (NAngle i)) = visits k (NAngle i).
Theorem M09_list_on_angle : M09_list_on_angle_stmt.
Proof. intros k i. exact (list_visits_observable k (NAngle i)). Qed.

(** a transformation list is the sequence of method calls; an operation transformed through a list is mirrored
    but not inverted (pinned by the library's tests) *)
Definition M09_list_is_method_stmt : Prop :=
  (forall k n, top_oper n = false -> list_visits k n = method_visits k n /\ list_tree k n = method_tree k n) /\
  (forall k b t s, list_visits k (NOper b t s) = visits k (NOper b t s) /\ list_tree k (NOper b t s) = NOper b t s) /\
  (forall k n, k <> KMirror -> list_visits k n = method_visits k n /\ list_tree k n = method_tree k n).
Theorem M09_list_is_method : M09_list_is_method_stmt.
Proof.
  split; [exact list_visits_method | split; [exact list_visits_oper |]].
  intros k n Hk. split.
  - rewrite list_visits_nonmirror, method_visits_nonmirror by exact Hk. reflexivity.
  - destruct n, k; try reflexivity; contradiction.
Qed.
Example M09_list_is_method_sat : top_oper (NGroup [NOper (NPoint 0) (NPoint 1) [NAngle 2]]) = false /\ KRotate <> KMirror.
Proof. split; [reflexivity | discriminate]. Qed.

(** ** 5. any number of transformations (in particular lists of up to three) compose *)
Definition M09_compose_stmt : Prop :=
  forall ts, Forall valid ts -> forall ls h,
    NoDup (map snd ls) -> (forall r i, In (r, i) ls -> role_ok r (h i)) ->
    (forall r i, In (r, i) ls -> run_tfs ts ls h i = image_cells ts r (h i)) /\
    (forall j, ~ In j (map snd ls) -> run_tfs ts ls h j = h j).
Theorem M09_compose : M09_compose_stmt.
Proof. exact commute_compose. Qed.

(** ** 6. output geometry: what is computed from transformed leaves is the transformed output.
    Full statement: straight and polyline/spline lengths scale by |ratio|, the third point of `origin` and
    `angle` arcs is the image of the third point, and the three-point arc length scales by |ratio|. *)
Definition M09_output_stmt : Prop :=
  forall t, valid t ->
    let A := image_pos t in let D := image_axis t in let k := ratio_of t in
    (forall x y, norm (vsub (A x) (A y)) = Rabs k * norm (vsub x y)) /\
    (forall l, polyline_length (map A l) = Rabs k * polyline_length l) /\
    (forall p1 p2 c, arc_from_origin (A p1) (A p2) (A c) = A (arc_from_origin p1 p2 c)) /\
    (forall p1 p2 t2 a, arc_from_theta (A p1) (A p2) t2 (D a) = A (arc_from_theta p1 p2 t2 a)) /\
    (forall ps pb pe, arc_length_3point (A ps) (A pb) (A pe) = Rabs k * arc_length_3point ps pb pe).
(** proved part: everything but the last conjunct (arc length through acos), which is validated by the
    oracle on every arc edge of the correspondence cases *)
Definition M09_output_partial_stmt : Prop :=
  forall t, valid t ->
    let A := image_pos t in let D := image_axis t in let k := ratio_of t in
    (forall x y, norm (vsub (A x) (A y)) = Rabs k * norm (vsub x y)) /\
    (forall l, polyline_length (map A l) = Rabs k * polyline_length l) /\
    (forall p1 p2 c, arc_from_origin (A p1) (A p2) (A c) = A (arc_from_origin p1 p2 c)) /\
    (forall p1 p2 t2 a, arc_from_theta (A p1) (A p2) t2 (D a) = A (arc_from_theta p1 p2 t2 a)).
Theorem M09_output_partial : M09_output_partial_stmt.
Proof.
  intros t H A D k. pose proof (image_similarity t H) as S.
  assert (EA : forall p, A p = vadd (lin_of t p) (image_pos t vzero)) by (intro p; apply image_pos_affine).
  assert (ED : forall a, D a = vscale (sigma_of t / ratio_of t) (lin_of t a)) by (intro a; apply image_axis_linear; exact H).
  split; [|split; [|split]].
  - intros x y. rewrite (EA x), (EA y). exact (dist_scaled _ _ _ _ S x y).
  - intro l. rewrite (map_ext A (fun p => vadd (lin_of t p) (image_pos t vzero)) EA).
    exact (polyline_length_scaled _ _ _ _ S l).
  - intros p1 p2 c. rewrite (EA p1), (EA p2), (EA c), (EA (arc_from_origin p1 p2 c)). exact (arc_from_origin_equivariant _ _ _ _ S p1 p2 c).
  - intros p1 p2 t2 a. rewrite (EA p1), (EA p2), (EA (arc_from_theta p1 p2 t2 a)), ED. exact (arc_from_theta_equivariant _ _ _ _ S p1 p2 t2 a).
Qed.

(** reversal of a side edge by Operation.invert keeps the arc (axis perpendicular to the chord) and maps
    a reversed point list to the reversed image *)
Definition M09_reverse_stmt : Prop :=
  (forall p1 p2 t2 a, dot (vsub p2 p1) a = 0 ->
     norm (vsub (theta_center p1 p2 t2 a) p2) = norm (vsub (theta_center p1 p2 t2 a) p1) ->
     arc_from_theta p2 p1 t2 (vopp a) = arc_from_theta p1 p2 t2 a) /\
  (forall t l, rev (map (image_pos t) l) = map (image_pos t) (rev l)).
Theorem M09_reverse : M09_reverse_stmt.
Proof. split; [exact arc_from_theta_reversed | exact rev_map_image]. Qed.

(** ** 7. copy(): an entity whose leaves are disjoint from the original's can be transformed without
    touching the original *)
Definition M09_copy_independent_stmt : Prop :=
  forall t k (orig copy : node) h,
    disjointb (map snd (leaves orig)) (map snd (leaves copy)) = true ->
    forall i, In i (map snd (leaves orig)) -> run_visits t (visits k copy) h i = h i.
Theorem M09_copy_independent : M09_copy_independent_stmt.
Proof. exact copy_independent. Qed.

