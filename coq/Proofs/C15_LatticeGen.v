(** C15: structured nx x ny quad maps of EVERY size (no numeric bound).

    For every cell type [ct] that passes the finite check [quad_ok] (connections = the four consecutive
    corner pairs in any order/orientation; sides = the same four corner pairs, in any order, and the side
    found by [find_side] for a set of local corners is the side with that corner set) and all nx, ny >= 1:
    boundary = border, the neighbour list of an inner point is its four lattice neighbours, the schedule is
    well formed, the lattice coordinates are harmonic, every visited junction reaches the border.  Hence
    (with Proofs/C15_Smooth.v, C15_Converge.v) regular lattices are fixed points, unique, and the limit of the
    sweeps.  Gen-independent; Properties/C15.v evaluates [quad_ok] on the tabulated QuadCell. *)
From Coq Require Import List Bool Arith ZArith QArith Qabs Lia Lqa Permutation ZifyBool.
From CB Require Import Model.C15_Smooth Proofs.C15_Smooth Proofs.C15_SmoothGraph Proofs.C15_Converge.
Import ListNotations.
Close Scope Q_scope.
Open Scope nat_scope.

(** * point numbering *)
Lemma sidx_mod nx i j : i <= nx -> sidx nx i j mod S nx = i.
Proof. intro H. unfold sidx. rewrite Nat.add_comm, Nat.mod_add by lia. apply Nat.mod_small. lia. Qed.

Lemma sidx_div nx i j : i <= nx -> sidx nx i j / S nx = j.
Proof. intro H. unfold sidx. rewrite Nat.add_comm, Nat.div_add by lia. rewrite Nat.div_small by lia. reflexivity. Qed.

Lemma sidx_inj nx i j i' j' : i <= nx -> i' <= nx -> sidx nx i j = sidx nx i' j' -> i = i' /\ j = j'.
Proof.
  intros H H' E. split.
  - rewrite <- (sidx_mod nx i j H), E. apply sidx_mod. exact H'.
  - rewrite <- (sidx_div nx i j H), E. apply sidx_div. exact H'.
Qed.

Lemma sidx_eqb nx i j i' j' : i <= nx -> i' <= nx ->
  (sidx nx i j =? sidx nx i' j') = (i =? i') && (j =? j').
Proof.
  intros H H'. destruct (sidx nx i j =? sidx nx i' j') eqn:E.
  - apply Nat.eqb_eq in E. destruct (sidx_inj _ _ _ _ _ H H' E) as [-> ->]. rewrite !Nat.eqb_refl. reflexivity.
  - symmetry. apply not_true_is_false. intro T. apply andb_true_iff in T. destruct T as [A B].
    apply Nat.eqb_eq in A, B. subst. rewrite Nat.eqb_refl in E. discriminate.
Qed.

Lemma sidx_surj nx k : k = sidx nx (k mod S nx) (k / S nx).
Proof. unfold sidx. rewrite (Nat.div_mod k (S nx)) at 1 by lia. lia. Qed.

Lemma mod_le nx k : k mod S nx <= nx.
Proof. pose proof (Nat.mod_upper_bound k (S nx)). lia. Qed.

Lemma div_le nx ny k : k < struct_n nx ny -> k / S nx <= ny.
Proof. unfold struct_n. intro H. assert (k / S nx < S ny) by (apply Nat.div_lt_upper_bound; lia). lia. Qed.

Lemma sidx_lt nx ny i j : i <= nx -> j <= ny -> sidx nx i j < struct_n nx ny.
Proof. unfold sidx, struct_n. intros. nia. Qed.

Lemma border_sidx nx ny i j : i <= nx ->
  border nx ny (sidx nx i j) = (i =? 0) || (i =? nx) || (j =? 0) || (j =? ny).
Proof. intro H. unfold border. rewrite sidx_mod, sidx_div by exact H. reflexivity. Qed.

(** * the cells *)
Definition qcell (nx i j : nat) : cell := [sidx nx i j; sidx nx (S i) j; sidx nx (S i) (S j); sidx nx i (S j)].

Lemma In_struct_cells nx ny c :
  In c (struct_cells nx ny) <-> exists i j, i < nx /\ j < ny /\ c = qcell nx i j.
Proof.
  unfold struct_cells. rewrite in_flat_map. split.
  - intros [j [Hj Hc]]. apply in_map_iff in Hc. destruct Hc as [i [E Hi]]. apply in_seq in Hj, Hi.
    exists i, j. split; [lia|]. split; [lia|]. symmetry. exact E.
  - intros (i & j & Hi & Hj & ->). exists j. split; [apply in_seq; lia|].
    apply in_map_iff. exists i. split; [reflexivity|apply in_seq; lia].
Qed.

Lemma memb_qcell nx x y i j : x <= nx -> i < nx ->
  memb (sidx nx x y) (qcell nx i j) = ((x =? i) || (x =? S i)) && ((y =? j) || (y =? S j)).
Proof.
  intros Hx Hi. unfold memb, qcell. cbn [existsb].
  rewrite !sidx_eqb by lia. lia.
Qed.

Lemma In_qcell nx x y i j : x <= nx -> i < nx ->
  (In (sidx nx x y) (qcell nx i j) <-> (x = i \/ x = S i) /\ (y = j \/ y = S j)).
Proof. intros Hx Hi. rewrite <- memb_In, memb_qcell by assumption. lia. Qed.

Lemma qcell_inj nx i j i' j' : i < nx -> i' < nx -> qcell nx i j = qcell nx i' j' -> i = i' /\ j = j'.
Proof. intros H H' E. unfold qcell in E. injection E as E _ _ _. apply sidx_inj in E; lia. Qed.

(** * the finite check on the cell type *)
Definition corners4 : list nat := [0; 1; 2; 3].
Definition bools : list bool := [true; false].

(** corners a, b are consecutive on the quad cycle *)
Definition adj (a b : nat) : bool := (b =? (S a) mod 4) || (a =? (S b) mod 4).
(** corner a is an end of cycle edge e = {e, e+1 mod 4} *)
Definition in_pair (e a : nat) : bool := (a =? e) || (a =? (S e) mod 4).

Definition edge_in (ct : celltype) (a b : nat) : bool :=
  existsb (fun xy => pair_set_eqb (fst xy) (snd xy) a b) (ct_edges ct).

(** the local corners (of the first cell) selected by four flags, in corner order *)
Definition sub4 (m0 m1 m2 m3 : bool) : list nat :=
  (if m0 then [0] else []) ++ (if m1 then [1] else []) ++ (if m2 then [2] else []) ++ (if m3 then [3] else []).

(** [common_side] as a function of the local corner set *)
Definition cs_tab (ct : celltype) (S : list nat) : option nat :=
  if length S =? length (hd [] (ct_sides ct)) then find_side (ct_sides ct) S 0 else None.

Definition opt_is (o : option nat) (i : nat) : bool := match o with Some x => x =? i | None => false end.

(** side number [i] = [sd] is cycle edge [e]: same corner set, and [common_side] answers [i] exactly when the
    common corners are the two ends of [e] *)
Definition side_matches (ct : celltype) (i : nat) (sd : list nat) (e : nat) : bool :=
  set_eqb sd [e; (S e) mod 4]
  && forallb (fun m0 => forallb (fun m1 => forallb (fun m2 => forallb (fun m3 =>
       Bool.eqb (opt_is (cs_tab ct (sub4 m0 m1 m2 m3)) i)
                (Bool.eqb m0 (in_pair e 0) && Bool.eqb m1 (in_pair e 1) && Bool.eqb m2 (in_pair e 2) && Bool.eqb m3 (in_pair e 3)))
     bools) bools) bools) bools.

Definition quad_ok (ct : celltype) : bool :=
  forallb (fun ab => (fst ab <? 4) && (snd ab <? 4)) (ct_edges ct)
  && forallb (fun a => forallb (fun b => Bool.eqb (edge_in ct a b) (adj a b)) corners4) corners4
  && forallb (fun isd => existsb (fun e => side_matches ct (fst isd) (snd isd) e) corners4) (enumerate (ct_sides ct))
  && forallb (fun e => existsb (fun isd => side_matches ct (fst isd) (snd isd) e) (enumerate (ct_sides ct))) corners4.

Lemma In_corners4 a : In a corners4 <-> a < 4.
Proof. unfold corners4. simpl. lia. Qed.

Lemma In_bools b : In b bools.
Proof. destruct b; simpl; auto. Qed.

Lemma quad_ok_edges ct : quad_ok ct = true ->
  (forall a b, In (a, b) (ct_edges ct) -> a < 4 /\ b < 4)
  /\ (forall a b, a < 4 -> b < 4 -> edge_in ct a b = adj a b).
Proof.
  unfold quad_ok. intro H. apply andb_true_iff in H. destruct H as [H _].
  apply andb_true_iff in H. destruct H as [H _]. apply andb_true_iff in H. destruct H as [H1 H2].
  rewrite forallb_forall in H1, H2. split.
  - intros a b Hin. specialize (H1 (a, b) Hin). simpl in H1. lia.
  - intros a b Ha Hb. specialize (H2 a (proj2 (In_corners4 a) Ha)). rewrite forallb_forall in H2.
    apply eqb_prop. apply H2. apply In_corners4. exact Hb.
Qed.

Lemma side_matches_spec ct i sd e : side_matches ct i sd e = true ->
  (forall a, In a sd <-> a = e \/ a = (S e) mod 4)
  /\ forall m0 m1 m2 m3, cs_tab ct (sub4 m0 m1 m2 m3) = Some i <->
       (m0 = in_pair e 0 /\ m1 = in_pair e 1 /\ m2 = in_pair e 2 /\ m3 = in_pair e 3).
Proof.
  unfold side_matches. intro H. apply andb_true_iff in H. destruct H as [H1 H2]. split.
  - intro a. unfold set_eqb in H1. apply andb_true_iff in H1. destruct H1 as [A B].
    rewrite forallb_forall in A, B. split.
    + intro Ha. specialize (A a Ha). apply memb_In in A. destruct A as [A|[A|[]]]; auto.
    + intro Ha. assert (Hin : In a [e; (S e) mod 4]) by (destruct Ha as [->| ->]; [left|right; left]; reflexivity).
      specialize (B a Hin). apply memb_In in B. exact B.
  - intros m0 m1 m2 m3. rewrite forallb_forall in H2. specialize (H2 m0 (In_bools m0)).
    rewrite forallb_forall in H2. specialize (H2 m1 (In_bools m1)).
    rewrite forallb_forall in H2. specialize (H2 m2 (In_bools m2)).
    rewrite forallb_forall in H2. specialize (H2 m3 (In_bools m3)).
    apply eqb_prop in H2.
    assert (O : forall o, o = Some i <-> opt_is o i = true).
    { intros [x|]; simpl; [rewrite Nat.eqb_eq; split; congruence|split; discriminate]. }
    rewrite O, H2, !andb_true_iff. split.
    + intros [[[A B] C] D]. apply eqb_prop in A, B, C, D. auto.
    + intros (-> & -> & -> & ->). rewrite !eqb_reflx. auto.
Qed.

Lemma quad_ok_side ct i sd : quad_ok ct = true -> nth_error (ct_sides ct) i = Some sd ->
  exists e, e < 4 /\ side_matches ct i sd e = true.
Proof.
  unfold quad_ok. intros H Hn. apply andb_true_iff in H. destruct H as [H _].
  apply andb_true_iff in H. destruct H as [_ H]. rewrite forallb_forall in H.
  specialize (H (i, sd) (proj2 (In_enumerate _ _ _) Hn)). cbn [fst snd] in H.
  apply existsb_exists in H. destruct H as [e [He Hm]]. exists e. split; [apply In_corners4; exact He|exact Hm].
Qed.

Lemma quad_ok_edge_side ct e : quad_ok ct = true -> e < 4 ->
  exists i sd, nth_error (ct_sides ct) i = Some sd /\ side_matches ct i sd e = true.
Proof.
  unfold quad_ok. intros H He. apply andb_true_iff in H. destruct H as [_ H]. rewrite forallb_forall in H.
  specialize (H e (proj2 (In_corners4 e) He)). apply existsb_exists in H. destruct H as [[i sd] [Hin Hm]].
  exists i, sd. split; [apply In_enumerate; exact Hin|exact Hm].
Qed.

(** [common_side] of a cell with four distinct corners *)
Lemma common_side_quad ct p0 p1 p2 p3 c2 :
  p0 <> p1 -> p0 <> p2 -> p0 <> p3 -> p1 <> p2 -> p1 <> p3 -> p2 <> p3 ->
  common_side ct [p0; p1; p2; p3] c2 = cs_tab ct (sub4 (memb p0 c2) (memb p1 c2) (memb p2 c2) (memb p3 c2)).
Proof.
  intros N01 N02 N03 N12 N13 N23.
  assert (E01 : (p0 =? p1) = false) by (apply Nat.eqb_neq; auto).
  assert (E02 : (p0 =? p2) = false) by (apply Nat.eqb_neq; auto).
  assert (E03 : (p0 =? p3) = false) by (apply Nat.eqb_neq; auto).
  assert (E12 : (p1 =? p2) = false) by (apply Nat.eqb_neq; auto).
  assert (E13 : (p1 =? p3) = false) by (apply Nat.eqb_neq; auto).
  assert (E23 : (p2 =? p3) = false) by (apply Nat.eqb_neq; auto).
  assert (E10 : (p1 =? p0) = false) by (apply Nat.eqb_neq; auto).
  assert (E20 : (p2 =? p0) = false) by (apply Nat.eqb_neq; auto).
  assert (E30 : (p3 =? p0) = false) by (apply Nat.eqb_neq; auto).
  assert (E21 : (p2 =? p1) = false) by (apply Nat.eqb_neq; auto).
  assert (E31 : (p3 =? p1) = false) by (apply Nat.eqb_neq; auto).
  assert (E32 : (p3 =? p2) = false) by (apply Nat.eqb_neq; auto).
  unfold common_side, common, cs_tab. cbn [filter].
  destruct (memb p0 c2), (memb p1 c2), (memb p2 c2), (memb p3 c2);
    cbn [dedup memb existsb sub4 app map index_of length];
    rewrite ?E01, ?E02, ?E03, ?E12, ?E13, ?E23, ?E10, ?E20, ?E30, ?E21, ?E31, ?E32, ?Nat.eqb_refl;
    cbn [orb dedup map index_of length];
    rewrite ?E01, ?E02, ?E03, ?E12, ?E13, ?E23, ?E10, ?E20, ?E30, ?E21, ?E31, ?E32, ?Nat.eqb_refl;
    reflexivity.
Qed.

Local Arguments sidx : simpl never.

Lemma qcell_distinct nx i j : i < nx ->
  let c := qcell nx i j in
  nth 0 c 0 <> nth 1 c 0 /\ nth 0 c 0 <> nth 2 c 0 /\ nth 0 c 0 <> nth 3 c 0 /\
  nth 1 c 0 <> nth 2 c 0 /\ nth 1 c 0 <> nth 3 c 0 /\ nth 2 c 0 <> nth 3 c 0.
Proof.
  intro H. cbn [qcell nth]. repeat split; intro E; apply sidx_inj in E; lia.
Qed.

(** when does [common_side] of a structured cell answer side [i] (= cycle edge [e]) *)
Lemma common_side_qcell ct nx i0 j0 c2 i sd e : side_matches ct i sd e = true -> i0 < nx ->
  (common_side ct (qcell nx i0 j0) c2 = Some i <->
   memb (sidx nx i0 j0) c2 = in_pair e 0 /\ memb (sidx nx (S i0) j0) c2 = in_pair e 1 /\
   memb (sidx nx (S i0) (S j0)) c2 = in_pair e 2 /\ memb (sidx nx i0 (S j0)) c2 = in_pair e 3).
Proof.
  intros Hm Hi. destruct (qcell_distinct nx i0 j0 Hi) as (A & B & C & D & E & F). cbn [qcell nth] in *.
  unfold qcell. rewrite common_side_quad by assumption.
  apply (proj2 (side_matches_spec ct i sd e Hm)).
Qed.

(** cycle edge [e] of cell (i0, j0) lies on the border of the map *)
Definition on_border (nx ny i0 j0 e : nat) : Prop :=
  (e = 0 /\ j0 = 0) \/ (e = 1 /\ S i0 = nx) \/ (e = 2 /\ S j0 = ny) \/ (e = 3 /\ i0 = 0).

Ltac ip := repeat match goal with
  | |- context [in_pair ?e ?a] => let v := eval vm_compute in (in_pair e a) in change (in_pair e a) with v
  end.

Lemma shared_edge nx ny i0 j0 e : i0 < nx -> j0 < ny -> e < 4 -> ~ on_border nx ny i0 j0 e ->
  exists i2 j2, i2 < nx /\ j2 < ny /\ (i2 <> i0 \/ j2 <> j0) /\
    memb (sidx nx i0 j0) (qcell nx i2 j2) = in_pair e 0 /\ memb (sidx nx (S i0) j0) (qcell nx i2 j2) = in_pair e 1 /\
    memb (sidx nx (S i0) (S j0)) (qcell nx i2 j2) = in_pair e 2 /\ memb (sidx nx i0 (S j0)) (qcell nx i2 j2) = in_pair e 3.
Proof.
  intros Hi Hj He Hb. unfold on_border in Hb.
  destruct e as [|[|[|[|e]]]]; [| | | |lia].
  - destruct j0 as [|j0']; [lia|]. exists i0, j0'. rewrite !memb_qcell by lia. ip. lia.
  - exists (S i0), j0. rewrite !memb_qcell by lia. ip. lia.
  - exists i0, (S j0). rewrite !memb_qcell by lia. ip. lia.
  - destruct i0 as [|i0']; [lia|]. exists i0', j0. rewrite !memb_qcell by lia. ip. lia.
Qed.

Lemma border_edge nx ny i0 j0 e i2 j2 : i0 < nx -> j0 < ny -> on_border nx ny i0 j0 e -> i2 < nx -> j2 < ny ->
  ~ (memb (sidx nx i0 j0) (qcell nx i2 j2) = in_pair e 0 /\ memb (sidx nx (S i0) j0) (qcell nx i2 j2) = in_pair e 1 /\
     memb (sidx nx (S i0) (S j0)) (qcell nx i2 j2) = in_pair e 2 /\ memb (sidx nx i0 (S j0)) (qcell nx i2 j2) = in_pair e 3).
Proof.
  intros Hi Hj Hb Hi2 Hj2. rewrite !memb_qcell by lia.
  destruct Hb as [[-> Hb]|[[-> Hb]|[[-> Hb]|[-> Hb]]]]; ip; lia.
Qed.

(** * boundary = border *)
Lemma boundary_witness ct nx ny i0 j0 e a : quad_ok ct = true -> i0 < nx -> j0 < ny -> e < 4 ->
  a = e \/ a = (S e) mod 4 -> on_border nx ny i0 j0 e ->
  is_boundary ct (struct_cells nx ny) (nth a (qcell nx i0 j0) 0) = true.
Proof.
  intros OK Hi Hj He Ha Hb. apply is_boundary_spec.
  assert (Hc : In (qcell nx i0 j0) (struct_cells nx ny)) by (apply In_struct_cells; exists i0, j0; auto).
  destruct (In_nth_error _ _ Hc) as [k Hk].
  destruct (quad_ok_edge_side ct e OK He) as (i & sd & Hsd & Hm).
  assert (Ha4 : a < 4).
  { destruct e as [|[|[|[|e]]]]; [| | | |lia]; cbn in Ha; lia. }
  exists k, (qcell nx i0 j0), i, sd. split; [exact Hk|]. split.
  { apply nth_In. simpl. exact Ha4. }
  split; [exact Hsd|]. split.
  { apply in_map_iff. exists a. split; [reflexivity|]. apply (proj1 (side_matches_spec ct i sd e Hm)). exact Ha. }
  intros k2 c2 Hk2 _ Hcs. apply nth_error_In, In_struct_cells in Hk2. destruct Hk2 as (i2 & j2 & Hi2 & Hj2 & ->).
  apply (common_side_qcell ct nx i0 j0 _ i sd e Hm Hi) in Hcs.
  exact (border_edge nx ny i0 j0 e i2 j2 Hi Hj Hb Hi2 Hj2 Hcs).
Qed.

Lemma interior_not_boundary ct nx ny x y : quad_ok ct = true ->
  0 < x < nx -> 0 < y < ny -> is_boundary ct (struct_cells nx ny) (sidx nx x y) = false.
Proof.
  intros OK Hx Hy. apply not_true_is_false. intro T. apply is_boundary_spec in T.
  destruct T as (k & c & i & sd & Hk & Hin & Hsd & Hp & Hfree).
  pose proof (nth_error_In _ _ Hk) as Hc. apply In_struct_cells in Hc. destruct Hc as (i0 & j0 & Hi & Hj & ->).
  destruct (quad_ok_side ct i sd OK Hsd) as (e & He & Hm).
  apply in_map_iff in Hp. destruct Hp as (a & Ea & Ha).
  apply (proj1 (side_matches_spec ct i sd e Hm)) in Ha.
  assert (Hnb : ~ on_border nx ny i0 j0 e).
  { unfold on_border. destruct e as [|[|[|[|e]]]]; [| | | |lia]; cbn in Ha;
      (destruct Ha as [-> | ->]; cbn [qcell nth] in Ea; apply sidx_inj in Ea; lia). }
  destruct (shared_edge nx ny i0 j0 e Hi Hj He Hnb) as (i2 & j2 & Hi2 & Hj2 & Hne & Hcs).
  assert (Hc2 : In (qcell nx i2 j2) (struct_cells nx ny)) by (apply In_struct_cells; exists i2, j2; auto).
  destruct (In_nth_error _ _ Hc2) as [k2 Hk2].
  apply (Hfree k2 _ Hk2).
  - intros ->. assert (E : qcell nx i0 j0 = qcell nx i2 j2) by congruence.
    destruct (qcell_inj nx i0 j0 i2 j2 Hi Hi2 E) as [E1 E2]. clear - Hne E1 E2. lia.
  - apply (common_side_qcell ct nx i0 j0 _ i sd e Hm Hi). exact Hcs.
Qed.

Lemma boundary_border_xy ct nx ny x y : quad_ok ct = true -> 1 <= nx -> 1 <= ny -> x <= nx -> y <= ny ->
  is_boundary ct (struct_cells nx ny) (sidx nx x y) = (x =? 0) || (x =? nx) || (y =? 0) || (y =? ny).
Proof.
  intros OK Hnx Hny Hx Hy.
  destruct ((x =? 0) || (x =? nx) || (y =? 0) || (y =? ny)) eqn:B.
  - destruct nx as [|nx']; [lia|]. destruct ny as [|ny']; [lia|].
    destruct (Nat.eq_dec y 0) as [Y0|Y0].
    { destruct (Nat.eq_dec x (S nx')) as [X|X].
      - replace (sidx (S nx') x y) with (nth 1 (qcell (S nx') nx' 0) 0) by (subst; reflexivity).
        apply (boundary_witness ct (S nx') (S ny') nx' 0 0 1 OK); [lia|lia|lia| |unfold on_border; lia]. right; reflexivity.
      - replace (sidx (S nx') x y) with (nth 0 (qcell (S nx') x 0) 0) by (subst y; reflexivity).
        apply (boundary_witness ct (S nx') (S ny') x 0 0 0 OK); [lia|lia|lia| |unfold on_border; lia]. left; reflexivity. }
    destruct (Nat.eq_dec y (S ny')) as [Y1|Y1].
    { destruct (Nat.eq_dec x (S nx')) as [X|X].
      - replace (sidx (S nx') x y) with (nth 2 (qcell (S nx') nx' ny') 0) by (subst; reflexivity).
        apply (boundary_witness ct (S nx') (S ny') nx' ny' 2 2 OK); [lia|lia|lia| |unfold on_border; lia]. left; reflexivity.
      - replace (sidx (S nx') x y) with (nth 3 (qcell (S nx') x ny') 0) by (subst; reflexivity).
        apply (boundary_witness ct (S nx') (S ny') x ny' 2 3 OK); [lia|lia|lia| |unfold on_border; lia]. right; reflexivity. }
    destruct (Nat.eq_dec x 0) as [X0|X0].
    { replace (sidx (S nx') x y) with (nth 0 (qcell (S nx') 0 y) 0) by (subst; reflexivity).
      apply (boundary_witness ct (S nx') (S ny') 0 y 3 0 OK); [lia|lia|lia| |unfold on_border; lia]. right; reflexivity. }
    assert (X1 : x = S nx') by lia.
    replace (sidx (S nx') x y) with (nth 1 (qcell (S nx') nx' y) 0) by (subst; reflexivity).
    apply (boundary_witness ct (S nx') (S ny') nx' y 1 1 OK); [lia|lia|lia| |unfold on_border; lia]. left; reflexivity.
  - apply interior_not_boundary; [exact OK|lia|lia].
Qed.

Theorem boundary_border ct nx ny : quad_ok ct = true -> 1 <= nx -> 1 <= ny ->
  forall k, k < struct_n nx ny -> is_boundary ct (struct_cells nx ny) k = border nx ny k.
Proof.
  intros OK Hnx Hny k Hk. rewrite (sidx_surj nx k).
  assert (Hx : k mod S nx <= nx) by apply mod_le. assert (Hy : k / S nx <= ny) by (apply div_le; exact Hk).
  rewrite border_sidx by exact Hx. apply boundary_border_xy; assumption.
Qed.

(** * neighbours of an inner point = its four lattice neighbours *)
Lemma joined_quad ct c p t : quad_ok ct = true ->
  (joined ct c p t <-> exists a b, a < 4 /\ b < 4 /\ adj a b = true /\ nth a c 0 = p /\ nth b c 0 = t).
Proof.
  intro OK. destruct (quad_ok_edges ct OK) as [Hlt Hadj]. unfold joined. split.
  - intros (a & b & Hin & H). destruct (Hlt a b Hin) as [Ha Hb].
    assert (Hab : adj a b = true).
    { rewrite <- Hadj by assumption. unfold edge_in. apply existsb_exists. exists (a, b).
      split; [exact Hin|]. cbn [fst snd]. apply pair_set_eqb_spec. auto. }
    destruct H as [[H1 H2]|[H1 H2]].
    + exists a, b. auto.
    + exists b, a. repeat split; auto. unfold adj in *. rewrite orb_comm. exact Hab.
  - intros (a & b & Ha & Hb & Hab & H1 & H2). rewrite <- Hadj in Hab by assumption.
    unfold edge_in in Hab. apply existsb_exists in Hab. destruct Hab as [[x y] [Hin Hp]].
    cbn [fst snd] in Hp. apply pair_set_eqb_spec in Hp. exists x, y. split; [exact Hin|].
    destruct Hp as [[-> ->]|[-> ->]]; auto.
Qed.

Definition four (nx i j : nat) : list nat :=
  [sidx nx (S i) j; sidx nx i (S j); sidx nx (S (S i)) (S j); sidx nx (S i) (S (S j))].

Lemma four_NoDup nx i j : S i < nx -> NoDup (four nx i j).
Proof.
  intro H. unfold four.
  repeat (constructor; [cbn [In]; intro E; repeat (destruct E as [E|E]; [apply sidx_inj in E; lia|]); exact E|]).
  constructor.
Qed.

Lemma nbrs_interior ct nx ny i j : quad_ok ct = true -> S i < nx -> S j < ny ->
  forall t, In t (nbrs ct (struct_cells nx ny) (struct_n nx ny) (sidx nx (S i) (S j))) <-> In t (four nx i j).
Proof.
  intros OK Hi Hj t. rewrite nbrs_spec. split.
  - intros (Ht & Hne & c & Hc & _ & Hjn). apply In_struct_cells in Hc. destruct Hc as (i0 & j0 & Hi0 & Hj0 & ->).
    apply (joined_quad ct _ _ _ OK) in Hjn. destruct Hjn as (a & b & Ha & Hb & Hab & Ea & Eb).
    clear Ht Hne. subst t. unfold four.
    destruct a as [|[|[|[|a]]]]; [| | | |lia]; cbn [qcell nth] in Ea; apply sidx_inj in Ea; try lia;
      destruct Ea as [E1 E2];
      [ assert (i0 = S i) by lia; assert (j0 = S j) by lia
      | assert (i0 = i) by lia; assert (j0 = S j) by lia
      | assert (i0 = i) by lia; assert (j0 = j) by lia
      | assert (i0 = S i) by lia; assert (j0 = j) by lia ]; subst i0 j0;
      (destruct b as [|[|[|[|b]]]]; [| | | |lia]; vm_compute in Hab; try discriminate Hab;
       cbn [qcell nth In]; auto).
  - unfold four. cbn [In]. intros [<-|[<-|[<-|[<-|[]]]]].
    + split; [apply sidx_lt; lia|]. split; [intro E; apply sidx_inj in E; lia|].
      exists (qcell nx i j). split; [apply In_struct_cells; exists i, j; repeat split; lia|].
      split; [apply In_qcell; lia|]. apply (joined_quad ct _ _ _ OK). exists 2, 1. repeat split; lia.
    + split; [apply sidx_lt; lia|]. split; [intro E; apply sidx_inj in E; lia|].
      exists (qcell nx i j). split; [apply In_struct_cells; exists i, j; repeat split; lia|].
      split; [apply In_qcell; lia|]. apply (joined_quad ct _ _ _ OK). exists 2, 3. repeat split; lia.
    + split; [apply sidx_lt; lia|]. split; [intro E; apply sidx_inj in E; lia|].
      exists (qcell nx (S i) j). split; [apply In_struct_cells; exists (S i), j; repeat split; lia|].
      split; [apply In_qcell; lia|]. apply (joined_quad ct _ _ _ OK). exists 3, 2. repeat split; lia.
    + split; [apply sidx_lt; lia|]. split; [intro E; apply sidx_inj in E; lia|].
      exists (qcell nx (S i) (S j)). split; [apply In_struct_cells; exists (S i), (S j); repeat split; lia|].
      split; [apply In_qcell; lia|]. apply (joined_quad ct _ _ _ OK). exists 0, 3. repeat split; lia.
Qed.

Lemma nbrs_perm ct nx ny i j : quad_ok ct = true -> S i < nx -> S j < ny ->
  Permutation (nbrs ct (struct_cells nx ny) (struct_n nx ny) (sidx nx (S i) (S j))) (four nx i j).
Proof.
  intros OK Hi Hj. apply NoDup_Permutation; [apply nbrs_NoDup|apply four_NoDup; exact Hi|].
  apply nbrs_interior; assumption.
Qed.

(** * the lattice coordinates are harmonic *)
Open Scope Q_scope.
Lemma qsum_perm l l' : Permutation l l' -> qsum l == qsum l'.
Proof.
  induction 1 as [|x l l' _ IH|x y l|l l' l'' _ IH1 _ IH2]; cbn [qsum fold_right].
  - reflexivity.
  - fold (qsum l). fold (qsum l'). rewrite IH. reflexivity.
  - ring.
  - rewrite IH1. exact IH2.
Qed.

Lemma colX_sidx nx x y : (x <= nx)%nat -> colX nx (sidx nx x y) = inject_Z (Z.of_nat x).
Proof. intro H. unfold colX. rewrite sidx_mod by exact H. reflexivity. Qed.

Lemma rowY_sidx nx x y : (x <= nx)%nat -> rowY nx (sidx nx x y) = inject_Z (Z.of_nat y).
Proof. intro H. unfold rowY. rewrite sidx_div by exact H. reflexivity. Qed.

Lemma inject_S k : inject_Z (Z.of_nat (S k)) == inject_Z (Z.of_nat k) + 1.
Proof. rewrite Nat2Z.inj_succ. unfold Z.succ. rewrite inject_Z_plus. reflexivity. Qed.

Lemma lattice_coords_harmonic ct nx ny i j : quad_ok ct = true -> (S i < nx)%nat -> (S j < ny)%nat ->
  let jn := (sidx nx (S i) (S j), nbrs ct (struct_cells nx ny) (struct_n nx ny) (sidx nx (S i) (S j))) in
  harmonic_fn (colX nx) jn /\ harmonic_fn (rowY nx) jn.
Proof.
  intros OK Hi Hj jn. pose proof (nbrs_perm ct nx ny i j OK Hi Hj) as P.
  assert (L : qlen (snd jn) == 4).
  { unfold jn, qlen. cbn [snd]. rewrite (Permutation_length P). reflexivity. }
  unfold harmonic_fn. rewrite L. unfold jn. cbn [fst snd]. split.
  - rewrite (qsum_perm _ _ (Permutation_map (colX nx) P)). unfold four. cbn [map qsum fold_right].
    rewrite !colX_sidx by lia. rewrite !inject_S. ring.
  - rewrite (qsum_perm _ _ (Permutation_map (rowY nx) P)). unfold four. cbn [map qsum fold_right].
    rewrite !rowY_sidx by lia. rewrite !inject_S. ring.
Qed.
Close Scope Q_scope.

(** * every junction reaches the border *)
Lemma reach_all ct nx ny : quad_ok ct = true -> 1 <= nx -> 1 <= ny ->
  forall x y, x <= nx -> y <= ny ->
    reach (schedule ct (struct_cells nx ny) (struct_n nx ny) []) (sidx nx x y).
Proof.
  intros OK Hnx Hny. induction x as [|x IH]; intros y Hx Hy.
  - apply reach_stop. intro Hin. apply schedule_fst_spec in Hin. destruct Hin as (_ & Hb & _).
    rewrite boundary_border_xy in Hb by assumption. cbn [Nat.eqb orb] in Hb. discriminate.
  - destruct (in_dec Nat.eq_dec (sidx nx (S x) y)
                (map fst (schedule ct (struct_cells nx ny) (struct_n nx ny) []))) as [Hin|Hnot];
      [|apply reach_stop; exact Hnot].
    apply schedule_fst_spec in Hin. pose proof Hin as Hfree. destruct Hin as (_ & Hb & _).
    rewrite boundary_border_xy in Hb by assumption.
    destruct y as [|y]; [rewrite orb_true_r in Hb; discriminate|].
    assert (Hxi : S x < nx) by lia. assert (Hyi : S y < ny) by lia.
    apply (reach_go _ _ (nbrs ct (struct_cells nx ny) (struct_n nx ny) (sidx nx (S x) (S y))) (sidx nx x (S y))).
    + apply In_schedule. split; [exact Hfree|reflexivity].
    + apply (nbrs_interior ct nx ny x y OK Hxi Hyi). unfold four. cbn [In]. auto.
    + apply IH; lia.
Qed.

(** * all sizes: what the structured map satisfies *)
Section AllSizes.
Variables (ct : celltype) (nx ny : nat).
Hypotheses (OK : quad_ok ct = true) (Hnx : 1 <= nx) (Hny : 1 <= ny).
Let cells := struct_cells nx ny.
Let n := struct_n nx ny.

Lemma gen_interior jn fixed : In jn (schedule ct cells n fixed) ->
  exists i j, S i < nx /\ S j < ny /\ jn = (sidx nx (S i) (S j), nbrs ct cells n (sidx nx (S i) (S j))).
Proof.
  destruct jn as [p nb]. intro Hin. apply In_schedule in Hin. destruct Hin as [(Hp & Hb & _) ->].
  rewrite (sidx_surj nx p) in Hb |- *.
  assert (Hx : p mod S nx <= nx) by apply mod_le. assert (Hy : p / S nx <= ny) by (apply div_le; exact Hp).
  revert Hb Hx Hy. generalize (p mod S nx) (p / S nx). intros x y Hb Hx Hy.
  unfold cells in Hb. rewrite boundary_border_xy in Hb by assumption.
  destruct x as [|x]; [discriminate|]. destruct y as [|y]; [rewrite orb_true_r in Hb; discriminate|].
  exists x, y. split; [lia|]. split; [lia|reflexivity].
Qed.

Lemma gen_four fixed jn : In jn (schedule ct cells n fixed) -> length (snd jn) = 4.
Proof.
  intro Hin. destruct (gen_interior jn fixed Hin) as (i & j & Hi & Hj & ->). cbn [snd]. unfold cells, n.
  rewrite (Permutation_length (nbrs_perm ct nx ny i j OK Hi Hj)). reflexivity.
Qed.

(** the neighbours of a visited junction p are p - 1, p + 1, p - (nx+1), p + (nx+1) *)
Lemma gen_nbrs fixed jn : In jn (schedule ct cells n fixed) ->
  forall t, In t (snd jn) <-> (t + 1 = fst jn \/ t = fst jn + 1 \/ t + S nx = fst jn \/ t = fst jn + S nx).
Proof.
  intros Hin t. destruct (gen_interior jn fixed Hin) as (i & j & Hi & Hj & ->). cbn [fst snd]. unfold cells, n.
  rewrite (nbrs_interior ct nx ny i j OK Hi Hj t). unfold four, sidx. cbn [In]. lia.
Qed.

Lemma gen_reach : forall p, In p (map fst (schedule ct cells n [])) -> reach (schedule ct cells n []) p.
Proof.
  intros p Hin. pose proof Hin as Hs. apply schedule_fst_spec in Hs. destruct Hs as (Hp & _).
  rewrite (sidx_surj nx p). apply reach_all; try assumption; [apply mod_le|apply div_le; exact Hp].
Qed.

Lemma gen_wf : wf_sched n (schedule ct cells n []).
Proof. apply schedule_wf_sched. exact gen_reach. Qed.

Lemma gen_harmonic fixed o a b jn : In jn (schedule ct cells n fixed) -> harmonic_at (lattice nx ny o a b) jn.
Proof.
  intro Hin. apply schedule_sub in Hin. destruct (gen_wf jn Hin) as (A & B & C).
  destruct (gen_interior jn [] Hin) as (i & j & Hi & Hj & E).
  destruct (lattice_coords_harmonic ct nx ny i j OK Hi Hj) as [Hx Hy]. fold cells n in Hx, Hy. rewrite <- E in Hx, Hy.
  unfold lattice. apply harmonic_fn_at; auto.
  apply (harmonic_fn_lin (colX nx) (rowY nx) o a b jn Hx Hy).
Qed.

Lemma lattice_length o a b : length (lattice nx ny o a b) = n.
Proof. unfold lattice. rewrite map_length, seq_length. reflexivity. Qed.

Lemma gen_fixed_point fixed iters o a b :
  eqv (iterate iters (schedule ct cells n fixed) (lattice nx ny o a b)) (lattice nx ny o a b).
Proof.
  set (sch := schedule ct cells n fixed).
  assert (S1 : forall s, eqv s (lattice nx ny o a b) -> eqv (sweep sch s) (lattice nx ny o a b)).
  { intros s E. eapply eqv_trans; [apply sweep_eqv; exact E|].
    assert (ND : NoDup (map fst sch)) by apply schedule_NoDup.
    assert (Hlt : forall jn, In jn sch -> fst jn < length (lattice nx ny o a b)).
    { intros jn Hin. rewrite lattice_length. exact (proj1 (schedule_wf_lt _ _ _ _ _ Hin)). }
    apply (proj2 (sweep_fixed_point sch _ ND Hlt)).
    intros jn Hin. apply (gen_harmonic fixed). exact Hin. }
  assert (G : forall k s, eqv s (lattice nx ny o a b) -> eqv (iterate k sch s) (lattice nx ny o a b)).
  { induction k as [|k IH]; intros s E; [exact E|]. simpl. apply IH. apply S1. exact E. }
  apply G. apply eqv_refl.
Qed.

Lemma gen_not_visited s o a b i :
  (forall k, k < n -> border nx ny k = true -> (nth k s 0 == nth k (lattice nx ny o a b) 0)%Q) ->
  length s = n -> ~ In i (map fst (schedule ct cells n [])) -> (nth i s 0 == nth i (lattice nx ny o a b) 0)%Q.
Proof.
  intros Hb Ls Hi. destruct (Nat.lt_ge_cases i n) as [Hlt|Hge].
  - apply Hb; [exact Hlt|]. rewrite <- (boundary_border ct nx ny OK Hnx Hny i Hlt).
    destruct (is_boundary ct (struct_cells nx ny) i) eqn:E; [reflexivity|].
    exfalso. apply Hi. apply schedule_fst_spec. repeat split; auto.
  - rewrite !nth_overflow; [reflexivity|rewrite lattice_length; exact Hge|lia].
Qed.

Lemma gen_unique o a b h : length h = n ->
  (forall jn, In jn (schedule ct cells n []) -> harmonic_at h jn) ->
  (forall k, k < n -> border nx ny k = true -> (nth k h 0 == nth k (lattice nx ny o a b) 0)%Q) ->
  eqv h (lattice nx ny o a b).
Proof.
  intros Lh Hh Hb. apply (harmonic_unique (schedule ct cells n [])).
  - rewrite lattice_length. exact Lh.
  - rewrite Lh. exact gen_wf.
  - exact Hh.
  - intros jn Hin. apply (gen_harmonic []). exact Hin.
  - intros i Hi. apply gen_not_visited; assumption.
  - exact gen_reach.
Qed.

Lemma gen_converges o a b s : length s = n ->
  (forall k, k < n -> border nx ny k = true -> (nth k s 0 == nth k (lattice nx ny o a b) 0)%Q) ->
  forall eps, (0 < eps)%Q -> exists K, forall k, K <= k ->
    within eps (iterate k (schedule ct cells n []) s) (lattice nx ny o a b).
Proof.
  intros Ls Hb eps He. apply convergence; auto.
  - rewrite lattice_length. exact Ls.
  - rewrite Ls. exact gen_wf.
  - apply schedule_NoDup.
  - intros jn Hin. apply (gen_harmonic []). exact Hin.
  - intros i Hi. apply gen_not_visited; assumption.
  - exact gen_reach.
Qed.
End AllSizes.

(** the structured-map theorem for every cell type passing [quad_ok] and every size *)
Theorem lattice_all_sizes ct : quad_ok ct = true -> forall nx ny, 1 <= nx -> 1 <= ny ->
  let cells := struct_cells nx ny in
  let n := struct_n nx ny in
  (forall k, k < n -> is_boundary ct cells k = border nx ny k)
  /\ (forall fixed jn, In jn (schedule ct cells n fixed) -> length (snd jn) = 4 /\
        forall t, In t (snd jn) <-> (t + 1 = fst jn \/ t = fst jn + 1 \/ t + S nx = fst jn \/ t = fst jn + S nx))
  /\ (forall fixed iters o a b, eqv (iterate iters (schedule ct cells n fixed) (lattice nx ny o a b)) (lattice nx ny o a b))
  /\ (forall o a b h, length h = n ->
        (forall jn, In jn (schedule ct cells n []) -> harmonic_at h jn) ->
        (forall k, k < n -> border nx ny k = true -> (nth k h 0 == nth k (lattice nx ny o a b) 0)%Q) ->
        eqv h (lattice nx ny o a b))
  /\ (forall o a b s, length s = n ->
        (forall k, k < n -> border nx ny k = true -> (nth k s 0 == nth k (lattice nx ny o a b) 0)%Q) ->
        forall eps, (0 < eps)%Q -> exists K, forall k, K <= k ->
          within eps (iterate k (schedule ct cells n []) s) (lattice nx ny o a b)).
Proof.
  intros OK nx ny Hnx Hny. cbv zeta. split; [|split; [|split; [|split]]].
  - apply boundary_border; assumption.
  - intros fixed jn Hin. split; [apply (gen_four ct nx ny OK Hnx Hny fixed); exact Hin|].
    apply (gen_nbrs ct nx ny OK Hnx Hny fixed). exact Hin.
  - apply gen_fixed_point; assumption.
  - apply gen_unique; assumption.
  - apply gen_converges; assumption.
Qed.

(** the check holds for the QuadCell tables of the verified revision (so the hypothesis is satisfiable) *)
Example quad_ok_reference :
  quad_ok {| ct_sides := [[0; 1]; [1; 2]; [2; 3]; [3; 0]]; ct_edges := [(0, 1); (1, 2); (2, 3); (0, 3)] |} = true.
Proof. vm_compute. reflexivity. Qed.

(** and for a reordered / flipped table; a table with a diagonal connection or a missing side fails *)
Example quad_ok_reordered :
  quad_ok {| ct_sides := [[3; 2]; [0; 3]; [1; 0]; [2; 1]]; ct_edges := [(3, 0); (2, 1); (1, 0); (3, 2)] |} = true.
Proof. vm_compute. reflexivity. Qed.

Example quad_ok_rejects_diagonal :
  quad_ok {| ct_sides := [[0; 1]; [1; 2]; [2; 3]; [3; 0]]; ct_edges := [(0, 1); (1, 2); (2, 3); (0, 3); (0, 2)] |} = false.
Proof. vm_compute. reflexivity. Qed.

Example quad_ok_rejects_missing_side :
  quad_ok {| ct_sides := [[0; 1]; [1; 2]; [2; 3]]; ct_edges := [(0, 1); (1, 2); (2, 3); (0, 3)] |} = false.
Proof. vm_compute. reflexivity. Qed.

Example quad_ok_rejects_duplicate_side :
  quad_ok {| ct_sides := [[0; 1]; [1; 2]; [2; 3]; [3; 0]; [1; 0]]; ct_edges := [(0, 1); (1, 2); (2, 3); (0, 3)] |} = false.
Proof. vm_compute. reflexivity. Qed.
