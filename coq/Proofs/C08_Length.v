(** C08 - lengths: the angle/axis arc and the origin arc have length radius * included angle; every
    three-point arc is at least as long as the distance of its end points. *)
From Coq Require Import Reals Lra Psatz List.
From CB Require Import Base.Vec3 Model.C08_Arcs Proofs.C08_Theta Proofs.C08_Chord Proofs.C08_ThreePoint Proofs.C08_Circle.
Open Scope R_scope.

(** ** rotation of a vector perpendicular to the axis *)
Lemma rot_perp a al w : dot a w = 0 -> rot a al w = vadd (vscale (cos al) w) (vscale (sin al) (cross a w)).
Proof. intros H. unfold rot. rewrite H. d2 a w. apply vec_eq; vcbv; ring. Qed.

(** a circle described by rotating [w] about the unit axis [a], in the sense [s] = +-1, is a [cpt] circle *)
Lemma cpt_of_rot c w a al s rad : rad <> 0 -> s = 1 \/ s = -1 ->
  cpt c rad (vscale (/ rad) w) (vscale s (cross a (vscale (/ rad) w))) (s * al) =
  vadd c (vadd (vscale (cos al) w) (vscale (sin al) (cross a w))).
Proof.
  intros Hr [-> | ->].
  - replace (1 * al) with al by ring. unfold cpt. d3 c w a. apply vec_eq; vcbv; field; assumption.
  - replace (-1 * al) with (- al) by ring. unfold cpt. rewrite cos_neg, sin_neg. d3 c w a. apply vec_eq; vcbv; field; assumption.
Qed.

Lemma onb_of_perp a w s : dot a a = 1 -> dot a w = 0 -> 0 < norm w -> s = 1 \/ s = -1 ->
  onb (vscale (/ norm w) w) (vscale s (cross a (vscale (/ norm w) w))).
Proof.
  intros Ha Hw Hr Hs. set (rad := norm w) in *.
  assert (Hww : dot w w = rad * rad) by (unfold rad; rewrite norm_sq; reflexivity).
  assert (Huu : dot (vscale (/ rad) w) (vscale (/ rad) w) = 1).
  { rewrite dot_vscale, Hww. field. lra. }
  assert (Hau : dot a (vscale (/ rad) w) = 0).
  { replace (dot a (vscale (/ rad) w)) with (/ rad * dot a w) by (d2 a w; vcbv; ring). rewrite Hw. ring. }
  assert (Hss : s * s = 1) by (destruct Hs as [-> | ->]; ring).
  repeat split.
  - exact Huu.
  - rewrite dot_vscale. change (dot (cross a (vscale (/ rad) w)) (cross a (vscale (/ rad) w))) with (norm2 (cross a (vscale (/ rad) w))).
    rewrite lagrange. unfold norm2. rewrite Ha, Huu, Hau, Hss. ring.
  - replace (dot (vscale (/ rad) w) (vscale s (cross a (vscale (/ rad) w))))
      with (s * dot (vscale (/ rad) w) (cross a (vscale (/ rad) w))) by (set (uu := vscale (/ rad) w); d2 a uu; vcbv; ring).
    rewrite dot_cross_self_r. ring.
Qed.

Lemma len_of_cpt ps pb pe c rad u v psi phi :
  ps = cpt c rad u v 0 -> pb = cpt c rad u v psi -> pe = cpt c rad u v phi ->
  onb u v -> 0 < rad -> 0 < psi -> psi < phi -> phi < 2 * PI -> psi < PI ->
  arc_length_3point ps pb pe = rad * phi.
Proof. intros -> -> ->. apply three_point_length_circle. Qed.

Lemma chord_of_cpt ps pe c rad u v phi :
  ps = cpt c rad u v 0 -> pe = cpt c rad u v phi -> onb u v -> 0 < rad -> 0 <= phi <= 2 * PI ->
  dist ps pe <= rad * phi.
Proof. intros -> ->. apply arc_chord_bound. Qed.

(** ** the angle/axis arc *)
Definition sgn (x : R) : R := if Rle_dec 0 x then 1 else -1.

Lemma sgn_cases x : sgn x = 1 \/ sgn x = -1.
Proof. unfold sgn. destruct (Rle_dec 0 x); auto. Qed.

Lemma sgn_abs x : Rabs x = sgn x * x.
Proof.
  unfold sgn. destruct (Rle_dec 0 x).
  - rewrite Rabs_right; lra.
  - rewrite Rabs_left; lra.
Qed.

Lemma spec_w_perp p1 p2 th a : dot (vsub p2 p1) a = 0 -> dot a (vsub p1 (spec_centre p1 p2 th a)) = 0.
Proof.
  intros Hd. rewrite spec_radius_vec.
  set (k := cos (th / 2) / (2 * sin (th / 2))). set (d := vsub p2 p1) in *.
  replace (dot a (vadd (vscale (- / 2) d) (vscale k (cross d a)))) with (- / 2 * dot d a) by (d2 a d; vcbv; ring).
  rewrite Hd. ring.
Qed.

Lemma spec_radius_pos p1 p2 th a :
  dot a a = 1 -> dot (vsub p2 p1) a = 0 -> vsub p2 p1 <> vzero -> sin (th / 2) <> 0 ->
  0 < norm (vsub p1 (spec_centre p1 p2 th a)).
Proof.
  intros Ha Hd Hn Hs. unfold norm. apply sqrt_lt_R0. rewrite (spec_radius2 _ _ _ _ Ha Hd Hs).
  pose proof (norm2_pos_neq _ Hn). apply Rdiv_lt_0_compat; [assumption|]. nra.
Qed.

(** every point of the specified arc, written on the [cpt] circle about the specified centre *)
Lemma spec_is_cpt p1 p2 th a lam :
  dot a a = 1 -> dot (vsub p2 p1) a = 0 -> vsub p2 p1 <> vzero -> sin (th / 2) <> 0 ->
  let w := vsub p1 (spec_centre p1 p2 th a) in
  spec_point p1 p2 th a lam =
  cpt (spec_centre p1 p2 th a) (norm w) (vscale (/ norm w) w) (vscale (sgn th) (cross a (vscale (/ norm w) w))) (Rabs th * lam).
Proof.
  intros Ha Hd Hn Hs w. pose proof (spec_radius_pos _ _ _ _ Ha Hd Hn Hs) as Hr. fold w in Hr.
  unfold spec_point. fold w. rewrite (rot_perp _ _ _ (spec_w_perp _ _ th _ Hd)). fold w.
  rewrite sgn_abs. replace (sgn th * th * lam) with (sgn th * (th * lam)) by ring.
  rewrite (cpt_of_rot _ _ _ _ _ _ (Rgt_not_eq _ _ Hr) (sgn_cases th)). reflexivity.
Qed.

Theorem theta_length p1 p2 th a :
  dot a a = 1 -> dot (vsub p2 p1) a = 0 -> vsub p2 p1 <> vzero -> 0 < Rabs th < 2 * PI ->
  arc_length_3point p1 (arc_from_theta p1 p2 th a) p2 = norm (vsub p1 (spec_centre p1 p2 th a)) * Rabs th.
Proof.
  intros Ha Hd Hn Hth. pose proof (sin_half_neq th Hth) as Hs.
  pose proof (spec_radius_pos _ _ _ _ Ha Hd Hn Hs) as Hr.
  set (w := vsub p1 (spec_centre p1 p2 th a)) in *.
  apply (len_of_cpt _ _ _ (spec_centre p1 p2 th a) (norm w) (vscale (/ norm w) w)
                    (vscale (sgn th) (cross a (vscale (/ norm w) w))) (Rabs th / 2) (Rabs th)).
  - transitivity (spec_point p1 p2 th a 0); [symmetry; apply spec_point_0|].
    rewrite (spec_is_cpt _ _ _ _ 0 Ha Hd Hn Hs). fold w. f_equal. ring.
  - rewrite (theta_mid_is_spec_half _ _ _ _ Ha Hd Hn Hth).
    rewrite (spec_is_cpt _ _ _ _ (/ 2) Ha Hd Hn Hs). fold w. f_equal.
  - transitivity (spec_point p1 p2 th a 1); [symmetry; apply spec_point_1; assumption|].
    rewrite (spec_is_cpt _ _ _ _ 1 Ha Hd Hn Hs). fold w. f_equal. ring.
  - apply onb_of_perp; [assumption | apply spec_w_perp; assumption | assumption | apply sgn_cases].
  - exact Hr.
  - lra.
  - lra.
  - lra.
  - lra.
Qed.

(** chord bound for the angle/axis arc *)
Corollary theta_chord_bound p1 p2 th a :
  dot a a = 1 -> dot (vsub p2 p1) a = 0 -> vsub p2 p1 <> vzero -> 0 < Rabs th < 2 * PI ->
  dist p1 p2 <= arc_length_3point p1 (arc_from_theta p1 p2 th a) p2.
Proof.
  intros Ha Hd Hn Hth. rewrite (theta_length _ _ _ _ Ha Hd Hn Hth).
  pose proof (sin_half_neq th Hth) as Hs. pose proof (spec_radius_pos _ _ _ _ Ha Hd Hn Hs) as Hr.
  set (w := vsub p1 (spec_centre p1 p2 th a)) in *.
  assert (E0 : p1 = cpt (spec_centre p1 p2 th a) (norm w) (vscale (/ norm w) w) (vscale (sgn th) (cross a (vscale (/ norm w) w))) 0).
  { transitivity (spec_point p1 p2 th a 0); [symmetry; apply spec_point_0|].
    rewrite (spec_is_cpt _ _ _ _ 0 Ha Hd Hn Hs). fold w. f_equal. ring. }
  assert (E1 : p2 = cpt (spec_centre p1 p2 th a) (norm w) (vscale (/ norm w) w) (vscale (sgn th) (cross a (vscale (/ norm w) w))) (Rabs th)).
  { transitivity (spec_point p1 p2 th a 1); [symmetry; apply spec_point_1; assumption|].
    rewrite (spec_is_cpt _ _ _ _ 1 Ha Hd Hn Hs). fold w. f_equal. ring. }
  apply (chord_of_cpt _ _ _ _ _ _ _ E0 E1).
  - apply onb_of_perp; [assumption | apply spec_w_perp; assumption | assumption | apply sgn_cases].
  - exact Hr.
  - lra.
Qed.

(** ** the origin arc (flatness 1, origin equidistant from the end points): the written point is the point of
    the circle about the origin half-way between the end points, on the side of the chord away from the origin
    (the minor arc), and the length is radius * included angle *)
Lemma norm_lin_unit u v t : onb u v -> norm (lin u v (cos t) (sin t)) = 1.
Proof. intros H. unfold norm, norm2. rewrite (dot_lin_onb _ _ _ _ _ _ H), sc1. apply sqrt_1. Qed.

Lemma arc_mid_circle c rad u v phi : onb u v -> 0 < rad -> 0 < phi < PI ->
  arc_mid c (cpt c rad u v 0) (cpt c rad u v phi) = cpt c rad u v (phi / 2).
Proof.
  intros H Hr Hphi. unfold arc_mid.
  replace (norm (vsub c (cpt c rad u v 0))) with rad.
  2:{ change (norm (vsub c (cpt c rad u v 0))) with (dist c (cpt c rad u v 0)). rewrite dist_sym. unfold dist.
      symmetry. apply norm_cpt; assumption. }
  set (h := phi / 2). assert (Eh : phi = 2 * h) by (unfold h; field).
  assert (Hh : 0 < h < PI / 2) by (unfold h; lra). clearbody h. subst phi.
  assert (Hc : 0 < cos h) by (apply cos_gt_0; lra).
  assert (E : vsub (secant_mid (cpt c rad u v 0) (cpt c rad u v (2 * h))) c = vscale (rad * cos h) (lin u v (cos h) (sin h))).
  { unfold secant_mid, cpt. rewrite cos_0, sin_0, cos_2a_cos, sin_2a. d3 c u v. apply vec_eq; vcbv; field. }
  rewrite E. unfold vunit. rewrite norm_scale, (norm_lin_unit _ _ _ H).
  assert (Hk : 0 < rad * cos h) by (apply Rmult_lt_0_compat; assumption).
  rewrite (Rabs_right (rad * cos h)) by lra.
  unfold cpt. f_equal. rewrite !vscale_vscale.
  f_equal. field. lra.
Qed.

Theorem origin_mid_circle tol c rad u v phi : 0 <= tol -> onb u v -> 0 < rad -> 0 < phi < PI ->
  arc_from_origin tol (cpt c rad u v 0) (cpt c rad u v phi) c 1 = cpt c rad u v (phi / 2).
Proof.
  intros Ht H Hr Hphi. unfold arc_from_origin. destruct (Req_EM_T 1 1) as [_|N]; [|exfalso; apply N; reflexivity].
  rewrite !(norm_cpt _ _ _ _ _ H Hr). replace (rad - rad) with 0 by ring. rewrite Rabs_R0.
  destruct (Rlt_dec tol 0); [lra|]. unfold arc_from_origin_noadj. apply arc_mid_circle; assumption.
Qed.

Theorem origin_length_circle tol c rad u v phi : 0 <= tol -> onb u v -> 0 < rad -> 0 < phi < PI ->
  arc_length_3point (cpt c rad u v 0) (arc_from_origin tol (cpt c rad u v 0) (cpt c rad u v phi) c 1) (cpt c rad u v phi)
  = rad * phi.
Proof.
  intros Ht H Hr Hphi. rewrite (origin_mid_circle _ _ _ _ _ _ Ht H Hr Hphi).
  apply three_point_length_circle; try assumption; lra.
Qed.

(** ** every three-point arc is at least as long as the distance of its end points *)
Lemma a3_chord ps pb pe : a3_denom ps pb pe <> 0 -> dist ps pe <= arc_length_3point ps pb pe.
Proof.
  intros Hd. destruct (a3_equidistant ps pb pe Hd) as [_ He]. cbv zeta in He.
  unfold arc_length_3point, a3_len_at. set (c := a3_centre ps pb pe) in *.
  set (rs := vsub ps c) in *. set (re := vsub pe c) in *.
  assert (Hnn : norm rs = norm re) by (apply norm_eq_of_norm2; symmetry; exact He).
  assert (Hsub : vsub ps pe = vsub rs re) by (unfold rs, re; d3 ps pe c; apply vec_eq; vcbv; ring).
  pose proof (norm_nonneg re) as Hr0.
  pose proof (acos_bound (a3_x_at c ps pe)) as Hab.
  set (ang := if Rlt_dec (a3_flipq_at c ps pb pe) 0 then 2 * PI - acos (a3_x_at c ps pe) else acos (a3_x_at c ps pe)).
  assert (Hang : acos (a3_x_at c ps pe) <= ang) by (unfold ang; destruct (Rlt_dec _ 0); lra).
  destruct (Req_dec (norm re) 0) as [Hz|Hnz].
  - (* degenerate: all radius vectors vanish *)
    assert (Z1 : re = vzero) by (apply norm2_zero; rewrite <- norm_sq, Hz; ring).
    assert (Z2 : rs = vzero) by (apply norm2_zero; rewrite <- norm_sq, Hnn, Hz; ring).
    unfold dist. rewrite Hz, Hsub, Z1, Z2.
    replace (norm (vsub vzero vzero)) with 0; [lra|].
    symmetry. unfold norm. replace (norm2 (vsub vzero vzero)) with 0 by (vcbv; ring). apply sqrt_0.
  - assert (Hr : 0 < norm re) by lra. set (rad := norm re) in *.
    set (x := a3_x_at c ps pe) in *.
    assert (Ex : dot rs re = x * (rad * rad)).
    { unfold x, a3_x_at. fold rs re. rewrite Hnn. fold rad. field. lra. }
    assert (Hx : -1 <= x <= 1).
    { pose proof (cauchy_schwarz_abs rs re) as CS. rewrite Hnn in CS. fold rad in CS. rewrite Ex in CS.
      assert (0 < rad * rad) by nra.
      rewrite Rabs_mult, (Rabs_right (rad * rad)) in CS by lra.
      assert (Hx1 : Rabs x <= 1) by nra. unfold Rabs in Hx1. destruct (Rcase_abs x); lra. }
    set (p := acos x) in *.
    assert (Ec : cos p = x) by (apply cos_acos; exact Hx).
    assert (Ed : norm2 (vsub rs re) = (2 * rad * sin (p / 2)) * (2 * rad * sin (p / 2))).
    { replace (norm2 (vsub rs re)) with (norm2 rs - 2 * dot rs re + norm2 re) by (d2 rs re; vcbv; ring).
      rewrite <- !norm_sq, Hnn. fold rad. rewrite Ex, <- Ec.
      replace p with (2 * (p / 2)) at 1 by field. rewrite cos_2a_sin. ring. }
    assert (Hsp : 0 <= sin (p / 2)) by (apply sin_ge_0; lra).
    assert (Edist : dist ps pe = 2 * rad * sin (p / 2)).
    { unfold dist, norm. rewrite Hsub, Ed. apply sqrt_square. nra. }
    assert (Hsin : sin (p / 2) <= p / 2).
    { destruct (Req_dec p 0) as [E0|Hn0].
      - rewrite E0. replace (0 / 2) with 0 by field. rewrite sin_0. lra.
      - apply Rlt_le. apply sin_lt_x. lra. }
    rewrite Edist. fold ang. nra.
Qed.

Lemma collinearity_denom v1 p3 v2 :
  arc_collinearity v1 p3 v2 * arc_collinearity v1 p3 v2 = a3_denom v1 p3 v2.
Proof.
  unfold arc_collinearity. rewrite norm_sq, a3_denom_lagrange. d3 v1 p3 v2. vcbv. ring.
Qed.

(** ArcEdgeBase.length (Arc, Origin and Angle edges) is never below the end point distance *)
Theorem arc_edge_chord_bound tol v1 p3 v2 : 0 <= tol -> dist v1 v2 <= arc_edge_length tol v1 p3 v2.
Proof.
  intros Ht. unfold arc_edge_length. destruct (Rlt_dec (dist v1 v2) tol); [lra|].
  destruct (Rlt_dec tol (arc_collinearity v1 p3 v2)) as [Hc|Hc]; [|lra].
  apply a3_chord. rewrite <- collinearity_denom. nra.
Qed.

(** ** point-wise form of the origin arc: for any origin equidistant from two end points that are not opposite each
    other, the written point is on the circle about the origin through the end points, on the bisector of the chord on
    the side of the chord (minor arc), and equidistant from both end points *)
Lemma arc_mid_pointwise c p1 p3 :
  norm2 (vsub p1 c) = norm2 (vsub p3 c) -> vadd (vsub p1 c) (vsub p3 c) <> vzero ->
  let m := arc_mid c p1 p3 in
  norm2 (vsub m c) = norm2 (vsub p1 c)
  /\ (exists t, 0 < t /\ vsub m c = vscale t (vadd (vsub p1 c) (vsub p3 c)))
  /\ norm2 (vsub m p1) = norm2 (vsub m p3).
Proof.
  intros He Hs m.
  set (r1 := vsub p1 c) in *. set (r3 := vsub p3 c) in *. set (s := vadd r1 r3) in *.
  assert (Hns : 0 < norm s) by (apply norm_pos_neq; exact Hs).
  assert (Hr1 : norm (vsub c p1) = norm r1).
  { change (norm (vsub c p1)) with (dist c p1). rewrite dist_sym. reflexivity. }
  assert (Hw : vsub (secant_mid p1 p3) c = vscale (/ 2) s).
  { unfold s, r1, r3, secant_mid. d3 c p1 p3. apply vec_eq; vcbv; field. }
  assert (Hnw : norm (vscale (/ 2) s) = / 2 * norm s) by (rewrite norm_scale, Rabs_right; lra).
  assert (Hm : vsub m c = vscale (norm r1 / norm s) s).
  { unfold m, arc_mid. rewrite vsub_vadd_l, Hr1, Hw. unfold vunit. rewrite Hnw, !vscale_vscale. f_equal. field. lra. }
  assert (Hr1pos : 0 < norm r1).
  { destruct (Req_dec (norm r1) 0) as [Z|NZ]; [|pose proof (norm_nonneg r1); lra].
    exfalso. apply Hs.
    assert (Z1 : r1 = vzero) by (apply norm2_zero; rewrite <- norm_sq, Z; ring).
    assert (Z3 : r3 = vzero) by (apply norm2_zero; rewrite <- He, <- norm_sq, Z; ring).
    unfold s. rewrite Z1, Z3. vcbv. f_equal; [f_equal|]; ring. }
  split; [|split].
  - rewrite Hm, norm2_scale, <- (norm_sq s), <- (norm_sq r1). field. lra.
  - exists (norm r1 / norm s). split; [apply Rdiv_lt_0_compat; assumption | exact Hm].
  - assert (E1 : vsub m p1 = vsub (vsub m c) r1) by (unfold r1; d3 m c p1; apply vec_eq; vcbv; ring).
    assert (E3 : vsub m p3 = vsub (vsub m c) r3) by (unfold r3; d3 m c p3; apply vec_eq; vcbv; ring).
    rewrite E1, E3, Hm. set (t := norm r1 / norm s). unfold s.
    assert (X : forall a b k, norm2 (vsub (vscale k (vadd a b)) a) - norm2 (vsub (vscale k (vadd a b)) b)
                              = (1 - 2 * k) * (norm2 a - norm2 b)).
    { intros a b k. d2 a b. vcbv. ring. }
    pose proof (X r1 r3 t) as Y. rewrite He in Y. lra.
Qed.

Lemma arc_from_origin_equidistant tol c p1 p3 :
  0 <= tol -> norm2 (vsub p1 c) = norm2 (vsub p3 c) -> arc_from_origin tol p1 p3 c 1 = arc_mid c p1 p3.
Proof.
  intros Ht He. unfold arc_from_origin. destruct (Req_EM_T 1 1) as [_|N]; [|exfalso; apply N; reflexivity].
  rewrite (norm_eq_of_norm2 _ _ He). replace (norm (vsub p3 c) - norm (vsub p3 c)) with 0 by ring. rewrite Rabs_R0.
  destruct (Rlt_dec tol 0); [lra | reflexivity].
Qed.
