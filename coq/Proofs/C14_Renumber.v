(** C14 - the quality value is invariant under renumbering the corners, provided the renumbering
    maps the side table onto itself up to cyclic shifts and the measured edge set onto itself
    (a boolean condition [renum_ok], decided by computation on the regenerated tables for the 24
    rotations of the hexahedron in Properties/C14.v). *)
From Coq Require Import Reals List Lra Lia Permutation Bool Arith.
From CB Require Import Base.Hex Base.Vec3 Model.C14_Quality Proofs.C14_Algebra.
Import ListNotations.

(** ** boolean checks and their meaning *)
Lemma c14_existsb_eqb x l : existsb (Nat.eqb x) l = true <-> In x l.
Proof.
  rewrite existsb_exists. split.
  - intros [y [Hy E]]. apply Nat.eqb_eq in E. subst. assumption.
  - intros H. exists x. split; [assumption | apply Nat.eqb_refl].
Qed.
Lemma c14_nodupb_NoDup l : nodupb l = true -> NoDup l.
Proof.
  induction l; simpl; intros H; constructor.
  - apply andb_true_iff in H. destruct H as [H _]. intro Hin. apply c14_existsb_eqb in Hin. rewrite Hin in H. discriminate.
  - apply IHl. apply andb_true_iff in H. tauto.
Qed.
Lemma c14_same_set_In l m : same_set l m = true -> forall x, In x l <-> In x m.
Proof.
  unfold same_set. intros H x. apply andb_true_iff in H. destruct H as [H1 H2].
  rewrite forallb_forall in H1, H2. split; intro Hx.
  - apply c14_existsb_eqb. apply H1. assumption.
  - apply c14_existsb_eqb. apply H2. assumption.
Qed.
Lemma c14_perm_check l m : nodupb l = true -> nodupb m = true -> same_set l m = true -> Permutation l m.
Proof.
  intros H1 H2 H3. apply NoDup_Permutation; auto using c14_nodupb_NoDup. apply c14_same_set_In. assumption.
Qed.
Lemma c14_perm_seq l n : nodupb l = true -> length l = n -> forallb (fun x => x <? n) l = true -> Permutation l (seq 0 n).
Proof.
  intros H1 H2 H3. apply NoDup_Permutation_bis.
  - apply c14_nodupb_NoDup. assumption.
  - rewrite seq_length. lia.
  - intros x Hx. rewrite forallb_forall in H3. specialize (H3 x Hx). apply Nat.ltb_lt in H3. apply in_seq. lia.
Qed.

Lemma map_nth_seq (l : list nat) d : map (fun i => nth i l d) (seq 0 (length l)) = l.
Proof.
  induction l; simpl; [reflexivity|]. f_equal. rewrite <- seq_shift, map_map. exact IHl.
Qed.

Fixpoint list_beq (l m : list nat) : bool :=
  match l, m with
  | [], [] => true
  | x :: l', y :: m' => (x =? y) && list_beq l' m'
  | _, _ => false
  end.
Lemma list_beq_eq l m : list_beq l m = true -> l = m.
Proof.
  revert m. induction l; destruct m; simpl; intros H; try discriminate; [reflexivity|].
  apply andb_true_iff in H. destruct H as [H1 H2]. apply Nat.eqb_eq in H1. f_equal; auto.
Qed.

Definition rot_list (k : nat) (l : list nat) : list nat := skipn k l ++ firstn k l.
Definition is_shift (l m : list nat) : bool := existsb (fun k => list_beq (rot_list k m) l) [0; 1; 2; 3]%nat.

Fixpoint find_index (f : nat -> bool) (l : list nat) (d : nat) : nat :=
  match l with
  | [] => d
  | x :: r => if f x then x else find_index f r d
  end.

(** the side slot that holds (a cyclic shift of) the renumbered side [i] *)
Definition side_image (T : list (list nat)) (p : perm) (i : nat) : nat :=
  find_index (fun j => is_shift (map (papply p) (nth i T [])) (nth j T [])) (seq 0 (length T)) (length T).

Definition pcode (e : nat * nat) : nat := Nat.min (fst e) (snd e) * 8 + Nat.max (fst e) (snd e).
Definition pdecode (c : nat) : nat * nat := (c / 8, c mod 8)%nat.
Definition pmap (p : perm) (e : nat * nat) : nat * nat := (papply p (fst e), papply p (snd e)).

Definition renum_ok (T : list (list nat)) (E : list (nat * nat)) (p : perm) : bool :=
  is_perm8 p
  && forallb (fun l => length l =? 4) T
  && forallb (fun i => (side_image T p i <? length T)
                       && is_shift (map (papply p) (nth i T [])) (nth (side_image T p i) T [])) (seq 0 (length T))
  && nodupb (map (side_image T p) (seq 0 (length T)))
  && forallb (fun e => valid (fst e) && valid (snd e)) E
  && nodupb (map pcode E) && nodupb (map pcode (map (pmap p) E))
  && same_set (map pcode (map (pmap p) E)) (map pcode E).

Open Scope R_scope.

(** the renumbered cell: new corner [i] is old corner [papply p i]; the neighbour across new side
    slot [i] is the one that was across slot [side_image T p i] *)
Definition renum (P : nat -> vec) (p : perm) : nat -> vec := fun i => P (papply p i).
Definition renum_nb (T : list (list nat)) (nb : nat -> option vec) (p : perm) : nat -> option vec :=
  fun i => nb (side_image T p i).

(** ** cyclic shifts of a side *)
Lemma side_term_shift k center other a b c d :
  side_term k center other b c d a = side_term k center other a b c d.
Proof. unfold side_term. rewrite c4_shift. ring. Qed.

Lemma side_term_l_rot k center other (P : nat -> vec) l n :
  length l = 4%nat -> In n [0; 1; 2; 3]%nat ->
  side_term_l k center other (map P (rot_list n l)) = side_term_l k center other (map P l).
Proof.
  intros Hl Hn. destruct l as [|a [|b [|c [|d [|e l]]]]]; try discriminate.
  simpl in Hn. destruct Hn as [<-|[<-|[<-|[<-|[]]]]]; cbn [rot_list skipn firstn app map side_term_l].
  - reflexivity.
  - apply side_term_shift.
  - rewrite (side_term_shift k center other (P b) (P c) (P d) (P a)). apply side_term_shift.
  - rewrite (side_term_shift k center other (P c) (P d) (P a) (P b)).
    rewrite (side_term_shift k center other (P b) (P c) (P d) (P a)). apply side_term_shift.
Qed.

(** ** edges *)
Lemma pdecode_pcode a b : (a < 8)%nat -> (b < 8)%nat -> pdecode (pcode (a, b)) = (Nat.min a b, Nat.max a b).
Proof.
  intros Ha Hb.
  do 8 (destruct a as [|a]; [do 8 (destruct b as [|b]; [reflexivity|]); lia|]). lia.
Qed.

Lemma norm_vsub_sym u v : norm (vsub u v) = norm (vsub v u).
Proof.
  unfold norm. f_equal. destruct u as [[u1 u2] u3], v as [[v1 v2] v3].
  cbv [norm2 dot vsub vx vy vz fst snd]. ring.
Qed.

Lemma edge_len_code P a b : (a < 8)%nat -> (b < 8)%nat -> edge_len P (a, b) = edge_len P (pdecode (pcode (a, b))).
Proof.
  intros Ha Hb. rewrite pdecode_pcode by assumption. unfold edge_len. simpl.
  destruct (Nat.le_gt_cases a b).
  - rewrite Nat.min_l, Nat.max_r by lia. reflexivity.
  - rewrite Nat.min_r, Nat.max_l by lia. apply norm_vsub_sym.
Qed.

Lemma papply_valid p i : forallb valid p = true -> valid (papply p i) = true.
Proof.
  intros H. unfold papply. destruct (Nat.lt_ge_cases i (length p)).
  - rewrite forallb_forall in H. apply H. apply nth_In. assumption.
  - rewrite nth_overflow by assumption. reflexivity.
Qed.

Theorem hexq_renumber k T E p P nb :
  renum_ok T E p = true ->
  hexq k T E (renum P p) (renum_nb T nb p) = hexq k T E P nb.
Proof.
  unfold renum_ok. intros H.
  apply andb_true_iff in H; destruct H as [H Hsame].
  apply andb_true_iff in H; destruct H as [H HndE'].
  apply andb_true_iff in H; destruct H as [H HndE].
  apply andb_true_iff in H; destruct H as [H Hvalid].
  apply andb_true_iff in H; destruct H as [H Hnd].
  apply andb_true_iff in H; destruct H as [H Hsides].
  apply andb_true_iff in H; destruct H as [Hperm Hlen].
  unfold is_perm8 in Hperm. apply andb_true_iff in Hperm. destruct Hperm as [Hperm Hpv].
  apply andb_true_iff in Hperm. destruct Hperm as [Hpl Hpnd]. apply Nat.eqb_eq in Hpl.
  (* centre *)
  assert (Hc : centre8 (renum P p) = centre8 P).
  { unfold centre8. f_equal. unfold renum.
    rewrite <- (map_map (papply p) P). unfold papply.
    replace 8%nat with (length p) at 1 by assumption. rewrite map_nth_seq.
    apply vsum_perm. apply Permutation_map. apply c14_perm_seq; auto. }
  unfold hexq. rewrite Hc. f_equal.
  - (* sides *)
    set (term := fun j => side_term_l k (centre8 P) (nb j) (map P (nth j T []))).
    transitivity (rsum (map term (map (side_image T p) (seq 0 (length T))))).
    + f_equal. rewrite map_map. apply map_ext_in. intros i Hi.
      rewrite forallb_forall in Hsides. specialize (Hsides i Hi).
      apply andb_true_iff in Hsides. destruct Hsides as [Hlt Hsh]. apply Nat.ltb_lt in Hlt.
      unfold is_shift in Hsh. apply existsb_exists in Hsh. destruct Hsh as [n [Hn Heq]].
      apply list_beq_eq in Heq.
      unfold term, renum_nb. unfold renum. rewrite <- (map_map (papply p) P). rewrite <- Heq.
      apply side_term_l_rot; [|assumption].
      rewrite forallb_forall in Hlen. apply Nat.eqb_eq. apply Hlen. apply nth_In. assumption.
    + apply rsum_perm. apply Permutation_map. apply c14_perm_seq.
      * assumption.
      * rewrite map_length, seq_length. reflexivity.
      * rewrite forallb_forall. intros x Hx. apply in_map_iff in Hx. destruct Hx as [i [<- Hi]].
        rewrite forallb_forall in Hsides. specialize (Hsides i Hi). apply andb_true_iff in Hsides. tauto.
  - (* aspect: the multiset of measured lengths is unchanged *)
    assert (HP : Permutation (map (edge_len (renum P p)) E) (map (edge_len P) E)).
    { assert (E1 : map (edge_len (renum P p)) E = map (fun c => edge_len P (pdecode c)) (map pcode (map (pmap p) E))).
      { rewrite !map_map. apply map_ext_in. intros [a b] Hab.
        change (edge_len (renum P p) (a, b)) with (edge_len P (pmap p (a, b))).
        unfold pmap. simpl fst. simpl snd. apply edge_len_code.
        - pose proof (papply_valid p a Hpv) as V. unfold valid in V. apply Nat.ltb_lt in V. exact V.
        - pose proof (papply_valid p b Hpv) as V. unfold valid in V. apply Nat.ltb_lt in V. exact V. }
      assert (E2 : map (edge_len P) E = map (fun c => edge_len P (pdecode c)) (map pcode E)).
      { rewrite map_map. apply map_ext_in. intros [a b] Hab.
        rewrite forallb_forall in Hvalid. specialize (Hvalid (a, b) Hab). simpl in Hvalid.
        apply andb_true_iff in Hvalid. destruct Hvalid as [Va Vb]. unfold valid in Va, Vb.
        apply Nat.ltb_lt in Va. apply Nat.ltb_lt in Vb. apply edge_len_code; assumption. }
      rewrite E1, E2. apply Permutation_map. apply c14_perm_check; assumption. }
    unfold aspect. rewrite (lmax_perm _ _ HP), (lmin_perm _ _ HP). reflexivity.
Qed.

(** ** quadrilateral: cyclic renumbering *)
Definition edges_ok (E : list (nat * nat)) (p : perm) : bool :=
  forallb valid p && forallb (fun e => valid (fst e) && valid (snd e)) E
  && nodupb (map pcode E) && nodupb (map pcode (map (pmap p) E))
  && same_set (map pcode (map (pmap p) E)) (map pcode E).

Lemma aspect_renumber k E p P :
  edges_ok E p = true -> aspect k (map (edge_len (renum P p)) E) = aspect k (map (edge_len P) E).
Proof.
  unfold edges_ok. intros H.
  apply andb_true_iff in H; destruct H as [H Hsame].
  apply andb_true_iff in H; destruct H as [H HndE'].
  apply andb_true_iff in H; destruct H as [H HndE].
  apply andb_true_iff in H; destruct H as [Hpv Hvalid].
  assert (HP : Permutation (map (edge_len (renum P p)) E) (map (edge_len P) E)).
  { assert (E1 : map (edge_len (renum P p)) E = map (fun c => edge_len P (pdecode c)) (map pcode (map (pmap p) E))).
    { rewrite !map_map. apply map_ext_in. intros [a b] Hab.
      change (edge_len (renum P p) (a, b)) with (edge_len P (pmap p (a, b))).
      unfold pmap. simpl fst. simpl snd. apply edge_len_code.
      - pose proof (papply_valid p a Hpv) as V. unfold valid in V. apply Nat.ltb_lt in V. exact V.
      - pose proof (papply_valid p b Hpv) as V. unfold valid in V. apply Nat.ltb_lt in V. exact V. }
    assert (E2 : map (edge_len P) E = map (fun c => edge_len P (pdecode c)) (map pcode E)).
    { rewrite map_map. apply map_ext_in. intros [a b] Hab.
      rewrite forallb_forall in Hvalid. specialize (Hvalid (a, b) Hab). simpl in Hvalid.
      apply andb_true_iff in Hvalid. destruct Hvalid as [Va Vb]. unfold valid in Va, Vb.
      apply Nat.ltb_lt in Va. apply Nat.ltb_lt in Vb. apply edge_len_code; assumption. }
    rewrite E1, E2. apply Permutation_map. apply c14_perm_check; assumption. }
  unfold aspect. rewrite (lmax_perm _ _ HP), (lmin_perm _ _ HP). reflexivity.
Qed.

Definition quad_shift : perm := [1; 2; 3; 0]%nat.

Lemma quad_side_nscale k center other lam nrm prev a b :
  0 < lam -> quad_side k center other (vscale lam nrm) prev a b = quad_side k center other nrm prev a b.
Proof.
  intros Hl. unfold quad_side.
  replace (cross (vscale lam nrm) (vsub b a)) with (vscale lam (cross nrm (vsub b a))) by vec_ring.
  unfold unit at 1 3. rewrite norm_scale_pos by lra. rewrite vscale_vscale.
  replace (/ (lam * norm (cross nrm (vsub b a))) * lam) with (/ norm (cross nrm (vsub b a))).
  - reflexivity.
  - rewrite Rinv_mult. replace (/ lam * / norm (cross nrm (vsub b a)) * lam)
      with (/ norm (cross nrm (vsub b a)) * (/ lam * lam)) by ring. rewrite Rinv_l by lra. ring.
Qed.

(** the corner normals of a planar convex quadrilateral are positive multiples of each other; under
    that hypothesis (here for corners 0 and 1) the value is invariant under the cyclic renumbering
    0->1->2->3->0, the generator of the four orientation-preserving renumberings *)
Theorem quadq_renumber_shift k E P nb lam :
  edges_ok E quad_shift = true -> 0 < lam ->
  cross (vsub (P 2%nat) (P 1%nat)) (vsub (P 0%nat) (P 1%nat))
    = vscale lam (cross (vsub (P 1%nat) (P 0%nat)) (vsub (P 3%nat) (P 0%nat))) ->
  quadq k E (renum P quad_shift) (fun i => nb (papply quad_shift i)) = quadq k E P nb.
Proof.
  intros HE Hl Hn. unfold quadq. rewrite (aspect_renumber k E quad_shift P HE).
  unfold renum, quad_shift, papply. cbn [nth].
  rewrite Hn, c4_shift, !quad_side_nscale by assumption. ring.
Qed.

(** ** the value depends on the measured pairs only as a set of unordered pairs *)
Definition edges_same (E E' : list (nat * nat)) : bool :=
  forallb (fun e => valid (fst e) && valid (snd e)) E && forallb (fun e => valid (fst e) && valid (snd e)) E'
  && nodupb (map pcode E) && nodupb (map pcode E') && same_set (map pcode E) (map pcode E').

Lemma lens_code P E : forallb (fun e => valid (fst e) && valid (snd e)) E = true ->
  map (edge_len P) E = map (fun c => edge_len P (pdecode c)) (map pcode E).
Proof.
  intros Hvalid. rewrite map_map. apply map_ext_in. intros [a b] Hab.
  rewrite forallb_forall in Hvalid. specialize (Hvalid (a, b) Hab). simpl in Hvalid.
  apply andb_true_iff in Hvalid. destruct Hvalid as [Va Vb]. unfold valid in Va, Vb.
  apply Nat.ltb_lt in Va. apply Nat.ltb_lt in Vb. apply edge_len_code; assumption.
Qed.

Lemma aspect_same_edges k E E' P : edges_same E E' = true ->
  aspect k (map (edge_len P) E) = aspect k (map (edge_len P) E').
Proof.
  unfold edges_same. intros H.
  apply andb_true_iff in H; destruct H as [H Hsame].
  apply andb_true_iff in H; destruct H as [H Hnd'].
  apply andb_true_iff in H; destruct H as [H Hnd].
  apply andb_true_iff in H; destruct H as [Hv Hv'].
  assert (HP : Permutation (map (edge_len P) E) (map (edge_len P) E')).
  { rewrite (lens_code P E Hv), (lens_code P E' Hv'). apply Permutation_map. apply c14_perm_check; assumption. }
  unfold aspect. rewrite (lmax_perm _ _ HP), (lmin_perm _ _ HP). reflexivity.
Qed.

Lemma hexq_same_edges k T E E' P nb : edges_same E E' = true -> hexq k T E P nb = hexq k T E' P nb.
Proof. intros H. unfold hexq. f_equal. apply aspect_same_edges. assumption. Qed.
