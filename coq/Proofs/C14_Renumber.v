(** C14 - the quality value is invariant under renumbering the corners, provided the renumbering
    maps the side table onto itself up to cyclic shifts and the measured edge set onto itself
    (a boolean condition [renum_ok], decided by computation on the regenerated tables for the 24
    rotations of the hexahedron in Properties/C14.v). *)
From Coq Require Import Reals List Lra Lia Permutation Bool Arith.
From CB Require Import Base.Hex Base.Vec3 Model.C14_Quality Proofs.C14_Algebra.
Import ListNotations.

(** ** boolean checks and their meaning *)
Lemma c14_existsb_eqb x l : existsb (Nat.eqb x) l = true <-> In x l.
Proof.
  rewrite existsb_exists. split.
  - intros [y [Hy E]]. apply Nat.eqb_eq in E. subst. assumption.
  - intros H. exists x. split; [assumption | apply Nat.eqb_refl].
Qed.
Lemma c14_nodupb_NoDup l : nodupb l = true -> NoDup l.
Proof.
  induction l; simpl; intros H; constructor.
  - apply andb_true_iff in H. destruct H as [H _]. intro Hin. apply c14_existsb_eqb in Hin. rewrite Hin in H. discriminate.
  - apply IHl. apply andb_true_iff in H. tauto.
Qed.
Lemma c14_same_set_In l m : same_set l m = true -> forall x, In x l <-> In x m.
Proof.
  unfold same_set. intros H x. apply andb_true_iff in H. destruct H as [H1 H2].
  rewrite forallb_forall in H1, H2. split; intro Hx.
  - apply c14_existsb_eqb. apply H1. assumption.
  - apply c14_existsb_eqb. apply H2. assumption.
Qed.
Lemma c14_perm_check l m : nodupb l = true -> nodupb m = true -> same_set l m = true -> Permutation l m.
Proof.
  intros H1 H2 H3. apply NoDup_Permutation; auto using c14_nodupb_NoDup. apply c14_same_set_In. assumption.
Qed.
Lemma c14_perm_seq l n : nodupb l = true -> length l = n -> forallb (fun x => x <? n) l = true -> Permutation l (seq 0 n).
Proof.
  intros H1 H2 H3. apply NoDup_Permutation_bis.
  - apply c14_nodupb_NoDup. assumption.
  - rewrite seq_length. lia.
  - intros x Hx. rewrite forallb_forall in H3. specialize (H3 x Hx). apply Nat.ltb_lt in H3. apply in_seq. lia.
Qed.

Lemma map_nth_seq (l : list nat) d : map (fun i => nth i l d) (seq 0 (length l)) = l.
Proof.
  induction l; simpl; [reflexivity|]. f_equal. rewrite <- seq_shift, map_map. exact IHl.
Qed.

Fixpoint list_beq (l m : list nat) : bool :=
  match l, m with
  | [], [] => true
  | x :: l', y :: m' => (x =? y) && list_beq l' m'
  | _, _ => false
  end.
Lemma list_beq_eq l m : list_beq l m = true -> l = m.
Proof.
  revert m. induction l; destruct m; simpl; intros H; try discriminate; [reflexivity|].
  apply andb_true_iff in H. destruct H as [H1 H2]. apply Nat.eqb_eq in H1. f_equal; auto.
Qed.

Definition rot_list (k : nat) (l : list nat) : list nat := skipn k l ++ firstn k l.
Definition is_shift (l m : list nat) : bool := existsb (fun k => list_beq (rot_list k m) l) [0; 1; 2; 3]%nat.

Fixpoint find_index (f : nat -> bool) (l : list nat) (d : nat) : nat :=
  match l with
  | [] => d
  | x :: r => if f x then x else find_index f r d
  end.

(** the side slot that holds (a cyclic shift of) the renumbered side [i] *)
Definition side_image (T : list (list nat)) (p : perm) (i : nat) : nat :=
  find_index (fun j => is_shift (map (papply p) (nth i T [])) (nth j T [])) (seq 0 (length T)) (length T).

Definition pcode (e : nat * nat) : nat := Nat.min (fst e) (snd e) * 8 + Nat.max (fst e) (snd e).
Definition pdecode (c : nat) : nat * nat := (c / 8, c mod 8)%nat.
Definition pmap (p : perm) (e : nat * nat) : nat * nat := (papply p (fst e), papply p (snd e)).

Definition renum_ok (T : list (list nat)) (E : list (nat * nat)) (p : perm) : bool :=
  is_perm8 p
  && forallb (fun l => length l =? 4) T
  && forallb (fun i => (side_image T p i <? length T)
                       && is_shift (map (papply p) (nth i T [])) (nth (side_image T p i) T [])) (seq 0 (length T))
  && nodupb (map (side_image T p) (seq 0 (length T)))
  && forallb (fun e => valid (fst e) && valid (snd e)) E
  && nodupb (map pcode E) && nodupb (map pcode (map (pmap p) E))
  && same_set (map pcode (map (pmap p) E)) (map pcode E).

Open Scope R_scope.

(** the renumbered cell: new corner [i] is old corner [papply p i]; the neighbour across new side
    slot [i] is the one that was across slot [side_image T p i] *)
Definition renum (P : nat -> vec) (p : perm) : nat -> vec := fun i => P (papply p i).
Definition renum_nb (T : list (list nat)) (nb : nat -> option vec) (p : perm) : nat -> option vec :=
  fun i => nb (side_image T p i).

(** ** cyclic shifts of a side *)
Lemma side_term_shift k center other a b c d :
  side_term k center other b c d a = side_term k center other a b c d.
Proof. unfold side_term. rewrite c4_shift. ring. Qed.

Lemma side_term_l_rot k center other (P : nat -> vec) l n :
  length l = 4%nat -> In n [0; 1; 2; 3]%nat ->
  side_term_l k center other (map P (rot_list n l)) = side_term_l k center other (map P l).
Proof.
  intros Hl Hn. destruct l as [|a [|b [|c [|d [|e l]]]]]; try discriminate.
  simpl in Hn. destruct Hn as [<-|[<-|[<-|[<-|[]]]]]; cbn [rot_list skipn firstn app map side_term_l].
  - reflexivity.
  - apply side_term_shift.
  - rewrite (side_term_shift k center other (P b) (P c) (P d) (P a)). apply side_term_shift.
  - rewrite (side_term_shift k center other (P c) (P d) (P a) (P b)).
    rewrite (side_term_shift k center other (P b) (P c) (P d) (P a)). apply side_term_shift.
Qed.

(** ** edges *)
Lemma pdecode_pcode a b : (a < 8)%nat -> (b < 8)%nat -> pdecode (pcode (a, b)) = (Nat.min a b, Nat.max a b).
Proof.
  intros Ha Hb.
  do 8 (destruct a as [|a]; [do 8 (destruct b as [|b]; [reflexivity|]); lia|]). lia.
Qed.

Lemma norm_vsub_sym u v : norm (vsub u v) = norm (vsub v u).
Proof.
  unfold norm. f_equal. destruct u as [[u1 u2] u3], v as [[v1 v2] v3].
  cbv [norm2 dot vsub vx vy vz fst snd]. ring.
Qed.

Lemma edge_len_code P a b : (a < 8)%nat -> (b < 8)%nat -> edge_len P (a, b) = edge_len P (pdecode (pcode (a, b))).
Proof.
  intros Ha Hb. rewrite pdecode_pcode by assumption. unfold edge_len. simpl.
  destruct (Nat.le_gt_cases a b).
  - rewrite Nat.min_l, Nat.max_r by lia. reflexivity.
  - rewrite Nat.min_r, Nat.max_l by lia. apply norm_vsub_sym.
Qed.

Lemma papply_valid p i : forallb valid p = true -> valid (papply p i) = true.
Proof.
  intros H. unfold papply. destruct (Nat.lt_ge_cases i (length p)).
  - rewrite forallb_forall in H. apply H. apply nth_In. assumption.
  - rewrite nth_overflow by assumption. reflexivity.
Qed.

Theorem hexq_renumber k T E p P nb :
  renum_ok T E p = true ->
  hexq k T E (renum P p) (renum_nb T nb p) = hexq k T E P nb.
Proof.
  unfold renum_ok. intros H.
  apply andb_true_iff in H; destruct H as [H Hsame].
  apply andb_true_iff in H; destruct H as [H HndE'].
  apply andb_true_iff in H; destruct H as [H HndE].
  apply andb_true_iff in H; destruct H as [H Hvalid].
  apply andb_true_iff in H; destruct H as [H Hnd].
  apply andb_true_iff in H; destruct H as [H Hsides].
  apply andb_true_iff in H; destruct H as [Hperm Hlen].
  unfold is_perm8 in Hperm. apply andb_true_iff in Hperm. destruct Hperm as [Hperm Hpv].
  apply andb_true_iff in Hperm. destruct Hperm as [Hpl Hpnd]. apply Nat.eqb_eq in Hpl.
  (* centre *)
  assert (Hc : centre8 (renum P p) = centre8 P).
  { unfold centre8. f_equal. unfold renum.
    rewrite <- (map_map (papply p) P). unfold papply.
    replace 8%nat with (length p) at 1 by assumption. rewrite map_nth_seq.
    apply vsum_perm. apply Permutation_map. apply c14_perm_seq; auto. }
  unfold hexq. rewrite Hc. f_equal.
  - (* sides *)
    set (term := fun j => side_term_l k (centre8 P) (nb j) (map P (nth j T []))).
    transitivity (rsum (map term (map (side_image T p) (seq 0 (length T))))).
    + f_equal. rewrite map_map. apply map_ext_in. intros i Hi.
      rewrite forallb_forall in Hsides. specialize (Hsides i Hi).
      apply andb_true_iff in Hsides. destruct Hsides as [Hlt Hsh]. apply Nat.ltb_lt in Hlt.
      unfold is_shift in Hsh. apply existsb_exists in Hsh. destruct Hsh as [n [Hn Heq]].
      apply list_beq_eq in Heq.
      unfold term, renum_nb. unfold renum. rewrite <- (map_map (papply p) P). rewrite <- Heq.
      apply side_term_l_rot; [|assumption].
      rewrite forallb_forall in Hlen. apply Nat.eqb_eq. apply Hlen. apply nth_In. assumption.
    + apply rsum_perm. apply Permutation_map. apply c14_perm_seq.
      * assumption.
      * rewrite map_length, seq_length. reflexivity.
      * rewrite forallb_forall. intros x Hx. apply in_map_iff in Hx. destruct Hx as [i [<- Hi]].
        rewrite forallb_forall in Hsides. specialize (Hsides i Hi). apply andb_true_iff in Hsides. tauto.
  - (* aspect: the multiset of measured lengths is unchanged *)
    assert (HP : Permutation (map (edge_len (renum P p)) E) (map (edge_len P) E)).
    { assert (E1 : map (edge_len (renum P p)) E = map (fun c => edge_len P (pdecode c)) (map pcode (map (pmap p) E))).
      { rewrite !map_map. apply map_ext_in. intros [a b] Hab.
        change (edge_len (renum P p) (a, b)) with (edge_len P (pmap p (a, b))).
        unfold pmap. simpl fst. simpl snd. apply edge_len_code.
        - pose proof (papply_valid p a Hpv) as V. unfold valid in V. apply Nat.ltb_lt in V. exact V.
        - pose proof (papply_valid p b Hpv) as V. unfold valid in V. apply Nat.ltb_lt in V. exact V. }
      assert (E2 : map (edge_len P) E = map (fun c => edge_len P (pdecode c)) (map pcode E)).
      { rewrite map_map. apply map_ext_in. intros [a b] Hab.
        rewrite forallb_forall in Hvalid. specialize (Hvalid (a, b) Hab). simpl in Hvalid.
        apply andb_true_iff in Hvalid. destruct Hvalid as [Va Vb]. unfold valid in Va, Vb.
        apply Nat.ltb_lt in Va. apply Nat.ltb_lt in Vb. apply edge_len_code; assumption. }
      rewrite E1, E2. apply Permutation_map. apply c14_perm_check; assumption. }
    unfold aspect. rewrite (lmax_perm _ _ HP), (lmin_perm _ _ HP). reflexivity.
Qed.

(** ** quadrilateral: cyclic renumbering *)
Definition edges_ok (E : list (nat * nat)) (p : perm) : bool :=
  forallb valid p && forallb (fun e => valid (fst e) && valid (snd e)) E
  && nodupb (map pcode E) && nodupb (map pcode (map (pmap p) E))
  && same_set (map pcode (map (pmap p) E)) (map pcode E).

Lemma aspect_renumber k E p P :
  edges_ok E p = true -> aspect k (map (edge_len (renum P p)) E) = aspect k (map (edge_len P) E).
Proof.
  unfold edges_ok. intros H.
  apply andb_true_iff in H; destruct H as [H Hsame].
  apply andb_true_iff in H; destruct H as [H HndE'].
  apply andb_true_iff in H; destruct H as [H HndE].
  apply andb_true_iff in H; destruct H as [Hpv Hvalid].
  assert (HP : Permutation (map (edge_len (renum P p)) E) (map (edge_len P) E)).
  { assert (E1 : map (edge_len (renum P p)) E = map (fun c => edge_len P (pdecode c)) (map pcode (map (pmap p) E))).
    { rewrite !map_map. apply map_ext_in. intros [a b] Hab.
      change (edge_len (renum P p) (a, b)) with (edge_len P (pmap p (a, b))).
      unfold pmap. simpl fst. simpl snd. apply edge_len_code.
      - pose proof (papply_valid p a Hpv) as V. unfold valid in V. apply Nat.ltb_lt in V. exact V.
      - pose proof (papply_valid p b Hpv) as V. unfold valid in V. apply Nat.ltb_lt in V. exact V. }
    assert (E2 : map (edge_len P) E = map (fun c => edge_len P (pdecode c)) (map pcode E)).
    { rewrite map_map. apply map_ext_in. intros [a b] Hab.
      rewrite forallb_forall in Hvalid. specialize (Hvalid (a, b) Hab). simpl in Hvalid.
      apply andb_true_iff in Hvalid. destruct Hvalid as [Va Vb]. unfold valid in Va, Vb.
      apply Nat.ltb_lt in Va. apply Nat.ltb_lt in Vb. apply edge_len_code; assumption. }
    rewrite E1, E2. apply Permutation_map. apply c14_perm_check; assumption. }
  unfold aspect. rewrite (lmax_perm _ _ HP), (lmin_perm _ _ HP). reflexivity.
Qed.

Definition quad_shift : perm := [1; 2; 3; 0]%nat.

Lemma quad_side_nscale k center other lam nrm prev a b :
  0 < lam -> quad_side k center other (vscale lam nrm) prev a b = quad_side k center other nrm prev a b.
Proof.
  intros Hl. unfold quad_side.
  replace (cross (vscale lam nrm) (vsub b a)) with (vscale lam (cross nrm (vsub b a))) by vec_ring.
  unfold unit at 1 3. rewrite norm_scale_pos by lra. rewrite vscale_vscale.
  replace (/ (lam * norm (cross nrm (vsub b a))) * lam) with (/ norm (cross nrm (vsub b a))).
  - reflexivity.
  - rewrite Rinv_mult. replace (/ lam * / norm (cross nrm (vsub b a)) * lam)
      with (/ norm (cross nrm (vsub b a)) * (/ lam * lam)) by ring. rewrite Rinv_l by lra. ring.
Qed.

(** the corner normals of a planar convex quadrilateral are positive multiples of each other; under
    that hypothesis (here for corners 0 and 1) the value is invariant under the cyclic renumbering
    0->1->2->3->0, the generator of the four orientation-preserving renumberings *)
Theorem quadq_renumber_shift k E P nb lam :
  edges_ok E quad_shift = true -> 0 < lam ->
  cross (vsub (P 2%nat) (P 1%nat)) (vsub (P 0%nat) (P 1%nat))
    = vscale lam (cross (vsub (P 1%nat) (P 0%nat)) (vsub (P 3%nat) (P 0%nat))) ->
  quadq k E (renum P quad_shift) (fun i => nb (papply quad_shift i)) = quadq k E P nb.
Proof.
  intros HE Hl Hn. unfold quadq. rewrite (aspect_renumber k E quad_shift P HE).
  unfold renum, quad_shift, papply. cbn [nth].
  rewrite Hn, c4_shift, !quad_side_nscale by assumption. ring.
Qed.

(** *** all four cyclic renumberings of a planar convex quadrilateral

    [pconvex P]: the corner normals at corners 1, 2, 3 are positive multiples of the corner normal
    at corner 0 (all four corners turn the same way, in one plane).  The renumbered quadrilateral
    [renum P (cyc j)] has corner [j] of [P] as its corner 0, so the normal [quadq] takes (at corner
    0) is the corner normal of [P] at corner [j]: a positive multiple of the original one, and a
    positive factor cancels in every unit vector ([quad_side_nscale]).  The four side terms are
    permuted cyclically and the measured lengths as a multiset are unchanged. *)
Definition corner_normal (P : nat -> vec) (i : nat) : vec :=
  cross (vsub (P ((i + 1) mod 4)%nat) (P i)) (vsub (P ((i + 3) mod 4)%nat) (P i)).

Definition pconvex (P : nat -> vec) : Prop :=
  exists l1 l2 l3, (0 < l1 /\ 0 < l2 /\ 0 < l3) /\
    let n0 := cross (vsub (P 1%nat) (P 0%nat)) (vsub (P 3%nat) (P 0%nat)) in
    cross (vsub (P 2%nat) (P 1%nat)) (vsub (P 0%nat) (P 1%nat)) = vscale l1 n0 /\
    cross (vsub (P 3%nat) (P 2%nat)) (vsub (P 1%nat) (P 2%nat)) = vscale l2 n0 /\
    cross (vsub (P 0%nat) (P 3%nat)) (vsub (P 2%nat) (P 3%nat)) = vscale l3 n0.

(** the symmetric reading: every corner normal is a positive multiple of one common vector *)
Definition pconvex_sym (P : nat -> vec) : Prop :=
  exists n m0 m1 m2 m3, (0 < m0 /\ 0 < m1 /\ 0 < m2 /\ 0 < m3) /\
    corner_normal P 0 = vscale m0 n /\ corner_normal P 1 = vscale m1 n
    /\ corner_normal P 2 = vscale m2 n /\ corner_normal P 3 = vscale m3 n.

Lemma vscale_1 v : vscale 1 v = v.
Proof. vec_ring. Qed.

Lemma pconvex_iff_sym P : pconvex P <-> pconvex_sym P.
Proof.
  unfold pconvex, pconvex_sym, corner_normal. cbn [Nat.add Nat.modulo Nat.divmod fst snd Nat.sub].
  split.
  - intros (l1 & l2 & l3 & (H1 & H2 & H3) & E1 & E2 & E3).
    exists (cross (vsub (P 1%nat) (P 0%nat)) (vsub (P 3%nat) (P 0%nat))), 1, l1, l2, l3.
    repeat split; try assumption; try lra. symmetry. apply vscale_1.
  - intros (n & m0 & m1 & m2 & m3 & (H0 & H1 & H2 & H3) & E0 & E1 & E2 & E3).
    exists (m1 / m0), (m2 / m0), (m3 / m0).
    split; [repeat split; apply Rdiv_lt_0_compat; assumption|].
    cbv zeta. rewrite E0, E1, E2, E3, !vscale_vscale.
    repeat split; f_equal; field; lra.
Qed.

Definition cyc (j : nat) : perm := map (fun i => (i + j) mod 4)%nat [0; 1; 2; 3]%nat.

(** the cyclically renumbered quadrilateral is again planar and convex (the notion does not
    depend on which corner is called 0) *)
Lemma pconvex_shift P : pconvex P -> pconvex (renum P quad_shift).
Proof.
  intros (l1 & l2 & l3 & (H1 & H2 & H3) & E1 & E2 & E3). cbv zeta in E1, E2, E3.
  unfold pconvex, renum, quad_shift, papply. cbn [nth].
  exists (l2 / l1), (l3 / l1), (/ l1).
  split; [repeat split; try (apply Rdiv_lt_0_compat; assumption); apply Rinv_0_lt_compat; assumption|].
  cbv zeta. rewrite E1, E2, E3, !vscale_vscale.
  repeat split.
  - f_equal. field. lra.
  - f_equal. field. lra.
  - rewrite Rinv_l by lra. symmetry. apply vscale_1.
Qed.

Lemma quadq_renumber_id k E P nb :
  edges_ok E (cyc 0) = true ->
  quadq k E (renum P (cyc 0)) (fun i => nb (papply (cyc 0) i)) = quadq k E P nb.
Proof.
  intros HE. unfold quadq. rewrite (aspect_renumber k E (cyc 0) P HE). reflexivity.
Qed.

Lemma quadq_renumber_shift2 k E P nb lam :
  edges_ok E (cyc 2) = true -> 0 < lam ->
  cross (vsub (P 3%nat) (P 2%nat)) (vsub (P 1%nat) (P 2%nat))
    = vscale lam (cross (vsub (P 1%nat) (P 0%nat)) (vsub (P 3%nat) (P 0%nat))) ->
  quadq k E (renum P (cyc 2)) (fun i => nb (papply (cyc 2) i)) = quadq k E P nb.
Proof.
  intros HE Hl Hn. unfold quadq. rewrite (aspect_renumber k E (cyc 2) P HE).
  change (cyc 2) with [2; 3; 0; 1]%nat. unfold renum, papply. cbn [nth].
  rewrite Hn, (c4_shift (P 1%nat) (P 2%nat) (P 3%nat) (P 0%nat)), (c4_shift (P 0%nat)),
    !quad_side_nscale by assumption.
  ring.
Qed.

Lemma quadq_renumber_shift3 k E P nb lam :
  edges_ok E (cyc 3) = true -> 0 < lam ->
  cross (vsub (P 0%nat) (P 3%nat)) (vsub (P 2%nat) (P 3%nat))
    = vscale lam (cross (vsub (P 1%nat) (P 0%nat)) (vsub (P 3%nat) (P 0%nat))) ->
  quadq k E (renum P (cyc 3)) (fun i => nb (papply (cyc 3) i)) = quadq k E P nb.
Proof.
  intros HE Hl Hn. unfold quadq. rewrite (aspect_renumber k E (cyc 3) P HE).
  change (cyc 3) with [3; 0; 1; 2]%nat. unfold renum, papply. cbn [nth].
  rewrite Hn, <- (c4_shift (P 3%nat) (P 0%nat) (P 1%nat) (P 2%nat)), !quad_side_nscale by assumption.
  ring.
Qed.

(** every cyclic renumbering, every planar convex quadrilateral, any weights, guards, neighbours;
    [E] any list of measured pairs that the four shifts map onto itself *)
Theorem quadq_renumber_cyclic k E P nb j :
  (j < 4)%nat -> forallb (fun i => edges_ok E (cyc i)) [0; 1; 2; 3]%nat = true -> pconvex P ->
  quadq k E (renum P (cyc j)) (fun i => nb (papply (cyc j) i)) = quadq k E P nb.
Proof.
  intros Hj HE (l1 & l2 & l3 & (H1 & H2 & H3) & E1 & E2 & E3). cbv zeta in E1, E2, E3.
  cbn [forallb] in HE.
  apply andb_true_iff in HE; destruct HE as [HE0 HE].
  apply andb_true_iff in HE; destruct HE as [HE1 HE].
  apply andb_true_iff in HE; destruct HE as [HE2 HE].
  apply andb_true_iff in HE; destruct HE as [HE3 _].
  destruct j as [|[|[|[|j]]]]; [| | | |lia].
  - apply quadq_renumber_id. exact HE0.
  - change (cyc 1) with quad_shift in *. apply (quadq_renumber_shift k E P nb l1 HE1 H1 E1).
  - apply (quadq_renumber_shift2 k E P nb l2 HE2 H2 E2).
  - apply (quadq_renumber_shift3 k E P nb l3 HE3 H3 E3).
Qed.

(** iterating the generator gives the same renumberings: [j] shifts by one are the shift by [j]
    (on the four corners), so the direct proof above and the iteration of [quadq_renumber_shift]
    with [pconvex_shift] agree *)
Lemma renum_cyc_compose P j i : (i < 4)%nat -> (j < 4)%nat ->
  renum (renum P (cyc j)) quad_shift i = renum P (cyc ((j + 1) mod 4)) i.
Proof.
  intros Hi Hj. unfold renum. f_equal.
  destruct j as [|[|[|[|j]]]]; [| | | |lia];
  (destruct i as [|[|[|[|i]]]]; [| | | |lia]); reflexivity.
Qed.

(** hypotheses are satisfiable: the unit square and a trapezoid (not a parallelogram) *)
Definition sq_pts : nat -> vec := pts [(0, 0, 0); (1, 0, 0); (1, 1, 0); (0, 1, 0)].
Definition trapezoid_pts : nat -> vec := pts [(0, 0, 0); (4, 0, 0); (3, 2, 0); (1, 2, 0)].
Example pconvex_square : pconvex sq_pts.
Proof.
  exists 1, 1, 1. split; [lra|]. cbv [sq_pts pts nth]. repeat split; vec_ring.
Qed.
Example pconvex_trapezoid : pconvex trapezoid_pts.
Proof.
  exists 1, (1 / 2), (1 / 2). split; [lra|]. cbv [trapezoid_pts pts nth]. repeat split; apply vec_eq; vec_simpl; field.
Qed.
(** and it is a real restriction: a folded (non-planar) quadrilateral is excluded *)
Example not_pconvex_folded : ~ pconvex (pts [(0, 0, 0); (1, 0, 0); (1, 1, 1); (0, 1, 0)]).
Proof.
  intros (l1 & l2 & l3 & (H1 & H2 & H3) & E1 & _). cbv [pts nth] in E1. cbv zeta in E1.
  revert E1. vec_simpl. intros E1. injection E1. intros. lra.
Qed.

(** ** the value depends on the measured pairs only as a set of unordered pairs *)
Definition edges_same (E E' : list (nat * nat)) : bool :=
  forallb (fun e => valid (fst e) && valid (snd e)) E && forallb (fun e => valid (fst e) && valid (snd e)) E'
  && nodupb (map pcode E) && nodupb (map pcode E') && same_set (map pcode E) (map pcode E').

Lemma lens_code P E : forallb (fun e => valid (fst e) && valid (snd e)) E = true ->
  map (edge_len P) E = map (fun c => edge_len P (pdecode c)) (map pcode E).
Proof.
  intros Hvalid. rewrite map_map. apply map_ext_in. intros [a b] Hab.
  rewrite forallb_forall in Hvalid. specialize (Hvalid (a, b) Hab). simpl in Hvalid.
  apply andb_true_iff in Hvalid. destruct Hvalid as [Va Vb]. unfold valid in Va, Vb.
  apply Nat.ltb_lt in Va. apply Nat.ltb_lt in Vb. apply edge_len_code; assumption.
Qed.

Lemma aspect_same_edges k E E' P : edges_same E E' = true ->
  aspect k (map (edge_len P) E) = aspect k (map (edge_len P) E').
Proof.
  unfold edges_same. intros H.
  apply andb_true_iff in H; destruct H as [H Hsame].
  apply andb_true_iff in H; destruct H as [H Hnd'].
  apply andb_true_iff in H; destruct H as [H Hnd].
  apply andb_true_iff in H; destruct H as [Hv Hv'].
  assert (HP : Permutation (map (edge_len P) E) (map (edge_len P) E')).
  { rewrite (lens_code P E Hv), (lens_code P E' Hv'). apply Permutation_map. apply c14_perm_check; assumption. }
  unfold aspect. rewrite (lmax_perm _ _ HP), (lmin_perm _ _ HP). reflexivity.
Qed.

Lemma hexq_same_edges k T E E' P nb : edges_same E E' = true -> hexq k T E P nb = hexq k T E' P nb.
Proof. intros H. unfold hexq. f_equal. apply aspect_same_edges. assumption. Qed.

(** ** without neighbours the value depends on the side table only up to the order of the sides
    and the starting corner of each side cycle *)
Definition side_slot (T' : list (list nat)) (l : list nat) : nat :=
  find_index (fun j => is_shift l (nth j T' [])) (seq 0 (length T')) (length T').

Definition sides_same (T T' : list (list nat)) : bool :=
  (length T =? length T')%nat
  && forallb (fun l => length l =? 4)%nat T'
  && forallb (fun i => (side_slot T' (nth i T []) <? length T')%nat
                       && is_shift (nth i T []) (nth (side_slot T' (nth i T [])) T' [])) (seq 0 (length T))
  && nodupb (map (fun i => side_slot T' (nth i T [])) (seq 0 (length T))).

Theorem hexq_same_sides_nb k T T' E P nb : sides_same T T' = true ->
  hexq k T E P (fun i => nb (side_slot T' (nth i T []))) = hexq k T' E P nb.
Proof.
  unfold sides_same. intros H.
  apply andb_true_iff in H; destruct H as [H Hnd].
  apply andb_true_iff in H; destruct H as [H Hsides].
  apply andb_true_iff in H; destruct H as [Hlen Hl4]. apply Nat.eqb_eq in Hlen.
  unfold hexq. f_equal.
  set (slot := fun i => side_slot T' (nth i T [])) in *.
  set (term := fun j => side_term_l k (centre8 P) (nb j) (map P (nth j T' []))).
  transitivity (rsum (map term (map slot (seq 0 (length T))))).
  - f_equal. rewrite map_map. apply map_ext_in. intros i Hi.
    rewrite forallb_forall in Hsides. specialize (Hsides i Hi).
    apply andb_true_iff in Hsides. destruct Hsides as [Hlt Hsh]. apply Nat.ltb_lt in Hlt.
    unfold is_shift in Hsh. apply existsb_exists in Hsh. destruct Hsh as [n [Hn Heq]].
    apply list_beq_eq in Heq. fold (slot i) in Heq. fold (slot i). unfold term. rewrite <- Heq.
    apply side_term_l_rot; [|assumption].
    rewrite forallb_forall in Hl4. apply Nat.eqb_eq. apply Hl4. apply nth_In. assumption.
  - apply rsum_perm. apply Permutation_map. apply c14_perm_seq.
    + assumption.
    + rewrite map_length, seq_length. assumption.
    + rewrite forallb_forall. intros x Hx. apply in_map_iff in Hx. destruct Hx as [i [<- Hi]].
      rewrite forallb_forall in Hsides. specialize (Hsides i Hi). apply andb_true_iff in Hsides. tauto.
Qed.

Corollary hexq_same_sides k T T' E P : sides_same T T' = true ->
  hexq k T E P none_nb = hexq k T' E P none_nb.
Proof. intros H. exact (hexq_same_sides_nb k T T' E P none_nb H). Qed.

(** the condition is satisfiable by tables that differ: sides reordered and rotated *)
Example sides_same_reordered :
  sides_same [[5; 4; 7; 6]; [1; 2; 3; 0]; [4; 0; 3; 7]; [7; 3; 2; 6]; [6; 2; 1; 5]; [4; 5; 1; 0]]%nat ref_T = true.
Proof. vm_compute. reflexivity. Qed.
