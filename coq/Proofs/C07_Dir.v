(** C07 - reversal and symmetry theorems for the real-valued side (all reals; nothing here depends on
    coq/Gen): a point-list edge written with both its vertices and its points reversed is the same
    curve and has the same length; eligibility does not depend on the order of the vertices; a
    collinear third point, coincident end vertices and lines are never eligible; an eligible arc has a
    finite circle; the sense of an arc flips when its end points are swapped. *)
From Coq Require Import Reals Lra Psatz List.
From CB Require Import Base.Vec3 Model.C07_Dir.
Import ListNotations.
Open Scope R_scope.

Ltac vdestruct :=
  repeat match goal with v : vec |- _ => let x := fresh "x" in let y := fresh "y" in let z := fresh "z" in
                                          destruct v as [[x y] z] end.
Ltac vcbv := cbv [dist norm norm2 dot cross vsub vadd vopp vscale vx vy vz fst snd collinearity bulge].

Lemma dist_sym p q : dist p q = dist q p.
Proof. vdestruct. vcbv. f_equal. ring. Qed.

Lemma dist_nonneg p q : 0 <= dist p q.
Proof. unfold dist. apply norm_nonneg. Qed.

Lemma dist_self p : dist p p = 0.
Proof.
  vdestruct. vcbv.
  replace ((x - x) * (x - x) + (y - y) * (y - y) + (z - z) * (z - z)) with 0 by ring. apply sqrt_0.
Qed.

(** * polyline length *)
Lemma plen_cons2 p q r : plen (p :: q :: r) = dist p q + plen (q :: r).
Proof. reflexivity. Qed.

Lemma plen_snoc l : forall q p, plen ((l ++ [q]) ++ [p]) = plen (l ++ [q]) + dist q p.
Proof.
  induction l as [|x l IH]; intros q p.
  - simpl. ring.
  - destruct l as [|y l].
    + simpl. ring.
    + specialize (IH q p). rewrite <- !app_comm_cons in IH. rewrite <- !app_comm_cons.
      rewrite !plen_cons2. rewrite IH. ring.
Qed.

Theorem plen_rev l : plen (rev l) = plen l.
Proof.
  destruct l as [|p l]; [reflexivity|]. revert p.
  induction l as [|q r IH]; intro p; [reflexivity|].
  change (rev (p :: q :: r)) with ((rev r ++ [q]) ++ [p]).
  rewrite plen_snoc. change (rev r ++ [q]) with (rev (q :: r)). rewrite IH.
  rewrite plen_cons2, (dist_sym p q). ring.
Qed.

Lemma drawn_rev v1 pts v2 : rev (drawn v1 pts v2) = drawn v2 (rev pts) v1.
Proof. unfold drawn. simpl. rewrite rev_app_distr. reflexivity. Qed.

(** the written entry (v1, v2, wpts) describes the user's curve (s, pts, e) when it lists it forwards
    or completely backwards *)
Definition describes (s : vec) (pts : list vec) (e v1 : vec) (wpts : list vec) (v2 : vec) : Prop :=
  (v1 = s /\ v2 = e /\ wpts = pts) \/ (v1 = e /\ v2 = s /\ wpts = rev pts).

Theorem describes_same_curve s pts e v1 wpts v2 :
  describes s pts e v1 wpts v2 ->
  drawn v1 wpts v2 = drawn s pts e \/ drawn v1 wpts v2 = rev (drawn s pts e).
Proof.
  intros [(A & B & C) | (A & B & C)]; subst; [left; reflexivity | right].
  rewrite drawn_rev. reflexivity.
Qed.

Theorem describes_same_length s pts e v1 wpts v2 :
  describes s pts e v1 wpts v2 -> spline_length v1 wpts v2 = spline_length s pts e.
Proof.
  intro H. unfold spline_length. fold (drawn v1 wpts v2). fold (drawn s pts e).
  destruct (describes_same_curve _ _ _ _ _ _ H) as [E | E]; rewrite E; [reflexivity | apply plen_rev].
Qed.

Example describes_example :
  describes (0, 0, 0) [(1, 0, 0); (2, 1, 0)] (3, 1, 0) (3, 1, 0) [(2, 1, 0); (1, 0, 0)] (0, 0, 0).
Proof. right. repeat split; reflexivity. Qed.

(** * eligibility *)
Lemma collinearity_sym v1 p3 v2 : collinearity v1 p3 v2 = collinearity v2 p3 v1.
Proof. vdestruct. vcbv. f_equal. ring. Qed.

Theorem eligible_sym tol k v1 p3 v2 : eligible tol k v1 p3 v2 <-> eligible tol k v2 p3 v1.
Proof.
  destruct k; simpl; unfold far, noncollinear;
    rewrite ?(dist_sym v1 v2), ?(collinearity_sym v1 p3 v2); tauto.
Qed.

Theorem line_not_eligible tol v1 p3 v2 : ~ eligible tol KLine v1 p3 v2.
Proof. simpl. tauto. Qed.

Theorem coincident_not_eligible tol k v p3 : 0 < tol -> ~ eligible tol k v p3 v.
Proof.
  intros Ht H. destruct k; simpl in H; unfold far in H; rewrite ?dist_self in H; tauto.
Qed.

Lemma collinearity_on_line v1 v2 lam :
  collinearity v1 (vadd v1 (vscale lam (vsub v2 v1))) v2 = 0.
Proof.
  vdestruct. vcbv.
  match goal with |- sqrt ?e = 0 => replace e with 0 by ring end. apply sqrt_0.
Qed.

Theorem collinear_not_eligible tol v1 v2 lam :
  0 <= tol -> ~ eligible tol KArc3 v1 (vadd v1 (vscale lam (vsub v2 v1))) v2.
Proof.
  intros Ht [_ H]. unfold noncollinear in H. rewrite collinearity_on_line, Rabs_R0 in H. lra.
Qed.

(** an eligible arc has a finite circle: the denominator of the circumcentre formula used by
    blockMesh and by functions.arc_length_3point, |a|^2 |b|^2 - (a.b)^2 with a = p3 - v1, b = v2 - v1,
    is positive *)
Lemma collinearity_sq v1 p3 v2 :
  collinearity v1 p3 v2 * collinearity v1 p3 v2 =
  dot (vsub p3 v1) (vsub p3 v1) * dot (vsub v2 v1) (vsub v2 v1)
  - dot (vsub p3 v1) (vsub v2 v1) * dot (vsub p3 v1) (vsub v2 v1).
Proof.
  unfold collinearity. rewrite norm_sq. vdestruct. vcbv. ring.
Qed.

Theorem eligible_arc_has_circle tol v1 p3 v2 :
  0 <= tol -> eligible tol KArc3 v1 p3 v2 ->
  0 < dot (vsub p3 v1) (vsub p3 v1) * dot (vsub v2 v1) (vsub v2 v1)
      - dot (vsub p3 v1) (vsub v2 v1) * dot (vsub p3 v1) (vsub v2 v1).
Proof.
  intros Ht [_ H]. unfold noncollinear in H. rewrite <- collinearity_sq.
  assert (0 <= collinearity v1 p3 v2) as P by (unfold collinearity; apply norm_nonneg).
  rewrite Rabs_pos_eq in H by exact P. nra.
Qed.

Example eligible_example : eligible (1 / 10000000) KArc3 (0, 0, 0) (1, 1, 0) (2, 0, 0).
Proof.
  simpl. unfold far, noncollinear, collinearity, dist. vcbv. split.
  - intro H.
    replace ((0 - 2) * (0 - 2) + (0 - 0) * (0 - 0) + (0 - 0) * (0 - 0)) with (2 * 2) in H by ring.
    rewrite sqrt_square in H by lra. lra.
  - match goal with |- _ < Rabs (sqrt ?e) => replace e with (2 * 2) by ring end.
    rewrite sqrt_square by lra. rewrite Rabs_pos_eq by lra. lra.
Qed.

(** introduction forms used by the per-case correspondence goals (plain real inequalities that
    [interval] can decide) *)
Lemma eligible_other_intro tol v1 p3 v2 : tol <= dist v1 v2 -> eligible tol KOther v1 p3 v2.
Proof. simpl. unfold far. lra. Qed.

Lemma eligible_arc_intro tol v1 p3 v2 :
  tol <= dist v1 v2 -> tol < collinearity v1 p3 v2 -> eligible tol KArc3 v1 p3 v2.
Proof.
  intros A B. simpl. unfold far, noncollinear. split; [lra|].
  rewrite Rabs_pos_eq; [exact B | unfold collinearity; apply norm_nonneg].
Qed.

Lemma not_eligible_near tol k v1 p3 v2 : dist v1 v2 < tol -> ~ eligible tol k v1 p3 v2.
Proof. intros A H. destruct k; simpl in H; unfold far in H; tauto. Qed.

Lemma not_eligible_collinear tol v1 p3 v2 : collinearity v1 p3 v2 <= tol -> ~ eligible tol KArc3 v1 p3 v2.
Proof.
  intros A [_ H]. unfold noncollinear in H.
  rewrite Rabs_pos_eq in H; [lra | unfold collinearity; apply norm_nonneg].
Qed.

(** * sense of an arc *)
Theorem bulge_swap p1 p2 t a : bulge p2 p1 t a = - bulge p1 p2 t a.
Proof. vdestruct. vcbv. ring. Qed.

Theorem bulge_axis_opp p1 p2 t a : bulge p1 p2 t (vopp a) = - bulge p1 p2 t a.
Proof. vdestruct. vcbv. ring. Qed.

(** meaning of the sign: on a genuine circular arc about the unit axis [a] (right-handed orthonormal
    frame u, v, a; centre c; radius r; half angle h: p1 = c + r u, t = c + r (cos h u + sin h v),
    p2 = c + r (cos 2h u + sin 2h v)) the bulge is 2 r^2 sin h (1 - cos h): it has the sign of the
    rotation angle 2h for |2h| < 2 pi *)
Theorem bulge_of_arc (c u v a : vec) (r ch sh : R) :
  dot u u = 1 -> dot v v = 1 -> dot u v = 0 -> cross u a = vopp v -> cross v a = u ->
  ch * ch + sh * sh = 1 ->
  let p1 := vadd c (vscale r u) in
  let t := vadd c (vscale r (vadd (vscale ch u) (vscale sh v))) in
  let p2 := vadd c (vscale r (vadd (vscale (ch * ch - sh * sh) u) (vscale (2 * sh * ch) v))) in
  bulge p1 p2 t a = 2 * (r * r) * sh * (1 - ch).
Proof.
  intros Huu Hvv Huv Hua Hva Hcs p1 t p2. subst p1 t p2.
  destruct c as [[c1 c2] c3], u as [[u1 u2] u3], v as [[v1 v2] v3], a as [[a1 a2] a3].
  cbv [cross vopp vx vy vz fst snd] in Hua, Hva.
  injection Hua as Hua1 Hua2 Hua3. injection Hva as Hva1 Hva2 Hva3.
  cbv [dot vx vy vz fst snd] in Huu, Hvv, Huv.
  vcbv.
  (* replace (p2 - p1) x a using linearity: r ((cos2h - 1) (u x a) + sin2h (v x a)) *)
  replace ((c2 + r * ((ch * ch - sh * sh) * u2 + 2 * sh * ch * v2) - (c2 + r * u2)) * a3 -
           (c3 + r * ((ch * ch - sh * sh) * u3 + 2 * sh * ch * v3) - (c3 + r * u3)) * a2)
    with (r * ((ch * ch - sh * sh - 1) * (u2 * a3 - u3 * a2) + 2 * sh * ch * (v2 * a3 - v3 * a2))) by ring.
  replace ((c3 + r * ((ch * ch - sh * sh) * u3 + 2 * sh * ch * v3) - (c3 + r * u3)) * a1 -
           (c1 + r * ((ch * ch - sh * sh) * u1 + 2 * sh * ch * v1) - (c1 + r * u1)) * a3)
    with (r * ((ch * ch - sh * sh - 1) * (u3 * a1 - u1 * a3) + 2 * sh * ch * (v3 * a1 - v1 * a3))) by ring.
  replace ((c1 + r * ((ch * ch - sh * sh) * u1 + 2 * sh * ch * v1) - (c1 + r * u1)) * a2 -
           (c2 + r * ((ch * ch - sh * sh) * u2 + 2 * sh * ch * v2) - (c2 + r * u2)) * a1)
    with (r * ((ch * ch - sh * sh - 1) * (u1 * a2 - u2 * a1) + 2 * sh * ch * (v1 * a2 - v2 * a1))) by ring.
  rewrite Hua1, Hua2, Hua3, Hva1, Hva2, Hva3.
  (* what is left is a polynomial identity modulo |u| = |v| = 1, u.v = 0, ch^2 + sh^2 = 1 *)
  set (UU := u1 * u1 + u2 * u2 + u3 * u3) in *.
  set (VV := v1 * v1 + v2 * v2 + v3 * v3) in *.
  set (UV := u1 * v1 + u2 * v2 + u3 * v3) in *.
  transitivity (r * r * ((ch - (1 + (ch * ch - sh * sh)) / 2) * (2 * sh * ch) * UU
                         + (sh - (2 * sh * ch) / 2) * (1 - (ch * ch - sh * sh)) * VV
                         + ((ch - (1 + (ch * ch - sh * sh)) / 2) * (1 - (ch * ch - sh * sh))
                            + (sh - (2 * sh * ch) / 2) * (2 * sh * ch)) * UV)).
  { subst UU VV UV. field. }
  rewrite Huu, Hvv, Huv.
  replace (sh * sh) with (1 - ch * ch) by lra.
  assert (S3 : sh * (1 - ch * ch) = sh * sh * sh) by (replace (1 - ch * ch) with (sh * sh) by lra; ring).
  nra.
Qed.

Example bulge_of_arc_example :
  bulge (1, 0, 0) (0, 1, 0) (/ sqrt 2, / sqrt 2, 0) (0, 0, 1) = (/ sqrt 2 + / sqrt 2 - 1).
Proof. vcbv. field. apply Rgt_not_eq. apply sqrt_lt_R0. lra. Qed.
