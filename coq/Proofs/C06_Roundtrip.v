(** C06 - the parser of Model/C06_Render.v reads back every well-formed abstract file from its
    rendering: [parse (render f) = Some f]. *)
From Coq Require Import List Bool Arith ZArith QArith String Lia.
From CB Require Import Model.C06_Render.
Import ListNotations.
Open Scope nat_scope.

(** * Well-formedness of names and opaque token sequences (Appendix B of DESIGN.md) *)
Definition no_sc (p : list tok) : bool := forallb (fun t => negb (is_sc t)) p.
(** a geometry property: no [;], does not start with [}] *)
Definition prop_ok (p : list tok) : bool :=
  no_sc p && match p with t :: _ => negb (is_rb t) | [] => true end.
(** a patch setting: no [;], does not start with the keyword [faces] *)
Definition setting_ok (p : list tok) : bool :=
  no_sc p && match p with t :: _ => negb (is_word "faces" t) | [] => true end.
Definition top_entry_ok (e : entry) : bool :=
  no_sc (snd e) && negb (String.eqb (fst e) "geometry") && negb (String.eqb (fst e) "vertices").
Definition header_entry_ok (e : entry) : bool := no_sc (snd e).

Definition wf_afile (f : afile) : bool :=
  forallb header_entry_ok (f_header f)
  && forallb top_entry_ok (f_settings f)
  && forallb (fun g => forallb prop_ok (snd g)) (f_geometry f)
  && forallb (fun p => forallb setting_ok (p_settings p)) (f_patches f).

Ltac norm_app := repeat (first [rewrite <- app_assoc | progress (cbn [app])]).

(** * Generic lemmas *)
Lemma until_sc_app p r : no_sc p = true -> until_sc (p ++ SC :: r) = Some (p, r).
Proof.
  induction p as [|t p IH]; simpl; intro H; [reflexivity|].
  apply andb_true_iff in H. destruct H as [Ht Hp]. rewrite (IH Hp).
  destruct t; simpl in Ht; try discriminate; reflexivity.
Qed.

Lemma words_until_rp_app ls r : words_until_rp (map W ls ++ RP :: r) = Some (ls, r).
Proof. induction ls as [|s ls IH]; simpl; [reflexivity|]. rewrite IH. reflexivity. Qed.

Lemma nat_of_tok_Nn n : nat_of_tok (Nn n) = Some n.
Proof.
  unfold nat_of_tok, Nn, inject_Z. simpl.
  assert (H : (0 <=? Z.of_nat n)%Z = true) by (apply Z.leb_le; lia).
  rewrite H. rewrite Nat2Z.id. reflexivity.
Qed.

Lemma nats_until_rp_app l r : nats_until_rp (map Nn l ++ RP :: r) = Some (l, r).
Proof.
  induction l as [|n l IH]; [reflexivity|].
  change (map Nn (n :: l) ++ RP :: r) with (Nn n :: (map Nn l ++ RP :: r)).
  unfold nats_until_rp; fold nats_until_rp.
  assert (Hn := nat_of_tok_Nn n). unfold Nn in *. rewrite Hn. rewrite IH. reflexivity.
Qed.

Lemma triples_until_rp_app l r : triples_until_rp (flat_map r_triple l ++ RP :: r) = Some (l, r).
Proof.
  induction l as [|[[a b] c] l IH]; [reflexivity|].
  simpl. rewrite IH. reflexivity.
Qed.

Section ManyLemma.
  Variable A : Type.
  Variable p : parser A.
  Variable stop : tok -> bool.
  Variable rend : A -> list tok.
  Variable ok : A -> Prop.
  Hypothesis p_rend : forall x r, ok x -> p (rend x ++ r) = Some (x, r).
  Hypothesis rend_head : forall x, ok x -> exists t l, rend x = t :: l /\ stop t = false.

  Lemma many_step fuel ts t l x r :
    ts = t :: l -> stop t = false -> p ts = Some (x, r) ->
    many p stop (S fuel) ts = match many p stop fuel r with Some (xs, r') => Some (x :: xs, r') | None => None end.
  Proof. intros E Hs Hp. subst ts. simpl. rewrite Hs. simpl in Hp. rewrite Hp. reflexivity. Qed.

  Lemma many_app xs : Forall ok xs -> forall fuel t r, List.length xs < fuel -> stop t = true ->
    many p stop fuel (flat_map rend xs ++ t :: r) = Some (xs, t :: r).
  Proof.
    induction 1 as [|x xs Hx Hxs IH]; intros fuel t r Hf Ht.
    - destruct fuel; [lia|]. simpl. rewrite Ht. reflexivity.
    - destruct fuel; [simpl in Hf; lia|].
      simpl flat_map. rewrite <- app_assoc.
      destruct (rend_head x Hx) as (t0 & l0 & E & Hs).
      rewrite (many_step fuel _ t0 (l0 ++ flat_map rend xs ++ t :: r) x (flat_map rend xs ++ t :: r)).
      + rewrite (IH fuel t r); [reflexivity| simpl in Hf; lia | exact Ht].
      + rewrite E. reflexivity.
      + exact Hs.
      + apply p_rend. exact Hx.
  Qed.
End ManyLemma.

(** * Items *)
Lemma p_entry_ok e r : no_sc (snd e) = true -> p_entry (r_entry e ++ r) = Some (e, r).
Proof.
  destruct e as [k v]. simpl. intro H. rewrite <- app_assoc. simpl.
  rewrite (until_sc_app v r H). reflexivity.
Qed.

Lemma p_prop_ok p r : no_sc p = true -> p_prop (r_prop p ++ r) = Some (p, r).
Proof. intro H. unfold p_prop, r_prop. rewrite <- app_assoc. simpl. apply until_sc_app. exact H. Qed.

Lemma p_vec_ok v r : p_vec (r_vec v ++ r) = Some (v, r).
Proof. destruct v as [[x y] z]. reflexivity. Qed.

Lemma p_vertex_ok v r : p_vertex (r_vertex v ++ r) = Some (v, r).
Proof.
  destruct v as [pos ls]. unfold r_vertex. simpl v_labels. simpl v_pos.
  destruct ls as [|l ls].
  - destruct pos as [[x y] z]. reflexivity.
  - destruct pos as [[x y] z]. cbn [r_vec app p_vertex String.eqb Ascii.eqb Bool.eqb].
    cbn [p_vec]. rewrite <- app_assoc.
    change ([RP] ++ r) with (RP :: r).
    rewrite words_until_rp_app. reflexivity.
Qed.

Lemma p_gspec_ok g r : p_gspec (r_gspec g ++ r) = Some (g, r).
Proof.
  destruct g as [e|l]; [reflexivity|].
  simpl. rewrite <- app_assoc. simpl. rewrite triples_until_rp_app. reflexivity.
Qed.

Lemma r_gspec_head g : exists t l, r_gspec g = t :: l /\ is_rp t = false.
Proof. destruct g; simpl; eauto. Qed.

Lemma p_quad_ok qd r : p_quad (r_quad qd ++ r) = Some (qd, r).
Proof. unfold r_quad, p_quad. simpl. rewrite <- app_assoc. simpl. apply nats_until_rp_app. Qed.

Lemma p_face_ok f r : p_face (r_face f ++ r) = Some (f, r).
Proof.
  destruct f as [qd l]. unfold r_face. simpl fst. simpl snd.
  cbn [app p_face String.eqb Ascii.eqb Bool.eqb]. rewrite <- app_assoc.
  rewrite p_quad_ok. reflexivity.
Qed.

Lemma p_pair_ok p r : p_pair (r_pair p ++ r) = Some (p, r).
Proof. destruct p. reflexivity. Qed.

Lemma p_block_ok b r fuel : List.length (b_gspecs b) < fuel -> p_block fuel (r_block b ++ r) = Some (b, r).
Proof.
  destruct b as [vids zone counts kw gs]. intro Hf. simpl in Hf.
  unfold r_block. simpl b_vids. simpl b_zone. simpl b_counts. simpl b_gkw. simpl b_gspecs.
  cbn [app p_block String.eqb Ascii.eqb Bool.eqb].
  norm_app. rewrite nats_until_rp_app.
  assert (Hg : many p_gspec is_rp fuel (flat_map r_gspec gs ++ RP :: r) = Some (gs, RP :: r)).
  { apply (many_app gspec p_gspec is_rp r_gspec (fun _ => True)).
    - intros. apply p_gspec_ok.
    - intros. apply r_gspec_head.
    - apply Forall_forall. auto.
    - exact Hf.
    - reflexivity. }
  destruct zone as [z|]; cbn [r_zone app]; norm_app; rewrite nats_until_rp_app; norm_app; rewrite Hg; reflexivity.
Qed.

Lemma setting_head s : setting_ok s = true -> exists t l, r_prop s = t :: l /\ is_word "faces" t = false.
Proof.
  unfold setting_ok, r_prop. intro H. apply andb_true_iff in H. destruct H as [_ H].
  destruct s as [|t s]; simpl.
  - eexists. eexists. split; reflexivity.
  - exists t, (s ++ [SC]). split; [reflexivity|]. apply negb_true_iff in H. exact H.
Qed.

Lemma prop_head s : prop_ok s = true -> exists t l, r_prop s = t :: l /\ is_rb t = false.
Proof.
  unfold prop_ok, r_prop. intro H. apply andb_true_iff in H. destruct H as [_ H].
  destruct s as [|t s]; simpl.
  - eexists. eexists. split; reflexivity.
  - exists t, (s ++ [SC]). split; [reflexivity|]. apply negb_true_iff in H. exact H.
Qed.

Lemma p_patch_ok p r fuel :
  forallb setting_ok (p_settings p) = true ->
  List.length (p_settings p) < fuel -> List.length (p_quads p) < fuel ->
  p_patch fuel (r_patch p ++ r) = Some (p, r).
Proof.
  destruct p as [n k ss qs]. simpl p_settings. simpl p_quads. intros Hs Hf1 Hf2.
  unfold r_patch. simpl p_name. simpl p_kind. simpl p_settings. simpl p_quads.
  cbn [app p_patch String.eqb Ascii.eqb Bool.eqb]. norm_app.
  rewrite (many_app _ p_prop (is_word "faces") r_prop (fun s => setting_ok s = true)).
  - norm_app. rewrite (many_app _ p_quad is_rp r_quad (fun _ => True)).
    + reflexivity.
    + intros. apply p_quad_ok.
    + intros. unfold r_quad. eexists. eexists. split; reflexivity.
    + apply Forall_forall. auto.
    + exact Hf2.
    + reflexivity.
  - intros x r0 Hx. apply p_prop_ok. unfold setting_ok in Hx. apply andb_true_iff in Hx. tauto.
  - intros. apply setting_head. assumption.
  - apply Forall_forall. intros x Hx. rewrite forallb_forall in Hs. auto.
  - exact Hf1.
  - reflexivity.
Qed.

Lemma p_geom_ok g r fuel :
  forallb prop_ok (snd g) = true -> List.length (snd g) < fuel ->
  p_geom fuel (r_geom g ++ r) = Some (g, r).
Proof.
  destruct g as [n ps]. simpl snd. intros Hs Hf. unfold r_geom. simpl fst. simpl snd.
  cbn [app p_geom]. norm_app.
  rewrite (many_app _ p_prop is_rb r_prop (fun s => prop_ok s = true)).
  - reflexivity.
  - intros x r0 Hx. apply p_prop_ok. unfold prop_ok in Hx. apply andb_true_iff in Hx. tauto.
  - intros. apply prop_head. assumption.
  - apply Forall_forall. intros x Hx. rewrite forallb_forall in Hs. auto.
  - exact Hf.
  - reflexivity.
Qed.

(** * Sections *)
Lemma p_list_ok {A} kw (p : parser A) (rend : A -> list tok) (ok : A -> Prop) xs fuel r :
  (forall x r, ok x -> p (rend x ++ r) = Some (x, r)) ->
  (forall x, ok x -> exists t l, rend x = t :: l /\ is_rp t = false) ->
  Forall ok xs -> List.length xs < fuel ->
  p_list kw p fuel (W kw :: LP :: flat_map rend xs ++ RP :: SC :: r) = Some (xs, r).
Proof.
  intros H1 H2 Hall Hf. unfold p_list. rewrite String.eqb_refl.
  rewrite (many_app A p is_rp rend ok H1 H2 xs Hall fuel RP (SC :: r) Hf eq_refl). reflexivity.
Qed.

(** the largest number of items of any list of the file *)
Definition max_list (l : list nat) : nat := fold_right Nat.max 0 l.
Definition items_bound (f : afile) : nat :=
  max_list ([List.length (f_header f); List.length (f_settings f); List.length (f_geometry f);
             List.length (f_vertices f); List.length (f_blocks f); List.length (f_faces f);
             List.length (f_patches f); List.length (f_merged f)]
            ++ map (fun g => List.length (snd g)) (f_geometry f)
            ++ map (fun b => List.length (b_gspecs b)) (f_blocks f)
            ++ map (fun p => List.length (p_settings p)) (f_patches f)
            ++ map (fun p => List.length (p_quads p)) (f_patches f)).

Lemma max_list_in x l : In x l -> x <= max_list l.
Proof. induction l as [|y l IH]; simpl; [tauto|]. intros [->|H]; [lia|]. specialize (IH H). lia. Qed.

Lemma in_bound (f : afile) x fuel l1 l2 :
  items_bound f < fuel ->
  items_bound f = max_list (l1 ++ x :: l2) -> x < fuel.
Proof. intros Hf E. assert (x <= max_list (l1 ++ x :: l2)) by (apply max_list_in, in_or_app; right; left; reflexivity). lia. Qed.

Lemma bound_top f fuel : items_bound f < fuel ->
  List.length (f_header f) < fuel /\ List.length (f_settings f) < fuel /\ List.length (f_geometry f) < fuel
  /\ List.length (f_vertices f) < fuel /\ List.length (f_blocks f) < fuel /\ List.length (f_faces f) < fuel
  /\ List.length (f_patches f) < fuel /\ List.length (f_merged f) < fuel.
Proof.
  intro H. unfold items_bound in H.
  repeat split; (eapply Nat.le_lt_trans; [|exact H]); apply max_list_in; simpl; tauto.
Qed.

Lemma bound_geom f fuel g : items_bound f < fuel -> In g (f_geometry f) -> List.length (snd g) < fuel.
Proof.
  intros H Hg. eapply Nat.le_lt_trans; [|exact H]. apply max_list_in. unfold items_bound.
  apply in_or_app. right. apply in_or_app. left. apply in_map_iff. exists g. auto.
Qed.
Lemma bound_block f fuel b : items_bound f < fuel -> In b (f_blocks f) -> List.length (b_gspecs b) < fuel.
Proof.
  intros H Hg. eapply Nat.le_lt_trans; [|exact H]. apply max_list_in. unfold items_bound.
  apply in_or_app. right. apply in_or_app. right. apply in_or_app. left. apply in_map_iff. exists b. auto.
Qed.
Lemma bound_patch f fuel p : items_bound f < fuel -> In p (f_patches f) ->
  List.length (p_settings p) < fuel /\ List.length (p_quads p) < fuel.
Proof.
  intros H Hg. split; (eapply Nat.le_lt_trans; [|exact H]); apply max_list_in; unfold items_bound;
  apply in_or_app; right; apply in_or_app; right; apply in_or_app; right; apply in_or_app; [left|right];
  apply in_map_iff; exists p; auto.
Qed.

Lemma p_geometry_ok f fuel r :
  items_bound f < fuel -> forallb (fun g => forallb prop_ok (snd g)) (f_geometry f) = true ->
  p_geometry fuel (r_geometry (f_geometry f) ++ W "vertices" :: r) = Some (f_geometry f, W "vertices" :: r).
Proof.
  intros Hb Hw. destruct (f_geometry f) as [|g gs] eqn:E; [reflexivity|].
  unfold r_geometry. cbn [app p_geometry String.eqb Ascii.eqb Bool.eqb]. norm_app.
  rewrite (many_app _ (p_geom fuel) is_rb r_geom
             (fun g => forallb prop_ok (snd g) = true /\ List.length (snd g) < fuel)).
  - reflexivity.
  - intros x r0 [Hx1 Hx2]. apply p_geom_ok; assumption.
  - intros x _. unfold r_geom. eexists. eexists. split; reflexivity.
  - apply Forall_forall. intros x Hx. split.
    + rewrite forallb_forall in Hw. apply Hw. exact Hx.
    + apply (bound_geom f); [exact Hb| rewrite E; exact Hx].
  - rewrite <- E. apply (bound_top f fuel Hb).
  - reflexivity.
Qed.

Lemma geometry_head gs r :
  exists t l, r_geometry gs ++ W "vertices" :: r = t :: l /\ is_section_start t = true.
Proof. destruct gs; simpl; eexists; eexists; split; reflexivity. Qed.

Lemma p_default_ok d r :
  p_default (r_default d ++ W "mergePatchPairs" :: r) = Some (d, W "mergePatchPairs" :: r).
Proof. destruct d as [[n k]|]; reflexivity. Qed.

Theorem roundtrip_with f fuel :
  wf_afile f = true -> items_bound f < fuel -> parse_with fuel (render f) = Some f.
Proof.
  intros Hwf Hb. unfold wf_afile in Hwf.
  apply andb_true_iff in Hwf. destruct Hwf as [Hwf Hw4].
  apply andb_true_iff in Hwf. destruct Hwf as [Hwf Hw3].
  apply andb_true_iff in Hwf. destruct Hwf as [Hw1 Hw2].
  destruct (bound_top f fuel Hb) as (B1 & B2 & B3 & B4 & B5 & B6 & B7 & B8).
  unfold render, parse_with. rewrite String.eqb_refl.
  (* header *)
  rewrite (many_app _ p_entry is_rb r_entry (fun e => header_entry_ok e = true)); cycle 1.
  { intros x r0 Hx. apply p_entry_ok. exact Hx. }
  { intros x _. unfold r_entry. eexists. eexists. split; reflexivity. }
  { apply Forall_forall. intros x Hx. rewrite forallb_forall in Hw1. auto. }
  { exact B1. }
  { reflexivity. }
  (* settings: the stop token is the keyword that follows *)
  assert (Hset : forall t r0, is_section_start t = true ->
            many p_entry is_section_start fuel (flat_map r_entry (f_settings f) ++ t :: r0) = Some (f_settings f, t :: r0)).
  { intros t r0 Ht. apply (many_app _ p_entry is_section_start r_entry (fun e => top_entry_ok e = true)).
    - intros x r1 Hx. apply p_entry_ok. unfold top_entry_ok in Hx.
      apply andb_true_iff in Hx. destruct Hx as [Hx _]. apply andb_true_iff in Hx. tauto.
    - intros x Hx. unfold r_entry. eexists. eexists. split; [reflexivity|].
      unfold top_entry_ok in Hx. apply andb_true_iff in Hx. destruct Hx as [Hx H2].
      apply andb_true_iff in Hx. destruct Hx as [_ H1].
      unfold is_section_start, is_word. apply negb_true_iff in H1, H2. rewrite H1, H2. reflexivity.
    - apply Forall_forall. intros x Hx. rewrite forallb_forall in Hw2. auto.
    - exact B2.
    - exact Ht. }
  destruct (geometry_head (f_geometry f)
              (LP :: flat_map r_vertex (f_vertices f) ++ RP :: SC
               :: W "blocks" :: LP :: flat_map r_block (f_blocks f) ++ RP :: SC
               :: W "edges" :: LP :: RP :: SC
               :: W "faces" :: LP :: flat_map r_face (f_faces f) ++ RP :: SC
               :: W "boundary" :: LP :: flat_map r_patch (f_patches f) ++ RP :: SC
               :: r_default (f_default f) ++ W "mergePatchPairs" :: LP :: flat_map r_pair (f_merged f) ++ [RP; SC]))
    as (t & l & E & Ht).
  rewrite E. rewrite (Hset t l Ht). rewrite <- E.
  rewrite (p_geometry_ok f fuel _ Hb Hw3).
  rewrite (p_list_ok "vertices" p_vertex r_vertex (fun _ => True)); cycle 1.
  { intros. apply p_vertex_ok. }
  { intros x _. destruct x as [pos [|l0 ls]]; unfold r_vertex; simpl; destruct pos as [[a b] c]; simpl; eauto. }
  { apply Forall_forall. auto. }
  { exact B4. }
  rewrite (p_list_ok "blocks" (p_block fuel) r_block (fun b => List.length (b_gspecs b) < fuel)); cycle 1.
  { intros. apply p_block_ok. assumption. }
  { intros x _. unfold r_block. eexists. eexists. split; reflexivity. }
  { apply Forall_forall. intros x Hx. apply (bound_block f); assumption. }
  { exact B5. }
  cbn [p_edges String.eqb Ascii.eqb Bool.eqb skip_to_close].
  rewrite (p_list_ok "faces" p_face r_face (fun _ => True)); cycle 1.
  { intros. apply p_face_ok. }
  { intros x _. unfold r_face. eexists. eexists. split; reflexivity. }
  { apply Forall_forall. auto. }
  { exact B6. }
  rewrite (p_list_ok "boundary" (p_patch fuel) r_patch
             (fun p => forallb setting_ok (p_settings p) = true /\ List.length (p_settings p) < fuel /\ List.length (p_quads p) < fuel)); cycle 1.
  { intros x r0 (H1 & H2 & H3). apply p_patch_ok; assumption. }
  { intros x _. unfold r_patch. eexists. eexists. split; reflexivity. }
  { apply Forall_forall. intros x Hx. split; [rewrite forallb_forall in Hw4; auto | apply (bound_patch f); assumption]. }
  { exact B7. }
  rewrite p_default_ok.
  replace (flat_map r_pair (f_merged f) ++ [RP; SC]) with (flat_map r_pair (f_merged f) ++ RP :: SC :: []) by reflexivity.
  rewrite (p_list_ok "mergePatchPairs" p_pair r_pair (fun _ => True)); cycle 1.
  { intros. apply p_pair_ok. }
  { intros x _. unfold r_pair. eexists. eexists. split; reflexivity. }
  { apply Forall_forall. auto. }
  { exact B8. }
  destruct f; reflexivity.
Qed.

(** * The fuel chosen by [parse] suffices *)
Lemma len_flat_map_ge {A} (r : A -> list tok) xs :
  (forall x, 1 <= List.length (r x)) -> List.length xs <= List.length (flat_map r xs).
Proof.
  intro H. induction xs as [|x xs IH]; simpl; [lia|]. rewrite app_length. specialize (H x). lia.
Qed.

Lemma len_flat_map_in {A} (r : A -> list tok) xs x :
  In x xs -> List.length (r x) <= List.length (flat_map r xs).
Proof.
  induction xs as [|y xs IH]; simpl; [tauto|]. rewrite app_length. intros [->|H]; [lia|]. specialize (IH H). lia.
Qed.

Lemma max_list_le l n : (forall x, In x l -> x <= n) -> max_list l <= n.
Proof.
  induction l as [|y l IH]; simpl; intro H; [lia|].
  assert (y <= n) by (apply H; left; reflexivity).
  assert (max_list l <= n) by (apply IH; intros; apply H; right; assumption). lia.
Qed.

Lemma render_parts f :
  let n := List.length (render f) in
  List.length (flat_map r_entry (f_header f)) <= n /\
  List.length (flat_map r_entry (f_settings f)) <= n /\
  List.length (r_geometry (f_geometry f)) <= n /\
  List.length (flat_map r_vertex (f_vertices f)) <= n /\
  List.length (flat_map r_block (f_blocks f)) <= n /\
  List.length (flat_map r_face (f_faces f)) <= n /\
  List.length (flat_map r_patch (f_patches f)) <= n /\
  List.length (flat_map r_pair (f_merged f)) <= n.
Proof.
  unfold render. cbn [List.length]. repeat (rewrite app_length; cbn [List.length]). cbv zeta. lia.
Qed.

Lemma geometry_len gs : List.length (flat_map r_geom gs) <= List.length (r_geometry gs).
Proof. destruct gs as [|g gs]; [simpl; lia|]. unfold r_geometry. cbn [List.length]. rewrite app_length. lia. Qed.

Lemma items_bound_le f : items_bound f <= List.length (render f).
Proof.
  destruct (render_parts f) as (P1 & P2 & P3 & P4 & P5 & P6 & P7 & P8).
  assert (P3' := geometry_len (f_geometry f)).
  apply max_list_le. intros x Hx. unfold items_bound in Hx.
  apply in_app_or in Hx. destruct Hx as [Hx|Hx].
  - simpl in Hx.
    assert (E1 : forall e, 1 <= List.length (r_entry e)) by (intro; unfold r_entry; simpl; lia).
    assert (E2 : forall g, 1 <= List.length (r_geom g)) by (intro; unfold r_geom; simpl; lia).
    assert (E3 : forall v, 1 <= List.length (r_vertex v)).
    { intros [[[a b] c] [|l ls]]; unfold r_vertex; simpl; lia. }
    assert (E4 : forall b, 1 <= List.length (r_block b)) by (intro; unfold r_block; simpl; lia).
    assert (E5 : forall fc, 1 <= List.length (r_face fc)) by (intro; unfold r_face; simpl; lia).
    assert (E6 : forall p, 1 <= List.length (r_patch p)) by (intro; unfold r_patch; simpl; lia).
    assert (E7 : forall p, 1 <= List.length (r_pair p)) by (intro; unfold r_pair; simpl; lia).
    assert (L1 := len_flat_map_ge r_entry (f_header f) E1).
    assert (L2 := len_flat_map_ge r_entry (f_settings f) E1).
    assert (L3 := len_flat_map_ge r_geom (f_geometry f) E2).
    assert (L4 := len_flat_map_ge r_vertex (f_vertices f) E3).
    assert (L5 := len_flat_map_ge r_block (f_blocks f) E4).
    assert (L6 := len_flat_map_ge r_face (f_faces f) E5).
    assert (L7 := len_flat_map_ge r_patch (f_patches f) E6).
    assert (L8 := len_flat_map_ge r_pair (f_merged f) E7).
    repeat (destruct Hx as [Hx|Hx]; [subst x; lia|]). destruct Hx.
  - assert (Ep : forall p, 1 <= List.length (r_prop p)) by (intro; unfold r_prop; rewrite app_length; simpl; lia).
    apply in_app_or in Hx. destruct Hx as [Hx|Hx].
    { apply in_map_iff in Hx. destruct Hx as (g & <- & Hg).
      assert (A1 := len_flat_map_ge r_prop (snd g) Ep).
      assert (A2 := len_flat_map_in r_geom (f_geometry f) g Hg).
      assert (A3 : List.length (flat_map r_prop (snd g)) <= List.length (r_geom g)).
      { unfold r_geom. cbn [List.length]. rewrite app_length. lia. }
      lia. }
    apply in_app_or in Hx. destruct Hx as [Hx|Hx].
    { apply in_map_iff in Hx. destruct Hx as (b & <- & Hb).
      assert (Eg : forall g, 1 <= List.length (r_gspec g)).
      { intros [e|l]; simpl; [lia|]. rewrite app_length. simpl. lia. }
      assert (A1 := len_flat_map_ge r_gspec (b_gspecs b) Eg).
      assert (A2 := len_flat_map_in r_block (f_blocks f) b Hb).
      assert (A3 : List.length (flat_map r_gspec (b_gspecs b)) <= List.length (r_block b)).
      { unfold r_block. cbn [List.length]. repeat (rewrite app_length; cbn [List.length]). lia. }
      lia. }
    apply in_app_or in Hx. destruct Hx as [Hx|Hx].
    { apply in_map_iff in Hx. destruct Hx as (p & <- & Hp).
      assert (A1 := len_flat_map_ge r_prop (p_settings p) Ep).
      assert (A2 := len_flat_map_in r_patch (f_patches f) p Hp).
      assert (A3 : List.length (flat_map r_prop (p_settings p)) <= List.length (r_patch p)).
      { unfold r_patch. cbn [List.length]. repeat (rewrite app_length; cbn [List.length]). lia. }
      lia. }
    { apply in_map_iff in Hx. destruct Hx as (p & <- & Hp).
      assert (Eq : forall qd, 1 <= List.length (r_quad qd)) by (intro; unfold r_quad; simpl; lia).
      assert (A1 := len_flat_map_ge r_quad (p_quads p) Eq).
      assert (A2 := len_flat_map_in r_patch (f_patches f) p Hp).
      assert (A3 : List.length (flat_map r_quad (p_quads p)) <= List.length (r_patch p)).
      { unfold r_patch. cbn [List.length]. repeat (rewrite app_length; cbn [List.length]). lia. }
      lia. }
Qed.

Theorem roundtrip f : wf_afile f = true -> parse (render f) = Some f.
Proof.
  intro H. unfold parse. apply roundtrip_with; [exact H|].
  assert (L := items_bound_le f). lia.
Qed.

(** the hypothesis is satisfiable, and the parser rejects a truncated file *)
Example roundtrip_example :
  let f := mkFile [("version"%string, [N (2 # 1)])] [("scale"%string, [N (1 # 1)])]
                  [("terrain"%string, [[W "type"; W "triSurfaceMesh"]])]
                  [mkVertex (0, 0, 0)%Q []; mkVertex (1, 0, 0)%Q ["terrain"%string]]
                  [mkBlock [0; 1; 1; 0; 0; 1; 1; 0] (Some "z"%string) [1; 2; 3] "simpleGrading"
                           [GOne 1; GMulti [(1 # 2, 2 # 1, 1 # 1); (1 # 2, 3 # 1, 2 # 1)]; GOne 1]]
                  [([0; 1; 1; 0], "terrain"%string)]
                  [mkPatch "inlet" "wall" [[W "inGroups"; N (1 # 1); LP; W "wall"; RP]] [[0; 1; 1; 0]]]
                  (Some ("rest"%string, "wall"%string)) [("a"%string, "b"%string)] in
  wf_afile f = true /\ parse (render f) = Some f /\ parse (removelast (render f)) = None.
Proof. vm_compute. repeat split; reflexivity. Qed.
