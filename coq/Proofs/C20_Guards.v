(** C20 - lemmas: decision tactics for guard expressions, the reference guards meet their
    specifications, symmetry, and the invariants of the three small state machines. *)
From Coq Require Import QArith Qabs ZArith Bool List Arith Lia Lqa.
From CB Require Import Base.Hex Model.C20_Guards.
Import ListNotations.

(** * tactics
    A guard is a boolean combination of [Qle_bool]/[Qeq_bool] (or [Z.leb]/[Z.eqb]) atoms over variables,
    constants, subtraction and absolute value.  The tactics split on every atom, turn the outcomes
    into linear facts and leave linear arithmetic; they do not depend on the shape of the guard. *)

Lemma Qabs_cases (d : Q) : (0 <= d /\ Qabs d == d)%Q \/ (d <= 0 /\ Qabs d == - d)%Q.
Proof.
  destruct (Qlt_le_dec d 0) as [H|H].
  - right. split; [apply Qlt_le_weak; exact H | apply Qabs_neg; apply Qlt_le_weak; exact H].
  - left. split; [exact H | apply Qabs_pos; exact H].
Qed.

Lemma Qle_bool_false (a b : Q) : Qle_bool a b = false -> (b < a)%Q.
Proof.
  intro H. apply Qnot_le_lt. intro L. apply Qle_bool_iff in L. congruence.
Qed.

Lemma Qeq_bool_false (a b : Q) : Qeq_bool a b = false -> ~ (a == b)%Q.
Proof. intros H E. apply Qeq_bool_iff in E. congruence. Qed.

Ltac q_abs :=
  repeat match goal with
  | |- context [Qabs ?d] =>
      let a := fresh "a" in let Ha := fresh "Ha" in
      pose proof (Qabs_cases d) as Ha; set (a := Qabs d) in *; clearbody a
  end.

Ltac q_atoms :=
  repeat match goal with
  | |- context [Qle_bool ?a ?b] =>
      let H := fresh "A" in destruct (Qle_bool a b) eqn:H;
      [apply Qle_bool_iff in H | apply Qle_bool_false in H]
  | |- context [Qeq_bool ?a ?b] =>
      let H := fresh "A" in destruct (Qeq_bool a b) eqn:H;
      [apply Qeq_bool_iff in H | apply Qeq_bool_false in H]
  end.

Ltac guard_finish arith :=
  simpl;
  first [ split; intro; first [ reflexivity | discriminate | exfalso; arith | arith ]
        | reflexivity | discriminate | arith ].

(** goal: [forall x.., g x.. = true <-> P] (or an equation between guards); [unf] unfolds the guard *)
Ltac qguard unf := intros; unf; q_abs; q_atoms; guard_finish lra.

Ltac z_atoms :=
  repeat match goal with
  | |- context [Z.leb ?a ?b] =>
      let H := fresh "A" in destruct (Z.leb a b) eqn:H;
      [apply Z.leb_le in H | apply Z.leb_gt in H]
  | |- context [Z.eqb ?a ?b] =>
      let H := fresh "A" in destruct (Z.eqb a b) eqn:H;
      [apply Z.eqb_eq in H | apply Z.eqb_neq in H]
  | |- context [Z.abs ?a] => let H := fresh "A" in pose proof (Z.abs_spec a) as H; set (Z.abs a) in *
  end.

Ltac zguard unf := intros; unf; z_atoms; guard_finish lia.

Ltac bguard unf :=
  intros; unf;
  repeat match goal with b : bool |- _ => destruct b end;
  simpl; try tauto; try (split; intro; try reflexivity; try discriminate; try tauto; congruence).

(** * the reference guards meet the documented preconditions (for all rationals / integers) *)
Lemma ref_perp_spec tol d : ref_perp tol d = true <-> ~ (Qabs d <= tol)%Q.
Proof. qguard ltac:(unfold ref_perp). Qed.

Lemma ref_perp_symmetric tol d : ref_perp tol d = ref_perp tol (- d).
Proof. unfold ref_perp. rewrite Qabs_opp. reflexivity. Qed.

Lemma ref_length_ratio_spec r : ref_length_ratio r = true <-> ~ (0 < r /\ r <= 1)%Q.
Proof. qguard ltac:(unfold ref_length_ratio). Qed.

Lemma ref_annulus_radii_spec tol i o : ref_annulus_radii tol i o = true <-> ~ (i + tol <= o)%Q.
Proof. qguard ltac:(unfold ref_annulus_radii). Qed.

Lemma ref_chain_length_spec l : ref_chain_length l = true <-> ~ (0 <= l)%Q.
Proof. qguard ltac:(unfold ref_chain_length). Qed.

Lemma ref_contract_spec i s : ref_contract i s = true <-> ~ (0 < i /\ i <= s)%Q.
Proof. qguard ltac:(unfold ref_contract). Qed.

Lemma ref_corner4_spec c : ref_corner4 c = true <-> ~ (0 <= c <= 3)%Z.
Proof. zguard ltac:(unfold ref_corner4). Qed.

Lemma ref_corner8_spec c : ref_corner8 c = true <-> ~ (0 <= c <= 7)%Z.
Proof. zguard ltac:(unfold ref_corner8). Qed.

Lemma ref_corner_pair8_spec a b : ref_corner_pair8 a b = true <-> ~ (0 <= a < 8 /\ 0 <= b < 8)%Z.
Proof. zguard ltac:(unfold ref_corner_pair8). Qed.

Lemma ref_label_count_spec n : ref_label_count n = true <-> ~ (1 <= n <= 2)%Z.
Proof. zguard ltac:(unfold ref_label_count). Qed.

(** * vectors: leaning the radius towards either end of the axis gives opposite deviations *)
Definition qdot (a b : Q * Q * Q) : Q :=
  (fst (fst a) * fst (fst b) + snd (fst a) * snd (fst b) + snd a * snd b)%Q.
Definition qadd (a b : Q * Q * Q) : Q * Q * Q :=
  (fst (fst a) + fst (fst b), snd (fst a) + snd (fst b), snd a + snd b)%Q.
Definition qscale (k : Q) (a : Q * Q * Q) : Q * Q * Q :=
  (k * fst (fst a), k * snd (fst a), k * snd a)%Q.

Lemma lean_dot (ax r0 : Q * Q * Q) (e : Q) :
  (qdot ax r0 == 0 -> qdot ax (qadd r0 (qscale e ax)) == e * qdot ax ax)%Q.
Proof.
  destruct ax as [[a1 a2] a3], r0 as [[r1 r2] r3]. unfold qdot, qadd, qscale. simpl. intro H.
  setoid_replace ((a1 * (r1 + e * a1) + a2 * (r2 + e * a2) + a3 * (r3 + e * a3)))%Q
    with ((a1 * r1 + a2 * r2 + a3 * r3) + e * (a1 * a1 + a2 * a2 + a3 * a3))%Q by ring.
  rewrite H. ring.
Qed.

Lemma Qabs_compat_eq (a b : Q) : (a == b)%Q -> (Qabs a == Qabs b)%Q.
Proof. intro H. rewrite H. reflexivity. Qed.

Lemma Qle_bool_compat_l (a b c : Q) : (a == b)%Q -> Qle_bool a c = Qle_bool b c.
Proof.
  intro H. destruct (Qle_bool a c) eqn:E1, (Qle_bool b c) eqn:E2; try reflexivity.
  - apply Qle_bool_iff in E1. rewrite H in E1. apply Qle_bool_iff in E1. congruence.
  - apply Qle_bool_iff in E2. rewrite <- H in E2. apply Qle_bool_iff in E2. congruence.
Qed.

(** a radius leaning by [e] towards the axis is treated like one leaning by [-e] *)
Lemma ref_perp_lean_symmetric tol (ax r0 : Q * Q * Q) (e : Q) :
  (qdot ax r0 == 0)%Q ->
  ref_perp tol (qdot ax (qadd r0 (qscale e ax))) = ref_perp tol (qdot ax (qadd r0 (qscale (- e) ax))).
Proof.
  intro H. unfold ref_perp. f_equal. apply Qle_bool_compat_l.
  rewrite (lean_dot ax r0 e H), (lean_dot ax r0 (- e) H).
  setoid_replace (- e * qdot ax ax)%Q with (- (e * qdot ax ax))%Q by ring.
  rewrite Qabs_opp. reflexivity.
Qed.

(** * mesh life cycle *)
Lemma m_run_length s h : length (m_run s h) = length h.
Proof.
  revert s. induction h as [|c r IH]; intro s; simpl; [reflexivity|].
  destruct (m_step s c); simpl; rewrite IH; reflexivity.
Qed.

Lemma m_state_after_app s h1 h2 : m_state_after s (h1 ++ h2) = m_state_after (m_state_after s h1) h2.
Proof.
  revert s. induction h1 as [|c r IH]; intro s; simpl; [reflexivity|].
  destruct (m_step s c); apply IH.
Qed.

Lemma m_run_app s h1 h2 : m_run s (h1 ++ h2) = m_run s h1 ++ m_run (m_state_after s h1) h2.
Proof.
  revert s. induction h1 as [|c r IH]; intro s; simpl; [reflexivity|].
  destruct (m_step s c); simpl; rewrite IH; reflexivity.
Qed.

Definition needs_assembly (c : mcall) : bool :=
  match c with MGrade | MBackport => true | _ => false end.

(** a call that needs an assembled mesh is accepted exactly when the mesh is assembled *)
Lemma m_guard_exact s c : needs_assembly c = true ->
  (m_step s c = None <-> m_is_assembled s = false).
Proof.
  destruct c; simpl; try discriminate; intros _; destruct (m_is_assembled s); split; intro H;
    try reflexivity; try discriminate.
Qed.

(** "assembled" in terms of the history alone: some assemble() with at least one operation added
    before it, and no clear() after it *)
Fixpoint hist_assembled (ops : nat) (asm : bool) (h : list mcall) : bool :=
  match h with
  | [] => asm
  | MAdd :: r => hist_assembled (S ops) asm r
  | MAssemble :: r => hist_assembled ops (asm || (0 <? ops)) r
  | MClear :: r => hist_assembled ops false r
  | MGrade :: r => hist_assembled ops asm r
  | MBackport :: r => hist_assembled ops asm r
  end.

Lemma hist_assembled_sound s h :
  (m_is_assembled s = true -> 0 < m_ops s) ->
  m_is_assembled (m_state_after s h) = hist_assembled (m_ops s) (m_is_assembled s) h
  /\ (m_is_assembled (m_state_after s h) = true -> 0 < m_ops (m_state_after s h)).
Proof.
  revert s. induction h as [|c r IH]; intros s Hinv; simpl.
  - split; [reflexivity | exact Hinv].
  - destruct c; simpl.
    + (* add *)
      specialize (IH {| m_ops := S (m_ops s); m_assembled := m_assembled s |}). simpl in IH.
      apply IH. intros _. lia.
    + (* assemble *)
      specialize (IH {| m_ops := m_ops s; m_assembled := m_assembled s + m_ops s |}).
      unfold m_is_assembled in *. simpl in IH.
      assert (E : (0 <? m_assembled s + m_ops s) = ((0 <? m_assembled s) || (0 <? m_ops s))).
      { destruct (Nat.ltb_spec 0 (m_assembled s)), (Nat.ltb_spec 0 (m_ops s)), (Nat.ltb_spec 0 (m_assembled s + m_ops s));
          simpl; try reflexivity; lia. }
      rewrite <- E. apply IH. intro H. apply Nat.ltb_lt in H.
      destruct (0 <? m_assembled s) eqn:E1.
      * apply Hinv. reflexivity.
      * apply Nat.ltb_ge in E1. lia.
    + (* clear *)
      specialize (IH {| m_ops := m_ops s; m_assembled := 0 |}). unfold m_is_assembled in *. simpl in IH.
      apply IH. intro H. discriminate.
    + (* grade *)
      replace (match (if m_is_assembled s then Some s else None) with
               | Some s' => m_state_after s' r | None => m_state_after s r end)
        with (m_state_after s r) by (destruct (m_is_assembled s); reflexivity).
      apply IH. exact Hinv.
    + (* backport *)
      destruct (m_is_assembled s) eqn:E.
      * specialize (IH {| m_ops := m_ops s; m_assembled := m_ops s |}). unfold m_is_assembled in IH. simpl in IH.
        assert (P : 0 < m_ops s) by (apply Hinv; reflexivity).
        assert (E2 : (0 <? m_ops s) = true) by (apply Nat.ltb_lt; exact P).
        rewrite E2 in IH. apply IH. intros _. exact P.
      * specialize (IH s). rewrite E in IH. apply IH. exact Hinv.
Qed.

(** the outcome of the last call of a history *)
Lemma m_last_call h c :
  m_run m_init (h ++ [c]) = m_run m_init h ++ [match m_step (m_state_after m_init h) c with Some _ => true | None => false end].
Proof.
  rewrite m_run_app. simpl. destruct (m_step (m_state_after m_init h) c); reflexivity.
Qed.

Lemma lifecycle_guard h c : needs_assembly c = true ->
  (last (m_run m_init (h ++ [c])) true = false <-> hist_assembled 0 false h = false).
Proof.
  intro Hc. rewrite m_last_call. rewrite last_last.
  destruct (hist_assembled_sound m_init h) as [E _]; [intro H; discriminate|].
  assert (E' : m_is_assembled (m_state_after m_init h) = hist_assembled 0 false h) by exact E.
  rewrite <- E'.
  pose proof (m_guard_exact (m_state_after m_init h) c Hc) as G.
  destruct (m_step (m_state_after m_init h) c) eqn:S.
  - split; intro H; [discriminate|]. apply G in H. discriminate.
  - split; intro H; [apply G; reflexivity | reflexivity].
Qed.

(** * clamps on junctions *)
Definition g_wf (s : gstate) : Prop := NoDup s.

Lemma g_step_wf s c s' : g_wf s -> g_step s c = Some s' -> g_wf s'.
Proof.
  unfold g_wf. intros W H. destruct c as [[j|]|[l|] [f|]]; simpl in H; try discriminate.
  - destruct (existsb (Nat.eqb j) s) eqn:E; [discriminate|]. inversion H; subst. constructor; [|exact W].
    intro I. assert (existsb (Nat.eqb j) s = true) by (apply existsb_exists; exists j; split; [exact I | apply Nat.eqb_refl]).
    congruence.
  - destruct (l =? f); [discriminate|]. inversion H; subst. exact W.
Qed.

Lemma g_state_after_wf h : forall s, g_wf s -> g_wf (g_state_after s h).
Proof.
  induction h as [|c r IH]; intros s W; simpl; [exact W|].
  destruct (g_step s c) eqn:E; [apply IH; eapply g_step_wf; eassumption | apply IH; exact W].
Qed.

(** a clamp is accepted exactly when its position matches a junction that has no clamp yet *)
Lemma g_clamp_exact s p :
  g_step s (GClamp p) = None <-> (p = None \/ exists j, p = Some j /\ In j s).
Proof.
  destruct p as [j|]; simpl.
  - destruct (existsb (Nat.eqb j) s) eqn:E.
    + split; [intros _|reflexivity]. right. exists j. split; [reflexivity|].
      apply existsb_exists in E. destruct E as [x [I Ex]]. apply Nat.eqb_eq in Ex. subst. exact I.
    + split; [discriminate|]. intros [H|[k [H I]]]; [discriminate|]. inversion H; subst.
      assert (existsb (Nat.eqb k) s = true) by (apply existsb_exists; exists k; split; [exact I | apply Nat.eqb_refl]).
      congruence.
  - split; [intros _; left; reflexivity | reflexivity].
Qed.

Lemma g_link_exact s l f :
  g_step s (GLink l f) = None <-> (l = None \/ f = None \/ l = f).
Proof.
  destruct l as [a|], f as [b|]; simpl.
  - destruct (a =? b) eqn:E.
    + apply Nat.eqb_eq in E. subst. split; [intros _; right; right; reflexivity | reflexivity].
    + apply Nat.eqb_neq in E. split; [discriminate|]. intros [H|[H|H]]; try discriminate. inversion H. contradiction.
  - split; [intros _; right; left; reflexivity | reflexivity].
  - split; [intros _; left; reflexivity | reflexivity].
  - split; [intros _; left; reflexivity | reflexivity].
Qed.

(** * labels of a projected edge *)
Lemma l_run_sound have h :
  forall k, nth_error (l_run have h) k = Some true ->
  exists l, 1 <= length l <= 2 /\ l = fold_left l_union (firstn (S k) h) have.
Proof.
  revert have. induction h as [|new r IH]; intros have k H.
  - destruct k; discriminate.
  - destruct k as [|k]; simpl in H.
    + inversion H as [E]. unfold l_ok in E. apply andb_true_iff in E. destruct E as [E1 E2].
      apply Nat.ltb_lt in E1, E2. exists (l_union have new). split; [lia|]. simpl. reflexivity.
    + destruct (IH (l_union have new) k H) as [l [B E]]. exists l. split; [exact B|]. simpl. exact E.
Qed.

(** * consequences of the perpendicularity specification, for any guard that meets it *)
Definition perp_spec_t (tol : Q) (g : Q -> bool) : Prop := forall d : Q, g d = true <-> ~ (Qabs d <= tol)%Q.

Lemma bool_eq_iff (a b : bool) : (a = true <-> b = true) -> a = b.
Proof. destruct a, b; intros [H1 H2]; try reflexivity; [symmetry; apply H1 | apply H2]; reflexivity. Qed.

Lemma perp_spec_compat tol g : perp_spec_t tol g -> forall x y : Q, (Qabs x == Qabs y)%Q -> g x = g y.
Proof.
  intros S x y E. apply bool_eq_iff. rewrite (S x), (S y). rewrite E. tauto.
Qed.

Lemma perp_spec_symmetric tol g : perp_spec_t tol g -> forall d : Q, g d = g (- d)%Q.
Proof. intros S d. apply (perp_spec_compat tol g S). rewrite Qabs_opp. reflexivity. Qed.

Lemma perp_spec_lean tol g : perp_spec_t tol g ->
  forall (ax r0 : Q * Q * Q) (e : Q), (qdot ax r0 == 0)%Q ->
    g (qdot ax (qadd r0 (qscale e ax))) = g (qdot ax (qadd r0 (qscale (- e) ax))).
Proof.
  intros S ax r0 e H. apply (perp_spec_compat tol g S).
  rewrite (lean_dot ax r0 e H), (lean_dot ax r0 (- e) H).
  setoid_replace (- e * qdot ax ax)%Q with (- (e * qdot ax ax))%Q by ring.
  rewrite Qabs_opp. reflexivity.
Qed.

Lemma zlist_eqb_eq (a : list Z) : forall b, zlist_eqb a b = true -> a = b.
Proof.
  induction a as [|x a IH]; intros [|y b] H; simpl in H; try reflexivity; try discriminate.
  apply andb_true_iff in H. destruct H as [H1 H2]. apply Z.eqb_eq in H1. subst. f_equal. apply IH. exact H2.
Qed.

(** * labels: exactness.  [l_union] keeps the labels distinct and computes the set union, so the
    length of the list is the number of distinct surfaces named so far *)
Lemma existsb_eqb_In (x : nat) (l : list nat) : existsb (Nat.eqb x) l = true <-> In x l.
Proof.
  rewrite existsb_exists. split.
  - intros [y [I E]]. apply Nat.eqb_eq in E. subst. exact I.
  - intro I. exists x. split; [exact I | apply Nat.eqb_refl].
Qed.

Lemma l_union_In new : forall have x, In x (l_union have new) <-> In x have \/ In x new.
Proof.
  induction new as [|y r IH]; intros have x; simpl.
  - tauto.
  - destruct (existsb (Nat.eqb y) have) eqn:E.
    + rewrite IH. apply existsb_eqb_In in E. split; [tauto|]. intros [H|[H|H]]; [tauto | subst; tauto | tauto].
    + rewrite IH. rewrite in_app_iff. simpl. tauto.
Qed.

Lemma NoDup_snoc (y : nat) (l : list nat) : NoDup l -> ~ In y l -> NoDup (l ++ [y]).
Proof.
  induction l as [|x l IH]; intros N I; simpl.
  - constructor; [intros [] | constructor].
  - inversion N as [|x' l' Hx Hl]; subst. constructor.
    + rewrite in_app_iff. simpl. intros [H|[H|[]]]; [contradiction | subst; apply I; left; reflexivity].
    + apply IH; [exact Hl | intro H; apply I; right; exact H].
Qed.

Lemma l_union_NoDup new : forall have, NoDup have -> NoDup (l_union have new).
Proof.
  induction new as [|y r IH]; intros have N; simpl; [exact N|].
  destruct (existsb (Nat.eqb y) have) eqn:E; [apply IH; exact N|].
  apply IH. apply NoDup_snoc; [exact N|].
  intro I. apply existsb_eqb_In in I. congruence.
Qed.

Lemma l_run_exact have h :
  forall k b, nth_error (l_run have h) k = Some b ->
    b = l_ok (fold_left l_union (firstn (S k) h) have).
Proof.
  revert have. induction h as [|new r IH]; intros have k b H.
  - destruct k; discriminate.
  - destruct k as [|k]; simpl in H.
    + inversion H. reflexivity.
    + apply (IH (l_union have new) k b H).
Qed.

Lemma fold_l_union_NoDup h : forall have, NoDup have -> NoDup (fold_left l_union h have).
Proof.
  induction h as [|new r IH]; intros have N; simpl; [exact N|]. apply IH. apply l_union_NoDup. exact N.
Qed.

Lemma fold_l_union_In h : forall have x,
  In x (fold_left l_union h have) <-> In x have \/ exists new, In new h /\ In x new.
Proof.
  induction h as [|new r IH]; intros have x; simpl.
  - split; [tauto|]. intros [H|[n [[] _]]]. exact H.
  - rewrite IH. rewrite l_union_In. split.
    + intros [[H|H]|[n [I J]]]; [tauto | right; exists new; tauto | right; exists n; tauto].
    + intros [H|[n [[E|I] J]]]; [tauto | subst; tauto | right; exists n; tauto].
Qed.
