(** C04 - from tolerance-closeness of the NUMBERS of two gradings ([spec_close tau]: what
    WireManagerBase.check_consistency compares) to closeness of the CELL SIZES blockMesh makes of them.

    One section, n cells on a length S, total expansions E1 <= E2 (both positive), r_i = E_i^(1/(n-1)):
    cell k is S * r^k / gsum r n.  Termwise  r1^j <= r2^j  and  r2^j * E1 <= r1^j * E2  (j <= n-1), hence
      cell_k(E2) <= (E2/E1) * cell_k(E1)   and   cell_k(E1) <= (E2/E1) * cell_k(E2)
    - every cell changes by at most the factor by which the total expansion changes, for every n and E.  With
    |E1 - E2| <= tau * max(E1, E2) that factor is <= 1/(1 - tau); with the length ratios also tau-close and
    bounded by M, every cell of the multi-section grading moves by at most
      kappa tau * |L| * M,   kappa tau = tau * (2 - tau) / (1 - tau)   (<= 3 tau for tau <= 1/2).
    Elementary inequalities on [gsum] only; no calculus. *)
From Coq Require Import Reals List Bool Arith ZArith QArith Qabs Qminmax Qreals Lia Lra Psatz.
From CB Require Import Model.Propagate Proofs.PropagateBasics Proofs.PropagateInv Model.C03_Relations Proofs.C03_GeomSeries
  Model.C04_Payload Model.C04_Realise Proofs.C04_Transport Proofs.C04_Realise.
Import ListNotations.
Local Open Scope R_scope.

(** ** 1. powers and geometric sums of two ratios *)
Lemma pow_cross r1 r2 j m : 0 < r1 -> r1 <= r2 -> (j <= m)%nat -> r2 ^ j * r1 ^ m <= r1 ^ j * r2 ^ m.
Proof.
  intros H1 H12 Hj. replace m with (j + (m - j))%nat by lia. rewrite !pow_add.
  assert (0 < r2) by lra.
  assert (0 < r1 ^ j) by (apply pow_lt; assumption).
  assert (0 < r2 ^ j) by (apply pow_lt; assumption).
  assert (r1 ^ (m - j) <= r2 ^ (m - j)) by (apply pow_incr; lra).
  replace (r2 ^ j * (r1 ^ j * r1 ^ (m - j))) with ((r1 ^ j * r2 ^ j) * r1 ^ (m - j)) by ring.
  replace (r1 ^ j * (r2 ^ j * r2 ^ (m - j))) with ((r1 ^ j * r2 ^ j) * r2 ^ (m - j)) by ring.
  apply Rmult_le_compat_l; [|assumption]. apply Rlt_le, Rmult_lt_0_compat; assumption.
Qed.

Lemma gsum_cross r1 r2 n m : 0 < r1 -> r1 <= r2 -> (n <= S m)%nat -> gsum r2 n * r1 ^ m <= gsum r1 n * r2 ^ m.
Proof.
  intros H1 H12. induction n as [|n IH]; intro Hn; [simpl; lra|].
  rewrite !gsum_S, !Rmult_plus_distr_r.
  apply Rplus_le_compat; [apply IH; lia | apply pow_cross; [assumption|assumption|lia]].
Qed.

Lemma pow_le_gsum r k n : 0 <= r -> (k < n)%nat -> r ^ k <= gsum r n.
Proof.
  intros Hr Hk. apply Rle_trans with (gsum r (S k)).
  - rewrite gsum_S. pose proof (gsum_nonneg r k Hr). lra.
  - apply gsum_le_mono_n; [assumption|lia].
Qed.

(** ** 2. one section: the share of cell k of n cells with total expansion E *)
Definition share (n : nat) (E : R) (k : nat) : R := bm_ratio n E ^ k / gsum (bm_ratio n E) n.

Lemma bm_cell_share S n E k : (1 <= n)%nat -> bm_cell S n E k = S * share n E k.
Proof.
  intro Hn. unfold bm_cell, bm_first, share. field. apply Rgt_not_eq, bm_gsum_pos. exact Hn.
Qed.

Lemma share_pos n E k : (1 <= n)%nat -> 0 < share n E k.
Proof.
  intro Hn. unfold share. apply Rdiv_lt_0_compat; [apply pow_lt, bm_ratio_pos | apply bm_gsum_pos; exact Hn].
Qed.

Lemma share_le_1 n E k : (k < n)%nat -> share n E k <= 1.
Proof.
  intro Hk. unfold share. assert (0 < gsum (bm_ratio n E) n) as G by (apply bm_gsum_pos; lia).
  apply Rmult_le_reg_r with (gsum (bm_ratio n E) n); [exact G|].
  unfold Rdiv. rewrite Rmult_assoc, Rinv_l, Rmult_1_r, Rmult_1_l by lra.
  apply pow_le_gsum; [apply Rlt_le, bm_ratio_pos | exact Hk].
Qed.

Lemma bm_ratio_mono n E1 E2 : (2 <= n)%nat -> 0 < E1 -> E1 <= E2 -> bm_ratio n E1 <= bm_ratio n E2.
Proof.
  intros Hn H1 H12. destruct (Rle_lt_dec (bm_ratio n E1) (bm_ratio n E2)) as [H|H]; [exact H|exfalso].
  assert (bm_ratio n E2 ^ (n - 1) < bm_ratio n E1 ^ (n - 1)) as K.
  { apply pow_lt_mono_base; [apply Rlt_le, bm_ratio_pos | exact H | lia]. }
  rewrite !bm_ratio_pow in K by (try assumption; lra). lra.
Qed.

(** the multiplicative bound: a cell changes by at most the factor by which E changes (any n, any k < n) *)
Lemma share_factor n E1 E2 k : 0 < E1 -> E1 <= E2 -> (k < n)%nat ->
  share n E2 k * E1 <= share n E1 k * E2 /\ share n E1 k * E1 <= share n E2 k * E2.
Proof.
  intros H1 H12 Hk.
  destruct (le_lt_dec 2 n) as [Hn|Hn].
  2: { assert (n = 1%nat) as -> by lia. unfold share, bm_ratio. split; apply Rmult_le_compat_l; try lra;
       apply Rlt_le, Rdiv_lt_0_compat; try (apply pow_lt; lra); simpl; lra. }
  assert (0 < E2) as H2 by lra.
  pose proof (bm_ratio_pos n E1) as P1. pose proof (bm_ratio_pos n E2) as P2.
  pose proof (bm_ratio_mono n E1 E2 Hn H1 H12) as M.
  pose proof (bm_ratio_pow n E1 H1 Hn) as W1. pose proof (bm_ratio_pow n E2 H2 Hn) as W2.
  unfold share. set (r1 := bm_ratio n E1) in *. set (r2 := bm_ratio n E2) in *.
  assert (0 < gsum r1 n) as G1 by (apply gsum_pos; [lra|lia]).
  assert (0 < gsum r2 n) as G2 by (apply gsum_pos; [lra|lia]).
  assert (gsum r1 n <= gsum r2 n) as G12 by (apply gsum_le_mono_r; lra).
  assert (gsum r2 n * E1 <= gsum r1 n * E2) as GX.
  { rewrite <- W1, <- W2. apply gsum_cross; [assumption|assumption|lia]. }
  assert (r2 ^ k * E1 <= r1 ^ k * E2) as PX.
  { rewrite <- W1, <- W2. apply pow_cross; [assumption|assumption|lia]. }
  assert (r1 ^ k <= r2 ^ k) as P12 by (apply pow_incr; lra).
  assert (0 < r1 ^ k) as Q1 by (apply pow_lt; assumption).
  assert (0 < r2 ^ k) as Q2 by (apply pow_lt; assumption).
  split.
  - (* r2^k/G2 * E1 <= r1^k/G1 * E2 *)
    apply Rmult_le_reg_r with (gsum r1 n * gsum r2 n); [nra|].
    replace (r2 ^ k / gsum r2 n * E1 * (gsum r1 n * gsum r2 n)) with ((r2 ^ k * E1) * gsum r1 n) by (field; lra).
    replace (r1 ^ k / gsum r1 n * E2 * (gsum r1 n * gsum r2 n)) with ((r1 ^ k * E2) * gsum r2 n) by (field; lra).
    assert (0 < r1 ^ k * E2) by nra. nra.
  - apply Rmult_le_reg_r with (gsum r1 n * gsum r2 n); [nra|].
    replace (r1 ^ k / gsum r1 n * E1 * (gsum r1 n * gsum r2 n)) with (r1 ^ k * (gsum r2 n * E1)) by (field; lra).
    replace (r2 ^ k / gsum r2 n * E2 * (gsum r1 n * gsum r2 n)) with (r2 ^ k * (gsum r1 n * E2)) by (field; lra).
    assert (0 < gsum r2 n * E1) by nra. nra.
Qed.

(** relative closeness as math.isclose states it, over the reals *)
Definition closeR (tau a b : R) : Prop := Rabs (a - b) <= tau * Rmax (Rabs a) (Rabs b).

Lemma closeR_sym tau a b : closeR tau a b -> closeR tau b a.
Proof. unfold closeR. rewrite Rabs_minus_sym, Rmax_comm. tauto. Qed.

Lemma closeR_pos tau a b : 0 <= tau < 1 -> 0 < a -> closeR tau a b -> 0 < b.
Proof.
  intros Ht Ha H. unfold closeR in H. destruct (Rlt_le_dec 0 b) as [Hb|Hb]; [exact Hb|exfalso].
  rewrite (Rabs_pos_eq a), (Rabs_left1 b), Rabs_pos_eq in H by lra.
  unfold Rmax in H. destruct (Rle_dec a (- b)); nra.
Qed.

Definition kappa0 (tau : R) : R := tau / (1 - tau).
Definition kappa (tau : R) : R := tau * (2 - tau) / (1 - tau).

Lemma kappa_split tau : tau < 1 -> kappa tau = tau + kappa0 tau.
Proof. intro H. unfold kappa, kappa0. field. lra. Qed.

Lemma kappa0_nonneg tau : 0 <= tau < 1 -> 0 <= kappa0 tau.
Proof. intro H. unfold kappa0. apply Rmult_le_pos; [lra|]. apply Rlt_le, Rinv_0_lt_compat. lra. Qed.

Lemma kappa_nonneg tau : 0 <= tau < 1 -> 0 <= kappa tau.
Proof. intro H. rewrite kappa_split by lra. pose proof (kappa0_nonneg tau H). lra. Qed.

(** the bound tends to 0 with tau (linearly) *)
Lemma kappa_le_3tau tau : 0 <= tau <= 1 / 2 -> kappa tau <= 3 * tau.
Proof.
  intro H. unfold kappa. apply Rmult_le_reg_r with (1 - tau); [lra|].
  unfold Rdiv. rewrite Rmult_assoc, Rinv_l, Rmult_1_r by lra. nra.
Qed.

Lemma kappa_0 : kappa 0 = 0.
Proof. unfold kappa. field. Qed.

(** one section, same length: |share E1 - share E2| <= tau/(1-tau) * min(share E1, share E2) <= tau/(1-tau) *)
Lemma share_close_ordered tau n E1 E2 k : 0 <= tau < 1 -> 0 < E1 -> E1 <= E2 -> closeR tau E1 E2 -> (k < n)%nat ->
  Rabs (share n E1 k - share n E2 k) <= kappa0 tau * Rmin (share n E1 k) (share n E2 k).
Proof.
  intros Ht H1 H12 Hc Hk. destruct (share_factor n E1 E2 k H1 H12 Hk) as [A B].
  pose proof (share_pos n E1 k ltac:(lia)) as S1. pose proof (share_pos n E2 k ltac:(lia)) as S2.
  set (c1 := share n E1 k) in *. set (c2 := share n E2 k) in *.
  unfold closeR in Hc. rewrite Rabs_left1, (Rabs_pos_eq E1), (Rabs_pos_eq E2), Rmax_right in Hc by lra.
  (* E2 - E1 <= tau E2, i.e. (1 - tau) E2 <= E1 *)
  unfold kappa0.
  assert (forall a b, 0 < a -> 0 < b -> b * E1 <= a * E2 -> (b - a) * (1 - tau) <= tau * a) as K.
  { intros a b Ha Hb Hab. nra. }
  pose proof (K c1 c2 S1 S2 A) as K1. pose proof (K c2 c1 S2 S1) as K2.
  assert (c1 * E1 <= c2 * E2) as B' by exact B. specialize (K2 B').
  apply Rmult_le_reg_r with (1 - tau); [lra|].
  replace (tau / (1 - tau) * Rmin c1 c2 * (1 - tau)) with (tau * Rmin c1 c2) by (field; lra).
  unfold Rabs, Rmin. destruct (Rcase_abs (c1 - c2)), (Rle_dec c1 c2); nra.
Qed.

Lemma share_close tau n E1 E2 k : 0 <= tau < 1 -> 0 < E1 -> closeR tau E1 E2 -> (k < n)%nat ->
  Rabs (share n E1 k - share n E2 k) <= kappa0 tau * Rmin (share n E1 k) (share n E2 k).
Proof.
  intros Ht H1 Hc Hk. pose proof (closeR_pos tau E1 E2 Ht H1 Hc) as H2.
  destruct (Rle_lt_dec E1 E2) as [H|H].
  - apply share_close_ordered; assumption.
  - rewrite Rabs_minus_sym, Rmin_comm. apply share_close_ordered; try assumption; [lra | apply closeR_sym; exact Hc].
Qed.

Lemma share_close_abs tau n E1 E2 k : 0 <= tau < 1 -> 0 < E1 -> closeR tau E1 E2 -> (k < n)%nat ->
  Rabs (share n E1 k - share n E2 k) <= kappa0 tau.
Proof.
  intros Ht H1 Hc Hk. eapply Rle_trans; [apply share_close; eassumption|].
  pose proof (kappa0_nonneg tau Ht). pose proof (share_le_1 n E1 k Hk). pose proof (Rmin_l (share n E1 k) (share n E2 k)).
  pose proof (share_pos n E1 k ltac:(lia)). nra.
Qed.

(** ** 3. all cells of one section, lengths and expansions both tau-close *)
Lemma bm_cell_close tau L M a b n E1 E2 k :
  0 <= tau < 1 -> 0 < E1 -> closeR tau a b -> closeR tau E1 E2 -> Rabs a <= M -> Rabs b <= M -> (k < n)%nat ->
  Rabs (bm_cell (L * a) n E1 k - bm_cell (L * b) n E2 k) <= kappa tau * Rabs L * M.
Proof.
  intros Ht H1 Hab HE Ha Hb Hk.
  rewrite !bm_cell_share by lia.
  pose proof (share_close_abs tau n E1 E2 k Ht H1 HE Hk) as D.
  pose proof (share_pos n E1 k ltac:(lia)) as S1. pose proof (share_le_1 n E1 k Hk) as T1.
  set (c1 := share n E1 k) in *. set (c2 := share n E2 k) in *.
  replace (L * a * c1 - L * b * c2) with (L * ((a - b) * c1 + b * (c1 - c2))) by ring.
  rewrite Rabs_mult. rewrite kappa_split by lra.
  assert (0 <= M) as HM by (pose proof (Rabs_pos a); lra).
  assert (Rabs ((a - b) * c1 + b * (c1 - c2)) <= (tau + kappa0 tau) * M) as K.
  { eapply Rle_trans; [apply Rabs_triang|]. rewrite !Rabs_mult.
    assert (Rabs (a - b) <= tau * M) as Dab.
    { unfold closeR in Hab. eapply Rle_trans; [exact Hab|]. apply Rmult_le_compat_l; [lra|]. apply Rmax_lub; assumption. }
    rewrite (Rabs_pos_eq c1) by lra.
    pose proof (Rabs_pos (a - b)). pose proof (Rabs_pos b). pose proof (Rabs_pos (c1 - c2)).
    pose proof (kappa0_nonneg tau Ht). nra. }
  pose proof (Rabs_pos L).
  replace ((tau + kappa0 tau) * Rabs L * M) with (Rabs L * ((tau + kappa0 tau) * M)) by ring.
  apply Rmult_le_compat_l; assumption.
Qed.

(** cell-wise closeness of two lists *)
Definition cells_within (eps : R) (l m : list R) : Prop := Forall2 (fun a b => Rabs (a - b) <= eps) l m.

Lemma cells_within_nth eps l m : cells_within eps l m ->
  length l = length m /\ forall k, (k < length l)%nat -> Rabs (nth k l 0 - nth k m 0) <= eps.
Proof.
  induction 1 as [|a b l m Hab H IH]; [split; [reflexivity|intros k Hk; simpl in Hk; lia]|].
  destruct IH as [IL IN]. split; [simpl; congruence|]. intros [|k] Hk; [exact Hab|]. simpl. apply IN. simpl in Hk. lia.
Qed.

Lemma cells_within_refl eps l : 0 <= eps -> cells_within eps l l.
Proof.
  intro H. induction l as [|a l IH]; constructor; [|exact IH].
  unfold Rminus. rewrite Rplus_opp_r, Rabs_R0. exact H.
Qed.

Lemma cells_within_rev eps l m : cells_within eps l m -> cells_within eps (rev l) (rev m).
Proof.
  induction 1 as [|a b l m Hab H IH]; [constructor|]. simpl. apply Forall2_app; [exact IH|]. constructor; [exact Hab|constructor].
Qed.

Lemma bm_cells_close tau L M a b n E1 E2 :
  0 <= tau < 1 -> 0 < E1 -> closeR tau a b -> closeR tau E1 E2 -> Rabs a <= M -> Rabs b <= M ->
  cells_within (kappa tau * Rabs L * M) (bm_cells (L * a) n E1) (bm_cells (L * b) n E2).
Proof.
  intros Ht H1 Hab HE Ha Hb. unfold bm_cells, cells_within.
  assert (forall l, (forall k, In k l -> (k < n)%nat) ->
    Forall2 (fun x y => Rabs (x - y) <= kappa tau * Rabs L * M) (map (bm_cell (L * a) n E1) l) (map (bm_cell (L * b) n E2) l)) as G.
  { induction l as [|k l IH]; intro Hl; [constructor|]. simpl. constructor.
    - apply bm_cell_close; try assumption. apply Hl. left. reflexivity.
    - apply IH. intros j Hj. apply Hl. right. exact Hj. }
  apply G. intros k Hk. apply in_seq in Hk. lia.
Qed.

(** ** 4. multi-section gradings: [spec_close] read over the reals *)
Definition divR (d : div3) : division := (Q2R (fst (fst d)), snd (fst d), Q2R (snd d)).

Lemma Q2R_Qabs q : Q2R (Qabs q) = Rabs (Q2R q).
Proof.
  apply Qabs_case; intro H.
  - rewrite Rabs_pos_eq; [reflexivity|]. apply Qle_Rle in H. unfold Q2R at 1 in H. simpl in H. lra.
  - rewrite Q2R_opp. apply Qle_Rle in H. unfold Q2R at 2 in H. simpl in H. rewrite Rabs_left1; [reflexivity|lra].
Qed.

Lemma Q2R_Qmax a b : Q2R (Qmax a b) = Rmax (Q2R a) (Q2R b).
Proof.
  destruct (Qlt_le_dec a b) as [H|H].
  - rewrite (Q.max_r a b) by (apply Qlt_le_weak; exact H). apply Qlt_le_weak, Qle_Rle in H. rewrite Rmax_right; auto.
  - rewrite (Q.max_l a b) by exact H. apply Qle_Rle in H. rewrite Rmax_left; auto.
Qed.

Lemma isclose_R tau a b : isclose tau a b = true -> closeR (Q2R tau) (Q2R a) (Q2R b).
Proof.
  unfold isclose, closeR. intro H. apply Qle_bool_imp_le, Qle_Rle in H.
  rewrite Q2R_Qabs, Q2R_mult, Q2R_Qmax, !Q2R_Qabs, Q2R_minus in H. exact H.
Qed.

Definition lr_bounded (M : R) (g : list div3) : Prop := Forall (fun d => Rabs (Q2R (fst (fst d))) <= M) g.

Theorem sequences_close (tau : Q) (L M : R) (g1 g2 : list div3) :
  0 <= Q2R tau < 1 ->
  Forall (fun d => 0 < Q2R (snd d)) g1 -> lr_bounded M g1 -> lr_bounded M g2 ->
  spec_close tau g1 g2 = true ->
  cells_within (kappa (Q2R tau) * Rabs L * M) (grading_cells L (map divR g1)) (grading_cells L (map divR g2)).
Proof.
  intro Ht. revert g2. induction g1 as [|[[a n] e] g1 IH]; intros [|[[b k] f] g2] HP B1 B2 H; simpl in H; try discriminate.
  - constructor.
  - apply andb_true_iff in H. destruct H as [H H4]. apply andb_true_iff in H. destruct H as [H H3].
    apply andb_true_iff in H. destruct H as [H1 H2]. apply Z.eqb_eq in H2. subst k.
    inversion HP; subst. inversion B1; subst. inversion B2; subst. simpl in *.
    unfold grading_cells. simpl. apply Forall2_app.
    + apply bm_cells_close; try assumption; apply isclose_R; assumption.
    + apply IH; assumption.
Qed.

(** ** 5. the written gradings of the payload model *)
Lemma secER_secE s : 0 < Q2R (s_E s) -> secER s = Q2R (secE s).
Proof.
  intro H. unfold secER, secE. destruct (s_inv s); [|reflexivity]. rewrite Q2R_inv; [reflexivity|].
  intro K. apply Qeq_eqR in K. unfold Q2R at 2 in K. simpl in K. lra.
Qed.

Lemma numR_num l : Forall (fun s => 0 < Q2R (s_E s)) l -> numR l = map divR (num l).
Proof.
  intro H. unfold numR, num. rewrite map_map. apply map_ext_in. intros s Hs. unfold divR. simpl.
  rewrite Forall_forall in H. rewrite secER_secE by (apply H; exact Hs). reflexivity.
Qed.

Lemma secE_pos s : 0 < Q2R (s_E s) -> 0 < Q2R (secE s).
Proof. intro H. rewrite <- secER_secE by exact H. unfold secER. destruct (s_inv s); [apply Rinv_0_lt_compat|]; exact H. Qed.

Lemma num_pos l : Forall (fun s => 0 < Q2R (s_E s)) l -> Forall (fun d => 0 < Q2R (snd d)) (num l).
Proof.
  intro H. unfold num. apply Forall_forall. intros d Hd. apply in_map_iff in Hd. destruct Hd as [s [<- Hs]]. simpl.
  rewrite Forall_forall in H. apply secE_pos, H, Hs.
Qed.

Lemma num_lr_bounded M l : Forall (fun s => Rabs (Q2R (s_lr s)) <= M) l -> lr_bounded M (num l).
Proof.
  intro H. unfold lr_bounded, num. apply Forall_forall. intros d Hd. apply in_map_iff in Hd. destruct Hd as [s [<- Hs]]. simpl.
  rewrite Forall_forall in H. apply H, Hs.
Qed.

Lemma inv_secs_forall (P : sec -> Prop) l : (forall s, P s -> P (flip s)) -> Forall P l -> Forall P (inv_secs l).
Proof.
  intros HP H. unfold inv_secs. apply Forall_forall. intros s Hs. apply in_map_iff in Hs. destruct Hs as [s' [<- Hs']].
  apply in_rev in Hs'. rewrite Forall_forall in H. apply HP, H, Hs'.
Qed.

(** positivity passes through [spec_close] (so that it is needed on one side only) *)
Lemma spec_close_pos tau g1 g2 : 0 <= Q2R tau < 1 -> spec_close tau g1 g2 = true ->
  Forall (fun d => 0 < Q2R (snd d)) g1 -> Forall (fun d => 0 < Q2R (snd d)) g2.
Proof.
  intro Ht. revert g2. induction g1 as [|[[a n] e] g1 IH]; intros [|[[b k] f] g2] H HP; simpl in H; try discriminate; [constructor|].
  apply andb_true_iff in H. destruct H as [H H4]. apply andb_true_iff in H. destruct H as [H H3].
  inversion HP; subst. constructor; [|apply IH; assumption]. simpl in *.
  eapply closeR_pos; [exact Ht | eassumption | apply isclose_R; exact H3].
Qed.

(** the two written cell sequences of a pair of wires whose gradings passed the check *)
Theorem written_sequences_close (tau : Q) (L M : R) (lw lc : list sec) (al : bool) :
  0 <= Q2R tau < 1 ->
  Forall (fun s => 0 < Q2R (s_E s)) lw -> Forall (fun s => 0 < Q2R (s_E s)) lc ->
  Forall (fun s => Rabs (Q2R (s_lr s)) <= M) lw -> Forall (fun s => Rabs (Q2R (s_lr s)) <= M) lc ->
  spec_close tau (num lw) (if al then num lc else num (inv_secs lc)) = true ->
  cells_within (kappa (Q2R tau) * Rabs L * M) (grading_cells L (numR lw))
    (if al then grading_cells L (numR lc) else rev (grading_cells L (numR lc))).
Proof.
  intros Ht Pw Pc Bw Bc H. destruct al.
  - rewrite (numR_num lw Pw), (numR_num lc Pc).
    apply sequences_close; try assumption; [apply num_pos | apply num_lr_bounded | apply num_lr_bounded]; assumption.
  - rewrite <- cells_inv_secs by exact Pc.
    assert (Forall (fun s => 0 < Q2R (s_E s)) (inv_secs lc)) as Pi by (apply inv_secs_forall; [intros s K; exact K | exact Pc]).
    assert (Forall (fun s => Rabs (Q2R (s_lr s)) <= M) (inv_secs lc)) as Bi by (apply inv_secs_forall; [intros s K; exact K | exact Bc]).
    rewrite (numR_num lw Pw), (numR_num _ Pi).
    apply sequences_close; try assumption; [apply num_pos | apply num_lr_bounded | apply num_lr_bounded]; assumption.
Qed.

(** shared section records (what copy_neighbours leaves behind): exactly the same / the reversed sequence *)
Lemma written_sequences_equal (L : R) (lw lc : list sec) (al : bool) :
  Forall (fun s => 0 < Q2R (s_E s)) lc ->
  lw = (if al then lc else inv_secs lc) ->
  grading_cells L (numR lw) = (if al then grading_cells L (numR lc) else rev (grading_cells L (numR lc))).
Proof. intros Pc ->. destruct al; [reflexivity | apply cells_inv_secs; exact Pc]. Qed.

(** ** 6. on a successfully written mesh *)
Definition expansions_positive (bs : list blk4) (s : st) : Prop := forall w sec, In sec (g s w) -> 0 < Q2R (s_E sec).
Definition ratios_bounded (bs : list blk4) (M : R) (s : st) : Prop := forall w sec, In sec (g s w) -> Rabs (Q2R (s_lr sec)) <= M.

(** [sections_sound] (every calculate-on-a-wire realised its chop) contains positivity *)
Lemma sections_sound_positive bs len s : sections_sound bs len s -> expansions_positive bs s.
Proof. intros H w sec Hs. destruct (H w sec Hs) as [K _]. exact K. Qed.

Section SameSequence.
  Variable bs : list blk4.
  Variable tau : Q.
  Variable eor : wire -> nat -> Q.
  Variable o_coin : wire -> list wire.
  Variable o_nbrs : axis -> list axis.

  Lemma same_sequence cs sp k ch :
    run bs tau eor o_coin o_nbrs = Ok cs sp k ch ->
    exists s, final bs eor o_coin o_nbrs = Some s /\
      forall x w c, In x (all_axes (nblocks4 bs)) -> In w (wires_of_axis x) -> In c (coin_set (gb bs) w) ->
        wcount s c = wcount s w /\
        spec_close tau (num (g s w)) (if aligned (gb bs) c w then num (g s c) else num (inv_secs (g s c))) = true /\
        forall (len : wire -> R) (M : R),
          0 <= Q2R tau < 1 -> len_shared bs R len -> expansions_positive bs s -> ratios_bounded bs M s ->
          let mine := grading_cells (len w) (numR (g s w)) in
          let other := grading_cells (len c) (numR (g s c)) in
          let other' := if aligned (gb bs) c w then other else rev other in
          cells_within (kappa (Q2R tau) * Rabs (len w) * M) mine other' /\
          (g s w = (if aligned (gb bs) c w then g s c else inv_secs (g s c)) -> mine = other').
  Proof.
    intro R0. destruct (run_ok_final bs tau eor o_coin o_nbrs cs sp k ch R0) as (s & F & _ & C & _).
    exists s. split; [exact F|]. intros x w c Hx Hw Hc.
    destruct (consistent_spec bs tau s C x Hx) as [_ H]. destruct (H w c Hw Hc) as [H1 H2].
    split; [exact H1|]. unfold expected_from in H2. split.
    { destruct (aligned (gb bs) c w); exact H2. }
    intros len M Ht Hlen Hpos Hb mine other other'.
    assert (len c = len w) as EL.
    { destruct (vw4_of_axis bs x w Hx Hw) as [Vw _]. apply in_coin_set in Hc. destruct Hc as [Vc Cc].
      unfold vw in Vc. rewrite nblocks_gb in Vc. apply Hlen; assumption. }
    assert (Forall (fun s0 => 0 < Q2R (s_E s0)) (g s w)) as Pw by (apply Forall_forall; intros s0 K; exact (Hpos w s0 K)).
    assert (Forall (fun s0 => 0 < Q2R (s_E s0)) (g s c)) as Pc by (apply Forall_forall; intros s0 K; exact (Hpos c s0 K)).
    assert (Forall (fun s0 => Rabs (Q2R (s_lr s0)) <= M) (g s w)) as Bw by (apply Forall_forall; intros s0 K; exact (Hb w s0 K)).
    assert (Forall (fun s0 => Rabs (Q2R (s_lr s0)) <= M) (g s c)) as Bc by (apply Forall_forall; intros s0 K; exact (Hb c s0 K)).
    subst mine other other'. rewrite EL. split.
    - apply written_sequences_close; assumption.
    - apply written_sequences_equal. exact Pc.
  Qed.
End SameSequence.

(** ** 7. why a tolerance is inherent: two cells, total expansions E1 <> E2 - different first cells *)
Lemma bm_cells_two L E : 0 < E -> bm_cells L 2 E = [L / (1 + E); L / (1 + E) * E].
Proof.
  intro HE.
  assert (bm_ratio 2 E = E) as HR.
  { pose proof (bm_ratio_pow 2 E HE ltac:(lia)) as K. change (2 - 1)%nat with 1%nat in K. rewrite pow_1 in K. exact K. }
  unfold bm_cells, bm_cell, bm_first. cbn [seq map]. rewrite HR.
  cbn [gsum pow]. f_equal; [|f_equal]; field; lra.
Qed.

Lemma bm_cells_two_differ L E1 E2 : L <> 0 -> 0 < E1 -> 0 < E2 -> E1 <> E2 -> bm_cells L 2 E1 <> bm_cells L 2 E2.
Proof.
  intros HL H1 H2 Hne K. rewrite !bm_cells_two in K by assumption. inversion K as [[K1 K2]]. apply Hne.
  assert (/ (1 + E1) = / (1 + E2)) as KI.
  { apply Rmult_eq_reg_l with L; [|exact HL]. exact K1. }
  apply (f_equal Rinv) in KI. rewrite !Rinv_inv in KI. lra.
Qed.

(** ** 8. what "copied" means: WirePropagateManager.copy_neighbours leaves wire [w] with the section records of
    one of its coincident wires (the last defined one in iteration order), reversed and flipped when
    anti-aligned - the premise under which [same_sequence] gives EXACT equality of the cell sequences *)
Section Copied.
  Variable bs : list blk4.
  Variable o_coin : wire -> list wire.

  Let step (w : wire) (s : st) (c : wire) : st :=
    if w_defined s c
    then {| g := upd_g (g s) w (if aligned (gb bs) c w then g s c else inv_secs (g s c)); ach := ach s |}
    else s.

  Lemma copy_fold_other w l : forall s u, u <> w -> g (fold_left (step w) l s) u = g s u.
  Proof.
    induction l as [|c l IH]; intros s u Hu; [reflexivity|]. simpl. rewrite IH by exact Hu.
    unfold step. destruct (w_defined s c); [|reflexivity]. simpl. apply upd_g_other. exact Hu.
  Qed.

  Lemma copy_fold_last w l : forall s, ~ In w l -> (exists c, In c l /\ w_defined s c = true) ->
    exists c, In c l /\ w_defined s c = true /\
      g (fold_left (step w) l s) w = (if aligned (gb bs) c w then g s c else inv_secs (g s c)).
  Proof.
    induction l as [|c l IH] using rev_ind; intros s Hw [c0 [Hc0 D0]]; [destruct Hc0|].
    rewrite fold_left_app. simpl.
    assert (c <> w) as Hcw by (intro E; apply Hw; apply in_or_app; right; left; exact E).
    assert (~ In w l) as Hwl by (intro K; apply Hw; apply in_or_app; left; exact K).
    assert (w_defined (fold_left (step w) l s) c = w_defined s c) as ED.
    { unfold w_defined. rewrite copy_fold_other by exact Hcw. reflexivity. }
    unfold step at 1. rewrite ED. destruct (w_defined s c) eqn:D.
    - exists c. split; [apply in_or_app; right; left; reflexivity|]. split; [exact D|]. simpl.
      rewrite upd_g_same, copy_fold_other by exact Hcw. reflexivity.
    - apply in_app_or in Hc0. destruct Hc0 as [Hc0|[<-|[]]]; [|congruence].
      destruct (IH s Hwl (ex_intro _ c0 (conj Hc0 D0))) as (c1 & H1 & H2 & H3).
      exists c1. split; [apply in_or_app; left; exact H1|]. split; assumption.
  Qed.

  Lemma copy_wire_shares s w :
    coin_ok bs o_coin -> vw4 bs w -> (exists c, In c (o_coin w) /\ w_defined s c = true) ->
    exists c, In c (coin_set (gb bs) w) /\ w_defined s c = true /\
      g (copy_wire bs o_coin s w) w = (if aligned (gb bs) c w then g s c else inv_secs (g s c)) /\
      g (copy_wire bs o_coin s w) c = g s c.
  Proof.
    intros Hco Vw Hex.
    assert (~ In w (o_coin w)) as Hn.
    { intro K. destruct (Hco w w Vw K) as [_ C]. unfold coincident in C. rewrite Nat.eqb_refl in C. discriminate. }
    destruct (copy_fold_last w (o_coin w) s Hn Hex) as (c & H1 & H2 & H3).
    exists c. destruct (Hco w c Vw H1) as [Vc C]. split.
    { apply in_coin_set. split; [unfold vw; rewrite nblocks_gb; exact Vc | exact C]. }
    split; [exact H2|]. split; [exact H3|].
    apply copy_fold_other. intro E. subst c. apply Hn. exact H1.
  Qed.
End Copied.
