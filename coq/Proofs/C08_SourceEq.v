(** C08 - the hand-written model IS what the arc code of the working tree says.

    Gen/C08/Source.v is produced on every run by harness/translate_np.py (python [ast] -> Gallina, fail closed)
    from angle.py, origin.py and functions.py of the working tree.  This file - compiled on every run, after the
    generated one - proves that each translated function equals the corresponding function of Model/C08_Arcs.v for
    ALL real / vector arguments on which the python text has a real-number reading at all; where it has none
    (division by zero, i.e. numpy's nan: the zero vector handed to unit_vector, ...) the translated function is
    [None] and the lemma carries the condition as a hypothesis - the model's total functions (Coq's x / 0 = 0) are
    not equated with numpy's nan.

    The proofs depend on what the python computes, not on how it is written.  [src_eq]: unfold both sides; split on
    the decisions in the order met (no backtracking); a branch in which the source has no value ([None]: a guard
    failed) or source and model took different ways is refuted from the hypotheses ([contra]: [lra]; a zero norm
    against a non-zero vector; the same comparison written differently); at a leaf [Some a = Some b] the values of
    [norm], [sqrt], [acos], [tan], [Rabs], [Rmax] ... whose arguments are equal (or opposite, for [norm] / [Rabs])
    are brought to one form ([unify_atoms]), then [a = b] by [peel]: syntactically, or argument by argument, or - a
    node as a whole - by [ring] / [field] coordinate by coordinate, with the function values and the vector
    sub-expressions both sides share replaced by variables first.  Everything is time-limited: a real difference
    fails in seconds to a minute with "the translated source differs from the model".
    Silent for (self-test, notes/C08.md): commuted dot / cross-of-dot arguments, (a + b) / 2 vs 0.5 * (a + b), extra
    locals, norm(a - b) vs norm(b - a), unit_vector written out by hand.  Unused lemma names of Gen/C08/Source.v are
    never mentioned here ([unfold_src] is generated with the file). *)
From Coq Require Import Reals Lra Psatz List Bool.
From CB Require Import Base.Vec3 Model.C08_Arcs Proofs.C08_Theta Proofs.C08_Chord Proofs.C08_ThreePoint Proofs.C08_Circle.
From CB Require Import Gen.C08.Source.
Import ListNotations.
Open Scope R_scope.

(** ** facts about the primitives *)
Lemma norm_eq_0 v : norm v = 0 -> v = vzero.
Proof.
  intros H. apply norm2_zero. rewrite <- norm_sq, H. ring.
Qed.

Lemma norm_vopp v : norm (vopp v) = norm v.
Proof. unfold norm. f_equal. vec_simpl. ring. Qed.

Lemma norm_neq_0 v : v <> vzero -> norm v <> 0.
Proof. intros H E. apply H. apply norm_eq_0. exact E. Qed.

Lemma s_clip_bounds x : -1 <= s_clip x (-1) 1 <= 1.
Proof.
  unfold s_clip, Rmin, Rmax. destruct (Rle_dec x (-1)); destruct (Rle_dec _ 1); lra.
Qed.

(** Coq's [acos] is constant outside [-1, 1]: clipping its argument changes nothing *)
Lemma acos_clip x : acos (s_clip x (-1) 1) = acos x.
Proof.
  assert (C : (x <= -1 /\ s_clip x (-1) 1 = -1) \/ (1 <= x /\ s_clip x (-1) 1 = 1) \/ s_clip x (-1) 1 = x).
  { unfold s_clip. destruct (Rle_dec x (-1)) as [H|H]; [left|destruct (Rle_dec 1 x) as [H'|H']; [right; left|right; right]].
    - split; [exact H|]. rewrite (Rmax_right x (-1)) by exact H. apply Rmin_left. lra.
    - split; [exact H'|]. rewrite (Rmax_left x (-1)) by lra. apply Rmin_right. exact H'.
    - rewrite (Rmax_left x (-1)) by lra. apply Rmin_left. lra. }
  destruct C as [[H E]|[[H E]|E]]; rewrite E; [|  |reflexivity]; unfold acos.
  - destruct (Rle_dec (-1) (-1)); [|lra]. destruct (Rle_dec x (-1)); [reflexivity|lra].
  - destruct (Rle_dec 1 (-1)); [lra|]. destruct (Rle_dec 1 1); [|lra].
    destruct (Rle_dec x (-1)); [lra|]. destruct (Rle_dec 1 x); [reflexivity|lra].
Qed.

Lemma cos_quarter_pos th : Rabs th < 2 * PI -> 0 < cos (th / 4).
Proof.
  intros H. apply cos_gt_0; unfold Rabs in H; destruct (Rcase_abs th); lra.
Qed.

(** ** the tactic *)
Ltac unfold_model_all :=
  cbv beta iota zeta delta [arc_from_theta theta_pm theta_rm theta_len theta_chord arc_mid secant_mid vunit
    arc_from_origin arc_from_origin_adj arc_from_origin_noadj origin_new_centre origin_flat_radius origin_mean_radius
    arc_length_3point a3_len_at a3_x_at a3_flipq_at a3_centre a3_denom] in *.
Ltac vcoord := cbv [vadd vsub vopp vscale dot cross norm2 vzero vx vy vz fst snd].

(** a non-zero side condition of [field]: a hypothesis, possibly written differently *)
Ltac nz :=
  repeat split;
  first [ assumption | lra
        | match goal with H : ?y <> 0 |- ?x <> 0 => let E := fresh "E" in intro E; apply H; rewrite <- E; ring end
        | match goal with H : 0 < ?y |- ?x <> 0 => apply Rgt_not_eq; replace x with y by ring; exact H end ].
(** equal reals / equal vectors.  [peel]: syntactically, or argument by argument when both sides apply the same
    function (so that a small rewrite deep inside a big expression is compared where it is), or - the node as a whole -
    as polynomials / fractions, coordinate by coordinate, after the vector sub-expressions that both sides share
    syntactically have been replaced by variables (the circumcentre, the adjusted centre ... are never expanded into
    coordinates unless they are themselves what differs).  Time-limited: a difference must fail, not hang. *)
Ltac gen_common :=
  repeat match goal with
  | |- ?l = ?r =>
      match l with
      | context [?t] =>
          lazymatch type of t with vec => idtac end;
          lazymatch t with ?f ?a => idtac end;
          lazymatch t with (_, _) => fail | _ => idtac end;
          match r with context [t] => generalize t; intro end
      end
  end.
Ltac poly := first [ ring | (field; nz) ].
(** the values of the non-polynomial functions are opaque to [ring] / [field] anyway: they become variables (in the
    hypotheses too), so that their arguments are not expanded into coordinates *)
Ltac gen_atom f :=
  match goal with |- context [f ?x] => let a := fresh "atom" in set (a := f x) in *; clearbody a end.
Ltac gen_atom2 f :=
  match goal with |- context [f ?x ?y] => let a := fresh "atom" in set (a := f x y) in *; clearbody a end.
Ltac gen_atoms :=
  repeat first [ gen_atom norm | gen_atom sqrt | gen_atom acos | gen_atom tan | gen_atom cos | gen_atom sin | gen_atom Rabs
               | gen_atom2 Rmax | gen_atom2 Rmin ].
Ltac whole :=
  first [ timeout 2 ring
        | timeout 4 (gen_atoms; vcoord; poly)
        | timeout 4 (gen_atoms; apply vec_eq; vcoord; poly)
        | timeout 8 (gen_atoms; gen_common; first [ vcoord; poly | apply vec_eq; vcoord; poly ]) ].
Ltac peel n :=
  first [ reflexivity
        | lazymatch n with S ?k => solve [ progress f_equal; peel k ] end
        | whole ].
Ltac eqd := peel 40%nat.
Ltac req := eqd.
Ltac veq := eqd.

(** bring the arguments of the non-polynomial functions that are equal (as polynomials / fractions, coordinate by
    coordinate) to one form, innermost first by repetition *)
Definition tried (a b : R) : Prop := True.
Ltac untried a b := lazymatch goal with _ : tried a b |- _ => fail | _ => idtac end.
(** one untried pair (an atom of the source side, an atom of the model side; not both already present on the other
    side as they are): made equal, or marked as different *)
Ltac absent t r := lazymatch r with context [t] => fail | _ => idtac end.
Ltac unify1 f tac :=
  match goal with
  | |- ?l = ?r =>
      match l with
      | context [f ?x] =>
          match r with
          | context [f ?y] =>
              lazymatch y with x => fail | _ => idtac end; untried (f x) (f y);
              first [ absent (f x) r | absent (f y) l ];
              first [ replace (f x) with (f y) by (f_equal; timeout 6 tac) | pose proof (I : tried (f x) (f y)) ]
          end
      end
  end.
Ltac unify2 f :=
  match goal with
  | |- ?l = ?r =>
      match l with
      | context [f ?x1 ?x2] =>
          match r with
          | context [f ?y1 ?y2] =>
              lazymatch constr:((y1, y2)) with (x1, x2) => fail | _ => idtac end; untried (f x1 x2) (f y1 y2);
              first [ absent (f x1 x2) r | absent (f y1 y2) l ];
              first [ replace (f x1 x2) with (f y1 y2) by (f_equal; timeout 6 req) | pose proof (I : tried (f x1 x2) (f y1 y2)) ]
          end
      end
  end.
(** |v| = |-v|, |x| = |-x|: [norm (a - b)] and [norm (b - a)] are the same number *)
Ltac unify_norm_opp :=
  match goal with
  | |- ?l = ?r =>
      match l with
      | context [norm ?x] =>
          match r with
          | context [norm ?y] =>
              lazymatch y with x => fail | _ => idtac end; untried (norm (vopp x)) (norm y);
              first [ absent (norm x) r | absent (norm y) l ];
              first [ replace (norm x) with (norm y) by (rewrite <- (norm_vopp y); f_equal; timeout 6 veq)
                    | pose proof (I : tried (norm (vopp x)) (norm y)) ]
          end
      end
  end.
Ltac unify_abs_opp :=
  match goal with
  | |- ?l = ?r =>
      match l with
      | context [Rabs ?x] =>
          match r with
          | context [Rabs ?y] =>
              lazymatch y with x => fail | _ => idtac end; untried (Rabs (- x)) (Rabs y);
              first [ absent (Rabs x) r | absent (Rabs y) l ];
              first [ replace (Rabs x) with (Rabs y) by (rewrite <- (Rabs_Ropp y); f_equal; timeout 6 req)
                    | pose proof (I : tried (Rabs (- x)) (Rabs y)) ]
          end
      end
  end.
Ltac unify_atoms :=
  repeat first [ unify1 sqrt req | unify1 Rabs req | unify2 Rmax | unify2 Rmin | unify1 tan req | unify1 cos req | unify1 sin req
               | unify1 acos req | unify1 norm veq | unify_abs_opp | unify_norm_opp ];
  repeat match goal with H : tried _ _ |- _ => clear H end.

Ltac head_scrut t :=
  lazymatch t with
  | match ?c with _ => _ end => head_scrut c
  | _ => t
  end.
Ltac is_done t := lazymatch t with Some _ => idtac | None => idtac end.
Ltac split_head t :=
  let c := head_scrut t in
  lazymatch c with
  | Rlt_dec ?a ?b => destruct (Rlt_dec a b)
  | Rle_dec ?a ?b => destruct (Rle_dec a b)
  | Req_EM_T ?a ?b => destruct (Req_EM_T a b)
  | _ => fail "a decision of an unexpected kind:" c
  end.

(** the same comparison written differently *)
Ltac same_by tac H1 H2 :=
  lazymatch type of H2 with
  | ~ ?c < ?d => lazymatch type of H1 with ?a < ?b => apply H2; replace d with b by tac; replace c with a by tac; exact H1 end
  | ~ ?c <= ?d => lazymatch type of H1 with ?a <= ?b => apply H2; replace d with b by tac; replace c with a by tac; exact H1 end
  | ?c <> ?d => lazymatch type of H1 with ?a = ?b => apply H2; replace d with b by tac; replace c with a by tac; exact H1 end
  end.
Ltac by_norm0 H E :=
  lazymatch type of E with norm ?v = 0 =>
    lazymatch type of H with ?w <> vzero => apply H; first [ exact (norm_eq_0 v E) | replace w with v by veq; exact (norm_eq_0 v E) ] end end.
(** a hypothesis next to the newest ones that speaks about the same quantities written differently
    ([Rabs (a * b - c)] and [Rabs (b * a - c)], ...): its sides are brought to the form of the other's, then [lra] *)
Ltac whole_cheap :=
  first [ timeout 1 ring | timeout 2 (gen_atoms; vcoord; poly) | timeout 2 (gen_atoms; apply vec_eq; vcoord; poly)
        | timeout 3 (gen_atoms; gen_common; vcoord; poly) ].
Ltac peelc n :=
  first [ reflexivity | lazymatch n with S ?k => solve [ progress f_equal; peelc k ] end | whole_cheap ].
Ltac ceq := peelc 40%nat.
Ltac is_numeral t :=
  lazymatch t with IZR _ => idtac | / IZR _ => idtac | - IZR _ => idtac | IZR _ / IZR _ => idtac end.
Ltac rel_sides P k :=
  lazymatch P with
  | ?a < ?b => k a b | ?a <= ?b => k a b | ~ ?a < ?b => k a b | ~ ?a <= ?b => k a b
  | ?a = ?b => let T := type of a in lazymatch T with R => k a b end
  | ?a <> ?b => let T := type of a in lazymatch T with R => k a b end
  end.
Ltac head_of t := lazymatch t with ?f _ => head_of f | _ => t end.
Ltac try_side H2 t2 t1 :=
  lazymatch t2 with
  | t1 => idtac
  | _ => first [ is_numeral t2 | is_numeral t1
               | (let h1 := head_of t1 in let h2 := head_of t2 in constr_eq h1 h2); replace t2 with t1 in H2 by ceq
               | idtac ]
  end.
Ltac align H1 H2 :=
  let P1 := type of H1 in
  let P2 := type of H2 in
  rel_sides P1 ltac:(fun a b => rel_sides P2 ltac:(fun c d =>
    try_side H2 c a; try_side H2 c b; try_side H2 d a; try_side H2 d b)).
Ltac contra :=
  exfalso;
  first
  [ lra
  | match goal with H : ~ -1 <= s_clip ?x (-1) 1 |- _ => destruct (s_clip_bounds x); lra end
  | match goal with H : ~ s_clip ?x (-1) 1 <= 1 |- _ => destruct (s_clip_bounds x); lra end
  | match goal with E : norm ?v = 0, H : ?w <> vzero |- _ => solve [by_norm0 H E] end
  | match goal with E : norm ?v * norm ?w = 0 |- _ =>
      let E1 := fresh "E" in
      destruct (Rmult_integral _ _ E) as [E1|E1]; match goal with H : ?u <> vzero |- _ => solve [by_norm0 H E1] end end
  | match goal with H1 : _, H2 : _ |- _ => solve [same_by ceq H1 H2] end
  | match goal with H2 : _ |- _ =>
      match goal with H1 : _ |- _ =>
        lazymatch H1 with H2 => fail | _ => idtac end; align H1 H2; solve [ lra | contradiction ]
      end
    end ].
(** during the case analysis only the contradictions that [lra] sees; the rest where a branch has to go *)
Ltac prune := try solve [exfalso; lra].

Ltac inner_decisions :=
  repeat match goal with
  | |- context [Rlt_dec ?a ?b] => destruct (Rlt_dec a b); prune
  | |- context [Rle_dec ?a ?b] => destruct (Rle_dec a b); prune
  | |- context [Req_EM_T ?a ?b] => destruct (Req_EM_T a b); prune
  end.
Ltac leaf n :=
  first [ reflexivity | req | veq | lazymatch n with S ?k => progress f_equal; leaf k end ].
(** a leaf that cannot be closed is left open (no backtracking into the case analysis) *)
Ltac finish :=
  lazymatch goal with
  | |- None = None => reflexivity
  | |- Some _ = Some _ =>
      inner_decisions;
      try solve [ exfalso; match goal with H1 : _, H2 : _ |- _ => solve [same_by ceq H1 H2] end ];
      rewrite ?acos_clip; unify_atoms; try solve [ leaf 4%nat | contra ]
  | |- _ => try solve [contra]
  end.
Ltac go :=
  cbv beta iota zeta; prune;
  lazymatch goal with
  | |- ?l = ?r =>
      tryif is_done l then (tryif is_done r then finish else (split_head r; go)) else (split_head l; go)
  | |- _ => idtac
  end.
Ltac src_eq :=
  unfold_src; unfold_model_all; go;
  fail "the translated source differs from the model (or the difference is beyond this tactic)".

(** ** the helpers *)
Lemma src_norm_eq tol v : src_norm tol v = Some (norm v).
Proof. src_eq. Qed.

(** numpy: [nan nan nan] for the zero vector (0 / 0 three times, RuntimeWarning); no real-number reading *)
Lemma src_unit_vector_eq tol v : v <> vzero -> src_unit_vector tol v = Some (vunit v).
Proof. intros H. src_eq. Qed.
Lemma src_unit_vector_zero tol : src_unit_vector tol vzero = None.
Proof.
  unfold_src. destruct (Req_EM_T (norm vzero) 0) as [_|n]; [reflexivity|].
  exfalso. apply n. unfold norm, norm2. vcoord. replace (0 * 0 + 0 * 0 + 0 * 0) with 0 by ring. apply sqrt_0.
Qed.

(** divide_arc(axis, center, p1, p2, 1) / arc_mid: the axis is not used *)
Lemma src_arc_mid_eq tol ax c p1 p2 : secant_mid p1 p2 <> c -> src_arc_mid tol ax c p1 p2 = Some (arc_mid c p1 p2).
Proof.
  intros H. assert (H' : vsub (secant_mid p1 p2) c <> vzero) by (intro E; apply H; apply vsub_zero_eq; exact E).
  unfold secant_mid in H'. src_eq.
Qed.
Lemma src_divide_arc_eq tol ax c p1 p2 : secant_mid p1 p2 <> c -> src_divide_arc tol ax c p1 p2 = Some [arc_mid c p1 p2].
Proof.
  intros H. assert (H' : vsub (secant_mid p1 p2) c <> vzero) by (intro E; apply H; apply vsub_zero_eq; exact E).
  unfold secant_mid in H'. src_eq.
Qed.

(** ** arc_from_theta (angle.py) *)
Lemma src_arc_from_theta_eq tol p1 p2 th a :
  0 < Rabs th < 2 * PI -> cross (vsub p2 p1) a <> vzero ->
  src_arc_from_theta tol p1 p2 th a = Some (arc_from_theta p1 p2 th a).
Proof.
  intros [H0 H1] Hc. pose proof (cos_quarter_pos th H1) as Hq. src_eq.
Qed.
(** the guard of the python text: ValueError *)
Lemma src_arc_from_theta_guard tol p1 p2 th a :
  ~ 0 < Rabs th < 2 * PI -> src_arc_from_theta tol p1 p2 th a = None.
Proof.
  intros H. assert (H' : Rabs th <= 0 \/ 2 * PI <= Rabs th).
  { destruct (Rlt_dec 0 (Rabs th)); [|lra]. destruct (Rlt_dec (Rabs th) (2 * PI)); [|lra]. exfalso. apply H. lra. }
  clear H. destruct H'; src_eq.
Qed.

(** ** arc_length_3point (functions.py) *)
(** three points with [a3_denom <> 0] (not collinear) are all away from the computed centre *)
Lemma a3_start_off_centre ps pb pe :
  a3_denom ps pb pe <> 0 -> vsub ps (a3_centre ps pb pe) <> vzero /\ vsub pe (a3_centre ps pb pe) <> vzero.
Proof.
  intros Hd. destruct (a3_equidistant ps pb pe Hd) as [E1 E2].
  assert (K : vsub ps (a3_centre ps pb pe) <> vzero).
  { intro E. rewrite E in E1. replace (norm2 vzero) with 0 in E1 by (vcoord; ring).
    apply norm2_zero in E1. apply vsub_zero_eq in E, E1. apply Hd.
    assert (X : pb = ps) by (rewrite E1; symmetry; exact E).
    unfold a3_denom. rewrite X. vcoord. ring. }
  split; [exact K|]. intro E. apply K. apply norm2_zero. rewrite <- E2, E. vcoord. ring.
Qed.

Lemma src_arc_length_3point_eq tol ps pb pe :
  / 1000000000000000000 <= Rabs (a3_denom ps pb pe) ->
  src_arc_length_3point tol ps pb pe = Some (arc_length_3point ps pb pe).
Proof.
  intros Hd.
  assert (Hn : a3_denom ps pb pe <> 0) by (intro E; rewrite E, Rabs_R0 in Hd; lra).
  destruct (a3_start_off_centre ps pb pe Hn) as [Hs He].
  unfold a3_centre in Hs, He. unfold a3_denom in *. src_eq.
Qed.
(** the guard of the python text: ValueError("Invalid arc points!") *)
Lemma src_arc_length_3point_guard tol ps pb pe :
  Rabs (a3_denom ps pb pe) < / 1000000000000000000 -> src_arc_length_3point tol ps pb pe = None.
Proof. intros H. src_eq. Qed.

(** ** arc_from_origin (origin.py), adjust_center = True as in OriginEdge *)
(** where the python text has a real-number reading: in the branch that keeps the given origin, the origin is not the
    middle of the chord (unit_vector of the zero vector); in the branches that move the centre (the origin is not
    equidistant, or a flatness is given), origin and end points are not collinear (unit_vector(cross(axis, chord))),
    the radius is at least half the chord (python float ** 0.5 of a negative number: a complex number) and not exactly
    half the chord (the new centre would be the middle of the chord) *)
Definition origin_adj_dom (p1 p3 c : vec) (r : R) : Prop :=
  cross (cross (vsub p1 c) (vsub p3 c)) (vsub p3 p1) <> vzero
  /\ 0 <= r * r - / 4 * (norm (vsub p3 p1) * norm (vsub p3 p1))
  /\ vsub (secant_mid p1 p3) (origin_new_centre p1 p3 c r) <> vzero.
Definition origin_dom (tol : R) (p1 p3 c : vec) (mult : R) : Prop :=
  if Req_EM_T mult 1 then
    (if Rlt_dec tol (Rabs (norm (vsub p1 c) - norm (vsub p3 c)))
     then origin_adj_dom p1 p3 c (origin_mean_radius p1 p3 c)
     else vsub (secant_mid p1 p3) c <> vzero)
  else origin_adj_dom p1 p3 c (origin_flat_radius p1 p3 c mult).

Lemma src_arc_from_origin_eq tol p1 p3 c mult :
  origin_dom tol p1 p3 c mult ->
  src_arc_from_origin tol p1 p3 c true mult = Some (arc_from_origin tol p1 p3 c mult).
Proof.
  unfold origin_dom, origin_adj_dom.
  destruct (Req_EM_T mult 1) as [Hm|Hm]; [destruct (Rlt_dec tol (Rabs (norm (vsub p1 c) - norm (vsub p3 c)))) as [Ht|Ht]|].
  - intros (H1 & H2 & H3). src_eq.
  - intros H1. src_eq.
  - intros (H1 & H2 & H3). src_eq.
Qed.

(** ** the domain in geometric terms: origin and end points not collinear *)
Lemma vzero_norm2 : norm2 vzero = 0.
Proof. vcoord. ring. Qed.

Lemma norm_vunit w : w <> vzero -> norm (vunit w) = 1.
Proof.
  intros H. pose proof (norm_pos_neq w H) as Hp. unfold vunit. rewrite norm_scale.
  rewrite Rabs_right by (apply Rle_ge; left; apply Rinv_0_lt_compat; exact Hp). field. lra.
Qed.

Lemma noncollinear_facts r1 r3 :
  cross r1 r3 <> vzero ->
  cross (cross r1 r3) (vsub r3 r1) <> vzero /\ vsub r3 r1 <> vzero /\ vadd r1 r3 <> vzero
  /\ norm (vsub r3 r1) < norm r1 + norm r3.
Proof.
  intros H. pose proof (norm2_pos_neq _ H) as Hx.
  assert (Hc : vsub r3 r1 <> vzero).
  { intro E. apply H. apply vsub_zero_eq in E. rewrite E. vec_ring. }
  assert (Hs : vadd r1 r3 <> vzero).
  { intro E. apply H. replace r3 with (vopp r1). - vec_ring.
    - apply vec_eq; apply (f_equal vx) in E as Ex; apply (f_equal vy) in E as Ey; apply (f_equal vz) in E as Ez;
        revert Ex Ey Ez; vcoord; intros; lra. }
  split; [|split; [exact Hc|split; [exact Hs|]]].
  - intro E. apply (f_equal norm2) in E. rewrite vzero_norm2, lagrange in E.
    replace (dot (cross r1 r3) (vsub r3 r1)) with 0 in E by (vcoord; ring).
    pose proof (norm2_pos_neq _ Hc) as Hp. nra.
  - pose proof (norm_nonneg r1) as N1. pose proof (norm_nonneg r3) as N3. pose proof (norm_nonneg (vsub r3 r1)) as Nc.
    pose proof (norm_sq r1) as S1. pose proof (norm_sq r3) as S3. pose proof (norm_sq (vsub r3 r1)) as Sc.
    pose proof (lagrange r1 r3) as L.
    assert (Ec : norm2 (vsub r3 r1) = norm2 r1 + norm2 r3 - 2 * dot r1 r3) by (vcoord; ring).
    (* |r1||r3| > -r1.r3 *)
    set (P := norm r1 * norm r3). assert (HP : 0 <= P) by (unfold P; nra).
    assert (PP : P * P = norm2 r1 * norm2 r3) by (unfold P; rewrite <- S1, <- S3; ring).
    assert (Q : dot r1 r3 * dot r1 r3 < P * P) by (rewrite PP; lra).
    assert (K : - dot r1 r3 < P).
    { destruct (Rlt_dec (- dot r1 r3) P) as [|N]; [assumption|exfalso]. apply Rnot_lt_le in N.
      assert (P * P <= (- dot r1 r3) * (- dot r1 r3)) by (apply Rmult_le_compat; lra). lra. }
    assert (T : norm (vsub r3 r1) * norm (vsub r3 r1) < (norm r1 + norm r3) * (norm r1 + norm r3)).
    { rewrite Sc, Ec. replace ((norm r1 + norm r3) * (norm r1 + norm r3)) with (norm2 r1 + norm2 r3 + 2 * P)
        by (unfold P; rewrite <- S1, <- S3; ring). lra. }
    destruct (Rlt_dec (norm (vsub r3 r1)) (norm r1 + norm r3)) as [|N]; [assumption|exfalso]. apply Rnot_lt_le in N.
    assert ((norm r1 + norm r3) * (norm r1 + norm r3) <= norm (vsub r3 r1) * norm (vsub r3 r1)) by (apply Rmult_le_compat; lra).
    lra.
Qed.

Lemma origin_adj_dom_geometric p1 p3 c r :
  cross (vsub p1 c) (vsub p3 c) <> vzero -> norm (vsub p3 p1) < 2 * r -> origin_adj_dom p1 p3 c r.
Proof.
  intros H Hr. destruct (noncollinear_facts _ _ H) as (K1 & K2 & _ & _).
  replace (vsub (vsub p3 c) (vsub p1 c)) with (vsub p3 p1) in * by vec_ring.
  pose proof (norm_nonneg (vsub p3 p1)) as Nc.
  assert (Hpos : 0 < r * r - / 4 * (norm (vsub p3 p1) * norm (vsub p3 p1))) by nra.
  unfold origin_adj_dom. split; [exact K1|split; [lra|]].
  set (h := sqrt (r * r - / 4 * (norm (vsub p3 p1) * norm (vsub p3 p1)))).
  assert (Hh : 0 < h) by (apply sqrt_lt_R0; exact Hpos).
  set (w := cross (cross (vsub p1 c) (vsub p3 c)) (vsub p3 p1)) in *.
  replace (vsub (secant_mid p1 p3) (origin_new_centre p1 p3 c r)) with (vscale (- h) (vunit w))
    by (unfold secant_mid, origin_new_centre, h, w; cbv zeta;
        match goal with |- context [vunit ?x] => generalize (vunit x) end;
        match goal with |- context [sqrt ?x] => generalize (sqrt x) end; intros; apply vec_eq; vcoord; field).
  intro E. apply (f_equal norm) in E. rewrite norm_scale, (norm_vunit w K1) in E.
  replace (norm vzero) with 0 in E by (unfold norm; rewrite vzero_norm2, sqrt_0; reflexivity).
  rewrite Rabs_Ropp, Rabs_right in E by lra. lra.
Qed.

(** the python text has a real-number reading whenever the origin is not on the line through the end points *)
Lemma origin_dom_geometric tol p1 p3 c mult :
  cross (vsub p1 c) (vsub p3 c) <> vzero -> origin_dom tol p1 p3 c mult.
Proof.
  intros H. destruct (noncollinear_facts _ _ H) as (K1 & K2 & K3 & K4).
  replace (vsub (vsub p3 c) (vsub p1 c)) with (vsub p3 p1) in * by vec_ring.
  pose proof (norm_pos_neq _ K2) as Hc.
  unfold origin_dom.
  destruct (Req_EM_T mult 1); [destruct (Rlt_dec tol (Rabs (norm (vsub p1 c) - norm (vsub p3 c))))|].
  - apply origin_adj_dom_geometric; [exact H|]. unfold origin_mean_radius. lra.
  - replace (vsub (secant_mid p1 p3) c) with (vscale (/ 2) (vadd (vsub p1 c) (vsub p3 c))) by (unfold secant_mid; vec_field).
    intro E. apply K3. apply (f_equal (vscale 2)) in E. rewrite vscale_vscale in E.
    replace (2 * / 2) with 1 in E by field. rewrite vscale_1 in E. rewrite E. vec_ring.
  - apply origin_adj_dom_geometric; [exact H|]. unfold origin_flat_radius.
    pose proof (Rmax_r (origin_mean_radius p1 p3 c * mult) (1001 / 1000 * / 2 * norm (vsub p3 p1))). lra.
Qed.

(** the branch that keeps the given origin, for an origin that is merely not the middle of the chord (covers
    coincident end points) *)
Lemma origin_dom_equidistant tol p1 p3 c :
  0 <= tol -> norm2 (vsub p1 c) = norm2 (vsub p3 c) -> vadd (vsub p1 c) (vsub p3 c) <> vzero -> origin_dom tol p1 p3 c 1.
Proof.
  intros Ht He Hs. unfold origin_dom. destruct (Req_EM_T 1 1) as [_|N]; [|exfalso; apply N; reflexivity].
  rewrite (norm_eq_of_norm2 _ _ He). replace (norm (vsub p3 c) - norm (vsub p3 c)) with 0 by ring. rewrite Rabs_R0.
  destruct (Rlt_dec tol 0); [lra|].
  replace (vsub (secant_mid p1 p3) c) with (vscale (/ 2) (vadd (vsub p1 c) (vsub p3 c))) by (unfold secant_mid; vec_field).
  intro E. apply Hs. apply (f_equal (vscale 2)) in E. rewrite vscale_vscale in E.
  replace (2 * / 2) with 1 in E by field. rewrite vscale_1 in E. rewrite E. vec_ring.
Qed.

(** satisfiable *)
Example origin_dom_example : origin_dom (/ 10000000) (1, 0, 0) (0, 1, 0) (0, 0, 0) 2.
Proof.
  apply origin_dom_geometric. intro E. apply (f_equal vz) in E. revert E. vcoord. lra.
Qed.

(** ** the hypotheses of the theorems of Properties/C08.v put the arguments inside these domains *)
Lemma theta_cross_nonzero p1 p2 a :
  dot a a = 1 -> dot (vsub p2 p1) a = 0 -> vsub p2 p1 <> vzero -> cross (vsub p2 p1) a <> vzero.
Proof.
  intros Ha Hd Hn E. apply (f_equal norm2) in E. rewrite lagrange, vzero_norm2 in E.
  unfold norm2 at 2 in E. rewrite Ha, Hd in E. pose proof (norm2_pos_neq _ Hn). lra.
Qed.

Lemma circle_ends_not_opposite c rad u v phi :
  onb u v -> 0 < rad -> 0 < phi < PI ->
  vadd (vsub (cpt c rad u v 0) c) (vsub (cpt c rad u v phi) c) <> vzero.
Proof.
  intros (Hu & Hv & Huv) Hr Hphi E. apply (f_equal (fun x => dot x v)) in E.
  assert (Hs : 0 < sin phi) by (apply sin_gt_0; lra).
  replace (dot (vadd (vsub (cpt c rad u v 0) c) (vsub (cpt c rad u v phi) c)) v)
    with (rad * ((cos 0 + cos phi) * dot u v + (sin 0 + sin phi) * dot v v)) in E by (unfold cpt, lin; vcoord; ring).
  replace (dot vzero v) with 0 in E by (vcoord; ring).
  rewrite Huv, Hv, sin_0 in E. nra.
Qed.
