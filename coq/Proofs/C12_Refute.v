(** C12 - the three defects of the original code, established on its transcription
    ([original] : the same state machine with the repairs switched off), and examples showing that the
    hypotheses of the positive theorems are satisfiable. *)
From Coq Require Import List Bool Arith ZArith Lia.
From CB Require Import Model.C12_MeshLife Proofs.C12_Lists Proofs.C12_MeshLife Proofs.C12_Roundtrip.
Import ListNotations.

(** the tables as they are in util/constants.py (only used for the witnesses below; Properties/C12.v
    checks that they are the tabulated ones) *)
Definition tb0 : tables :=
  {| face_map := [[0; 1; 2; 3]; [4; 5; 6; 7]; [4; 5; 1; 0]; [5; 1; 2; 6]; [7; 6; 2; 3]; [4; 0; 3; 7]];
     axis_pairs := [[(0, 1); (3, 2); (7, 6); (4, 5)]; [(0, 3); (1, 2); (5, 6); (4, 7)]; [(0, 4); (1, 5); (2, 6); (3, 7)]];
     default_kind := 0 |}.

Definition box (x0 : Z) (pat : list (option nat)) : op :=
  {| o_pts := [(x0, 0, 0); (x0 + 8, 0, 0); (x0 + 8, 8, 0); (x0, 8, 0);
               (x0, 0, 8); (x0 + 8, 0, 8); (x0 + 8, 8, 8); (x0, 8, 8)]%Z;
     o_pat := pat; o_chops := [[2]; [3]; [4]] |}.
Definition nopat : list (option nat) := [None; None; None; None; None; None].
Definition store2 : list (nat * op) := [(0, box 0 [None; None; None; None; None; Some 1]); (1, box 8 nopat)].

Example clean_init store : clean (init store).
Proof. repeat split. constructor. Qed.
Example store2_wf : store_wf store2 /\ pts_wf store2.
Proof.
  split; intros k o [H|[H|[]]]; inversion H; subst; reflexivity.
Qed.

(** 1. a second write does not give the same file (gradings pile up) *)
Theorem original_write_twice_refuted :
  ~ (forall tb s s2 ev, write original tb s = Ok s2 ev -> write original tb s2 = Ok s2 ev).
Proof.
  intro H.
  pose (s := {| depot := [1]; ops := store2; deleted := []; verts := []; blocks := []; patches := []; prank := [];
                dflt := None; merged := [] |}).
  remember (write original tb0 s) as r eqn:E. vm_compute in E.
  destruct r as [s2 ev|e]; [|discriminate]. symmetry in E. pose proof (H tb0 s s2 ev) as H2.
  inversion E as [[Es Ee]]. rewrite <- Es, <- Ee in H2.
  assert (W : write original tb0 s = Ok s2 ev) by (rewrite <- Es, <- Ee; vm_compute; reflexivity).
  rewrite <- Es, <- Ee in W. specialize (H2 W). vm_compute in H2. discriminate.
Qed.

(** with two blocks sharing an edge the check is more visible: the same holds for [fixed] by write_idempotent *)
Example fixed_write_twice :
  let h := [Add 0; Add 1; Write; Write] in
  match run fixed tb0 (init store2) h with
  | ([EFile f1; EFile f2], None) => file_eqb f1 f2 = true
  | _ => False
  end.
Proof. vm_compute. reflexivity. Qed.
(** the same with PROPAGATED gradings: operation 1 is the box [8,16]x[0,8]x[0,8] with its corners listed
    from another corner (local axis 0 runs against the x axis of operation 0, local axis 1 against y) and
    carries no chops along its axes 1 and 2; operation 0 has a two-section chop along y.  The second file
    equals the first; block 1 has the sections of operation 0 in reversed order. *)
Definition store3 : list (nat * op) :=
  [(0, {| o_pts := o_pts (box 0 nopat); o_pat := nopat; o_chops := [[2]; [1; 3]; [4]] |});
   (1, {| o_pts := [(16, 8, 0); (8, 8, 0); (8, 0, 0); (16, 0, 0); (16, 8, 8); (8, 8, 8); (8, 0, 8); (16, 0, 8)]%Z;
          o_pat := nopat; o_chops := [[5]; []; []] |})].
Example fixed_write_twice_propagated :
  let h := [Add 1; Add 0; Write; Write] in
  match run fixed tb0 (init store3) h with
  | ([EFile f1; EFile f2], None) =>
      file_eqb f1 f2 = true
      /\ map (fun b => snd b) (f_blocks f1) = [[[5]; [3; 1]; [4]]; [[2]; [1; 3]; [4]]]
  | _ => False
  end.
Proof. vm_compute. split; reflexivity. Qed.
(** the code before fixes/C12-4.diff (no reset) wrote the same two files on this mesh (count-only chops) *)
Example before_reset_write_twice_propagated :
  run before_reset tb0 (init store3) [Add 1; Add 0; Write; Write] = run fixed tb0 (init store3) [Add 1; Add 0; Write; Write].
Proof. vm_compute. reflexivity. Qed.
(** the original code raised InconsistentGradingsError on the second write of this mesh *)
Example original_write_twice_propagated :
  run original tb0 (init store3) [Add 1; Add 0; Write; Write]
  = (fst (run fixed tb0 (init store3) [Add 1; Add 0; Write]), Some E_inconsistent).
Proof. vm_compute. reflexivity. Qed.
Example original_write_twice :
  let h := [Add 0; Add 1; Write; Write] in
  match run original tb0 (init store2) h with
  | ([EFile f1; EFile f2], None) => file_eqb f1 f2 = false
  | _ => False
  end.
Proof. vm_compute. reflexivity. Qed.

(** 2. clear forgets the type and settings given by modify_patch *)
Theorem original_clear_refuted :
  ~ (forall tb c, clean c -> clear original (assemble tb c) = c).
Proof.
  intro H.
  pose (c := {| depot := []; ops := []; deleted := []; verts := []; blocks := [];
                patches := [{| p_name := 1; p_kind := 2; p_set := [0]; p_mod := true; p_sides := [] |}];
                prank := [1]; dflt := None; merged := [] |}).
  assert (Hc : clean c) by (repeat split; repeat constructor).
  specialize (H tb0 c Hc). vm_compute in H. discriminate.
Qed.

Example original_clear_history :
  let h := [Add 0; ModifyPatch 1 2 (Some [0]); Assemble; Clear; Write] in
  match run original tb0 (init store2) h, run fixed tb0 (init store2) h with
  | ([EFile f1], None), ([EFile f2], None) =>
      map (fun p => snd (fst (fst p))) (f_patches f1) = [0] /\ map (fun p => snd (fst (fst p))) (f_patches f2) = [2]
  | _, _ => False
  end.
Proof. vm_compute. split; reflexivity. Qed.

(** 3. backport with a deleted operation writes into the wrong operations *)
Theorem original_backport_refuted :
  ~ (forall tb c, clean c -> store_wf (ops c) -> pts_wf (ops c) ->
       backport original tb (assemble tb c)
       = if is_assembled (assemble tb c)
         then Ok (assemble tb c) [EPoints (map (fun ko => o_pts (snd ko)) (ops c))]
         else Err E_runtime).
Proof.
  intro H.
  pose (c := {| depot := [0; 1]; ops := store2; deleted := [0]; verts := []; blocks := []; patches := []; prank := [];
                dflt := None; merged := [] |}).
  assert (Hc : clean c) by (repeat split; constructor).
  destruct store2_wf as [W P].
  specialize (H tb0 c Hc W P). vm_compute in H. discriminate.
Qed.

Example original_backport_history :
  let h := [Add 0; Add 1; Delete 0; Assemble; Backport] in
  match run original tb0 (init store2) h, run fixed tb0 (init store2) h with
  | ([EPoints [p0; p1]], None), ([EPoints [q0; q1]], None) =>
      (* operation 0 received the corners of operation 1 *)
      pos_list_eqb p0 (o_pts (box 8 nopat)) = true /\ pos_list_eqb q0 (o_pts (box 0 nopat)) = true
      /\ pos_list_eqb q1 (o_pts (box 8 nopat)) = true
  | _, _ => False
  end.
Proof. vm_compute. repeat split; reflexivity. Qed.

(** hypotheses of backport_moves are satisfiable *)
Example moves_hyps :
  let c := {| depot := [0; 1]; ops := store2; deleted := [0]; verts := []; blocks := []; patches := []; prank := [];
              dflt := None; merged := [] |} in
  clean c /\ NoDup (map fst (live_ops c)).
Proof. simpl. split; [repeat split; constructor|]. vm_compute. constructor; [intros []|constructor]. Qed.

(** 5. before fixes/C12-5b.diff: a patch modified AFTER the assembly is kept by clear while the others are created
    again behind it - 'boundary' comes out in another order.  Operation 0 of [store5] has patch 0 at the bottom
    and patch 1 on top; [add 0; assemble; modify patch 1; clear; write] against the same without clear *)
Definition store5 : list (nat * op) := [(0, box 0 [Some 0; Some 1; None; None; None; None])].
Definition names_of (r : list event * option error) : list (list nat) :=
  map (fun e => match e with EFile f => map (fun p => fst (fst (fst p))) (f_patches f) | _ => [] end) (fst r).
Example before_rank_order_changes :
  names_of (run before_rank tb0 (init store5) [Add 0; Assemble; ModifyPatch 1 1 None; Write]) = [[0; 1]]
  /\ names_of (run before_rank tb0 (init store5) [Add 0; Assemble; ModifyPatch 1 1 None; Clear; Write]) = [[1; 0]]
  /\ names_of (run fixed tb0 (init store5) [Add 0; Assemble; ModifyPatch 1 1 None; Clear; Write]) = [[0; 1]].
Proof. vm_compute. repeat split; reflexivity. Qed.

(** the round-trip law of Proofs/C12_Roundtrip.v as a statement about a configuration of repairs *)
Definition roundtrip_law (c : cfg) : Prop :=
  forall tb store h0 s0 h s,
    steps c tb (init store) h0 = Some s0 ->
    is_assembled (assemble tb (clear c s0)) = true ->
    steps c tb (assemble tb (clear c s0)) h = Some s -> forallb quiet h = true ->
    same_result (write c tb (clear c s)) (write c tb s).

Theorem roundtrip_fixed : roundtrip_law fixed.
Proof. exact roundtrip_reachable. Qed.

Theorem roundtrip_before_rank_refuted : ~ roundtrip_law before_rank.
Proof.
  intro H.
  pose (s0 := with_user (init store5) [0] [] None []).
  assert (E0 : steps before_rank tb0 (init store5) [Add 0] = Some s0) by reflexivity.
  assert (A0 : is_assembled (assemble tb0 (clear before_rank s0)) = true) by (vm_compute; reflexivity).
  destruct (steps before_rank tb0 (assemble tb0 (clear before_rank s0)) [ModifyPatch 1 1 None]) as [s|] eqn:E1;
    [|vm_compute in E1; discriminate].
  pose proof (H tb0 store5 [Add 0] s0 [ModifyPatch 1 1 None] s E0 A0 E1 eq_refl) as X.
  vm_compute in E1. injection E1 as Es. subst s. vm_compute in X. discriminate.
Qed.
