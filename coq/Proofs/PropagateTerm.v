(** What grade_axis / copy_axis / copy_block / scan write, monotonicity of definedness, and
    termination of the propagation loop for EVERY oracle (C02_terminates). *)
From Coq Require Import List Bool Arith Lia.
From CB Require Import Model.Propagate Proofs.PropagateBasics.
Import ListNotations.
Set Default Proof Using "Type".

Section Ops.
  Variable bs : list blk.
  Variable o_coin : wire -> list wire.
  Variable o_nbrs : axis -> list axis.

  Notation copy_wire := (copy_wire bs o_coin).
  Notation grade_axis := (grade_axis bs o_coin).
  Notation copy_axis := (copy_axis bs o_coin o_nbrs).
  Notation copy_block := (copy_block bs o_coin o_nbrs).
  Notation scan := (scan bs o_coin o_nbrs).
  Notation propagate := (propagate bs o_coin o_nbrs).
  Notation n := (nblocks bs).

  (** ** folds of copy_wire *)
  Lemma fold_copy_spec ws : forall s,
    let s' := fold_left copy_wire ws s in
    ach s' = ach s /\ mono s s' /\ (forall u, ~ In u ws -> g s' u = g s u).
  Proof.
    induction ws as [|w ws IH]; intros s; simpl.
    - repeat split; auto. apply mono_refl.
    - specialize (IH (copy_wire s w)). simpl in IH. destruct IH as (A & M & O).
      destruct (copy_wire_spec bs o_coin s w) as (A1 & O1 & _).
      split; [congruence|]. split.
      + eapply mono_trans; [apply copy_wire_mono | exact M].
      + intros u Hu. rewrite O by (intro X; apply Hu; right; exact X). apply O1. intro X. subst. apply Hu. left. reflexivity.
  Qed.

  (** ** fill_wire *)
  Lemma fill_wire_spec x s w :
    let s' := fill_wire x s w in
    ach s' = ach s /\ (forall u, u <> w -> g s' u = g s u) /\
    g s' w = (if w_defined s w then g s w else ach s x).
  Proof.
    unfold fill_wire. destruct (w_defined s w) eqn:D; simpl.
    - repeat split; auto.
    - repeat split; auto.
      + intros u Hu. apply upd_g_other. exact Hu.
      + rewrite upd_g_same. apply w_defined_false_iff in D. rewrite D. reflexivity.
  Qed.

  Lemma fill_wire_mono x s w : mono s (fill_wire x s w).
  Proof.
    destruct (fill_wire_spec x s w) as (_ & O & V). intros u H.
    destruct (wire_eqb u w) eqn:E.
    - apply wire_eqb_eq in E. subst. apply w_defined_iff. rewrite V. rewrite H. apply w_defined_iff. exact H.
    - apply w_defined_iff. rewrite O. { apply w_defined_iff. exact H. }
      intro X. subst. rewrite wire_eqb_refl in E. discriminate.
  Qed.

  Lemma fold_fill_spec x ws : forall s, NoDup ws ->
    let s' := fold_left (fill_wire x) ws s in
    ach s' = ach s /\ mono s s' /\ (forall u, ~ In u ws -> g s' u = g s u) /\
    (forall w, In w ws -> g s' w = (if w_defined s w then g s w else ach s x)).
  Proof.
    induction ws as [|w ws IH]; intros s ND; simpl.
    - repeat split; auto. { apply mono_refl. } intros w [].
    - inversion ND as [|? ? Hnot ND']; subst.
      specialize (IH (fill_wire x s w) ND'). simpl in IH. destruct IH as (A & M & O & V).
      destruct (fill_wire_spec x s w) as (A1 & O1 & V1).
      split; [congruence|]. split; [eapply mono_trans; [apply fill_wire_mono | exact M]|]. split.
      + intros u Hu. rewrite O by (intro X; apply Hu; right; exact X). apply O1. intro X. subst. apply Hu. left. reflexivity.
      + intros u [Hu | Hu].
        * subst u. rewrite O by exact Hnot. exact V1.
        * rewrite V by exact Hu. assert (u <> w) as Ne by (intro X; subst; contradiction).
          unfold w_defined. rewrite O1 by exact Ne. rewrite A1. reflexivity.
  Qed.

  (** ** the chopped branch *)
  Lemma fold_append_spec x ws : forall s, NoDup ws ->
    let s' := fold_left (fun s w => {| g := upd_g (g s) w (g s w ++ ach s x); ach := ach s |}) ws s in
    ach s' = ach s /\ mono s s' /\ (forall u, ~ In u ws -> g s' u = g s u) /\
    (forall w, In w ws -> g s' w = g s w ++ ach s x).
  Proof.
    induction ws as [|w ws IH]; intros s ND; simpl.
    - repeat split; auto. { apply mono_refl. } intros w [].
    - inversion ND as [|? ? Hnot ND']; subst.
      set (s1 := {| g := upd_g (g s) w (g s w ++ ach s x); ach := ach s |}).
      specialize (IH s1 ND'). simpl in IH. destruct IH as (A & M & O & V).
      split; [rewrite A; reflexivity|]. split; [|split].
      + eapply mono_trans; [|exact M]. intros u H. apply w_defined_iff. apply w_defined_iff in H. simpl.
        destruct (wire_eqb u w) eqn:E.
        * apply wire_eqb_eq in E. subst. rewrite upd_g_same. destruct (g s w); [congruence|discriminate].
        * rewrite upd_g_other; [exact H|]. intro X; subst. rewrite wire_eqb_refl in E. discriminate.
      + intros u Hu. rewrite O by (intro X; apply Hu; right; exact X). simpl. apply upd_g_other. intro X; subst. apply Hu. left. reflexivity.
      + intros u [Hu | Hu].
        * subst u. rewrite O by exact Hnot. simpl. apply upd_g_same.
        * rewrite V by exact Hu. simpl. rewrite upd_g_other; [reflexivity|]. intro X; subst; contradiction.
  Qed.

  (** ** grade_axis *)
  Lemma grade_axis_basic s x :
    ach (grade_axis s x) = ach s /\ mono s (grade_axis s x) /\
    (forall u, ~ In u (wires_of_axis x) -> g (grade_axis s x) u = g s u).
  Proof.
    unfold Propagate.grade_axis. destruct (chopped bs x).
    - destruct (fold_append_spec x (wires_of_axis x) s (wires_of_axis_nodup x)) as (A & M & O & _). auto.
    - destruct (fold_copy_spec (wires_of_axis x) s) as (A1 & M1 & O1).
      destruct (fold_fill_spec x (wires_of_axis x) (fold_left copy_wire (wires_of_axis x) s) (wires_of_axis_nodup x)) as (A2 & M2 & O2 & _).
      split; [congruence|]. split; [eapply mono_trans; eauto|]. intros u Hu. rewrite O2, O1; auto.
  Qed.

  Lemma grade_axis_defines s x : ach s x <> [] -> a_defined (grade_axis s x) x = true.
  Proof.
    intro H. unfold Propagate.a_defined. apply forallb_forall. intros w Hw. apply w_defined_iff.
    unfold Propagate.grade_axis. destruct (chopped bs x).
    - destruct (fold_append_spec x (wires_of_axis x) s (wires_of_axis_nodup x)) as (_ & _ & _ & V).
      rewrite V by exact Hw. destruct (g s w); simpl; [exact H | discriminate].
    - destruct (fold_copy_spec (wires_of_axis x) s) as (A1 & _ & _).
      destruct (fold_fill_spec x (wires_of_axis x) (fold_left copy_wire (wires_of_axis x) s) (wires_of_axis_nodup x)) as (_ & _ & _ & V).
      rewrite V by exact Hw. destruct (w_defined _ w) eqn:D.
      + apply w_defined_iff. exact D.
      + rewrite A1. exact H.
  Qed.

  (** ** copy_axis *)
  Lemma copy_axis_false s x s' : copy_axis s x = (s', false) -> s' = s.
  Proof.
    unfold Propagate.copy_axis. destruct (a_defined s x); [intro H; inversion H; reflexivity|].
    destruct (find _ _); intro H; inversion H; reflexivity.
  Qed.

  Lemma copy_axis_mono s x s' u : copy_axis s x = (s', u) -> mono s s'.
  Proof.
    unfold Propagate.copy_axis. destruct (a_defined s x); [intro H; inversion H; apply mono_refl|].
    destruct (find _ _) as [y|]; intro H; inversion H; subst; [|apply mono_refl].
    match goal with |- mono _ (grade_axis ?s1 x) => destruct (grade_axis_basic s1 x) as (_ & M & _) end.
    intros w Hw. apply M. exact Hw.
  Qed.

  Lemma copy_axis_true s x s' : copy_axis s x = (s', true) -> a_defined s x = false /\ a_defined s' x = true.
  Proof.
    unfold Propagate.copy_axis. destruct (a_defined s x) eqn:D; [intro H; inversion H|].
    destruct (find _ _) as [y|] eqn:F; intro H; inversion H; subst. split; [reflexivity|].
    apply grade_axis_defines. simpl. rewrite upd_a_same.
    apply find_some in F. destruct F as [_ F]. apply andb_true_iff in F. destruct F as [_ F].
    unfold has_chops in F. destruct (ach s y) eqn:E; [discriminate|].
    destruct (axis_aligned bs y x).
    - destruct (ach s x); discriminate.
    - intro X. apply app_eq_nil in X. destruct X as [_ X]. simpl in X.
      destruct (rev l); discriminate.
  Qed.

  (** number of undefined axes *)
  Definition UA (s : st) : nat := length (filter (fun x => negb (a_defined s x)) (all_axes n)).

  Lemma filter_le {A} (f f' : A -> bool) l :
    (forall x, f' x = true -> f x = true) -> length (filter f' l) <= length (filter f l).
  Proof.
    intro H. induction l as [|a l IH]; simpl; [lia|].
    destruct (f' a) eqn:E'.
    - rewrite (H _ E'). simpl. lia.
    - destruct (f a); simpl; lia.
  Qed.

  Lemma filter_lt {A} (f f' : A -> bool) l x :
    (forall x, f' x = true -> f x = true) -> In x l -> f x = true -> f' x = false ->
    length (filter f' l) < length (filter f l).
  Proof.
    intros H. induction l as [|a l IH]; simpl; [intros []|]. intros [E | Hin] Fx F'x.
    - subst a. rewrite Fx, F'x. simpl. pose proof (filter_le f f' l H). lia.
    - specialize (IH Hin Fx F'x). destruct (f' a) eqn:E'.
      + rewrite (H _ E'). simpl. lia.
      + destruct (f a); simpl; lia.
  Qed.

  Lemma UA_mono s s' : mono s s' -> UA s' <= UA s.
  Proof.
    intro M. unfold UA. apply filter_le. intros x H. apply negb_true_iff in H. apply negb_true_iff.
    destruct (a_defined s x) eqn:D; [|reflexivity]. rewrite (mono_axis s s' x M D) in H. discriminate.
  Qed.

  Lemma UA_strict s s' x : mono s s' -> In x (all_axes n) -> a_defined s x = false -> a_defined s' x = true -> UA s' < UA s.
  Proof.
    intros M Hin D D'. unfold UA. apply filter_lt with (x := x); auto.
    - intros y H. apply negb_true_iff in H. apply negb_true_iff.
      destruct (a_defined s y) eqn:E; [|reflexivity]. rewrite (mono_axis s s' y M E) in H. discriminate.
    - rewrite D. reflexivity.
    - rewrite D'. reflexivity.
  Qed.

  (** ** copy_block *)
  Lemma copy_block_fold xs : forall s u0 s' u,
    fold_left (fun sb x => let '(s', u) := copy_axis (fst sb) x in (s', u || snd sb)) xs (s, u0) = (s', u) ->
    (forall x, In x xs -> In x (all_axes n)) ->
    mono s s' /\ (u = true -> u0 = true \/ UA s' < UA s) /\ (u = false -> s' = s /\ u0 = false).
  Proof.
    induction xs as [|x xs IH]; intros s u0 s' u H Hin; simpl in H.
    - inversion H; subst. split; [apply mono_refl|]. split; auto.
    - destruct (copy_axis s x) as [s1 u1] eqn:E. simpl in H.
      specialize (IH s1 (u1 || u0) s' u H (fun y Hy => Hin y (or_intror Hy))).
      destruct IH as (M & T & F).
      pose proof (copy_axis_mono _ _ _ _ E) as M1.
      split; [eapply mono_trans; eauto|]. split.
      + intro Hu. destruct (T Hu) as [T1 | T1].
        * apply orb_true_iff in T1. destruct T1 as [T1 | T1]; [|left; exact T1].
          subst u1. right. destruct (copy_axis_true _ _ _ E) as [D D'].
          pose proof (UA_strict s s1 x M1 (Hin x (or_introl eq_refl)) D D'). pose proof (UA_mono s1 s' M). lia.
        * right. pose proof (UA_mono s s1 M1). lia.
      + intro Hu. destruct (F Hu) as [F1 F2]. apply orb_false_iff in F2. destruct F2 as [F2 F3].
        subst. split; [|reflexivity]. apply copy_axis_false in E. congruence.
  Qed.

  Lemma copy_block_spec s b s' u : b < n -> copy_block s b = (s', u) ->
    mono s s' /\ (u = true -> UA s' < UA s) /\ (u = false -> s' = s).
  Proof.
    intros Hb. unfold Propagate.copy_block. destruct (b_defined s b).
    - intro H; inversion H; subst. split; [apply mono_refl|]. split; [discriminate|reflexivity].
    - intro H. apply copy_block_fold in H.
      + destruct H as (M & T & F). split; [exact M|]. split.
        * intro Hu. destruct (T Hu) as [X | X]; [discriminate | exact X].
        * intro Hu. apply F in Hu. destruct Hu as [Hu _]. exact Hu.
      + intros x Hx. apply in_axes_of_block in Hx. apply in_all_axes. lia.
  Qed.

  (** ** scan: one execution of the loop body *)
  Lemma scan_spec todo : forall s before upd s' undef' u',
    scan s before todo upd = (s', undef', u') ->
    (forall i, In i todo -> i < n) ->
    mono s s' /\ length undef' <= length (before ++ todo) /\
    (u' = true -> upd = true \/ length undef' + UA s' < length (before ++ todo) + UA s) /\
    (forall i, In i undef' -> In i (before ++ todo)) /\
    (forall i, In i (before ++ todo) -> ~ In i undef' -> b_defined s' i = true).
  Proof.
    induction todo as [|i rest IH]; intros s before upd s' undef' u' H Hn; simpl in H.
    - inversion H; subst. rewrite app_nil_r. split; [apply mono_refl|]. split; [lia|]. split; [intro X; left; exact X|].
      split; [auto|]. intros i Hi Hnot. contradiction.
    - destruct (b_defined s i) eqn:D.
      + inversion H; subst. split; [apply mono_refl|]. rewrite !app_length. simpl. split; [lia|]. split; [intros _; right; lia|].
        split.
        * intros j Hj. apply in_app_iff in Hj. apply in_app_iff. simpl. destruct Hj as [Hj | Hj]; auto.
        * intros j Hj Hnot. apply in_app_iff in Hj. simpl in Hj.
          destruct Hj as [Hj | [Hj | Hj]]; [exfalso; apply Hnot; apply in_app_iff; left; exact Hj | subst; exact D | exfalso; apply Hnot; apply in_app_iff; right; exact Hj].
      + destruct (copy_block s i) as [s1 u1] eqn:E.
        assert (i < n) as Hi by (apply Hn; left; reflexivity).
        destruct (copy_block_spec s i s1 u1 Hi E) as (M1 & T1 & F1).
        specialize (IH s1 (before ++ [i]) (u1 || upd) s' undef' u' H (fun j Hj => Hn j (or_intror Hj))).
        rewrite <- app_assoc in IH. simpl in IH.
        destruct IH as (M & L & T & I1 & I2).
        split; [eapply mono_trans; eauto|]. split; [exact L|]. split; [|split; [exact I1 | exact I2]].
        intro Hu. destruct (T Hu) as [X | X].
        * apply orb_true_iff in X. destruct X as [X | X]; [|left; exact X].
          right. pose proof (T1 X). pose proof (UA_mono s1 s' M). lia.
        * right. pose proof (UA_mono s s1 M1). lia.
  Qed.

  (** a scan that reports no update changed nothing *)
  Lemma scan_upd_true todo : forall s before, snd (scan s before todo true) = true.
  Proof.
    induction todo as [|i rest IH]; intros s before; simpl; [reflexivity|].
    destruct (b_defined s i); [reflexivity|]. destruct (copy_block s i) as [s1 u1]. rewrite orb_true_r. apply IH.
  Qed.

  Lemma scan_no_update todo : forall s before s' undef',
    (forall i, In i todo -> i < n) ->
    scan s before todo false = (s', undef', false) -> s' = s /\ undef' = before ++ todo.
  Proof.
    induction todo as [|i rest IH]; intros s before s' undef' Hn H; simpl in H.
    - inversion H; subst. rewrite app_nil_r. auto.
    - destruct (b_defined s i); [inversion H|].
      destruct (copy_block s i) as [s1 u1] eqn:E. destruct u1.
      + exfalso. pose proof (scan_upd_true rest s1 (before ++ [i])) as X. simpl in H. rewrite H in X. discriminate.
      + assert (i < n) as Hi by (apply Hn; left; reflexivity).
        destruct (copy_block_spec s i s1 false Hi E) as (_ & _ & F). specialize (F eq_refl). subst s1.
        simpl in H. apply IH in H; [|intros j Hj; apply Hn; right; exact Hj]. destruct H as [H1 H2]. split; [exact H1|].
        rewrite H2, <- app_assoc. reflexivity.
  Qed.

  (** ... and in such a scan no listed block is defined and no axis of a listed block could copy *)
  Lemma scan_no_update_stuck todo : forall s before,
    (forall i, In i todo -> i < n) ->
    scan s before todo false = (s, before ++ todo, false) ->
    forall i, In i todo -> b_defined s i = false /\ copy_block s i = (s, false).
  Proof.
    induction todo as [|i rest IH]; intros s before Hn H j Hj; [destruct Hj|]. simpl in H.
    destruct (b_defined s i) eqn:D; [inversion H|].
    destruct (copy_block s i) as [s1 u1] eqn:E. destruct u1.
    - exfalso. pose proof (scan_upd_true rest s1 (before ++ [i])) as X. simpl in H. rewrite H in X. discriminate.
    - assert (i < n) as Hi by (apply Hn; left; reflexivity).
      destruct (copy_block_spec s i s1 false Hi E) as (_ & _ & F). specialize (F eq_refl). subst s1.
      destruct Hj as [-> | Hj]; [auto|].
      simpl in H. replace (before ++ i :: rest) with ((before ++ [i]) ++ rest) in H by (rewrite <- app_assoc; reflexivity).
      eapply IH; eauto. intros k Hk. apply Hn. right. exact Hk.
  Qed.

  (** ** the loop terminates within the fuel, whatever the oracles *)
  Lemma propagate_unfold f s i rest :
    propagate (S f) s (i :: rest) =
    (let '(s', undef', updated) := scan s [] (i :: rest) false in
     if updated then propagate f s' undef' else
       match undef' with [] => Done s' | _ => Stuck s' undef' end).
  Proof. reflexivity. Qed.

  Lemma propagate_fuel fuel : forall s undef,
    (forall i, In i undef -> i < n) -> length undef + UA s < fuel ->
    propagate fuel s undef <> OutOfFuel.
  Proof.
    induction fuel as [|f IH]; intros s undef Hn Hm; [lia|].
    destruct undef as [|i rest]; [simpl; discriminate|].
    rewrite propagate_unfold.
    destruct (scan s [] (i :: rest) false) as [[s' undef'] u'] eqn:E.
    pose proof (scan_spec (i :: rest) s [] false s' undef' u' E Hn) as (M & L & T & I1 & _).
    rewrite app_nil_l in L, T, I1.
    destruct u'.
    - apply IH.
      + intros j Hj. apply Hn. apply I1. exact Hj.
      + destruct (T eq_refl) as [X | X]; [discriminate|]. lia.
    - destruct undef'; discriminate.
  Qed.

  Lemma filter_len {A} (f : A -> bool) l : length (filter f l) <= length l.
  Proof. induction l as [|a l IH]; simpl; [lia|]. destruct (f a); simpl; lia. Qed.

  Lemma all_axes_length m : length (all_axes m) = 3 * m.
  Proof.
    unfold all_axes. assert (forall l, length (flat_map axes_of_block l) = 3 * length l) as Hf.
    { induction l as [|a l IH]; simpl; [reflexivity|]. rewrite IH. lia. }
    rewrite Hf, seq_length. reflexivity.
  Qed.

  Lemma UA_le s : UA s <= 3 * n.
  Proof. unfold UA. etransitivity; [apply filter_len|]. rewrite all_axes_length. lia. Qed.

  Theorem propagate_terminates s : propagate (fuel0 bs) s (seq 0 n) <> OutOfFuel.
  Proof.
    apply propagate_fuel.
    - intros i Hi. apply in_seq in Hi. lia.
    - rewrite seq_length. pose proof (UA_le s). unfold fuel0. lia.
  Qed.

  Theorem run_terminates : run bs o_coin o_nbrs <> NoFuel.
  Proof.
    unfold run. destruct (negb (oracle_ok bs o_coin o_nbrs)); [discriminate|].
    destruct (propagate (fuel0 bs) (grade_blocks bs o_coin (init bs)) (seq 0 n)) eqn:E;
      try discriminate.
    - destruct (consistent bs s); discriminate.
    - exfalso. eapply propagate_terminates. exact E.
  Qed.
End Ops.
