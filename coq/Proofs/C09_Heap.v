(** C09 - heap-level commutation for the traversals that are tied to the code ([method_visits], [list_visits]):
    the value a leaf ends with depends only on the calls it receives itself; the unobservable bookkeeping of
    Operation.invert commutes with the leaf maps (it reverses the rows of an array at most). *)
From Coq Require Import Reals Lra List Bool Arith Lia.
From CB Require Import Base.Vec3 Model.C09_Transform Proofs.C09_Leaves Proofs.C09_Commute Proofs.C09_Traverse.
Import ListNotations.
Open Scope R_scope.

(** the operations one cell receives *)
Definition ops_at (i : nat) (vs : list visit) : list vop := map snd (filter (fun v : visit => Nat.eqb (fst v) i) vs).
Definition cell_run (t : tf) (ops : list vop) (c : cell) : cell := fold_left (fun c o => apply_vop t o c) ops c.

Lemma run_visits_cell t vs : forall h i, run_visits t vs h i = cell_run t (ops_at i vs) (h i).
Proof.
  induction vs as [|[j o] vs IH]; intros h i; [reflexivity|].
  change (run_visits t ((j, o) :: vs) h) with (run_visits t vs (run_visit t h (j, o))).
  rewrite IH. unfold ops_at. cbn [filter fst]. unfold run_visit. cbn [fst snd].
  destruct (Nat.eqb j i) eqn:E.
  - apply Nat.eqb_eq in E. subst j. rewrite upd_same. reflexivity.
  - rewrite upd_other by (apply Nat.eqb_neq in E; congruence). reflexivity.
Qed.

Lemma ops_at_filter i vs : filter (fun o => Nat.ltb (vop_code o) 3) (ops_at i vs) = ops_at i (filter observable vs).
Proof.
  unfold ops_at. induction vs as [|[j o] vs IH]; [reflexivity|].
  cbn [filter fst]. unfold observable at 1. cbn [snd].
  destruct (Nat.eqb j i) eqn:E; destruct (Nat.ltb (vop_code o) 3) eqn:F; cbn [map filter fst snd]; rewrite ?E, ?F; cbn [map]; rewrite ?IH; reflexivity.
Qed.

(** reversal of the rows commutes with every operation *)
Definition rev_cell (c : cell) : cell := match c with CPoint p => CPoint p | CArray l => CArray (rev l) end.
Lemma rev_cell_invol c : rev_cell (rev_cell c) = c.
Proof. destruct c; simpl; [reflexivity | rewrite rev_involutive; reflexivity]. Qed.
Lemma apply_rev_cell t o c : apply_vop t o (rev_cell c) = rev_cell (apply_vop t o c).
Proof. destruct o, c; simpl; rewrite ?map_rev; reflexivity. Qed.
Lemma cell_run_cons t o ops c : cell_run t (o :: ops) c = cell_run t ops (apply_vop t o c).
Proof. reflexivity. Qed.

Lemma cell_run_rev_cell t ops : forall c, cell_run t ops (rev_cell c) = rev_cell (cell_run t ops c).
Proof.
  induction ops as [|o ops IH]; intro c; [reflexivity|].
  rewrite !cell_run_cons, apply_rev_cell. apply IH.
Qed.

Definition geo (o : vop) : bool := Nat.ltb (vop_code o) 3.

Lemma cell_run_observable t ops : forall c,
  cell_run t ops c = cell_run t (filter geo ops) c \/
  cell_run t ops c = rev_cell (cell_run t (filter geo ops) c).
Proof.
  induction ops as [|o ops IH]; intro c; [left; reflexivity|].
  rewrite cell_run_cons. destruct o.
  - change (filter geo (VGiven :: ops)) with (VGiven :: filter geo ops). rewrite cell_run_cons. apply IH.
  - change (filter geo (VZero :: ops)) with (VZero :: filter geo ops). rewrite cell_run_cons. apply IH.
  - change (filter geo (VNeg :: ops)) with (VNeg :: filter geo ops). rewrite cell_run_cons. apply IH.
  - change (filter geo (VRev :: ops)) with (filter geo ops).
    replace (apply_vop t VRev c) with (rev_cell c) by (destruct c; reflexivity).
    rewrite cell_run_rev_cell.
    destruct (IH c) as [E | E]; rewrite E; [right; reflexivity | left; apply rev_cell_invol].
  - change (filter geo (VSense :: ops)) with (filter geo ops).
    replace (apply_vop t VSense c) with c by (destruct c; reflexivity). apply IH.
Qed.

Lemma cell_run_point t ops p : exists q, cell_run t ops (CPoint p) = CPoint q.
Proof.
  revert p. induction ops as [|o ops IH]; intro p; [exists p; reflexivity|].
  unfold cell_run in *. cbn [fold_left]. destruct o; simpl; apply IH.
Qed.

(** ids touched by the traversals *)
Lemma reverse_visits_ids n i : In i (map fst (reverse_visits n)) -> In i (map snd (leaves n)).
Proof.
  unfold reverse_visits. induction (leaves n) as [|[r j] ls IH]; [intro H; exact H|].
  cbn [flat_map]. rewrite map_app. intro H. apply in_app_or in H. destruct H as [H | H].
  - left. destruct r; simpl in H; intuition.
  - right. apply IH. exact H.
Qed.

Lemma in_flat_map_ids {A} (f : A -> list visit) (g : A -> list nat) l i :
  Forall (fun x => In i (map fst (f x)) -> In i (g x)) l ->
  In i (map fst (flat_map f l)) -> In i (flat_map g l).
Proof.
  induction 1 as [|x r Hx _ IH]; [intro H; exact H|].
  cbn [flat_map]. rewrite map_app. intro H. apply in_app_or in H. apply in_or_app. destruct H; [left; auto | right; auto].
Qed.

Lemma leaves_ids_group l : map snd (leaves (NGroup l)) = flat_map (fun x => map snd (leaves x)) l.
Proof. rewrite leaves_group. induction l as [|x r IH]; [reflexivity|]. cbn [flat_map]. rewrite map_app, IH. reflexivity. Qed.

Lemma sides_reverse_ids s i : In i (map fst (sides_reverse_visits s)) -> In i (flat_map (fun x => map snd (leaves x)) s).
Proof.
  induction s as [|x r IH]; [intro H; exact H|].
  change (sides_reverse_visits (x :: r)) with (reverse_visits x ++ sides_reverse_visits r).
  rewrite map_app. intro H. apply in_app_or in H. cbn [flat_map]. apply in_or_app.
  destruct H; [left; apply reverse_visits_ids; assumption | right; auto].
Qed.

Theorem method_visits_ids k n i : In i (map fst (method_visits k n)) -> In i (map snd (leaves n)).
Proof.
  induction n as [j|j|j|l IH|b t s _ _ _] using node_ind2; try (cbn [method_visits]; apply visits_ids).
  - rewrite method_group, leaves_ids_group. apply in_flat_map_ids. exact IH.
  - change (method_visits k (NOper b t s))
      with (visits k (NOper b t s) ++ match k with KMirror => sides_reverse_visits s | _ => [] end).
    rewrite map_app. intro H. apply in_app_or in H. destruct H as [H | H]; [apply visits_ids in H; exact H|].
    destruct k; try contradiction.
    apply sides_reverse_ids in H. rewrite leaves_oper, !map_app. apply in_or_app. right. apply in_or_app. right.
    clear -H. induction s as [|x r IH]; [exact H|]. cbn [flat_map] in *. rewrite map_app.
    apply in_app_or in H. apply in_or_app. destruct H; [left; assumption | right; auto].
Qed.

(** entity.translate/rotate/scale/mirror(...) on an alias-free entity: every position leaf and every Angle axis
    ends as its image; an array ends as its image, possibly with the rows in reverse order (side edge of a
    mirrored operation); nothing else changes *)
Theorem method_commute t n h : valid t -> alias_free n = true ->
  (forall r i, In (r, i) (leaves n) -> role_ok r (h i)) ->
  let h' := run_visits t (method_visits (kind_of t) n) h in
  (forall r i, In (r, i) (leaves n) -> h' i = image_cell t r (h i) \/ h' i = rev_cell (image_cell t r (h i))) /\
  (forall r i, In (r, i) (leaves n) -> r <> RArr -> h' i = image_cell t r (h i)) /\
  (forall j, ~ In j (map snd (leaves n)) -> h' j = h j).
Proof.
  intros Hv Ha Hok h'.
  destruct (commute_tree t n h Hv Ha Hok) as [C _].
  assert (Key : forall r i, In (r, i) (leaves n) ->
            h' i = image_cell t r (h i) \/ h' i = rev_cell (image_cell t r (h i))).
  { intros r i Hin. unfold h'. rewrite run_visits_cell.
    pose proof (cell_run_observable t (ops_at i (method_visits (kind_of t) n)) (h i)) as K. unfold geo in K.
    rewrite ops_at_filter, method_visits_observable in K.
    rewrite <- (run_visits_cell t (visits (kind_of t) n) h i) in K. cbv zeta in C. rewrite (C r i Hin) in K. exact K. }
  split; [exact Key | split].
  - intros r i Hin Hr. destruct (Key r i Hin) as [E | E]; [exact E|]. rewrite E.
    specialize (Hok r i Hin). destruct r, (h i); simpl in *; try contradiction; try reflexivity; try congruence.
  - intros j Hj. apply run_visits_frame. intro Hin. apply Hj. exact (method_visits_ids _ _ _ Hin).
Qed.

(** the same for a transformation list, for every entity (a bare Angle included) *)
Lemma list_visits_ids k n i : In i (map fst (list_visits k n)) -> In i (map snd (leaves n)).
Proof.
  destruct n as [j|j|j|l|b t s]; cbn [list_visits]; try apply method_visits_ids. apply visits_ids.
Qed.

Theorem list_commute t n h : valid t -> alias_free n = true ->
  (forall r i, In (r, i) (leaves n) -> role_ok r (h i)) ->
  let h' := run_visits t (list_visits (kind_of t) n) h in
  (forall r i, In (r, i) (leaves n) -> h' i = image_cell t r (h i) \/ h' i = rev_cell (image_cell t r (h i))) /\
  (forall r i, In (r, i) (leaves n) -> r <> RArr -> h' i = image_cell t r (h i)) /\
  (forall j, ~ In j (map snd (leaves n)) -> h' j = h j).
Proof.
  intros Hv Ha Hok h'.
  destruct (commute_tree t n h Hv Ha Hok) as [C _].
  assert (Key : forall r i, In (r, i) (leaves n) ->
            h' i = image_cell t r (h i) \/ h' i = rev_cell (image_cell t r (h i))).
  { intros r i Hin. unfold h'. rewrite run_visits_cell.
    pose proof (cell_run_observable t (ops_at i (list_visits (kind_of t) n)) (h i)) as K. unfold geo in K.
    rewrite ops_at_filter, list_visits_observable in K.
    rewrite <- (run_visits_cell t (visits (kind_of t) n) h i) in K. cbv zeta in C. rewrite (C r i Hin) in K. exact K. }
  split; [exact Key | split].
  - intros r i Hin Hr. destruct (Key r i Hin) as [E | E]; [exact E|]. rewrite E.
    specialize (Hok r i Hin). destruct r, (h i); simpl in *; try contradiction; try reflexivity; try congruence.
  - intros j Hj. apply run_visits_frame. intro Hin. apply Hj. exact (list_visits_ids _ _ _ Hin).
Qed.

(** copy(): transforming (by method call) an entity whose leaves are disjoint from the original's leaves the
    original untouched *)
Theorem copy_independent_method t k (orig copy : node) h :
  disjointb (map snd (leaves orig)) (map snd (leaves copy)) = true ->
  forall i, In i (map snd (leaves orig)) -> run_visits t (method_visits k copy) h i = h i.
Proof.
  intros Hd i Hi. apply run_visits_frame. intro Hin. apply method_visits_ids in Hin.
  exact (disjointb_spec _ _ Hd i Hi Hin).
Qed.
