(** C09 - the leaves are the affine maps they name; every transformation is a similarity. *)
From Coq Require Import Reals Lra Psatz List Nsatz.
From CB Require Import Base.Vec3 Model.C09_Transform.
Import ListNotations.
Open Scope R_scope.

(** * vectors *)
Lemma vsub_zero x : vsub x vzero = x.
Proof. destruct x as [[a b] c]. unfold vzero. vec_ring. Qed.
Lemma vadd_zero x : vadd x vzero = x.
Proof. destruct x as [[a b] c]. unfold vzero. vec_ring. Qed.

Lemma norm_pos_of_norm2 a : 0 < norm2 a -> 0 < norm a.
Proof. intro H. unfold norm. apply sqrt_lt_R0. exact H. Qed.

Lemma norm2_unitv a : 0 < norm2 a -> norm2 (unitv a) = 1.
Proof.
  intro H. unfold unitv. rewrite norm2_scale.
  pose proof (norm_pos_of_norm2 a H) as Hn. rewrite <- (norm_sq a). field. lra.
Qed.

Lemma norm_unitv a : 0 < norm2 a -> norm (unitv a) = 1.
Proof. intro H. unfold norm. rewrite norm2_unitv by exact H. apply sqrt_1. Qed.

Lemma unitv_idem a : 0 < norm2 a -> unitv (unitv a) = unitv a.
Proof.
  intro H. unfold unitv at 1. rewrite norm_unitv by exact H. rewrite Rinv_1.
  destruct (unitv a) as [[x y] z]. vec_ring.
Qed.

Lemma dot_unitv_self a : 0 < norm2 a -> dot (unitv a) (unitv a) = 1.
Proof. intro H. exact (norm2_unitv a H). Qed.

(** * mirror *)
Lemma mirror_vM_householder n v : mirror_vM n v = vsub v (vscale (2 * dot v n) n).
Proof. destruct n as [[a b] c], v as [[x y] z]. unfold mirror_vM. vec_ring. Qed.

Lemma mirror_vMT_vM n v : mirror_vMT n v = mirror_vM n v.
Proof. reflexivity. Qed.

Lemma mirror_unit_reflect n v : 0 < norm2 n ->
  mirror_vM (unitv n) v = vsub v (vscale (2 * dot v n / dot n n) n).
Proof.
  intro H. rewrite mirror_vM_householder. unfold unitv.
  pose proof (norm_pos_of_norm2 n H) as Hn. pose proof (norm_sq n) as Hs.
  assert (Hi : / norm n * / norm n = / dot n n).
  { change (dot n n) with (norm2 n). rewrite <- Hs. field. lra. }
  destruct n as [[a b] c], v as [[x y] z].
  set (i := / norm (a, b, c)) in *. unfold norm2 in *.
  apply vec_eq; vec_simpl.
  - replace (x - 2 * (x * (i * a) + y * (i * b) + z * (i * c)) * (i * a))
      with (x - 2 * (x * a + y * b + z * c) * (i * i) * a) by ring. rewrite Hi. field. lra.
  - replace (y - 2 * (x * (i * a) + y * (i * b) + z * (i * c)) * (i * b))
      with (y - 2 * (x * a + y * b + z * c) * (i * i) * b) by ring. rewrite Hi. field. lra.
  - replace (z - 2 * (x * (i * a) + y * (i * b) + z * (i * c)) * (i * c))
      with (z - 2 * (x * a + y * b + z * c) * (i * i) * c) by ring. rewrite Hi. field. lra.
Qed.

Lemma f_mirror_reflect p n o : 0 < norm2 n -> f_mirror p n o = reflect n o p.
Proof.
  intro H. unfold f_mirror, reflect. rewrite mirror_unit_reflect by exact H.
  destruct p as [[x y] z], o as [[a b] c], n as [[n1 n2] n3]. vec_ring.
Qed.

Lemma arr_mirror_row_reflect p n o : 0 < norm2 n -> arr_mirror_row p n o = reflect n o p.
Proof. intro H. unfold arr_mirror_row. rewrite mirror_vMT_vM. exact (f_mirror_reflect p n o H). Qed.

(** * rotate *)
Lemma pt_rotate_rotate_about p th a o : 0 < norm2 a ->
  pt_rotate p th a o = rotate_about (unitv a) (cos th) (sin th) o p.
Proof.
  intro H. unfold pt_rotate, f_rotate, rot_matrix_apply, rotate_about. rewrite unitv_idem by exact H. reflexivity.
Qed.

Lemma arr_rotate_row_rotate_about p th a o :
  arr_rotate_row p th a o = rotate_about (unitv a) (cos th) (sin th) o p.
Proof. reflexivity. Qed.

(** * the leaves *)
Definition valid (t : tf) : Prop :=
  match t with
  | TRotate _ a _ => 0 < norm2 a
  | TMirror n _ => 0 < norm2 n
  | TScale r _ => r <> 0
  | TTranslate _ => True
  end.

Lemma valid_zero_origin t : valid t -> valid (zero_origin t).
Proof. destruct t; simpl; auto. Qed.

Theorem leaf_point_image t p : valid t -> leaf_point t p = image_pos t p.
Proof.
  destruct t; simpl; intro H.
  - reflexivity.
  - apply pt_rotate_rotate_about. exact H.
  - reflexivity.
  - apply f_mirror_reflect. exact H.
Qed.

Theorem leaf_row_image t p : valid t -> leaf_row t p = image_pos t p.
Proof.
  destruct t; simpl; intro H.
  - reflexivity.
  - apply arr_rotate_row_rotate_about.
  - reflexivity.
  - apply arr_mirror_row_reflect. exact H.
Qed.

(** Angle: the calls made by Angle.rotate / Angle.mirror on the axis vector *)
Lemma axis_rotate_image th ax o a : 0 < norm2 ax ->
  leaf_point (zero_origin (TRotate th ax o)) a = image_axis (TRotate th ax o) a.
Proof.
  intro H. simpl. rewrite pt_rotate_rotate_about by exact H. unfold rotate_about.
  rewrite vsub_zero, vadd_zero. reflexivity.
Qed.

Lemma axis_mirror_image n o a : 0 < norm2 n ->
  f_scale (leaf_point (zero_origin (TMirror n o)) a) (-1) vzero = image_axis (TMirror n o) a.
Proof.
  intro H. simpl. rewrite f_mirror_reflect by exact H. unfold f_scale.
  destruct (reflect n vzero a) as [[x y] z]. unfold vzero. vec_ring.
Qed.

(** * rotations (Rodrigues with a unit axis and c^2 + s^2 = 1) *)
Section Rot.
  Variables (u : vec) (c s : R).
  Hypothesis Hu : dot u u = 1.
  Hypothesis Hcs : c * c + s * s = 1.
  Let Rm := rodrigues u c s.

  Lemma rod_add x y : Rm (vadd x y) = vadd (Rm x) (Rm y).
  Proof. unfold Rm, rodrigues. destruct u as [[u1 u2] u3], x as [[x1 x2] x3], y as [[y1 y2] y3]. vec_ring. Qed.
  Lemma rod_scale a x : Rm (vscale a x) = vscale a (Rm x).
  Proof. unfold Rm, rodrigues. destruct u as [[u1 u2] u3], x as [[x1 x2] x3]. vec_ring. Qed.
  Lemma rod_dot x y : dot (Rm x) (Rm y) = dot x y.
  Proof.
    unfold Rm, rodrigues. destruct u as [[u1 u2] u3], x as [[x1 x2] x3], y as [[y1 y2] y3].
    vec_simpl. nsatz.
  Qed.
  Lemma rod_cross x y : cross (Rm x) (Rm y) = Rm (cross x y).
  Proof.
    unfold Rm, rodrigues. destruct u as [[u1 u2] u3], x as [[x1 x2] x3], y as [[y1 y2] y3].
    apply vec_eq; vec_simpl; nsatz.
  Qed.
  Lemma rod_axis_fixed : Rm u = u.
  Proof.
    unfold Rm, rodrigues. destruct u as [[u1 u2] u3]. apply vec_eq; vec_simpl; nsatz.
  Qed.
  (** the angle: for v perpendicular to the axis, v.(Rv) = cos |v|^2 and u.(v x Rv) = sin |v|^2 *)
  Lemma rod_angle_cos v : dot u v = 0 -> dot v (Rm v) = c * dot v v.
  Proof.
    unfold Rm, rodrigues. destruct u as [[u1 u2] u3], v as [[v1 v2] v3]. vec_simpl. intro. nsatz.
  Qed.
  Lemma rod_angle_sin v : dot u v = 0 -> dot u (cross v (Rm v)) = s * dot v v.
  Proof.
    unfold Rm, rodrigues. destruct u as [[u1 u2] u3], v as [[v1 v2] v3]. vec_simpl. intro. nsatz.
  Qed.
End Rot.

(** * reflections  H x = x - 2 (x.n)/(n.n) n *)
Section Refl.
  Variable n : vec.
  Hypothesis Hn : 0 < norm2 n.
  Let H x := reflect n vzero x.

  Lemma refl_form x : H x = vsub x (vscale (2 * dot x n / dot n n) n).
  Proof. unfold H, reflect. rewrite vsub_zero. reflexivity. Qed.

  Lemma refl_add x y : H (vadd x y) = vadd (H x) (H y).
  Proof.
    rewrite !refl_form. destruct n as [[a b] c], x as [[x1 x2] x3], y as [[y1 y2] y3].
    unfold norm2 in Hn. apply vec_eq; vec_simpl; field; lra.
  Qed.
  Lemma refl_scale k x : H (vscale k x) = vscale k (H x).
  Proof.
    rewrite !refl_form. destruct n as [[a b] c], x as [[x1 x2] x3].
    unfold norm2 in Hn. apply vec_eq; vec_simpl; field; lra.
  Qed.
  Lemma refl_dot x y : dot (H x) (H y) = dot x y.
  Proof.
    rewrite !refl_form. destruct n as [[a b] c], x as [[x1 x2] x3], y as [[y1 y2] y3].
    unfold norm2 in Hn. vec_simpl. field. lra.
  Qed.
  Lemma refl_cross x y : cross (H x) (H y) = vopp (H (cross x y)).
  Proof.
    rewrite !refl_form. destruct n as [[a b] c], x as [[x1 x2] x3], y as [[y1 y2] y3].
    unfold norm2 in Hn. apply vec_eq; vec_simpl; field; lra.
  Qed.
  Lemma refl_involution x : H (H x) = x.
  Proof.
    rewrite !refl_form. destruct n as [[a b] c], x as [[x1 x2] x3].
    unfold norm2 in Hn. apply vec_eq; vec_simpl; field; lra.
  Qed.
  Lemma refl_normal : H n = vopp n.
  Proof.
    rewrite !refl_form. destruct n as [[a b] c].
    unfold norm2 in Hn. apply vec_eq; vec_simpl; field; lra.
  Qed.
  Lemma refl_fixes_plane x : dot x n = 0 -> H x = x.
  Proof.
    intro Hx. rewrite refl_form. rewrite Hx. destruct n as [[a b] c], x as [[x1 x2] x3].
    unfold norm2 in Hn. apply vec_eq; vec_simpl; field; lra.
  Qed.
End Refl.

Lemma reflect_affine n o p : 0 < norm2 n -> reflect n o p = vadd (reflect n vzero (vsub p o)) o.
Proof.
  intro H. unfold reflect. rewrite !vsub_zero.
  destruct n as [[a b] c], o as [[o1 o2] o3], p as [[p1 p2] p3]. vec_ring.
Qed.

(** * similarities:  L = k Q,  Q orthogonal with  Qx x Qy = sg Q(x x y) *)
Record simil (L : vec -> vec) (k sg : R) : Prop := {
  s_add : forall x y, L (vadd x y) = vadd (L x) (L y);
  s_scale : forall a x, L (vscale a x) = vscale a (L x);
  s_dot : forall x y, dot (L x) (L y) = k * k * dot x y;
  s_cross : forall x y, cross (L x) (L y) = vscale (k * sg) (L (cross x y));
  s_k : k <> 0;
  s_sg : sg = 1 \/ sg = -1 }.

Definition lin_of (t : tf) (x : vec) : vec := vsub (image_pos t x) (image_pos t vzero).
Definition ratio_of (t : tf) : R := match t with TScale r _ => r | _ => 1 end.
Definition sigma_of (t : tf) : R := match t with TMirror _ _ => -1 | _ => 1 end.

Lemma image_pos_affine t p : image_pos t p = vadd (lin_of t p) (image_pos t vzero).
Proof.
  unfold lin_of. destruct (image_pos t p) as [[a b] c], (image_pos t vzero) as [[d e] f]. vec_ring.
Qed.

Lemma lin_of_translate d x : lin_of (TTranslate d) x = x.
Proof. unfold lin_of. simpl. destruct d as [[a b] c], x as [[x1 x2] x3]. unfold vzero. vec_ring. Qed.
Lemma lin_of_scale r o x : lin_of (TScale r o) x = vscale r x.
Proof. unfold lin_of. simpl. destruct o as [[a b] c], x as [[x1 x2] x3]. unfold vzero. vec_ring. Qed.
Lemma lin_of_rotate th a o x : lin_of (TRotate th a o) x = rodrigues (unitv a) (cos th) (sin th) x.
Proof.
  unfold lin_of. simpl. unfold rotate_about, rodrigues.
  destruct (unitv a) as [[u1 u2] u3], o as [[o1 o2] o3], x as [[x1 x2] x3]. unfold vzero. vec_ring.
Qed.
Lemma lin_of_mirror n o x : 0 < norm2 n -> lin_of (TMirror n o) x = reflect n vzero x.
Proof.
  intro H. unfold lin_of. simpl. unfold reflect. rewrite !vsub_zero.
  destruct n as [[a b] c], o as [[o1 o2] o3], x as [[x1 x2] x3]. unfold vzero, norm2 in *.
  apply vec_eq; vec_simpl; field; lra.
Qed.

Lemma cos_sin_unit th : cos th * cos th + sin th * sin th = 1.
Proof. pose proof (sin2_cos2 th) as H. unfold Rsqr in H. lra. Qed.

Theorem image_similarity t : valid t -> simil (lin_of t) (ratio_of t) (sigma_of t).
Proof.
  destruct t as [d | th a o | r o | n o]; simpl; intro H.
  - constructor; intros; rewrite ?lin_of_translate.
    + reflexivity.
    + reflexivity.
    + ring.
    + destruct (cross x y) as [[p q] w]. vec_ring.
    + lra.
    + left; reflexivity.
  - pose proof (dot_unitv_self a H) as Hu. pose proof (cos_sin_unit th) as Hcs.
    constructor; intros; rewrite ?lin_of_rotate.
    + apply rod_add; assumption.
    + apply rod_scale; assumption.
    + rewrite rod_dot by assumption. ring.
    + rewrite rod_cross by assumption. destruct (rodrigues (unitv a) (cos th) (sin th) (cross x y)) as [[p q] w]. vec_ring.
    + lra.
    + left; reflexivity.
  - constructor; intros; rewrite ?lin_of_scale.
    + destruct x as [[x1 x2] x3], y as [[y1 y2] y3]. vec_ring.
    + destruct x as [[x1 x2] x3]. vec_ring.
    + destruct x as [[x1 x2] x3], y as [[y1 y2] y3]. vec_simpl. ring.
    + destruct x as [[x1 x2] x3], y as [[y1 y2] y3]. vec_ring.
    + exact H.
    + left; reflexivity.
  - constructor; intros; rewrite ?lin_of_mirror by exact H.
    + apply refl_add. exact H.
    + apply refl_scale. exact H.
    + rewrite refl_dot by exact H. ring.
    + rewrite refl_cross by exact H. destruct (reflect n vzero (cross x y)) as [[p q] w]. vec_ring.
    + lra.
    + right; reflexivity.
Qed.

(** direction quantities: linear part only, sense flipped by improper maps *)
Theorem image_axis_linear t a : valid t ->
  image_axis t a = vscale (sigma_of t / ratio_of t) (lin_of t a).
Proof.
  destruct t as [d | th ax o | r o | n o]; simpl; intro H.
  - rewrite lin_of_translate. destruct a as [[x y] z]. apply vec_eq; vec_simpl; field.
  - rewrite lin_of_rotate. destruct (rodrigues (unitv ax) (cos th) (sin th) a) as [[x y] z]. apply vec_eq; vec_simpl; field.
  - rewrite lin_of_scale. destruct a as [[x y] z]. apply vec_eq; vec_simpl; field; exact H.
  - rewrite lin_of_mirror by exact H. destruct (reflect n vzero a) as [[x y] z]. apply vec_eq; vec_simpl; field.
Qed.

(** a direction is never displaced: the image of an axis does not depend on the origin or displacement *)
Theorem image_axis_origin_free t a : image_axis t a = image_axis (zero_origin t) a.
Proof. destruct t; reflexivity. Qed.

Lemma simil_compose L1 k1 s1 L2 k2 s2 :
  simil L1 k1 s1 -> simil L2 k2 s2 -> simil (fun x => L2 (L1 x)) (k2 * k1) (s2 * s1).
Proof.
  intros [a1 c1 d1 x1 n1 g1] [a2 c2 d2 x2 n2 g2]. constructor; intros.
  - rewrite a1, a2. reflexivity.
  - rewrite c1, c2. reflexivity.
  - rewrite d2, d1. ring.
  - rewrite x2, x1, c2. destruct (L2 (L1 (cross x y))) as [[p q] w]. vec_ring.
  - apply Rmult_integral_contrapositive_currified; assumption.
  - destruct g1 as [-> | ->], g2 as [-> | ->]; [left | right | right | left]; ring.
Qed.
