(** C16 - soundness of the rational evaluators (Model/C16_CurvesQ.v) with respect to the real-valued model
    (Model/C16_Curves.v): what the correspondence computes with vm_compute over Q is the model on the images of the
    inputs under [Q2R] (exactly, for the piecewise-linear parts; as an enclosure, for square roots). *)
From Coq Require Import QArith Qreals Reals ZArith List Bool Arith Lia Lra Psatz.
From CB Require Import Base.Vec3 Model.C16_Curves Model.C16_CurvesQ Proofs.C16_Curves Proofs.C16_Length Proofs.C16_Edge.
Import ListNotations.
Open Scope R_scope.

Lemma Q2R_zero : Q2R 0%Q = 0.
Proof. unfold Q2R. simpl. ring. Qed.

Lemma Q2R_red x : Q2R (Qred x) = Q2R x.
Proof. apply Qeq_eqR. apply Qred_correct. Qed.

Lemma Q2R_inject_Z z : Q2R (inject_Z z) = IZR z.
Proof. unfold Q2R, inject_Z. simpl. field. Qed.

(** ** vectors *)
Definition q2v (v : qvec) : vec := (Q2R (qx v), Q2R (qy v), Q2R (qz v)).

Lemma q2v_zero : q2v qvzero = vzero.
Proof. unfold q2v, qvzero, vzero, qx, qy, qz. simpl. rewrite Q2R_zero. reflexivity. Qed.

Lemma q2v_red v : q2v (qvred v) = q2v v.
Proof. destruct v as [[a b] c]. unfold q2v, qvred, qx, qy, qz. simpl. rewrite !Q2R_red. reflexivity. Qed.

Lemma q2v_sub a b : q2v (qvsub a b) = vsub (q2v a) (q2v b).
Proof.
  destruct a as [[a1 a2] a3], b as [[b1 b2] b3]. unfold q2v, qvsub, vsub, qx, qy, qz, vx, vy, vz. simpl.
  rewrite !Q2R_minus. reflexivity.
Qed.

Lemma q2v_add a b : q2v (qvadd a b) = vadd (q2v a) (q2v b).
Proof.
  destruct a as [[a1 a2] a3], b as [[b1 b2] b3]. unfold q2v, qvadd, vadd, qx, qy, qz, vx, vy, vz. simpl.
  rewrite !Q2R_plus. reflexivity.
Qed.

Lemma q2v_scale k a : q2v (qvscale k a) = vscale (Q2R k) (q2v a).
Proof.
  destruct a as [[a1 a2] a3]. unfold q2v, qvscale, vscale, qx, qy, qz, vx, vy, vz. simpl.
  rewrite !Q2R_mult. reflexivity.
Qed.

Lemma Q2R_qd2 p q : Q2R (qd2 p q) = norm2 (vsub (q2v p) (q2v q)).
Proof.
  unfold qd2. cbv zeta. rewrite Q2R_red, Q2R_plus, Q2R_red, Q2R_plus, !Q2R_mult.
  rewrite <- q2v_sub, <- (q2v_red (qvsub p q)).
  destruct (qvred (qvsub p q)) as [[a b] c]. unfold q2v, norm2, dot, vx, vy, vz, qx, qy, qz. simpl. ring.
Qed.

(** ** square roots *)
Lemma sqrt_ge a x : 0 <= a -> a * a <= x -> a <= sqrt x.
Proof.
  intros Ha H. apply Rle_trans with (sqrt (a * a)); [rewrite sqrt_square by exact Ha; lra|].
  apply sqrt_le_1_alt. exact H.
Qed.

Lemma sqrt_le_b b x : 0 <= b -> x <= b * b -> sqrt x <= b.
Proof.
  intros Hb H. apply Rle_trans with (sqrt (b * b)); [|rewrite sqrt_square by exact Hb; lra].
  apply sqrt_le_1_alt. exact H.
Qed.

Lemma encl_real n D k s : 0 < D -> 0 < k -> 0 <= s ->
  s * s <= n * D * (k * k) -> n * D * (k * k) < (s + 1) * (s + 1) ->
  s / (D * k) <= sqrt (n / D) <= (s + 1) / (D * k).
Proof.
  intros HD Hk Hs H1 H2.
  assert (HDk : 0 < D * k) by nra.
  assert (Hi : 0 < / (D * k)) by (apply Rinv_0_lt_compat; exact HDk).
  assert (E : n / D = n * D * (k * k) * (/ (D * k) * / (D * k))) by (field; split; lra).
  split.
  - apply sqrt_ge; [unfold Rdiv; nra|]. rewrite E. unfold Rdiv.
    replace (s * / (D * k) * (s * / (D * k))) with (s * s * (/ (D * k) * / (D * k))) by ring.
    apply Rmult_le_compat_r; [nra|exact H1].
  - apply sqrt_le_b; [unfold Rdiv; nra|]. rewrite E. unfold Rdiv.
    replace ((s + 1) * / (D * k) * ((s + 1) * / (D * k))) with ((s + 1) * (s + 1) * (/ (D * k) * / (D * k))) by ring.
    apply Rmult_le_compat_r; [nra|lra].
Qed.

Lemma qsqrt_encl_sound x : Q2R (fst (qsqrt_encl x)) <= sqrt (Q2R x) <= Q2R (snd (qsqrt_encl x)).
Proof.
  unfold qsqrt_encl. cbv zeta. rewrite <- (Q2R_red x).
  destruct (Qred x) as [n d]. cbn [Qnum Qden].
  destruct (n <=? 0)%Z eqn:E.
  - apply Z.leb_le in E. cbn [fst snd].
    assert (H : Q2R (n # d) <= 0).
    { unfold Q2R. cbn [Qnum Qden]. apply IZR_le in E.
      assert (0 < / IZR (Zpos d)) by (apply Rinv_0_lt_compat; apply IZR_lt; lia). nra. }
    rewrite sqrt_neg_0 by exact H. rewrite Q2R_zero. lra.
  - apply Z.leb_gt in E. cbn [fst snd].
    set (N := (n * Zpos d * Zpos (sqK * sqK))%Z).
    assert (HN : (0 <= N)%Z) by (unfold N; apply Z.mul_nonneg_nonneg; [apply Z.mul_nonneg_nonneg|]; lia).
    pose proof (Z.sqrt_spec N HN) as Hs. cbv zeta in Hs.
    assert (Hs0 : (0 <= Z.sqrt N)%Z) by apply Z.sqrt_nonneg.
    set (s := Z.sqrt N) in *.
    destruct Hs as [Hs1 Hs2]. apply IZR_le in Hs1. apply IZR_lt in Hs2. apply IZR_le in Hs0.
    rewrite mult_IZR in Hs1, Hs2. rewrite succ_IZR in Hs2.
    unfold N in Hs1, Hs2. rewrite !mult_IZR, Pos2Z.inj_mul, mult_IZR in Hs1, Hs2.
    unfold Q2R. cbn [Qnum Qden]. rewrite Pos2Z.inj_mul, mult_IZR, plus_IZR.
    assert (HD : 0 < IZR (Zpos d)) by (apply IZR_lt; lia).
    assert (Hk : 0 < IZR (Zpos sqK)) by (apply IZR_lt; lia).
    apply (encl_real (IZR n) (IZR (Zpos d)) (IZR (Zpos sqK)) (IZR s)); assumption.
Qed.

Lemma qdist_encl_sound p q :
  Q2R (fst (qdist_encl p q)) <= dist (q2v p) (q2v q) <= Q2R (snd (qdist_encl p q)).
Proof. unfold qdist_encl, dist, norm. rewrite <- Q2R_qd2. apply qsqrt_encl_sound. Qed.

(** ** polyline lengths *)
Lemma qpolylen_encl_sound l :
  Q2R (fst (qpolylen_encl l)) <= polylen (map q2v l) <= Q2R (snd (qpolylen_encl l)).
Proof.
  induction l as [|a [|b t] IH].
  - simpl. rewrite Q2R_zero. lra.
  - simpl. rewrite Q2R_zero. lra.
  - change (qpolylen_encl (a :: b :: t)) with (qpair_add (qdist_encl a b) (qpolylen_encl (b :: t))).
    change (map q2v (a :: b :: t)) with (q2v a :: q2v b :: map q2v t). rewrite polylen_cons2.
    unfold qpair_add. cbn [fst snd]. rewrite !Q2R_red, !Q2R_plus.
    pose proof (qdist_encl_sound a b). change (q2v b :: map q2v t) with (map q2v (b :: t)). lra.
Qed.

(** a passed length check means: the implementation's value is within [tol] of the model's polyline length *)
Lemma qlen_ok_sound tol l L : qlen_ok tol l L = true -> Rabs (polylen (map q2v l) - Q2R L) <= Q2R tol.
Proof.
  unfold qlen_ok. cbv zeta. intros H. apply andb_prop in H. destruct H as [H H3].
  apply andb_prop in H. destruct H as [_ H2].
  apply Qle_bool_iff in H2. apply Qle_bool_iff in H3. apply Qle_Rle in H2. apply Qle_Rle in H3.
  rewrite Q2R_minus in H2. rewrite Q2R_plus in H3.
  pose proof (qpolylen_encl_sound l). apply Rabs_le. lra.
Qed.

(** ** closeness of points *)
Lemma qclose_v_sound tol p q : (0 <= tol)%Q -> qclose_v tol p q = true -> dist (q2v p) (q2v q) <= Q2R tol.
Proof.
  intros Ht H. unfold qclose_v in H. apply Qle_bool_iff in H. apply Qle_Rle in H.
  rewrite Q2R_mult, Q2R_qd2 in H. apply Qle_Rle in Ht. rewrite Q2R_zero in Ht.
  unfold dist, norm. apply sqrt_le_b; assumption.
Qed.

Lemma qclose_list_sound tol : (0 <= tol)%Q -> forall l m, qclose_list tol l m = true ->
  close_list (Q2R tol) (map q2v l) (map q2v m).
Proof.
  intros Ht. induction l as [|a l IH]; intros [|b m] H; simpl in *; try discriminate; auto.
  apply andb_prop in H. destruct H as [H1 H2]. split; [apply qclose_v_sound; assumption|apply IH; exact H2].
Qed.

(** ** list functions commute with the embedding (the discrete curve is evaluated on rational points as it is) *)
Lemma slice_map {A B} (g : A -> B) l a b : map g (slice l a b) = slice (map g l) a b.
Proof. unfold slice. rewrite skipn_map, firstn_map. reflexivity. Qed.

Lemma dc_discretize_map {A B} (g : A -> B) l a b : map g (dc_discretize l a b) = dc_discretize (map g l) a b.
Proof.
  unfold dc_discretize. destruct (a <=? b)%nat; [apply slice_map|]. rewrite map_rev, slice_map. reflexivity.
Qed.

Lemma removelast_map {A B} (g : A -> B) : forall l, map g (removelast l) = removelast (map g l).
Proof.
  induction l as [|a [|b t] IH]; try reflexivity.
  change (removelast (a :: b :: t)) with (a :: removelast (b :: t)).
  change (map g (a :: b :: t)) with (g a :: g b :: map g t).
  change (removelast (g a :: g b :: map g t)) with (g a :: removelast (g b :: map g t)).
  cbn [map]. f_equal. exact IH.
Qed.

Lemma interior_map {A B} (g : A -> B) l : map g (interior l) = interior (map g l).
Proof. unfold interior. rewrite removelast_map. destruct l; reflexivity. Qed.

Lemma dc_edge_points_map {A B} (g : A -> B) l a b : map g (dc_edge_points l a b) = dc_edge_points (map g l) a b.
Proof. unfold dc_edge_points. rewrite interior_map, dc_discretize_map. reflexivity. Qed.

Lemma qdc_point_sound pts i : q2v (qdc_point pts i) = dc_point (map q2v pts) i.
Proof. unfold qdc_point, dc_point. rewrite <- q2v_zero. symmetry. apply map_nth. Qed.

(** ** linspace, line curve, linear interpolation *)
Lemma qlin_at_sound a b n i : (2 <= n)%nat -> Q2R (qlin_at a b n i) = lin_at (Q2R a) (Q2R b) n i.
Proof.
  intros H. unfold qlin_at, lin_at.
  rewrite Q2R_red, Q2R_plus, Q2R_mult, Q2R_div, Q2R_minus, !Q2R_inject_Z; [reflexivity|].
  intros E. unfold Qeq in E. simpl in E. lia.
Qed.

Lemma qlinspace_sound a b n : (2 <= n)%nat -> map Q2R (qlinspace a b n) = linspace (Q2R a) (Q2R b) n.
Proof.
  intros H. unfold qlinspace, linspace. rewrite map_map. apply map_ext. intros i. apply qlin_at_sound. exact H.
Qed.

Lemma qline_point_sound p1 p2 t : q2v (qline_point p1 p2 t) = line_point (q2v p1) (q2v p2) (Q2R t).
Proof. unfold qline_point, line_point. rewrite q2v_red, q2v_add, q2v_scale, q2v_sub. reflexivity. Qed.

Lemma qseg_point_sound t0 t1 p0 p1 t : ~ (t1 - t0 == 0)%Q ->
  q2v (qseg_point t0 t1 p0 p1 t) = seg_point (Q2R t0) (Q2R t1) (q2v p0) (q2v p1) (Q2R t).
Proof.
  intros H. unfold qseg_point, seg_point.
  rewrite q2v_red, q2v_add, q2v_scale, q2v_sub, Q2R_div, !Q2R_minus by exact H. reflexivity.
Qed.

Fixpoint qincr (l : list Q) : Prop :=
  match l with
  | [] => True
  | a :: t => match t with [] => True | b :: _ => (a < b)%Q /\ qincr t end
  end.

Lemma qincr_incr : forall l, qincr l -> incr (map Q2R l).
Proof.
  induction l as [|a [|b t] IH]; intros H; try exact I.
  destruct H as [Hab H]. split; [apply Qlt_Rlt; exact Hab|apply IH; exact H].
Qed.

Lemma qlt_nonzero a b : (a < b)%Q -> ~ (b - a == 0)%Q.
Proof. intros H E. apply Qlt_Rlt in H. apply Qeq_eqR in E. rewrite Q2R_minus, Q2R_zero in E. lra. Qed.

Lemma qlin_point_sound : forall ts ps t, qincr ts ->
  q2v (qlin_point ts ps t) = lin_point (map Q2R ts) (map q2v ps) (Q2R t).
Proof.
  induction ts as [|t0 ts IH]; intros ps t Hinc; [apply q2v_zero|].
  destruct ps as [|p0 ps]; [apply q2v_zero|].
  destruct ts as [|t1 ts]; [reflexivity|].
  destruct ps as [|p1 ps]; [reflexivity|].
  destruct Hinc as [H01 Hinc].
  destruct ts as [|t2 ts].
  - apply qseg_point_sound. apply qlt_nonzero. exact H01.
  - change (qlin_point (t0 :: t1 :: t2 :: ts) (p0 :: p1 :: ps) t) with
      (if Qle_bool t t1 then qseg_point t0 t1 p0 p1 t else qlin_point (t1 :: t2 :: ts) (p1 :: ps) t).
    change (lin_point (map Q2R (t0 :: t1 :: t2 :: ts)) (map q2v (p0 :: p1 :: ps)) (Q2R t)) with
      (if Rle_dec (Q2R t) (Q2R t1) then seg_point (Q2R t0) (Q2R t1) (q2v p0) (q2v p1) (Q2R t)
       else lin_point (map Q2R (t1 :: t2 :: ts)) (map q2v (p1 :: ps)) (Q2R t)).
    destruct (Qle_bool t t1) eqn:E; destruct (Rle_dec (Q2R t) (Q2R t1)) as [Hr|Hr].
    + apply qseg_point_sound. apply qlt_nonzero. exact H01.
    + exfalso. apply Hr. apply Qle_Rle. apply Qle_bool_iff. exact E.
    + exfalso. apply Rle_Qle in Hr. apply Qle_bool_iff in Hr. congruence.
    + apply IH. exact Hinc.
Qed.

(** ** knots between two parameters *)
Lemma qlt_bool_iff a b : qlt_bool a b = true <-> Q2R a < Q2R b.
Proof.
  unfold qlt_bool. rewrite negb_true_iff. split; intros H.
  - apply Rnot_le_lt. intros Hle. apply Rle_Qle in Hle. apply Qle_bool_iff in Hle. congruence.
  - destruct (Qle_bool b a) eqn:E; [|reflexivity]. apply Qle_bool_iff in E. apply Qle_Rle in E. lra.
Qed.

Lemma qbetween_sound lo hi t : qbetween lo hi t = between (Q2R lo) (Q2R hi) (Q2R t).
Proof.
  unfold qbetween, between.
  destruct (Rlt_dec (Q2R lo) (Q2R t)) as [H1|H1]; destruct (Rlt_dec (Q2R t) (Q2R hi)) as [H2|H2].
  - apply andb_true_intro. split; apply qlt_bool_iff; assumption.
  - apply andb_false_intro2. destruct (qlt_bool t hi) eqn:E; [apply qlt_bool_iff in E; lra|reflexivity].
  - apply andb_false_intro1. destruct (qlt_bool lo t) eqn:E; [apply qlt_bool_iff in E; lra|reflexivity].
  - apply andb_false_intro1. destruct (qlt_bool lo t) eqn:E; [apply qlt_bool_iff in E; lra|reflexivity].
Qed.

Lemma qil_params_sound ts lo hi :
  map Q2R (qil_params ts lo hi) = il_params (map Q2R ts) (Q2R lo) (Q2R hi).
Proof.
  unfold qil_params, il_params. cbn [map]. f_equal. rewrite map_app. cbn [map]. f_equal.
  induction ts as [|t ts IH]; [reflexivity|]. cbn [filter map]. rewrite qbetween_sound.
  destruct (between (Q2R lo) (Q2R hi) (Q2R t)); cbn [map]; rewrite IH; reflexivity.
Qed.

(** ** argmin: distances are compared through their squares *)
Lemma qargmin_aux_sound : forall ds i best bv,
  0 <= Q2R bv -> Forall (fun d => 0 <= Q2R d) ds ->
  argmin_aux (map (fun d => sqrt (Q2R d)) ds) i best (sqrt (Q2R bv)) = qargmin_aux ds i best bv.
Proof.
  induction ds as [|d ds IH]; intros i best bv Hb Hd; [reflexivity|].
  inversion Hd as [|? ? Hd0 Hds]; subst. cbn [map argmin_aux qargmin_aux].
  destruct (qlt_bool d bv) eqn:E; destruct (Rlt_dec (sqrt (Q2R d)) (sqrt (Q2R bv))) as [Hr|Hr].
  - apply IH; assumption.
  - exfalso. apply Hr. apply qlt_bool_iff in E. apply sqrt_lt_1_alt. lra.
  - exfalso. apply sqrt_lt_0_alt in Hr. apply qlt_bool_iff in Hr. congruence.
  - apply IH; assumption.
Qed.

Lemma qclosest_idx_sound pts q : dc_closest (map q2v pts) (q2v q) = qclosest_idx pts q.
Proof.
  unfold dc_closest, qclosest_idx, argmin, qargmin. rewrite map_map.
  assert (Hd : forall a, dist (q2v a) (q2v q) = sqrt (Q2R (qd2 a q)))
    by (intros a; unfold dist, norm; rewrite Q2R_qd2; reflexivity).
  destruct pts as [|p pts]; [reflexivity|]. cbn [map].
  rewrite Hd. rewrite (map_ext _ (fun a => sqrt (Q2R (qd2 a q)))) by exact Hd.
  rewrite <- (map_map (fun a => qd2 a q) (fun d => sqrt (Q2R d))).
  apply qargmin_aux_sound.
  - rewrite Q2R_qd2. apply norm2_nonneg.
  - apply Forall_forall. intros d Hin. apply in_map_iff in Hin. destruct Hin as (a & <- & _).
    rewrite Q2R_qd2. apply norm2_nonneg.
Qed.

(** ** argsort and the start indices of the closest-parameter search *)
Lemma qinsert_idx_sound (dq : nat -> Q) (dr : nat -> R) k l :
  (forall i, 0 <= Q2R (dq i)) -> (forall i, dr i = sqrt (Q2R (dq i))) ->
  insert_idx dr k l = qinsert_idx dq k l.
Proof.
  intros Hn Hd. induction l as [|j t IH]; [reflexivity|]. cbn [insert_idx qinsert_idx]. rewrite !Hd.
  destruct (Qle_bool (dq k) (dq j)) eqn:E; destruct (Rle_dec (sqrt (Q2R (dq k))) (sqrt (Q2R (dq j)))) as [Hr|Hr].
  - reflexivity.
  - exfalso. apply Hr. apply sqrt_le_1_alt. apply Qle_Rle. apply Qle_bool_iff. exact E.
  - exfalso. apply sqrt_le_0 in Hr; [|apply Hn|apply Hn]. apply Rle_Qle in Hr. apply Qle_bool_iff in Hr. congruence.
  - f_equal. exact IH.
Qed.

Lemma qargsort_sound ds : Forall (fun d => 0 <= Q2R d) ds ->
  argsort (map (fun d => sqrt (Q2R d)) ds) = qargsort ds.
Proof.
  intros Hd. unfold argsort, argsort_from, qargsort. rewrite map_length.
  assert (Hn : forall i, 0 <= Q2R (nth i ds 0%Q)).
  { intros i. destruct (Nat.lt_ge_cases i (length ds)) as [Hi|Hi].
    - rewrite Forall_forall in Hd. apply Hd. apply nth_In. exact Hi.
    - rewrite nth_overflow by exact Hi. rewrite Q2R_zero. lra. }
  assert (He : forall i, nth i (map (fun d => sqrt (Q2R d)) ds) 0 = sqrt (Q2R (nth i ds 0%Q))).
  { intros i. rewrite <- (map_nth (fun d => sqrt (Q2R d))). rewrite Q2R_zero, sqrt_0. reflexivity. }
  induction (seq 0 (length ds)) as [|k l IH]; [reflexivity|]. cbn [fold_right]. rewrite IH.
  apply qinsert_idx_sound; assumption.
Qed.

(** the indices of the coarse samples the search starts from, computed over Q, are those of the real-valued model *)
Lemma qstart_idxs_sound pts q ns :
  firstn ns (argsort (map (fun p => dist p (q2v q)) (map q2v pts))) = qstart_idxs pts q ns.
Proof.
  unfold qstart_idxs. rewrite map_map.
  assert (Hd : forall a, dist (q2v a) (q2v q) = sqrt (Q2R (qd2 a q)))
    by (intros a; unfold dist, norm; rewrite Q2R_qd2; reflexivity).
  rewrite (map_ext _ (fun a => sqrt (Q2R (qd2 a q)))) by exact Hd.
  rewrite <- (map_map (fun a => qd2 a q) (fun d => sqrt (Q2R d))). f_equal.
  apply qargsort_sound. apply Forall_forall. intros d Hin. apply in_map_iff in Hin. destruct Hin as (a & <- & _).
  rewrite Q2R_qd2. apply norm2_nonneg.
Qed.

Lemma nat_list_eqb_eq l : forall m, nat_list_eqb l m = true -> l = m.
Proof.
  induction l as [|a l IH]; intros [|b m] H; simpl in H; try discriminate; [reflexivity|].
  apply andb_true_iff in H. destruct H as [H1 H2]. apply Nat.eqb_eq in H1. subst. f_equal. apply IH. exact H2.
Qed.

(** ** the minimiser monitor and the optimality certificates compare distances through enclosures *)
Lemma qnot_farther_sound tol x q m2 :
  qnot_farther tol x q m2 = true -> dist (q2v x) (q2v q) <= sqrt (Q2R m2) + Q2R tol.
Proof.
  unfold qnot_farther, qdist_hi, qsqrt_lo. intros H. apply Qle_bool_iff in H. apply Qle_Rle in H.
  rewrite Q2R_plus in H. pose proof (qdist_encl_sound x q). pose proof (qsqrt_encl_sound m2). lra.
Qed.

(** ** the common-denominator fast path for long polylines *)
Lemma plcm_spec a b : (Zpos a | Zpos (plcm a b))%Z /\ (Zpos b | Zpos (plcm a b))%Z.
Proof.
  unfold plcm.
  assert (H : (0 < Z.lcm (Zpos a) (Zpos b))%Z).
  { pose proof (Z.lcm_nonneg (Zpos a) (Zpos b)).
    assert (Z.lcm (Zpos a) (Zpos b) <> 0%Z) by (intros E; apply Z.lcm_eq_0 in E; destruct E; discriminate).
    lia. }
  rewrite Z2Pos.id by exact H. split; [apply Z.divide_lcm_l|apply Z.divide_lcm_r].
Qed.

Definition dvd_v (D : positive) (v : qvec) : Prop :=
  (Zpos (Qden (qx v)) | Zpos D)%Z /\ (Zpos (Qden (qy v)) | Zpos D)%Z /\ (Zpos (Qden (qz v)) | Zpos D)%Z.

Lemma dvd_v_trans D D' v : (Zpos D | Zpos D')%Z -> dvd_v D v -> dvd_v D' v.
Proof. intros H (A & B & C). repeat split; eapply Z.divide_trans; eauto. Qed.

Lemma qv_den_spec v : dvd_v (qv_den v) v.
Proof.
  unfold qv_den, dvd_v.
  destruct (plcm_spec (Qden (qx v)) (plcm (Qden (qy v)) (Qden (qz v)))) as [A B].
  destruct (plcm_spec (Qden (qy v)) (Qden (qz v))) as [C E].
  repeat split; [exact A|eapply Z.divide_trans; eauto|eapply Z.divide_trans; eauto].
Qed.

Lemma qcommon_den_spec l : Forall (dvd_v (qcommon_den l)) l.
Proof.
  induction l as [|v l IH]; constructor.
  - change (qcommon_den (v :: l)) with (plcm (qv_den v) (qcommon_den l)).
    apply (dvd_v_trans (qv_den v)); [exact (proj1 (plcm_spec _ _))|apply qv_den_spec].
  - change (qcommon_den (v :: l)) with (plcm (qv_den v) (qcommon_den l)).
    eapply Forall_impl; [|exact IH]. intros w. apply dvd_v_trans. exact (proj2 (plcm_spec _ _)).
Qed.

Lemma qscale_sound D c : (Zpos (Qden c) | Zpos D)%Z -> Q2R c = IZR (qscale D c) / IZR (Zpos D).
Proof.
  intros [m Hm]. unfold qscale, Q2R. rewrite Hm. rewrite Z.div_mul by discriminate.
  assert (m <> 0)%Z by (intros ->; simpl in Hm; discriminate).
  rewrite !mult_IZR. field. split; apply not_0_IZR; [discriminate|assumption].
Qed.

Definition z2v (v : zvec) : vec := (IZR (fst (fst v)), IZR (snd (fst v)), IZR (snd v)).

Lemma qvscale_z_sound D v : dvd_v D v -> q2v v = vscale (/ IZR (Zpos D)) (z2v (qvscale_z D v)).
Proof.
  intros (A & B & C). unfold q2v, qvscale_z, z2v, vscale, vx, vy, vz. cbn [fst snd].
  rewrite (qscale_sound D (qx v) A), (qscale_sound D (qy v) B), (qscale_sound D (qz v) C).
  unfold Rdiv. f_equal; [f_equal|]; ring.
Qed.

Lemma zd2_sound a b : IZR (zd2 a b) = norm2 (vsub (z2v a) (z2v b)).
Proof.
  destruct a as [[a1 a2] a3], b as [[b1 b2] b3]. unfold zd2, z2v, norm2, dot, vsub, vx, vy, vz. cbn [fst snd].
  rewrite !plus_IZR, !mult_IZR, !minus_IZR. ring.
Qed.

Lemma dist_scaled D a b : dvd_v D a -> dvd_v D b ->
  dist (q2v a) (q2v b) = sqrt (IZR (zd2 (qvscale_z D a) (qvscale_z D b))) / IZR (Zpos D).
Proof.
  intros Ha Hb. rewrite (qvscale_z_sound D a Ha), (qvscale_z_sound D b Hb).
  set (za := z2v (qvscale_z D a)). set (zb := z2v (qvscale_z D b)).
  assert (HD : 0 < / IZR (Zpos D)) by (apply Rinv_0_lt_compat; apply IZR_lt; lia).
  unfold dist.
  replace (vsub (vscale (/ IZR (Zpos D)) za) (vscale (/ IZR (Zpos D)) zb)) with (vscale (/ IZR (Zpos D)) (vsub za zb)).
  2:{ destruct za as [[x1 x2] x3], zb as [[y1 y2] y3]. apply vec_eq; cbv [vsub vscale vx vy vz fst snd]; ring. }
  rewrite norm_scale. rewrite Rabs_pos_eq by lra. subst za zb. unfold norm. rewrite zd2_sound. unfold Rdiv. ring.
Qed.

Lemma zsqrt_encl n : (0 <= n)%Z ->
  IZR (Z.sqrt (n * Zpos (zK * zK))) / IZR (Zpos zK) <= sqrt (IZR n)
  <= (IZR (Z.sqrt (n * Zpos (zK * zK))) + 1) / IZR (Zpos zK).
Proof.
  intros Hn. set (N := (n * Zpos (zK * zK))%Z).
  assert (HN : (0 <= N)%Z) by (unfold N; apply Z.mul_nonneg_nonneg; lia).
  pose proof (Z.sqrt_spec N HN) as Hs. cbv zeta in Hs.
  assert (Hs0 : (0 <= Z.sqrt N)%Z) by apply Z.sqrt_nonneg.
  set (s := Z.sqrt N) in *.
  destruct Hs as [Hs1 Hs2]. apply IZR_le in Hs1. apply IZR_lt in Hs2. apply IZR_le in Hs0.
  rewrite mult_IZR in Hs1, Hs2. rewrite succ_IZR in Hs2.
  unfold N in Hs1, Hs2. rewrite mult_IZR, Pos2Z.inj_mul, mult_IZR in Hs1, Hs2.
  assert (Hk : 0 < IZR (Zpos zK)) by (apply IZR_lt; lia).
  pose proof (encl_real (IZR n) 1 (IZR (Zpos zK)) (IZR s) ltac:(lra) Hk Hs0) as H.
  rewrite !Rmult_1_r, !Rmult_1_l in H. replace (IZR n / 1) with (IZR n) in H by field.
  apply H; lra.
Qed.

Lemma zd2_nonneg a b : (0 <= zd2 a b)%Z.
Proof. apply le_IZR. rewrite zd2_sound. apply norm2_nonneg. Qed.

Lemma zsum_sqrt_cons a b t :
  zsum_sqrt (a :: b :: t)
  = (Z.sqrt (zd2 a b * Zpos (zK * zK)) + fst (zsum_sqrt (b :: t)), 1 + snd (zsum_sqrt (b :: t)))%Z.
Proof. reflexivity. Qed.

Lemma zsum_sqrt_sound D : forall l, Forall (dvd_v D) l ->
  let r := zsum_sqrt (map (qvscale_z D) l) in
  IZR (fst r) / IZR (Zpos zK) / IZR (Zpos D) <= polylen (map q2v l)
  <= (IZR (fst r) + IZR (snd r)) / IZR (Zpos zK) / IZR (Zpos D).
Proof.
  assert (HD : 0 < / IZR (Zpos D)) by (apply Rinv_0_lt_compat; apply IZR_lt; lia).
  assert (Hk : 0 < / IZR (Zpos zK)) by (apply Rinv_0_lt_compat; apply IZR_lt; lia).
  induction l as [|a [|b t] IH]; intros Hl.
  - cbn. unfold Rdiv. rewrite !Rplus_0_l, !Rmult_0_l. lra.
  - cbn. unfold Rdiv. rewrite !Rplus_0_l, !Rmult_0_l. lra.
  - inversion Hl as [|? ? Ha Hl']; subst. inversion Hl' as [|? ? Hb _]; subst.
    specialize (IH Hl'). cbv zeta in IH.
    change (map (qvscale_z D) (a :: b :: t)) with (qvscale_z D a :: qvscale_z D b :: map (qvscale_z D) t).
    change (map (qvscale_z D) (b :: t)) with (qvscale_z D b :: map (qvscale_z D) t) in IH.
    change (map q2v (a :: b :: t)) with (q2v a :: q2v b :: map q2v t). rewrite polylen_cons2.
    change (q2v b :: map q2v t) with (map q2v (b :: t)).
    cbv zeta. rewrite zsum_sqrt_cons.
    set (r := zsum_sqrt (qvscale_z D b :: map (qvscale_z D) t)) in *. cbn [fst snd].
    rewrite (dist_scaled D a b Ha Hb).
    pose proof (zsqrt_encl (zd2 (qvscale_z D a) (qvscale_z D b)) (zd2_nonneg _ _)) as He.
    set (s := Z.sqrt (zd2 (qvscale_z D a) (qvscale_z D b) * Zpos (zK * zK))) in *.
    set (x := sqrt (IZR (zd2 (qvscale_z D a) (qvscale_z D b)))) in *.
    rewrite !plus_IZR. unfold Rdiv in *. destruct IH as [I1 I2]. destruct He as [E1 E2].
    assert (E1' : IZR s * / IZR (Zpos zK) * / IZR (Zpos D) <= x * / IZR (Zpos D)) by (apply Rmult_le_compat_r; lra).
    assert (E2' : x * / IZR (Zpos D) <= (IZR s + 1) * / IZR (Zpos zK) * / IZR (Zpos D)) by (apply Rmult_le_compat_r; lra).
    split; lra.
Qed.

Lemma qpolylen_encl_cd_sound l :
  Q2R (fst (qpolylen_encl_cd l)) <= polylen (map q2v l) <= Q2R (snd (qpolylen_encl_cd l)).
Proof.
  unfold qpolylen_encl_cd. cbv zeta. cbn [fst snd].
  pose proof (zsum_sqrt_sound (qcommon_den l) l (qcommon_den_spec l)) as H. cbv zeta in H.
  unfold Q2R. cbn [Qnum Qden]. rewrite Pos2Z.inj_mul, mult_IZR, plus_IZR.
  assert (HD : 0 < IZR (Zpos (qcommon_den l))) by (apply IZR_lt; lia).
  assert (Hk : 0 < IZR (Zpos zK)) by (apply IZR_lt; lia).
  unfold Rdiv in H. rewrite Rinv_mult. destruct H as [H1 H2]. split.
  - eapply Rle_trans; [|exact H1]. right. field. split; lra.
  - eapply Rle_trans; [exact H2|]. right. field. split; lra.
Qed.

Lemma qlen_ok_cd_sound tol l L : qlen_ok_cd tol l L = true -> Rabs (polylen (map q2v l) - Q2R L) <= Q2R tol.
Proof.
  unfold qlen_ok_cd. cbv zeta. intros H. apply andb_prop in H. destruct H as [H H3].
  apply andb_prop in H. destruct H as [_ H2].
  apply Qle_bool_iff in H2. apply Qle_bool_iff in H3. apply Qle_Rle in H2. apply Qle_Rle in H3.
  rewrite Q2R_minus in H2. rewrite Q2R_plus in H3.
  pose proof (qpolylen_encl_cd_sound l). apply Rabs_le. lra.
Qed.

(** ** the exact optimum of the line curve *)
Lemma Q2R_qdot a b : Q2R (qdot a b) = dot (q2v a) (q2v b).
Proof.
  destruct a as [[a1 a2] a3], b as [[b1 b2] b3]. unfold qdot, dot, q2v, qx, qy, qz, vx, vy, vz. simpl.
  rewrite !Q2R_plus, !Q2R_mult. reflexivity.
Qed.

Lemma Q2R_qmin a b : Q2R (qmin a b) = Rmin (Q2R a) (Q2R b).
Proof.
  unfold qmin, Rmin. destruct (Qle_bool a b) eqn:E; destruct (Rle_dec (Q2R a) (Q2R b)) as [H|H]; try reflexivity.
  - exfalso. apply H. apply Qle_Rle. apply Qle_bool_iff. exact E.
  - apply Rle_Qle in H. apply Qle_bool_iff in H. congruence.
Qed.

Lemma Q2R_qmax a b : Q2R (qmax a b) = Rmax (Q2R a) (Q2R b).
Proof.
  unfold qmax, Rmax. destruct (Qle_bool a b) eqn:E; destruct (Rle_dec (Q2R a) (Q2R b)) as [H|H]; try reflexivity.
  - exfalso. apply H. apply Qle_Rle. apply Qle_bool_iff. exact E.
  - apply Rle_Qle in H. apply Qle_bool_iff in H. congruence.
Qed.

Lemma clamp_minmax lo hi x : lo <= hi -> clamp lo hi x = Rmax lo (Rmin hi x).
Proof.
  intros H. destruct (clamp_cases lo hi x H) as [[H1 ->]|[[H1 ->]|[H1 ->]]];
    unfold Rmin; destruct (Rle_dec hi x); unfold Rmax; match goal with |- context [Rle_dec ?a ?b] => destruct (Rle_dec a b) end; lra.
Qed.

Lemma qline_topt_sound p1 p2 lo hi q : ~ (qn2 (qvsub p2 p1) == 0)%Q -> (lo <= hi)%Q ->
  Q2R (qline_topt p1 p2 lo hi q) = line_topt (q2v p1) (q2v p2) (Q2R lo) (Q2R hi) (q2v q).
Proof.
  intros Hn Hl. unfold qline_topt, line_topt, qclamp. rewrite clamp_minmax by (apply Qle_Rle; exact Hl).
  rewrite Q2R_qmax, Q2R_qmin, Q2R_div by exact Hn. unfold qn2, norm2. rewrite !Q2R_qdot, !q2v_sub. reflexivity.
Qed.
