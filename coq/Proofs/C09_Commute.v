(** C09 - transforming an alias-free entity = transforming every leaf once (heap level). *)
From Coq Require Import Reals Lra List Bool Arith Lia.
From CB Require Import Base.Vec3 Model.C09_Transform Proofs.C09_Leaves.
Import ListNotations.
Open Scope R_scope.

Definition role_ok (r : role) (c : cell) : Prop :=
  match r, c with
  | RPos, CPoint _ => True
  | RAxis, CPoint _ => True
  | RArr, CArray _ => True
  | _, _ => False
  end.

Lemma image_cell_role_ok t r c : role_ok r c -> role_ok r (image_cell t r c).
Proof. destruct r, c; simpl; auto. Qed.

Lemma upd_same h i c : upd h i c i = c.
Proof. unfold upd. rewrite Nat.eqb_refl. reflexivity. Qed.
Lemma upd_other h i c j : j <> i -> upd h i c j = h j.
Proof. intro H. unfold upd. apply Nat.eqb_neq in H. rewrite H. reflexivity. Qed.

Lemma run_visits_app t a b h : run_visits t (a ++ b) h = run_visits t b (run_visits t a h).
Proof. unfold run_visits. apply fold_left_app. Qed.

Lemma run_visits_frame t vs : forall h j, ~ In j (map fst vs) -> run_visits t vs h j = h j.
Proof.
  induction vs as [|v vs IH]; intros h j Hj; simpl.
  - reflexivity.
  - simpl in Hj. rewrite IH by tauto. unfold run_visit. apply upd_other. intro E. apply Hj. left. symmetry. exact E.
Qed.

Lemma map_ext_in_leaf (f g : vec -> vec) l : (forall x, f x = g x) -> map f l = map g l.
Proof. intro H. apply map_ext. exact H. Qed.

(** one leaf: the calls it receives amount to its image *)
Lemma leaf_step t r i h : valid t -> role_ok r (h i) ->
  let h1 := run_visits t (leaf_visits (kind_of t) (r, i)) h in
  h1 i = image_cell t r (h i) /\ forall j, j <> i -> h1 j = h j.
Proof.
  intros Hv Hr. split.
  - destruct r; simpl in *.
    + destruct (h i) as [p | l] eqn:E; try contradiction.
      unfold run_visits, run_visit; simpl. rewrite upd_same, E. simpl. rewrite leaf_point_image by exact Hv. reflexivity.
    + destruct (h i) as [p | l] eqn:E; try contradiction.
      unfold run_visits, run_visit; simpl. rewrite upd_same, E. simpl. f_equal.
      apply map_ext. intro x. apply leaf_row_image. exact Hv.
    + destruct (h i) as [a | l] eqn:E; try contradiction.
      destruct t as [d | th ax o | rr o | n o]; simpl in *; unfold run_visits, run_visit; simpl.
      * exact E.
      * rewrite upd_same, E. simpl. f_equal.
        exact (axis_rotate_image th ax o a Hv).
      * exact E.
      * rewrite !upd_same, E. simpl. f_equal.
        exact (axis_mirror_image n o a Hv).
  - intros j Hj. apply run_visits_frame. intro Hin.
    destruct r; simpl in Hin; destruct (kind_of t); simpl in Hin; intuition.
Qed.

(** the list of leaves of an alias-free entity *)
Theorem commute_leaves t : valid t -> forall ls h,
  NoDup (map snd ls) -> (forall r i, In (r, i) ls -> role_ok r (h i)) ->
  let h' := run_visits t (flat_map (leaf_visits (kind_of t)) ls) h in
  (forall r i, In (r, i) ls -> h' i = image_cell t r (h i)) /\ (forall j, ~ In j (map snd ls) -> h' j = h j).
Proof.
  intro Hv. induction ls as [|[r i] ls IH]; intros h Hnd Hok; simpl.
  - split; [intros ? ? []|reflexivity].
  - inversion Hnd as [|? ? Hni Hnd']; subst.
    rewrite run_visits_app.
    destruct (leaf_step t r i h Hv (Hok r i (or_introl eq_refl))) as [H1 H2].
    set (h1 := run_visits t (leaf_visits (kind_of t) (r, i)) h) in *.
    assert (Hok1 : forall r' i', In (r', i') ls -> role_ok r' (h1 i')).
    { intros r' i' Hin. rewrite H2. apply Hok. right. exact Hin.
      intro E. subst. apply Hni. apply (in_map snd) in Hin. exact Hin. }
    destruct (IH h1 Hnd' Hok1) as [IH1 IH2]. split.
    + intros r' i' [E | Hin].
      * inversion E; subst. rewrite IH2 by exact Hni. exact H1.
      * rewrite (IH1 r' i' Hin). rewrite H2. reflexivity.
        intro E. subst. apply Hni. apply (in_map snd) in Hin. exact Hin.
    + intros j Hj. rewrite IH2 by tauto. apply H2. intro E. apply Hj. left. symmetry. exact E.
Qed.

(** boolean alias-freeness reflects NoDup *)
Lemma existsb_eqb_In x l : existsb (Nat.eqb x) l = true <-> In x l.
Proof.
  rewrite existsb_exists. split.
  - intros [y [Hy E]]. apply Nat.eqb_eq in E. subst. exact Hy.
  - intro H. exists x. split; [exact H | apply Nat.eqb_refl].
Qed.
Lemma nodup_nat_NoDup l : nodup_nat l = true -> NoDup l.
Proof.
  induction l as [|x l IH]; simpl; intro H.
  - constructor.
  - apply andb_true_iff in H. destruct H as [H1 H2]. constructor.
    + intro Hin. apply existsb_eqb_In in Hin. rewrite Hin in H1. discriminate.
    + apply IH. exact H2.
Qed.

(** transformations reaching an entity through `parts` *)
Theorem commute_tree t n h : valid t -> alias_free n = true ->
  (forall r i, In (r, i) (leaves n) -> role_ok r (h i)) ->
  let h' := run_visits t (visits (kind_of t) n) h in
  (forall r i, In (r, i) (leaves n) -> h' i = image_cell t r (h i)) /\
  (forall j, ~ In j (map snd (leaves n)) -> h' j = h j).
Proof.
  intros Hv Ha Hok. unfold visits. apply commute_leaves; auto. apply nodup_nat_NoDup. exact Ha.
Qed.

(** any number of transformations, one after the other *)
Fixpoint run_tfs (ts : list tf) (ls : list (role * nat)) (h : heap) : heap :=
  match ts with
  | [] => h
  | t :: r => run_tfs r ls (run_visits t (flat_map (leaf_visits (kind_of t)) ls) h)
  end.
Fixpoint image_cells (ts : list tf) (r : role) (c : cell) : cell :=
  match ts with
  | [] => c
  | t :: rest => image_cells rest r (image_cell t r c)
  end.

Theorem commute_compose ts : Forall valid ts -> forall ls h,
  NoDup (map snd ls) -> (forall r i, In (r, i) ls -> role_ok r (h i)) ->
  (forall r i, In (r, i) ls -> run_tfs ts ls h i = image_cells ts r (h i)) /\
  (forall j, ~ In j (map snd ls) -> run_tfs ts ls h j = h j).
Proof.
  induction ts as [|t ts IH]; intros Hv ls h Hnd Hok; simpl.
  - split; reflexivity.
  - inversion Hv as [|? ? Hvt Hvs]; subst.
    destruct (commute_leaves t Hvt ls h Hnd Hok) as [C1 C2].
    set (h1 := run_visits t (flat_map (leaf_visits (kind_of t)) ls) h) in *.
    assert (Hok1 : forall r i, In (r, i) ls -> role_ok r (h1 i)).
    { intros r i Hin. rewrite (C1 r i Hin). apply image_cell_role_ok. apply Hok. exact Hin. }
    destruct (IH Hvs ls h1 Hnd Hok1) as [I1 I2]. split.
    + intros r i Hin. rewrite (I1 r i Hin). rewrite (C1 r i Hin). reflexivity.
    + intros j Hj. rewrite (I2 j Hj). apply C2. exact Hj.
Qed.

(** an aliased leaf is transformed once per occurrence: the property fails for entities that share a leaf *)
Lemma alias_translated_twice d p h : h 0%nat = CPoint p ->
  run_visits (TTranslate d) (flat_map (leaf_visits KTranslate) [(RPos, 0%nat); (RPos, 0%nat)]) h 0%nat
  = CPoint (vadd (vadd p d) d).
Proof.
  intro E. unfold run_visits, run_visit. simpl. rewrite !upd_same. rewrite E. simpl. reflexivity.
Qed.

(** Operation.invert: what the reversal of the side edges does to the heap *)
Lemma rev_map_image t l : rev (map (image_pos t) l) = map (image_pos t) (rev l).
Proof. symmetry. apply map_rev. Qed.

(** copy(): transforming an entity whose leaves are disjoint from another one's leaves it untouched *)
Theorem copy_frame t vs h (orig : list nat) :
  (forall i, In i orig -> ~ In i (map fst vs)) -> forall i, In i orig -> run_visits t vs h i = h i.
Proof. intros H i Hi. apply run_visits_frame. apply H. exact Hi. Qed.

Lemma leaf_visits_ids k rl i : In i (map fst (leaf_visits k rl)) -> i = snd rl.
Proof.
  destruct rl as [r j]. destruct r, k; simpl; intuition.
Qed.

Lemma visits_ids k n i : In i (map fst (visits k n)) -> In i (map snd (leaves n)).
Proof.
  unfold visits. induction (leaves n) as [|rl ls IH]; simpl; intro H.
  - exact H.
  - rewrite map_app in H. apply in_app_or in H. destruct H as [H | H].
    + left. symmetry. apply (leaf_visits_ids k rl i H).
    + right. apply IH. exact H.
Qed.

Fixpoint disjointb (a b : list nat) : bool :=
  match a with [] => true | x :: r => negb (existsb (Nat.eqb x) b) && disjointb r b end.
Lemma disjointb_spec a b : disjointb a b = true -> forall i, In i a -> ~ In i b.
Proof.
  induction a as [|x a IH]; simpl; intros H i Hi.
  - contradiction.
  - apply andb_true_iff in H. destruct H as [H1 H2]. destruct Hi as [-> | Hi].
    + intro Hin. apply existsb_eqb_In in Hin. rewrite Hin in H1. discriminate.
    + apply IH; assumption.
Qed.

Theorem copy_independent t k (orig copy : node) h :
  disjointb (map snd (leaves orig)) (map snd (leaves copy)) = true ->
  forall i, In i (map snd (leaves orig)) -> run_visits t (visits k copy) h i = h i.
Proof.
  intros Hd i Hi. apply run_visits_frame. intro Hin. apply visits_ids in Hin.
  exact (disjointb_spec _ _ Hd i Hi Hin).
Qed.
