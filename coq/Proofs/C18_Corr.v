(** C18 - helper lemmas and tactics for the interval-checked correspondence goals.
    The lemmas only unfold the model definitions (they do not use the specification theorems), so a
    goal closed with them states what the *model as transcribed* returns on the given literals. *)
From Coq Require Import Reals List Bool.
From Interval Require Import Tactic.
From CB Require Import Base.Hex Base.Vec3 Model.C18_Finder Model.C18_Reorient Proofs.C18_Finder.
Import ListNotations.
Open Scope R_scope.

Lemma cons_eq {A} (a b : A) l m : a = b -> l = m -> a :: l = b :: m.
Proof. intros; subst; reflexivity. Qed.

Lemma on_plane_near tol o n v : norm (vsub o v) < tol -> is_point_on_plane tol o n v = true.
Proof.
  intros H. unfold is_point_on_plane, point_to_plane_distance. rewrite (Rltb_true _ _ H). apply Rltb_true. exact H.
Qed.

Lemma on_plane_far_true tol o n v :
  tol <= norm (vsub o v) -> Rabs (dot (vsub v o) (unit_vector n)) < tol -> is_point_on_plane tol o n v = true.
Proof.
  intros H H'. unfold is_point_on_plane, point_to_plane_distance. rewrite (Rltb_false _ _ H). apply Rltb_true. exact H'.
Qed.

Lemma on_plane_far_false tol o n v :
  tol <= norm (vsub o v) -> tol <= Rabs (dot (vsub v o) (unit_vector n)) -> is_point_on_plane tol o n v = false.
Proof.
  intros H H'. unfold is_point_on_plane, point_to_plane_distance. rewrite (Rltb_false _ _ H). apply Rltb_false. exact H'.
Qed.

Lemma oriented_keep hc p0 p1 p2 :
  0 <= dot (vsub (tri_center p0 p1 p2) hc) (tri_normal p0 p1 p2) -> oriented_normal hc p0 p1 p2 = tri_normal p0 p1 p2.
Proof. intros H. unfold oriented_normal. rewrite (Rltb_false _ _ H). reflexivity. Qed.

Lemma oriented_flip hc p0 p1 p2 :
  dot (vsub (tri_center p0 p1 p2) hc) (tri_normal p0 p1 p2) < 0 -> oriented_normal hc p0 p1 p2 = tri_normal p2 p1 p0.
Proof. intros H. unfold oriented_normal. rewrite (Rltb_true _ _ H). reflexivity. Qed.

Ltac c18_unfold :=
  cbv [alignment frame_normal v_left v_ceiling v_observer center8 vsum fold_right tri_normal tri_center
       unit_vector norm norm2 dot cross vsub vadd vopp vscale vzero vx vy vz fst snd dy].

Ltac c18_itv := c18_unfold; interval with (i_prec 90).

(** one vertex of a sphere query *)
Ltac c18_sphere1 :=
  unfold in_sphere_b; first [ apply Rltb_true; c18_itv | apply Rltb_false; c18_itv ].

(** one vertex of a plane query *)
Ltac c18_plane1 :=
  first [ apply on_plane_near; c18_itv
        | apply on_plane_far_true; [ c18_itv | c18_itv ]
        | apply on_plane_far_false; [ c18_itv | c18_itv ] ].

Ltac c18_each tac :=
  cbv [map]; repeat (apply cons_eq; [ tac | ]); reflexivity.

(** resolve the orientation of every triangle mentioned in the goal, then compare *)
Ltac c18_orient :=
  repeat match goal with
  | |- context [oriented_normal ?hc ?a ?b ?c] =>
      first [ rewrite (oriented_keep hc a b c) by c18_itv | rewrite (oriented_flip hc a b c) by c18_itv ]
  end.

Ltac c18_align := unfold alignment; c18_orient; c18_itv.
