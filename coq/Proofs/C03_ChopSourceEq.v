(** C03 - the field logic of chop.py (Chop.__post_init__, Chop.invert, Chop.copy_preserving) IS what the model says.

    Gen/C03/ChopSource.v is produced on every run by harness/props/C03_translate_chop.py (python [ast] -> Gallina,
    state passing, fail closed) from the working tree of /repo.  This file - compiled on every run, after the
    generated one - proves that each translated method equals the corresponding function of Model/C03_Chop.v for
    ALL field values (every combination of given / absent parameters, every preserve tag, every real number,
    including the inputs on which python raises: [None]), ties those functions to [post_init] / [invert] of
    Model/C03_Relations.v (the ones the theorems of Properties/C03.v and the sampled correspondence speak about)
    and derives the facts about copies.

    The proofs do not depend on how the python is written: all 2^5 * 3 shapes of a chop are enumerated, both sides
    are evaluated, the decisions [x = 0] are split, and what remains is equality of records field by field
    ([reflexivity] / [ring] / [field]). *)
From Coq Require Import Reals ZArith List Bool Lra Lia.
From Flocq Require Import Core.Raux.
From CB Require Import Model.C03_Relations Model.C03_Chop.
From CB Require Import Gen.C03.Source Gen.C03.ChopSource.
Import ListNotations.
Open Scope R_scope.

Ltac chop_cases c := destruct c as [? [?|] [?|] [?|] [?|] [?|] [ | | ]].

Ltac unfold_chop :=
  cbv [src_Chop___post_init__ src_Chop_invert src_Chop_copy_preserving
       s_set_length_ratio s_set_start_size s_set_c2c_expansion s_set_count s_set_end_size s_set_total_expansion
       s_set_preserve s_tag_eqb s_tag_get s_tag_set s_count_none s_int s_eq s_lt s_le
       chop_post_init chop_invert chop_invert_opt chop_copy_base chop_copy_preserving chop_n_given opt1 norm_count
       swap_tag tag_get only ratios_nonzero opt_nonzero Reqb pyint option_map negb andb
       c_length_ratio c_start_size c_c2c_expansion c_count c_end_size c_total_expansion c_preserve
       Nat.ltb Nat.leb Nat.add Z.ltb Z.leb Z.eqb Z.compare Z.sub Z.add Z.opp Z.pos_sub Pos.compare Pos.compare_cont
       Pos.add Pos.succ Pos.pred_double Z.succ_double Z.pred_double Z.double].

Ltac split_dec :=
  repeat match goal with
         | |- context [Req_EM_T ?a ?b] => destruct (Req_EM_T a b)
         | |- context [Rlt_dec ?a ?b] => destruct (Rlt_dec a b)
         | |- context [Rle_dec ?a ?b] => destruct (Rle_dec a b)
         end.

Ltac to_Z :=
  repeat match goal with
         | H : IZR ?a < IZR ?b |- _ => apply lt_IZR in H
         | H : IZR ?a <= IZR ?b |- _ => apply le_IZR in H
         | H : IZR ?a = IZR ?b |- _ => apply eq_IZR in H
         | H : ~ IZR ?a < IZR ?b |- _ => apply Rnot_lt_le in H
         | H : ~ IZR ?a <= IZR ?b |- _ => apply Rnot_le_lt in H
         | H : IZR ?a <> IZR ?b |- _ => assert (a <> b) by (intro; apply H; f_equal; assumption); clear H
         end.
Ltac num_eq :=
  first [ reflexivity | unfold Rdiv; ring | field; auto | lra
        | to_Z; first [ rewrite Z.max_r by lia | rewrite Z.max_l by lia | rewrite Z.min_r by lia | rewrite Z.min_l by lia ];
          first [ reflexivity | f_equal; lia ]
        | to_Z; f_equal; lia
        | fail 1 "the translated source differs from the model (a number)" ].
Ltac opt_eq :=
  first [ reflexivity
        | match goal with |- Some _ = Some _ => f_equal; num_eq end
        | fail 1 "the translated source differs from the model (a field)" ].
Ltac rec_eq :=
  first [ reflexivity
        | match goal with
          | |- Some (mk_chop _ _ _ _ _ _ _) = Some (mk_chop _ _ _ _ _ _ _) => f_equal; f_equal; opt_eq
          | |- mk_chop _ _ _ _ _ _ _ = mk_chop _ _ _ _ _ _ _ => f_equal; opt_eq
          end
        | fail 1 "the translated source differs from the model (a record)" ].
Ltac norm_hyps :=
  repeat match goal with
         | H : ?a * ?b <> 0 |- _ => apply Rmult_neq_0_reg in H; destruct H
         | H : ?a * ?b = 0 |- _ => apply Rmult_integral in H; destruct H
         end.
Ltac src_chop_eq :=
  unfold_chop; split_dec; norm_hyps; try (exfalso; lra); try contradiction; rec_eq.

(** ** the three translated methods *)
Lemma src_post_init_eq : forall c, src_Chop___post_init__ c = Some (chop_post_init c).
Proof. intro c; chop_cases c; src_chop_eq. Qed.

Lemma src_invert_eq : forall c, src_Chop_invert c = chop_invert_opt c.
Proof. intro c; chop_cases c; src_chop_eq. Qed.

Lemma src_copy_preserving_eq : forall c results inverted,
  src_Chop_copy_preserving c results inverted = chop_copy_preserving c results inverted.
Proof.
  intros c res inv.
  destruct c as [? ? ? ? ? ? [ | | ]]; destruct res as [? [?|] [?|] [?|] [?|] [?|] ?]; destruct inv; src_chop_eq.
Qed.

(** ** the record functions are [post_init] / [invert] of Model/C03_Relations.v on the five quantities *)
Lemma Ztrunc_norm : forall x, pyint (norm_count x) = Z.max (pyint x) 1.
Proof. intro x. unfold norm_count, pyint. apply Ztrunc_IZR. Qed.

Ltac unfold_data :=
  cbv [data_of chop_post_init post_init n_given has isSome set_c2c chop_n_given opt1 option_map
       c_length_ratio c_start_size c_c2c_expansion c_count c_end_size c_total_expansion c_preserve
       d_count d_total d_c2c d_start d_end Nat.ltb Nat.leb Nat.add].

Lemma post_init_data : forall c, data_of (chop_post_init c) = post_init (data_of c).
Proof.
  intro c; chop_cases c; unfold_data; rewrite ?Ztrunc_norm; reflexivity.
Qed.

Lemma invert_data : forall c, data_of (chop_invert c) = invert (data_of c).
Proof. intro c; destruct c; reflexivity. Qed.

(** ** consequences on the source *)
Lemma ratios_nonzero_invert : forall c, ratios_nonzero (chop_invert c) = ratios_nonzero c.
Proof.
  intro c; chop_cases c; unfold_chop; split_dec; try reflexivity; exfalso;
    repeat match goal with
           | H : / ?x = 0 |- _ => apply (Rinv_neq_0_compat x); [assumption | exact H]
           | H : ?x = 0, N : / ?x <> 0 |- _ => rewrite H, Rinv_0 in N; apply N; reflexivity
           end.
Qed.

Lemma chop_invert_involutive : forall c, ratios_nonzero c = true -> chop_invert (chop_invert c) = c.
Proof.
  intros c; chop_cases c; unfold_chop; split_dec; intro H; try discriminate H;
    f_equal; try reflexivity; f_equal; apply Rinv_inv.
Qed.

Lemma src_invert_involutive : forall c c', src_Chop_invert c = Some c' -> src_Chop_invert c' = Some c.
Proof.
  intros c c'. rewrite !src_invert_eq. unfold chop_invert_opt.
  destruct (ratios_nonzero c) eqn:H; [|discriminate]. intro E; injection E as <-.
  rewrite ratios_nonzero_invert, H, chop_invert_involutive; [reflexivity | exact H].
Qed.

Lemma src_invert_raises : forall c, src_Chop_invert c = None <->
  (c_c2c_expansion c = Some 0 \/ c_total_expansion c = Some 0).
Proof.
  intro c. rewrite src_invert_eq. chop_cases c; unfold_chop; split_dec; subst; split; intro H;
    try discriminate H; try (left; reflexivity); try (right; reflexivity); try reflexivity;
    destruct H as [H|H]; try discriminate H; injection H as H; contradiction.
Qed.

(** ** copies made by copy_preserving *)
Definition n_real (k : chop) : nat :=
  opt1 (c_start_size k) + opt1 (c_end_size k) + opt1 (c_c2c_expansion k) + opt1 (c_total_expansion k).

Lemma copy_count : forall c res, c_count (chop_copy_base c res) = option_map norm_count (c_count res).
Proof. intros c res. reflexivity. Qed.

Lemma copy_base_fields : forall c res n v,
  c_count res = Some n -> tag_get (c_preserve c) res = Some v ->
  chop_copy_base c res =
    mk_chop (c_length_ratio c) (only (c_preserve c) PStart (Some v)) (only (c_preserve c) PC2c (Some v))
            (Some (norm_count n)) (only (c_preserve c) PEnd (Some v)) None (c_preserve c).
Proof.
  intros c res n v Hn Hv. unfold chop_copy_base. rewrite Hn, Hv.
  destruct c as [? ? ? ? ? ? [ | | ]]; reflexivity.
Qed.

Lemma copy_inverted_fields : forall c res n v,
  c_count res = Some n -> tag_get (c_preserve c) res = Some v -> (c_preserve c = PC2c -> v <> 0) ->
  chop_copy_preserving c res true =
    Some (mk_chop (c_length_ratio c) (only (c_preserve c) PEnd (Some v)) (only (c_preserve c) PC2c (Some (/ v)))
                  (Some (norm_count n)) (only (c_preserve c) PStart (Some v)) None (swap_tag (c_preserve c))).
Proof.
  intros c res n v Hn Hv Hz. unfold chop_copy_preserving. rewrite (copy_base_fields c res n v Hn Hv).
  destruct c as [? ? ? ? ? ? [ | | ]]; unfold_chop; split_dec; try reflexivity.
  exfalso. apply Hz; [reflexivity | assumption].
Qed.

Lemma copy_one_real_field : forall c res n v inv k,
  c_count res = Some n -> tag_get (c_preserve c) res = Some v ->
  chop_copy_preserving c res inv = Some k ->
  n_real k = 1%nat /\ c_count k = Some (norm_count n) /\ c_length_ratio k = c_length_ratio c /\
  c_preserve k = (if inv then swap_tag (c_preserve c) else c_preserve c) /\
  tag_get (c_preserve k) k = (if inv then match c_preserve c with PC2c => Some (/ v) | _ => Some v end else Some v).
Proof.
  intros c res n v inv k Hn Hv. unfold chop_copy_preserving. rewrite (copy_base_fields c res n v Hn Hv).
  destruct c as [? ? ? ? ? ? [ | | ]]; destruct inv; unfold_chop; split_dec; intro E; try discriminate E;
    injection E as <-; repeat split.
Qed.

Lemma copy_preserve_tag : forall c res inv k,
  chop_copy_preserving c res inv = Some k ->
  c_preserve k = (if inv then swap_tag (c_preserve c) else c_preserve c).
Proof.
  intros c res inv k. unfold chop_copy_preserving, chop_invert_opt.
  destruct inv.
  - destruct (ratios_nonzero _); [|discriminate]. intro E; injection E as <-. reflexivity.
  - intro E; injection E as <-. reflexivity.
Qed.

(** the hypotheses are satisfiable: the recorded results of Chop(count=10, c2c_expansion=1.1) on L = 1 *)
Example copy_example :
  let c := mk_chop 1 None (Some (11/10)) (Some 10) None None PStart in
  let res := mk_chop 1 (Some (1/16)) (Some (11/10)) (Some 10) (Some (3/20)) (Some (12/5)) PStart in
  c_count res = Some 10 /\ tag_get (c_preserve c) res = Some (1/16) /\ (c_preserve c = PC2c -> 1/16 <> 0).
Proof. cbv zeta. repeat split. intro H; discriminate H. Qed.
