(** C15: the efficient neighbour computation the correspondence evaluates ([nbrs_fast],
    [schedule_fast], [smooth_fast] of Model/C15_Smooth.v) equals the transcribed one
    ([nbrs], [schedule], [smooth]: the junction x junction x cell x connection loops of
    GridBase._bind_junction_neighbours). *)
From Coq Require Import List Bool Arith ZArith QArith Lia.
From CB Require Import Model.C15_Smooth Proofs.C15_Smooth Proofs.C15_SmoothGraph.
Import ListNotations.
Close Scope Q_scope.
Open Scope nat_scope.

Lemma In_partners ct cells j t :
  In t (partners ct cells j) <-> exists c, In c cells /\ In j c /\ joined ct c j t.
Proof.
  unfold partners. rewrite in_flat_map. split.
  - intros [c [Hc H]]. destruct (memb j c) eqn:M; [|destruct H].
    apply memb_In in M. apply in_flat_map in H. destruct H as [[a b] [Hab H]]. simpl in H.
    exists c. split; [exact Hc|]. split; [exact M|]. exists a, b. split; [exact Hab|].
    apply in_app_or in H. destruct H as [H|H].
    + destruct (Nat.eqb_spec (nth a c 0) j) as [E|E]; [|destruct H].
      destruct H as [H|[]]. left. auto.
    + destruct (Nat.eqb_spec (nth b c 0) j) as [E|E]; [|destruct H].
      destruct H as [H|[]]. right. auto.
  - intros [c [Hc [M [a [b [Hab H]]]]]]. exists c. split; [exact Hc|].
    apply memb_In in M. rewrite M. apply in_flat_map. exists (a, b). split; [exact Hab|]. simpl.
    apply in_or_app. destruct H as [[E1 E2]|[E1 E2]].
    + left. rewrite E1, Nat.eqb_refl. left. exact E2.
    + right. rewrite E2, Nat.eqb_refl. left. exact E1.
Qed.

Lemma connected_in_spec ct cells j t :
  connected_in (cell_conns ct cells) j t = true <-> exists c, In c cells /\ In j c /\ joined ct c j t.
Proof.
  unfold connected_in, cell_conns. rewrite existsb_exists. split.
  - intros [cc [Hin Hc]]. apply in_map_iff in Hin. destruct Hin as [c [<- Hc0]]. simpl in Hc.
    apply andb_true_iff in Hc. destruct Hc as [Hm Hex]. apply memb_In in Hm.
    apply existsb_exists in Hex. destruct Hex as [xy [Hxy Hp]]. unfold connections in Hxy.
    apply in_map_iff in Hxy. destruct Hxy as [[a b] [<- Hab]]. simpl in Hp. apply pair_set_eqb_spec in Hp.
    exists c. split; [exact Hc0|]. split; [exact Hm|]. exists a, b. split; [exact Hab|exact Hp].
  - intros [c [Hc0 [Hm [a [b [Hab Hp]]]]]].
    exists (c, connections ct c). split; [apply in_map_iff; exists c; auto|]. simpl.
    apply andb_true_iff. split; [apply memb_In; exact Hm|].
    apply existsb_exists. exists (nth a c 0, nth b c 0). split.
    + unfold connections. apply in_map_iff. exists (a, b). auto.
    + simpl. apply pair_set_eqb_spec. exact Hp.
Qed.

Lemma bool_eq_iff (a b : bool) : (a = true <-> b = true) -> a = b.
Proof.
  destruct a, b; intros [H1 H2]; try reflexivity.
  - symmetry. apply H1. reflexivity.
  - apply H2. reflexivity.
Qed.

Theorem nbrs_fast_eq ct cells n j : nbrs_fast ct cells n j = nbrs ct cells n j.
Proof.
  unfold nbrs_fast, nbrs, nbrs_in. apply filter_ext. intro t. f_equal.
  apply bool_eq_iff. rewrite memb_In, In_partners, connected_in_spec. reflexivity.
Qed.

Theorem schedule_fast_eq ct cells n fixed : schedule_fast ct cells n fixed = schedule ct cells n fixed.
Proof.
  unfold schedule_fast, schedule. apply map_ext. intro j. rewrite nbrs_fast_eq. reflexivity.
Qed.

Theorem smooth_fast_eq g fixed_idx targets tol2 iters p :
  smooth_fast g fixed_idx targets tol2 iters p = smooth g fixed_idx targets tol2 iters p.
Proof. unfold smooth_fast, smooth. rewrite schedule_fast_eq. reflexivity. Qed.
