(** C03 - lemmas about the twelve relations and the ten plans of Model/C03_Relations.v. *)
From Coq Require Import Reals ZArith List Bool Lra Lia Psatz.
From Flocq Require Import Core.Raux.
From CB Require Import Model.C03_Relations Proofs.C03_GeomSeries.
Import ListNotations.
Open Scope R_scope.

(** ** guards and decisions *)
Lemma guard_some {A : Type} (b : bool) (x : option A) v : guard b x = Some v -> b = true /\ x = Some v.
Proof. destruct b; simpl; intros H; [auto|discriminate]. Qed.
Lemma bind_some {A B : Type} (x : option A) (f : A -> option B) v :
  bind x f = Some v -> exists a, x = Some a /\ f a = Some v.
Proof. destruct x; simpl; intros H; [eauto|discriminate]. Qed.
Lemma omap_some {A B : Type} (f : A -> B) (x : option A) v :
  option_map f x = Some v -> exists a, x = Some a /\ v = f a.
Proof. destruct x; simpl; intros H; [inversion H; eauto|discriminate]. Qed.
Lemma Rltb_true a b : Rltb a b = true -> a < b.
Proof. unfold Rltb. destruct (Rlt_dec a b); [auto|discriminate]. Qed.
Lemma Rltb_false a b : Rltb a b = false -> b <= a.
Proof. unfold Rltb. destruct (Rlt_dec a b); [discriminate|intros _; lra]. Qed.
Lemma Rleb_true a b : Rleb a b = true -> a <= b.
Proof. unfold Rleb. destruct (Rle_dec a b); [auto|discriminate]. Qed.
Lemma Reqb_false a b : Reqb a b = false -> a <> b.
Proof. unfold Reqb. destruct (Req_EM_T a b); [discriminate|auto]. Qed.
Lemma Rltb_intro a b : a < b -> Rltb a b = true.
Proof. unfold Rltb. destruct (Rlt_dec a b); [auto|contradiction]. Qed.
Lemma Rltb_intro_false a b : b <= a -> Rltb a b = false.
Proof. unfold Rltb. destruct (Rlt_dec a b); [lra|auto]. Qed.

(** break a hypothesis [guard .. (guard .. x) = Some v] into its conditions *)
Ltac inv_guards :=
  repeat match goal with
  | H : guard _ _ = Some _ |- _ => apply guard_some in H; destruct H as [? H]
  | H : bind _ _ = Some _ |- _ => apply bind_some in H; destruct H as [? [? H]]
  | H : option_map _ _ = Some _ |- _ => apply omap_some in H; destruct H as [? [H ?]]
  | H : negb _ = true |- _ => apply negb_true_iff in H
  | H : (_ && _)%bool = true |- _ => apply andb_true_iff in H; destruct H
  | H : Rltb _ _ = true |- _ => apply Rltb_true in H
  | H : Rltb _ _ = false |- _ => apply Rltb_false in H
  | H : Rleb _ _ = true |- _ => apply Rleb_true in H
  | H : Reqb _ _ = false |- _ => apply Reqb_false in H
  | H : (_ <=? _)%Z = true |- _ => apply Z.leb_le in H
  | H : (_ <? _)%Z = true |- _ => apply Z.ltb_lt in H
  | H : valid_length _ = true |- _ => unfold valid_length in H
  | H : Some _ = Some _ |- _ => inversion H; clear H; subst
  end.

(** ** integer / real exponents *)
Lemma powerRZ_nat r n : (0 <= n)%Z -> powerRZ r n = r ^ Z.to_nat n.
Proof. intros H. destruct n as [|p|p]; simpl; try reflexivity. lia. Qed.

Lemma IZR_to_nat n : (0 <= n)%Z -> INR (Z.to_nat n) = IZR n.
Proof. intros H. rewrite INR_IZR_INZ. rewrite Z2Nat.id by assumption. reflexivity. Qed.

Lemma pow_ne_1 r k : 0 < r -> r <> 1 -> (1 <= k)%nat -> r ^ k <> 1.
Proof.
  intros H0 H1 Hk. destruct (Rlt_dec r 1) as [Hlt|Hge].
  - pose proof (pow_lt_mono_base r 1 k (Rlt_le _ _ H0) Hlt Hk) as H. rewrite pow1 in H. lra.
  - assert (Hgt : 1 < r) by lra.
    pose proof (pow_lt_mono_base 1 r k Rle_0_1 Hgt Hk) as H. rewrite pow1 in H. lra.
Qed.

Lemma pyint_plus1_bounds x : 0 <= x -> IZR (pyint x + 1 - 1) <= x < IZR (pyint x + 1).
Proof.
  intros Hx. unfold pyint. rewrite Ztrunc_floor by assumption.
  replace (Zfloor x + 1 - 1)%Z with (Zfloor x) by lia. rewrite plus_IZR.
  split; [apply Zfloor_lb|apply Zfloor_ub].
Qed.

Lemma pyint_plus1_eq x n : 0 <= x -> IZR (n - 1) <= x < IZR n -> (pyint x + 1)%Z = n.
Proof.
  intros Hx [H1 H2]. unfold pyint. rewrite Ztrunc_floor by assumption.
  rewrite (Zfloor_imp (n - 1)); [lia|]. replace (n - 1 + 1)%Z with n by lia. split; assumption.
Qed.

Lemma pyint_plus1_ge1 x : 0 <= x -> (1 <= pyint x + 1)%Z.
Proof.
  intros Hx. unfold pyint. rewrite Ztrunc_floor by assumption.
  assert (0 <= Zfloor x)%Z; [|lia]. apply Zfloor_lub. simpl. assumption.
Qed.

(** real exponent: r^x = exp (x ln r); monotone in x, direction given by r <> 1 *)
Lemma Rpower_nat r (k : nat) : 0 < r -> Rpower r (INR k) = r ^ k.
Proof. intros. apply Rpower_pow; assumption. Qed.

Lemma Rpower_mono_gt1 r x y : 1 < r -> x <= y -> Rpower r x <= Rpower r y.
Proof. intros Hr Hxy. apply Rle_Rpower; lra. Qed.
Lemma Rpower_smono_gt1 r x y : 1 < r -> x < y -> Rpower r x < Rpower r y.
Proof. intros Hr Hxy. apply Rpower_lt; assumption. Qed.
Lemma Rpower_mono_lt1 r x y : 0 < r -> r < 1 -> x <= y -> Rpower r y <= Rpower r x.
Proof.
  intros H0 H1 Hxy. unfold Rpower.
  assert (ln r < 0) by (rewrite <- ln_1; apply ln_increasing; lra).
  destruct (Req_dec x y) as [->|Hne]; [lra|]. left. apply exp_increasing. nra.
Qed.
Lemma Rpower_smono_lt1 r x y : 0 < r -> r < 1 -> x < y -> Rpower r y < Rpower r x.
Proof.
  intros H0 H1 Hxy. unfold Rpower.
  assert (ln r < 0) by (rewrite <- ln_1; apply ln_increasing; lra).
  apply exp_increasing. nra.
Qed.

Lemma ln_ne_0 r : 0 < r -> r <> 1 -> ln r <> 0.
Proof.
  intros H0 H1 H. destruct (Rlt_dec r 1).
  - assert (ln r < ln 1) by (apply ln_increasing; lra). rewrite ln_1 in *. lra.
  - assert (ln 1 < ln r) by (apply ln_increasing; lra). rewrite ln_1 in *. lra.
Qed.

(** the number of cells of ratio [q] needed to fill [(1-A)/(1-q)] first cells, bracketed *)
Lemma geo_bracket q A x (k : nat) :
  0 < q -> q <> 1 -> 0 < A -> x = ln A / ln q -> (1 <= k)%nat ->
  INR k - 1 <= x < INR k ->
  gsum q (k - 1) <= (1 - A) / (1 - q) < gsum q k.
Proof.
  intros Hq Hq1 HA Hx Hk [Hlo Hhi].
  assert (Hln : ln q <> 0) by (apply ln_ne_0; assumption).
  assert (HAx : A = Rpower q x).
  { unfold Rpower. rewrite Hx. replace (ln A / ln q * ln q) with (ln A) by (field; assumption).
    symmetry. apply exp_ln. assumption. }
  assert (Hk1 : INR (k - 1) = INR k - 1) by (rewrite minus_INR by lia; simpl; ring).
  rewrite !gsum_closed_div by assumption.
  rewrite <- (Rpower_nat q (k - 1)) by assumption. rewrite <- (Rpower_nat q k) by assumption.
  rewrite Hk1. rewrite HAx.
  destruct (Rlt_dec q 1) as [Hlt|Hge].
  - pose proof (Rpower_mono_lt1 q _ _ Hq Hlt Hlo). pose proof (Rpower_smono_lt1 q _ _ Hq Hlt Hhi).
    assert (0 < 1 - q) by lra. split.
    + apply Rmult_le_compat_r; [left; apply Rinv_0_lt_compat; assumption|lra].
    + apply Rmult_lt_compat_r; [apply Rinv_0_lt_compat; assumption|lra].
  - assert (Hgt : 1 < q) by lra.
    pose proof (Rpower_mono_gt1 q _ _ Hgt Hlo). pose proof (Rpower_smono_gt1 q _ _ Hgt Hhi).
    assert (Hneg : / (1 - q) < 0) by (apply Rinv_lt_0_compat; lra).
    unfold Rdiv. split; nra.
Qed.

(** ** relation-level laws *)

(** every relation validates the length *)
Lemma valid_length_false L : L <= 0 -> valid_length L = false.
Proof. intros H. unfold valid_length. apply Rltb_intro_false. assumption. Qed.

(** total <- (count, c2c) and back: the ratio blockMesh derives from (n, r^(n-1)) is r *)
Lemma total_count_c2c_law L n r E :
  total_count_c2c L n r = Some E -> 0 < r ->
  0 < L /\ (1 <= n)%Z /\ E = r ^ (Z.to_nat n - 1) /\ 0 < E /\
  ((2 <= n)%Z -> bm_ratio (Z.to_nat n) E = r).
Proof.
  unfold total_count_c2c. intros H Hr. inv_guards.
  assert (HE : powerRZ r (n - 1) = r ^ (Z.to_nat n - 1)).
  { rewrite powerRZ_nat by lia. f_equal. lia. }
  rewrite HE. repeat split; try assumption.
  - apply pow_lt; assumption.
  - intros Hn. apply bm_ratio_of_pow; [assumption|lia].
Qed.

(** c2c <- (count, total) *)
Lemma c2c_count_total_law L n E r :
  c2c_count_total L n E = Some r -> 0 < L /\ (2 <= n)%Z /\ r = bm_ratio (Z.to_nat n) E.
Proof.
  unfold c2c_count_total. intros H. inv_guards. repeat split; [assumption|lia|].
  unfold bm_ratio. destruct (Z.to_nat n) as [|[|k]] eqn:Hk; try lia.
  f_equal. unfold Rdiv. rewrite Rmult_1_l. f_equal.
  rewrite <- IZR_to_nat by lia. f_equal. lia.
Qed.

(** start <- (count, c2c), away from the tolerance band: n cells of ratio r starting with s fill L *)
Lemma start_count_c2c_law tau L n r s :
  start_count_c2c tau L n r = Some s -> 0 < r -> (r = 1 \/ tau < Rabs (r - 1)) -> 0 <= tau ->
  0 < L /\ (1 <= n)%Z /\ s * gsum r (Z.to_nat n) = L /\ 0 < s.
Proof.
  unfold start_count_c2c. intros H Hr Hband Htau. inv_guards.
  assert (Hn : (1 <= Z.to_nat n)%nat) by lia.
  assert (Hg : 0 < gsum r (Z.to_nat n)) by (apply gsum_pos; [lra|assumption]).
  assert (Hs : forall s, s * gsum r (Z.to_nat n) = L -> 0 < s) by (intros; nra).
  unfold Rltb in *. destruct (Rlt_dec tau (Rabs (r - 1))) as [Hb|Hb]; inv_guards.
  - assert (Hr1 : r <> 1). { intros ->. replace (1 - 1) with 0 in Hb by ring. rewrite Rabs_R0 in Hb. lra. }
    assert (Hp : r ^ Z.to_nat n <> 1) by (apply pow_ne_1; assumption).
    assert (Heq : L * (1 - r) / (1 - powerRZ r n) * gsum r (Z.to_nat n) = L).
    { rewrite powerRZ_nat by lia. rewrite gsum_closed_div by assumption. field. split; lra. }
    repeat split; auto.
  - destruct Hband as [->|Hb']; [|contradiction].
    assert (Heq : L / IZR n * gsum 1 (Z.to_nat n) = L).
    { rewrite gsum_one. rewrite IZR_to_nat by lia. field. apply not_0_IZR. lia. }
    repeat split; auto.
Qed.

(** count <- (start, c2c): the rounding law.  With n = int(x)+1 cells of ratio r, the first cell is
    not coarser than s; with one cell fewer it is not finer. *)
Lemma count_start_c2c_law tau L s r n :
  count_start_c2c tau L s r = Some n -> 0 < r -> (r = 1 \/ tau < Rabs (r - 1)) -> 0 <= tau ->
  0 < L /\ 0 < s /\ (1 <= n)%Z /\
  s * gsum r (Z.to_nat n - 1) <= L /\ L < s * gsum r (Z.to_nat n).
Proof.
  unfold count_start_c2c, x_start_c2c. intros H Hr Hband Htau. inv_guards. subst n.
  destruct (Rltb tau (Rabs (r - 1))) eqn:Hb.
  - inv_guards.
    assert (Hr1 : r <> 1). { intros ->. replace (1 - 1) with 0 in Hb by ring. rewrite Rabs_R0 in Hb. lra. }
    set (A := 1 - L / s * (1 - r)) in *.
    assert (Hx0 : 0 <= ln A / ln r).
    { assert (HLs : 0 < L / s) by (apply Rdiv_lt_0_compat; assumption).
      destruct (Rlt_dec r 1).
      - assert (A < 1) by (unfold A; nra).
        assert (ln A < 0) by (rewrite <- ln_1; apply ln_increasing; lra).
        assert (ln r < 0) by (rewrite <- ln_1; apply ln_increasing; lra).
        left. replace (ln A / ln r) with ((- ln A) / (- ln r)) by (field; lra).
        apply Rdiv_lt_0_compat; lra.
      - assert (1 < A) by (unfold A; nra).
        assert (0 < ln A) by (rewrite <- ln_1; apply ln_increasing; lra).
        assert (0 < ln r) by (rewrite <- ln_1; apply ln_increasing; lra).
        left. apply Rdiv_lt_0_compat; lra. }
    pose proof (pyint_plus1_bounds _ Hx0) as Hb2. pose proof (pyint_plus1_ge1 _ Hx0) as Hn1.
    set (n := (pyint (ln A / ln r) + 1)%Z) in *.
    assert (Hk : INR (Z.to_nat n) = IZR n) by (apply IZR_to_nat; lia).
    assert (Hbr : gsum r (Z.to_nat n - 1) <= (1 - A) / (1 - r) < gsum r (Z.to_nat n)).
    { apply geo_bracket with (x := ln A / ln r); try assumption; try reflexivity; [lia|].
      rewrite Hk. rewrite minus_IZR in Hb2. simpl in Hb2. lra. }
    assert (HA : (1 - A) / (1 - r) = L / s) by (unfold A; field; split; lra).
    rewrite HA in Hbr. destruct Hbr as [Hb3 Hb4].
    repeat split; try assumption.
    + apply Rmult_le_compat_l with (r := s) in Hb3; [|lra].
      replace (s * (L / s)) with L in Hb3 by (field; lra). assumption.
    + apply Rmult_lt_compat_l with (r := s) in Hb4; [|lra].
      replace (s * (L / s)) with L in Hb4 by (field; lra). assumption.
  - inv_guards. destruct Hband as [->|Hb']; [|lra].
    assert (Hx0 : 0 <= L / s) by (left; apply Rdiv_lt_0_compat; assumption).
    pose proof (pyint_plus1_bounds _ Hx0) as Hb2. pose proof (pyint_plus1_ge1 _ Hx0) as Hn1.
    set (n := (pyint (L / s) + 1)%Z) in *.
    rewrite !gsum_one. rewrite minus_INR by lia. rewrite IZR_to_nat by lia. simpl.
    rewrite minus_IZR in Hb2. simpl in Hb2. destruct Hb2 as [Hb3 Hb4].
    repeat split; try assumption.
    + apply Rmult_le_compat_l with (r := s) in Hb3; [|lra].
      replace (s * (L / s)) with L in Hb3 by (field; lra). assumption.
    + apply Rmult_lt_compat_l with (r := s) in Hb4; [|lra].
      replace (s * (L / s)) with L in Hb4 by (field; lra). assumption.
Qed.

(** count <- (end, c2c): the same law read from the other end (ratio 1/r, first cell e) *)
Lemma count_end_c2c_law tau L e r n :
  count_end_c2c tau L e r = Some n -> 0 < r -> 0 < e -> (r = 1 \/ tau < Rabs (r - 1)) -> 0 <= tau ->
  0 < L /\ (1 <= n)%Z /\
  e * gsum (/ r) (Z.to_nat n - 1) <= L /\ L < e * gsum (/ r) (Z.to_nat n).
Proof.
  unfold count_end_c2c, x_end_c2c. intros H Hr He Hband Htau. inv_guards. subst n.
  destruct (Rltb tau (Rabs (r - 1))) eqn:Hb.
  - inv_guards.
    assert (Hr1 : r <> 1). { intros ->. replace (1 - 1) with 0 in Hb by ring. rewrite Rabs_R0 in Hb. lra. }
    set (B := 1 + L / e * (1 - r) / r) in *.
    assert (Hq : 0 < / r) by (apply Rinv_0_lt_compat; assumption).
    assert (Hq1 : / r <> 1). { intros Hc. apply Hr1. rewrite <- (Rinv_inv r). rewrite Hc. apply Rinv_1. }
    assert (Hxeq : ln (1 / B) / ln r = ln B / ln (/ r)).
    { replace (1 / B) with (/ B) by (unfold Rdiv; ring). rewrite !ln_Rinv by assumption.
      field. apply ln_ne_0; assumption. }
    rewrite Hxeq in *.
    assert (HLe : 0 < L / e) by (apply Rdiv_lt_0_compat; assumption).
    assert (Hx0 : 0 <= ln B / ln (/ r)).
    { destruct (Rlt_dec r 1).
      - assert (1 < / r) by (rewrite <- Rinv_1; apply Rinv_lt_contravar; lra).
        assert (0 < (1 - r) / r) by (apply Rdiv_lt_0_compat; lra).
        assert (1 < B) by (unfold B; unfold Rdiv in *; nra).
        assert (0 < ln B) by (rewrite <- ln_1; apply ln_increasing; lra).
        assert (0 < ln (/ r)) by (rewrite <- ln_1; apply ln_increasing; lra).
        left. apply Rdiv_lt_0_compat; lra.
      - assert (/ r < 1) by (rewrite <- Rinv_1; apply Rinv_lt_contravar; lra).
        assert (0 < (r - 1) / r) by (apply Rdiv_lt_0_compat; lra).
        assert (B < 1). { unfold B. replace (L / e * (1 - r) / r) with (- (L / e * ((r - 1) / r))) by (field; lra). nra. }
        assert (ln B < 0) by (rewrite <- ln_1; apply ln_increasing; lra).
        assert (ln (/ r) < 0) by (rewrite <- ln_1; apply ln_increasing; lra).
        left. replace (ln B / ln (/ r)) with ((- ln B) / (- ln (/ r))) by (field; lra).
        apply Rdiv_lt_0_compat; lra. }
    pose proof (pyint_plus1_bounds _ Hx0) as Hb2. pose proof (pyint_plus1_ge1 _ Hx0) as Hn1.
    set (n := (pyint (ln B / ln (/ r)) + 1)%Z) in *.
    assert (Hk : INR (Z.to_nat n) = IZR n) by (apply IZR_to_nat; lia).
    assert (Hbr : gsum (/ r) (Z.to_nat n - 1) <= (1 - B) / (1 - / r) < gsum (/ r) (Z.to_nat n)).
    { apply geo_bracket with (x := ln B / ln (/ r)); try assumption; try reflexivity; [lia|].
      rewrite Hk. rewrite minus_IZR in Hb2. simpl in Hb2. lra. }
    assert (HB : (1 - B) / (1 - / r) = L / e) by (unfold B; field; repeat split; lra).
    rewrite HB in Hbr. destruct Hbr as [Hb3 Hb4].
    repeat split; try assumption.
    + apply Rmult_le_compat_l with (r := e) in Hb3; [|lra].
      replace (e * (L / e)) with L in Hb3 by (field; lra). assumption.
    + apply Rmult_lt_compat_l with (r := e) in Hb4; [|lra].
      replace (e * (L / e)) with L in Hb4 by (field; lra). assumption.
  - inv_guards. destruct Hband as [->|Hb']; [|lra]. rewrite Rinv_1.
    assert (Hx0 : 0 <= L / e) by (left; apply Rdiv_lt_0_compat; assumption).
    pose proof (pyint_plus1_bounds _ Hx0) as Hb2. pose proof (pyint_plus1_ge1 _ Hx0) as Hn1.
    set (n := (pyint (L / e) + 1)%Z) in *.
    rewrite !gsum_one. rewrite minus_INR by lia. rewrite IZR_to_nat by lia. simpl.
    rewrite minus_IZR in Hb2. simpl in Hb2. destruct Hb2 as [Hb3 Hb4].
    repeat split; try assumption.
    + apply Rmult_le_compat_l with (r := e) in Hb3; [|lra].
      replace (e * (L / e)) with L in Hb3 by (field; lra). assumption.
    + apply Rmult_lt_compat_l with (r := e) in Hb4; [|lra].
      replace (e * (L / e)) with L in Hb4 by (field; lra). assumption.
Qed.

(** count <- (total, c2c): E lies between r^(n-1) and r^n (when E and r point the same way) *)
Lemma count_total_c2c_law tau L E r n :
  count_total_c2c tau L E r = Some n -> 0 <= tau -> 0 <= ln E / ln r ->
  0 < L /\ 0 < E /\ 0 < r /\ (1 <= n)%Z /\
  (1 < r -> r ^ (Z.to_nat n - 1) <= E < r ^ Z.to_nat n) /\
  (r < 1 -> r ^ Z.to_nat n < E <= r ^ (Z.to_nat n - 1)).
Proof.
  unfold count_total_c2c, x_total_c2c. intros H Htau Hx0. inv_guards.
  assert (Hr1 : r <> 1). { intros ->. replace (1 - 1) with 0 in * by ring. rewrite Rabs_R0 in *. lra. }
  pose proof (pyint_plus1_bounds _ Hx0) as Hb2. pose proof (pyint_plus1_ge1 _ Hx0) as Hn1.
  set (x := ln E / ln r) in *. set (n := (pyint x + 1)%Z) in *.
  assert (Hln : ln r <> 0) by (apply ln_ne_0; assumption).
  assert (HEx : E = Rpower r x).
  { unfold Rpower, x. replace (ln E / ln r * ln r) with (ln E) by (field; assumption).
    symmetry. apply exp_ln. assumption. }
  assert (Hk : INR (Z.to_nat n) = IZR n) by (apply IZR_to_nat; lia).
  assert (Hk1 : INR (Z.to_nat n - 1) = IZR n - 1).
  { rewrite minus_INR by lia. rewrite Hk. simpl. ring. }
  rewrite minus_IZR in Hb2. simpl in Hb2. destruct Hb2 as [Hlo Hhi].
  repeat split; try assumption.
  - rewrite <- Rpower_nat by assumption. rewrite Hk1, HEx. apply Rpower_mono_gt1; assumption.
  - rewrite <- Rpower_nat by assumption. rewrite Hk, HEx. apply Rpower_smono_gt1; assumption.
  - rewrite <- Rpower_nat by assumption. rewrite Hk, HEx. apply Rpower_smono_lt1; assumption.
  - rewrite <- Rpower_nat by assumption. rewrite Hk1, HEx. apply Rpower_mono_lt1; assumption.
Qed.

(** c2c <- (count, start) *)
Lemma c2c_count_start_law tau bq L n s r :
  c2c_count_start tau bq L n s = Some r -> brentq_sound bq ->
  0 < L /\ (1 <= n)%Z /\ 0 < s < L /\ 0 < r /\
  ((n = 1%Z /\ r = 1) \/
   ((2 <= n)%Z /\ Rabs (IZR n * s - L) / L < tau /\ r = 1) \/
   ((2 <= n)%Z /\ s * gsum r (Z.to_nat n) = L)).
Proof.
  unfold c2c_count_start. intros H [Hs _]. inv_guards.
  destruct (n =? 1)%Z eqn:Hn1.
  - apply Z.eqb_eq in Hn1. inv_guards. repeat split; try assumption; try lra. left. auto.
  - apply Z.eqb_neq in Hn1. destruct (Rltb _ tau) eqn:Hb.
    + inv_guards. repeat split; try assumption; try lra. right. left. repeat split; [lia|assumption].
    + apply Hs in H. destruct H as [Hr Heq]. repeat split; try assumption.
      right. right. split; [lia|assumption].
Qed.

(** c2c <- (count, end) *)
Lemma c2c_count_end_law tau bq L n e r :
  c2c_count_end tau bq L n e = Some r -> brentq_sound bq ->
  0 < L /\ (1 <= n)%Z /\ 0 < e /\ 0 < r /\
  ((Rabs (IZR n * e - L) / L < tau /\ r = 1) \/
   ((2 <= n)%Z /\ e * gsum r (Z.to_nat n) = L * r ^ (Z.to_nat n - 1))).
Proof.
  unfold c2c_count_end. intros H [_ [He _]]. inv_guards.
  destruct (Rltb _ tau) eqn:Hb.
  - inv_guards. repeat split; try assumption; try lra; try (left; auto).
  - destruct (n =? 1)%Z eqn:Hn1; [discriminate|]. apply Z.eqb_neq in Hn1.
    apply He in H. destruct H as [Hr Heq]. repeat split; try assumption.
    right. split; [lia|assumption].
Qed.

(** ** the function behind count <- (total, start) *)
Definition Galt (x E : R) : R := E + (1 - E) / (1 - Rpower E (1 / (x - 1))).

Lemma Rpower_ne_1 E y : 0 < E -> E <> 1 -> y <> 0 -> Rpower E y <> 1.
Proof.
  intros HE HE1 Hy Hc. unfold Rpower in Hc. rewrite <- exp_0 in Hc. apply exp_inv in Hc.
  apply Rmult_integral in Hc. destruct Hc; [contradiction|]. apply (ln_ne_0 E); assumption.
Qed.

Lemma Rpower_lt1_pos E y : 0 < E -> E < 1 -> 0 < y -> Rpower E y < 1.
Proof.
  intros H0 H1 Hy. pose proof (Rpower_smono_lt1 E 0 y H0 H1 Hy) as H. rewrite Rpower_O in H; assumption.
Qed.
Lemma Rpower_gt1_pos E y : 1 < E -> 0 < y -> 1 < Rpower E y.
Proof.
  intros H1 Hy. pose proof (Rpower_smono_gt1 E 0 y H1 Hy) as H. rewrite Rpower_O in H; [assumption|lra].
Qed.

Lemma Gcode_alt x E : 0 < E -> E <> 1 -> x <> 1 -> Gcode x E = Galt x E.
Proof.
  intros HE HE1 Hx. unfold Gcode, Galt.
  assert (Hy : 1 / (x - 1) <> 0). { unfold Rdiv. rewrite Rmult_1_l. apply Rinv_neq_0_compat. lra. }
  pose proof (Rpower_ne_1 E _ HE HE1 Hy) as Hq.
  replace (x / (x - 1)) with (1 + 1 / (x - 1)) by (field; lra).
  rewrite Rpower_plus, Rpower_1 by assumption. field. lra.
Qed.

Lemma Galt_mono x y E : 0 < E -> E <> 1 -> 1 < x -> x < y -> Galt x E < Galt y E.
Proof.
  intros HE HE1 Hx Hxy. unfold Galt.
  assert (Hinv : 1 / (y - 1) < 1 / (x - 1)).
  { unfold Rdiv. rewrite !Rmult_1_l. apply Rinv_lt_contravar; [nra|lra]. }
  assert (Hyp : 0 < 1 / (y - 1)) by (apply Rdiv_lt_0_compat; lra).
  destruct (Rlt_dec E 1) as [Hlt|Hge].
  - (* q < 1, increasing in x *)
    pose proof (Rpower_smono_lt1 E _ _ HE Hlt Hinv) as Hq.
    assert (Hqy : Rpower E (1 / (y - 1)) < 1).
    { apply Rpower_lt1_pos; assumption. }
    assert (H1 : 0 < 1 - Rpower E (1 / (y - 1))) by lra.
    assert (H2 : 0 < 1 - Rpower E (1 / (x - 1))) by lra.
    assert (/ (1 - Rpower E (1 / (x - 1))) < / (1 - Rpower E (1 / (y - 1)))).
    { apply Rinv_lt_contravar; [nra|lra]. }
    unfold Rdiv at 1 3. nra.
  - assert (Hgt : 1 < E) by lra.
    pose proof (Rpower_smono_gt1 E _ _ Hgt Hinv) as Hq.
    assert (Hqy : 1 < Rpower E (1 / (y - 1))).
    { apply Rpower_gt1_pos; assumption. }
    assert (H1 : 0 < Rpower E (1 / (y - 1)) - 1) by lra.
    assert (H2 : 0 < Rpower E (1 / (x - 1)) - 1) by lra.
    assert (/ (Rpower E (1 / (x - 1)) - 1) < / (Rpower E (1 / (y - 1)) - 1)).
    { apply Rinv_lt_contravar; [nra|lra]. }
    replace ((1 - E) / (1 - Rpower E (1 / (x - 1)))) with ((E - 1) * / (Rpower E (1 / (x - 1)) - 1)) by (field; lra).
    replace ((1 - E) / (1 - Rpower E (1 / (y - 1)))) with ((E - 1) * / (Rpower E (1 / (y - 1)) - 1)) by (field; lra).
    nra.
Qed.

Lemma Galt_gt_1 x E : 0 < E -> E <> 1 -> 1 < x -> 1 < Galt x E.
Proof.
  intros HE HE1 Hx. unfold Galt.
  assert (Hyp : 0 < 1 / (x - 1)) by (apply Rdiv_lt_0_compat; lra).
  destruct (Rlt_dec E 1) as [Hlt|Hge].
  - assert (Hq : Rpower E (1 / (x - 1)) < 1).
    { apply Rpower_lt1_pos; assumption. }
    pose proof (Rpower_pos E (1 / (x - 1))) as Hq0.
    assert (1 - E < (1 - E) / (1 - Rpower E (1 / (x - 1)))).
    { apply Rmult_lt_reg_r with (1 - Rpower E (1 / (x - 1))); [lra|].
      replace ((1 - E) / (1 - Rpower E (1 / (x - 1))) * (1 - Rpower E (1 / (x - 1)))) with (1 - E) by (field; lra).
      nra. }
    lra.
  - assert (Hgt : 1 < E) by lra.
    assert (Hq : 1 < Rpower E (1 / (x - 1))).
    { apply Rpower_gt1_pos; assumption. }
    assert (0 < (1 - E) / (1 - Rpower E (1 / (x - 1)))).
    { replace ((1 - E) / (1 - Rpower E (1 / (x - 1)))) with ((E - 1) / (Rpower E (1 / (x - 1)) - 1)) by (field; lra).
      apply Rdiv_lt_0_compat; lra. }
    lra.
Qed.

(** at a whole number of cells it is the geometric series of blockMesh's ratio *)
Lemma Galt_nat (k : nat) E : 0 < E -> E <> 1 -> (2 <= k)%nat -> Galt (INR k) E = gsum (bm_ratio k E) k.
Proof.
  intros HE HE1 Hk. unfold Galt.
  assert (Hr : bm_ratio k E = Rpower E (1 / (INR k - 1))).
  { unfold bm_ratio. destruct k as [|[|k]]; try lia. f_equal.
    unfold Rdiv. rewrite Rmult_1_l. f_equal. rewrite minus_INR by lia. simpl. ring. }
  rewrite <- Hr.
  assert (Hk1 : INR k - 1 <> 0).
  { assert (2 <= INR k) by (replace 2 with (INR 2) by (simpl; ring); apply le_INR; assumption). lra. }
  assert (Hq : bm_ratio k E <> 1).
  { rewrite Hr. apply Rpower_ne_1; try assumption. unfold Rdiv. rewrite Rmult_1_l. apply Rinv_neq_0_compat. assumption. }
  rewrite gsum_closed_div by assumption.
  replace k with (S (k - 1)) at 3 by lia. simpl. rewrite bm_ratio_pow by assumption. field. lra.
Qed.

(** count <- (total, start): structure *)
Lemma count_total_start_cases tau bq L E s n :
  count_total_start tau bq L E s = Some n -> brentq_sound bq ->
  0 < L /\ 0 < s /\ E <> 0 /\
  ((Rabs (E - 1) < tau /\ n = Zceil (L / d_min E s)) \/
   (tau <= Rabs (E - 1) /\ exists x, 0 < x /\ x <> 1 /\ Gcode x E = L / s /\ n = (pyint x + 1)%Z)).
Proof.
  unfold count_total_start. intros H [_ [_ Hc]]. inv_guards.
  destruct (Rltb (Rabs (E - 1)) tau) eqn:Hb; inv_guards.
  - repeat split; try assumption. left. auto.
  - match goal with Hq : bq_count _ _ _ _ = Some _ |- _ => apply Hc in Hq; destruct Hq as [Hx [Hx1 HG]] end.
    repeat split; try assumption.
    right. split; [assumption|]. exists x. auto.
Qed.

Lemma bm_ratio_ge_1 n E : 1 <= E -> 1 <= bm_ratio n E.
Proof.
  intros HE. unfold bm_ratio. destruct n as [|[|n]]; try lra.
  destruct (Req_dec E 1) as [->|Hne].
  - unfold Rpower. rewrite ln_1, Rmult_0_r, exp_0. lra.
  - left. apply Rpower_gt1_pos; [lra|]. apply Rinv_0_lt_compat. apply lt_0_INR. lia.
Qed.

Lemma bm_ratio_le_1 n E : 0 < E -> E <= 1 -> bm_ratio n E <= 1.
Proof.
  intros H0 HE. unfold bm_ratio. destruct n as [|[|n]]; try lra.
  destruct (Req_dec E 1) as [->|Hne].
  - unfold Rpower. rewrite ln_1, Rmult_0_r, exp_0. lra.
  - left. apply Rpower_lt1_pos; [assumption|lra|]. apply Rinv_0_lt_compat. apply lt_0_INR. lia.
Qed.

(** the near-uniform branch (rounding up): never coarser than requested *)
Lemma uniform_branch_law L E s n :
  0 < L -> 0 < s -> 0 < E -> n = Zceil (L / d_min E s) ->
  (1 <= n)%Z /\ bm_first L (Z.to_nat n) E <= s /\
  (E = 1 -> (2 <= n)%Z -> s < L / IZR (n - 1)).
Proof.
  intros HL Hs HE Hn.
  assert (Hd : 0 < d_min E s). { unfold d_min. destruct (Rltb 1 E); [assumption|nra]. }
  assert (Hq : 0 < L / d_min E s) by (apply Rdiv_lt_0_compat; assumption).
  assert (Hub : L / d_min E s <= IZR n) by (subst n; apply Zceil_ub).
  assert (Hn1 : (1 <= n)%Z).
  { assert (0 < n)%Z; [|lia]. apply lt_IZR. lra. }
  assert (HLn : L <= IZR n * d_min E s).
  { apply Rmult_le_compat_r with (r := d_min E s) in Hub; [|lra].
    replace (L / d_min E s * d_min E s) with L in Hub by (field; lra). assumption. }
  set (k := Z.to_nat n). assert (Hk : INR k = IZR n) by (apply IZR_to_nat; lia).
  assert (Hk1 : (1 <= k)%nat) by (unfold k; lia).
  pose proof (bm_gsum_pos k E Hk1) as Hg.
  split; [assumption|]. split.
  - unfold bm_first. apply Rmult_le_reg_r with (gsum (bm_ratio k E) k); [assumption|].
    replace (L / gsum (bm_ratio k E) k * gsum (bm_ratio k E) k) with L by (field; lra).
    unfold d_min in *. destruct (Rltb 1 E) eqn:HbE; inv_guards.
    + pose proof (gsum_ge_n (bm_ratio k E) k (bm_ratio_ge_1 k E (Rlt_le _ _ HbE))). nra.
    + pose proof (bm_ratio_le_1 k E HE HbE) as Hr. pose proof (bm_ratio_pos k E) as Hr0.
      destruct k as [|[|k']]; try lia.
      * simpl in *. nra.
      * pose proof (gsum_ge_n_last (bm_ratio (S (S k')) E) (S k') Hr0 Hr) as Hlast.
        replace (S k') with (S (S k') - 1)%nat in Hlast at 2 by lia.
        rewrite bm_ratio_pow in Hlast by (try assumption; lia). nra.
  - intros -> Hn2. unfold d_min in *. rewrite Rltb_intro_false in * by lra. rewrite Rmult_1_r in *.
    assert (Hlb : IZR (n - 1) < L / s).
    { subst n. replace (Zceil (L / s) - 1)%Z with (Zceil (L / s) - 1)%Z by lia.
      rewrite minus_IZR. simpl. pose proof (Zceil_lb (L / s)). lra. }
    assert (0 < IZR (n - 1)) by (apply IZR_lt; lia).
    apply Rmult_lt_reg_r with (IZR (n - 1)); [assumption|].
    replace (L / IZR (n - 1) * IZR (n - 1)) with L by (field; lra).
    apply Rmult_lt_compat_r with (r := s) in Hlb; [|assumption].
    replace (L / s * s) with L in Hlb by (field; lra). lra.
Qed.

(** the general branch: with the real root x of the defining equation and n = int(x)+1 *)
Lemma count_root_law L E s x n :
  0 < L -> 0 < s -> 0 < E -> E <> 1 -> 1 < x -> Gcode x E = L / s -> n = (pyint x + 1)%Z ->
  (2 <= n)%Z /\ s < L /\ bm_first L (Z.to_nat n) E < s /\
  ((3 <= n)%Z -> s <= bm_first L (Z.to_nat n - 1) E).
Proof.
  intros HL Hs HE HE1 Hx HG Hn.
  assert (Hx0 : 0 <= x) by lra.
  pose proof (pyint_plus1_bounds x Hx0) as Hb. rewrite <- Hn in Hb. rewrite minus_IZR in Hb. simpl in Hb.
  destruct Hb as [Hlo Hhi].
  assert (Hn2 : (2 <= n)%Z). { assert (1 < n)%Z; [|lia]. apply lt_IZR. lra. }
  rewrite Gcode_alt in HG by (try assumption; lra).
  set (k := Z.to_nat n). assert (Hk : INR k = IZR n) by (apply IZR_to_nat; lia).
  assert (Hk2 : (2 <= k)%nat) by (unfold k; lia).
  pose proof (Galt_gt_1 x E HE HE1 Hx) as Hg1.
  assert (HsL : s < L).
  { rewrite HG in Hg1. apply Rmult_lt_compat_r with (r := s) in Hg1; [|assumption].
    replace (L / s * s) with L in Hg1 by (field; lra). lra. }
  split; [assumption|]. split; [assumption|]. split.
  - assert (Hm : Galt x E < Galt (INR k) E) by (apply Galt_mono; try assumption; lra).
    rewrite Galt_nat in Hm by assumption. rewrite HG in Hm.
    pose proof (bm_gsum_pos k E ltac:(lia)) as Hg. unfold bm_first.
    apply Rmult_lt_reg_r with (gsum (bm_ratio k E) k); [assumption|].
    replace (L / gsum (bm_ratio k E) k * gsum (bm_ratio k E) k) with L by (field; lra).
    apply Rmult_lt_compat_l with (r := s) in Hm; [|assumption].
    replace (s * (L / s)) with L in Hm by (field; lra). assumption.
  - intros Hn3. assert (Hk3 : (2 <= k - 1)%nat) by (unfold k; lia).
    assert (Hkm : INR (k - 1) = IZR n - 1) by (rewrite minus_INR by lia; rewrite Hk; simpl; ring).
    assert (Hm : Galt (INR (k - 1)) E <= Galt x E).
    { destruct (Req_dec (INR (k - 1)) x) as [->|Hne]; [lra|]. left.
      apply Galt_mono; try assumption; [|lra].
      assert (2 <= INR (k - 1)) by (replace 2 with (INR 2) by (simpl; ring); apply le_INR; assumption). lra. }
    rewrite Galt_nat in Hm by assumption. rewrite HG in Hm.
    pose proof (bm_gsum_pos (k - 1) E ltac:(lia)) as Hg. unfold bm_first.
    apply Rmult_le_reg_r with (gsum (bm_ratio (k - 1) E) (k - 1)); [assumption|].
    replace (L / gsum (bm_ratio (k - 1) E) (k - 1) * gsum (bm_ratio (k - 1) E) (k - 1)) with L by (field; lra).
    apply Rmult_le_compat_l with (r := s) in Hm; [|lra].
    replace (s * (L / s)) with L in Hm by (field; lra). assumption.
Qed.

(** the simple products and quotients *)
Lemma end_start_total_law L s E e : end_start_total L s E = Some e -> 0 < L /\ e = s * E.
Proof. unfold end_start_total. intros H. inv_guards. auto. Qed.
Lemma start_end_total_law L e E s : start_end_total L e E = Some s -> 0 < L /\ E <> 0 /\ s = e / E.
Proof. unfold start_end_total. intros H. inv_guards. auto. Qed.
Lemma total_start_end_law L s e E : total_start_end L s e = Some E -> 0 < L /\ 0 < s /\ 0 < e /\ E = e / s /\ 0 < E.
Proof.
  unfold total_start_end. intros H. inv_guards. repeat split; try assumption.
  apply Rdiv_lt_0_compat; assumption.
Qed.
