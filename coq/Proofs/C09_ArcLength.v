(** C09 - the length of a three-point arc (functions.arc_length_3point, OpenFOAM's arcEdge) scales by |ratio|
    under every similarity: the centre is equivariant, the included angle and the exterior test are invariant. *)
From Coq Require Import Reals Lra Psatz List.
From CB Require Import Base.Vec3 Model.C09_Transform Proofs.C09_Leaves Proofs.C09_Equivariance.
Import ListNotations.
Open Scope R_scope.

Section ArcLength.
  Variables (L : vec -> vec) (k sg : R) (b : vec).
  Hypothesis HS : simil L k sg.
  Let A (p : vec) : vec := vadd (L p) b.

  Lemma sg2 : sg * sg = 1.
  Proof. destruct (s_sg _ _ _ HS) as [-> | ->]; ring. Qed.

  Lemma cross_scale_l c x y : cross (vscale c x) y = vscale c (cross x y).
  Proof. destruct x as [[? ?] ?], y as [[? ?] ?]. vec_ring. Qed.

  Lemma dot_scale_both c x y : dot (vscale c x) (vscale c y) = c * c * dot x y.
  Proof. destruct x as [[? ?] ?], y as [[? ?] ?]. vec_simpl. ring. Qed.

  Lemma cross_cross_L x y : cross (cross (L x) (L y)) (L x) = vscale (k * k) (L (cross (cross x y) x)).
  Proof.
    rewrite (s_cross _ _ _ HS), cross_scale_l, (s_cross _ _ _ HS).
    pose proof sg2 as S2. destruct (L (cross (cross x y) x)) as [[p q] w].
    apply vec_eq; vec_simpl; replace (k * sg * (k * sg * p)) with (k * k * (sg * sg) * p) by ring;
      try replace (k * sg * (k * sg * q)) with (k * k * (sg * sg) * q) by ring;
      try replace (k * sg * (k * sg * w)) with (k * k * (sg * sg) * w) by ring; rewrite S2; ring.
  Qed.

  Definition noncollinear (ps pb pe : vec) : Prop :=
    let a := vsub pb ps in let c := vsub pe ps in dot a a * dot c c - dot a c * dot a c <> 0.

  Theorem arc3_centre_equivariant ps pb pe : noncollinear ps pb pe ->
    arc3_centre (A ps) (A pb) (A pe) = A (arc3_centre ps pb pe).
  Proof.
    unfold noncollinear. cbv zeta. intro Hd. unfold arc3_centre, A.
    rewrite !(A_sub L k sg b HS). rewrite !(s_dot _ _ _ HS), cross_cross_L.
    set (a := vsub pb ps) in *. set (c := vsub pe ps) in *.
    set (w := cross (cross a c) a).
    rewrite !(s_add _ _ _ HS), !(s_scale _ _ _ HS).
    pose proof (s_k _ _ _ HS) as Hk.
    set (d := dot a a * dot c c - dot a c * dot a c) in *.
    replace (k * k * dot a a * (k * k * dot c c) - k * k * dot a c * (k * k * dot a c)) with (k * k * k * k * d) by (unfold d; ring).
    destruct (L ps) as [[s1 s2] s3], (L a) as [[a1 a2] a3], (L w) as [[w1 w2] w3], b as [[b1 b2] b3].
    apply vec_eq; vec_simpl; field; auto.
  Qed.

  Lemma kk_abs : k * k = Rabs k * Rabs k.
  Proof. unfold Rabs. destruct (Rcase_abs k); ring. Qed.

  Theorem arc_length_3point_scaled ps pb pe : noncollinear ps pb pe ->
    arc_length_3point (A ps) (A pb) (A pe) = Rabs k * arc_length_3point ps pb pe.
  Proof.
    intro Hn. unfold arc_length_3point. rewrite (arc3_centre_equivariant ps pb pe Hn).
    set (c := arc3_centre ps pb pe).
    unfold A. rewrite !(A_sub L k sg b HS).
    set (r1 := vsub ps c). set (r2 := vsub pb c). set (r3 := vsub pe c).
    rewrite !(norm_L L k sg HS), (s_dot _ _ _ HS), !(s_cross _ _ _ HS), dot_scale_both, (s_dot _ _ _ HS).
    pose proof (kabs_pos L k sg HS) as Hk. pose proof kk_abs as Hkk. pose proof sg2 as S2.
    assert (Eq : k * k * dot r1 r3 / (Rabs k * norm r1 * (Rabs k * norm r3)) = dot r1 r3 / (norm r1 * norm r3)).
    { unfold Rdiv. rewrite !Rinv_mult. rewrite Hkk.
      assert (Ha : Rabs k * / Rabs k = 1) by (apply Rinv_r; lra).
      replace (Rabs k * Rabs k * dot r1 r3 * (/ Rabs k * / norm r1 * (/ Rabs k * / norm r3)))
        with ((Rabs k * / Rabs k) * (Rabs k * / Rabs k) * (dot r1 r3 * (/ norm r1 * / norm r3))) by ring.
      rewrite Ha. ring. }
    rewrite Eq.
    set (x := dot (cross r1 r2) (cross r1 r3)).
    assert (Ex : k * sg * (k * sg) * (k * k * x) = (k * k) * (k * k) * x).
    { replace (k * sg * (k * sg) * (k * k * x)) with ((k * k) * (k * k) * (sg * sg) * x) by ring. rewrite S2. ring. }
    rewrite Ex.
    assert (Hp : 0 < (k * k) * (k * k)). { rewrite Hkk. apply Rmult_lt_0_compat; nra. }
    destruct (Rlt_dec (k * k * (k * k) * x) 0) as [H1 | H1], (Rlt_dec x 0) as [H2 | H2]; try ring.
    - exfalso. apply H2. nra.
    - exfalso. apply H1. nra.
  Qed.
End ArcLength.
