(** C16 - lemmas about the curve model (Model/C16_Curves.v). *)
From Coq Require Import Reals List Arith ZArith Lia Lra Psatz.
From CB Require Import Base.Vec3 Model.C16_Curves.
Import ListNotations.
Open Scope R_scope.

(** ** distances and polylines *)
Lemma dist_sym p q : dist p q = dist q p.
Proof.
  unfold dist, norm. f_equal. destruct p as [[a b] c], q as [[d e] f]. vec_simpl. ring.
Qed.

Lemma dist_nonneg p q : 0 <= dist p q.
Proof. apply norm_nonneg. Qed.

Lemma dist_self p : dist p p = 0.
Proof.
  unfold dist, norm. replace (norm2 (vsub p p)) with 0. apply sqrt_0.
  destruct p as [[a b] c]. vec_simpl. ring.
Qed.

Lemma polylen_nonneg l : 0 <= polylen l.
Proof.
  induction l as [|a [|b t] IH]; simpl; try lra.
  pose proof (dist_nonneg a b). simpl in IH. lra.
Qed.

Lemma polylen_cons2 a b t : polylen (a :: b :: t) = dist a b + polylen (b :: t).
Proof. reflexivity. Qed.

Lemma polylen_app l1 x l2 : polylen (l1 ++ x :: l2) = polylen (l1 ++ [x]) + polylen (x :: l2).
Proof.
  induction l1 as [|a [|b t] IH].
  - simpl. lra.
  - simpl. destruct l2; simpl; lra.
  - change ((a :: b :: t) ++ x :: l2) with (a :: (b :: t) ++ x :: l2).
    change ((a :: b :: t) ++ [x]) with (a :: (b :: t) ++ [x]).
    change ((b :: t) ++ x :: l2) with (b :: t ++ x :: l2) in *.
    change ((b :: t) ++ [x]) with (b :: t ++ [x]) in *.
    rewrite !polylen_cons2. rewrite IH. lra.
Qed.

Lemma polylen_snoc l a b : polylen ((l ++ [a]) ++ [b]) = polylen (l ++ [a]) + dist a b.
Proof.
  rewrite <- app_assoc. simpl. rewrite polylen_app. simpl. lra.
Qed.

Lemma polylen_rev l : polylen (rev l) = polylen l.
Proof.
  induction l as [|a [|b t] IH]; try reflexivity.
  change (rev (a :: b :: t)) with (rev (b :: t) ++ [a]).
  rewrite polylen_cons2. rewrite <- IH.
  simpl rev. rewrite polylen_snoc. rewrite (dist_sym b a). lra.
Qed.

Lemma nth_map_lt {A B} (g : A -> B) (l : list A) k d d' : (k < length l)%nat -> nth k (map g l) d' = g (nth k l d).
Proof.
  intros H. rewrite (nth_indep _ d' (g d)) by (rewrite map_length; exact H). apply map_nth.
Qed.

(** ** linspace *)
Lemma linspace_length a b n : length (linspace a b n) = n.
Proof. unfold linspace. rewrite map_length, seq_length. reflexivity. Qed.

Lemma nth_linspace a b n i d : (i < n)%nat -> nth i (linspace a b n) d = lin_at a b n i.
Proof.
  intros H. unfold linspace.
  rewrite (nth_indep _ d (lin_at a b n 0)) by (rewrite map_length, seq_length; exact H).
  rewrite map_nth. rewrite seq_nth by exact H. reflexivity.
Qed.

Lemma lin_at_first a b n : lin_at a b n 0 = a.
Proof. unfold lin_at. simpl. ring. Qed.

Lemma lin_at_last a b n : (2 <= n)%nat -> lin_at a b n (n - 1) = b.
Proof.
  intros H. unfold lin_at.
  assert (IZR (Z.of_nat (n - 1)) <> 0).
  { apply not_0_IZR. lia. }
  field. exact H0.
Qed.

Lemma hd_map_seq {A} (g : nat -> A) n d : (1 <= n)%nat -> hd d (map g (seq 0 n)) = g O.
Proof. destruct n; [lia|]. reflexivity. Qed.

Lemma last_map_seq {A} (g : nat -> A) n d : (1 <= n)%nat -> last (map g (seq 0 n)) d = g (n - 1)%nat.
Proof.
  destruct n; [lia|]. intros _. rewrite seq_S, map_app. simpl map at 2. rewrite last_last.
  f_equal. lia.
Qed.

Lemma fc_discretize_ends f a b n d :
  (2 <= n)%nat -> hd d (fc_discretize f a b n) = f a /\ last (fc_discretize f a b n) d = f b.
Proof.
  intros H. unfold fc_discretize, linspace. rewrite map_map. split.
  - rewrite hd_map_seq by lia. rewrite lin_at_first. reflexivity.
  - rewrite last_map_seq by lia. rewrite lin_at_last by exact H. reflexivity.
Qed.

Lemma fc_discretize_nth f a b n i d :
  (i < n)%nat -> nth i (fc_discretize f a b n) d = f (lin_at a b n i).
Proof.
  intros H. unfold fc_discretize.
  rewrite (nth_indep _ d (f 0)) by (rewrite map_length, linspace_length; exact H).
  rewrite map_nth. rewrite nth_linspace by exact H. reflexivity.
Qed.

(** ** slices of a discrete curve *)
Lemma slice_length {A} (l : list A) a b : (a <= b)%nat -> (b < length l)%nat -> length (slice l a b) = (S b - a)%nat.
Proof. intros. unfold slice. rewrite firstn_length, skipn_length. lia. Qed.

Lemma nth_firstn_lt {A} : forall (l : list A) n k d, (k < n)%nat -> nth k (firstn n l) d = nth k l d.
Proof.
  induction l as [|x l IH]; intros n k d H; [rewrite firstn_nil; reflexivity|].
  destruct n as [|n]; [lia|]. destruct k as [|k]; [reflexivity|]. simpl. apply IH. lia.
Qed.

Lemma nth_skipn_add {A} : forall (l : list A) a k d, nth k (skipn a l) d = nth (a + k) l d.
Proof.
  induction l as [|x l IH]; intros a k d.
  - rewrite skipn_nil. destruct k, a; reflexivity.
  - destruct a as [|a]; [reflexivity|]. simpl. apply IH.
Qed.

Lemma nth_slice {A} (l : list A) a b k d :
  (a + k <= b)%nat -> nth k (slice l a b) d = nth (a + k) l d.
Proof.
  intros H. unfold slice. rewrite nth_firstn_lt by lia. apply nth_skipn_add.
Qed.

Lemma hd_nth {A} (l : list A) d : hd d l = nth 0 l d.
Proof. destruct l; reflexivity. Qed.

Lemma last_nth {A} (l : list A) d : last l d = nth (length l - 1) l d.
Proof.
  induction l as [|a [|b t] IH]; try reflexivity.
  change (last (a :: b :: t) d) with (last (b :: t) d). rewrite IH. simpl. rewrite Nat.sub_0_r. reflexivity.
Qed.

Lemma slice_ends {A} (l : list A) a b d :
  (a <= b)%nat -> (b < length l)%nat -> hd d (slice l a b) = nth a l d /\ last (slice l a b) d = nth b l d.
Proof.
  intros H1 H2. split.
  - rewrite hd_nth, nth_slice by lia. f_equal. lia.
  - rewrite last_nth, slice_length by assumption. rewrite nth_slice by lia. f_equal. lia.
Qed.

Lemma hd_rev {A} (l : list A) d : hd d (rev l) = last l d.
Proof.
  destruct l as [|a t] using rev_ind; [reflexivity|]. rewrite rev_app_distr, last_last. reflexivity.
Qed.

Lemma last_rev {A} (l : list A) d : last (rev l) d = hd d l.
Proof. rewrite <- (rev_involutive l) at 2. rewrite hd_rev. reflexivity. Qed.

Lemma dc_discretize_ends pts a b :
  (a < length pts)%nat -> (b < length pts)%nat ->
  hd vzero (dc_discretize pts a b) = dc_point pts a /\ last (dc_discretize pts a b) vzero = dc_point pts b.
Proof.
  intros Ha Hb. unfold dc_discretize, dc_point. destruct (a <=? b)%nat eqn:E.
  - apply Nat.leb_le in E. apply slice_ends; assumption.
  - apply Nat.leb_gt in E. rewrite hd_rev, last_rev.
    destruct (slice_ends pts b a vzero) as [H1 H2]; [lia|assumption|]. split; assumption.
Qed.

(** every point of a discretisation is a point of the curve with an index between the two parameters *)
Lemma dc_discretize_nth pts a b k :
  (a < length pts)%nat -> (b < length pts)%nat -> (k < length (dc_discretize pts a b))%nat ->
  nth k (dc_discretize pts a b) vzero = dc_point pts (if (a <=? b)%nat then a + k else a - k).
Proof.
  intros Ha Hb. unfold dc_discretize, dc_point. destruct (a <=? b)%nat eqn:E.
  - apply Nat.leb_le in E. rewrite slice_length by assumption. intros Hk. apply nth_slice. lia.
  - apply Nat.leb_gt in E. rewrite rev_length, slice_length by lia. intros Hk.
    rewrite rev_nth by (rewrite slice_length; lia). rewrite slice_length by lia.
    rewrite nth_slice by lia. f_equal. lia.
Qed.

(** cumulative length: polylen of a slice is a difference *)
Definition cum (l : list vec) (k : nat) : R := polylen (firstn (S k) l).

Lemma cum_S x l k : (0 < length l)%nat -> cum (x :: l) (S k) = dist x (hd vzero l) + cum l k.
Proof.
  intros H. unfold cum. destruct l as [|y t]; [simpl in H; lia|]. reflexivity.
Qed.

Lemma polylen_slice l : forall a b, (a <= b)%nat -> (b < length l)%nat -> polylen (slice l a b) = cum l b - cum l a.
Proof.
  induction l as [|x l IH]; intros a b Hab Hb; [simpl in Hb; lia|].
  destruct a as [|a].
  - unfold slice. simpl skipn. rewrite Nat.sub_0_r. unfold cum. simpl (firstn 1 _). simpl (polylen [x]). lra.
  - destruct b as [|b]; [lia|]. simpl in Hb.
    assert (Hl : (0 < length l)%nat) by lia.
    rewrite !cum_S by exact Hl.
    replace (slice (x :: l) (S a) (S b)) with (slice l a b) by reflexivity.
    rewrite IH by lia. lra.
Qed.

Lemma dc_length_sym pts a b : dc_length pts a b = dc_length pts b a.
Proof.
  unfold dc_length, dc_discretize.
  destruct (a <=? b)%nat eqn:E1, (b <=? a)%nat eqn:E2; try rewrite polylen_rev; try reflexivity.
  - apply Nat.leb_le in E1. apply Nat.leb_le in E2. assert (a = b) by lia. subst. reflexivity.
  - apply Nat.leb_gt in E1. apply Nat.leb_gt in E2. lia.
Qed.

Lemma dc_length_cum pts a b : (a <= b)%nat -> (b < length pts)%nat -> dc_length pts a b = cum pts b - cum pts a.
Proof.
  intros. unfold dc_length, dc_discretize. replace (a <=? b)%nat with true by (symmetry; apply Nat.leb_le; lia).
  apply polylen_slice; assumption.
Qed.

Lemma dc_length_additive pts a b c :
  (a <= b)%nat -> (b <= c)%nat -> (c < length pts)%nat ->
  dc_length pts a c = dc_length pts a b + dc_length pts b c.
Proof. intros. rewrite !dc_length_cum by lia. lra. Qed.

Lemma dc_length_full pts : (1 <= length pts)%nat -> dc_length pts 0 (length pts - 1) = polylen pts.
Proof.
  intros H. unfold dc_length, dc_discretize. simpl (0 <=? _)%nat. unfold slice. simpl skipn.
  rewrite Nat.sub_0_r. replace (S (length pts - 1)) with (length pts) by lia. rewrite firstn_all. reflexivity.
Qed.

(** ** argmin *)
Lemma argmin_aux_spec : forall t i best bv (g : nat -> R),
  (forall j, (j < length t)%nat -> nth j t 0 = g (i + j)%nat) ->
  (best < i)%nat -> g best = bv ->
  (forall j, (j < i)%nat -> bv <= g j) -> (forall j, (j < best)%nat -> bv < g j) ->
  let r := argmin_aux t i best bv in
  (r < i + length t)%nat /\ (forall j, (j < i + length t)%nat -> g r <= g j) /\ (forall j, (j < r)%nat -> g r < g j).
Proof.
  induction t as [|d t IH]; intros i best bv g Hg Hb Hbv Hle Hlt; simpl.
  - rewrite Nat.add_0_r. subst bv. repeat split; auto; lia.
  - assert (Hd : g i = d). { specialize (Hg O). simpl in Hg. rewrite Nat.add_0_r in Hg. symmetry. apply Hg. lia. }
    assert (Hg' : forall j, (j < length t)%nat -> nth j t 0 = g (S i + j)%nat).
    { intros j Hj. specialize (Hg (S j)). simpl in Hg. rewrite Hg by lia. f_equal. lia. }
    replace (i + S (length t))%nat with (S i + length t)%nat by lia.
    destruct (Rlt_dec d bv) as [Hlt'|Hge].
    + apply IH; auto.
      * intros j Hj. assert (j = i \/ j < i)%nat as [->|Hj'] by lia; [lra|]. specialize (Hle j Hj'). lra.
      * intros j Hj. specialize (Hle j Hj). lra.
    + apply IH; auto.
      intros j Hj. assert (j = i \/ j < i)%nat as [->|Hj'] by lia; [lra|]. apply Hle; exact Hj'.
Qed.

Definition is_argmin (ds : list R) (k : nat) : Prop :=
  (k < length ds)%nat /\ (forall j, (j < length ds)%nat -> nth k ds 0 <= nth j ds 0)
  /\ (forall j, (j < k)%nat -> nth k ds 0 < nth j ds 0).

Lemma argmin_spec ds : ds <> [] -> is_argmin ds (argmin ds).
Proof.
  destruct ds as [|d t]; [congruence|]. intros _. unfold argmin, is_argmin.
  pose proof (argmin_aux_spec t 1%nat O d (fun j => nth j (d :: t) 0)) as H.
  simpl in H. simpl length. apply H; auto; try lia.
  - intros j Hj. assert (j = O) by lia. subst. simpl. lra.
Qed.

Lemma is_argmin_unique ds k1 k2 : is_argmin ds k1 -> is_argmin ds k2 -> k1 = k2.
Proof.
  intros (L1 & A1 & B1) (L2 & A2 & B2).
  destruct (lt_eq_lt_dec k1 k2) as [[H|H]|H]; auto.
  - specialize (B2 k1 H). specialize (A1 k2 L2). lra.
  - specialize (B1 k2 H). specialize (A2 k1 L1). lra.
Qed.

(** the branch reported by the implementation determines the model's value *)
Lemma argmin_charact ds k : is_argmin ds k -> argmin ds = k.
Proof.
  intros H. apply (is_argmin_unique ds); [|exact H]. apply argmin_spec.
  destruct H as [H _]. destruct ds; [simpl in H; lia|congruence].
Qed.

Lemma dc_closest_spec pts q :
  pts <> [] ->
  (dc_closest pts q < length pts)%nat /\
  forall j, (j < length pts)%nat -> dist (dc_point pts (dc_closest pts q)) q <= dist (dc_point pts j) q.
Proof.
  intros H. unfold dc_closest, dc_point.
  set (ds := map (fun p => dist p q) pts).
  assert (Hds : ds <> []) by (subst ds; destruct pts; [congruence|discriminate]).
  destruct (argmin_spec ds Hds) as (L & A & _).
  assert (Hlen : length ds = length pts) by (subst ds; apply map_length).
  rewrite Hlen in *. split; [exact L|]. intros j Hj. specialize (A j Hj).
  subst ds. rewrite !(nth_map_lt _ _ _ vzero) in A by assumption. exact A.
Qed.

(** ** closest parameter of a function curve: the coarse stage and the minimiser assumption *)
Lemma fc_coarse_spec f lo hi cnt q :
  (1 <= cnt)%nat ->
  exists k, (k < cnt)%nat /\ fc_coarse f lo hi cnt q = lin_at lo hi cnt k /\
    forall j, (j < cnt)%nat -> dist (f (fc_coarse f lo hi cnt q)) q <= dist (f (lin_at lo hi cnt j)) q.
Proof.
  intros H. unfold fc_coarse.
  set (ds := map (fun p => dist p q) (fc_discretize f lo hi cnt)).
  assert (Hlen : length ds = cnt).
  { subst ds. rewrite map_length. unfold fc_discretize. rewrite map_length, linspace_length. reflexivity. }
  assert (Hds : ds <> []) by (intros E; rewrite E in Hlen; simpl in Hlen; lia).
  destruct (argmin_spec ds Hds) as (L & A & _). rewrite Hlen in *.
  assert (Hnth : forall j, (j < cnt)%nat -> nth j ds 0 = dist (f (lin_at lo hi cnt j)) q).
  { intros j Hj. subst ds.
    rewrite (nth_map_lt _ _ _ vzero) by (unfold fc_discretize; rewrite map_length, linspace_length; exact Hj).
    rewrite fc_discretize_nth by exact Hj. reflexivity. }
  exists (argmin ds). split; [exact L|]. split.
  - apply nth_linspace. exact L.
  - intros j Hj. rewrite nth_linspace by exact L. rewrite <- !Hnth by assumption. apply A. exact Hj.
Qed.

(** ** stable argsort: its members are the indices, its head is the argmin *)
Lemma insert_idx_in d k l x : In x (insert_idx d k l) <-> x = k \/ In x l.
Proof.
  induction l as [|j t IH]; simpl.
  - intuition congruence.
  - destruct (Rle_dec (d k) (d j)); simpl; [|rewrite IH]; intuition congruence.
Qed.

Lemma argsort_from_S d i n : argsort_from d i (S n) = insert_idx d i (argsort_from d (S i) n).
Proof. reflexivity. Qed.

Lemma argsort_from_in d : forall n i x, In x (argsort_from d i n) <-> (i <= x < i + n)%nat.
Proof.
  induction n as [|n IH]; intros i x.
  - simpl. split; [tauto|lia].
  - rewrite argsort_from_S, insert_idx_in, IH. lia.
Qed.

Lemma argsort_from_hd d : forall n i, exists h t,
  argsort_from d i (S n) = h :: t /\ (i <= h < i + S n)%nat /\
  forall x, (i <= x < i + S n)%nat -> d h <= d x /\ ((x < h)%nat -> d h < d x).
Proof.
  induction n as [|n IH]; intros i.
  - exists i, []. split; [reflexivity|]. split; [lia|]. intros x Hx. assert (x = i) by lia. subst. split; [lra|lia].
  - destruct (IH (S i)) as (h & t & E & Hh & Hmin). rewrite argsort_from_S, E. simpl.
    destruct (Rle_dec (d i) (d h)) as [Hle|Hgt].
    + exists i, (h :: t). split; [reflexivity|]. split; [lia|]. intros x Hx.
      assert (x = i \/ S i <= x < S i + S n)%nat as [->|Hx'] by lia; [split; [lra|lia]|].
      destruct (Hmin x Hx') as [H1 _]. split; [lra|lia].
    + exists h, (insert_idx d i t). split; [reflexivity|]. split; [lia|]. intros x Hx.
      assert (x = i \/ S i <= x < S i + S n)%nat as [->|Hx'] by lia; [split; intros; lra|].
      apply Hmin. exact Hx'.
Qed.

Lemma argsort_in ds k : In k (argsort ds) <-> (k < length ds)%nat.
Proof. unfold argsort. rewrite argsort_from_in. lia. Qed.

(** CurveBase.get_closest_param after fixes/C16-2.diff returns the parameter of the first sorted sample: that is
    np.argmin, the model of the snapshot *)
Lemma argsort_hd ds : ds <> [] -> exists t, argsort ds = argmin ds :: t.
Proof.
  intros Hds. destruct ds as [|d0 ds']; [congruence|]. unfold argsort.
  destruct (argsort_from_hd (fun i => nth i (d0 :: ds') 0) (length ds') 0) as (h & t & E & Hh & Hmin).
  change (length (d0 :: ds')) with (S (length ds')). rewrite E. exists t. f_equal. symmetry.
  apply argmin_charact. unfold is_argmin. simpl length. split; [lia|]. split.
  - intros j Hj. apply Hmin. lia.
  - intros j Hj. apply Hmin; lia.
Qed.

Lemma In_firstn {A} (x : A) n l : In x (firstn n l) -> In x l.
Proof. intros H. rewrite <- (firstn_skipn n l). apply in_or_app. left. exact H. Qed.

(** ** closest parameter of a function curve: the starts are coarse samples, the first one is the nearest sample *)
Lemma fc_starts_hd f lo hi cnt ns q :
  (1 <= cnt)%nat -> (1 <= ns)%nat -> exists t, fc_starts f lo hi cnt ns q = fc_coarse f lo hi cnt q :: t.
Proof.
  intros Hc Hn. unfold fc_starts, fc_coarse.
  set (ds := map (fun p => dist p q) (fc_discretize f lo hi cnt)).
  assert (Hlen : length ds = cnt).
  { subst ds. rewrite map_length. unfold fc_discretize. rewrite map_length, linspace_length. reflexivity. }
  assert (Hds : ds <> []) by (intros E; rewrite E in Hlen; simpl in Hlen; lia).
  destruct (argsort_hd ds Hds) as (t & E). rewrite E.
  destruct ns as [|ns]; [lia|]. cbn [firstn map]. eexists. reflexivity.
Qed.

Lemma fc_starts_samples f lo hi cnt ns q s :
  In s (fc_starts f lo hi cnt ns q) -> exists k, (k < cnt)%nat /\ s = lin_at lo hi cnt k.
Proof.
  unfold fc_starts. intros H. apply in_map_iff in H. destruct H as (k & <- & Hk).
  apply In_firstn, argsort_in in Hk. rewrite map_length in Hk. unfold fc_discretize in Hk.
  rewrite map_length, linspace_length in Hk. exists k. split; [exact Hk|]. apply nth_linspace. exact Hk.
Qed.

(** one start: the search of the snapshot *)
Lemma fc_closest_one (minimise : R -> R) f lo hi cnt q :
  (1 <= cnt)%nat -> fc_closest minimise f lo hi cnt 1 q = minimise (fc_coarse f lo hi cnt q).
Proof.
  intros Hc. unfold fc_closest. destruct (fc_starts_hd f lo hi cnt 1 q Hc (le_n 1)) as (t & E).
  assert (Ht : t = []).
  { unfold fc_starts in E. destruct (argsort (map (fun p => dist p q) (fc_discretize f lo hi cnt))) as [|a l];
      cbn [firstn map] in E; [discriminate|]. inversion E. reflexivity. }
  rewrite E, Ht. reflexivity.
Qed.

(** min(results, key): a member, and no member has a smaller key *)
Lemma best_of_spec (g : R -> R) rs d :
  rs <> [] -> In (best_of g rs d) rs /\ forall r, In r rs -> g (best_of g rs d) <= g r.
Proof.
  intros Hrs. unfold best_of.
  assert (Hds : map g rs <> []) by (destruct rs; [congruence|discriminate]).
  destruct (argmin_spec (map g rs) Hds) as (L & A & _). rewrite map_length in *.
  split; [apply nth_In; exact L|]. intros r Hr.
  destruct (In_nth rs r d Hr) as (j & Hj & <-). specialize (A j Hj).
  rewrite !(nth_map_lt _ _ _ d) in A by assumption. exact A.
Qed.

(** the result is one of the runs' results and at least as close as every run's result *)
Lemma fc_closest_runs (minimise : R -> R) f lo hi cnt ns q :
  (1 <= cnt)%nat -> (1 <= ns)%nat ->
  (exists s, In s (fc_starts f lo hi cnt ns q) /\ fc_closest minimise f lo hi cnt ns q = minimise s)
  /\ forall s, In s (fc_starts f lo hi cnt ns q) ->
       dist (f (fc_closest minimise f lo hi cnt ns q)) q <= dist (f (minimise s)) q.
Proof.
  intros Hc Hn. unfold fc_closest.
  destruct (fc_starts_hd f lo hi cnt ns q Hc Hn) as (t & E).
  assert (Hrs : map minimise (fc_starts f lo hi cnt ns q) <> []) by (rewrite E; discriminate).
  destruct (best_of_spec (fun r => dist (f r) q) _ lo Hrs) as [Hin Hbest]. split.
  - apply in_map_iff in Hin. destruct Hin as (s & Hs & Hin). exists s. split; [exact Hin|]. symmetry. exact Hs.
  - intros s Hs. apply Hbest. apply in_map. exact Hs.
Qed.

(** hence never farther than the result of the single-start search of the snapshot (same minimiser) ... *)
Lemma fc_closest_not_worse (minimise : R -> R) f lo hi cnt ns q :
  (1 <= cnt)%nat -> (1 <= ns)%nat ->
  dist (f (fc_closest minimise f lo hi cnt ns q)) q <= dist (f (minimise (fc_coarse f lo hi cnt q))) q.
Proof.
  intros Hc Hn. destruct (fc_starts_hd f lo hi cnt ns q Hc Hn) as (t & E).
  apply (fc_closest_runs minimise f lo hi cnt ns q Hc Hn). rewrite E. left. reflexivity.
Qed.

(** ... and, for a minimiser that does not return a point farther than its start, at least as close as EVERY coarse
    sample (the nearest one is among the starts) *)
Lemma fc_closest_coarse (minimise : R -> R) f lo hi cnt ns q :
  (1 <= cnt)%nat -> (1 <= ns)%nat ->
  (forall t0, dist (f (minimise t0)) q <= dist (f t0) q) ->
  forall j, (j < cnt)%nat -> dist (f (fc_closest minimise f lo hi cnt ns q)) q <= dist (f (lin_at lo hi cnt j)) q.
Proof.
  intros H Hn Hmin j Hj.
  destruct (fc_coarse_spec f lo hi cnt q H) as (k & _ & _ & Hk).
  eapply Rle_trans; [apply fc_closest_not_worse; assumption|].
  eapply Rle_trans; [apply Hmin|]. apply Hk. exact Hj.
Qed.

(** ** piecewise-linear interpolation *)
Fixpoint incr (l : list R) : Prop :=
  match l with
  | [] => True
  | a :: t => match t with [] => True | b :: _ => a < b /\ incr t end
  end.

Lemma incr_tail a l : incr (a :: l) -> incr l.
Proof. destruct l; simpl; tauto. Qed.

Lemma incr_head_lt : forall l a j, incr (a :: l) -> (j < length l)%nat -> a < nth j l 0.
Proof.
  induction l as [|b l IH]; intros a j H Hj; [simpl in Hj; lia|].
  destruct H as [Hab H]. destruct j as [|j]; [exact Hab|]. simpl.
  simpl in Hj. apply Rlt_trans with b; [exact Hab|]. apply IH; [exact H|lia].
Qed.

Lemma incr_nth_lt : forall l i j, incr l -> (i < j)%nat -> (j < length l)%nat -> nth i l 0 < nth j l 0.
Proof.
  induction l as [|a l IH]; intros i j H Hij Hj; [simpl in Hj; lia|].
  destruct j as [|j]; [lia|]. simpl in Hj. destruct i as [|i].
  - simpl. apply incr_head_lt; [exact H|lia].
  - simpl. apply IH; [eapply incr_tail; exact H|lia|lia].
Qed.

Lemma incr_nth_le l i j : incr l -> (i <= j)%nat -> (j < length l)%nat -> nth i l 0 <= nth j l 0.
Proof.
  intros H Hij Hj. destruct (Nat.eq_dec i j) as [->|Hne]; [lra|].
  left. apply incr_nth_lt; auto. lia.
Qed.

Lemma seg_point_start t0 t1 p0 p1 : seg_point t0 t1 p0 p1 t0 = p0.
Proof.
  unfold seg_point. replace ((t0 - t0) / (t1 - t0)) with 0 by (unfold Rdiv; ring).
  destruct p0 as [[a b] c], p1 as [[d e] f]. vec_ring.
Qed.

Lemma seg_point_end t0 t1 p0 p1 : t0 <> t1 -> seg_point t0 t1 p0 p1 t1 = p1.
Proof.
  intros H. unfold seg_point. replace ((t1 - t0) / (t1 - t0)) with 1 by (field; lra).
  destruct p0 as [[a b] c], p1 as [[d e] f]. vec_ring.
Qed.

Lemma lin_point_seg : forall ts ps i t,
  incr ts -> length ps = length ts -> (S i < length ts)%nat ->
  nth i ts 0 <= t <= nth (S i) ts 0 -> lin_point ts ps t = lin_point_at i ts ps t.
Proof.
  induction ts as [|t0 ts IH]; intros ps i t Hinc Hlen Hi Ht; [simpl in Hi; lia|].
  destruct ps as [|p0 ps]; [simpl in Hlen; lia|].
  destruct ts as [|t1 ts]; [simpl in Hi; lia|].
  destruct ps as [|p1 ps]; [simpl in Hlen; lia|].
  destruct ts as [|t2 ts].
  - assert (i = O) by (simpl in Hi; lia). subst. reflexivity.
  - destruct ps as [|p2 ps]; [simpl in Hlen; lia|].
    change (lin_point (t0 :: t1 :: t2 :: ts) (p0 :: p1 :: p2 :: ps) t) with
      (if Rle_dec t t1 then seg_point t0 t1 p0 p1 t else lin_point (t1 :: t2 :: ts) (p1 :: p2 :: ps) t).
    destruct (Rle_dec t t1) as [Hle|Hgt].
    + destruct i as [|i]; [reflexivity|].
      (* t = t1 and i = 1 *)
      assert (Hi1 : nth (S i) (t0 :: t1 :: t2 :: ts) 0 <= t1) by lra.
      assert (i = O).
      { destruct i as [|i]; [reflexivity|]. exfalso.
        assert (nth 1 (t0 :: t1 :: t2 :: ts) 0 < nth (S (S i)) (t0 :: t1 :: t2 :: ts) 0).
        { apply incr_nth_lt; [exact Hinc|lia|lia]. }
        simpl in H. simpl in Hi1. lra. }
      subst i. simpl in Ht. assert (t = t1) by lra. subst t.
      unfold lin_point_at. simpl nth. destruct Hinc as [H01 [H12 _]].
      rewrite seg_point_end by lra. rewrite seg_point_start. reflexivity.
    + destruct i as [|i]; [simpl in Ht; lra|].
      rewrite (IH (p1 :: p2 :: ps) i t).
      * reflexivity.
      * eapply incr_tail; exact Hinc.
      * simpl in Hlen |- *. lia.
      * simpl in Hi |- *. lia.
      * exact Ht.
Qed.

Lemma lin_point_knot ts ps i :
  incr ts -> length ps = length ts -> (2 <= length ts)%nat -> (i < length ts)%nat ->
  lin_point ts ps (nth i ts 0) = nth i ps vzero.
Proof.
  intros Hinc Hlen H2 Hi.
  destruct (Nat.eq_dec (S i) (length ts)) as [Hlast|Hnl].
  - destruct i as [|i]; [lia|].
    assert (Hlt : nth i ts 0 < nth (S i) ts 0) by (apply incr_nth_lt; auto).
    rewrite (lin_point_seg ts ps i); auto; [|lra].
    unfold lin_point_at. apply seg_point_end. lra.
  - assert (Hlt : nth i ts 0 < nth (S i) ts 0) by (apply incr_nth_lt; auto; lia).
    rewrite (lin_point_seg ts ps i); auto; [|lia|lra].
    unfold lin_point_at. apply seg_point_start.
Qed.
