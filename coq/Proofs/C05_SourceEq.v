(** C05 - the hand-written model of [VertexList] IS what lists/vertex_list.py of the working tree says.

    Gen/C05/Source.v is produced on every run by harness/props/C05_translate.py (python [ast] -> Gallina, fail closed)
    from [DuplicatedEntry.__init__] (+ the property [point]), [VertexList.find_duplicated], [VertexList.find_unique] and
    [VertexList.add] (specialised to [slave_patches] being a list, the only way [Mesh._add_vertices] calls it).
    This file - compiled on every run, after the generated one - proves, for ALL arguments, that the translated
    functions equal [find_duplicated] / [add] of Model/C05_VertexList.v at the lattice instance
    ([zpoint], [near_z tol2]) which the sampled correspondence evaluates, and that folding the translated [add] over
    any list of requests is the model's [run] (hence [assemble] built on the translated [add] is the model's).

    Representation assumed by the translator (see its docstring): positions are lattice points, [f.norm(a-b) < TOL]
    is the exact comparison [zdist2 a b * tol_den <? tol_num] with [tol_num/tol_den = (TOL 2^E)^2]; names are their
    ranks under [sorted()], [sorted]/[.sort()] = [sort], [==] on name lists = decidable list equality;
    [None] = [raise VertexNotFoundError]; [x.sort()] on a parameter is handed back to the caller.

    The proofs depend on what the python computes, not on how it is written: the order of the two tests of
    [find_duplicated], the order of the operands of [==] and of the subtraction under [norm], and a redundant
    [sorted()] may change.  [<=] instead of [<] is a different primitive ([s_norm_le]) about which nothing is proved
    here on purpose: at distance exactly TOL the two differ on the reals. *)
From Coq Require Import List Bool Arith ZArith Lia.
From CB Require Import Model.C05_VertexList Proofs.C05_VertexList.
From CB Require Import Gen.C05.Tables Gen.C05.Source.
Import ListNotations.
Open Scope nat_scope.

(** ** the primitives of the translator against those of the model *)
Lemma s_norm_lt_near a b : s_norm_lt a b = near_z tol2 a b.
Proof.
  unfold s_norm_lt, near_z. generalize (zdist2 a b); intro d.
  destruct (Z.ltb_spec (d * tol_den) tol_num), (Z.leb_spec d tol2); try reflexivity;
    exfalso; unfold tol_den, tol_num, tol2 in *; lia.
Qed.

Lemma s_names_eq_key a b : s_names_eq a b = key_eqb a b.
Proof.
  unfold s_names_eq. destruct (list_eq_dec Nat.eq_dec a b) as [E|N]; symmetry.
  - apply key_eqb_eq. exact E.
  - destruct (key_eqb a b) eqn:K; [|reflexivity]. apply key_eqb_eq in K. contradiction.
Qed.

Lemma key_eqb_sym a b : key_eqb a b = key_eqb b a.
Proof.
  destruct (key_eqb a b) eqn:K1, (key_eqb b a) eqn:K2; try reflexivity.
  - apply key_eqb_eq in K1. subst. rewrite key_eqb_refl in K2. discriminate.
  - apply key_eqb_eq in K2. subst. rewrite key_eqb_refl in K1. discriminate.
Qed.

(** normal form of a loop test: model primitives, position of the request first, patches of the entry first *)
Ltac norm_test p k :=
  unfold s_sorted in *;
  rewrite ?s_norm_lt_near, ?s_names_eq_key;
  repeat match goal with
         | |- context [near_z tol2 ?x p] => lazymatch x with p => fail | _ => rewrite (near_z_sym tol2 x p) end
         | |- context [key_eqb k ?x] => lazymatch x with k => fail | _ => rewrite (key_eqb_sym k x) end
         end.

(** ** [VertexList.find_duplicated]: the entry found (None = VertexNotFoundError) and the caller's list, sorted in place *)
Lemma src_find_duplicated_eq ds p k :
  src_find_duplicated ds p k = (find_duplicated zpoint (near_z tol2) ds p (sort k), sort k).
Proof.
  unfold src_find_duplicated, s_sorted. cbv zeta. rewrite ?sort_idem. f_equal.
  generalize (sort k). intro k1.
  induction ds as [|d r IH]; [reflexivity|].
  cbn [s_first find_duplicated]. rewrite IH. norm_test p k1.
  destruct (near_z tol2 p (vpos (dvertex d))), (key_eqb (dpatches d) k1); reflexivity.
Qed.

(** ** [VertexList.find_unique]: first vertex within TOL of the position *)
Lemma src_find_unique_eq vs p :
  src_find_unique vs p = find (fun v => near_z tol2 p (vpos v)) vs.
Proof.
  unfold src_find_unique.
  induction vs as [|v r IH]; [reflexivity|].
  cbn [s_first find]. rewrite IH. norm_test p (@nil nat).
  destruct (near_z tol2 p (vpos v)); reflexivity.
Qed.

(** ** [DuplicatedEntry(vertex, patches)] for a list that is already sorted (as [add] passes it, after
    [find_duplicated] sorted it in place): the entry holds the vertex and that list *)
Lemma src_DuplicatedEntry_eq v k : src_DuplicatedEntry v (sort k) = mkD v (sort k).
Proof. unfold src_DuplicatedEntry, s_sorted. rewrite ?sort_idem. reflexivity. Qed.

(** ** [VertexList.add(point, slave_patches)] with a list: new state and the vertex handed back *)
Lemma src_add_eq l p k : src_add l p k = add zpoint (near_z tol2) l p k.
Proof.
  destruct l as [vs ds]. unfold src_add, add. cbn [vertices duplicated]. cbv zeta.
  rewrite src_find_duplicated_eq.
  destruct (find_duplicated zpoint (near_z tol2) ds p (sort k)); [reflexivity|].
  rewrite ?src_DuplicatedEntry_eq, ?sort_idem. reflexivity.
Qed.

(** ** a sequence of [add] calls on the translated source *)
Fixpoint src_run (l : vlist zpoint) (reqs : list (zpoint * list nat)) : vlist zpoint * list (vertex zpoint) :=
  match reqs with
  | [] => (l, [])
  | (p, k) :: t =>
      let '(l1, v) := src_add l p k in
      let '(l2, vs) := src_run l1 t in
      (l2, v :: vs)
  end.

Theorem src_run_is_model : forall reqs l, src_run l reqs = run zpoint (near_z tol2) l reqs.
Proof.
  induction reqs as [|[p k] t IH]; intros l; [reflexivity|].
  cbn [src_run run]. rewrite src_add_eq.
  destruct (add zpoint (near_z tol2) l p k) as [l1 v]. rewrite IH. reflexivity.
Qed.

(** the model's transcription of [Mesh._add_vertices] / [Mesh.assemble] (mesh.py is not translated) on top of the
    translated [add] *)
Fixpoint src_assemble_from (slaves : list nat) (dflt : zpoint) (l : vlist zpoint) (ops : list (operation zpoint))
  : vlist zpoint * list (list (vertex zpoint)) :=
  match ops with
  | [] => (l, [])
  | op :: t =>
      let '(l1, vs) := src_run l (op_requests slaves dflt op) in
      let '(l2, bs) := src_assemble_from slaves dflt l1 t in
      (l2, vs :: bs)
  end.

Theorem src_assemble_is_model : forall slaves dflt ops l,
  src_assemble_from slaves dflt l ops = assemble_from zpoint (near_z tol2) slaves dflt l ops.
Proof.
  intros slaves dflt. induction ops as [|op t IH]; intros l; [reflexivity|].
  cbn [src_assemble_from assemble_from]. unfold add_vertices. rewrite src_run_is_model.
  destruct (run zpoint (near_z tol2) l (op_requests slaves dflt op)) as [l1 vs]. rewrite IH. reflexivity.
Qed.
