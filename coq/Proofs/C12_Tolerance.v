(** C12 - the defect repaired by fixes/C12-4.diff (/repo 79421ab), on the payload model of C04: BEFORE the repair a
    second write was NOT the same file when gradings carry expansions.

    The code accepts coincident wires whose gradings are equal up to constants.TOL (Grading.__eq__ in
    WireManagerBase.check_consistency), and WirePropagateManager.copy_neighbours lets the last DEFINED
    coincident wire win.  In the first run a wire of an un-chopped axis can be fully defined by the
    neighbours graded before it; in an un-reset second run every wire of the mesh is defined, so the wire took
    the (tolerance-equal, not equal) grading of a neighbour that comes later in its coincident list.
    ([second] below is that un-reset second run: C04's grade_blocks / propagate applied to the final state of the
    first run.  The repaired code resets first: its second run is [final] again, literally the first run.)

    The witness below is that mesh on the payload model of C04 (Model/C04_Payload.v, imported as it is):
    four unit boxes A = [0,1]x[1,2], C = [2,3]x[1,2], P = [1,2]x[1,2], B = [1,2]x[0,1] (x [0,1] in z), in this
    order; all chopped by count 3 along x and y; along z: A and C 10 cells with total expansion 2,
    B 10 cells with total expansion 2 + 1e-8, P nothing.  All four z-wires of P coincide with wires of
    A or C (graded before P); two of them also with wires of B (graded after P).
    Python reproduction (on /repo before 79421ab; passes since): corpus/C12/repro_second_write_tolerance.py. *)
From Coq Require Import List Bool Arith ZArith QArith.
From CB Require Import Model.Propagate Model.C04_Payload.
Import ListNotations.
Local Open Scope nat_scope.

(** lattice point (x, y, z), x < 4, y < 3, z < 2 *)
Definition vid (x y z : nat) : nat := x + 4 * y + 12 * z.
Definition boxv (x y : nat) : list nat :=
  [vid x y 0; vid (x + 1) y 0; vid (x + 1) (y + 1) 0; vid x (y + 1) 0;
   vid x y 1; vid (x + 1) y 1; vid (x + 1) (y + 1) 1; vid x (y + 1) 1].
(** count-only chop: c2c_expansion 1 is the preserved value *)
Definition cnt (k : Z) : uchop := {| u_lr := 1; u_cnt := k; u_tag := PC2c; u_val := 1 |}.
(** count 10 with a total expansion: the preserved cell-to-cell expansion is what the chop copies carry;
    the total expansion of each section is the oracle [eor] *)
Definition grd (c2c : Q) : uchop := {| u_lr := 1; u_cnt := 10; u_tag := PC2c; u_val := c2c |}.
Definition c2c_2 : Q := 1080059738892306 # 1000000000000000.      (* 2^(1/9) *)
Definition c2c_2e : Q := 1080059739492339 # 1000000000000000.     (* (2 + 1e-8)^(1/9) *)

Definition wbs : list blk4 :=
  [ {| b_verts := boxv 0 1; b_chops := [[cnt 3]; [cnt 3]; [grd c2c_2]] |};     (* A *)
    {| b_verts := boxv 2 1; b_chops := [[cnt 3]; [cnt 3]; [grd c2c_2]] |};     (* C *)
    {| b_verts := boxv 1 1; b_chops := [[cnt 3]; [cnt 3]; []] |};              (* P *)
    {| b_verts := boxv 1 0; b_chops := [[cnt 3]; [cnt 3]; [grd c2c_2e]] |} ].  (* B *)
Definition wtau : Q := 1 # 10000000.
(** Chop.calculate on the wires: total expansion 1 along x and y, 2 along z on A and C, 2 + 1e-8 on B *)
Definition weor (w : wire) (i : nat) : Q :=
  let '(b, a, k) := w in
  if a =? 2 then (if b =? 3 then 200000001 # 100000000 else 2) else 1.
Definition woc : wire -> list wire := o_coin_ins (gb wbs).
Definition wonb : axis -> list axis := o_nbrs_ins (gb wbs).

Definition first : option st := final wbs weor woc wonb.
Definition second (s : st) : loop_result :=
  propagate wbs weor woc wonb (fuel4 wbs) (grade_blocks wbs weor woc s) (seq 0 (nblocks4 wbs)).

(** the first write succeeds: every block defined, consistency check (with tolerance) passed ... *)
Example first_ok :
  match first with
  | Some s => consistent wbs wtau s = true /\ printed wtau s 2 = [[(1%Q, 3%Z, 1%Q)]; [(1%Q, 3%Z, 1%Q)]; [(1%Q, 10%Z, 2%Q)]]
  | None => False
  end.
Proof. vm_compute. split; reflexivity. Qed.

(** ... the second run succeeds as well, passes the check again, and prints another expansion for P *)
Example second_differs :
  match first with
  | Some s =>
      match second s with
      | Done s' => consistent wbs wtau s' = true
                   /\ printed wtau s' 2 = [[(1%Q, 3%Z, 1%Q)]; [(1%Q, 3%Z, 1%Q)]; [(1%Q, 10%Z, (200000001 # 100000000)%Q)]]
      | _ => False
      end
  | None => False
  end.
Proof. vm_compute. split; reflexivity. Qed.

(** first and second run as one computed fact about the outcome of the two loops *)
Definition summary (bs : list blk4) (tau : Q) (eor : wire -> nat -> Q) (oc : wire -> list wire) (on : axis -> list axis)
  : option (bool * list (list div3) * option (bool * list (list div3))) :=
  match final bs eor oc on with
  | Some s =>
      Some (consistent bs tau s, printed tau s 2,
            match propagate bs eor oc on (fuel4 bs) (grade_blocks bs eor oc s) (seq 0 (nblocks4 bs)) with
            | Done s' => Some (consistent bs tau s', printed tau s' 2)
            | _ => None
            end)
  | None => None
  end.

(** exact idempotence of the UN-RESET second run *)
Definition exact_second_write : Prop :=
  forall bs tau eor o_coin o_nbrs s s',
    final bs eor o_coin o_nbrs = Some s ->
    consistent bs tau s = true ->
    propagate bs eor o_coin o_nbrs (fuel4 bs) (grade_blocks bs eor o_coin s) (seq 0 (nblocks4 bs)) = Done s' ->
    forall b, b < nblocks4 bs -> printed tau s' b = printed tau s b.

Lemma refute_from_summary bs tau eor oc on v1 v2 c2 :
  summary bs tau eor oc on = Some (true, v1, Some (c2, v2)) -> v1 <> v2 -> 2 < nblocks4 bs -> ~ exact_second_write.
Proof.
  unfold summary. intros V N L H.
  destruct (final bs eor oc on) as [s|] eqn:F; [|discriminate].
  destruct (propagate bs eor oc on (fuel4 bs) (grade_blocks bs eor oc s) (seq 0 (nblocks4 bs))) as [s'| |] eqn:S;
    try discriminate.
  inversion V as [[C X1 C' X2]].
  pose proof (H bs tau eor oc on s s' F C S 2 L) as E. apply N. rewrite <- X1, <- X2. symmetry. exact E.
Qed.

Lemma summary_value :
  summary wbs wtau weor woc wonb
  = Some (true, [[(1%Q, 3%Z, 1%Q)]; [(1%Q, 3%Z, 1%Q)]; [(1%Q, 10%Z, 2%Q)]],
          Some (true, [[(1%Q, 3%Z, 1%Q)]; [(1%Q, 3%Z, 1%Q)]; [(1%Q, 10%Z, (200000001 # 100000000)%Q)]])).
Proof. vm_compute. reflexivity. Qed.

Theorem second_write_exact_refuted : ~ exact_second_write.
Proof.
  apply (refute_from_summary _ _ _ _ _ _ _ _ summary_value).
  - discriminate.
  - unfold nblocks4, wbs. simpl. repeat constructor.
Qed.
