(** C14 - elementary facts about the ingredients of the quality model. *)
From Coq Require Import Reals List Lra Psatz Permutation Bool Arith.
From CB Require Import Base.Vec3 Model.C14_Quality.
Import ListNotations.
Open Scope R_scope.

(** ** max / min *)
Lemma rmax_Rmax x y : rmax x y = Rmax x y.
Proof.
  unfold rmax, Rmax. destruct (Rle_dec x y).
  - rewrite Rabs_left1 by lra. lra.
  - rewrite Rabs_right by lra. lra.
Qed.
Lemma rmin_Rmin x y : rmin x y = Rmin x y.
Proof.
  unfold rmin, Rmin. destruct (Rle_dec x y).
  - rewrite Rabs_left1 by lra. lra.
  - rewrite Rabs_right by lra. lra.
Qed.
Lemma rmax_comm x y : rmax x y = rmax y x.
Proof. rewrite !rmax_Rmax. apply Rmax_comm. Qed.
Lemma rmin_comm x y : rmin x y = rmin y x.
Proof. rewrite !rmin_Rmin. apply Rmin_comm. Qed.
Lemma rmax_assoc x y z : rmax x (rmax y z) = rmax (rmax x y) z.
Proof. rewrite !rmax_Rmax. apply Rmax_assoc. Qed.
Lemma rmin_assoc x y z : rmin x (rmin y z) = rmin (rmin x y) z.
Proof. rewrite !rmin_Rmin. apply Rmin_assoc. Qed.
Lemma rmax_ge x e : e <= x -> rmax x e = x.
Proof. intros. rewrite rmax_Rmax. apply Rmax_left. assumption. Qed.
Lemma rmax_scale s x e : 0 < s -> rmax (s * x) e = s * rmax x (e / s).
Proof.
  intros Hs. rewrite !rmax_Rmax. replace e with (s * (e / s)) at 1 by (field; lra).
  apply RmaxRmult. lra.
Qed.

(** [lmax] / [lmin] of a non-empty list written as a fold over the whole list *)
Lemma fold_rmax_swap a b l : fold_right rmax a (b :: l) = fold_right rmax b (a :: l).
Proof.
  simpl. revert a b. induction l; intros; simpl.
  - apply rmax_comm.
  - rewrite (IHl a0 a), (IHl b a). rewrite !rmax_assoc. f_equal. apply rmax_comm.
Qed.
Lemma fold_rmin_swap a b l : fold_right rmin a (b :: l) = fold_right rmin b (a :: l).
Proof.
  simpl. revert a b. induction l; intros; simpl.
  - apply rmin_comm.
  - rewrite (IHl a0 a), (IHl b a). rewrite !rmin_assoc. f_equal. apply rmin_comm.
Qed.

Lemma lmax_perm l m : Permutation l m -> lmax l = lmax m.
Proof.
  induction 1.
  - reflexivity.
  - destruct l as [|a l], l' as [|b l'].
    + reflexivity.
    + apply Permutation_nil in H. discriminate.
    + apply Permutation_sym, Permutation_nil in H. discriminate.
    + change (fold_right rmax x (a :: l) = fold_right rmax x (b :: l')).
      rewrite (fold_rmax_swap x a l), (fold_rmax_swap x b l'). simpl. f_equal. exact IHPermutation.
  - simpl. apply (fold_rmax_swap y x l).
  - congruence.
Qed.
Lemma lmin_perm l m : Permutation l m -> lmin l = lmin m.
Proof.
  induction 1.
  - reflexivity.
  - destruct l as [|a l], l' as [|b l'].
    + reflexivity.
    + apply Permutation_nil in H. discriminate.
    + apply Permutation_sym, Permutation_nil in H. discriminate.
    + change (fold_right rmin x (a :: l) = fold_right rmin x (b :: l')).
      rewrite (fold_rmin_swap x a l), (fold_rmin_swap x b l'). simpl. f_equal. exact IHPermutation.
  - simpl. apply (fold_rmin_swap y x l).
  - congruence.
Qed.

Lemma rsum_perm l m : Permutation l m -> rsum l = rsum m.
Proof. induction 1; simpl; try lra. Qed.

Lemma vadd_comm a b : vadd a b = vadd b a.
Proof. vec_ring. Qed.
Lemma vadd_assoc a b c : vadd a (vadd b c) = vadd (vadd a b) c.
Proof. vec_ring. Qed.
Lemma vsum_perm l m : Permutation l m -> vsum l = vsum m.
Proof.
  induction 1; simpl.
  - reflexivity.
  - f_equal. assumption.
  - rewrite !vadd_assoc. f_equal. apply vadd_comm.
  - congruence.
Qed.

(** scaling lists *)
Lemma lmax_scale s l : 0 <= s -> lmax (map (Rmult s) l) = s * lmax l.
Proof.
  intros Hs. destruct l as [|a l]; simpl; [lra|].
  induction l; simpl; [reflexivity|]. rewrite IHl, !rmax_Rmax. apply RmaxRmult. assumption.
Qed.
Lemma Rmin_mult s x y : 0 <= s -> Rmin (s * x) (s * y) = s * Rmin x y.
Proof.
  intros Hs. unfold Rmin. destruct (Rle_dec x y), (Rle_dec (s * x) (s * y)); try reflexivity; nra.
Qed.
Lemma lmin_scale s l : 0 <= s -> lmin (map (Rmult s) l) = s * lmin l.
Proof.
  intros Hs. destruct l as [|a l]; simpl; [lra|].
  induction l; simpl; [reflexivity|]. rewrite IHl, !rmin_Rmin. apply Rmin_mult. assumption.
Qed.

(** ** the rapidly increasing scale function *)
Lemma qs_0 w : qs w 0 = 0.
Proof.
  destruct w as [[b e] f]. unfold qs, Rpower. rewrite Rmult_0_r, Rmult_0_l, exp_0. lra.
Qed.

(** [qs] is non-decreasing in its argument for a base >= 1 and non-negative exponent and factor *)
Lemma qs_mono b e f x y : 1 <= b -> 0 <= e -> 0 <= f -> x <= y -> qs (b, e, f) x <= qs (b, e, f) y.
Proof.
  intros Hb He Hf Hxy. unfold qs, Rpower.
  assert (0 <= ln b) by (rewrite <- ln_1; destruct Hb as [Hb|Hb]; [left; apply ln_increasing; lra | rewrite <- Hb; lra]).
  assert (exp (e * x * ln b) <= exp (e * y * ln b)).
  { destruct (Req_dec (e * x * ln b) (e * y * ln b)) as [E|E]; [rewrite E; lra|].
    assert (0 <= e * ln b) by nra.
    assert (e * x * ln b <= e * y * ln b) by nra.
    left. apply exp_increasing. lra. }
  nra.
Qed.

(** ** arccos through atan *)
Lemma macos_1 : macos 1 = 0.
Proof. unfold macos. replace ((1 - 1) / (1 + 1)) with 0 by lra. rewrite sqrt_0, atan_0. lra. Qed.
Lemma macos_0 : macos 0 = PI / 2.
Proof. unfold macos. replace ((1 - 0) / (1 + 0)) with 1 by lra. rewrite sqrt_1, atan_1. lra. Qed.
Lemma deg_0 : deg 0 = 0.
Proof. unfold deg. lra. Qed.
Lemma deg_half_pi : deg (PI / 2) = 90.
Proof. unfold deg. field. apply PI_neq0. Qed.

(** the transcription of arccos is arccos: [macos x = acos x] for [-1 < x <= 1] *)
Lemma macos_acos x : -1 < x <= 1 -> macos x = acos x.
Proof.
  intros [Hl Hu]. unfold macos.
  destruct (Req_dec x 1) as [E|E].
  - subst. replace ((1 - 1) / (1 + 1)) with 0 by lra. rewrite sqrt_0, atan_0, acos_1. lra.
  - assert (Hx : x < 1) by lra.
    set (t := sqrt ((1 - x) / (1 + x))).
    assert (Hq : 0 < (1 - x) / (1 + x)) by (apply Rdiv_lt_0_compat; lra).
    assert (Ht : 0 < t) by (apply sqrt_lt_R0; exact Hq).
    assert (Ht2 : t * t = (1 - x) / (1 + x)) by (apply sqrt_sqrt; lra).
    (* cos (2 atan t) = (1 - t^2) / (1 + t^2) = x *)
    assert (Ha : 0 < atan t < PI / 2).
    { split; [rewrite <- atan_0; apply atan_increasing; exact Ht | apply atan_bound]. }
    symmetry. rewrite <- (acos_cos (2 * atan t)) by lra. f_equal.
    rewrite cos_2a_cos.
    assert (Hc : cos (atan t) <> 0) by (apply Rgt_not_eq, cos_gt_0; lra).
    assert (Htan : tan (atan t) = t) by apply tan_atan.
    unfold tan in Htan.
    assert (Hs : sin (atan t) = t * cos (atan t)).
    { rewrite <- Htan at 2. field. exact Hc. }
    pose proof (sin2_cos2 (atan t)) as P. unfold Rsqr in P. rewrite Hs in P.
    assert (Hcc : cos (atan t) * cos (atan t) = 1 / (1 + t * t)).
    { apply Rmult_eq_reg_r with (1 + t * t); [|nra]. field_simplify; [|nra]. nra. }
    replace (2 * cos (atan t) * cos (atan t)) with (2 * (cos (atan t) * cos (atan t))) by ring.
    rewrite Hcc, Ht2. field. lra.
Qed.

(** ** vectors *)
Lemma c4_shift a b c d : c4 b c d a = c4 a b c d.
Proof. unfold c4. f_equal. vec_ring. Qed.

Lemma dot_scale_l k u v : dot (vscale k u) v = k * dot u v.
Proof. vec_simpl. ring. Qed.
Lemma dot_scale_r k u v : dot u (vscale k v) = k * dot u v.
Proof. vec_simpl. ring. Qed.
Lemma vscale_vscale a b v : vscale a (vscale b v) = vscale (a * b) v.
Proof. vec_ring. Qed.
Lemma cross_scale a b u v : cross (vscale a u) (vscale b v) = vscale (a * b) (cross u v).
Proof. vec_ring. Qed.
Lemma vsub_scale s u v : vsub (vscale s u) (vscale s v) = vscale s (vsub u v).
Proof. vec_ring. Qed.
Lemma vadd_scale s u v : vadd (vscale s u) (vscale s v) = vscale s (vadd u v).
Proof. vec_ring. Qed.
Lemma norm_scale_pos s v : 0 <= s -> norm (vscale s v) = s * norm v.
Proof. intros. rewrite norm_scale, Rabs_right; [reflexivity | lra]. Qed.

Lemma norm_pos_nonzero v : norm v <> 0 -> 0 < norm v.
Proof. intros. pose proof (norm_nonneg v). lra. Qed.

Lemma dot_unit_self v : norm v <> 0 -> dot (unit v) (unit v) = 1.
Proof.
  intros H. unfold unit. rewrite dot_scale_l, dot_scale_r. fold (norm2 v). rewrite <- norm_sq. field. exact H.
Qed.
