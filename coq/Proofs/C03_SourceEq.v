(** C03 - the hand-written model IS what relations.py says now.

    Gen/C03/Source.v is produced on every run by harness/props/C03_translate.py (python [ast] -> Gallina, fail
    closed) from the working tree of /repo.  This file - compiled on every run, after the generated one - proves
    that each translated function equals the corresponding function of Model/C03_Relations.v for ALL real (and
    integer) arguments, including the inputs on which python raises ([None]).  So the theorems of Properties/C03.v
    are theorems about the text of relations.py, not about a transcription that was only compared on samples.

    The proofs do not depend on how the python is written, only on what it computes: [src_eq] unfolds both sides,
    splits on the decisions in the order in which they appear, closes impossible combinations by linear arithmetic
    (plus the few non-linear facts in [contra]) and the remaining [Some a = Some b] by [ring]/[field] under
    congruence.  Reordered validations, commuted products, extra local variables leave them unchanged.

    The three brentq relations: the translated function takes what scipy returned as a parameter.  The python
    text raises on its own before it reaches scipy (division by zero in the bracket, no sign change); the model
    has no such guards, its oracle may answer [None] for any reason.  [guarded tol bq] is the oracle that answers
    exactly when the translated bracket is reached; soundness carries over ([guarded_sound]), and [roots_sound]
    replaces the hypothesis [brentq_sound] by "scipy returns a positive zero of the translated residual". *)
From Coq Require Import Reals ZArith List Bool Lra Lia Psatz.
From Flocq Require Import Core.Raux.
From CB Require Import Model.C03_Relations Proofs.C03_GeomSeries Proofs.C03_Relations.
From CB Require Import Gen.C03.Source.
Open Scope R_scope.

(** the oracle that answers where the python text reaches scipy.optimize.brentq *)
Definition guarded (tol : R) (bq : brentq) : brentq := {|
  bq_c2c_start := fun L n s =>
    match src_get_c2c_expansion__count__start_size__bracket tol L n s with
    | Some _ => bq_c2c_start bq L n s | None => None end;
  bq_c2c_end := fun L n e =>
    match src_get_c2c_expansion__count__end_size__bracket tol L n e with
    | Some _ => bq_c2c_end bq L n e | None => None end;
  bq_count := fun L E s =>
    match src_get_count__total_expansion__start_size__bracket tol L E s with
    | Some _ => bq_count bq L E s | None => None end |}.

(** ** the tactic *)
Ltac unf :=
  cbv [src__validate_length src__validate_total_expansion src__validate_start_end_size src__validate_c2c_expansion
       src_get_start_size__count__c2c_expansion src_get_start_size__end_size__total_expansion
       src_get_end_size__start_size__total_expansion src_get_count__start_size__c2c_expansion
       src_get_count__end_size__c2c_expansion src_get_count__total_expansion__c2c_expansion
       src_get_c2c_expansion__count__total_expansion src_get_total_expansion__count__c2c_expansion
       src_get_total_expansion__start_size__end_size
       src_get_count__total_expansion__start_size src_get_count__total_expansion__start_size__bracket
       src_get_count__total_expansion__start_size__fcnt
       src_get_c2c_expansion__count__start_size src_get_c2c_expansion__count__start_size__bracket
       src_get_c2c_expansion__count__start_size__fexp
       src_get_c2c_expansion__count__end_size src_get_c2c_expansion__count__end_size__bracket
       src_get_c2c_expansion__count__end_size__fexp
       guarded bq_c2c_start bq_c2c_end bq_count
       s_lt s_le s_eq s_int s_ceil s_floor
       start_count_c2c start_end_total end_start_total x_start_c2c count_start_c2c x_end_c2c count_end_c2c
       x_total_c2c count_total_c2c d_min count_total_start c2c_count_start c2c_count_end c2c_count_total
       total_count_c2c total_start_end valid_length guard bind option_map Rltb Rleb Reqb pyint negb andb orb].

(** the innermost scrutinee at the head of a term *)
Ltac head_scrut t :=
  lazymatch t with
  | match ?c with _ => _ end => head_scrut c
  | _ => t
  end.
Ltac is_done t := lazymatch t with Some _ => idtac | None => idtac end.
Ltac split_head t :=
  let c := head_scrut t in
  lazymatch c with
  | Rlt_dec ?a ?b => destruct (Rlt_dec a b)
  | Rle_dec ?a ?b => destruct (Rle_dec a b)
  | Req_EM_T ?a ?b => destruct (Req_EM_T a b)
  | Rcase_abs ?a => destruct (Rcase_abs a)
  | Z.leb ?a ?b => destruct (Z.leb_spec a b)
  | Z.ltb ?a ?b => destruct (Z.ltb_spec a b)
  | Z.eqb ?a ?b => destruct (Z.eqb_spec a b)
  | _ => destruct c
  end.

Lemma div1_pos y : 0 < 1 / y -> 0 < y.
Proof.
  intros H. destruct (Rlt_dec 0 y) as [|n]; [assumption|exfalso].
  destruct (Req_dec y 0) as [->|Hy].
  - unfold Rdiv in H. rewrite Rinv_0 in H. lra.
  - assert (y < 0) by lra. assert (/ y < 0) by (apply Rinv_lt_0_compat; assumption). lra.
Qed.

Ltac prune := try solve [exfalso; lra | exfalso; lia].
Ltac contra :=
  first [ lra | lia
        | match goal with H : ln ?r = 0 |- _ => apply (ln_ne_0 r); [lra | lra | exact H] end
        | match goal with H : ?a * ?b = 0 |- _ => destruct (Rmult_integral _ _ H); lra end
        | match goal with H : 0 < 1 / ?y |- _ => apply div1_pos in H; lra end
        | match goal with H : ~ 0 < 1 / ?y |- _ => apply H; apply Rdiv_lt_0_compat; lra end ].
(** equal values: syntactically, as polynomials / fractions, or argument by argument *)
Ltac eqv_n n :=
  first [ reflexivity | ring | lra | lia | (field; lra)
        | lazymatch n with S ?k => progress f_equal; eqv_n k end ].
Ltac eqv := eqv_n 12%nat.
(** a leaf that cannot be closed is left open (no backtracking into the case analysis: a difference between
    source and model must fail fast, not after an exponential search) *)
Ltac finish :=
  lazymatch goal with
  | |- None = None => reflexivity
  | |- Some _ = Some _ => try solve [ reflexivity | f_equal; eqv ]
  | |- _ => try solve [ exfalso; contra ]
  end.
Ltac go :=
  cbv beta iota zeta; prune;
  lazymatch goal with
  | |- ?l = ?r =>
      tryif is_done l then (tryif is_done r then finish else (split_head r; go)) else (split_head l; go)
  | |- _ => idtac
  end.
(** [abs(a - b)] and [abs(b - a)] are the same condition: bring equal / opposite arguments of [Rabs] to one form,
    then split on the sign of each remaining argument *)
Ltac norm_abs :=
  repeat match goal with
  | |- context [Rabs ?x] =>
      match goal with
      | |- context [Rabs ?y] =>
          lazymatch x with y => fail | _ => idtac end;
          first [ replace (Rabs x) with (Rabs y) by (f_equal; ring)
                | replace (Rabs x) with (Rabs y) by (rewrite <- (Rabs_Ropp y); f_equal; ring) ]
      end
  end.
Ltac abs_cases :=
  norm_abs; unfold Rabs; repeat match goal with |- context [Rcase_abs ?a] => destruct (Rcase_abs a) end.
Ltac src_eq := intros; unf; abs_cases; go; fail "the translated source differs from the model (or the difference is beyond this tactic)".

(** a [Prop]-valued match: split until nothing is left to split *)
Ltac gop :=
  cbv beta iota zeta; prune;
  lazymatch goal with
  | |- match _ with _ => _ end => (let g := lazymatch goal with |- ?g => g end in split_head g); gop
  | |- _ => idtac
  end.

(** ** the nine closed forms *)
Lemma src_start_count_c2c tol L n r :
  src_get_start_size__count__c2c_expansion tol L n r = start_count_c2c tol L n r.
Proof. src_eq. Qed.
Lemma src_start_end_total tol L e E :
  src_get_start_size__end_size__total_expansion tol L e E = start_end_total L e E.
Proof. src_eq. Qed.
Lemma src_end_start_total tol L s E :
  src_get_end_size__start_size__total_expansion tol L s E = end_start_total L s E.
Proof. src_eq. Qed.
(** np.log(c2c) = 0 is excluded by [tol < |c2c - 1|] only for a non-negative tolerance *)
Lemma src_count_start_c2c tol L s r : 0 <= tol ->
  src_get_count__start_size__c2c_expansion tol L s r = count_start_c2c tol L s r.
Proof. src_eq. Qed.
Lemma src_count_end_c2c tol L e r : 0 <= tol ->
  src_get_count__end_size__c2c_expansion tol L e r = count_end_c2c tol L e r.
Proof. src_eq. Qed.
Lemma src_count_total_c2c tol L E r : 0 <= tol ->
  src_get_count__total_expansion__c2c_expansion tol L E r = count_total_c2c tol L E r.
Proof. src_eq. Qed.
Lemma src_c2c_count_total tol L n E :
  src_get_c2c_expansion__count__total_expansion tol L n E = c2c_count_total L n E.
Proof. src_eq. Qed.
Lemma src_total_count_c2c tol L n r :
  src_get_total_expansion__count__c2c_expansion tol L n r = total_count_c2c L n r.
Proof. src_eq. Qed.
Lemma src_total_start_end tol L s e :
  src_get_total_expansion__start_size__end_size tol L s e = total_start_end L s e.
Proof. src_eq. Qed.

(** ** the three relations around brentq: validations, shortcuts, bracket, sign test *)
Lemma src_count_total_start tol bq L E s :
  src_get_count__total_expansion__start_size tol (bq_count bq L E s) L E s
  = count_total_start tol (guarded tol bq) L E s.
Proof. src_eq. Qed.
Lemma src_c2c_count_start tol bq L n s :
  src_get_c2c_expansion__count__start_size tol (bq_c2c_start bq L n s) L n s
  = c2c_count_start tol (guarded tol bq) L n s.
Proof. src_eq. Qed.
Lemma src_c2c_count_end tol bq L n e :
  src_get_c2c_expansion__count__end_size tol (bq_c2c_end bq L n e) L n e
  = c2c_count_end tol (guarded tol bq) L n e.
Proof. src_eq. Qed.

(** the guarded oracle answers less often, never differently *)
Lemma guarded_le tol bq :
  (forall L n s r, bq_c2c_start (guarded tol bq) L n s = Some r -> bq_c2c_start bq L n s = Some r) /\
  (forall L n e r, bq_c2c_end (guarded tol bq) L n e = Some r -> bq_c2c_end bq L n e = Some r) /\
  (forall L E s x, bq_count (guarded tol bq) L E s = Some x -> bq_count bq L E s = Some x).
Proof.
  repeat split; intros *; cbn [guarded bq_c2c_start bq_c2c_end bq_count];
    match goal with |- match ?b with _ => _ end = _ -> _ => destruct b end; (discriminate || auto).
Qed.

Lemma guarded_sound tol bq : brentq_sound bq -> brentq_sound (guarded tol bq).
Proof.
  intros [H1 [H2 H3]]. destruct (guarded_le tol bq) as [G1 [G2 G3]].
  split; [|split]; intros.
  - eapply H1. apply G1. eassumption.
  - eapply H2. apply G2. eassumption.
  - eapply H3. apply G3. eassumption.
Qed.

(** ** the residuals handed to brentq are the defining equations of [brentq_sound] *)
Lemma bracket_start_dom tol L n s :
  match src_get_c2c_expansion__count__start_size__bracket tol L n s with
  | Some (a, b) => (2 <= n)%Z /\ 0 < L /\ 0 < s /\ 0 < a /\ 0 < b
  | None => True
  end.
Proof. intros; unf; abs_cases; gop; try exact I; repeat split; try lia; try lra; apply exp_pos. Qed.
Lemma bracket_end_dom tol L n e :
  match src_get_c2c_expansion__count__end_size__bracket tol L n e with
  | Some (a, b) => (2 <= n)%Z /\ 0 < L /\ 0 < e /\ 0 < a /\ 0 < b
  | None => True
  end.
Proof. intros; unf; abs_cases; gop; try exact I; repeat split; try lia; try lra; apply exp_pos. Qed.
Lemma bracket_count_dom tol L E s :
  match src_get_count__total_expansion__start_size__bracket tol L E s with
  | Some (a, b) => 0 < L /\ 0 < s /\ E <> 0 /\ tol <= Rabs (E - 1) /\ a = 0 /\ b = L / d_min E s
  | None => True
  end.
Proof.
  intros; unf; abs_cases; gop; try exact I; repeat split; try lra; try assumption.
Qed.

Lemma residual_start tol L n s r y : (1 <= n)%Z ->
  src_get_c2c_expansion__count__start_size__fexp tol L n s r = Some y ->
  r <> 1 /\ (y = 0 <-> s * gsum r (Z.to_nat n) = L).
Proof.
  intros Hn. unf. destruct (Req_EM_T (1 - r) 0) as [|Hr]; [discriminate|].
  destruct (Req_EM_T s 0) as [|Hs]; [discriminate|]. cbv beta iota. intros H. inversion H; subst y; clear H.
  assert (Hr1 : r <> 1) by lra. split; [assumption|].
  rewrite powerRZ_nat by lia. rewrite <- gsum_closed_div by assumption.
  split; intros H.
  - assert (H' : gsum r (Z.to_nat n) = L / s) by lra. rewrite H'. field. assumption.
  - rewrite <- H. field. assumption.
Qed.

Lemma residual_end tol L n e r y : (1 <= n)%Z ->
  src_get_c2c_expansion__count__end_size__fexp tol L n e r = Some y ->
  r <> 1 /\ (y = 0 <-> e * gsum r (Z.to_nat n) = L * r ^ (Z.to_nat n - 1)).
Proof.
  intros Hn. unf. destruct (Req_EM_T (powerRZ r (n - 1)) 0) as [|Hp]; [discriminate|].
  destruct (Req_EM_T (1 - r) 0) as [|Hr]; [discriminate|].
  destruct (Req_EM_T e 0) as [|He]; [discriminate|]. cbv beta iota. intros H. inversion H; subst y; clear H.
  assert (Hr1 : r <> 1) by lra. split; [assumption|].
  rewrite (powerRZ_nat r n) by lia. rewrite powerRZ_nat in * by lia.
  replace (Z.to_nat (n - 1)) with (Z.to_nat n - 1)%nat in * by lia.
  set (p := r ^ (Z.to_nat n - 1)) in *.
  replace (1 / p * (1 - r ^ Z.to_nat n) / (1 - r)) with (gsum r (Z.to_nat n) / p)
    by (rewrite (gsum_closed_div r (Z.to_nat n)) by assumption; field; split; lra).
  split; intros H.
  - assert (H' : gsum r (Z.to_nat n) / p = L / e) by lra.
    replace (gsum r (Z.to_nat n)) with (gsum r (Z.to_nat n) / p * p) by (field; assumption).
    rewrite H'. field. assumption.
  - replace (gsum r (Z.to_nat n)) with (e * gsum r (Z.to_nat n) / e) by (field; assumption).
    rewrite H. field. split; assumption.
Qed.

Lemma residual_count tol L E s x y :
  src_get_count__total_expansion__start_size__fcnt tol L E s x = Some y ->
  x <> 1 /\ y = Gcode x E - L / s.
Proof.
  unf. destruct (Req_EM_T (x - 1) 0) as [|Hx]; [discriminate|].
  destruct (Req_EM_T (1 - Rpower E (1 / (x - 1))) 0) as [|Hd]; [discriminate|].
  destruct (Req_EM_T s 0) as [|Hs]; [discriminate|]. cbv beta iota. intros H. inversion H. split; [lra|reflexivity].
Qed.

(** what scipy is asked for: a positive zero of the function it was handed *)
Definition returns_roots (tol : R) (bq : brentq) : Prop :=
  (forall L n s r, bq_c2c_start bq L n s = Some r ->
     0 < r /\ src_get_c2c_expansion__count__start_size__fexp tol L n s r = Some 0) /\
  (forall L n e r, bq_c2c_end bq L n e = Some r ->
     0 < r /\ src_get_c2c_expansion__count__end_size__fexp tol L n e r = Some 0) /\
  (forall L E s x, bq_count bq L E s = Some x ->
     0 < x /\ src_get_count__total_expansion__start_size__fcnt tol L E s x = Some 0).

Lemma roots_sound tol bq : returns_roots tol bq -> brentq_sound (guarded tol bq).
Proof.
  intros [R1 [R2 R3]].
  split; [|split]; intros * H; cbn [guarded bq_c2c_start bq_c2c_end bq_count] in H; [split|split|split; [|split]].
  - pose proof (bracket_start_dom tol L n s) as D.
    destruct (src_get_c2c_expansion__count__start_size__bracket tol L n s) as [[a b]|]; [|discriminate].
    destruct (R1 _ _ _ _ H). assumption.
  - pose proof (bracket_start_dom tol L n s) as D.
    destruct (src_get_c2c_expansion__count__start_size__bracket tol L n s) as [[a b]|]; [|discriminate].
    destruct (R1 _ _ _ _ H) as [_ Hf]. destruct D as [Hn _].
    apply (residual_start tol L n s r 0) in Hf; [|lia]. apply Hf. reflexivity.
  - pose proof (bracket_end_dom tol L n e) as D.
    destruct (src_get_c2c_expansion__count__end_size__bracket tol L n e) as [[a b]|]; [|discriminate].
    destruct (R2 _ _ _ _ H). assumption.
  - pose proof (bracket_end_dom tol L n e) as D.
    destruct (src_get_c2c_expansion__count__end_size__bracket tol L n e) as [[a b]|]; [|discriminate].
    destruct (R2 _ _ _ _ H) as [_ Hf]. destruct D as [Hn _].
    apply (residual_end tol L n e r 0) in Hf; [|lia]. apply Hf. reflexivity.
  - destruct (src_get_count__total_expansion__start_size__bracket tol L E s); [|discriminate].
    destruct (R3 _ _ _ _ H). assumption.
  - destruct (src_get_count__total_expansion__start_size__bracket tol L E s); [|discriminate].
    destruct (R3 _ _ _ _ H) as [_ Hf]. apply residual_count in Hf. tauto.
  - destruct (src_get_count__total_expansion__start_size__bracket tol L E s); [|discriminate].
    destruct (R3 _ _ _ _ H) as [_ Hf]. apply residual_count in Hf. destruct Hf as [_ Hf]. lra.
Qed.

(** satisfiable: the oracle that never answers *)
Example returns_roots_example tol :
  returns_roots tol (Build_brentq (fun _ _ _ => None) (fun _ _ _ => None) (fun _ _ _ => None)).
Proof. repeat split; intros; simpl in *; discriminate. Qed.
