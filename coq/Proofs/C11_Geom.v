(** C11 - geometry of the blocks extruded from the four-core disk and from the annulus, for ALL
    centres, radius vectors, unit normals, heights, ratios in the valid region and segment counts. *)
From Coq Require Import Reals List Arith Bool Lra Lia Psatz.
From CB Require Import Base.Vec3 Model.C11_Geom.
Import ListNotations.
Open Scope R_scope.

(** the Jacobian of an extruded in-plane corner is (2D cross product) * height * Gram determinant *)
Lemma triple_plane c u n x0 y0 x1 y1 x2 y2 h :
  triple (vsub (plane_pt c u n x1 y1) (plane_pt c u n x0 y0))
         (vsub (plane_pt c u n x2 y2) (plane_pt c u n x0 y0)) (vscale h n)
  = ((x1 - x0) * (y2 - y0) - (x2 - x0) * (y1 - y0)) * h * (norm2 u * norm2 n - dot u n * dot u n).
Proof.
  destruct c as [[c1 c2] c3], u as [[u1 u2] u3], n as [[n1 n2] n3].
  unfold plane_pt. vec_simpl. ring.
Qed.

Definition cross2 (xy : nat -> R * R) (q : list nat) (k : nat) : R :=
  (fst (xy (nth ((k + 1) mod 4) q 0%nat)) - fst (xy (nth k q 0%nat)))
  * (snd (xy (nth ((k + 3) mod 4) q 0%nat)) - snd (xy (nth k q 0%nat)))
  - (fst (xy (nth ((k + 3) mod 4) q 0%nat)) - fst (xy (nth k q 0%nat)))
    * (snd (xy (nth ((k + 1) mod 4) q 0%nat)) - snd (xy (nth k q 0%nat))).

Lemma jacobian_plane (xy : nat -> R * R) c u n h q k :
  norm2 n = 1 -> dot u n = 0 ->
  corner_jacobian (fun i => plane_pt c u n (fst (xy i)) (snd (xy i))) (vscale h n) q k
  = cross2 xy q k * h * norm2 u.
Proof.
  intros Hn Hu. unfold corner_jacobian, cross2. rewrite triple_plane. rewrite Hn, Hu. ring.
Qed.

Lemma s2_pos : 0 < s2.
Proof. unfold s2. assert (0 < sqrt 2) by (apply sqrt_lt_R0; lra). lra. Qed.
Lemma s2_sq : s2 * s2 = 1 / 2.
Proof. unfold s2. assert (H : sqrt 2 * sqrt 2 = 2) by (apply sqrt_sqrt; lra). nra. Qed.

(** the valid region without the square root (decidable on dyadic constants by [lra]) *)
Lemma ratios_ok_sufficient cr dr : 0 < cr < 1 -> 0 < dr < 1 -> cr * cr < 2 * (dr * dr) -> disk_ratios_ok cr dr.
Proof.
  intros H1 H2 H3. unfold disk_ratios_ok. repeat split; try lra.
  assert (S : sqrt 2 * sqrt 2 = 2) by (apply sqrt_sqrt; lra).
  assert (P : 0 < sqrt 2) by (apply sqrt_lt_R0; lra).
  destruct (Rlt_le_dec cr (sqrt 2 * dr)) as [L|L]; [exact L|]. exfalso.
  assert (0 < sqrt 2 * dr) by (apply Rmult_lt_0_compat; lra).
  assert ((sqrt 2 * dr) * (sqrt 2 * dr) <= cr * cr) by (apply Rmult_le_compat; lra).
  replace ((sqrt 2 * dr) * (sqrt 2 * dr)) with (sqrt 2 * sqrt 2 * (dr * dr)) in H0 by ring.
  rewrite S in H0. lra.
Qed.

(** all 48 plane corners of the four-core disk are convex and counter-clockwise *)
Lemma disk_cross2_pos cr dr : disk_ratios_ok cr dr ->
  forall q, In q four_core_quads -> forall k, (k < 4)%nat -> 0 < cross2 (disk_xy cr dr) q k.
Proof.
  intros [[H1 H2] [[H3 H4] H5]] q Hq k Hk. unfold cross2.
  pose proof s2_pos as Sp. pose proof s2_sq as Ss.
  assert (H6 : cr < 2 * s2 * dr) by (unfold s2; lra).
  clear H5.
  assert (P3 : 0 < s2 * cr * (1 - dr)) by (apply Rmult_lt_0_compat; [apply Rmult_lt_0_compat; lra | lra]).
  assert (Hk' : (k = 0 \/ k = 1 \/ k = 2 \/ k = 3)%nat) by lia.
  unfold four_core_quads in Hq. simpl in Hq.
  repeat (destruct Hq as [<-|Hq];
          [destruct Hk' as [->|[->|[->| ->]]];
           cbv [nth Nat.modulo Nat.divmod fst snd Nat.add disk_xy Nat.eqb Nat.leb Nat.sub Nat.even cs8];
           cbv beta iota; simpl; nra|]).
  contradiction.
Qed.

Theorem disk_jacobian_pos :
  forall (cr dr : R) (c u n : vec) (h : R),
    0 < cr -> 0 < dr ->
    norm2 n = 1 -> dot u n = 0 -> 0 < norm2 u -> 0 < h ->
    disk_ratios_ok cr dr ->
    forall q, In q four_core_quads -> forall k, (k < 4)%nat ->
      0 < corner_jacobian (disk_point cr dr c u n) (vscale h n) q k.
Proof.
  intros cr dr c u n h _ _ Hn Hu Hu2 Hh Hok q Hq k Hk.
  unfold disk_point. rewrite (jacobian_plane (disk_xy cr dr)) by assumption.
  apply Rmult_lt_0_compat; [apply Rmult_lt_0_compat|]; try assumption.
  apply disk_cross2_pos; assumption.
Qed.

(** the hypotheses are satisfiable (canonical cylinder, the shipped ratios rounded) *)
Example disk_jacobian_hyps_sat :
  exists (cr dr : R) (c u n : vec) (h : R),
    0 < cr /\ 0 < dr /\ norm2 n = 1 /\ dot u n = 0 /\ 0 < norm2 u /\ 0 < h /\ disk_ratios_ok cr dr.
Proof.
  exists (4 / 5), (7 / 8), (0, 0, 0), (1, 0, 0), (0, 0, 1), 1.
  assert (1 < sqrt 2) by (rewrite <- sqrt_1 at 1; apply sqrt_lt_1; lra).
  unfold disk_ratios_ok. vec_simpl. repeat split; try lra; nra.
Qed.

Lemma cs8_unit k : fst (cs8 k) * fst (cs8 k) + snd (cs8 k) * snd (cs8 k) = 1.
Proof.
  pose proof s2_sq. unfold cs8. destruct (k mod 8)%nat as [|[|[|[|[|[|[|?]]]]]]]; simpl; nra.
Qed.

Lemma plane_pt_offset c u n x y :
  norm2 n = 1 -> dot u n = 0 ->
  norm2 (vsub (plane_pt c u n x y) c) = (x * x + y * y) * norm2 u /\ dot (vsub (plane_pt c u n x y) c) n = 0.
Proof.
  destruct c as [[c1 c2] c3], u as [[u1 u2] u3], n as [[n1 n2] n3].
  unfold plane_pt. vec_simpl. intros Hn Hu. split.
  - replace ((c1 + (x * u1 + y * (n2 * u3 - n3 * u2)) - c1) * (c1 + (x * u1 + y * (n2 * u3 - n3 * u2)) - c1) +
             (c2 + (x * u2 + y * (n3 * u1 - n1 * u3)) - c2) * (c2 + (x * u2 + y * (n3 * u1 - n1 * u3)) - c2) +
             (c3 + (x * u3 + y * (n1 * u2 - n2 * u1)) - c3) * (c3 + (x * u3 + y * (n1 * u2 - n2 * u1)) - c3))
      with (x * x * (u1 * u1 + u2 * u2 + u3 * u3)
            + y * y * ((u1 * u1 + u2 * u2 + u3 * u3) * (n1 * n1 + n2 * n2 + n3 * n3)
                       - (u1 * n1 + u2 * n2 + u3 * n3) * (u1 * n1 + u2 * n2 + u3 * n3))) by ring.
    rewrite Hn, Hu. ring.
  - replace ((c1 + (x * u1 + y * (n2 * u3 - n3 * u2)) - c1) * n1 + (c2 + (x * u2 + y * (n3 * u1 - n1 * u3)) - c2) * n2 +
             (c3 + (x * u3 + y * (n1 * u2 - n2 * u1)) - c3) * n3)
      with (x * (u1 * n1 + u2 * n2 + u3 * n3)) by ring.
    rewrite Hu. ring.
Qed.

Theorem disk_outer_on_circle :
  forall (cr dr : R) (c u n : vec), norm2 n = 1 -> dot u n = 0 ->
    forall k, (9 <= k <= 16)%nat ->
      norm2 (vsub (disk_point cr dr c u n k) c) = norm2 u /\ dot (vsub (disk_point cr dr c u n k) c) n = 0.
Proof.
  intros cr dr c u n Hn Hu k Hk. unfold disk_point.
  destruct (plane_pt_offset c u n (fst (disk_xy cr dr k)) (snd (disk_xy cr dr k)) Hn Hu) as [E1 E2].
  split; [|exact E2]. rewrite E1.
  assert (E : disk_xy cr dr k = cs8 (k - 9)).
  { unfold disk_xy. destruct (k =? 0)%nat eqn:K0; [apply Nat.eqb_eq in K0; lia|].
    destruct (k <=? 8)%nat eqn:K8; [apply Nat.leb_le in K8; lia|]. reflexivity. }
  rewrite E, cs8_unit. ring.
Qed.

(** * ring with any number of segments *)
Lemma ring_delta_sin_pos nseg : (3 <= nseg)%nat -> 0 < sin (2 * PI / INR nseg).
Proof.
  intro H. assert (Hn : 3 <= INR nseg) by (replace 3 with (INR 3) by (simpl; lra); apply le_INR; exact H).
  pose proof PI_RGT_0 as Hpi.
  assert (H0 : 0 < 2 * PI / INR nseg) by (apply Rdiv_lt_0_compat; lra).
  assert (H1 : 2 * PI / INR nseg < PI).
  { apply Rmult_lt_reg_r with (INR nseg); [lra|]. unfold Rdiv. rewrite Rmult_assoc, Rinv_l by lra. nra. }
  apply sin_gt_0; assumption.
Qed.

Lemma ring_angle_succ nseg i : ring_angle nseg (S i) = ring_angle nseg i + 2 * PI / INR nseg.
Proof. unfold ring_angle. rewrite S_INR. ring. Qed.

Lemma cross2_0 xy a b c d : cross2 xy [a; b; c; d] 0 =
  (fst (xy b) - fst (xy a)) * (snd (xy d) - snd (xy a)) - (fst (xy d) - fst (xy a)) * (snd (xy b) - snd (xy a)).
Proof. reflexivity. Qed.
Lemma cross2_1 xy a b c d : cross2 xy [a; b; c; d] 1 =
  (fst (xy c) - fst (xy b)) * (snd (xy a) - snd (xy b)) - (fst (xy a) - fst (xy b)) * (snd (xy c) - snd (xy b)).
Proof. reflexivity. Qed.
Lemma cross2_2 xy a b c d : cross2 xy [a; b; c; d] 2 =
  (fst (xy d) - fst (xy c)) * (snd (xy b) - snd (xy c)) - (fst (xy b) - fst (xy c)) * (snd (xy d) - snd (xy c)).
Proof. reflexivity. Qed.
Lemma cross2_3 xy a b c d : cross2 xy [a; b; c; d] 3 =
  (fst (xy a) - fst (xy d)) * (snd (xy c) - snd (xy d)) - (fst (xy c) - fst (xy d)) * (snd (xy a) - snd (xy d)).
Proof. reflexivity. Qed.

Lemma ring_cross2 nseg ri ro i k : (k < 4)%nat ->
  cross2 (ring_xy nseg ri ro) (ring_quad i) k
  = (if (k =? 0)%nat || (k =? 3)%nat then ri else ro) * (ro - ri) * sin (2 * PI / INR nseg).
Proof.
  intro Hk.
  assert (E0 : ((2 * i) / 2 = i)%nat) by (rewrite Nat.mul_comm; apply Nat.div_mul; lia).
  assert (E1 : ((2 * i + 1) / 2 = i)%nat).
  { rewrite Nat.add_comm, Nat.mul_comm. rewrite Nat.div_add by lia. reflexivity. }
  assert (E2 : ((2 * (i + 1) + 1) / 2 = S i)%nat).
  { rewrite Nat.add_comm, Nat.mul_comm. rewrite Nat.div_add by lia. simpl. lia. }
  assert (E3 : ((2 * (i + 1)) / 2 = S i)%nat) by (rewrite Nat.mul_comm, Nat.div_mul by lia; lia).
  assert (V0 : Nat.even (2 * i) = true) by (rewrite Nat.even_mul; reflexivity).
  assert (V1 : Nat.even (2 * i + 1) = false).
  { rewrite Nat.even_add, Nat.even_mul. reflexivity. }
  assert (V2 : Nat.even (2 * (i + 1) + 1) = false).
  { rewrite Nat.even_add, Nat.even_mul. reflexivity. }
  assert (V3 : Nat.even (2 * (i + 1)) = true) by (rewrite Nat.even_mul; reflexivity).
  assert (X0 : ring_xy nseg ri ro (2 * i) = (ri * cos (ring_angle nseg i), ri * sin (ring_angle nseg i)))
    by (unfold ring_xy; rewrite E0, V0; reflexivity).
  assert (X1 : ring_xy nseg ri ro (2 * i + 1) = (ro * cos (ring_angle nseg i), ro * sin (ring_angle nseg i)))
    by (unfold ring_xy; rewrite E1, V1; reflexivity).
  assert (X2 : ring_xy nseg ri ro (2 * (i + 1) + 1) = (ro * cos (ring_angle nseg (S i)), ro * sin (ring_angle nseg (S i))))
    by (unfold ring_xy; rewrite E2, V2; reflexivity).
  assert (X3 : ring_xy nseg ri ro (2 * (i + 1)) = (ri * cos (ring_angle nseg (S i)), ri * sin (ring_angle nseg (S i))))
    by (unfold ring_xy; rewrite E3, V3; reflexivity).
  set (a := ring_angle nseg i) in *. set (d := 2 * PI / INR nseg).
  assert (Cb : cos (ring_angle nseg (S i)) = cos a * cos d - sin a * sin d)
    by (rewrite ring_angle_succ; apply cos_plus).
  assert (Sb : sin (ring_angle nseg (S i)) = sin a * cos d + cos a * sin d)
    by (rewrite ring_angle_succ; apply sin_plus).
  pose proof (sin2_cos2 a) as U. unfold Rsqr in U.
  assert (Hk' : (k = 0 \/ k = 1 \/ k = 2 \/ k = 3)%nat) by lia.
  unfold ring_quad.
  destruct Hk' as [->|[->|[->| ->]]];
    [rewrite cross2_0 | rewrite cross2_1 | rewrite cross2_2 | rewrite cross2_3];
    rewrite ?X0, ?X1, ?X2, ?X3; cbv [fst snd]; rewrite ?Cb, ?Sb; simpl orb; cbv iota.
  - transitivity (ri * (ro - ri) * sin d * (sin a * sin a + cos a * cos a)); [ring | rewrite U; ring].
  - transitivity (ro * (ro - ri) * sin d * (sin a * sin a + cos a * cos a)); [ring | rewrite U; ring].
  - transitivity (ro * (ro - ri) * sin d * (sin a * sin a + cos a * cos a)); [ring | rewrite U; ring].
  - transitivity (ri * (ro - ri) * sin d * (sin a * sin a + cos a * cos a)); [ring | rewrite U; ring].
Qed.

Theorem ring_jacobian_pos :
  forall (nseg : nat) (ri ro : R) (c u n : vec) (h : R),
    (3 <= nseg)%nat -> 0 < ri < ro ->
    norm2 n = 1 -> dot u n = 0 -> norm2 u = 1 -> 0 < h ->
    forall i k, (k < 4)%nat ->
      0 < corner_jacobian (ring_point nseg ri ro c u n) (vscale h n) (ring_quad i) k.
Proof.
  intros nseg ri ro c u n h Hn [Hri Hro] Hn1 Hu Hu1 Hh i k Hk.
  unfold ring_point. rewrite (jacobian_plane (ring_xy nseg ri ro)) by assumption.
  rewrite Hu1, ring_cross2 by exact Hk.
  pose proof (ring_delta_sin_pos nseg Hn) as Hs.
  assert (0 < (if (k =? 0)%nat || (k =? 3)%nat then ri else ro)) by (destruct ((k =? 0)%nat || (k =? 3)%nat); lra).
  assert (0 < ro - ri) by lra.
  repeat apply Rmult_lt_0_compat; lra.
Qed.

Example ring_jacobian_hyps_sat :
  exists (nseg : nat) (ri ro : R) (u n : vec) (h : R),
    (3 <= nseg)%nat /\ 0 < ri < ro /\ norm2 n = 1 /\ dot u n = 0 /\ norm2 u = 1 /\ 0 < h.
Proof.
  exists 8%nat, (1 / 2), 1, (1, 0, 0), (0, 0, 1), 1. vec_simpl. repeat split; try lra; lia.
Qed.

(** the ring's outer (odd) points lie on the circle of radius ro, the inner (even) ones on ri *)
Theorem ring_on_circle nseg ri ro c u n k :
  norm2 n = 1 -> dot u n = 0 -> norm2 u = 1 ->
  norm2 (vsub (ring_point nseg ri ro c u n k) c) = (if Nat.even k then ri * ri else ro * ro)
  /\ dot (vsub (ring_point nseg ri ro c u n k) c) n = 0.
Proof.
  intros Hn Hu Hu1. unfold ring_point.
  destruct (plane_pt_offset c u n (fst (ring_xy nseg ri ro k)) (snd (ring_xy nseg ri ro k)) Hn Hu) as [E1 E2].
  split; [|exact E2]. rewrite E1, Hu1. unfold ring_xy. cbv [fst snd].
  pose proof (sin2_cos2 (ring_angle nseg (k / 2))) as U. unfold Rsqr in U.
  destruct (Nat.even k); nra.
Qed.

Lemma quads_eqb_eq x : forall y, quads_eqb x y = true -> x = y.
Proof.
  assert (L : forall (a b : list nat), ((length a =? length b)%nat && forallb (fun ab => (fst ab =? snd ab)%nat) (combine a b)) = true -> a = b).
  { induction a as [|p a IH]; intros [|r b] H; simpl in *; try reflexivity; try discriminate.
    apply andb_true_iff in H. destruct H as [Hl H]. apply andb_true_iff in H. destruct H as [Hp H].
    apply Nat.eqb_eq in Hp. subst. f_equal. apply IH. rewrite Hl. exact H. }
  unfold quads_eqb. induction x as [|q x IH]; intros [|r y] H; simpl in *; try reflexivity; try discriminate.
  apply andb_true_iff in H. destruct H as [Hl H]. apply andb_true_iff in H. destruct H as [Hq H].
  f_equal; [apply L; exact Hq|]. apply IH. rewrite Hl. exact H.
Qed.

(** * all eight corners of the blocks lofted to a translated and scaled copy of the sketch *)
Ltac v3 := cbv [plane_pt top_pt vadd vsub vscale cross dot triple norm2 vx vy vz fst snd].
Ltac vd3 c u n := destruct c as [[? ?] ?], u as [[? ?] ?], n as [[? ?] ?].

Lemma plane_pt_diff c u n x0 y0 x1 y1 :
  vsub (plane_pt c u n x1 y1) (plane_pt c u n x0 y0) = vadd (vscale (x1 - x0) u) (vscale (y1 - y0) (cross n u)).
Proof. vd3 c u n. apply vec_eq; v3; ring. Qed.

Lemma top_pt_diff c e rho p q : vsub (top_pt c e rho p) (top_pt c e rho q) = vscale rho (vsub p q).
Proof. vd3 c e p. destruct q as [[? ?] ?]. apply vec_eq; v3; ring. Qed.

Lemma top_pt_rise c u n x0 y0 h rho :
  vsub (top_pt c (vscale h n) rho (plane_pt c u n x0 y0)) (plane_pt c u n x0 y0)
  = vadd (vscale h n) (vadd (vscale ((rho - 1) * x0) u) (vscale ((rho - 1) * y0) (cross n u))).
Proof. vd3 c u n. apply vec_eq; v3; ring. Qed.

Lemma triple_span u w g a1 b1 a2 b2 :
  triple (vadd (vscale a1 u) (vscale b1 w)) (vadd (vscale a2 u) (vscale b2 w)) g
  = (a1 * b2 - a2 * b1) * dot g (cross u w).
Proof. vd3 u w g. v3; ring. Qed.

Lemma dot_rise u w n h s t :
  dot (vadd (vscale h n) (vadd (vscale s u) (vscale t w))) (cross u w) = h * dot n (cross u w).
Proof. vd3 u w n. v3; ring. Qed.

Lemma dot_n_cross u n : dot n (cross u (cross n u)) = norm2 u * norm2 n - dot u n * dot u n.
Proof. destruct u as [[? ?] ?], n as [[? ?] ?]. v3; ring. Qed.

Lemma triple_scale2 r a b g : triple (vscale r a) (vscale r b) g = r * r * triple a b g.
Proof. vd3 a b g. v3; ring. Qed.

Lemma triple_frustum_bot c u n x0 y0 x1 y1 x2 y2 h rho :
  triple (vsub (plane_pt c u n x1 y1) (plane_pt c u n x0 y0))
         (vsub (plane_pt c u n x2 y2) (plane_pt c u n x0 y0))
         (vsub (top_pt c (vscale h n) rho (plane_pt c u n x0 y0)) (plane_pt c u n x0 y0))
  = ((x1 - x0) * (y2 - y0) - (x2 - x0) * (y1 - y0)) * h * (norm2 u * norm2 n - dot u n * dot u n).
Proof.
  rewrite !plane_pt_diff, top_pt_rise, triple_span, dot_rise, dot_n_cross. ring.
Qed.

Lemma triple_frustum_top c u n x0 y0 x1 y1 x2 y2 h rho :
  triple (vsub (top_pt c (vscale h n) rho (plane_pt c u n x1 y1)) (top_pt c (vscale h n) rho (plane_pt c u n x0 y0)))
         (vsub (top_pt c (vscale h n) rho (plane_pt c u n x2 y2)) (top_pt c (vscale h n) rho (plane_pt c u n x0 y0)))
         (vsub (top_pt c (vscale h n) rho (plane_pt c u n x0 y0)) (plane_pt c u n x0 y0))
  = rho * rho * ((x1 - x0) * (y2 - y0) - (x2 - x0) * (y1 - y0)) * h * (norm2 u * norm2 n - dot u n * dot u n).
Proof.
  rewrite !top_pt_diff, triple_scale2, triple_frustum_bot. ring.
Qed.

Lemma frustum_jacobian_plane (xy : nat -> R * R) c u n h rho q k :
  norm2 n = 1 -> dot u n = 0 ->
  let pt := fun i => plane_pt c u n (fst (xy i)) (snd (xy i)) in
  corner_jacobian_bot pt (top_pt c (vscale h n) rho) q k = cross2 xy q k * h * norm2 u
  /\ corner_jacobian_top pt (top_pt c (vscale h n) rho) q k = rho * rho * cross2 xy q k * h * norm2 u.
Proof.
  intros Hn Hu pt. unfold corner_jacobian_bot, corner_jacobian_top, cross2, pt.
  rewrite triple_frustum_bot, triple_frustum_top. rewrite Hn, Hu. split; ring.
Qed.

Theorem frustum_disk_jacobian_pos :
  forall (cr dr : R) (c u n : vec) (h rho : R),
    norm2 n = 1 -> dot u n = 0 -> 0 < norm2 u -> 0 < h -> 0 < rho ->
    disk_ratios_ok cr dr ->
    forall q, In q four_core_quads -> forall k, (k < 4)%nat ->
      0 < corner_jacobian_bot (disk_point cr dr c u n) (top_pt c (vscale h n) rho) q k
      /\ 0 < corner_jacobian_top (disk_point cr dr c u n) (top_pt c (vscale h n) rho) q k.
Proof.
  intros cr dr c u n h rho Hn Hu Hu2 Hh Hr Hok q Hq k Hk.
  destruct (frustum_jacobian_plane (disk_xy cr dr) c u n h rho q k Hn Hu) as [E1 E2].
  unfold disk_point. rewrite E1, E2.
  pose proof (disk_cross2_pos cr dr Hok q Hq k Hk) as Hc.
  split; repeat apply Rmult_lt_0_compat; assumption.
Qed.

Theorem ring_all_jacobian_pos :
  forall (nseg : nat) (ri ro : R) (c u n : vec) (h rho : R),
    (3 <= nseg)%nat -> 0 < ri < ro ->
    norm2 n = 1 -> dot u n = 0 -> norm2 u = 1 -> 0 < h -> 0 < rho ->
    forall i k, (k < 4)%nat ->
      0 < corner_jacobian_bot (ring_point nseg ri ro c u n) (top_pt c (vscale h n) rho) (ring_quad i) k
      /\ 0 < corner_jacobian_top (ring_point nseg ri ro c u n) (top_pt c (vscale h n) rho) (ring_quad i) k.
Proof.
  intros nseg ri ro c u n h rho Hn [Hri Hro] Hn1 Hu Hu1 Hh Hr i k Hk.
  destruct (frustum_jacobian_plane (ring_xy nseg ri ro) c u n h rho (ring_quad i) k Hn1 Hu) as [E1 E2].
  unfold ring_point. rewrite E1, E2, Hu1, ring_cross2 by exact Hk.
  pose proof (ring_delta_sin_pos nseg Hn) as Hs.
  assert (0 < (if (k =? 0)%nat || (k =? 3)%nat then ri else ro)) by (destruct ((k =? 0)%nat || (k =? 3)%nat); lra).
  assert (0 < ro - ri) by lra.
  split; repeat apply Rmult_lt_0_compat; lra.
Qed.

(* rho = 1 is the translation (Cylinder, ExtrudedRing, ExtrudedShape) *)
Lemma top_pt_translate c ext p : top_pt c ext 1 p = vadd p ext.
Proof.
  vd3 c ext p. apply vec_eq; v3; ring.
Qed.

(* the top sketch lies in the plane at height h, its outer points on the circle of radius rho |u| *)
Lemma top_pt_centre c e rho p : vsub (top_pt c e rho p) (vadd c e) = vscale rho (vsub p c).
Proof. vd3 c e p. apply vec_eq; v3; ring. Qed.

Lemma top_pt_offset c u n x y h rho :
  norm2 n = 1 -> dot u n = 0 ->
  let p := top_pt c (vscale h n) rho (plane_pt c u n x y) in
  norm2 (vsub p (vadd c (vscale h n))) = rho * rho * ((x * x + y * y) * norm2 u)
  /\ dot (vsub p (vadd c (vscale h n))) n = 0.
Proof.
  intros Hn Hu p. unfold p. rewrite top_pt_centre.
  destruct (plane_pt_offset c u n x y Hn Hu) as [E1 E2]. split.
  - rewrite norm2_scale, E1. reflexivity.
  - set (d := vsub (plane_pt c u n x y) c) in *. 
    assert (L : forall r a b, dot (vscale r a) b = r * dot a b) by (intros r a b; vd3 a b c; v3; ring).
    rewrite L, E2. ring.
Qed.
