(** C05 - first-fit classification: the abstract algorithm behind [VertexList.add].

    Requests arrive one by one; a request is given the index of the first stored representative it
    matches ([same r e]), else it is stored as a new representative at the end.  When [same] is an
    equivalence on the requests, the result is the quotient: two requests get the same index iff they
    match, whatever the order of arrival, and the number of representatives is the number of classes. *)
From Coq Require Import List Bool Arith Lia Permutation.
Import ListNotations.
Open Scope nat_scope.

Section Classify.
  Variable R : Type.
  Variable same : R -> R -> bool.

  Fixpoint cfind (es : list R) (r : R) : option nat :=
    match es with
    | [] => None
    | e :: t => if same r e then Some 0 else option_map S (cfind t r)
    end.

  Definition cadd (es : list R) (r : R) : list R * nat :=
    match cfind es r with
    | Some i => (es, i)
    | None => (es ++ [r], length es)
    end.

  Fixpoint crun (es : list R) (rs : list R) : list R * list nat :=
    match rs with
    | [] => (es, [])
    | r :: t =>
        let '(es1, i) := cadd es r in
        let '(es2, js) := crun es1 t in
        (es2, i :: js)
    end.

  (** *** cfind *)
  Lemma cfind_Some es r i d :
    cfind es r = Some i ->
    i < length es /\ same r (nth i es d) = true /\ (forall j, j < i -> same r (nth j es d) = false).
  Proof.
    revert i. induction es as [|e t IH]; intros i H; simpl in H; [discriminate|].
    destruct (same r e) eqn:He.
    - inversion H; subst. simpl. repeat split; [lia|assumption|intros j Hj; lia].
    - destruct (cfind t r) as [k|] eqn:Hk; simpl in H; [|discriminate].
      inversion H; subst. destruct (IH k eq_refl) as (A & B & C).
      simpl. repeat split; [lia|assumption|].
      intros [|j] Hj; [assumption|apply C; lia].
  Qed.

  Lemma cfind_None es r : cfind es r = None <-> (forall e, In e es -> same r e = false).
  Proof.
    induction es as [|e t IH]; simpl.
    - split; [intros _ x []|reflexivity].
    - destruct (same r e) eqn:He.
      + split; [discriminate|]. intros H. rewrite (H e (or_introl eq_refl)) in He. discriminate.
      + destruct (cfind t r) eqn:Hk; simpl.
        * split; [discriminate|]. intros H.
          assert (Some n = None) by (apply IH; intros x Hx; apply H; right; exact Hx). discriminate.
        * split; [|reflexivity]. intros _ x [<-|Hx]; [assumption|]. apply (proj1 IH eq_refl x Hx).
  Qed.

  Lemma cfind_first es r i d :
    i < length es -> same r (nth i es d) = true -> (forall j, j < i -> same r (nth j es d) = false) ->
    cfind es r = Some i.
  Proof.
    revert i. induction es as [|e t IH]; intros i Hi Hs Hf; simpl in *; [lia|].
    destruct i as [|i].
    - rewrite Hs. reflexivity.
    - rewrite (Hf 0) by lia. rewrite (IH i); [reflexivity|lia|assumption|].
      intros j Hj. apply (Hf (S j)). lia.
  Qed.

  Lemma cfind_app es x r i : cfind es r = Some i -> cfind (es ++ x) r = Some i.
  Proof.
    revert i. induction es as [|e t IH]; intros i H; simpl in *; [discriminate|].
    destruct (same r e); [assumption|].
    destruct (cfind t r) as [k|]; simpl in *; [|discriminate].
    rewrite (IH k eq_refl). assumption.
  Qed.

  Lemma cfind_app_new es r : cfind es r = None -> same r r = true -> cfind (es ++ [r]) r = Some (length es).
  Proof.
    induction es as [|e t IH]; intros H Hr; simpl in *.
    - rewrite Hr. reflexivity.
    - destruct (same r e); [discriminate|].
      destruct (cfind t r) eqn:Hk; simpl in H; [discriminate|].
      rewrite (IH eq_refl Hr). reflexivity.
  Qed.

  (** *** one step *)
  Lemma cadd_spec es r :
    (exists i, cfind es r = Some i /\ cadd es r = (es, i)) \/
    (cfind es r = None /\ cadd es r = (es ++ [r], length es)).
  Proof. unfold cadd. destruct (cfind es r) as [i|]; [left; exists i; auto|right; auto]. Qed.

  (** *** the run: representatives only grow at the end, by requests *)
  Lemma crun_prefix rs : forall es, exists extra,
      fst (crun es rs) = es ++ extra /\ incl extra rs.
  Proof.
    induction rs as [|r t IH]; intros es; simpl.
    - exists []. rewrite app_nil_r. split; [reflexivity|intros x []].
    - destruct (cadd_spec es r) as [(i & _ & E)|(_ & E)]; rewrite E.
      + destruct (IH es) as (x & Hx & Hi). destruct (crun es t). simpl in *.
        exists x. split; [assumption|]. intros y Hy. right. auto.
      + destruct (IH (es ++ [r])) as (x & Hx & Hi). destruct (crun (es ++ [r]) t). simpl in *.
        exists (r :: x). split; [rewrite Hx, <- app_assoc; reflexivity|].
        intros y [<-|Hy]; [left; reflexivity|right; auto].
  Qed.

  Lemma crun_length rs : forall es, length (snd (crun es rs)) = length rs.
  Proof.
    induction rs as [|r t IH]; intros es; simpl; [reflexivity|].
    destruct (cadd es r) as [es1 i]. specialize (IH es1). destruct (crun es1 t). simpl in *. lia.
  Qed.

  (** dense numbering, unconditionally: every returned index addresses a representative, and every
      representative created during the run is returned to the request that created it *)
  Lemma crun_bound rs : forall es i, In i (snd (crun es rs)) -> i < length (fst (crun es rs)).
  Proof.
    induction rs as [|r t IH]; intros es i H; simpl in *; [contradiction|].
    destruct (cadd_spec es r) as [(k & Hk & E)|(Hk & E)]; rewrite E in *.
    - specialize (IH es). destruct (crun_prefix t es) as (x & Hx & _).
      destruct (crun es t) as [es2 js]. simpl in *. destruct H as [<-|H]; [|auto].
      apply (cfind_Some _ _ _ r) in Hk. rewrite Hx, app_length. lia.
    - specialize (IH (es ++ [r])). destruct (crun_prefix t (es ++ [r])) as (x & Hx & _).
      destruct (crun (es ++ [r]) t) as [es2 js]. simpl in *. destruct H as [<-|H]; [|auto].
      rewrite Hx, !app_length. simpl. lia.
  Qed.

  Lemma crun_surjective rs : forall es j,
      length es <= j < length (fst (crun es rs)) -> In j (snd (crun es rs)).
  Proof.
    induction rs as [|r t IH]; intros es j H; simpl in *; [lia|].
    destruct (cadd_spec es r) as [(k & Hk & E)|(Hk & E)]; rewrite E in *.
    - specialize (IH es j). destruct (crun es t) as [es2 js]. simpl in *. right. auto.
    - specialize (IH (es ++ [r]) j). destruct (crun (es ++ [r]) t) as [es2 js]. simpl in *.
      rewrite app_length in IH. simpl in IH.
      destruct (Nat.eq_dec j (length es)) as [->|Hne]; [left; reflexivity|right; apply IH; lia].
  Qed.

  (** the index handed to a request addresses a representative that it matches, or itself *)
  Lemma crun_match rs d : forall es k,
      k < length rs ->
      let i := nth k (snd (crun es rs)) 0 in
      let e := nth i (fst (crun es rs)) d in
      e = nth k rs d \/ same (nth k rs d) e = true.
  Proof.
    induction rs as [|r t IH]; intros es k Hk; simpl in Hk; [lia|]. simpl.
    destruct (cadd_spec es r) as [(i0 & Hi0 & E)|(Hn & E)]; rewrite E.
    - specialize (IH es). destruct (crun_prefix t es) as (x & Hx & _).
      destruct (crun es t) as [es2 js]. simpl in *.
      destruct k as [|k]; [|apply IH; lia]. simpl.
      destruct (cfind_Some _ _ _ d Hi0) as (A & B & _).
      right. rewrite Hx, app_nth1 by assumption. assumption.
    - specialize (IH (es ++ [r])). destruct (crun_prefix t (es ++ [r])) as (x & Hx & _).
      destruct (crun (es ++ [r]) t) as [es2 js]. simpl in *.
      destruct k as [|k]; [|apply IH; lia]. simpl.
      left. rewrite Hx, <- app_assoc. rewrite app_nth2 by lia. rewrite Nat.sub_diag. reflexivity.
  Qed.

  (** *** with an equivalence on a domain [D] of requests *)
  Variable D : R -> Prop.
  Hypothesis same_refl : forall a, D a -> same a a = true.
  Hypothesis same_sym : forall a b, D a -> D b -> same a b = true -> same b a = true.
  Hypothesis same_trans : forall a b c, D a -> D b -> D c -> same a b = true -> same b c = true -> same a c = true.

  (** representatives are pairwise unrelated *)
  Fixpoint nosame (es : list R) : Prop :=
    match es with
    | [] => True
    | e :: t => (forall x, In x t -> same e x = false) /\ nosame t
    end.

  Lemma nosame_app_new es r :
    Forall D es -> D r -> nosame es -> cfind es r = None -> nosame (es ++ [r]).
  Proof.
    intros HD Hr Hn Hf. rewrite cfind_None in Hf.
    induction es as [|e t IH]; simpl in *.
    - split; [intros x []|exact I].
    - inversion HD; subst. destruct Hn as [Hn1 Hn2]. split.
      + intros x Hx. apply in_app_or in Hx. destruct Hx as [Hx|[<-|[]]]; [auto|].
        destruct (same e r) eqn:Hs; [|reflexivity].
        apply same_sym in Hs; auto. rewrite (Hf e) in Hs by (left; reflexivity). discriminate.
      + apply IH; auto.
  Qed.

  Lemma nosame_nth es d i j :
    Forall D es -> nosame es -> i < length es -> j < length es ->
    same (nth i es d) (nth j es d) = true -> i = j.
  Proof.
    revert i j. induction es as [|e t IH]; intros i j HD Hn Hi Hj Hs; simpl in *; [lia|].
    inversion HD; subst. destruct Hn as [Hn1 Hn2].
    destruct i as [|i], j as [|j]; [reflexivity| | |].
    - rewrite Hn1 in Hs; [discriminate|]. apply nth_In. lia.
    - apply same_sym in Hs; auto.
      + rewrite Hn1 in Hs; [discriminate|]. apply nth_In. lia.
      + rewrite Forall_forall in H2. apply H2. apply nth_In. lia.
    - f_equal. apply IH; auto; lia.
  Qed.

  Lemma crun_inv rs : forall es,
      Forall D es -> Forall D rs -> nosame es ->
      Forall D (fst (crun es rs)) /\ nosame (fst (crun es rs)).
  Proof.
    induction rs as [|r t IH]; intros es HD Hrs Hn; simpl; [auto|].
    inversion Hrs; subst.
    destruct (cadd_spec es r) as [(i & Hi & E)|(Hf & E)]; rewrite E.
    - specialize (IH es HD H2 Hn). destruct (crun es t). exact IH.
    - assert (HD' : Forall D (es ++ [r])) by (apply Forall_app; split; auto).
      specialize (IH (es ++ [r]) HD' H2 (nosame_app_new es r HD H1 Hn Hf)).
      destruct (crun (es ++ [r]) t). exact IH.
  Qed.

  (** the index handed out during the run is the index [cfind] gives in the final state *)
  Lemma crun_stable rs : forall es k d,
      Forall D rs -> k < length rs ->
      cfind (fst (crun es rs)) (nth k rs d) = Some (nth k (snd (crun es rs)) 0).
  Proof.
    induction rs as [|r t IH]; intros es k d Hrs Hk; simpl in Hk; [lia|].
    inversion Hrs; subst. simpl.
    destruct (cadd_spec es r) as [(i & Hi & E)|(Hf & E)]; rewrite E.
    - specialize (IH es). destruct (crun_prefix t es) as (x & Hx & _).
      destruct (crun es t) as [es2 js]. simpl in *.
      destruct k as [|k]; simpl; [|apply IH; [assumption|lia]].
      rewrite Hx. apply cfind_app. assumption.
    - specialize (IH (es ++ [r])). destruct (crun_prefix t (es ++ [r])) as (x & Hx & _).
      destruct (crun (es ++ [r]) t) as [es2 js]. simpl in *.
      destruct k as [|k]; simpl; [|apply IH; [assumption|lia]].
      rewrite Hx. apply cfind_app. apply cfind_app_new; auto.
  Qed.

  (** identity: in a state of pairwise unrelated representatives, two requests that both find a
      representative find the same one iff they match *)
  Lemma cfind_identity es a b i j :
    Forall D es -> nosame es -> D a -> D b ->
    cfind es a = Some i -> cfind es b = Some j ->
    (i = j <-> same a b = true).
  Proof.
    intros HD Hn Ha Hb Hi Hj.
    destruct (cfind_Some _ _ _ a Hi) as (Li & Si & _).
    destruct (cfind_Some _ _ _ a Hj) as (Lj & Sj & _).
    assert (Di : D (nth i es a)) by (rewrite Forall_forall in HD; apply HD, nth_In; assumption).
    assert (Dj : D (nth j es a)) by (rewrite Forall_forall in HD; apply HD, nth_In; assumption).
    split.
    - intros <-. apply same_trans with (nth i es a); auto.
    - intros Hab. apply (nosame_nth es a); auto.
      apply same_trans with a; auto.
      apply same_trans with b; auto.
  Qed.

  Theorem crun_identity rs d k l :
    Forall D rs -> k < length rs -> l < length rs ->
    (nth k (snd (crun [] rs)) 0 = nth l (snd (crun [] rs)) 0 <-> same (nth k rs d) (nth l rs d) = true).
  Proof.
    intros Hrs Hk Hl.
    destruct (crun_inv rs [] (Forall_nil _) Hrs I) as [HD Hn].
    pose proof (crun_stable rs [] k d Hrs Hk) as Sk.
    pose proof (crun_stable rs [] l d Hrs Hl) as Sl.
    rewrite Forall_forall in Hrs.
    apply (cfind_identity _ _ _ _ _ HD Hn); auto; apply Hrs, nth_In; assumption.
  Qed.

  (** *** independence of the order of arrival *)
  Lemma cfind_total rs r :
    Forall D rs -> In r rs -> exists i, cfind (fst (crun [] rs)) r = Some i.
  Proof.
    intros Hrs Hin. destruct (In_nth _ _ r Hin) as (k & Hk & E).
    exists (nth k (snd (crun [] rs)) 0). rewrite <- E at 1. apply crun_stable; assumption.
  Qed.

  Theorem crun_partition_perm rs rs' a b :
    Forall D rs -> Permutation rs rs' -> In a rs -> In b rs ->
    (cfind (fst (crun [] rs)) a = cfind (fst (crun [] rs)) b <->
     cfind (fst (crun [] rs')) a = cfind (fst (crun [] rs')) b).
  Proof.
    intros Hrs HP Ha Hb.
    assert (Hrs' : Forall D rs').
    { rewrite Forall_forall in *. intros x Hx. apply Hrs. apply Permutation_in with rs'; [symmetry|]; assumption. }
    assert (Ha' := Permutation_in _ HP Ha). assert (Hb' := Permutation_in _ HP Hb).
    destruct (crun_inv rs [] (Forall_nil _) Hrs I) as [HD Hn].
    destruct (crun_inv rs' [] (Forall_nil _) Hrs' I) as [HD' Hn'].
    destruct (cfind_total rs a Hrs Ha) as (i & Hi). destruct (cfind_total rs b Hrs Hb) as (j & Hj).
    destruct (cfind_total rs' a Hrs' Ha') as (i' & Hi'). destruct (cfind_total rs' b Hrs' Hb') as (j' & Hj').
    assert (Da : D a) by (rewrite Forall_forall in Hrs; auto).
    assert (Db : D b) by (rewrite Forall_forall in Hrs; auto).
    rewrite Hi, Hj, Hi', Hj'.
    pose proof (cfind_identity _ _ _ _ _ HD Hn Da Db Hi Hj) as E1.
    pose proof (cfind_identity _ _ _ _ _ HD' Hn' Da Db Hi' Hj') as E2.
    split; intros H; inversion H; subst; f_equal; [apply E2, E1|apply E1, E2]; reflexivity.
  Qed.

  Lemma nosame_map_nodup (f : R -> nat) es :
    nosame es -> (forall a b, In a es -> In b es -> f a = f b -> same a b = true) -> NoDup (map f es).
  Proof.
    induction es as [|e t IH]; intros Hn Hf; simpl; [constructor|].
    destruct Hn as [Hn1 Hn2]. constructor.
    - intros Hin. apply in_map_iff in Hin. destruct Hin as (x & Hx & Hxin).
      assert (same e x = true) by (apply Hf; [left; reflexivity|right; assumption|symmetry; assumption]).
      rewrite Hn1 in H; [discriminate|assumption].
    - apply IH; [assumption|]. intros a b Ha Hb. apply Hf; right; assumption.
  Qed.

  Lemma crun_count_le rs rs' :
    Forall D rs -> Forall D rs' -> incl rs rs' ->
    length (fst (crun [] rs)) <= length (fst (crun [] rs')).
  Proof.
    intros Hrs Hrs' Hincl.
    destruct (crun_inv rs [] (Forall_nil _) Hrs I) as [HD Hn].
    destruct (crun_inv rs' [] (Forall_nil _) Hrs' I) as [HD' Hn'].
    destruct (crun_prefix rs []) as (x & Hx & Hxi). simpl in Hx.
    set (es := fst (crun [] rs)) in *. set (es' := fst (crun [] rs')) in *.
    set (f := fun r => match cfind es' r with Some i => i | None => 0 end).
    assert (Hes : forall e, In e es -> In e rs') by (intros e He; rewrite Hx in He; auto).
    assert (ND : NoDup (map f es)).
    { apply nosame_map_nodup; [assumption|]. intros a b Ha Hb Hab.
      destruct (cfind_total rs' a Hrs' (Hes a Ha)) as (i & Hi).
      destruct (cfind_total rs' b Hrs' (Hes b Hb)) as (j & Hj).
      fold es' in Hi, Hj. unfold f in Hab. rewrite Hi, Hj in Hab. subst j.
      rewrite Forall_forall in HD.
      apply (cfind_identity es' a b i i HD' Hn'); auto. }
    assert (Hin : incl (map f es) (seq 0 (length es'))).
    { intros n Hn0. apply in_map_iff in Hn0. destruct Hn0 as (e & <- & He).
      destruct (cfind_total rs' e Hrs' (Hes e He)) as (i & Hi). fold es' in Hi.
      unfold f. rewrite Hi. apply in_seq. apply (cfind_Some _ _ _ e) in Hi. lia. }
    pose proof (NoDup_incl_length ND Hin) as L. rewrite map_length, seq_length in L. exact L.
  Qed.

  Theorem crun_count_perm rs rs' :
    Forall D rs -> Permutation rs rs' ->
    length (fst (crun [] rs)) = length (fst (crun [] rs')).
  Proof.
    intros Hrs HP.
    assert (Hrs' : Forall D rs').
    { rewrite Forall_forall in *. intros x Hx. apply Hrs. apply Permutation_in with rs'; [symmetry|]; assumption. }
    apply Nat.le_antisymm; apply crun_count_le; auto; intros x Hx.
    - apply Permutation_in with rs; assumption.
    - apply Permutation_in with rs'; [symmetry|]; assumption.
  Qed.
End Classify.
