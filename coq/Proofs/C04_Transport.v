(** C04 - discrete invariants of Model/C04_Payload.v, by induction over the whole propagation
    (any assembly, any iteration orders, any calculate oracle):

    - [AI] (DESIGN App. A, I5): every chop an axis holds is a user chop's preserving copy, inverted
      exactly when the axis runs against the user's axis - same count, same value, the field AND the
      preserve tag at the geometrically same end;
    - [WI]: every section of every wire was calculated from a chop held by the axis of its source wire,
      on a wire of the same length, and carries the reciprocal flag exactly when the wire runs against
      the source wire.

    Orientation enters through a labelling [dir] of the block axes such that coincident wires are
    aligned iff their axes carry the same label ([oriented]; on a geometric mesh: the sign of the
    direction, validated by the harness on every generated assembly). *)
From Coq Require Import List Bool Arith ZArith QArith Lia.
From CB Require Import Model.Propagate Proofs.PropagateBasics Proofs.PropagateTerm Proofs.PropagateInv Proofs.PropagateFinal
  Model.C04_Payload.
Import ListNotations.
Local Open Scope nat_scope.


(** ** payload algebra *)
Lemma fld_eqb_refl f : fld_eqb f f = true.
Proof. destruct f; reflexivity. Qed.

Lemma swap_fld_invol f : swap_fld (swap_fld f) = f.
Proof. destruct f; reflexivity. Qed.

Lemma copy_pres_pc u : copy_pres (pc u) = pc u.
Proof. destruct u as [lr n t v]. destruct t; reflexivity. Qed.

Lemma copy_pres_invert_pc u : copy_pres (invert (pc u)) = invert (pc u).
Proof. destruct u as [lr n t v]. destruct t; reflexivity. Qed.

Lemma invert_invert_pc u : invert (invert (pc u)) = pc u.
Proof. destruct u as [lr n t v]. destruct t; reflexivity. Qed.

(** the user's chop seen from an axis running the same way ([true]) or the other way *)
Definition seen (same : bool) (u : uchop) : chop := if same then pc u else invert (pc u).

Lemma seen_ok b u : c_ok (seen b u) = true.
Proof. destruct b; reflexivity. Qed.
Lemma seen_cnt b u : c_cnt (seen b u) = u_cnt u.
Proof. destruct b; reflexivity. Qed.
Lemma seen_lr b u : c_lr (seen b u) = u_lr u.
Proof. destruct b; reflexivity. Qed.
Lemma seen_fld b u : c_fld (seen b u) = if b then u_tag u else swap_fld (u_tag u).
Proof. destruct b; reflexivity. Qed.
Lemma seen_tag b u : c_tag (seen b u) = c_fld (seen b u).
Proof. destruct b; reflexivity. Qed.
Lemma seen_val b u : c_val (seen b u) = u_val u.
Proof. destruct b; reflexivity. Qed.
Lemma seen_inv b u : c_inv (seen b u) = match u_tag u with PC2c => negb b | _ => false end.
Proof. destruct b, u as [lr n t v]; destruct t; reflexivity. Qed.

Lemma copy_pres_seen b u : copy_pres (seen b u) = seen b u.
Proof. destruct b; [apply copy_pres_pc | apply copy_pres_invert_pc]. Qed.
Lemma invert_seen b u : invert (seen b u) = seen (negb b) u.
Proof. destruct b; [reflexivity | apply invert_invert_pc]. Qed.

(** ** generic fold lemma *)
Lemma fold_left_inv_in {A B} (P : A -> Prop) (f : A -> B -> A) (l : list B) :
  forall s, (forall s a, In a l -> P s -> P (f s a)) -> P s -> P (fold_left f l s).
Proof.
  induction l as [|a l IH]; intros s H Hs; [exact Hs|]. simpl. apply IH.
  - intros s' b Hb. apply H. right. exact Hb.
  - apply H; [left; reflexivity | exact Hs].
Qed.

Lemma mk_secs_in eor w i cs sec :
  In sec (mk_secs eor w i cs) ->
  In (s_chop sec) cs /\ s_src sec = w /\ s_inv sec = false /\ s_lr sec = c_lr (s_chop sec) /\ s_cnt sec = c_cnt (s_chop sec)
  /\ exists j, s_E sec = eor w j.
Proof.
  revert i. induction cs as [|c cs IH]; intros i H; [destruct H|].
  simpl in H. destruct H as [<- | H].
  - simpl. repeat split; auto. exists i. reflexivity.
  - destruct (IH _ H) as (H1 & H2). split; [right; exact H1 | exact H2].
Qed.

Section Transport.
  Variable bs : list blk4.
  Variable tau : Q.
  Variable eor : wire -> nat -> Q.
  Variable o_coin : wire -> list wire.
  Variable o_nbrs : axis -> list axis.
  Variable dir : axis -> bool.
  Variable T : Type.
  Variable len : wire -> T.

  Notation gb := (gb bs).
  Notation n := (nblocks4 bs).
  Notation st := (st).
  Notation fill := (fill eor).
  Notation copy_wire := (copy_wire bs o_coin).
  Notation grade_axis := (grade_axis bs eor o_coin).
  Notation copy_axis := (copy_axis bs eor o_coin o_nbrs).
  Notation copy_block := (copy_block bs eor o_coin o_nbrs).
  Notation scan := (scan bs eor o_coin o_nbrs).
  Notation propagate := (propagate bs eor o_coin o_nbrs).
  Notation user_chops := (user_chops4 bs).

  Definition vw4 (w : wire) : Prop := In w (all_wires n).
  Definition va4 (x : axis) : Prop := In x (all_axes n).

  (** hypotheses, as definitions *)
  Definition oriented : Prop :=
    forall w c, vw4 w -> vw4 c -> coincident gb w c = true ->
      aligned gb c w = Bool.eqb (dir (w_axis c)) (dir (w_axis w)).
  Definition len_shared : Prop := forall w c, vw4 w -> vw4 c -> coincident gb w c = true -> len c = len w.
  Definition coin_ok : Prop := forall w c, vw4 w -> In c (o_coin w) -> vw4 c /\ coincident gb w c = true.
  Definition nbrs_ok : Prop := forall x y, va4 x -> In y (o_nbrs x) -> va4 y /\ is_nbr gb x y = true.

  Lemma nblocks_gb : nblocks gb = n.
  Proof. unfold nblocks, C04_Payload.gb, nblocks4. apply map_length. Qed.

  (** ** the invariants *)
  Definition good_chop (x : axis) (c : chop) : Prop :=
    exists y u, In u (user_chops y) /\ c = seen (Bool.eqb (dir x) (dir y)) u.
  Definition AI (s : st) : Prop := forall x c, In c (ach s x) -> good_chop x c.

  Definition good_sec (s : st) (w : wire) (sec : sec) : Prop :=
    In (s_chop sec) (ach s (w_axis (s_src sec)))
    /\ s_inv sec = negb (Bool.eqb (dir (w_axis w)) (dir (w_axis (s_src sec))))
    /\ len (s_src sec) = len w
    /\ s_lr sec = c_lr (s_chop sec) /\ s_cnt sec = c_cnt (s_chop sec)
    /\ exists j, s_E sec = eor (s_src sec) j.
  Definition WI (s : st) : Prop := forall w sec, In sec (g s w) -> good_sec s w sec.
  Definition Inv (s : st) : Prop := AI s /\ WI s.

  Lemma upd_g_same f w v : upd_g f w v w = v.
  Proof. unfold upd_g. rewrite wire_eqb_refl. reflexivity. Qed.
  Lemma upd_g_other f w v u : u <> w -> upd_g f w v u = f u.
  Proof. intro H. unfold upd_g. rewrite wire_eqb_neq by exact H. reflexivity. Qed.
  Lemma upd_a_same f x v : upd_a f x v x = v.
  Proof. unfold upd_a. rewrite axis_eqb_refl. reflexivity. Qed.
  Lemma upd_a_other f x v y : y <> x -> upd_a f x v y = f y.
  Proof. intro H. unfold upd_a. rewrite axis_eqb_neq by exact H. reflexivity. Qed.

  Lemma wire_dec (u w : wire) : {u = w} + {u <> w}.
  Proof. apply wire_eq_dec. Qed.
  Lemma axis_dec (x y : axis) : {x = y} + {x <> y}.
  Proof. repeat decide equality. Qed.

  (** *** fill *)
  Lemma fill_inv x s w : w_axis w = x -> Inv s -> Inv (fill x s w).
  Proof.
    intros Hx [HA HW]. split; [exact HA|].
    intros u sec Hs. unfold C04_Payload.fill in Hs. simpl in Hs.
    destruct (wire_dec u w) as [->|Hne].
    - rewrite upd_g_same in Hs. apply in_app_or in Hs. destruct Hs as [Hs|Hs].
      + exact (HW _ _ Hs).
      + apply mk_secs_in in Hs. destruct Hs as (H1 & H2 & H3 & H4 & H5 & H6).
        unfold good_sec. simpl. rewrite H2, Hx, H3, Bool.eqb_reflx.
        split; [exact H1|]. split; [reflexivity|]. split; [reflexivity|]. split; [exact H4|]. split; [exact H5|exact H6].
    - rewrite upd_g_other in Hs by exact Hne. exact (HW _ _ Hs).
  Qed.

  Lemma refill_inv x s w : w_axis w = x -> Inv s -> Inv (refill eor x s w).
  Proof.
    intros Hx [HA HW]. split; [exact HA|].
    intros u sec Hs. unfold refill in Hs. simpl in Hs.
    destruct (wire_dec u w) as [->|Hne].
    - rewrite upd_g_same in Hs.
      apply mk_secs_in in Hs. destruct Hs as (H1 & H2 & H3 & H4 & H5 & H6).
      unfold good_sec. simpl. rewrite H2, Hx, H3, Bool.eqb_reflx.
      split; [exact H1|]. split; [reflexivity|]. split; [reflexivity|]. split; [exact H4|]. split; [exact H5|exact H6].
    - rewrite upd_g_other in Hs by exact Hne. exact (HW _ _ Hs).
  Qed.

  (** *** copy_wire *)
  Hypothesis Hor : oriented.
  Hypothesis Hlen : len_shared.
  Hypothesis Hco : coin_ok.
  Hypothesis Hnb : nbrs_ok.

  Lemma flip_good s w c sec :
    vw4 w -> vw4 c -> coincident gb w c = true -> aligned gb c w = false -> good_sec s c sec -> good_sec s w (flip sec).
  Proof.
    intros Vw Vc C A (H1 & H2 & H3 & H4 & H5 & H6). unfold good_sec. simpl. repeat split; auto.
    - rewrite H2. rewrite (Hor w c Vw Vc C) in A.
      destruct (dir (w_axis c)), (dir (w_axis w)), (dir (w_axis (s_src sec))); simpl in *; congruence.
    - rewrite H3. apply Hlen; assumption.
  Qed.

  Lemma keep_good s w c sec :
    vw4 w -> vw4 c -> coincident gb w c = true -> aligned gb c w = true -> good_sec s c sec -> good_sec s w sec.
  Proof.
    intros Vw Vc C A (H1 & H2 & H3 & H4 & H5 & H6). unfold good_sec. repeat split; auto.
    - rewrite H2. rewrite (Hor w c Vw Vc C) in A.
      destruct (dir (w_axis c)), (dir (w_axis w)), (dir (w_axis (s_src sec))); simpl in *; congruence.
    - rewrite H3. apply Hlen; assumption.
  Qed.

  Lemma copy_wire_inv s w : vw4 w -> Inv s -> Inv (copy_wire s w).
  Proof.
    intros Hw. unfold C04_Payload.copy_wire.
    apply fold_left_inv_in with (P := Inv). intros s' c Hc [HA HW].
    destruct (w_defined s' c); [|split; assumption].
    split; [exact HA|]. intros u sec Hs. simpl in Hs.
    destruct (Hco w c Hw Hc) as [Vc C].
    destruct (wire_dec u w) as [->|Hne].
    - rewrite upd_g_same in Hs. destruct (aligned gb c w) eqn:A.
      + apply keep_good with (c := c); auto. exact (HW _ _ Hs).
      + unfold inv_secs in Hs. apply in_map_iff in Hs. destruct Hs as [sec' [<- Hs]].
        apply in_rev in Hs. apply flip_good with (c := c); auto. exact (HW _ _ Hs).
    - rewrite upd_g_other in Hs by exact Hne. exact (HW _ _ Hs).
  Qed.

  Lemma fill_undefined_inv x s w : w_axis w = x -> Inv s -> Inv (fill_undefined eor x s w).
  Proof. intros Hx H. unfold fill_undefined. destruct (w_defined s w); [exact H | apply fill_inv; assumption]. Qed.

  Lemma vw4_of_axis x w : va4 x -> In w (wires_of_axis x) -> vw4 w /\ w_axis w = x.
  Proof.
    intros Hx Hw. apply in_wires_of_axis in Hw. destruct Hw as [E Hk]. split; [|exact E].
    apply in_all_wires. rewrite E. auto.
  Qed.

  Lemma grade_axis_inv s x : va4 x -> Inv s -> Inv (grade_axis s x).
  Proof.
    intros Hx H. unfold C04_Payload.grade_axis. destruct (chopped4 bs x).
    - apply fold_left_inv_in with (P := Inv); [|exact H]. intros s' w Hw H'.
      apply refill_inv; [|exact H']. apply (vw4_of_axis x w Hx Hw).
    - apply fold_left_inv_in with (P := Inv).
      + intros s' w Hw H'. apply fill_undefined_inv; [|exact H']. apply (vw4_of_axis x w Hx Hw).
      + apply fold_left_inv_in with (P := Inv); [|exact H]. intros s' w Hw H'.
        apply copy_wire_inv; [|exact H']. apply (vw4_of_axis x w Hx Hw).
  Qed.

  Lemma va4_of_block b x : b < n -> In x (axes_of_block b) -> va4 x.
  Proof. intros Hb Hx. apply in_axes_of_block in Hx. apply in_all_axes. destruct Hx as [-> Hx]. auto. Qed.

  Lemma grade_block_inv s b : b < n -> Inv s -> Inv (grade_block bs eor o_coin s b).
  Proof.
    intros Hb H. unfold grade_block. apply fold_left_inv_in with (P := Inv); [|exact H].
    intros s' x Hx H'. apply grade_axis_inv; [|exact H']. exact (va4_of_block b x Hb Hx).
  Qed.

  Lemma grade_blocks_inv s : Inv s -> Inv (grade_blocks bs eor o_coin s).
  Proof.
    intros H. unfold grade_blocks. apply fold_left_inv_in with (P := Inv); [|exact H].
    intros s' b Hb H'. apply grade_block_inv; [|exact H']. apply in_seq in Hb. lia.
  Qed.

  Lemma init_inv : Inv (init bs).
  Proof.
    split.
    - intros x c Hc. unfold init in Hc. simpl in Hc. apply in_map_iff in Hc. destruct Hc as [u [<- Hu]].
      exists x, u. rewrite Bool.eqb_reflx. split; [exact Hu | reflexivity].
    - intros w sec Hs. destruct Hs.
  Qed.

  (** *** Axis.copy_grading *)
  Lemma axis_aligned_dir x y : va4 x -> va4 y -> is_nbr gb x y = true -> axis_aligned gb y x = Bool.eqb (dir y) (dir x).
  Proof.
    intros Vx Vy N. apply is_nbr_elim in N. destruct N as (_ & u & v & Hu & Hv & C).
    unfold axis_aligned.
    destruct (flat_map (fun w => map (fun v0 => (w, v0)) (filter (coincident gb w) (wires_of_axis x))) (wires_of_axis y))
      as [|[w0 v0] rest] eqn:E.
    - exfalso. assert (In (v, u) (flat_map (fun w => map (fun v0 => (w, v0)) (filter (coincident gb w) (wires_of_axis x))) (wires_of_axis y))) as HI.
      { apply in_flat_map. exists v. split; [exact Hv|]. apply in_map. apply filter_In. split; [exact Hu|].
        apply coincident_sym. exact C. }
      rewrite E in HI. destruct HI.
    - assert (In (w0, v0) (flat_map (fun w => map (fun v0 => (w, v0)) (filter (coincident gb w) (wires_of_axis x))) (wires_of_axis y))) as HI.
      { rewrite E. left. reflexivity. }
      apply in_flat_map in HI. destruct HI as [w1 [Hw1 HI]]. apply in_map_iff in HI. destruct HI as [v1 [Epair HI]].
      inversion Epair; subst w1 v1. apply filter_In in HI. destruct HI as [Hv0 C0].
      destruct (vw4_of_axis y w0 Vy Hw1) as [Vw0 Ew0]. destruct (vw4_of_axis x v0 Vx Hv0) as [Vv0 Ev0].
      apply coincident_sym in C0. rewrite (Hor v0 w0 Vv0 Vw0 C0). rewrite Ew0, Ev0. reflexivity.
  Qed.

  Lemma transported_good s y x : va4 x -> va4 y -> is_nbr gb x y = true -> AI s ->
    forall c, In c (transported bs s y x) -> good_chop x c.
  Proof.
    intros Vx Vy N HA c Hc. unfold transported in Hc. rewrite (axis_aligned_dir x y Vx Vy N) in Hc.
    destruct (Bool.eqb (dir y) (dir x)) eqn:D.
    - apply in_map_iff in Hc. destruct Hc as [c' [<- Hc']]. destruct (HA _ _ Hc') as (y0 & u & Hu & ->).
      exists y0, u. split; [exact Hu|]. rewrite copy_pres_seen. apply Bool.eqb_prop in D. rewrite D. reflexivity.
    - apply in_map_iff in Hc. destruct Hc as [c' [<- Hc']]. apply in_rev in Hc'.
      destruct (HA _ _ Hc') as (y0 & u & Hu & ->).
      exists y0, u. split; [exact Hu|]. rewrite copy_pres_seen, invert_seen. f_equal.
      destruct (dir y), (dir x), (dir y0); simpl in *; congruence.
  Qed.

  Lemma copy_axis_inv s x : va4 x -> Inv s -> Inv (fst (copy_axis s x)).
  Proof.
    intros Hx H. unfold C04_Payload.copy_axis. destruct (a_defined s x); [exact H|].
    destruct (find _ (o_nbrs x)) as [y|] eqn:F; [|exact H]. simpl.
    apply find_some in F. destruct F as [Hy _]. destruct (Hnb x y Hx Hy) as [Vy N].
    apply grade_axis_inv; [exact Hx|]. destruct H as [HA HW]. split.
    - intros z c Hc. simpl in Hc. destruct (axis_dec z x) as [->|Hne].
      + rewrite upd_a_same in Hc. apply in_app_or in Hc. destruct Hc as [Hc|Hc]; [exact (HA _ _ Hc)|].
        exact (transported_good s y x Hx Vy N HA c Hc).
      + rewrite upd_a_other in Hc by exact Hne. exact (HA _ _ Hc).
    - intros w sec Hs. simpl in Hs. destruct (HW _ _ Hs) as (H1 & H2). split; [|exact H2]. simpl.
      destruct (axis_dec (w_axis (s_src sec)) x) as [E|Hne].
      + rewrite E. rewrite upd_a_same. apply in_or_app. left. rewrite <- E. exact H1.
      + rewrite upd_a_other by exact Hne. exact H1.
  Qed.

  Lemma copy_block_inv s b : b < n -> Inv s -> Inv (fst (copy_block s b)).
  Proof.
    intros Hb H. unfold C04_Payload.copy_block. destruct (b_defined s b); [exact H|].
    apply fold_left_inv_in with (P := fun sb => Inv (fst sb)); [|exact H].
    intros [s' u'] x Hx H'. simpl in *. pose proof (copy_axis_inv s' x (va4_of_block b x Hb Hx) H') as K.
    destruct (copy_axis s' x) as [s'' u'']. exact K.
  Qed.

  Lemma scan_inv todo : forall s before upd, Forall (fun i => i < n) todo -> Forall (fun i => i < n) before -> Inv s ->
    Inv (fst (fst (scan s before todo upd))) /\ Forall (fun i => i < n) (snd (fst (scan s before todo upd))).
  Proof.
    induction todo as [|i rest IH]; intros s before upd Ht Hb H; simpl.
    - split; assumption.
    - inversion Ht; subst. destruct (b_defined s i).
      + simpl. split; [exact H|]. apply Forall_app. split; assumption.
      + pose proof (copy_block_inv s i H2 H) as K. destruct (copy_block s i) as [s' u]. simpl in K.
        apply IH; auto. apply Forall_app. split; [exact Hb|]. constructor; [exact H2|constructor].
  Qed.

  Lemma propagate_inv fuel : forall s undef s', Forall (fun i => i < n) undef -> Inv s ->
    propagate fuel s undef = Done s' -> Inv s'.
  Proof.
    induction fuel as [|f IH]; intros s undef s' Hu H R.
    - destruct undef; simpl in R; [inversion R; subst; exact H | discriminate].
    - destruct undef as [|i rest]; [simpl in R; inversion R; subst; exact H|].
      cbn [C04_Payload.propagate] in R.
      pose proof (scan_inv (i :: rest) s [] false Hu (Forall_nil _) H) as [K1 K2].
      destruct (scan s [] (i :: rest) false) as [[s1 undef1] upd1]. simpl in K1, K2.
      destruct upd1.
      + exact (IH _ _ _ K2 K1 R).
      + destruct undef1; [inversion R; subst; exact K1 | discriminate].
  Qed.

  Theorem final_inv s : final bs eor o_coin o_nbrs = Some s -> Inv s.
  Proof.
    unfold final. destruct (propagate (fuel4 bs) (grade_blocks bs eor o_coin (init bs)) (seq 0 n)) as [s'| |] eqn:R;
      try discriminate.
    intro E. inversion E; subst s'.
    assert (Forall (fun i => i < n) (seq 0 n)) as HF.
    { apply Forall_forall. intros i Hi. apply in_seq in Hi. lia. }
    exact (propagate_inv _ _ _ _ HF (grade_blocks_inv _ init_inv) R).
  Qed.
End Transport.

(** valid oracles give [coin_ok] and [nbrs_ok] *)
Lemma oracle_ok4_spec bs o_coin o_nbrs :
  oracle_ok4 bs o_coin o_nbrs = true -> coin_ok bs o_coin /\ nbrs_ok bs o_nbrs.
Proof.
  intro H. unfold oracle_ok4 in H. apply andb_true_iff in H. destruct H as [H1 H2].
  rewrite forallb_forall in H1, H2. split.
  - intros w c Hw Hc. specialize (H1 w Hw). apply perm_of_incl in H1; [|intros; apply wire_eqb_eq; auto].
    destruct H1 as [H1 _]. specialize (H1 c Hc). apply in_coin_set in H1. unfold vw in H1. rewrite nblocks_gb in H1. exact H1.
  - intros x y Hx Hy. specialize (H2 x Hx). apply perm_of_incl in H2; [|intros; apply axis_eqb_eq; auto].
    destruct H2 as [H2 _]. specialize (H2 y Hy). apply in_nbr_set in H2. unfold va in H2. rewrite nblocks_gb in H2. exact H2.
Qed.

(** [oriented], decided over the finitely many wires of the assembly *)
Definition oriented_b (bs : list blk4) (dir : axis -> bool) : bool :=
  forallb (fun w => forallb (fun c =>
    implb (coincident (gb bs) w c) (Bool.eqb (aligned (gb bs) c w) (Bool.eqb (dir (w_axis c)) (dir (w_axis w)))))
    (all_wires (nblocks4 bs))) (all_wires (nblocks4 bs)).

Lemma oriented_b_spec bs dir : oriented_b bs dir = true -> oriented bs dir.
Proof.
  intros H w c Hw Hc C. unfold oriented_b in H. rewrite forallb_forall in H. specialize (H w Hw).
  rewrite forallb_forall in H. specialize (H c Hc). rewrite C in H. simpl in H. apply Bool.eqb_prop in H. exact H.
Qed.
