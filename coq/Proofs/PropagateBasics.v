(** Basic facts about Model/Propagate.v: identifiers, membership, what each operation writes,
    monotonicity of definedness. *)
From Coq Require Import List Bool Arith Lia.
From CB Require Import Model.Propagate.
Import ListNotations.
Set Default Proof Using "Type".

Lemma wire_eqb_eq u w : wire_eqb u w = true <-> u = w.
Proof.
  destruct u as [[a b] c], w as [[d e] f]. unfold wire_eqb. simpl.
  rewrite !andb_true_iff, !Nat.eqb_eq. split.
  - intros [[-> ->] ->]. reflexivity.
  - intro H. inversion H. auto.
Qed.

Lemma wire_eqb_refl w : wire_eqb w w = true.
Proof. apply wire_eqb_eq. reflexivity. Qed.

Lemma wire_eqb_neq u w : u <> w -> wire_eqb u w = false.
Proof. intro H. destruct (wire_eqb u w) eqn:E; [|reflexivity]. apply wire_eqb_eq in E. contradiction. Qed.

Lemma wire_eq_dec (a b : wire) : {a = b} + {a <> b}.
Proof. repeat decide equality. Qed.

Lemma axis_eqb_eq x y : axis_eqb x y = true <-> x = y.
Proof.
  destruct x as [a b], y as [c d]. unfold axis_eqb. simpl.
  rewrite andb_true_iff, !Nat.eqb_eq. split.
  - intros [-> ->]. reflexivity.
  - intro H. inversion H. auto.
Qed.

Lemma axis_eqb_refl x : axis_eqb x x = true.
Proof. apply axis_eqb_eq. reflexivity. Qed.

Lemma axis_eqb_neq x y : x <> y -> axis_eqb x y = false.
Proof. intro H. destruct (axis_eqb x y) eqn:E; [|reflexivity]. apply axis_eqb_eq in E. contradiction. Qed.

(** membership *)
Lemma in_wires_of_axis w x : In w (wires_of_axis x) <-> w_axis w = x /\ snd w < 4.
Proof.
  unfold wires_of_axis. rewrite in_map_iff. destruct w as [[b a] k], x as [b' a']. unfold w_axis. simpl. split.
  - intros [k' [E Hk]]. inversion E; subst. split; [reflexivity|]. simpl in Hk. lia.
  - intros [E Hk]. inversion E; subst. exists k. split; [reflexivity|]. simpl.
    destruct k as [|[|[|[|k]]]]; auto; lia.
Qed.

Lemma in_axes_of_block x b : In x (axes_of_block b) <-> fst x = b /\ snd x < 3.
Proof.
  unfold axes_of_block. rewrite in_map_iff. destruct x as [b' a]. simpl. split.
  - intros [a' [E Ha]]. inversion E; subst. split; [reflexivity|]. simpl in Ha. lia.
  - intros [E Ha]. subst. exists a. split; [reflexivity|]. simpl. destruct a as [|[|[|a]]]; auto; lia.
Qed.

Lemma in_all_axes x n : In x (all_axes n) <-> fst x < n /\ snd x < 3.
Proof.
  unfold all_axes. rewrite in_flat_map. split.
  - intros [b [Hb Hx]]. apply in_seq in Hb. apply in_axes_of_block in Hx. lia.
  - intros [H1 H2]. exists (fst x). split; [apply in_seq; lia|]. apply in_axes_of_block. auto.
Qed.

Lemma in_all_wires w n : In w (all_wires n) <-> In (w_axis w) (all_axes n) /\ snd w < 4.
Proof.
  unfold all_wires. rewrite in_flat_map. split.
  - intros [x [Hx Hw]]. apply in_wires_of_axis in Hw. destruct Hw as [E Hk]. subst. auto.
  - intros [H1 H2]. exists (w_axis w). split; [exact H1|]. apply in_wires_of_axis. auto.
Qed.

Lemma wires_of_axis_nodup x : NoDup (wires_of_axis x).
Proof.
  unfold wires_of_axis. simpl.
  repeat constructor; simpl; intuition; try discriminate;
    match goal with H : (_, _, _) = (_, _, _) |- _ => inversion H end.
Qed.

Lemma wire0_in x : In (fst x, snd x, 0) (wires_of_axis x).
Proof. apply in_wires_of_axis. unfold w_axis. simpl. destruct x. simpl. split; [reflexivity|lia]. Qed.

Section Ops.
  Variable bs : list blk.
  Variable o_coin : wire -> list wire.
  Variable o_nbrs : axis -> list axis.

  Notation st := (st).
  Notation w_defined := (w_defined).
  Notation a_defined := (a_defined).
  Notation copy_wire := (copy_wire bs o_coin).
  Notation grade_axis := (grade_axis bs o_coin).
  Notation copy_axis := (copy_axis bs o_coin o_nbrs).
  Notation copy_block := (copy_block bs o_coin o_nbrs).

  Definition mono (s s' : st) : Prop := forall w, w_defined s w = true -> w_defined s' w = true.

  Lemma mono_refl s : mono s s.
  Proof. intros w H. exact H. Qed.

  Lemma mono_trans s1 s2 s3 : mono s1 s2 -> mono s2 s3 -> mono s1 s3.
  Proof. intros H1 H2 w H. auto. Qed.

  Lemma w_defined_iff s w : w_defined s w = true <-> g s w <> [].
  Proof. unfold w_defined. destruct (g s w); simpl; split; intro H; try discriminate; try congruence; auto. Qed.

  Lemma w_defined_false_iff s w : w_defined s w = false <-> g s w = [].
  Proof. unfold w_defined. destruct (g s w); simpl; split; intro H; try discriminate; try congruence; auto. Qed.

  Lemma mono_axis s s' x : mono s s' -> a_defined s x = true -> a_defined s' x = true.
  Proof.
    intros M H. unfold Propagate.a_defined in *. rewrite forallb_forall in *. intros w Hw. apply M. apply H. exact Hw.
  Qed.

  Lemma mono_block s s' b : mono s s' -> b_defined s b = true -> b_defined s' b = true.
  Proof.
    intros M H. unfold b_defined in *. rewrite forallb_forall in *. intros x Hx. eapply mono_axis; eauto.
  Qed.

  Lemma upd_g_same f w v : upd_g f w v w = v.
  Proof. unfold upd_g. rewrite wire_eqb_refl. reflexivity. Qed.

  Lemma upd_g_other f w v u : u <> w -> upd_g f w v u = f u.
  Proof. intro H. unfold upd_g. rewrite wire_eqb_neq by exact H. reflexivity. Qed.

  Lemma upd_a_same f x v : upd_a f x v x = v.
  Proof. unfold upd_a. rewrite axis_eqb_refl. reflexivity. Qed.

  Lemma upd_a_other f x v y : y <> x -> upd_a f x v y = f y.
  Proof. intro H. unfold upd_a. rewrite axis_eqb_neq by exact H. reflexivity. Qed.

  Lemma rev_nonnil {A} (l : list A) : l <> [] -> rev l <> [].
  Proof. destruct l; [congruence|]. simpl. intros _ H. destruct (rev l); discriminate. Qed.

  (** ** copy_wire: writes only [w]; every value written is the (possibly reversed) grading of a
      wire of the oracle list that was defined at that moment *)
  Definition copied_from (s0 : st) (w : wire) (v : list nat) : Prop :=
    exists c, In c (o_coin w) /\ (c = w \/ g s0 c <> []) /\ v <> [] /\
              (v = g s0 c \/ v = rev (g s0 c) \/ c = w).

  Lemma copy_wire_spec_gen (l : list wire) : forall s w,
    let s' := fold_left (fun s c =>
      if w_defined s c
      then {| g := upd_g (g s) w (if aligned bs c w then g s c else rev (g s c)); ach := ach s |}
      else s) l s in
    ach s' = ach s /\ (forall u, u <> w -> g s' u = g s u) /\
    (g s' w = g s w \/ (g s' w <> [] /\ exists c, In c l /\ ((c <> w /\ g s c <> [] /\ (g s' w = g s c \/ g s' w = rev (g s c))) \/ c = w))).
  Proof.
    induction l as [|c l IH]; intros s w; simpl.
    - repeat split; auto.
    - destruct (w_defined s c) eqn:D.
      + set (s1 := {| g := upd_g (g s) w (if aligned bs c w then g s c else rev (g s c)); ach := ach s |}).
        specialize (IH s1 w). simpl in IH. destruct IH as (A & O & V).
        split; [rewrite A; reflexivity|]. split.
        * intros u Hu. rewrite O by exact Hu. simpl. apply upd_g_other. exact Hu.
        * right. apply w_defined_iff in D.
          assert (Hv : g s1 w <> []).
          { simpl. rewrite upd_g_same. destruct (aligned bs c w); [exact D | apply rev_nonnil; exact D]. }
          destruct V as [V | (V1 & c' & Hc' & V2)].
          -- split; [rewrite V; exact Hv|]. exists c. split; [left; reflexivity|].
             destruct (wire_eqb c w) eqn:E.
             ++ right. apply wire_eqb_eq in E. exact E.
             ++ left. split. { intro X. subst. rewrite wire_eqb_refl in E. discriminate. }
                split; [exact D|]. rewrite V. simpl. rewrite upd_g_same.
                destruct (aligned bs c w); auto.
          -- split; [exact V1|]. exists c'. split; [right; exact Hc'|].
             destruct V2 as [(N & G1 & G2) | E]; [|right; exact E].
             left. split; [exact N|]. simpl in G1, G2. rewrite upd_g_other in G1, G2 by exact N. auto.
      + specialize (IH s w). simpl in IH. destruct IH as (A & O & V). repeat split; auto.
        destruct V as [V | (V1 & c' & Hc' & V2)]; [left; exact V|]. right. split; [exact V1|].
        exists c'. split; [right; exact Hc'|]. exact V2.
  Qed.

  Lemma copy_wire_spec s w :
    ach (copy_wire s w) = ach s /\ (forall u, u <> w -> g (copy_wire s w) u = g s u) /\
    (g (copy_wire s w) w = g s w \/
     (g (copy_wire s w) w <> [] /\
      exists c, In c (o_coin w) /\ ((c <> w /\ g s c <> [] /\ (g (copy_wire s w) w = g s c \/ g (copy_wire s w) w = rev (g s c))) \/ c = w))).
  Proof. unfold Propagate.copy_wire. apply copy_wire_spec_gen. Qed.

  Lemma copy_wire_mono s w : mono s (copy_wire s w).
  Proof.
    destruct (copy_wire_spec s w) as (_ & O & V). intros u H.
    destruct (wire_eqb u w) eqn:E.
    - apply wire_eqb_eq in E. subst. apply w_defined_iff. apply w_defined_iff in H.
      destruct V as [V | [V _]]; [rewrite V; exact H | exact V].
    - apply w_defined_iff. apply w_defined_iff in H. rewrite O; [exact H|].
      intro X. subst. rewrite wire_eqb_refl in E. discriminate.
  Qed.
End Ops.
