(** C18 - lemmas about the model of the viewpoint re-orienter. *)
From Coq Require Import List Bool Arith Lia Reals Lra Psatz Permutation.
From CB Require Import Base.Hex Base.Vec3 Model.C18_Finder Model.C18_Reorient Proofs.C18_Finder.
Import ListNotations.

(** * Discrete part *)
Open Scope nat_scope.

Lemma memb_In x l : memb x l = true <-> In x l.
Proof.
  unfold memb. rewrite existsb_exists. split.
  - intros [y [Hy H]]. apply Nat.eqb_eq in H. subst. exact Hy.
  - intros H. exists x. split; [exact H|apply Nat.eqb_refl].
Qed.

Lemma common_points_In x l1 l2 : In x (common_points l1 l2) <-> In x l1 /\ In x l2.
Proof. unfold common_points. rewrite filter_In, memb_In. reflexivity. Qed.

Lemma NoDup_filter {A} (f : A -> bool) l : NoDup l -> NoDup (filter f l).
Proof.
  induction 1 as [|x l Hx Hl IH]; simpl; [constructor|].
  destruct (f x); [constructor; [|exact IH]|exact IH].
  intros H. apply filter_In in H. tauto.
Qed.

Lemma common_points_NoDup l1 l2 : NoDup l1 -> NoDup (common_points l1 l2).
Proof. apply NoDup_filter. Qed.

Lemma NoDup_singleton {A} (l : list A) y : NoDup l -> (forall x, In x l <-> x = y) -> l = [y].
Proof.
  intros Hn H. destruct l as [|a l].
  - exfalso. apply (proj2 (H y) eq_refl).
  - assert (a = y) by (apply H; left; reflexivity). subst a.
    destruct l as [|b l]; [reflexivity|]. exfalso.
    assert (b = y) by (apply H; right; left; reflexivity). subst b.
    inversion Hn as [|? ? Hx _]. apply Hx. left. reflexivity.
Qed.

(** the six quads are the six geometric faces of a hexahedron whose corner [c] is point [g c] *)
Definition geometric (g : nat -> nat) (Q : side -> list nat) : Prop :=
  (forall c c', c < 8 -> c' < 8 -> g c = g c' -> c = c')
  /\ forall s, NoDup (Q s) /\ forall x, In x (Q s) <-> exists c, c < 8 /\ on_side s c = true /\ x = g c.

(** boolean version, used to validate the hypothesis on concrete cases *)
Definition geometricb (g : list nat) (Q : side -> list nat) : bool :=
  is_perm8 g
  && forallb (fun s => nodupb (Q s) && (length (Q s) =? 4) && same_set (Q s) (map (fun c => nth c g 0) (side_corners s))) sides.

(** the only corner on the three sides listed for new corner [k] is [k] *)
Definition corner_triple_ok (k : nat) (abc : side * side * side) : bool :=
  let '(a, b, c) := abc in
  forallb (fun c' => Bool.eqb (on_side a c' && on_side b c' && on_side c c') (c' =? k)) corners.

Lemma corner_sides_ok :
  forallb (fun k => corner_triple_ok k (nth k corner_sides (Bottom, Bottom, Bottom))) corners = true.
Proof. vm_compute. reflexivity. Qed.

Lemma get_common_point_geometric g Q a b c k :
  geometric g Q -> k < 8 -> corner_triple_ok k (a, b, c) = true ->
  get_common_point (Q a) (Q b) (Q c) = Some (g k).
Proof.
  intros [Hinj HQ] Hk Hok. unfold get_common_point.
  assert (Hfin : forall c', c' < 8 -> (on_side a c' && on_side b c' && on_side c c' = true <-> c' = k)).
  { intros c' Hc'. unfold corner_triple_ok in Hok. rewrite forallb_forall in Hok.
    specialize (Hok c' (proj1 (In_corners c') Hc')). apply eqb_prop in Hok. rewrite Hok. apply Nat.eqb_eq. }
  rewrite (NoDup_singleton (common_points (common_points (Q a) (Q b)) (Q c)) (g k)); [reflexivity| |].
  - apply common_points_NoDup, common_points_NoDup. apply HQ.
  - intros x. rewrite !common_points_In. rewrite (proj2 (HQ a) x), (proj2 (HQ b) x), (proj2 (HQ c) x). split.
    + intros [[[c1 [H1 [S1 E1]]] [c2 [H2 [S2 E2]]]] [c3 [H3 [S3 E3]]]].
      assert (c2 = c1) by (apply Hinj; congruence). assert (c3 = c1) by (apply Hinj; congruence). subst c2 c3.
      assert (c1 = k) by (apply Hfin; [exact H1|]; rewrite S1, S2, S3; reflexivity). congruence.
    + intros ->. pose proof (proj2 (Hfin k Hk) eq_refl) as H.
      apply andb_true_iff in H. destruct H as [H S3]. apply andb_true_iff in H. destruct H as [S1 S2].
      repeat split; exists k; auto.
Qed.

Lemma corner_triple_ok_nth k : k < 8 -> corner_triple_ok k (nth k corner_sides (Bottom, Bottom, Bottom)) = true.
Proof.
  intros Hk. pose proof corner_sides_ok as H. rewrite forallb_forall in H. apply H. apply In_corners. exact Hk.
Qed.

(** the core theorem: whatever the order of the triangles, of the points inside a triangle or inside a
    quad, if the six quads are the six geometric faces then the new numbering is the geometric one *)
Lemma assemble_geometric g Q : geometric g Q -> assemble Q = Some (map g corners).
Proof.
  intros HG. unfold assemble, corner_sides. simpl map.
  rewrite (get_common_point_geometric g Q _ _ _ 0 HG) by (try lia; exact (corner_triple_ok_nth 0 ltac:(lia))).
  rewrite (get_common_point_geometric g Q _ _ _ 1 HG) by (try lia; exact (corner_triple_ok_nth 1 ltac:(lia))).
  rewrite (get_common_point_geometric g Q _ _ _ 2 HG) by (try lia; exact (corner_triple_ok_nth 2 ltac:(lia))).
  rewrite (get_common_point_geometric g Q _ _ _ 3 HG) by (try lia; exact (corner_triple_ok_nth 3 ltac:(lia))).
  rewrite (get_common_point_geometric g Q _ _ _ 4 HG) by (try lia; exact (corner_triple_ok_nth 4 ltac:(lia))).
  rewrite (get_common_point_geometric g Q _ _ _ 5 HG) by (try lia; exact (corner_triple_ok_nth 5 ltac:(lia))).
  rewrite (get_common_point_geometric g Q _ _ _ 6 HG) by (try lia; exact (corner_triple_ok_nth 6 ltac:(lia))).
  rewrite (get_common_point_geometric g Q _ _ _ 7 HG) by (try lia; exact (corner_triple_ok_nth 7 ltac:(lia))).
  reflexivity.
Qed.

(** the boolean validation implies the hypothesis *)
Lemma nodupb_NoDup l : nodupb l = true -> NoDup l.
Proof.
  induction l as [|x l IH]; simpl; intros H; [constructor|].
  apply andb_true_iff in H. destruct H as [H1 H2]. constructor; [|apply IH; exact H2].
  intros Hin. apply negb_true_iff in H1. apply memb_In in Hin. unfold memb in Hin. congruence.
Qed.

Lemma same_set_In l m : same_set l m = true -> forall x, In x l <-> In x m.
Proof.
  unfold same_set. intros H x. apply andb_true_iff in H. destruct H as [H1 H2].
  rewrite forallb_forall in H1, H2. split; intros Hx.
  - apply memb_In. apply H1. exact Hx.
  - apply memb_In. apply H2. exact Hx.
Qed.

Lemma nodupb_nth_inj l : nodupb l = true -> forall i j, i < length l -> j < length l -> nth i l 0 = nth j l 0 -> i = j.
Proof. intros H. apply NoDup_nth. apply nodupb_NoDup. exact H. Qed.

Lemma geometricb_sound gl Q : geometricb gl Q = true -> geometric (fun c => nth c gl 0) Q.
Proof.
  unfold geometricb. intros H. apply andb_true_iff in H. destruct H as [Hp HQ].
  unfold is_perm8 in Hp. apply andb_true_iff in Hp. destruct Hp as [Hp _]. apply andb_true_iff in Hp.
  destruct Hp as [Hlen Hnd]. apply Nat.eqb_eq in Hlen. split.
  - intros c c' Hc Hc' E. apply (nodupb_nth_inj gl Hnd); lia || exact E.
  - intros s. rewrite forallb_forall in HQ.
    assert (Hs : In s sides) by (destruct s; simpl; tauto).
    specialize (HQ s Hs). apply andb_true_iff in HQ. destruct HQ as [HQ Hset].
    apply andb_true_iff in HQ. destruct HQ as [Hnd' _]. split; [apply nodupb_NoDup; exact Hnd'|].
    intros x. rewrite (same_set_In _ _ Hset x). rewrite in_map_iff. unfold side_corners. split.
    + intros [c [E Hin]]. apply filter_In in Hin. destruct Hin as [Hc Hon]. exists c. split; [apply In_corners; exact Hc|auto].
    + intros [c [Hc [Hon E]]]. exists c. split; [auto|]. apply filter_In. split; [apply In_corners; exact Hc|exact Hon].
Qed.

(** same eight points *)
Lemma map_nth_perm8 gl : is_perm8 gl = true -> map (fun c => nth c gl 0) corners = gl.
Proof.
  unfold is_perm8. intros H. apply andb_true_iff in H. destruct H as [H _]. apply andb_true_iff in H.
  destruct H as [Hlen _]. apply Nat.eqb_eq in Hlen.
  do 9 (destruct gl as [|? gl]; try discriminate). reflexivity.
Qed.

Lemma perm8_Permutation gl : is_perm8 gl = true -> Permutation gl (seq 0 8).
Proof.
  unfold is_perm8. intros H. apply andb_true_iff in H. destruct H as [H Hv]. apply andb_true_iff in H.
  destruct H as [Hlen Hnd]. apply Nat.eqb_eq in Hlen. apply NoDup_Permutation_bis.
  - apply nodupb_NoDup. exact Hnd.
  - rewrite seq_length. lia.
  - intros x Hx. rewrite forallb_forall in Hv. specialize (Hv x Hx). unfold valid in Hv.
    apply Nat.ltb_lt in Hv. apply in_seq. lia.
Qed.

(** * Real part: the observer frame *)
Open Scope R_scope.

Lemma norm2_pos_norm v : 0 < norm2 v -> 0 < norm v.
Proof. apply norm_pos_of_norm2. Qed.

Lemma unit_vector_norm2 v : 0 < norm2 v -> norm2 (unit_vector v) = 1.
Proof.
  intros H. unfold unit_vector. rewrite norm2_scale. pose proof (norm2_pos_norm v H) as Hn.
  rewrite <- (norm_sq v). field. lra.
Qed.

Lemma unit_vector_of_unit v : norm2 v = 1 -> unit_vector v = v.
Proof.
  intros H. unfold unit_vector, norm. rewrite H, sqrt_1. apply vec_eq; vec_simpl; field.
Qed.

Lemma dot_unit_l v x : 0 < norm v -> dot (unit_vector v) x = dot v x / norm v.
Proof. intros H. rewrite dot_comm, dot_unit_vector by exact H. rewrite dot_comm. reflexivity. Qed.

Lemma norm2_sub_scale v u k : norm2 (vsub v (vscale k u)) = norm2 v - 2 * k * dot v u + k * k * norm2 u.
Proof. vec_simpl. ring. Qed.

Lemma dot_sub_scale x v u k : dot x (vsub v (vscale k u)) = dot x v - k * dot x u.
Proof. vec_simpl. ring. Qed.

Lemma cross_scale_scale a b k l : cross (vscale k a) (vscale l b) = vscale (k * l) (cross a b).
Proof. vec_ring. Qed.

(** an orthonormal frame with the opposite sides carrying opposite directions *)
Definition orthoframe (N : side -> vec) : Prop :=
  norm2 (N Front) = 1 /\ norm2 (N Top) = 1 /\ norm2 (N Left) = 1
  /\ dot (N Front) (N Top) = 0 /\ dot (N Front) (N Left) = 0 /\ dot (N Top) (N Left) = 0
  /\ N Back = vopp (N Front) /\ N Bottom = vopp (N Top) /\ N Right = vopp (N Left).

Section Frame.
  Variables observer ceiling center : vec.
  Let a := vsub observer center.
  Let b := vsub ceiling center.
  (** general position: the directions to the observer and to the ceiling point are not parallel *)
  Hypothesis general : 0 < norm2 (cross a b).

  Let vo := v_observer observer center.
  Let vc0 := unit_vector b.
  Let w := vsub vc0 (vscale (dot vc0 vo) vo).
  Let vc := v_ceiling observer ceiling center.
  Let vl := v_left observer ceiling center.

  Lemma general_a : 0 < norm2 a.
  Proof.
    pose proof (lagrange a b) as L. pose proof (norm2_nonneg a). pose proof (norm2_nonneg b).
    assert (0 <= dot a b * dot a b) by nra.
    destruct (Req_dec (norm2 a) 0) as [E|]; [|lra]. rewrite E in L. nra.
  Qed.

  Lemma general_b : 0 < norm2 b.
  Proof.
    pose proof (lagrange a b) as L. pose proof (norm2_nonneg a). pose proof (norm2_nonneg b).
    assert (0 <= dot a b * dot a b) by nra.
    destruct (Req_dec (norm2 b) 0) as [E|]; [|lra]. rewrite E in L. nra.
  Qed.

  Lemma vo_unit : norm2 vo = 1.
  Proof. apply unit_vector_norm2. apply general_a. Qed.

  Lemma vc0_unit : norm2 vc0 = 1.
  Proof. apply unit_vector_norm2. apply general_b. Qed.

  Lemma cross_vo_vc0 : norm2 (cross vo vc0) = norm2 (cross a b) / (norm2 a * norm2 b).
  Proof.
    unfold vo, v_observer, vc0, unit_vector. fold a. rewrite cross_scale_scale, norm2_scale.
    pose proof (norm2_pos_norm a general_a). pose proof (norm2_pos_norm b general_b).
    rewrite <- (norm_sq a), <- (norm_sq b). field. lra.
  Qed.

  Lemma w_norm2 : norm2 w = 1 - dot vc0 vo * dot vc0 vo.
  Proof. unfold w. rewrite norm2_sub_scale, vo_unit, vc0_unit. ring. Qed.

  Lemma w_pos : 0 < norm2 w.
  Proof.
    rewrite w_norm2. pose proof (lagrange vo vc0) as L. rewrite vo_unit, vc0_unit in L.
    rewrite (dot_comm vc0 vo). rewrite cross_vo_vc0 in L.
    assert (0 < norm2 (cross a b) / (norm2 a * norm2 b)).
    { apply Rdiv_lt_0_compat; [exact general|]. apply Rmult_lt_0_compat; [apply general_a|apply general_b]. }
    lra.
  Qed.

  Lemma vc_unit : norm2 vc = 1.
  Proof. unfold vc, v_ceiling. fold b vc0 vo w. apply unit_vector_norm2. apply w_pos. Qed.

  Lemma vo_dot_w : dot vo w = 0.
  Proof. unfold w. rewrite dot_sub_scale. pose proof vo_unit as H. unfold norm2 in H. rewrite H. rewrite (dot_comm vo vc0). ring. Qed.

  Lemma vo_dot_vc : dot vo vc = 0.
  Proof.
    unfold vc, v_ceiling. fold b vc0 vo w. rewrite dot_unit_vector by (apply norm2_pos_norm, w_pos).
    rewrite vo_dot_w. unfold Rdiv. ring.
  Qed.

  Lemma cross_vo_vc_unit : norm2 (cross vo vc) = 1.
  Proof. rewrite lagrange, vo_unit, vc_unit, vo_dot_vc. ring. Qed.

  Lemma vl_eq : vl = cross vo vc.
  Proof. unfold vl, v_left. fold vo vc. apply unit_vector_of_unit. apply cross_vo_vc_unit. Qed.

  Lemma frame_orthoframe : orthoframe (frame_normal observer ceiling center).
  Proof.
    unfold orthoframe, frame_normal. fold vo vc vl. rewrite vl_eq.
    repeat split; try reflexivity.
    - apply vo_unit.
    - apply vc_unit.
    - apply cross_vo_vc_unit.
    - apply vo_dot_vc.
    - apply dot_cross_self_l.
    - apply dot_cross_self_r.
  Qed.

  (** x = left -> right, y = front -> back, z = bottom -> top is a right-handed orthonormal frame *)
  Lemma frame_right_handed :
    let N := frame_normal observer ceiling center in triple (N Right) (N Back) (N Top) = 1.
  Proof.
    simpl. fold vo vc vl. rewrite vl_eq.
    replace (triple (vopp (cross vo vc)) (vopp vo) vc) with (norm2 (cross vo vc)) by (vec_simpl; ring).
    apply cross_vo_vc_unit.
  Qed.

  (** the front direction points from the block to the observer *)
  Lemma front_towards_observer : dot (frame_normal observer ceiling center Front) a = norm a.
  Proof.
    simpl. unfold v_observer. fold a. pose proof (norm2_pos_norm a general_a) as H.
    rewrite dot_unit_l by exact H. fold (norm2 a). rewrite <- norm_sq. field. lra.
  Qed.

  (** the top direction has a positive component towards the ceiling point *)
  Lemma top_towards_ceiling : 0 < dot (frame_normal observer ceiling center Top) b.
  Proof.
    simpl. fold vc. unfold vc, v_ceiling. fold b vc0 vo w.
    pose proof (norm2_pos_norm w w_pos) as Hw. pose proof (norm2_pos_norm b general_b) as Hb.
    rewrite dot_unit_l by exact Hw.
    assert (E : dot w b = norm b * norm2 w).
    { assert (Eb : b = vscale (norm b) vc0).
      { unfold vc0, unit_vector. apply vec_eq; vec_simpl; field; lra. }
      rewrite Eb at 1. replace (dot w (vscale (norm b) vc0)) with (norm b * dot w vc0) by (vec_simpl; ring).
      f_equal. rewrite w_norm2. unfold w. rewrite dot_comm, dot_sub_scale.
      pose proof vc0_unit as H1. unfold norm2 in H1. rewrite H1. ring. }
    rewrite E. rewrite <- (norm_sq w). unfold Rdiv. rewrite Rmult_assoc, Rmult_assoc, Rinv_r by lra.
    rewrite Rmult_1_r. apply Rmult_lt_0_compat; assumption.
  Qed.
End Frame.

(** * Real part: when does the alignment heuristic group the right triangles?

    Sufficient condition: every (outward, unit) triangle normal deviates by less than 45 degrees from
    the frame direction of the face it belongs to.  Then for every direction the two triangles of
    that face have an alignment above sqrt 2 / 2 and every other triangle one below it. *)
Lemma bessel2 n d d' :
  norm2 d = 1 -> norm2 d' = 1 -> dot d d' = 0 -> dot n d * dot n d + dot n d' * dot n d' <= norm2 n.
Proof.
  intros H1 H2 H0.
  pose proof (norm2_nonneg (vsub (vsub n (vscale (dot n d) d)) (vscale (dot n d') d'))) as Hp.
  rewrite norm2_sub_scale, norm2_sub_scale, H1, H2 in Hp.
  replace (dot (vsub n (vscale (dot n d) d)) d') with (dot n d' - dot n d * dot d d') in Hp by (vec_simpl; ring).
  rewrite H0 in Hp. lra.
Qed.

Definition half_sqrt2 : R := sqrt 2 / 2.

Lemma half_sqrt2_sq : half_sqrt2 * half_sqrt2 = 1 / 2.
Proof. unfold half_sqrt2. pose proof (sqrt_sqrt 2). lra. Qed.

Lemma half_sqrt2_pos : 0 < half_sqrt2.
Proof. unfold half_sqrt2. pose proof (sqrt_lt_R0 2). lra. Qed.

Lemma align_other_orth n d d' :
  norm2 n = 1 -> norm2 d = 1 -> norm2 d' = 1 -> dot d d' = 0 ->
  half_sqrt2 < dot n d' -> dot n d < half_sqrt2.
Proof.
  intros Hn H1 H2 H0 Hal. pose proof (bessel2 n d d' H1 H2 H0) as B. rewrite Hn in B.
  pose proof half_sqrt2_sq. pose proof half_sqrt2_pos.
  destruct (Rlt_dec (dot n d) half_sqrt2); [assumption|]. exfalso. nra.
Qed.

Lemma align_other_opp n d :
  half_sqrt2 < dot n (vopp d) -> dot n d < half_sqrt2.
Proof.
  intros H. replace (dot n (vopp d)) with (- dot n d) in H by (vec_simpl; ring).
  pose proof half_sqrt2_pos. lra.
Qed.

Lemma dot_vopp_r n d : dot n (vopp d) = - dot n d.
Proof. vec_simpl. ring. Qed.

Lemma norm2_vopp d : norm2 (vopp d) = norm2 d.
Proof. vec_simpl. ring. Qed.

Lemma dot_vopp_vopp a b : dot (vopp a) (vopp b) = dot a b.
Proof. vec_simpl. ring. Qed.

Lemma dot_vopp_l a b : dot (vopp a) b = - dot a b.
Proof. vec_simpl. ring. Qed.

Lemma orthoframe_unit N s : orthoframe N -> norm2 (N s) = 1.
Proof.
  intros (H1 & H2 & H3 & _ & _ & _ & E1 & E2 & E3).
  destruct s; rewrite ?E1, ?E2, ?E3, ?norm2_vopp; assumption.
Qed.

Lemma grouping_separation N n s s' :
  orthoframe N -> norm2 n = 1 -> s <> s' ->
  half_sqrt2 < dot n (N s) -> dot n (N s') < half_sqrt2.
Proof.
  intros HF Hn Hne Hal. pose proof HF as (H1 & H2 & H3 & O1 & O2 & O3 & E1 & E2 & E3).
  pose proof half_sqrt2_pos as Hp.
  assert (Horth : forall d d', norm2 d = 1 -> norm2 d' = 1 -> dot d d' = 0 ->
                  (half_sqrt2 < dot n d' -> dot n d < half_sqrt2)
                  /\ (half_sqrt2 < dot n d' -> dot n (vopp d) < half_sqrt2)
                  /\ (half_sqrt2 < dot n (vopp d') -> dot n d < half_sqrt2)
                  /\ (half_sqrt2 < dot n (vopp d') -> dot n (vopp d) < half_sqrt2)).
  { intros d d' Hd Hd' Hdd'. repeat split; intros Hx.
    - apply (align_other_orth n d d'); assumption.
    - apply (align_other_orth n (vopp d) d'); rewrite ?norm2_vopp, ?dot_vopp_l; try assumption. rewrite Hdd'. ring.
    - apply (align_other_orth n d (vopp d')); rewrite ?norm2_vopp; try assumption. rewrite dot_vopp_r, Hdd'. ring.
    - apply (align_other_orth n (vopp d) (vopp d')); rewrite ?norm2_vopp; try assumption. rewrite dot_vopp_vopp. assumption. }
  assert (O1' : dot (N Top) (N Front) = 0) by (rewrite dot_comm; exact O1).
  assert (O2' : dot (N Left) (N Front) = 0) by (rewrite dot_comm; exact O2).
  assert (O3' : dot (N Left) (N Top) = 0) by (rewrite dot_comm; exact O3).
  destruct (Horth _ _ H1 H2 O1) as (A1 & A2 & A3 & A4).
  destruct (Horth _ _ H1 H3 O2) as (B1 & B2 & B3 & B4).
  destruct (Horth _ _ H2 H3 O3) as (C1 & C2 & C3 & C4).
  destruct (Horth _ _ H2 H1 O1') as (D1 & D2 & D3 & D4).
  destruct (Horth _ _ H3 H1 O2') as (F1 & F2 & F3 & F4).
  destruct (Horth _ _ H3 H2 O3') as (G1 & G2 & G3 & G4).
  destruct s, s'; try congruence; rewrite ?E1, ?E2, ?E3 in *; auto;
    try (apply align_other_opp; assumption);
    try (rewrite dot_vopp_r in Hal; lra);
    try (rewrite dot_vopp_r; lra).
Qed.

(** * The final forms used by Properties/C18.v *)
Open Scope nat_scope.

Lemma numbering_table k a b c : k < 8 -> nth k corner_sides (Bottom, Bottom, Bottom) = (a, b, c) ->
  forall c', c' < 8 -> (on_side a c' = true /\ on_side b c' = true /\ on_side c c' = true <-> c' = k).
Proof.
  intros Hk E c' Hc'. pose proof (corner_triple_ok_nth k Hk) as H. rewrite E in H.
  unfold corner_triple_ok in H. rewrite forallb_forall in H.
  specialize (H c' (proj1 (In_corners c') Hc')). apply eqb_prop in H. split.
  - intros [H1 [H2 H3]]. rewrite H1, H2, H3 in H. simpl in H. symmetry in H. apply Nat.eqb_eq in H. exact H.
  - intros ->. rewrite Nat.eqb_refl in H. apply andb_true_iff in H. destruct H as [H H3].
    apply andb_true_iff in H. tauto.
Qed.

Lemma reorient_same_points (hull : list tri) (rank : side -> list nat) (gl : list nat) qs :
  length hull = 12 ->
  group_loop hull rank normals_order (seq 0 12) = Some qs ->
  geometricb gl (quad_of qs) = true ->
  reorient hull rank = Some gl /\ Permutation gl (seq 0 8).
Proof.
  intros Hlen Hg Hb. pose proof (geometricb_sound gl _ Hb) as HG.
  assert (Hp : is_perm8 gl = true).
  { unfold geometricb in Hb. apply andb_true_iff in Hb. tauto. }
  split.
  - unfold reorient. rewrite Hlen, Nat.eqb_refl. cbv beta iota delta [negb]. rewrite Hg.
    rewrite (assemble_geometric _ _ HG). rewrite (map_nth_perm8 gl Hp). reflexivity.
  - apply perm8_Permutation. exact Hp.
Qed.

Lemma numbering_independent (A : Type) (G : nat -> A) (pos1 pos2 : nat -> A) (g1 g2 : nat -> nat)
      (Q1 Q2 : side -> list nat) :
  geometric g1 Q1 -> geometric g2 Q2 ->
  (forall c, c < 8 -> pos1 (g1 c) = G c) -> (forall c, c < 8 -> pos2 (g2 c) = G c) ->
  option_map (map pos1) (assemble Q1) = Some (map G corners)
  /\ option_map (map pos1) (assemble Q1) = option_map (map pos2) (assemble Q2).
Proof.
  intros H1 H2 P1 P2.
  rewrite (assemble_geometric _ _ H1), (assemble_geometric _ _ H2). cbv [option_map].
  assert (E1 : map pos1 (map g1 corners) = map G corners).
  { rewrite map_map. apply map_ext_in. intros c Hc. apply P1. apply In_corners. exact Hc. }
  assert (E2 : map pos2 (map g2 corners) = map G corners).
  { rewrite map_map. apply map_ext_in. intros c Hc. apply P2. apply In_corners. exact Hc. }
  rewrite E1, E2. split; reflexivity.
Qed.

Lemma geometric_id : geometric (fun c => c) (fun s => side_corners s).
Proof.
  split; [intros; assumption|]. intros s. split.
  - apply nodupb_NoDup. destruct s; vm_compute; reflexivity.
  - intros x. unfold side_corners. rewrite filter_In. split.
    + intros [Hx Hon]. exists x. split; [apply In_corners; exact Hx|auto].
    + intros [c [Hc [Hon E]]]. subst. split; [apply In_corners; exact Hc|exact Hon].
Qed.

Open Scope R_scope.

Lemma right_handed_frame (observer ceiling center : vec) :
  0 < norm2 (cross (vsub observer center) (vsub ceiling center)) ->
  let N := frame_normal observer ceiling center in
  orthoframe N
  /\ triple (N Right) (N Back) (N Top) = 1
  /\ dot (N Front) (vsub observer center) = norm (vsub observer center)
  /\ 0 < dot (N Top) (vsub ceiling center).
Proof.
  intros Hgen N. split; [|split; [|split]].
  - apply frame_orthoframe. exact Hgen.
  - apply (frame_right_handed observer ceiling center Hgen).
  - apply front_towards_observer. exact Hgen.
  - apply top_towards_ceiling. exact Hgen.
Qed.

Lemma example_orthoframe :
  orthoframe (fun s => match s with Front => (0, -1, 0) | Back => (0, 1, 0) | Top => (0, 0, 1) | Bottom => (0, 0, -1)
                                    | Left => (-1, 0, 0) | Right => (1, 0, 0) end).
Proof.
  unfold orthoframe. split; [|split; [|split; [|split; [|split; [|split; [|split; [|split]]]]]]];
    try (vec_simpl; ring); apply vec_eq; vec_simpl; ring.
Qed.
